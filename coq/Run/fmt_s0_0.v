From FP Require Import Lexer Parser ShowPT Digest Formatter.
From Coq Require Import String List NArith.
Import ListNotations.
Open Scope string_scope.
Set Printing Width 100000000.
Set Printing Depth 100000000.
Definition show_fres (r : fres) : string :=
  match r with
  | FOk s => "OK:" ++ sh_escaped s ""
  | FErr s => "ERR:" ++ sh_escaped s ""
  | FPanic p => "PANIC:" ++ p
  end.
Definition check (rs : list rune) : string := digest (show_fres (format_res rs)).
Definition full (rs : list rune) : string := show_fres (format_res rs).
Eval vm_compute in ("<<<M1557>>>" ++ check (runes_of_ascii "

  // top
  options  // c0
	{ 	 // c1
	FixedStringPadFromLeft=	// c3a
  	// c3b
true
    // c4
	;
        // c5
  FixedStringPadChar// c6
  	=  // c7
    '0'
    // c8
    	;
	    // c9

}	// c10

	packet	// c11
		Leg 	 // c12
  	{ 
    // c13
repeat // c14
  InSym93
// c15
{ 
      // c16
    zchar[
        // c17
      3	// c18

	]
// c19
    Acct

// c20
    	, 
      // c21

  string  // c22
	  Side2  // c23a
		// c23b
  , // c24
	i32
	Flags
	,
	// c27
  f32  // c28
      Note // c29a

	// c29b
      , 	 // c30a
    // c30b
i32
// c31
	msgKind	// c32a
// c32b
  	,

} // c34
    	, 
// c35
		f64  // c36a
    // c36b
Note
    // c37

,	// c38

	uint16 
  // c39
    	Px  // c40
  ,	// c41a
	// c41b
  } 
      // c42
  packet
	// c43
		Quote	// c44a

// c44b

	{	// c45a
    // c45b
  zchar[  // c46
	  2]  // c48a
	// c48b
OrderId
	// c49
		,

    } // c51

  packet

Ack	// c53
	{	// c54a
  	// c54b
  repeat	// c55a
    // c55b
  string	// c56a
// c56b
		lastPx
	,
    // c58
      zchar[  // c59a
	  // c59b
  4// c60
] 
    // c61
  price , uint32

OrderId // c65a
// c65b
  , 	 // c66
  Quote  
      // c67
	  ,
        // c68
int8	// c69a
  // c69b
	  Acct
    // c70
  , 
      // c71
  } packet Fill 
        // c74
  {
	// c75
	repeat 

// c76
  	Leg // c77
	,	// c78a

  // c78b
	@rightPad  // c79a

	// c79b
  ('0' 	 // c81a

	// c81b
  ) 	 // c82
char[
	// c83
  11
    // c84
	]
    // c85

Note

    ,// c87a
		// c87b
		f64
// c88
  Px  ,
// c90
      @rightPad  // c91a
	  // c91b
	(// c92

'\x00' 
        // c93
      )// c94a

	// c94b
    char[ 	 // c95a
	  // c95b

  5// c96
      ]// c97a
    // c97b
  	Flags// c98
	,zchar[ // c100a
	// c100b
  	9 	 // c101a
  // c101b
    ] 	 // c102
	  x // c103
    ,	// c104a
    // c104b
string // c105a
// c105b
    msgKind 	 // c106
	,
}// c108
	root
    packet  // c110a

	// c110b
    Order 	 // c111a
	// c111b

	{ 	 // c112
  	Leg 	 // c113
  ,// c114a
	// c114b
  repeat	// c115
	Ack	// c116
	  , @rightPad
    (  // c119a
  	// c119b
	  '\x00'// c120
  ) 
char[ 
      // c122
3
	] // c124a
  // c124b
	  Side2
	    // c125

	,// c126

	repeat  
  // c127
  char[
// c128
	1	// c129a
		// c129b
    ] 	 // c130
seqNo
        // c131

  ,  // c132
u16	// c133

  clOrdID 
// c134
    ,// c135a
// c135b
	match  
      // c136
	clOrdID// c137
as Body
        // c139
	  { 
    // c140
      198	// c141a
  	// c141b
      : 	 // c142
Leg // c143a

// c143b
  	, // c144a
  // c144b
	23
	:

    // c146

	Quote  // c147a
  // c147b

,	// c148
	13// c149a
  // c149b
	  : 	 // c150a
	// c150b
  Ack  // c151
      , 
// c152

159 
    // c153
    :  
  // c154
	Fill 	 // c155a
  // c155b
	, 
// c156
  } 
, u32
venue  // c160

@calculatedFrom( // c161a
    // c161b
""CRC32""	// c162
		) // c163a
  // c163b
	,
// c164
    } // c165a
		// c165b
")).
Eval vm_compute in ("<<<M1620>>>" ++ check (runes_of_ascii "

  packet

    _x

{
leftPad
	`it's`	,

    match
Logon

as
    matchKey
	{
	""packet""
    :  stringy ,

    3

    :
u,//
  ""1"" :
Pad
	}	,

    float32 Z9_	@lengthOf( i8i8

    ) `" ++ [233]%N ++ runes_of_ascii "`

// " ++ [27880; 37322]%N ++ runes_of_ascii "
  ,@tag( 3  )
	match 
  //	t
    As as Pad 
{""""
:chars,""x y""	//
    :	i64_ ,
	}
    , @calculatedFrom(  ""it's""  // c
	)
	@leftPad
(
    ' ')

zchar[ 
0123456789

]falsey
    , match 
A as	packetx
    { [  42 ]
:

matchKey 	 // c
  , }  // `tick` ""quote"" 'q'

	,
@leftPad (

    ' ') match
x
    // c
	as a1

    {

""packet"" 	 //x
    :  a1
    ,	10 :
pack  ""{,}""
    :
	u8x  // a // b
	,
[ 007 , 
00 // trailing space 
]

    : trueish, 
""x y"":	pack 	 //	t
  ,

    """ ++ [233]%N ++ runes_of_ascii "t" ++ [233]%N ++ runes_of_ascii """ :matchKey ,
}
,
@leftPad 
(
	'0' ) uint8x

u
,
zchar[
	3 // a // b
	] 
//	t
  	u `` ,

@rightPad
	( 
' '
	) repeat	_x
	``  ,  }MetaData

Foo{ a1 Z9_
,

options1  T,

u32
    u8x	`crlf
line`
,  metadata
falsey
	, lengthOf
x_y_z , }

packet
calculatedFrom
{
@tag(
3 )string

    A

, match leftPad as
	a1 
{	//	t
0123456789  :
	calculatedFrom	,	}
,
match
crc //

as
	body {00: _x ,	}
,

o@calculatedFrom(""x y"") 
  //
    // " ++ [128512]%N ++ runes_of_ascii " emoji
	,

    }  packet

    T

    { } packet 
Logon
    { @leftPad
( 	 // @lengthOf(
    '\x00') As	@calculatedFrom(

""a	b""
    )
    `line1
line2`

    ,

pack lengthOf	// `tick` ""quote"" 'q'
    	, }	// `tick` ""quote"" 'q'")).
Eval vm_compute in ("<<<M282>>>" ++ check (runes_of_ascii "// a // b
packet stringy	{
string zchar ,
    repeat T
, match
u
as  charz {
007
    //x
    :
//	t
// @lengthOf(
float// trailing space 
,""\" ++ [233]%N ++ runes_of_ascii """ : Logon ""a	b"":
//	t
//	t
pack, } , match uint8x as
    // " ++ [27880; 37322]%N ++ runes_of_ascii "
    roots
{
1
    // `tick` ""quote"" 'q'
    : len
,	}
//x
// " ++ [27880; 37322]%N ++ runes_of_ascii "
, }packet zchar {	roots options1
    //x
    `// not a comment` , int64 As
,
    i16 float
    @lengthOf( falsey
    // " ++ [27880; 37322]%N ++ runes_of_ascii "
    ) `a\`
    , int64 msg_type `tab	here`
, @tag(0
    // `tick` ""quote"" 'q'
    ) repeat uint8x ,
    @lengthOf(x
    ) repeat metadata
    , zchar[ 0 ]	int , uint64
    zchar ,zchar[7 // " ++ [27880; 37322]%N ++ runes_of_ascii "
]
msg_type
,
@calculatedFrom(
/// triple
// " ++ [27880; 37322]%N ++ runes_of_ascii "
""" ++ [28040; 24687]%N ++ runes_of_ascii """ ) crc
, }
root packet zchar { repeat
leftPad,
} packet
A{
@lengthOf(
    string_ )	x@lengthOf( options1) `two words`,  string
len ,	}packet	falsey{ i64_ @calculatedFrom(	""{,}"" ) , repeat
string chars
, zchar[ 7]calculatedFrom
, Header
    { char u`two words`, repeat char[] // c
tag
    `say ""hi""`	, Z9_
    @lengthOf(
T ) `line1
line2` , } , msg_type @calculatedFrom( ""// no comment""
    ) , @rightPad (// packet A { u8 x, }
'\x00' )
@lengthOf( asx )
falsey
,
    } // packet A { u8 x, }")).
Eval vm_compute in ("<<<M174>>>" ++ check (runes_of_ascii "
root packet asx { leftPad
    {u128 @calculatedFrom( ""1""
) , //x
}
, lengthOf // packet A { u8 x, }
@calculatedFrom( """ ++ [128512]%N ++ runes_of_ascii """ ) `a\`
, i64 // `tick` ""quote"" 'q'
Packet @lengthOf(  calculatedFrom ) , @calculatedFrom(
""" ++ [233]%N ++ runes_of_ascii "t" ++ [233]%N ++ runes_of_ascii """ ) stringy	a1 `doc` // `tick` ""quote"" 'q'
, @rightPad
    (
    // a // b
    )
    // c
    a1
    `a\`
,  char
Header @lengthOf(
    x )`say ""hi""`, uint8x
Z9_ `tab	here` ,  }
options
    {
    calculatedFrom// packet A { u8 x, }
= 0}	packet metadata {@leftPad ( '\x00'	) f32
    pack
//	t
//
, @tag( 65535 ) u32 uint8x @lengthOf( repeatCount) ``,MetaDataX	{ repeat options1 , match
matchKey as len { """ ++ [128512]%N ++ runes_of_ascii """:
    u8x	, 1 :
zchar
, /// triple
[ ""a\\""
    ,
    ""x y"" ] : charz 0
    :
    x_y_z
    //
    ,[// trailing space 
4294967296// `tick` ""quote"" 'q'
]: asx  , [/// triple
""a\""b"" , ""\n"" , ""\" ++ [233]%N ++ runes_of_ascii """ ,10 ] : _x ,
    }	, uint8  metadata
@lengthOf(float
) ,
zchar[
    255] i8i8 , },
    }root  packet
f32a
    { }")).
Eval vm_compute in ("<<<M1514>>>" ++ check (runes_of_ascii "options {
    FixedStringPadFromLeft = true;
    FixedStringPadChar = '0';
}

packet Leg {
    repeat InSym93 {
        zchar[3] Acct,
        string Side2,
        i32 Flags,
        f32 Note,
        i32 msgKind,
    },
    f64 Note,
    uint16 Px,
}

packet Quote {
    zchar[2] OrderId,
}

packet Ack {
    repeat string lastPx,
    zchar[4] price,
    uint32 OrderId,
    Quote,
    int8 Acct,
}

packet Fill {
    repeat Leg,
    @rightPad('0')
    char[11] Note,
    f64 Px,
    @rightPad('\x00')
    char[5] Flags,
    zchar[9] x,
    string msgKind,
}

root packet Order {
    Leg,
    repeat Ack,
    @rightPad('\x00')
    char[3] Side2,
    repeat char[1] seqNo,
    u16 clOrdID,
    match clOrdID as Body {
        198 : Leg,
        23 : Quote,
        13 : Ack,
        159 : Fill,
    },
    u32 venue @calculatedFrom(""CR\
    C32""),
}")).
Eval vm_compute in ("<<<M1428>>>" ++ check (runes_of_ascii "
// a // b

packet
    stringy	{ @tag(3
	) 	 // trailing space 
  i64 
len ,@calculatedFrom(

    ""1""

    )
char[0
]
    x
@lengthOf( 
Foo 
)  ,

    @calculatedFrom(""""
) body
	    // c
  // " ++ [128512]%N ++ runes_of_ascii " emoji
@lengthOf(

calculatedFrom )  `line1
line2`

,	@calculatedFrom(""it's""	// " ++ [128512]%N ++ runes_of_ascii " emoji
)  // packet A { u8 x, }
	match falsey

// packet A { u8 x, }
as
    u8x{
[
""" ++ [128512]%N ++ runes_of_ascii """ 
, 	 // a // b
	  42 ,

1 
,

10
]:

    Header

    ,
}	, 
        // trailing space 
	// `tick` ""quote"" 'q'
	}
MetaData	// " ++ [128512]%N ++ runes_of_ascii " emoji

stringy{f32a
u128 
`{ , }`

    ,	char[ // a // b
      10 
]

    u128	,
chars
	_x
,
    zchar[65535  // trailing space 
] /// triple
  falsey
`{ , }`, _x

i64_ ,

int32
	Packet`crlf
line`, }
MetaData

lengthOf 
{} 
// trailing space 
 
")).
Eval vm_compute in ("<<<M1363>>>" ++ check (runes_of_ascii "options {
    StringPrefixLenType = u8;
    ArrayPrefixLenType = u32;
    FixedStringPadFromLeft = true;
    FixedStringPadChar = ' ';
}
packet Leg {
}
packet Heartbeat {
    zchar[6] msgKind,
    @rightPad('0') char[3] Qty,
    zchar[9] Side2,
    i8 Acct,
}
packet Logout {
    int8 x,
}
packet Order {
    char[] Acct,
    zchar[8] count,
    u32 OrderId,
    uint8 lastPx,
    u16 clOrdID,
    zchar[7] Note,
}
root packet Reject {
    @leftPad(' ') char[8] Side2,
    i8 clOrdID,
    repeat f32 x,
    u32 lastPx,
    match lastPx as Body {
        [30, 147] : Heartbeat,
        134 : Leg,
        183 : Logout,
        40 : Order,
    },
    u16 Ref @calculatedFrom(""CR\
C32""),
}
")).
Eval vm_compute in ("<<<M206>>>" ++ check (runes_of_ascii "//x
root
    // " ++ [128512]%N ++ runes_of_ascii " emoji
    packet
// `tick` ""quote"" 'q'
/// triple
float{options1 A
,@tag(
42 )
    u8x{ tag //x
@calculatedFrom(	""\" ++ [233]%N ++ runes_of_ascii """) // packet A { u8 x, }
`tab	here` ,
    }
    , int16 asx ,
    @lengthOf( o
    )
@rightPad( ) repeat int
/// triple
/// triple
Logon,@calculatedFrom(""// no comment"" )  @leftPad('\x00')
    @rightPad('0'	)	zchar[ 65535 //x
] o `
`
    ,
    repeat As{ //x
repeat uint16 o ,repeat
char[ // trailing space 
1
    ]o ,
u128
metadata	, repeat char[7	] Header ,
    } , @tag( 0123456789
    ) a1 tag
    , float32 asx ,
    repeat // packet A { u8 x, }
len
``
    ,}
")).
Eval vm_compute in ("<<<M1342>>>" ++ check (runes_of_ascii "options {
    LittleEndian = false;
    ArrayPrefixLenType = u8;
    FixedStringPadFromLeft = true;
    FixedStringPadChar = '0';
}
packet Heartbeat {
    string lastPx,
    uint8 Qty,
    i64 Acct,
    char[4] Ref,
}
packet Fill {
    uint8 Ref,
    Heartbeat,
    f32 OrderId,
    repeat f32 x,
}
root packet Order {
    zchar[2] OrderId,
    zchar[2] Acct,
    zchar[1] Note,
    zchar[9] Qty,
    string price,
    string tag7,
    u32 x,
    match x as Body {
        123 : Fill,
        112 : Heartbeat,
    },
    u32 seqNo @calculatedFrom(""CRC32""),
}
")).
Eval vm_compute in ("<<<M1349>>>" ++ check (runes_of_ascii "options {
    ArrayPrefixLenType = u64;
    FixedStringPadFromLeft = true;
    FixedStringPadChar = '0';
}
packet Quote {
}
packet Ack {
    repeat InNote66 {
        u8 pad0,
    },
}
packet Reject {
}
root packet Order {
    Quote,
    repeat Reject,
    string venue,
    string seqNo,
    uint32 Ref,
    u16 lastPx,
    u32 clOrdID @lengthOf(Body),
    match lastPx as Body {
        190 : Reject,
        186 : Quote,
        22 : Ack,
    },
    u16 Flags @calculatedFrom(""CR\
C32""),
}
")).
Eval vm_compute in ("<<<M140>>>" ++ check (runes_of_ascii "
root packet int{	repeat
    float tag , char[] roots
, @lengthOf( repeatCount ) @lengthOf( // packet A { u8 x, }
rootA)
uint16 o
    `tab	here` ,
    //	t
    i16 Pad `line1
line2` , Pad{match Pad as
    _x
{ [00]
:
    Z9_
, } ,} , repeat zchar calculatedFrom`a\` ,	f64 // @lengthOf(
charz
    //x
    ,Pad
    Foo,@calculatedFrom(
    """ ++ [28040; 24687]%N ++ runes_of_ascii """ )
    charz
    @lengthOf( charz ), @lengthOf(
    rootA ) match o
as body {00 :
x_y_z// " ++ [128512]%N ++ runes_of_ascii " emoji
} ,}
")).
Eval vm_compute in ("<<<M1331>>>" ++ check (runes_of_ascii "packet	Frame

{  u8 HK 
,  u8

BK, u8
    TK
,match 
HK as

Hdr
{	1

    :
    HdrA 
,

2 : HdrB
, },	match	BK
as

Body{  1	:

    BodyA ,  2
:

    BodyB 
,}
	, 
match

    TK as Trl {
	1 : TrlA

,} , } packet HdrA { u8 a  ,
}packet
    HdrB 
{ 
u16
    b
	,  }packet BodyA{ u32 c ,
}packet
    BodyB
	{

    u64
d , }
    packet
TrlA  {  u8
e,} root
	packet
Msg

{ Frame
,
    u8

x,} ")).
Eval vm_compute in ("<<<M106>>>" ++ check (runes_of_ascii "MetaData Pad
    {
    i16 repeatCount , // c
f32 pack `a\`,} packet//
f32a {@lengthOf( metadata // a // b
)match msg_type as matchKey
    {
00: rootA ,  }, @rightPad ( ) match repeatCount as len {
    [/// triple
""x y""
// c
//
,
10] : As , 42: i64_""" ++ [128512]%N ++ runes_of_ascii """	: BodyLength
, 7
: f32a  ,
    }
    ,	@lengthOf( BodyLength )	repeat Foo `line1
line2` , } // @lengthOf(")).
Eval vm_compute in ("<<<M240>>>" ++ check (runes_of_ascii "
packet BodyLength { repeatCount // packet A { u8 x, }
`// not a comment`
,
@lengthOf( lengthOf	)  @tag( 65535
    )@rightPad (
// @lengthOf(
//	t
'0' )/// triple
u8 Logon , } packet chars { o msg_type , @tag( 10)zchar[ 65535
] f32a
,repeat char[]
i64_
`
` ,} root packet f32a { @tag( 255 )repeat u8 stringy, }
")).
Eval vm_compute in ("<<<M1811>>>" ++ check (runes_of_ascii "MetaData T {
    uint8 float,
    repeatCount x,
    char[10] asx,
    char[00] metadata `" ++ [233]%N ++ runes_of_ascii "`,
    u8x asx,
}

MetaData trueish {
    charz string_ `crlf
        line`,
    zchar[42] _x,
}

packet o {
    char[] u8x @calculatedFrom(""abc""),
}

options {
    x = 255;
    u = '0'
}")).
Eval vm_compute in ("<<<M1253>>>" ++ check (runes_of_ascii "// top
packet // c0
Inner // c1
{ // c2
u8 // c3a
  // c3b
a // c4
,
    // c5
} // c6
root // c7
packet // c8a
  // c8b
P // c9
{ // c10a
  // c10b
repeat // c11a
  // c11b
Inner items // c13
, // c14
u8
    // c15
x , // c17a
  // c17b
} // c18
")).
Eval vm_compute in ("<<<M1318>>>" ++ check (runes_of_ascii "packet FooBar // c1
{ u8 a ,
    // c5
} // c6
packet foo_bar // c8a
  // c8b
{
    // c9
u16
    // c10
b , // c12a
  // c12b
} // c13
root // c14
packet R { // c17a
  // c17b
FooBar ,
    // c19
foo_bar // c20
, } ")).
Eval vm_compute in ("<<<M1530>>>" ++ check (runes_of_ascii "packet FooBar {
    u8 a,
    // c5
}// c6

packet foo_bar {
    // c9
    u16 b,// c12a
    // c12b
}// c13

root packet R {
    // c17a
    // c17b
    FooBar,
    // c19
    foo_bar,
}")).
Eval vm_compute in ("<<<M1195>>>" ++ check (runes_of_ascii "// top
packet
    // c0
body
    // c1
{
    // c2
i32
    // c3
f32a
    // c4
`{ , }`
    // c5
,
    // c6
}
    // c7
options
    // c8
{
    // c9
}
    // c10
")).
Eval vm_compute in ("<<<M501>>>" ++ check (runes_of_ascii "packet uint8x
{ match pack
    as msg_type	{
    0123456789 :	float
}
,
} packet //	t
a1
    { } options {packetx
    = '\x00' '\x00'	; u128= ""a	b""  ; }
")).
Eval vm_compute in ("<<<M1272>>>" ++ check (runes_of_ascii "
options{
LittleEndian=

true; } packet
	B	{
u8 a

    ,
string  s, 
}	root

packet

P

{ u16
    L
    @lengthOf(

    B
)
,
B,
    u8
t ,  }")).
Eval vm_compute in ("<<<M539>>>" ++ check (runes_of_ascii "packet uint8x
{ match pack
    as msg_type	{
    0123456789 :	float
}
,
} p" ++ [8232]%N ++ runes_of_ascii "acket //	t
a1
    { } options {packetx
    = '\x00'	; u128= ""a	b""  ; }
")).
Eval vm_compute in ("<<<M492>>>" ++ check (runes_of_ascii "packet uint8x
{ match pack
    as msg_type	{
    0123456789 :	float
}
,
} packet //	t
a1
    { } options {=
    packetx '\x00'	; u128= ""a	b""  ; }
")).
Eval vm_compute in ("<<<M1794>>>" ++ check (runes_of_ascii "packet A {
    match k as n {
        [
            ""a"", ""bb"", ""c c"", ""d"", ""e"",
            ""f"", ""g"", ""h"", ""i""
        ] : B,
        2 : C,
    },
}")).
Eval vm_compute in ("<<<M665>>>" ++ check (runes_of_ascii "// @lengthOf(
packet i8i8 { u128 o , }
options { MetaDataX = true;
    BodyLength =""packet"" x_y_z= 007
crc //x
= ""abc"" ; ;
    msg_type =
i16 }")).
Eval vm_compute in ("<<<M662>>>" ++ check (runes_of_ascii "// @lengthOf(
packet i8i8 { u128 o , }
{ options MetaDataX = true;
    BodyLength =""packet"" x_y_z= 007
crc //x
= ""abc"" ;
    msg_type =
i16 }")).
Eval vm_compute in ("<<<M1705>>>" ++ check (runes_of_ascii "MetaData
	leftPad
    {chars MetaDataX 
,} packet
repeatCount {
	char[255] 
uint8x 	 // c
  `" ++ [233]%N ++ runes_of_ascii "`
    , }MetaData pack 
{

    As	Foo ,
}
")).
Eval vm_compute in ("<<<M1707>>>" ++ check (runes_of_ascii "packet A {
    match k as n {
        [
            ""a"", ""bb"", ""c c"", ""d"", ""e"",
            ""f""
        ] : B,
        2 : C,
    },
}")).
Eval vm_compute in ("<<<M1417>>>" ++ check (runes_of_ascii "packet A {
    match k as n {
        [
            1, 22, ""c c"", 4, 5,
            ""f""
        ] : B,
        2 : C,
    },
}")).
Eval vm_compute in ("<<<M680>>>" ++ check (runes_of_ascii "// @lengthOf(
packet i8i8 { u128 o , }
options { MetaDataX = true;
    BodyLength =""packet"" x_y_z= 007
crc //x
= ""abc""")).
Eval vm_compute in ("<<<M1167>>>" ++ check (runes_of_ascii "MetaData leftPad { chars MetaDataX , } packet repeatCount { char[ 255 ] // c
uint8x `" ++ [233]%N ++ runes_of_ascii "` , } MetaData pack { As Foo , }")).
Eval vm_compute in ("<<<M1663>>>" ++ check (runes_of_ascii "packet Foo {
    tag roots,
    // `tick` ""quote"" 'q'
    i64_,
    @calculatedFrom(""packet"")
    uint32 MetaDataX,
}")).
Eval vm_compute in ("<<<M25>>>" ++ check (runes_of_ascii "packet stringy	{
    } // packet A { u8 x, }
packet
    u128
    { u16 len@lengthOf( u128)	,
    //x
    }
")).
Eval vm_compute in ("<<<M898>>>" ++ check (runes_of_ascii "packet A {
  match k as n {
    [""a"", 22, ""c c"", 4, ""e"", 66, ""g"", 8, ""i"", 10, ""k""] : B
    2 : C
  },
}")).
Eval vm_compute in ("<<<M634>>>" ++ check (runes_of_ascii "
packet
    asx {matc@lengthOfh u128 as lengthOf
{
//	t
// `tick` ""quote"" 'q'
255 : x ,
    } ,	}")).
Eval vm_compute in ("<<<M573>>>" ++ check (runes_of_ascii "
packet
    asx {match u128 u128 as lengthOf
{
//	t
// `tick` ""quote"" 'q'
255 : x ,
    } ,	}")).
Eval vm_compute in ("<<<M563>>>" ++ check (runes_of_ascii "
packet
    asx { {match u128 as lengthOf
{
//	t
// `tick` ""quote"" 'q'
255 : x ,
    } ,	}")).
Eval vm_compute in ("<<<M281>>>" ++ check (runes_of_ascii "
packet
    o	{  }
packet
Pad {
BodyLength // trailing space 
, } packet metadata //x
{}")).
Eval vm_compute in ("<<<M1882>>>" ++ check (runes_of_ascii "

  packet A {match  k
as

n
{
[

    ""a"",
22
, ""c c"", 4
, ""e"" ]
	:B

2 : C
}
,

}

")).
Eval vm_compute in ("<<<M567>>>" ++ check (runes_of_ascii "
packet
    asx { u128 as lengthOf
{
//	t
// `tick` ""quote"" 'q'
255 : x ,
    } ,	}")).
Eval vm_compute in ("<<<M1305>>>" ++ check (runes_of_ascii "packet orderItem {
    u8 a,
}
root packet newOrder {
    orderItem,
    u8 x,
}
")).
Eval vm_compute in ("<<<M817>>>" ++ check (runes_of_ascii "packet A {
  match k as n {
    [1, ""bb"", 007, ""d"", 5] : B,
    2 : C
  },
}")).
Eval vm_compute in ("<<<M813>>>" ++ check (runes_of_ascii "packet A {
  match k as n {
    [1, 22, 007, 4, 5] : B,
    2 : C
  },
}")).
Eval vm_compute in ("<<<M791>>>" ++ check (runes_of_ascii "packet A {
  match k as n {
    [1, ""bb"", 007] : B,
    2 : C
  },
}")).
Eval vm_compute in ("<<<M534>>>" ++ check (runes_of_ascii "packet uint8x
{ match pack
    as msg_type	{
    0123456789 :	")).
Eval vm_compute in ("<<<M1287>>>" ++ check (runes_of_ascii "root packet P {
    repeat string ss,
    repeat u16 ns,
}
")).
Eval vm_compute in ("<<<M148>>>" ++ check (runes_of_ascii "options
{
    a1	=""packet""// a // b
; } // @lengthOf(")).
Eval vm_compute in ("<<<M1212>>>" ++ check (runes_of_ascii "packet body { i32 f32a `{ , }` ,
// c
} options { }")).
Eval vm_compute in ("<<<M347>>>" ++ check (runes_of_ascii "packet As{
/// triple
// packet A { u8 x, }
}

")).
Eval vm_compute in ("<<<M1773>>>" ++ check (runes_of_ascii "options {
    a1 = ""packet"";
}// @lengthOf(")).
Eval vm_compute in ("<<<M1075>>>" ++ check (runes_of_ascii "MetaData M {
}// c
MetaData N {
}// d")).
Eval vm_compute in ("<<<M1774>>>" ++ check (runes_of_ascii "  packet Z9_	{	}

packet
Pad
{  }")).
Eval vm_compute in ("<<<M988>>>" ++ check (runes_of_ascii "packet A {
 u8 x `d" ++ [160]%N ++ runes_of_ascii "`, // c" ++ [160]%N ++ runes_of_ascii "
}")).
Eval vm_compute in ("<<<M1486>>>" ++ check (runes_of_ascii "

  packet A { }
	    // c" ++ [5760]%N)).
Eval vm_compute in ("<<<M268>>>" ++ check (runes_of_ascii " // packet A { u8 x, }")).
Eval vm_compute in ("<<<M1706>>>" ++ check (runes_of_ascii "packet

    A
{ } ")).
Eval vm_compute in ("<<<M744>>>" ++ check (runes_of_ascii "`" ++ [28040; 24687; 31867; 22411]%N ++ runes_of_ascii "` '0' options")).
Eval vm_compute in ("<<<M1056>>>" ++ check (runes_of_ascii "packet A {
}
// c" ++ [6158]%N)).
Eval vm_compute in ("<<<M1226>>>" ++ check (runes_of_ascii "packet // c
x { }")).
Eval vm_compute in ("<<<M99>>>" ++ check (runes_of_ascii "
 // " ++ [128512]%N ++ runes_of_ascii " emoji")).
Eval vm_compute in ("<<<M980>>>" ++ check (runes_of_ascii "// c" ++ [12288]%N)).
Eval vm_compute in ("<<<M745>>>" ++ check ([65533]%N ++ runes_of_ascii "1")).
