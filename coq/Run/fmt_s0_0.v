From FP Require Import Lexer Parser ShowPT Digest Formatter.
From Coq Require Import String List NArith.
Import ListNotations.
Open Scope string_scope.
Set Printing Width 100000000.
Set Printing Depth 100000000.
Definition show_fres (r : fres) : string :=
  match r with
  | FOk s => "OK:" ++ sh_escaped s ""
  | FErr s => "ERR:" ++ sh_escaped s ""
  | FPanic p => "PANIC:" ++ p
  end.
Definition check (rs : list rune) : string := digest (show_fres (format_res rs)).
Definition full (rs : list rune) : string := show_fres (format_res rs).
Eval vm_compute in ("<<<M320>>>" ++ check (runes_of_ascii "packet
    /// triple
    a1 { @rightPad ( ' ' ) @tag( 255
)
@lengthOf( zchar ) string MetaDataX	@calculatedFrom( ""CRC32"" ) // a // b
`crlf
line` ,u8 A @lengthOf( charz
    ) ,
    body ,@rightPad
    ( '0'	)@lengthOf( charz ) match repeatCount as
    Z9_ { 0123456789 : metadata // @lengthOf(
,""" ++ [233]%N ++ runes_of_ascii "t" ++ [233]%N ++ runes_of_ascii """ : float  ,// packet A { u8 x, }
""1"": Logon ,// " ++ [27880; 37322]%N ++ runes_of_ascii "
},
x_y_z`" ++ [233]%N ++ runes_of_ascii "`//x
, @calculatedFrom(	""1"")match Header  as body
    { 4294967296
// @lengthOf(
// @lengthOf(
: MetaDataX
,
""abc"" //x
: packetx
    }
, x_y_z @calculatedFrom( ""\" ++ [233]%N ++ runes_of_ascii """ ),i64_  @calculatedFrom(""abc"")`
`,
@rightPad //	t
(
)
    //	t
    char
    float
@lengthOf(	trueish )
, @tag(42 ) @leftPad ( '\x00' ) @calculatedFrom(	""\n"") repeat string
tag, //x
} packet
tag { repeat T u `
` , string u128 @calculatedFrom( // `tick` ""quote"" 'q'
""packet"" )`u8 x,` ,
// trailing space 
//x
repeat
    f64
stringy `" ++ [233]%N ++ runes_of_ascii "` , u32 leftPad  @lengthOf(float ) , uint32	i8i8
@lengthOf( f32a
) , int@calculatedFrom( """ ++ [233]%N ++ runes_of_ascii "t" ++ [233]%N ++ runes_of_ascii """ )
    ,
    // c
    @calculatedFrom( ""\n""
) @leftPad
    ( '\x00') @rightPad
    ()
    repeat
pack  `// not a comment` , @calculatedFrom( ""1""	)
    char[]  string_
,f64 calculatedFrom
    @lengthOf(	pack)  `tab	here`,@tag(00 ) int8 tag
    ,
} options { f32a
= ""a	b"" _x = false ; _x = '0' o= false /// triple
} packet falsey
    /// triple
    { @tag(
    // trailing space 
    007 ) string falsey,
i64_
@lengthOf(crc),repeat // c
u128 body// packet A { u8 x, }
, char[ 00]roots,/// triple
metadata @lengthOf(packetx // `tick` ""quote"" 'q'
)
    `
`	,// trailing space 
string_
BodyLength, @calculatedFrom(
""it's"" ) repeat matchKey ,
metadata
    @calculatedFrom( ""abc""
)// @lengthOf(
,
@tag( 255 )repeat
Pad
    {
char[] packetx ,repeat o { int16 charz
    // packet A { u8 x, }
    ,packetx {
i8
//
// packet A { u8 x, }
zchar ,} ,char[10 //x
]x
, repeat zchar[ 0123456789 ]
pack , // c
} ,	int ,
i8 asx ,
}
,}
packet leftPad
    { @tag(255
    /// triple
    )repeat uint16 msg_type  ,
    // c
    f32  trueish @calculatedFrom("""" )	`two words` // `tick` ""quote"" 'q'
, @leftPad( '\x00' ) @lengthOf( leftPad
) // a // b
@lengthOf( asx // a // b
)
    //	t
    zchar[ 1] roots @calculatedFrom(
""abc""
) ,pack @lengthOf(
Z9_ ), @tag(
65535) @lengthOf(Header
    ) // c
f64 tag , @tag( 1
)repeat
    u8x, match stringy// c
as x { ""it's"" // " ++ [27880; 37322]%N ++ runes_of_ascii "
: Z9_ ,7 : u128 ,
""// no comment"" :trueish, 00
:
    //	t
    f32a ,
    [3,  1, 00]:	pack,""" ++ [28040; 24687]%N ++ runes_of_ascii """
    // trailing space 
    : options1	,
// `tick` ""quote"" 'q'
//x
} ,
repeat // `tick` ""quote"" 'q'
u128 { repeat
crc
{ int16	int ,  }
// c
// @lengthOf(
, }
    // @lengthOf(
    , @leftPad ( ' '  ) // trailing space 
repeat
zchar[ 255 ]
// " ++ [128512]%N ++ runes_of_ascii " emoji
// `tick` ""quote"" 'q'
int `crlf
line` ,@tag( 1 ) Logon roots
    `// not a comment` , }
")).
Eval vm_compute in ("<<<M1523>>>" ++ check (runes_of_ascii "// top
options {
    StringPrefixLenType = u64;
    ArrayPrefixLenType = u32;// c9a
    // c9b
    FixedStringPadFromLeft = false;
}// c14

packet Party {
    zchar[7] OrderId,// c22
    InTail6 {
        // c24
        repeat char[1] msgKind,// c30
        char[3] Tail,
        char[3] Flags,// c40a
        // c40b
        i16 tag7,// c43a
    },
    @rightPad('0')
    char[12] clOrdID,// c54
}

packet Quote {
    @leftPad('0')
    // c62
    char[11] price,// c67
    repeat InCount7 {
        // c70
        i32 x,// c73a
        // c73b
        Party,// c75a
        // c75b
        u8 Ref,
        u8 tag7,// c81
    },
    // c83
    char[] seqNo,
    // c86
    Party,// c88
}// c89

packet Logon {
    @rightPad('\x00')
    // c96a
    // c96b
    char[5] Note,
    i16 sym,// c104a
    // c104b
    InPrice72 {
        // c106
        char[9] Ref,
        // c111
        zchar[1] venue,// c116a
    },// c118a
    // c118b
    char[] clOrdID,// c121a
}// c122

root packet Reject {
    // c126
    repeat Logon,// c129a
    @leftPad(' ')
    // c133a
    // c133b
    char[4] seqNo,
    // c138
    zchar[5] Acct,// c143
    u32 x,// c146
    u16 f1 @lengthOf(Body),
    match x as Body {
        // c157a
        // c157b
        [169, 74] : Quote,
        // c165
        45 : Party,
        // c169
        7 : Logon,
    },
}// c176a")).
Eval vm_compute in ("<<<M134>>>" ++ check (runes_of_ascii "packet // " ++ [128512]%N ++ runes_of_ascii " emoji
x{
    //x
    lengthOf @calculatedFrom(""abc"")
`u8 x,`
    ,
@rightPad( )
//x
// @lengthOf(
float32 Packet @lengthOf( falsey ) ,	char[ 10] falsey , @tag( 3  ) repeat zchar[
    4294967296 ] repeatCount ,repeatCount`say ""hi""` , int16 u128 // `tick` ""quote"" 'q'
,
char[ 3
] crc
@calculatedFrom( ""x y"" )
, // trailing space 
@leftPad
    (
    // " ++ [27880; 37322]%N ++ runes_of_ascii "
    '\x00' )	match chars as i8i8 {
    42 : charz// trailing space 
,}
, }  options {	} MetaData metadata { char[ 4294967296 ] i8i8	,
    float
    rootA , i64
    packetx // " ++ [27880; 37322]%N ++ runes_of_ascii "
, i8 // " ++ [27880; 37322]%N ++ runes_of_ascii "
roots `crlf
line`
    ,
    tag i64_  , uint8 Pad `" ++ [233]%N ++ runes_of_ascii "`
, }root packet Header{
u64 options1  `two words`
    , @calculatedFrom(""a\\"" // trailing space 
) // " ++ [128512]%N ++ runes_of_ascii " emoji
i32 //	t
x_y_z	@calculatedFrom( ""a\""b"")`tab	here` , match
A as len { [ ""CRC32"" // " ++ [128512]%N ++ runes_of_ascii " emoji
,""it's""  ] //	t
: Z9_ ""a	b"" :
    o ,
} , match asx
as pack {0 :	x_y_z , }
    , char[] i64_ `{ , }`
,
    }
MetaData stringy
{ // trailing space 
lengthOf
// `tick` ""quote"" 'q'
//	t
o, string//
u8x , f32 string_ `doc` ,}
")).
Eval vm_compute in ("<<<M176>>>" ++ check (runes_of_ascii "
packet i8i8 { @tag( 0 ) int32
leftPad `it's`
, repeat char[]Header`crlf
line`
, @calculatedFrom( ""\" ++ [233]%N ++ runes_of_ascii """ )/// triple
repeat
    uint8 float , @rightPad
('\x00' ) char[] zchar@lengthOf(
// a // b
//x
leftPad )
`
` , Z9_ ,
@lengthOf(
x ) match As as
    tag {	""a	b""  :
string_ [
10 , 7 , ""1"" , 255
,
3
    , 42 ,
    //
    0123456789, """ ++ [128512]%N ++ runes_of_ascii """ ] :x_y_z ,""CRC32""
: Z9_  , 00
    // c
    : Logon
    ,
} , @tag(007) o {
    char
    Packet
@lengthOf(
    //	t
    repeatCount
) , } , @lengthOf(
// " ++ [27880; 37322]%N ++ runes_of_ascii "
/// triple
pack
) float64 rootA `two words`
    ,	repeat char[] BodyLength ,}
packet Z9_{ match
    // packet A { u8 x, }
    As
as
    a1{ //
0: trueish // `tick` ""quote"" 'q'
,} ,
/// triple
// " ++ [27880; 37322]%N ++ runes_of_ascii "
} root packet u8x {
/// triple
// " ++ [128512]%N ++ runes_of_ascii " emoji
repeat
string Logon `tab	here` , // " ++ [128512]%N ++ runes_of_ascii " emoji
}	options { _x
=
    ""packet""
;f32a =007 } packet i8i8 {@calculatedFrom( ""CRC32"" )
A @lengthOf(
a1
)
, } 	 ")).
Eval vm_compute in ("<<<M168>>>" ++ check (runes_of_ascii "options
//x
// @lengthOf(
{
    Foo =""// no comment""
/// triple
//	t
; }
packet float {
} packet
    len { @lengthOf(
    _x ) stringy{
    metadata	@calculatedFrom( ""a\\"" )
, } ,
//x
//
}	packet asx {
@tag( 0 ) repeat float64
A`say ""hi""` ,
//
// trailing space 
i16 int
    `say ""hi""` , @calculatedFrom( """ ++ [128512]%N ++ runes_of_ascii """) lengthOf Header `two words` ,
f32a
    zchar , @rightPad
    ( '0'
)repeat string_
    // packet A { u8 x, }
    chars ``  , @tag( 4294967296)
    @calculatedFrom( ""a	b"" )repeat
    msg_type,  @leftPad( ) repeat f64 _x ,	repeat As { Logon @lengthOf(
calculatedFrom) `two words` ,
    repeat u64 o `u8 x,`	, } , @calculatedFrom(
""packet"" ) repeat // @lengthOf(
uint8 u ,} packet
uint8x{@leftPad ( '0'
    )
//	t
//x
zchar[
// packet A { u8 x, }
// " ++ [27880; 37322]%N ++ runes_of_ascii "
255
    ]	metadata `a\`
    ,//
} // `tick` ""quote"" 'q'")).
Eval vm_compute in ("<<<M1349>>>" ++ check (runes_of_ascii "// top
options
    // c0
{ // c1a
  // c1b
LittleEndian // c2a
  // c2b
= // c3a
  // c3b
false // c4a
  // c4b
; // c5a
  // c5b
StringPrefixLenType // c6
= // c7a
  // c7b
u16 ; } // c10
packet Heartbeat // c12a
  // c12b
{ // c13a
  // c13b
@rightPad ( '0'
    // c16
) char[ 7 // c19
] // c20
seqNo , // c22a
  // c22b
uint64 // c23a
  // c23b
Tail , // c25a
  // c25b
i16 // c26
Flags // c27a
  // c27b
, // c28a
  // c28b
u16 // c29a
  // c29b
msgKind
    // c30
,
    // c31
} // c32a
  // c32b
root // c33
packet // c34a
  // c34b
Reject // c35a
  // c35b
{ zchar[ 3 // c38a
  // c38b
] // c39
tag7 // c40a
  // c40b
, // c41
repeat // c42a
  // c42b
Heartbeat , repeat string
    // c46
clOrdID
    // c47
,
    // c48
}
    // c49
")).
Eval vm_compute in ("<<<M288>>>" ++ check (runes_of_ascii "// packet A { u8 x, }
MetaData
    _x
{ //
char[] len
    ,}options
// @lengthOf(
//
{ repeatCount =""""
    ; }// c
root packet chars {
    char[ 255
]u8x,	repeat
/// triple
// c
string repeatCount
`" ++ [28040; 24687; 31867; 22411]%N ++ runes_of_ascii "` ,
repeat zchar[ 10
]
string_ , @tag( // trailing space 
255
    ) i8i8{// packet A { u8 x, }
options1
calculatedFrom `u8 x,`
,
    i64
len,
    roots // c
{ // @lengthOf(
repeat
    // a // b
    i64_ zchar //
,
    } ,
    }
, match chars as Packet	{
""a\""b"": Pad
,[ ""{,}""
    ]
:
calculatedFrom // a // b
,
""" ++ [233]%N ++ runes_of_ascii "t" ++ [233]%N ++ runes_of_ascii """
//x
// `tick` ""quote"" 'q'
: uint8x ,[ // packet A { u8 x, }
""`tick`"" ,0
    , 42
    ] : _x[ 0123456789	, ""\" ++ [233]%N ++ runes_of_ascii """
    ] :
i8i8,	} ,	}
")).
Eval vm_compute in ("<<<M260>>>" ++ check (runes_of_ascii "packet metadata{ @rightPad
    (	) zchar[
//	t
// `tick` ""quote"" 'q'
0123456789] i64_
    // @lengthOf(
    @calculatedFrom( ""\n"" ) , @leftPad (
    ' '// " ++ [27880; 37322]%N ++ runes_of_ascii "
) zchar[ // `tick` ""quote"" 'q'
255
]
    MetaDataX `{ , }`// a // b
, @rightPad (
' ' )@calculatedFrom(""abc"" ) // " ++ [128512]%N ++ runes_of_ascii " emoji
@lengthOf(
matchKey
// `tick` ""quote"" 'q'
// `tick` ""quote"" 'q'
)
repeat char[ 42 ] packetx // packet A { u8 x, }
`" ++ [233]%N ++ runes_of_ascii "` ,  trueish@calculatedFrom( ""packet"" )
`a\` , matchKey int `" ++ [28040; 24687; 31867; 22411]%N ++ runes_of_ascii "` ,	@tag(
    // c
    0
) len{ char[65535 ] Header,
}
,@lengthOf( f32a ) zchar[	10  ]
    trueish `crlf
line` ,  }
")).
Eval vm_compute in ("<<<M1355>>>" ++ check (runes_of_ascii "options {
    StringPrefixLenType = u8;
    ArrayPrefixLenType = u8;
    FixedStringPadFromLeft = false;
    FixedStringPadChar = ' ';
}
packet Ack {
    char[] tag7,
}
packet Reject {
    InSym61 {
        repeat Ack,
        zchar[4] f1,
    },
}
packet Logout {
    char[4] clOrdID,
}
root packet Cancel {
    @leftPad(' ') char[10] price,
    u8 x,
    u32 venue @lengthOf(Body),
    match x as Body {
        [92, 175] : Logout,
        26 : Reject,
        144 : Ack,
    },
    u16 count @calculatedFrom(""CRC32""),
}
")).
Eval vm_compute in ("<<<M1540>>>" ++ check (runes_of_ascii "packet Logon {
    repeatCount {
        BodyLength `crlf
        line`,
    },
    zchar a1 `u8 x,`,
    match Foo as Foo {
        ""\n"" : i8i8,
        [""abc"", ""CRC32""] : crc,
        [
            3, 42, 1, 255, ""x y"",
            ""`tick`"", ""a\""b"", ""CRC32""
        ] : repeatCount,
        [
            1, 007, 007, 7, 255,
            ""\n"", ""// no comment""
        ] : uint8x,
        00 : f32a,
    },
    // a // b
    uint16 Pad @lengthOf(uint8x) `doc`,
}")).
Eval vm_compute in ("<<<M68>>>" ++ check (runes_of_ascii "
packet
    Header {  match roots  as packetx
// " ++ [27880; 37322]%N ++ runes_of_ascii "
//	t
{
    // `tick` ""quote"" 'q'
    [
""" ++ [28040; 24687]%N ++ runes_of_ascii """ ,
    0123456789 ]:packetx,
//
// c
4294967296
    : Logon ,	[ ""\n""
    ,""x y"" , // " ++ [128512]%N ++ runes_of_ascii " emoji
""packet"" , ""packet"" ] : i8i8 , 42 // `tick` ""quote"" 'q'
:Foo
    ,
}, //	t
@calculatedFrom( ""x y""	) f64 Logon ,} options
    {
    // " ++ [128512]%N ++ runes_of_ascii " emoji
    chars=
' '
    ; repeatCount =
""" ++ [233]%N ++ runes_of_ascii "t" ++ [233]%N ++ runes_of_ascii """ x	= ""\n"" ; calculatedFrom = ""`tick`"" //x
; }
")).
Eval vm_compute in ("<<<M303>>>" ++ check (runes_of_ascii "  packet
    tag{ } packet
    //
    packetx { @calculatedFrom( ""x y""
    )@tag(
    42 )
@lengthOf(
    As  ) char a1`two words` ,
    @leftPad
(
    '\x00' )
    @tag(10)
@lengthOf( u)
    char[] falsey // " ++ [128512]%N ++ runes_of_ascii " emoji
,
    // " ++ [27880; 37322]%N ++ runes_of_ascii "
    }//
MetaData
f32a {
    string u128 , roots
    stringy , Header body,
    float options1
    //	t
    `it's`
    ,	i8i8 options1
`" ++ [28040; 24687; 31867; 22411]%N ++ runes_of_ascii "`
    ,
}")).
Eval vm_compute in ("<<<M245>>>" ++ check (runes_of_ascii "MetaData float{ int16
// c
// " ++ [128512]%N ++ runes_of_ascii " emoji
chars , int8 _x
, char	charz ,
Header  u8x
    , u16 _x
,
    // @lengthOf(
    x_y_z repeatCount ,}	packet Foo
{ @tag(//	t
1  )
string Logon	`
`
, }//x
options{ zchar =  ' ' trueish = //x
""""
    leftPad =255 ;
}	root packet options1 {u64 packetx// `tick` ""quote"" 'q'
@calculatedFrom(""// no comment""  ) ``,}
")).
Eval vm_compute in ("<<<M1906>>>" ++ check (runes_of_ascii "packet As {
    @leftPad()
    char[0] Logon,
    char[0] Z9_ @calculatedFrom(""abc""),
    @tag(4294967296)
    i64 matchKey @calculatedFrom(""// no comment"") `two words`,
    i16 A,
}// " ++ [27880; 37322]%N ++ runes_of_ascii "

packet T {
    zchar[3] tag @lengthOf(chars),
}

packet BodyLength {
    calculatedFrom @lengthOf(body) `
    `,
}// a // b")).
Eval vm_compute in ("<<<M1738>>>" ++ check (runes_of_ascii "packet Logon {
    o Header,
    Header,
    @lengthOf(u)
    char[255] tag `tab	here`,
    char[] falsey,
    @lengthOf(zchar)
    @rightPad()
    float roots,
    @calculatedFrom(""// no comment"")
    i64 u8x,
}

options {
    metadata = '0';
    _x = 4294967296;
    Packet = '0';
}")).
Eval vm_compute in ("<<<M1291>>>" ++ check (runes_of_ascii "// top
root
    // c0
packet
    // c1
P // c2a
  // c2b
{ // c3
u8 // c4
s_u8 // c5a
  // c5b
, // c6
repeat u8 // c8a
  // c8b
r_u8 // c9a
  // c9b
,
    // c10
u16 // c11a
  // c11b
b_len // c12a
  // c12b
, // c13a
  // c13b
} // c14a
  // c14b
")).
Eval vm_compute in ("<<<M124>>>" ++ check (runes_of_ascii "MetaData Z9_
{zchar[4294967296 ]
    leftPad `u8 x,`,
}
MetaData body { trueish
    len `// not a comment` , }root
packet // @lengthOf(
u8x{ char[ 10 ] x
    @calculatedFrom(
// a // b
// packet A { u8 x, }
""\" ++ [233]%N ++ runes_of_ascii """ ) , }
")).
Eval vm_compute in ("<<<M1311>>>" ++ check (runes_of_ascii "options {
    FixedStringPadChar = '0';
}
packet Q {
    zchar[4] z,
    @rightPad('\x00') char[3] n,
    char[5] d,
}
root packet R {
    Q,
    zchar[8] top,
    repeat zchar[2] zs,
}
")).
Eval vm_compute in ("<<<M1872>>>" ++ check (runes_of_ascii "root packet

lengthOf{

@leftPad
	(  ' ' // c
	)  repeat 
char	MetaDataX 
, } MetaData Pad

{
    msg_type 
rootA // trailing space 
  `// not a comment`,

    }")).
Eval vm_compute in ("<<<M1447>>>" ++ check (runes_of_ascii "// @len'1'gthOf(
packet i8i8 {
    u128 o,
}

options {
    MetaDataX = true;
    BodyLength = ""packet""
    x_y_z = 007
    crc = ""abc"";
    msg_type = i16
}")).
Eval vm_compute in ("<<<M1272>>>" ++ check (runes_of_ascii "
options{
LittleEndian=

true; } packet
	B	{
u8 a

    ,
string  s, 
}	root

packet

P

{ u16
    L
    @lengthOf(

    B
)
,
B,
    u8
t ,  }")).
Eval vm_compute in ("<<<M1709>>>" ++ check (runes_of_ascii "packet string_ {
    @lengthOf(float)
    // @lengthOf(
    BodyLength {
        match uint8x as i64_ {
            0123456789 : As,
        },
    },
}")).
Eval vm_compute in ("<<<M467>>>" ++ check (runes_of_ascii "packet uint8x
{ match pack
    as msg_type	{
    0123456789 :	float
}
,
} packet //	t
{
    a1 } options {packetx
    = '\x00'	; u128= ""a	b""  ; }
")).
Eval vm_compute in ("<<<M525>>>" ++ check (runes_of_ascii "packet uint8x
{ match pack
    as msg_type	{
    0123456789 :	float
}
,
} packet //	t
a1
    { } options {packetx
    = '\x00'	; u128= ""a	b""   }
")).
Eval vm_compute in ("<<<M1694>>>" ++ check (runes_of_ascii "packet A {
    match k as n {
        [
            22, 4, 66, 8, 10,
            ""a"", ""c c"", ""e"", ""g"", ""i""
        ] : B,
        2 : C,
    },
}")).
Eval vm_compute in ("<<<M1429>>>" ++ check (runes_of_ascii "MetaData
leftPad

    { chars
MetaDataX,	}
packet  repeatCount{
char[ 
	// c
	255
	]

    uint8x
`" ++ [233]%N ++ runes_of_ascii "` , }	MetaData

pack {As	Foo
, 
}

")).
Eval vm_compute in ("<<<M710>>>" ++ check (runes_of_ascii "// @lengthOf(
packet i8i8 { u128 o , }
options { MetaDataX = true;
    BodyLength =""packet"" x_y_z= 007
crc //x
= ""abc"" ;
    msg_type 
i16 }")).
Eval vm_compute in ("<<<M1406>>>" ++ check (runes_of_ascii "packet Logon {
    repeat u {
        zchar {
            zchar[007] a1 ``,
            x_y_z @calculatedFrom(""{,}""),
        },
    },
}")).
Eval vm_compute in ("<<<M1562>>>" ++ check (runes_of_ascii "MetaData x_y_z {
    int32 o,
    zchar[65535] Packet,
    i64_ o,
    i64 o `
    `,
}

options {
    x = u8;
}// trailing space")).
Eval vm_compute in ("<<<M171>>>" ++ check (runes_of_ascii "options { Pad=	'\x00' ; u
= false  repeatCount
    = false ;// trailing space 
T
=// a // b
""CRC32"" ;
    a1 = ""it's""}
")).
Eval vm_compute in ("<<<M1163>>>" ++ check (runes_of_ascii "MetaData leftPad { chars MetaDataX , } packet repeatCount { char[ // c
255 ] uint8x `" ++ [233]%N ++ runes_of_ascii "` , } MetaData pack { As Foo , }")).
Eval vm_compute in ("<<<M1484>>>" ++ check (runes_of_ascii "

  packet uint8x
    {
    match

pack

    as
msg_type
{ 0123456789

    :  float
	} 
, }  packet //	t

a1	{}
")).
Eval vm_compute in ("<<<M910>>>" ++ check (runes_of_ascii "packet A {
  match k as n {
    [""a"", 22, ""c c"", 4, ""e"", 66, ""g"", 8, ""i"", 10, ""k"", 12] : B,
    2 : C
  },
}")).
Eval vm_compute in ("<<<M912>>>" ++ check (runes_of_ascii "packet A {
  match k as n {
    [1, 22, ""c c"", 4, 5, ""f"", 7, 8, ""i"", 10, 11, ""l""] : B,
    2 : C
  },
}")).
Eval vm_compute in ("<<<M885>>>" ++ check (runes_of_ascii "packet A {
  match k as n {
    [""a"", 22, ""c c"", 4, ""e"", 66, ""g"", 8, ""i"", 10] : B
    2 : C
  },
}")).
Eval vm_compute in ("<<<M610>>>" ++ check (runes_of_ascii "
packet
    asx {match u128 as lengthOf
{
//	t
// `tick` ""quote"" 'q'
255 : x repeat
    } ,	}")).
Eval vm_compute in ("<<<M603>>>" ++ check (runes_of_ascii "
packet
    asx {match u128 as lengthOf
{
//	t
// `tick` ""quote"" 'q'
255 : x x ,
    } ,	}")).
Eval vm_compute in ("<<<M569>>>" ++ check (runes_of_ascii "
packet
    asx {u128 match as lengthOf
{
//	t
// `tick` ""quote"" 'q'
255 : x ,
    } ,	}")).
Eval vm_compute in ("<<<M625>>>" ++ check (runes_of_ascii "
packet
    asx {match u128 as lengthOf
{
//	t
// `tick` ""quote"" 'q'
255 : x ,
    } ,")).
Eval vm_compute in ("<<<M556>>>" ++ check (runes_of_ascii "
,
    asx {match u128 as lengthOf
{
//	t
// `tick` ""quote"" 'q'
255 : x ,
    } ,	}")).
Eval vm_compute in ("<<<M1766>>>" ++ check (runes_of_ascii "packet A {
    match k as n {
        [1, 007, ""bb""] : B,
        2 : C,
    },
}")).
Eval vm_compute in ("<<<M803>>>" ++ check (runes_of_ascii "packet A {
  match k as n {
    [""a"", ""bb"", ""c c"", ""d""] : B
    2 : C
  },
}")).
Eval vm_compute in ("<<<M890>>>" ++ check (runes_of_ascii "packet A { Inner { match k as n { [1,22,007,4,5,66,7,8,9,10] : B, }, }, }")).
Eval vm_compute in ("<<<M795>>>" ++ check (runes_of_ascii "packet A {
  match k as n {
    [1, 22, ""c c""] : B,
    2 : C
  },
}")).
Eval vm_compute in ("<<<M1101>>>" ++ check (runes_of_ascii "// top
MetaData
    // c0
tag
    // c1
{
    // c2
}
    // c3
")).
Eval vm_compute in ("<<<M439>>>" ++ check (runes_of_ascii "packet uint8x
{ match pack
    as msg_type	{
    0123456789")).
Eval vm_compute in ("<<<M1419>>>" ++ check (runes_of_ascii "// top
MetaData // c0
		u	// c1
	{ 	 // c2
    }	// c3")).
Eval vm_compute in ("<<<M1205>>>" ++ check (runes_of_ascii "packet body { i32 // c
f32a `{ , }` , } options { }")).
Eval vm_compute in ("<<<M1257>>>" ++ check (runes_of_ascii "
root	packet

P	{
	hdr {u8  a,
}  ,u8 
x , 
}
")).
Eval vm_compute in ("<<<M1883>>>" ++ check (runes_of_ascii "root
    packet

    A
{

u8 x`x
`
,	}
")).
Eval vm_compute in ("<<<M1493>>>" ++ check (runes_of_ascii "
options

    {

    }// " ++ [128512]%N ++ runes_of_ascii " emoji")).
Eval vm_compute in ("<<<M1063>>>" ++ check (runes_of_ascii "packet A {
 u8 x `d x`, // c x
}")).
Eval vm_compute in ("<<<M1033>>>" ++ check (runes_of_ascii "packet A {
 u8 x `d" ++ [11]%N ++ runes_of_ascii "`, // c" ++ [11]%N ++ runes_of_ascii "
}")).
Eval vm_compute in ("<<<M1838>>>" ++ check (runes_of_ascii "MetaData 	 // c
  tag
{}
")).
Eval vm_compute in ("<<<M1111>>>" ++ check (runes_of_ascii "MetaData tag { } // c
")).
Eval vm_compute in ("<<<M1508>>>" ++ check (runes_of_ascii "
packet 
A { }	// c" ++ [8203]%N)).
Eval vm_compute in ("<<<M997>>>" ++ check (runes_of_ascii "// c" ++ [5760]%N ++ runes_of_ascii "
packet A {
}")).
Eval vm_compute in ("<<<M1649>>>" ++ check (runes_of_ascii "packet packetx {
}")).
Eval vm_compute in ("<<<M310>>>" ++ check (runes_of_ascii "
MetaData A {}
")).
Eval vm_compute in ("<<<M750>>>" ++ check (runes_of_ascii "uk%W,3^r>l")).
Eval vm_compute in ("<<<M111>>>" ++ check (runes_of_ascii "

")).
