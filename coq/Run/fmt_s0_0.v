From FP Require Import Lexer Parser ShowPT Digest Formatter.
From Coq Require Import String List NArith.
Import ListNotations.
Open Scope string_scope.
Set Printing Width 100000000.
Set Printing Depth 100000000.
Definition show_fres (r : fres) : string :=
  match r with
  | FOk s => "OK:" ++ sh_escaped s ""
  | FErr s => "ERR:" ++ sh_escaped s ""
  | FPanic p => "PANIC:" ++ p
  end.
Definition check (rs : list rune) : string := digest (show_fres (format_res rs)).
Definition full (rs : list rune) : string := show_fres (format_res rs).
Eval vm_compute in ("<<<M1842>>>" ++ check (runes_of_ascii "
options{
    // c1
	LittleEndian  // c2a
	// c2b
  = true
	    // c4
  ; 
    // c5
StringPrefixLenType
// c6
    = // c7
  u8 ;// c9
    ArrayPrefixLenType  // c10a

	// c10b
  	=
	// c11
    u8 
      // c12
    ;  // c13
		FixedStringPadFromLeft = // c15a

  // c15b
true // c16a
// c16b
  ;	FixedStringPadChar  // c18
  	=  // c19
	'0' 	 // c20a

// c20b
	  ;  
  // c21
		}	// c22a
		// c22b
    	packet 
      // c23
  Logon
// c24
  {// c25a

  // c25b
	repeat 	 // c26
	i8
Ref  // c28
	, 	 // c29
	@rightPad	// c30
	( // c31
    	'0' 	 // c32a
	  // c32b
) char[ 	 // c34a

// c34b

8 	 // c35a
// c35b
	] // c36a
    // c36b
  msgKind 
, 	 // c38
    repeat	// c39

InOrderid72// c40
	{
    u8 
// c42
    Side2 // c43
    , 	 // c44
uint32 
    // c45
  Qty 
    // c46
    	, 	 // c47
	repeat  // c48
InPrice27	// c49
{// c50a
// c50b
    	repeat
char[ 	 // c52a
	// c52b
4
	// c53
]
    // c54

Acct  // c55a

// c55b
	  ,	// c56
    u64

    sym // c58
  	, 
	    // c59
  }	,
    zchar[// c62
  4// c63a
  // c63b
  	]  // c64
  clOrdID 	 // c65
,
    int16  // c67
lastPx

// c68
	, 	 // c69
InAcct22 
	// c70
  {
        // c71
      repeat char[

3 // c74
	  ]	// c75a

// c75b
  	OrderId // c76a
// c76b

,// c77a
// c77b
      } 
// c78
  	, 
	// c79
	} 	 // c80a

// c80b
    ,	// c81
  int64
	    // c82
  Px  // c83
, }  // c85
packet // c86a

	// c86b
    	Fill // c87
    {// c88a
  // c88b
uint16 Qty	// c90
    	,  // c91
    repeat 	 // c92a
	  // c92b
    char[
// c93
	  1 	 // c94a
	// c94b

  ] 	 // c95a
    // c95b
  Flags 
        // c96
    	,  
  // c97
		i8  // c98a
	// c98b

Ref
        // c99

,// c100
}	// c101
	packet  // c102
Logout
// c103
{
	// c104
@leftPad 	 // c105
  ( 
// c106
    '0'  
      // c107
)	// c108a

// c108b
char[	// c109a

	// c109b
  3 
// c110

  ] x

, 	 // c113a
    // c113b
		int8

    // c114

f1	// c115a
// c115b

,	// c116a
    // c116b
    Logon 
// c117
	,
// c118
    uint16 venue
, 
    // c121
  zchar[
	// c122
	2 
    // c123
	]  // c124
		Px // c125a
	// c125b
    , }// c127a
		// c127b
packet // c128

  Reject // c129
  {

// c130
    	}

root 	 // c132
  packet 	 // c133
    	Leg 
// c134
  	{// c135a
// c135b
	  Fill // c136a
// c136b
    ,  // c137
u16// c138a
  // c138b
    	msgKind 

// c139
	,// c140
	match // c141
    	msgKind// c142
	  as
        // c143
  Body 
        // c144
	  { 

    // c145
	  [
	182 
// c147
	,
	83 	 // c149
  ]// c150a
    	// c150b
  : 
    // c151
		Fill // c152
, // c153
    199
:

    Reject , 
	// c157
	137	// c158a

// c158b
	:// c159a
  // c159b
  Logout ,
	35 	 // c162

:// c163a
// c163b

Logon,// c165
	}	// c166
, // c167a
	// c167b
	u32
// c168
  lastPx	@calculatedFrom( // c170
  ""CRC32"" 	 // c171

	) 
  // c172

, 
	    // c173

}// c174a
  	// c174b")).
Eval vm_compute in ("<<<M1650>>>" ++ check (runes_of_ascii "MetaData Logon {
    zchar[7] BodyLength,
    char Header,
    // @lengthOf(
    int8 x_y_z `u8 x,`,
    i32 falsey,//
    int16 lengthOf `two words`,
}

root packet options1 {
    repeat A BodyLength,
    metadata {
        u64 calculatedFrom ``,
    },
    body {
        i16 matchKey,
        uint16 packetx `// not a comment`,
        a1 ``,
        repeat packetx,
    },
    body u8x `a\`,
    @tag(10)
    @tag(00)
    // c
    @rightPad('\x00')
    repeat tag {
        i16 u `" ++ [233]%N ++ runes_of_ascii "`,
    },
    // a // b
    // c
    @lengthOf(u)
    @calculatedFrom(""" ++ [128512]%N ++ runes_of_ascii """)
    i16 falsey,
    f32a @lengthOf(uint8x) `it's`,
    asx @lengthOf(Header) `two words`,
    // `tick` ""quote"" 'q'
    @lengthOf(A)
    @lengthOf(int)
    @calculatedFrom(""1"")
    char[] uint8x,
    x_y_z @lengthOf(Foo) `crlf
    line`,
}

packet stringy {
    repeat string len,
    @calculatedFrom(""{,}"")
    repeat o {
        u64 float,
    },
    match i64_ as Pad {
        [1] : roots,
        ""it's"" : uint8x,
        1 : MetaDataX,
        [
            255, ""a\""b"", """ ++ [233]%N ++ runes_of_ascii "t" ++ [233]%N ++ runes_of_ascii """, 65535, 4294967296,
            7, 0123456789
        ] : len,
        255 : metadata,
        ""it's"" : calculatedFrom,
        // `tick` ""quote"" 'q'
    },
    @lengthOf(msg_type)
    falsey @calculatedFrom(""" ++ [28040; 24687]%N ++ runes_of_ascii """),
    repeat char[] trueish,
    zchar[1] A,// `tick` ""quote"" 'q'
    repeat metadata {
        zchar[7] Pad,
    },
    @tag(3)
    i32 body `u8 x,`,
}// trailing space ")).
Eval vm_compute in ("<<<M1491>>>" ++ check (runes_of_ascii "
// top
	  packet	// c0a
  // c0b
  A
    {// c2a
	// c2b
	u8 	 // c3
a  // c4a
      // c4b
	, // c5
    }  // c6a
    // c6b
	packet 	 // c7

B
// c8
    {
	    // c9
	  u16

    b // c11
    ,} 	 // c13a
  // c13b
      packet	// c14a

	// c14b
  C// c15
    	{  // c16a
	// c16b
  u32 c	// c18

  ,

    }
    // c20
	root  // c21a

  // c21b
  packet	M 
    // c23
	{// c24
  u16 // c25
Kc,// c27a
  // c27b
u16  // c28
	Kb	// c29
,  // c30a

// c30b
  	u16 Ka  // c32a
	// c32b
	, 
    // c33
	match
	Kc 
    // c35
		as
// c36
	X 	 // c37

	{
9 
	// c39

: A  // c41
,

    10 // c43
:  // c44
		B // c45
  , 
    // c46
  }
    , 	 // c48a
  // c48b
	match	// c49
  Kb  // c50a
  // c50b
as // c51
Y	// c52a
  // c52b

  { 2// c54
:

C , // c57a
	// c57b
  	1  // c58a
		// c58b

	:	// c59a
  	// c59b
  A
,
// c61
      } 
	    // c62

  ,	// c63a
// c63b
	match
    // c64
Ka // c65
	as
    Z 	 // c67a
    // c67b

{
    // c68
  1  // c69
: 	 // c70
  B 	 // c71a

// c71b
  ,	// c72a
		// c72b
  }// c73
, // c74a
      // c74b
A  // c75a

// c75b
,	// c76
	  B// c77

	, // c78a
  	// c78b
    C ,  // c80a
// c80b
  	} // c81
")).
Eval vm_compute in ("<<<M76>>>" ++ check (runes_of_ascii "packet rootA{
@lengthOf( a1 ) f32a
@lengthOf( Header )
    `// not a comment` ,match  T as
    i64_
{42: // packet A { u8 x, }
string_,	}, match// trailing space 
stringy
as Header {[	65535]: msg_type , ""it's""	:u
// " ++ [128512]%N ++ runes_of_ascii " emoji
// " ++ [27880; 37322]%N ++ runes_of_ascii "
,
    ""\n""
: lengthOf // `tick` ""quote"" 'q'
} , @tag(
    42 )
    repeat
zchar f32a `u8 x,` ,@tag( 255
) //
repeat //	t
Pad {  x T
,
}
    , @calculatedFrom(  ""{,}""
    /// triple
    )
repeat leftPad
    {
    //	t
    u64 u8x `" ++ [28040; 24687; 31867; 22411]%N ++ runes_of_ascii "`
,len @calculatedFrom(""\" ++ [233]%N ++ runes_of_ascii """ )
    , zchar[	4294967296 ] // " ++ [27880; 37322]%N ++ runes_of_ascii "
falsey,}
    , @tag(
    7
)match i8i8 as
    pack{ 3	: string_ 0123456789
:packetx
,[42 ] : tag ,""\n"" : a1 , [ 0123456789	,
    1 ]	:
    x_y_z 0:
float }
    ,  repeat
u128 As , }	options { packetx=
    """ ++ [128512]%N ++ runes_of_ascii """; msg_type = ' '
; Packet// 50% %s
=10;
    }
    // a // b
    packet Pad//
{
    // " ++ [27880; 37322]%N ++ runes_of_ascii "
    char[] pack ,	repeat float32
falsey  ,char[42
]	Z9_ , Logon  @lengthOf( i8i8
)
    `
`	,
tag{	x , i32 float @lengthOf( crc
    ) , } , }
")).
Eval vm_compute in ("<<<M1421>>>" ++ check (runes_of_ascii "
MetaData 
len 
{ float 
roots`u8 x,`, u32
int  `" ++ [233]%N ++ runes_of_ascii "` ,
    }root

    packet 
x {@tag(

1 
)repeat
charz
,
Pad
@calculatedFrom( """ ++ [233]%N ++ runes_of_ascii "t" ++ [233]%N ++ runes_of_ascii """

)

    ,match	int
	as	u8x{//x
  0:leftPad

    ,

    [ 1
,
	0123456789
,

10
	]

    :
    uint8x
	}  ,
@leftPad (
	)	/// triple
repeat

u128
	{ f64
_x	`two words`, 
T 
@calculatedFrom(

""\n"" )`u8 x,` 
	/// triple
    ,
match
	A as
crc 
{ 3

:

    // a // b
leftPad
,
	""" ++ [128512]%N ++ runes_of_ascii """:falsey ,	[
""" ++ [233]%N ++ runes_of_ascii "t" ++ [233]%N ++ runes_of_ascii """
    ,4294967296 ,

    """ ++ [28040; 24687]%N ++ runes_of_ascii """	, ""a	b"" ,
00	// a // b

, 
""" ++ [233]%N ++ runes_of_ascii "t" ++ [233]%N ++ runes_of_ascii """ ] 
:
    rootA
,
	""1""
:MetaDataX,
	} ,  f32	o 
@calculatedFrom(  ""// no comment""
) `// not a comment`
, // a // b
	  }  , chars	@calculatedFrom(
""{,}""
	) , 
@rightPad  (' ' )

@tag( 0 )

    repeat BodyLength
`` ,

body 
, }MetaData
	T	{

    len i8i8  ,
    }	options	{
f32a

    =true
    }
    packet
    falsey{

}
")).
Eval vm_compute in ("<<<M1332>>>" ++ check (runes_of_ascii "packet P1 // c1a
  // c1b
{ // c2
u8 // c3a
  // c3b
a
    // c4
, }
    // c6
packet
    // c7
P2
    // c8
{ P1 // c10
, // c11a
  // c11b
}
    // c12
packet
    // c13
P3 { // c15
P2 , // c17a
  // c17b
P1
    // c18
, // c19a
  // c19b
}
    // c20
packet P4 { // c23a
  // c23b
repeat P3 , // c26
P2 // c27a
  // c27b
, // c28
} root // c30a
  // c30b
packet // c31
P5 { P4
    // c34
,
    // c35
P3
    // c36
, // c37a
  // c37b
P1 // c38a
  // c38b
, u8 K // c41a
  // c41b
,
    // c42
match
    // c43
K // c44
as Body {
    // c47
4 // c48
: // c49
P4 , // c51
3 :
    // c53
P3 ,
    // c55
2 // c56a
  // c56b
:
    // c57
P2
    // c58
,
    // c59
1 // c60
: // c61
P1 // c62
, } , } ")).
Eval vm_compute in ("<<<M70>>>" ++ check (runes_of_ascii "packet  u128
{
    string a1 ,x ,
    @calculatedFrom( ""\n""
)
    @tag( 0 ) @tag(42 ) i8 Packet @calculatedFrom( ""a	b"" // @lengthOf(
) `a\`	, @calculatedFrom(
    ""\n""// @lengthOf(
)
repeat string uint8x `{ , }` , char[] string_ , } packet repeatCount {  @leftPad ( '\x00'
) o @calculatedFrom(""abc"" ) `u8 x,` ,  char[ 1]
    repeatCount	,
    char[] x , @tag( 007
)
    repeat i16
u8x `a\`, @lengthOf( u ) repeat uint16 u128 , repeat uint8 repeatCount ,repeat stringy {char[ 10 ] options1,int `doc`
,}
, } MetaData BodyLength {i64 // " ++ [27880; 37322]%N ++ runes_of_ascii "
x_y_z
    `" ++ [233]%N ++ runes_of_ascii "`,u64 x `
`
, asx asx,char[ 3
    ]
leftPad , }
MetaData zchar //	t
{}
")).
Eval vm_compute in ("<<<M1937>>>" ++ check (runes_of_ascii "options {
    i64_ = ' ';
    As = ""x y""
    _x = f64
}

packet asx {
    string i8i8,
}// 50% %s

packet float {
    // 50% %s
    repeat char[1] trueish,
    body @lengthOf(string_) `two words`,
    @calculatedFrom(""CRC32"")
    i8 u @lengthOf(uint8x),
    // trailing space 
    @leftPad()
    repeat uint8x ``,
    body tag `tab	here`,
    string chars `tab	here`,
    @tag(0)
    asx,
}// `tick` ""quote"" 'q'

root packet u128 {
}

MetaData x_y_z {
    int32 u128,
    len calculatedFrom,
    char[0] _x `a\`,
    zchar[1] x,
    string MetaDataX `{ , }`,
}")).
Eval vm_compute in ("<<<M156>>>" ++ check (runes_of_ascii "  MetaData
T { char[ 0123456789 ] rootA
`line1
line2` , i32	Logon
,rootA
asx ,} root/// triple
packet
    Header { uint32
len
    @lengthOf( u ) `
` , repeat
    char MetaDataX/// triple
`" ++ [28040; 24687; 31867; 22411]%N ++ runes_of_ascii "` ,
    uint8x @lengthOf( zchar) // @lengthOf(
`u8 x,`
// " ++ [27880; 37322]%N ++ runes_of_ascii "
// packet A { u8 x, }
, uint8
Z9_,
    @lengthOf( u128 ) @lengthOf(
MetaDataX )
@tag( 0123456789
) Logon @lengthOf(
    /// triple
    body ),	}  options { Z9_
= uint32; options1 = '\x00' } options {Foo  = ""// no comment"" ; }
packet
    float
{
}")).
Eval vm_compute in ("<<<M1378>>>" ++ check (runes_of_ascii "options{ArrayPrefixLenType= 
u64  ;  FixedStringPadFromLeft
    = 
true

;

FixedStringPadChar
=
'0'

    ;}

    packet 
Order {	}root
    packet Leg  {

char[]
Ref ,repeat  Order  ,
f32 Acct  ,
@leftPad (  '0'
    )
    char[ 10

]  venue
    ,	@rightPad (
	'0' )	char[3
    ]

seqNo
, repeat
u64 Px ,u8

Flags
    ,	u32

    lastPx	@lengthOf(Body
	) 
,
	match 
Flags  as
    Body	{ 185
    :
    Order

, }

,
u16
	sym

@calculatedFrom(  ""CRC32""	)  ,
} ")).
Eval vm_compute in ("<<<M1517>>>" ++ check (runes_of_ascii "packet repeatCount {
    @tag(7)
    match T as i64_ {
        """ ++ [233]%N ++ runes_of_ascii "t" ++ [233]%N ++ runes_of_ascii """ : body,
    },
    @lengthOf(crc)
    float64 body `u8 x,`,
    repeat rootA {
        int16 x_y_z `two words`,
        zchar[4294967296] trueish `two words`,
        Pad @lengthOf(Pad) `// not a comment`,
    },
    tag string_,
    @lengthOf(len)
    // packet A { u8 x, }
    @tag(255)
    @lengthOf(Logon)
    int,
    Foo @lengthOf(leftPad) `
        `,
}")).
Eval vm_compute in ("<<<M368>>>" ++ check (runes_of_ascii "root packet a1 {i8 A @calculatedFrom( //
""\" ++ [233]%N ++ runes_of_ascii """ )
, @lengthOf( int ) @lengthOf(  len) @lengthOf( f32a )
string
u8x `say ""hi""`
//	t
// " ++ [128512]%N ++ runes_of_ascii " emoji
, char[
    00 ]  As@lengthOf(  Z9_ )
, repeat leftPad ,  repeat  x_y_z
, @rightPad( '0') f64 lengthOf @calculatedFrom( ""`tick`"" ) `100% of %d`// " ++ [27880; 37322]%N ++ runes_of_ascii "
, repeat char  Foo// " ++ [27880; 37322]%N ++ runes_of_ascii "
, match msg_type as x_y_z
    { [ 255 , 7  ,10 ,
""a	b""
] : Foo,
    // a // b
    } ,
}
")).
Eval vm_compute in ("<<<M195>>>" ++ check (runes_of_ascii "root // 50% %s
packet u128 {
    a1
    @calculatedFrom(""a\""b"" ) , }
root packet pack { BodyLength @calculatedFrom(
    ""{,}""
)
    `// not a comment` ,//x
uint8x , i64 rootA, @lengthOf( BodyLength )	string
zchar
    , // " ++ [128512]%N ++ runes_of_ascii " emoji
} packet _x	{ @tag( 7 ) match // @lengthOf(
trueish
    as packetx { 10
: Header ,7 : trueish ""a\""b"" :
// @lengthOf(
// " ++ [27880; 37322]%N ++ runes_of_ascii "
pack ,}, }")).
Eval vm_compute in ("<<<M1828>>>" ++ check (runes_of_ascii "root packet i8i8 {
    msg_type @lengthOf(asx),
    Logon {
        msg_type {
            repeat x_y_z `say ""hi""`,
        },
    },
    Z9_,
    repeatCount {
        char[] asx,
        // " ++ [128512]%N ++ runes_of_ascii " emoji
        float32 options1,
        repeat uint64 x `two words`,
        chars ``,
    },
    // 50% %s
    // 50% %s
    repeat A float,
}")).
Eval vm_compute in ("<<<M40>>>" ++ check (runes_of_ascii "packet
    len { // " ++ [27880; 37322]%N ++ runes_of_ascii "
@leftPad( '0'
    ) // trailing space 
Logon @lengthOf( _x)
`100% of %d`
,char
    rootA
, @calculatedFrom( """ ++ [28040; 24687]%N ++ runes_of_ascii """ )
@leftPad
    (' ' ) // `tick` ""quote"" 'q'
i8
crc , msg_type
@calculatedFrom( """"	)
`
`
, // `tick` ""quote"" 'q'
}	options//x
{}
options { u8x =true }
")).
Eval vm_compute in ("<<<M193>>>" ++ check (runes_of_ascii "// " ++ [27880; 37322]%N ++ runes_of_ascii "
packet	Header {
    @tag(
    // @lengthOf(
    00
)
    u32
charz @lengthOf( f32a
)`" ++ [233]%N ++ runes_of_ascii "`, int32 Pad`doc`,
@leftPad
    (  '\x00'
    // " ++ [27880; 37322]%N ++ runes_of_ascii "
    ) BodyLength T `" ++ [233]%N ++ runes_of_ascii "`
, }
packet
    stringy
{
    /// triple
    msg_type
// " ++ [27880; 37322]%N ++ runes_of_ascii "
// " ++ [27880; 37322]%N ++ runes_of_ascii "
,}MetaData f32a
{ } // " ++ [128512]%N ++ runes_of_ascii " emoji")).
Eval vm_compute in ("<<<M388>>>" ++ check (runes_of_ascii "packet packet
    asx { @calculatedFrom(
""""  ) @tag( 255 )repeat
// packet A { u8 x, }
// trailing space 
int16 u8x
,
@tag(
    //
    007 )
    @tag( 0
    /// triple
    ) @tag( 1) u
    @lengthOf( T ),
// `tick` ""quote"" 'q'
//x
} // " ++ [128512]%N ++ runes_of_ascii " emoji")).
Eval vm_compute in ("<<<M462>>>" ++ check (runes_of_ascii "packet
    asx { @calculatedFrom(
""""  ) @tag( 255 )repeat
// packet A { u8 x, }
// trailing space 
int16 u8x
,
@tag(
    //
    007 ) )
    @tag( 0
    /// triple
    ) @tag( 1) u
    @lengthOf( T ),
// `tick` ""quote"" 'q'
//x
} // " ++ [128512]%N ++ runes_of_ascii " emoji")).
Eval vm_compute in ("<<<M413>>>" ++ check (runes_of_ascii "packet
    asx { @calculatedFrom(
""""  @tag( ) 255 )repeat
// packet A { u8 x, }
// trailing space 
int16 u8x
,
@tag(
    //
    007 )
    @tag( 0
    /// triple
    ) @tag( 1) u
    @lengthOf( T ),
// `tick` ""quote"" 'q'
//x
} // " ++ [128512]%N ++ runes_of_ascii " emoji")).
Eval vm_compute in ("<<<M112>>>" ++ check (runes_of_ascii "packet
    options1 { @calculatedFrom( """" )@rightPad
    ( '\x00'	) char[007] msg_type ,	i64 Header
`" ++ [233]%N ++ runes_of_ascii "` ,
    //	t
    @calculatedFrom( ""packet"" )  @calculatedFrom( ""`tick`"" ) @calculatedFrom( ""a	b"" )
    i32 options1 @lengthOf(Pad )  ,}
")).
Eval vm_compute in ("<<<M431>>>" ++ check (runes_of_ascii "packet
    asx { @calculatedFrom(
""""  ) @tag( 255 )
// packet A { u8 x, }
// trailing space 
int16 u8x
,
@tag(
    //
    007 )
    @tag( 0
    /// triple
    ) @tag( 1) u
    @lengthOf( T ),
// `tick` ""quote"" 'q'
//x
} // " ++ [128512]%N ++ runes_of_ascii " emoji")).
Eval vm_compute in ("<<<M1904>>>" ++ check (runes_of_ascii "packet Logon {
    @calculatedFrom(""{,}"")
    repeat int64 Packet,
    @tag(42)
    char[] MetaDataX `doc`,
}

MetaData Packet {
    string msg_type,
    Logon calculatedFrom,
    f32a matchKey,
    zchar[0] _x,
}")).
Eval vm_compute in ("<<<M111>>>" ++ check (runes_of_ascii "
MetaData
_x
{Z9_ MetaDataX
// trailing space 
// @lengthOf(
, char[]_x`u8 x,`,
} packet charz {
//x
// " ++ [128512]%N ++ runes_of_ascii " emoji
@tag(
65535 ) string_ chars , asx
    //
    @lengthOf( u128
    )
, } 	 ")).
Eval vm_compute in ("<<<M657>>>" ++ check (runes_of_ascii "MetaData u
    { } MetaData o
{ float uint8x
`100% of %d` ,repeatCount u8x, string_ leftPad
, i32
    Foo , int64 x `two words` `two words` , calculatedFrom
stringy `a\` ,
}
")).
Eval vm_compute in ("<<<M719>>>" ++ check (runes_of_ascii "packet
crc
{repeat  Foo A  `u8 x,` ,	@lengthOf( uint8x ) string
matchKey @lengthOf( stringy ) `a\`
,
    // c
    } }
MetaData chars{
leftPad
    //	t
    crc
`" ++ [233]%N ++ runes_of_ascii "`
,}")).
Eval vm_compute in ("<<<M692>>>" ++ check (runes_of_ascii "MetaData u
    { } MetaData o
{ float " ++ [8232]%N ++ runes_of_ascii " uint8x
`100% of %d` ,repeatCount u8x, string_ leftPad
, i32
    Foo , int64 x `two words` , calculatedFrom
stringy `a\` ,
}
")).
Eval vm_compute in ("<<<M598>>>" ++ check (runes_of_ascii "MetaData u
    { } MetaData o
{ float uint8x
`100% of %d` repeatCount, u8x, string_ leftPad
, i32
    Foo , int64 x `two words` , calculatedFrom
stringy `a\` ,
}
")).
Eval vm_compute in ("<<<M626>>>" ++ check (runes_of_ascii "MetaData u
    { } MetaData o
{ float uint8x
`100% of %d` ,repeatCount u8x, string_ leftPad
 i32
    Foo , int64 x `two words` , calculatedFrom
stringy `a\` ,
}
")).
Eval vm_compute in ("<<<M366>>>" ++ check (runes_of_ascii "packet  T
    { @calculatedFrom( ""1"" /// triple
)@tag( 0
    ) crc {
int16 falsey
,/// triple
int64
i8i8 , }	,
    Header , trueish
, }
// packet A { u8 x, }
")).
Eval vm_compute in ("<<<M669>>>" ++ check (runes_of_ascii "MetaData u
    { } MetaData o
{ float uint8x
`100% of %d` ,repeatCount u8x, string_ leftPad
, i32
    Foo , int64 x `two words` , :
stringy `a\` ,
}
")).
Eval vm_compute in ("<<<M718>>>" ++ check (runes_of_ascii "packet
crc
{repeat  Foo A  `u8 x,` ,	@lengthOf( uint8x ) string
matchKey @lengthOf( stringy ) `a\`
,
    // c
    }
MetaData chars{
leftPad")).
Eval vm_compute in ("<<<M1948>>>" ++ check (runes_of_ascii "packet len {
    // " ++ [128512]%N ++ runes_of_ascii " emoji
    Pad,
    @tag(4294967296)
    @calculatedFrom(""{,}"")
    char[0123456789] o @calculatedFrom(""it's""),
}")).
Eval vm_compute in ("<<<M1964>>>" ++ check (runes_of_ascii "
packet
trueish
    {  @leftPad  ( 
' '
	) 
@lengthOf(
	A
    ) 	 // c
	@lengthOf(
    A
)
    string

    msg_type	, 
}")).
Eval vm_compute in ("<<<M655>>>" ++ check (runes_of_ascii "MetaData u
    { } MetaData o
{ float uint8x
`100% of %d` ,repeatCount u8x, string_ leftPad
, i32
    Foo , int64")).
Eval vm_compute in ("<<<M1221>>>" ++ check (runes_of_ascii "options { } options { MetaDataX = char ; } // c
MetaData Pad { i8 metadata , string stringy , int8 As `{ , }` , }")).
Eval vm_compute in ("<<<M455>>>" ++ check (runes_of_ascii "packet
    asx { @calculatedFrom(
""""  ) @tag( 255 )repeat
// packet A { u8 x, }
// trailing space 
int16 u8x
,")).
Eval vm_compute in ("<<<M1921>>>" ++ check (runes_of_ascii "
MetaData  calculatedFrom{ x

    float
    ,
    //x
    //	t
	T lengthOf	,	}
    root  packet Pad
{
}")).
Eval vm_compute in ("<<<M1611>>>" ++ check (runes_of_ascii "options {
    Foo = 00;
    Header = false
    calculatedFrom = true;
}

root packet int {
    len,
}")).
Eval vm_compute in ("<<<M197>>>" ++ check (runes_of_ascii "packet u128	{ }  packet
_x /// triple
{ } MetaData T  {
    u128 f32a
    // c
    ,} options{}
")).
Eval vm_compute in ("<<<M630>>>" ++ check (runes_of_ascii "MetaData u
    { } MetaData o
{ float uint8x
`100% of %d` ,repeatCount u8x, string_ leftPad")).
Eval vm_compute in ("<<<M1967>>>" ++ check (runes_of_ascii "packet A {
    match k as n {
        [""a"", ""bb"", 007, ""d""] : B,
        2 : C,
    },
}")).
Eval vm_compute in ("<<<M1414>>>" ++ check (runes_of_ascii "packet order_item {
    u8 a,
}

root packet new_order {
    order_item,
    u8 x,
}")).
Eval vm_compute in ("<<<M1113>>>" ++ check (runes_of_ascii "packet A { u16 // a
 len // b
 @lengthOf( // c
 body // d
 ) // e
 `d` // f
 , }")).
Eval vm_compute in ("<<<M615>>>" ++ check (runes_of_ascii "MetaData u
    { } MetaData o
{ float uint8x
`100% of %d` ,repeatCount u8x")).
Eval vm_compute in ("<<<M1830>>>" ++ check (runes_of_ascii "
options
	{
}packet

    Foo
	{ 
    // 50% %s
	// @lengthOf(
	}

")).
Eval vm_compute in ("<<<M862>>>" ++ check (runes_of_ascii "packet A { Inner { match k as n { [1,22,007,4,5,66,7,8] : B, }, }, }")).
Eval vm_compute in ("<<<M1693>>>" ++ check (runes_of_ascii "MetaData M {
    u8 x `a
    
    b`,
    T t `a
    
    b`,
}")).
Eval vm_compute in ("<<<M600>>>" ++ check (runes_of_ascii "MetaData u
    { } MetaData o
{ float uint8x
`100% of %d`")).
Eval vm_compute in ("<<<M1673>>>" ++ check (runes_of_ascii "// a
MetaData M {
}// b

// c
MetaData N {
}// d
// e")).
Eval vm_compute in ("<<<M20>>>" ++ check (runes_of_ascii "options	{ Logon = """ ++ [28040; 24687]%N ++ runes_of_ascii """
; BodyLength= false ; }")).
Eval vm_compute in ("<<<M1760>>>" ++ check (runes_of_ascii "root packet A {
    u8 x `a
        b`,
}")).
Eval vm_compute in ("<<<M1710>>>" ++ check (runes_of_ascii "

  options

    {	Z9_ 
=""abc"" ; } ")).
Eval vm_compute in ("<<<M1418>>>" ++ check (runes_of_ascii "
root

packet 
      // c
	a1
{	}")).
Eval vm_compute in ("<<<M1425>>>" ++ check (runes_of_ascii "packet A {
    u8 x `d" ++ [8239]%N ++ runes_of_ascii "`,// c" ++ [8239]%N ++ runes_of_ascii "
}")).
Eval vm_compute in ("<<<M1057>>>" ++ check (runes_of_ascii "packet A {
 u8 x `d" ++ [12]%N ++ runes_of_ascii "`, // c" ++ [12]%N ++ runes_of_ascii "
}")).
Eval vm_compute in ("<<<M765>>>" ++ check (runes_of_ascii "@tag( f64 u8 u16 i64 ""a\\""")).
Eval vm_compute in ("<<<M1148>>>" ++ check (runes_of_ascii "root packet a1
// c
{ }")).
Eval vm_compute in ("<<<M1863>>>" ++ check (runes_of_ascii "packet
Packet { }

")).
Eval vm_compute in ("<<<M1056>>>" ++ check (runes_of_ascii "// c" ++ [12]%N ++ runes_of_ascii "
packet A {
}")).
Eval vm_compute in ("<<<M1068>>>" ++ check (runes_of_ascii "packet A {
}// c" ++ [65279]%N)).
Eval vm_compute in ("<<<M240>>>" ++ check (runes_of_ascii "/// triple

")).
Eval vm_compute in ("<<<M1039>>>" ++ check (runes_of_ascii "// c" ++ [8239]%N)).
