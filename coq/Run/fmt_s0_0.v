From FP Require Import Lexer Parser ShowPT Digest Formatter.
From Coq Require Import String List NArith.
Import ListNotations.
Open Scope string_scope.
Set Printing Width 100000000.
Set Printing Depth 100000000.
Definition show_fres (r : fres) : string :=
  match r with
  | FOk s => "OK:" ++ sh_escaped s ""
  | FErr s => "ERR:" ++ sh_escaped s ""
  | FPanic p => "PANIC:" ++ p
  end.
Definition check (rs : list rune) : string := digest (show_fres (format_res rs)).
Definition full (rs : list rune) : string := show_fres (format_res rs).
Eval vm_compute in ("<<<M320>>>" ++ check (runes_of_ascii "packet
    /// triple
    a1 { @rightPad ( ' ' ) @tag( 255
)
@lengthOf( zchar ) string MetaDataX	@calculatedFrom( ""CRC32"" ) // a // b
`crlf
line` ,u8 A @lengthOf( charz
    ) ,
    body ,@rightPad
    ( '0'	)@lengthOf( charz ) match repeatCount as
    Z9_ { 0123456789 : metadata // @lengthOf(
,""" ++ [233]%N ++ runes_of_ascii "t" ++ [233]%N ++ runes_of_ascii """ : float  ,// packet A { u8 x, }
""1"": Logon ,// " ++ [27880; 37322]%N ++ runes_of_ascii "
},
x_y_z`" ++ [233]%N ++ runes_of_ascii "`//x
, @calculatedFrom(	""1"")match Header  as body
    { 4294967296
// @lengthOf(
// @lengthOf(
: MetaDataX
,
""abc"" //x
: packetx
    }
, x_y_z @calculatedFrom( ""\" ++ [233]%N ++ runes_of_ascii """ ),i64_  @calculatedFrom(""abc"")`
`,
@rightPad //	t
(
)
    //	t
    char
    float
@lengthOf(	trueish )
, @tag(42 ) @leftPad ( '\x00' ) @calculatedFrom(	""\n"") repeat string
tag, //x
} packet
tag { repeat T u `
` , string u128 @calculatedFrom( // `tick` ""quote"" 'q'
""packet"" )`u8 x,` ,
// trailing space 
//x
repeat
    f64
stringy `" ++ [233]%N ++ runes_of_ascii "` , u32 leftPad  @lengthOf(float ) , uint32	i8i8
@lengthOf( f32a
) , int@calculatedFrom( """ ++ [233]%N ++ runes_of_ascii "t" ++ [233]%N ++ runes_of_ascii """ )
    ,
    // c
    @calculatedFrom( ""\n""
) @leftPad
    ( '\x00') @rightPad
    ()
    repeat
pack  `// not a comment` , @calculatedFrom( ""1""	)
    char[]  string_
,f64 calculatedFrom
    @lengthOf(	pack)  `tab	here`,@tag(00 ) int8 tag
    ,
} options { f32a
= ""a	b"" _x = false ; _x = '0' o= false /// triple
} packet falsey
    /// triple
    { @tag(
    // trailing space 
    007 ) string falsey,
i64_
@lengthOf(crc),repeat // c
u128 body// packet A { u8 x, }
, char[ 00]roots,/// triple
metadata @lengthOf(packetx // `tick` ""quote"" 'q'
)
    `
`	,// trailing space 
string_
BodyLength, @calculatedFrom(
""it's"" ) repeat matchKey ,
metadata
    @calculatedFrom( ""abc""
)// @lengthOf(
,
@tag( 255 )repeat
Pad
    {
char[] packetx ,repeat o { int16 charz
    // packet A { u8 x, }
    ,packetx {
i8
//
// packet A { u8 x, }
zchar ,} ,char[10 //x
]x
, repeat zchar[ 0123456789 ]
pack , // c
} ,	int ,
i8 asx ,
}
,}
packet leftPad
    { @tag(255
    /// triple
    )repeat uint16 msg_type  ,
    // c
    f32  trueish @calculatedFrom("""" )	`two words` // `tick` ""quote"" 'q'
, @leftPad( '\x00' ) @lengthOf( leftPad
) // a // b
@lengthOf( asx // a // b
)
    //	t
    zchar[ 1] roots @calculatedFrom(
""abc""
) ,pack @lengthOf(
Z9_ ), @tag(
65535) @lengthOf(Header
    ) // c
f64 tag , @tag( 1
)repeat
    u8x, match stringy// c
as x { ""it's"" // " ++ [27880; 37322]%N ++ runes_of_ascii "
: Z9_ ,7 : u128 ,
""// no comment"" :trueish, 00
:
    //	t
    f32a ,
    [3,  1, 00]:	pack,""" ++ [28040; 24687]%N ++ runes_of_ascii """
    // trailing space 
    : options1	,
// `tick` ""quote"" 'q'
//x
} ,
repeat // `tick` ""quote"" 'q'
u128 { repeat
crc
{ int16	int ,  }
// c
// @lengthOf(
, }
    // @lengthOf(
    , @leftPad ( ' '  ) // trailing space 
repeat
zchar[ 255 ]
// " ++ [128512]%N ++ runes_of_ascii " emoji
// `tick` ""quote"" 'q'
int `crlf
line` ,@tag( 1 ) Logon roots
    `// not a comment` , }
")).
Eval vm_compute in ("<<<M1859>>>" ++ check (runes_of_ascii "packet

lengthOf

    {
	@tag(
65535
/// triple
  //	t
    )
@tag( 	 //	t
  3	)
@tag(
0123456789

    )
options1	@calculatedFrom(

""abc"" 
)
	,  @rightPad	(
	'0'
    )

    falsey	@lengthOf( a1
) , 
@lengthOf( Pad

    )
body 
@calculatedFrom(  // " ++ [128512]%N ++ runes_of_ascii " emoji

	""packet"" 
)	// trailing space 
,  }	packet
    int
{
	string

    Foo

    @calculatedFrom( ""CRC32"" 
) ,

    }
    root 

// trailing space 
    //	t
  packet  uint8x 
{
} 
root
    packet
    len {  x_y_z

_x ,

BodyLength  rootA
	    /// triple
//
		,
match

f32a as
	Logon{

    [ 
""a\""b"", """ ++ [28040; 24687]%N ++ runes_of_ascii """,
	""" ++ [128512]%N ++ runes_of_ascii """ ,  65535
, 00  ,4294967296

    ,  """"

    ,
	""abc""
    ]
    :  roots	,  [ 00
]  :  A
,
[
65535 
	// a // b
    // trailing space 
  , 
// trailing space 
		// " ++ [128512]%N ++ runes_of_ascii " emoji
65535	,
""""
]
    // c
	  // packet A { u8 x, }
	:  
      // " ++ [128512]%N ++ runes_of_ascii " emoji

	// trailing space 
pack 
,

}  
      // trailing space 
  ,

    repeat  Pad  `say ""hi""`

, 
/// triple
	a1 calculatedFrom ,
@lengthOf(
	stringy
	)
    char[]

As
    @calculatedFrom(

""\" ++ [233]%N ++ runes_of_ascii """)

    ,zchar[ 0123456789 ] Z9_
@lengthOf( repeatCount ) // packet A { u8 x, }

  `a\`

    ,repeat	// `tick` ""quote"" 'q'
    	string	lengthOf
, //x
	u8
    falsey	@calculatedFrom(  ""a\\"")
	,@calculatedFrom(""it's""
)string 
calculatedFrom @lengthOf( MetaDataX
	)
	,}
")).
Eval vm_compute in ("<<<M134>>>" ++ check (runes_of_ascii "packet // " ++ [128512]%N ++ runes_of_ascii " emoji
x{
    //x
    lengthOf @calculatedFrom(""abc"")
`u8 x,`
    ,
@rightPad( )
//x
// @lengthOf(
float32 Packet @lengthOf( falsey ) ,	char[ 10] falsey , @tag( 3  ) repeat zchar[
    4294967296 ] repeatCount ,repeatCount`say ""hi""` , int16 u128 // `tick` ""quote"" 'q'
,
char[ 3
] crc
@calculatedFrom( ""x y"" )
, // trailing space 
@leftPad
    (
    // " ++ [27880; 37322]%N ++ runes_of_ascii "
    '\x00' )	match chars as i8i8 {
    42 : charz// trailing space 
,}
, }  options {	} MetaData metadata { char[ 4294967296 ] i8i8	,
    float
    rootA , i64
    packetx // " ++ [27880; 37322]%N ++ runes_of_ascii "
, i8 // " ++ [27880; 37322]%N ++ runes_of_ascii "
roots `crlf
line`
    ,
    tag i64_  , uint8 Pad `" ++ [233]%N ++ runes_of_ascii "`
, }root packet Header{
u64 options1  `two words`
    , @calculatedFrom(""a\\"" // trailing space 
) // " ++ [128512]%N ++ runes_of_ascii " emoji
i32 //	t
x_y_z	@calculatedFrom( ""a\""b"")`tab	here` , match
A as len { [ ""CRC32"" // " ++ [128512]%N ++ runes_of_ascii " emoji
,""it's""  ] //	t
: Z9_ ""a	b"" :
    o ,
} , match asx
as pack {0 :	x_y_z , }
    , char[] i64_ `{ , }`
,
    }
MetaData stringy
{ // trailing space 
lengthOf
// `tick` ""quote"" 'q'
//	t
o, string//
u8x , f32 string_ `doc` ,}
")).
Eval vm_compute in ("<<<M70>>>" ++ check (runes_of_ascii "packet pack { @lengthOf(
Foo
    // c
    )
    asx @lengthOf( _x ) /// triple
, u8	x_y_z `two words` ,repeat
    zchar[0
    ] roots `
`
    // `tick` ""quote"" 'q'
    , lengthOf @calculatedFrom( ""abc""
) ,
@tag( 3 ) @rightPad	( ' ')@calculatedFrom(
""1""
//x
// " ++ [27880; 37322]%N ++ runes_of_ascii "
)
repeat uint64 i64_ // trailing space 
`say ""hi""` // @lengthOf(
,	@tag( 007 ) match roots as float {	""a	b""
    : lengthOf,
    [1, // @lengthOf(
""\n""
,
""a\""b"" , ""\" ++ [233]%N ++ runes_of_ascii """ ,  ""1"",
    42 ]: msg_type, """ ++ [128512]%N ++ runes_of_ascii """: Foo} ,T//x
{
    match
Header
as trueish
{ [
// `tick` ""quote"" 'q'
// @lengthOf(
0 , 3// @lengthOf(
, ""{,}"" ,
""1"" ,
00  ,
0123456789
,
    ""// no comment"" ]
:As
    , }
    , } , repeat char[
    10
]
o `
`
, @calculatedFrom(
    //
    ""`tick`"" //x
) repeat crc {
    repeatCount o ,
    u8x
As, } ,
} packet pack{@calculatedFrom( """ ++ [233]%N ++ runes_of_ascii "t" ++ [233]%N ++ runes_of_ascii """ )  u32 f32a
,
}
    MetaData float
{u32 options1 , }
packet
f32a { }
")).
Eval vm_compute in ("<<<M280>>>" ++ check (runes_of_ascii "packet	crc{@lengthOf( stringy// a // b
) @leftPad (
'0'
    ) @calculatedFrom(
""packet"" )
repeat char[
    // c
    3]  i64_ // a // b
, match
    options1	as o { 255 :msg_type
,
    ""\n"": MetaDataX , 42: msg_type """ ++ [128512]%N ++ runes_of_ascii """
    : lengthOf,""// no comment"" :falsey , }
/// triple
// trailing space 
, @leftPad( )
    @lengthOf( A
    ) @calculatedFrom( ""x y"" ) uint32// a // b
charz `doc`, len ,@calculatedFrom( ""// no comment"" ) match _x
    //x
    as i64_	{ 65535
    :
    // @lengthOf(
    u8x , } ,
char[]
    a1 // @lengthOf(
, Foo { u8x{ char[]
Logon
    `// not a comment`	,}, match metadata as u128 { // trailing space 
42 : u8x
, 65535 : f32a
    } //x
, asx// " ++ [128512]%N ++ runes_of_ascii " emoji
@lengthOf( matchKey  ) ,} , roots @calculatedFrom( // packet A { u8 x, }
""a\""b"" )
,	zchar[
7] int	, repeat pack	trueish ,
    }
")).
Eval vm_compute in ("<<<M354>>>" ++ check (runes_of_ascii "options {
} packet u8x{ string uint8x@calculatedFrom(""{,}"" )	`crlf
line`	,} MetaData falsey{
    Logon packetx `tab	here` , } root packet o
{ falsey@calculatedFrom(
//x
// " ++ [27880; 37322]%N ++ runes_of_ascii "
""" ++ [28040; 24687]%N ++ runes_of_ascii """ ) ,	@tag(0123456789) // `tick` ""quote"" 'q'
char[
    // `tick` ""quote"" 'q'
    0123456789
]	u128@calculatedFrom(
""{,}"" ) ,
    @tag(
    00)
@lengthOf( stringy
) @tag( 4294967296
)  rootA Header,  @lengthOf(As
    )
    repeat leftPad `// not a comment`// c
, i8 leftPad @calculatedFrom( """" ) , @tag( 10
) zchar[ 007
] packetx
@lengthOf( // packet A { u8 x, }
u8x )	`" ++ [28040; 24687; 31867; 22411]%N ++ runes_of_ascii "` ,
}packet	options1 {
//	t
// trailing space 
falsey// packet A { u8 x, }
{ //	t
zchar[ 3
    ]// " ++ [128512]%N ++ runes_of_ascii " emoji
roots
//
// a // b
,
    u32 Header // c
,
} ,// a // b
}")).
Eval vm_compute in ("<<<M1779>>>" ++ check (runes_of_ascii "// top
    root 	 // c0

	packet 	 // c1
	_x  // c2
    { 	 // c3
    match  // c4
	  Foo 	 // c5

as// c6
  Z9_ 	 // c7
{// c8
    ""a	b"" 	 // c9
:	// c10
  Pad 	 // c11
    , // c12
}  // c13
  ,  // c14
      repeat 	 // c15
x // c16
	`line1
line2` // c17
      ,// c18
@rightPad  // c19

  (	// c20
' '  // c21
)	// c22
  @calculatedFrom(  // c23
  ""a\\"" // c24
    )  // c25
      metadata // c26
    MetaDataX	// c27
	, 	 // c28
    @tag( 	 // c29

  0  // c30

)	// c31
  	Logon// c32
		int 	 // c33
      ``	// c34

,// c35
    	}	// c36
	options 	 // c37
	  { 	 // c38
    T 	 // c39
	= // c40

  '\x00'	// c41
    }  // c42
 
")).
Eval vm_compute in ("<<<M1294>>>" ++ check (runes_of_ascii "// top
packet // c0a
  // c0b
A // c1
{
    // c2
u8
    // c3
a // c4a
  // c4b
, } // c6a
  // c6b
packet // c7a
  // c7b
B // c8a
  // c8b
{ u16 // c10
b // c11a
  // c11b
,
    // c12
}
    // c13
root // c14
packet P // c16
{ // c17a
  // c17b
u8 K1 // c19
, // c20
u8 // c21a
  // c21b
K2 // c22a
  // c22b
, // c23a
  // c23b
match // c24a
  // c24b
K1 as
    // c26
M1 // c27a
  // c27b
{ // c28a
  // c28b
1
    // c29
:
    // c30
A // c31
, // c32a
  // c32b
} , match K2
    // c36
as
    // c37
M2 // c38
{ 1 : // c41a
  // c41b
B
    // c42
, } ,
    // c45
} // c46
")).
Eval vm_compute in ("<<<M1367>>>" ++ check (runes_of_ascii "options {
    StringPrefixLenType = u8;
    ArrayPrefixLenType = u8;
    FixedStringPadFromLeft = false;
    FixedStringPadChar = ' ';
}
packet Ack {
    char[] tag7,
}
packet Reject {
    InSym61 {
        repeat Ack,
        zchar[4] f1,
    },
}
packet Logout {
    char[4] clOrdID,
}
root packet Cancel {
    @leftPad(' ') char[10] price,
    u8 x,
    u32 venue @lengthOf(Body),
    match x as Body {
        [92, 175] : Logout,
        26 : Reject,
        144 : Ack,
    },
    u16 count @calculatedFrom(""CRC32""),
}
")).
Eval vm_compute in ("<<<M1235>>>" ++ check (runes_of_ascii "// top
options
    // c0
{
    // c1
f32a
    // c2
=
    // c3
0
    // c4
}
    // c5
packet
    // c6
trueish
    // c7
{
    // c8
}
    // c9
MetaData
    // c10
_x
    // c11
{
    // c12
char[
    // c13
0123456789
    // c14
]
    // c15
zchar
    // c16
,
    // c17
string
    // c18
crc
    // c19
,
    // c20
char[
    // c21
1
    // c22
]
    // c23
options1
    // c24
,
    // c25
uint8
    // c26
repeatCount
    // c27
,
    // c28
}
    // c29
")).
Eval vm_compute in ("<<<M1799>>>" ++ check (runes_of_ascii "packet int {
    zchar[007] metadata,
    i16 matchKey,
    @rightPad('0')
    @lengthOf(metadata)
    repeat zchar[10] charz,
}

packet int {
    @tag(65535)
    u32 x @calculatedFrom(""x y""),
    match pack as MetaDataX {
        [""abc"", 0123456789, ""`tick`""] : body,
    },
    @lengthOf(zchar)
    match leftPad as u8x {
        10 : u8x,
        [007, 255] : chars,
        """" : body,
        42 : trueish,
    },
}")).
Eval vm_compute in ("<<<M292>>>" ++ check (runes_of_ascii "packet/// triple
matchKey { float32 float,@calculatedFrom(""a\\""// " ++ [27880; 37322]%N ++ runes_of_ascii "
) @rightPad
( '\x00' )i16 tag  @calculatedFrom(""abc"" ) ,
repeat zchar[255
] pack
    , @lengthOf( Z9_ ) tag , } // trailing space 
root
packet rootA { repeat metadata { Logon , }, @tag( 10)
@lengthOf( A )
@tag( 007)
u32
    options1, match float as u {0123456789 : u8x ,} ,	}// " ++ [27880; 37322]%N ++ runes_of_ascii "
root packet lengthOf { }
")).
Eval vm_compute in ("<<<M1724>>>" ++ check (runes_of_ascii "// top
root packet Frame {
    u8 K,
    // c6
    Logon first,// c9
    match K as Body {
        // c14
        1 : Logon,
        // c18a
        // c18b
        2 : Logout,
        // c22
    },// c24a
    // c24b
}// c25a

// c25b
packet Logon {
    string user,// c31
}// c32

packet Logout {
    u16 reason,// c38a
    // c38b
}// c39a
// c39b")).
Eval vm_compute in ("<<<M1393>>>" ++ check (runes_of_ascii "packet As {
    @leftPad()
    char[0] Logon,
    char[0] Z9_ @calculatedFrom(""abc""),
    @tag(4294967296)
    i64 matchKey @calculatedFrom(""// no comment"") `two words`,
    i16 A,
}// " ++ [27880; 37322]%N ++ runes_of_ascii "

packet T {
    zchar[3] tag @lengthOf(chars),
}

packet BodyLength {
    calculatedFrom @lengthOf(body) `
        `,
}// a // b")).
Eval vm_compute in ("<<<M89>>>" ++ check (runes_of_ascii "packet Foo // " ++ [128512]%N ++ runes_of_ascii " emoji
{@lengthOf( f32a )
char[
0123456789 //	t
] float `u8 x,` ,}
    packet // a // b
i64_ {@lengthOf(stringy // packet A { u8 x, }
)
    char[] int @calculatedFrom(""{,}"" ) ,@tag(
007 ) //
int64
stringy`" ++ [233]%N ++ runes_of_ascii "` ,  char[]A @calculatedFrom(
""\" ++ [233]%N ++ runes_of_ascii """
    )	`doc` ,// " ++ [27880; 37322]%N ++ runes_of_ascii "
}
")).
Eval vm_compute in ("<<<M254>>>" ++ check (runes_of_ascii "packet  zchar
{ zchar[ 42
//
//
]uint8x ,
    match
    A as
As{
    0: int
    ,
}
, @tag(7 ) @calculatedFrom(
""packet"" ) match
i64_
as metadata //	t
{
    ""CRC32"" :
A , }
,
    // c
    }	root
packet
uint8x {
    char[ 00 ]	crc
,// " ++ [128512]%N ++ runes_of_ascii " emoji
} 	 ")).
Eval vm_compute in ("<<<M358>>>" ++ check (runes_of_ascii "
packet matchKey	{ // @lengthOf(
@lengthOf(
a1 ) string_
T`" ++ [28040; 24687; 31867; 22411]%N ++ runes_of_ascii "`, //
} packet body {f32 _x  , packetx @lengthOf(
options1 ) // packet A { u8 x, }
`` , @leftPad ( ' ') i16 crc ,@calculatedFrom(
""" ++ [128512]%N ++ runes_of_ascii """
)	Pad
, } //")).
Eval vm_compute in ("<<<M1311>>>" ++ check (runes_of_ascii "options {
    FixedStringPadChar = '0';
}
packet Q {
    zchar[4] z,
    @rightPad('\x00') char[3] n,
    char[5] d,
}
root packet R {
    Q,
    zchar[8] top,
    repeat zchar[2] zs,
}
")).
Eval vm_compute in ("<<<M1608>>>" ++ check (runes_of_ascii "
MetaData
    repeatCount 	 // c
  {char[

    42  // " ++ [27880; 37322]%N ++ runes_of_ascii "
  	] 

// " ++ [128512]%N ++ runes_of_ascii " emoji
    MetaDataX , 
        // @lengthOf(
zchar[ 
        // " ++ [27880; 37322]%N ++ runes_of_ascii "
	//x
      0	]
    asx ,

} ")).
Eval vm_compute in ("<<<M1575>>>" ++ check (runes_of_ascii "
MetaData
    leftPad

    {
    chars MetaDataX 
, } 
    // c
packet
repeatCount
{
    char[
	255 ]
uint8x 
`" ++ [233]%N ++ runes_of_ascii "`  ,

} MetaData
pack{  As 
Foo
	,
    }
")).
Eval vm_compute in ("<<<M466>>>" ++ check (runes_of_ascii "packet uint8x
{ match pack
    as msg_type	{
    0123456789 :	float
}
,
} packet //	t
a1 a1
    { } options {packetx
    = '\x00'	; u128= ""a	b""  ; }
")).
Eval vm_compute in ("<<<M463>>>" ++ check (runes_of_ascii "packet uint8x
{ match pack
    as msg_type	{
    0123456789 :	float
}
,
} float32 //	t
a1
    { } options {packetx
    = '\x00'	; u128= ""a	b""  ; }
")).
Eval vm_compute in ("<<<M472>>>" ++ check (runes_of_ascii "packet uint8x
{ match pack
    as msg_type	{
    0123456789 :	float
}
,
} packet //	t
a1
    } { options {packetx
    = '\x00'	; u128= ""a	b""  ; }
")).
Eval vm_compute in ("<<<M676>>>" ++ check (runes_of_ascii "// @lengthOf(
packet i8i8 { u128 o , }
options { MetaDataX = true;
    BodyLength =""packet"" x_y_z x_y_z= 007
crc //x
= ""abc"" ;
    msg_type =
i16 }")).
Eval vm_compute in ("<<<M440>>>" ++ check (runes_of_ascii "packet uint8x
{ match pack
    as msg_type	{
    0123456789 :	
}
,
} packet //	t
a1
    { } options {packetx
    = '\x00'	; u128= ""a	b""  ; }
")).
Eval vm_compute in ("<<<M529>>>" ++ check (runes_of_ascii "packet uint8x
{ match pack
    as msg_type	{
    0123456789 :	float
}
,
} packet //	t
a1
    { } options {packetx
    = '\x00'	; u128= ""a	b""")).
Eval vm_compute in ("<<<M1260>>>" ++ check (runes_of_ascii "

  packet

B
    {

u8
	a

,
    }root
packet
P{ u8 K  , u8

L @lengthOf(
	Body )
,  match

K
    as Body
{

    1  :  B
	,  },
    } ")).
Eval vm_compute in ("<<<M649>>>" ++ check (runes_of_ascii "// @lengthOf(
packet i8i8 { u128 o , }
options {  = true;
    BodyLength =""packet"" x_y_z= 007
crc //x
= ""abc"" ;
    msg_type =
i16 }")).
Eval vm_compute in ("<<<M1958>>>" ++ check (runes_of_ascii "

  packet A
{
	u16
len

    @lengthOf(
	body) `a
b`

,

u32
	crc 
@calculatedFrom(
""CRC32"" 
) 
`a
b`	,	string
body
    ,}
")).
Eval vm_compute in ("<<<M34>>>" ++ check (runes_of_ascii "options {
Logon = 0 } options { msg_type = 3
    MetaDataX =
    // " ++ [128512]%N ++ runes_of_ascii " emoji
    int8
    uint8x=""""
    ;
    As = '0' }")).
Eval vm_compute in ("<<<M1162>>>" ++ check (runes_of_ascii "MetaData leftPad { chars MetaDataX , } packet repeatCount {
// c
char[ 255 ] uint8x `" ++ [233]%N ++ runes_of_ascii "` , } MetaData pack { As Foo , }")).
Eval vm_compute in ("<<<M938>>>" ++ check (runes_of_ascii "packet A {
    Inner {
        u8 x `a
    b
  c`,
        Deep {
            u8 y `a
    b
  c`,
        },
    },
}")).
Eval vm_compute in ("<<<M494>>>" ++ check (runes_of_ascii "packet uint8x
{ match pack
    as msg_type	{
    0123456789 :	float
}
,
} packet //	t
a1
    { } options {")).
Eval vm_compute in ("<<<M1397>>>" ++ check (runes_of_ascii "MetaData 
leftPad 
{	/// triple
  char[] body 
, As options1  
  //
    /// triple

,o
//x

i64_ ,
	} ")).
Eval vm_compute in ("<<<M1248>>>" ++ check (runes_of_ascii "  options
{LittleEndian 
= true 
; }

    root  packet

P {

    repeat
char
cs

, u8
	x, }

")).
Eval vm_compute in ("<<<M568>>>" ++ check (runes_of_ascii "
packet
    asx {match match u128 as lengthOf
{
//	t
// `tick` ""quote"" 'q'
255 : x ,
    } ,	}")).
Eval vm_compute in ("<<<M1577>>>" ++ check (runes_of_ascii "  packet A {

match
    k
as n { 
[
1

    , 
22 ,
	007 ,4 ]:
    B 2
	:

    C

}
	, }")).
Eval vm_compute in ("<<<M637>>>" ++ check (runes_of_ascii "
~packet
    asx {match u128 as lengthOf
{
//	t
// `tick` ""quote"" 'q'
255 : x ,
    } ,	}")).
Eval vm_compute in ("<<<M575>>>" ++ check (runes_of_ascii "
packet
    asx {match u64 as lengthOf
{
//	t
// `tick` ""quote"" 'q'
255 : x ,
    } ,	}")).
Eval vm_compute in ("<<<M572>>>" ++ check (runes_of_ascii "
packet
    asx {match  as lengthOf
{
//	t
// `tick` ""quote"" 'q'
255 : x ,
    } ,	}")).
Eval vm_compute in ("<<<M1571>>>" ++ check (runes_of_ascii "packet

A{

    Inner
{ 
u8	x
`
x`

    , Deep 
{

u8  y `
x`	,	} 
,} 
,  }
")).
Eval vm_compute in ("<<<M1890>>>" ++ check (runes_of_ascii "packet Inner {
    u8 a,
}

root packet P {
    repeat Inner items,
    u8 x,
}")).
Eval vm_compute in ("<<<M1249>>>" ++ check (runes_of_ascii "packet Inner {
    u8 a,
}
root packet P {
    Inner ref_obj,
    u8 x,
}
")).
Eval vm_compute in ("<<<M877>>>" ++ check (runes_of_ascii "packet A { Inner { match k as n { [1,22,007,4,5,66,7,8,9] : B, }, }, }")).
Eval vm_compute in ("<<<M1687>>>" ++ check (runes_of_ascii "root packet P {
    u8 s_u8,
    repeat u8 r_u8,
    u16 b_len,
}")).
Eval vm_compute in ("<<<M1848>>>" ++ check (runes_of_ascii "
options
{ 
a1

=
    ""packet""	// a // b
; }	// @lengthOf(
")).
Eval vm_compute in ("<<<M774>>>" ++ check (runes_of_ascii "packet A {
  match k as n {
    [1] : B
    2 : C
  },
}")).
Eval vm_compute in ("<<<M1202>>>" ++ check (runes_of_ascii "packet body
// c
{ i32 f32a `{ , }` , } options { }")).
Eval vm_compute in ("<<<M1073>>>" ++ check (runes_of_ascii "packet A {} packet B {} MetaData M {} options {}")).
Eval vm_compute in ("<<<M212>>>" ++ check (runes_of_ascii "packet
    MetaDataX {i16 u128`" ++ [233]%N ++ runes_of_ascii "` , //x
}")).
Eval vm_compute in ("<<<M1096>>>" ++ check (runes_of_ascii "packet A { u8 x,// a


// b

 u8 y, }")).
Eval vm_compute in ("<<<M1090>>>" ++ check (runes_of_ascii "packet A { @tag( // a
 1 ) u8 x, }")).
Eval vm_compute in ("<<<M1535>>>" ++ check (runes_of_ascii "packet 
A{

    } 
  // c" ++ [8232]%N ++ runes_of_ascii "
 
")).
Eval vm_compute in ("<<<M1797>>>" ++ check (runes_of_ascii "  MetaData  tag	// c
  { }

")).
Eval vm_compute in ("<<<M1866>>>" ++ check (runes_of_ascii "options  { } 	 // " ++ [128512]%N ++ runes_of_ascii " emoji")).
Eval vm_compute in ("<<<M295>>>" ++ check (runes_of_ascii "root  packet
u128 { }")).
Eval vm_compute in ("<<<M1133>>>" ++ check (runes_of_ascii "MetaData u
// c
{ }")).
Eval vm_compute in ("<<<M1027>>>" ++ check (runes_of_ascii "// c" ++ [8287]%N ++ runes_of_ascii "
packet A {
}")).
Eval vm_compute in ("<<<M1014>>>" ++ check (runes_of_ascii "packet A {
}// c" ++ [8233]%N)).
Eval vm_compute in ("<<<M1812>>>" ++ check (runes_of_ascii "packet f32a {
}")).
Eval vm_compute in ("<<<M1060>>>" ++ check (runes_of_ascii "// c x")).
Eval vm_compute in ("<<<M86>>>" ++ check (runes_of_ascii "  ")).
