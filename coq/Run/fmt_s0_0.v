From FP Require Import Lexer Parser ShowPT Digest Formatter.
From Coq Require Import String List NArith.
Import ListNotations.
Open Scope string_scope.
Set Printing Width 100000000.
Set Printing Depth 100000000.
Definition show_fres (r : fres) : string :=
  match r with
  | FOk s => "OK:" ++ sh_escaped s ""
  | FErr s => "ERR:" ++ sh_escaped s ""
  | FPanic p => "PANIC:" ++ p
  end.
Definition check (rs : list rune) : string := digest (show_fres (format_res rs)).
Definition full (rs : list rune) : string := show_fres (format_res rs).
Eval vm_compute in ("<<<M320>>>" ++ check (runes_of_ascii "packet
    /// triple
    a1 { @rightPad ( ' ' ) @tag( 255
)
@lengthOf( zchar ) string MetaDataX	@calculatedFrom( ""CRC32"" ) // a // b
`crlf
line` ,u8 A @lengthOf( charz
    ) ,
    body ,@rightPad
    ( '0'	)@lengthOf( charz ) match repeatCount as
    Z9_ { 0123456789 : metadata // @lengthOf(
,""" ++ [233]%N ++ runes_of_ascii "t" ++ [233]%N ++ runes_of_ascii """ : float  ,// packet A { u8 x, }
""1"": Logon ,// " ++ [27880; 37322]%N ++ runes_of_ascii "
},
x_y_z`" ++ [233]%N ++ runes_of_ascii "`//x
, @calculatedFrom(	""1"")match Header  as body
    { 4294967296
// @lengthOf(
// @lengthOf(
: MetaDataX
,
""abc"" //x
: packetx
    }
, x_y_z @calculatedFrom( ""\" ++ [233]%N ++ runes_of_ascii """ ),i64_  @calculatedFrom(""abc"")`
`,
@rightPad //	t
(
)
    //	t
    char
    float
@lengthOf(	trueish )
, @tag(42 ) @leftPad ( '\x00' ) @calculatedFrom(	""\n"") repeat string
tag, //x
} packet
tag { repeat T u `
` , string u128 @calculatedFrom( // `tick` ""quote"" 'q'
""packet"" )`u8 x,` ,
// trailing space 
//x
repeat
    f64
stringy `" ++ [233]%N ++ runes_of_ascii "` , u32 leftPad  @lengthOf(float ) , uint32	i8i8
@lengthOf( f32a
) , int@calculatedFrom( """ ++ [233]%N ++ runes_of_ascii "t" ++ [233]%N ++ runes_of_ascii """ )
    ,
    // c
    @calculatedFrom( ""\n""
) @leftPad
    ( '\x00') @rightPad
    ()
    repeat
pack  `// not a comment` , @calculatedFrom( ""1""	)
    char[]  string_
,f64 calculatedFrom
    @lengthOf(	pack)  `tab	here`,@tag(00 ) int8 tag
    ,
} options { f32a
= ""a	b"" _x = false ; _x = '0' o= false /// triple
} packet falsey
    /// triple
    { @tag(
    // trailing space 
    007 ) string falsey,
i64_
@lengthOf(crc),repeat // c
u128 body// packet A { u8 x, }
, char[ 00]roots,/// triple
metadata @lengthOf(packetx // `tick` ""quote"" 'q'
)
    `
`	,// trailing space 
string_
BodyLength, @calculatedFrom(
""it's"" ) repeat matchKey ,
metadata
    @calculatedFrom( ""abc""
)// @lengthOf(
,
@tag( 255 )repeat
Pad
    {
char[] packetx ,repeat o { int16 charz
    // packet A { u8 x, }
    ,packetx {
i8
//
// packet A { u8 x, }
zchar ,} ,char[10 //x
]x
, repeat zchar[ 0123456789 ]
pack , // c
} ,	int ,
i8 asx ,
}
,}
packet leftPad
    { @tag(255
    /// triple
    )repeat uint16 msg_type  ,
    // c
    f32  trueish @calculatedFrom("""" )	`two words` // `tick` ""quote"" 'q'
, @leftPad( '\x00' ) @lengthOf( leftPad
) // a // b
@lengthOf( asx // a // b
)
    //	t
    zchar[ 1] roots @calculatedFrom(
""abc""
) ,pack @lengthOf(
Z9_ ), @tag(
65535) @lengthOf(Header
    ) // c
f64 tag , @tag( 1
)repeat
    u8x, match stringy// c
as x { ""it's"" // " ++ [27880; 37322]%N ++ runes_of_ascii "
: Z9_ ,7 : u128 ,
""// no comment"" :trueish, 00
:
    //	t
    f32a ,
    [3,  1, 00]:	pack,""" ++ [28040; 24687]%N ++ runes_of_ascii """
    // trailing space 
    : options1	,
// `tick` ""quote"" 'q'
//x
} ,
repeat // `tick` ""quote"" 'q'
u128 { repeat
crc
{ int16	int ,  }
// c
// @lengthOf(
, }
    // @lengthOf(
    , @leftPad ( ' '  ) // trailing space 
repeat
zchar[ 255 ]
// " ++ [128512]%N ++ runes_of_ascii " emoji
// `tick` ""quote"" 'q'
int `crlf
line` ,@tag( 1 ) Logon roots
    `// not a comment` , }
")).
Eval vm_compute in ("<<<M1603>>>" ++ check (runes_of_ascii "MetaData Pad 
{

char[]  Packet
    ,
    f32a i64_	`tab	here` 
  // c
	  // a // b

,}
	root
	packet As{ @calculatedFrom(""CRC32"" )	@calculatedFrom(""1"")
    @calculatedFrom(
""// no comment""
// a // b
      //
      )  As
As
`say ""hi""`
,  Foo
	msg_type,	calculatedFrom 
@calculatedFrom(
""\n""  ) , zchar { zchar[

    7 ]
charz // `tick` ""quote"" 'q'
      @calculatedFrom( ""x y""

)	, Z9_ 
`{ , }` ,

repeat int{
	zchar[
3]
    i8i8 @lengthOf(  chars),  match

zchar
    as 
o
{1
	://
    	u128,	0	:
// trailing space 
//x
    	stringy,  42  : charz
""x y""  :a1
3

    : 
Header ,

    4294967296 :o

    } 
,

    repeat
    Header
`two words` 
,match
u8x
as u8x
{[	10
    ]:

pack
	, 1  : 
BodyLength
//
    // " ++ [27880; 37322]%N ++ runes_of_ascii "
    0
: MetaDataX

, 42: 
calculatedFrom
} ,
} 	 /// triple
    	,
}	,	// " ++ [27880; 37322]%N ++ runes_of_ascii "
} 

    // `tick` ""quote"" 'q'

	/// triple
  packet i64_
{}
    root	packet x
{ Header {

    char[/// triple
	0

    ]
_x	`// not a comment`	,
    } ,  @lengthOf(
A )	uint32

f32a@calculatedFrom(  ""abc"" )  
      // `tick` ""quote"" 'q'
  // " ++ [27880; 37322]%N ++ runes_of_ascii "
    	,
    repeat

i16 
trueish

`u8 x,`
	,  @rightPad
	(
' ' 
) @calculatedFrom(
	""a\\""
) float
,repeat	char[7	]	zchar	, @tag(  10 )
	repeat  
  //	t
  	a1

    falsey
	`say ""hi""` , @lengthOf( len
) repeat
	zchar[ 
00
    // `tick` ""quote"" 'q'
  ]
uint8x,
}MetaData
metadata	{ u8 
body
,	}
")).
Eval vm_compute in ("<<<M1935>>>" ++ check (runes_of_ascii "
// top
		packet	// c0a
    // c0b

	A

{// c2
    u8  // c3a
// c3b
	  a
    , // c5
}// c6a
    	// c6b
  packet 	 // c7a
    // c7b
    B { 
	    // c9
u16 b 	 // c11
      ,
}	// c13a
// c13b
  packet 	 // c14
  	C 
	// c15
	{ 
        // c16
	u32
    // c17
	c// c18

	,// c19a
  // c19b
  } 
      // c20
	  root packet // c22a
	  // c22b
  	M 	 // c23
{
	u16 Kc 
        // c26
  ,
    // c27

u16 // c28a
	// c28b
		Kb 
,  // c30
	u16

    Ka 

// c32

,

match // c34a
    // c34b
Kc 	 // c35
    as
X
    // c37

{ 
    // c38
	9 // c39
    :  
      // c40
  A
	// c41
  , 10
: 
    // c44
    	B 
	// c45
  	, 
        // c46
	}

,  match 
// c49
  Kb// c50
	as 	 // c51a
    // c51b
	  Y // c52
  {2 	 // c54a

// c54b
		:
	    // c55
    	C

    ,// c57
1 	 // c58
    : A  ,  // c61a
  	// c61b
    	}// c62

	, // c63a
	  // c63b
  	match
        // c64
	Ka  as  // c66
    Z 	 // c67
{ 

// c68
    	1  // c69a
// c69b
  :
B 	 // c71a

  // c71b
  ,// c72
    }// c73a

// c73b
, 	 // c74

A  // c75a
      // c75b
    ,  // c76
  B 
	    // c77
    	,  
  // c78

	C
,// c80
    	}
")).
Eval vm_compute in ("<<<M174>>>" ++ check (runes_of_ascii "
root packet asx { leftPad
    {u128 @calculatedFrom( ""1""
) , //x
}
, lengthOf // packet A { u8 x, }
@calculatedFrom( """ ++ [128512]%N ++ runes_of_ascii """ ) `a\`
, i64 // `tick` ""quote"" 'q'
Packet @lengthOf(  calculatedFrom ) , @calculatedFrom(
""" ++ [233]%N ++ runes_of_ascii "t" ++ [233]%N ++ runes_of_ascii """ ) stringy	a1 `doc` // `tick` ""quote"" 'q'
, @rightPad
    (
    // a // b
    )
    // c
    a1
    `a\`
,  char
Header @lengthOf(
    x )`say ""hi""`, uint8x
Z9_ `tab	here` ,  }
options
    {
    calculatedFrom// packet A { u8 x, }
= 0}	packet metadata {@leftPad ( '\x00'	) f32
    pack
//	t
//
, @tag( 65535 ) u32 uint8x @lengthOf( repeatCount) ``,MetaDataX	{ repeat options1 , match
matchKey as len { """ ++ [128512]%N ++ runes_of_ascii """:
    u8x	, 1 :
zchar
, /// triple
[ ""a\\""
    ,
    ""x y"" ] : charz 0
    :
    x_y_z
    //
    ,[// trailing space 
4294967296// `tick` ""quote"" 'q'
]: asx  , [/// triple
""a\""b"" , ""\n"" , ""\" ++ [233]%N ++ runes_of_ascii """ ,10 ] : _x ,
    }	, uint8  metadata
@lengthOf(float
) ,
zchar[
    255] i8i8 , },
    }root  packet
f32a
    { }")).
Eval vm_compute in ("<<<M1386>>>" ++ check (runes_of_ascii "// top
options
    // c0
{
    // c1
LittleEndian // c2a
  // c2b
=
    // c3
true // c4a
  // c4b
; } // c6a
  // c6b
packet // c7a
  // c7b
Logon // c8a
  // c8b
{ u8
    // c10
x // c11a
  // c11b
,
    // c12
}
    // c13
packet
    // c14
Logout
    // c15
{ // c16
u16 reason // c18a
  // c18b
, } // c20
root // c21
packet Frame // c23
{ // c24a
  // c24b
u64
    // c25
Kind , // c27
u64 Kind2 // c29
, match Kind // c32
as // c33
Body
    // c34
{
    // c35
1 : // c37a
  // c37b
Logon ,
    // c39
[ // c40a
  // c40b
2 , // c42a
  // c42b
3 // c43a
  // c43b
, // c44
4 // c45a
  // c45b
] // c46a
  // c46b
:
    // c47
Logout
    // c48
, // c49
100 : // c51
Logon
    // c52
, // c53
} // c54
, match // c56a
  // c56b
Kind2 // c57
as // c58
Trailer
    // c59
{ // c60a
  // c60b
0 : // c62
Logout
    // c63
, // c64
} // c65
, } ")).
Eval vm_compute in ("<<<M1427>>>" ++ check (runes_of_ascii "
// a // b

packet
    stringy	{ @tag(3
	) 	 // trailing space 
  i64 
len ,@calculatedFrom(

    ""1""

    )
char[0
]
    x
@lengthOf( 
Foo 
)  ,

    @calculatedFrom(""""
) body
	    // c
  // " ++ [128512]%N ++ runes_of_ascii " emoji
@lengthOf(

calculatedFrom )  `line1
line2`

,	@calculatedFrom(""it's""	// " ++ [128512]%N ++ runes_of_ascii " emoji
)  // packet A { u8 x, }
	match falsey

// packet A { u8 x, }
as
    u8x{
[
""" ++ [128512]%N ++ runes_of_ascii """ 
, 	 // a // b
	  42 ,

1 
,

10
]:

    Header

    ,
}	, 
        // trailing space 
	// `tick` ""quote"" 'q'
	}
MetaData	// " ++ [128512]%N ++ runes_of_ascii " emoji

stringy{f32a
u128 
`{ , }`

    ,	char[ // a // b
      10 
]

    u128	,
chars
	_x
,
    zchar[65535  // trailing space 
] /// triple
  falsey
`{ , }`, _x

i64_ ,

int32
	Packet`crlf
line`, }
MetaData

lengthOf 
{} 
// trailing space 
 
")).
Eval vm_compute in ("<<<M1700>>>" ++ check (runes_of_ascii "packet options1 {
    @leftPad('0')
    @rightPad('\x00')
    @tag(255)
    /// triple
    repeat string As `
    `,
    @calculatedFrom("""")
    @calculatedFrom(""x y"")
    a1 {
        Foo {
            trueish {
                tag @lengthOf(i8i8) `doc`,
            },
            zchar[00] f32a @lengthOf(calculatedFrom),
            repeat zchar[1] stringy `{ , }`,
        },
        uint64 repeatCount @lengthOf(asx),
        char[42] lengthOf @calculatedFrom(""packet""),
        char[10] calculatedFrom @lengthOf(BodyLength),
    },
    asx `// not a comment`,
}

options {
    matchKey = """ ++ [128512]%N ++ runes_of_ascii """
    falsey = ""a\""b"";
    A = ""CRC32""
    msg_type = """ ++ [233]%N ++ runes_of_ascii "t" ++ [233]%N ++ runes_of_ascii """;
}

MetaData o {
}

packet Pad {
}")).
Eval vm_compute in ("<<<M227>>>" ++ check (runes_of_ascii "packet	crc
    { @lengthOf(Header )	repeat roots
    // @lengthOf(
    `a\` ,
@lengthOf( tag ) match x as string_{ [ ""a\\"" , ""packet""
] : Header""// no comment""
    /// triple
    :
Logon , 7:
falsey ,7  : metadata [ 7  , 00] :
    // `tick` ""quote"" 'q'
    repeatCount 3 : u ,
},
    //	t
    @lengthOf( u128
//
// " ++ [27880; 37322]%N ++ runes_of_ascii "
) @rightPad
(
'\x00' // c
)
char[] int ,int16 Packet @lengthOf(  string_
    ) , trueish{ repeat
crc {zchar
calculatedFrom , } ,
} ,
// @lengthOf(
//x
@rightPad
( ) repeat
    _x pack // " ++ [27880; 37322]%N ++ runes_of_ascii "
, @lengthOf(
// c
// trailing space 
chars)repeat
    string_ {repeat
    uint8x`// not a comment`,}
, }")).
Eval vm_compute in ("<<<M1916>>>" ++ check (runes_of_ascii "
root
	    // " ++ [27880; 37322]%N ++ runes_of_ascii "
  // @lengthOf(
    packet Packet{ string  o@calculatedFrom(
""\" ++ [233]%N ++ runes_of_ascii """
	) , @lengthOf(

    Packet
        // packet A { u8 x, }
)

    body
@calculatedFrom( 	 // @lengthOf(
	  ""x y""
)

    `it's`
, float64
	As
@calculatedFrom(  ""`tick`""
	)	,
    char[]

    stringy @calculatedFrom( """ ++ [28040; 24687]%N ++ runes_of_ascii """  ) `doc`	,

    @calculatedFrom( ""a	b""
    )  match
float as
o 
{ [""" ++ [128512]%N ++ runes_of_ascii """
,
	007
	]

    :
metadata

,}
,

f32a
    a1  `a\`

    , 
}MetaData
    repeatCount
	{packetx
	i64_`" ++ [28040; 24687; 31867; 22411]%N ++ runes_of_ascii "` ,  // " ++ [128512]%N ++ runes_of_ascii " emoji
    zchar[

3]
tag

    ,
i8i8

int , 
}
")).
Eval vm_compute in ("<<<M1892>>>" ++ check (runes_of_ascii "packet Logon {
    repeatCount {
        BodyLength `crlf
        line`,
    },
    zchar a1 `u8 x,`,
    match Foo as Foo {
        ""\n"" : i8i8,
        [
            ""abc"",
            ""CRC32""
        ] : crc,
        [
            3, ""x y"", 42, ""`tick`"", 1,
            ""a\""b"", ""CRC32"", 255
        ] : repeatCount,
        [
            1, 007, ""\n"", 007, 7,
            ""// no comment"", 255
        ] : uint8x,
        00 : f32a,
    },
    // a // b
    uint16 Pad @lengthOf(uint8x) `doc`,
}")).
Eval vm_compute in ("<<<M1777>>>" ++ check (runes_of_ascii "options {
    float = char[]
}// packet A { u8 x, }

root packet Logon {
    @tag(1)
    // a // b
    @calculatedFrom(""packet"")
    zchar[3] Z9_,
    @lengthOf(charz)
    @calculatedFrom(""1"")
    match roots as int {
        ""a	b"" : MetaDataX,
    },
    @calculatedFrom(""a\""b"")
    match asx as lengthOf {
        """ ++ [128512]%N ++ runes_of_ascii """ : _x,
        [255] : BodyLength,
        3 : u8x,
        0123456789 : T,
    },
    len @lengthOf(leftPad) `u8 x,`,
}// @lengthOf(")).
Eval vm_compute in ("<<<M256>>>" ++ check (runes_of_ascii "
options // " ++ [27880; 37322]%N ++ runes_of_ascii "
{ T = zchar[ 42
] options1 = uint8 ;
lengthOf
=
    // a // b
    char[4294967296
    ]
    ; } packet Z9_ { repeat
MetaDataX
`crlf
line`
    ,
repeat string x_y_z	,
    u32 x
, // `tick` ""quote"" 'q'
@tag(
// " ++ [128512]%N ++ runes_of_ascii " emoji
// " ++ [128512]%N ++ runes_of_ascii " emoji
00 )repeat i64 Logon ,
u8x
f32a, repeat
    lengthOf``, repeat
stringy Pad
    // @lengthOf(
    `
`,
    repeat
    string_ chars `// not a comment` , }

")).
Eval vm_compute in ("<<<M235>>>" ++ check (runes_of_ascii "packet crc
// a // b
//x
{	u128
    packetx , // " ++ [128512]%N ++ runes_of_ascii " emoji
match roots	as
    //
    falsey
{ 0123456789 // a // b
: Header ""packet""// a // b
: // a // b
Z9_	3 : A ,
// trailing space 
// a // b
""a	b""  : roots 10
:  _x
, } , @tag( 255// a // b
) match
calculatedFrom  as	o {
    255 : string_ """ ++ [28040; 24687]%N ++ runes_of_ascii """ : i64_
,	} , }MetaData
T
{ float64 u	,} packet Pad { /// triple
}
")).
Eval vm_compute in ("<<<M109>>>" ++ check (runes_of_ascii "MetaData Header{ } packet crc {	match zchar as leftPad // `tick` ""quote"" 'q'
{ 7 : As 0 : Packet , [
00 // " ++ [128512]%N ++ runes_of_ascii " emoji
]
: Pad ,
//x
//x
""// no comment""
    :
    calculatedFrom
,	3
    :
string_ , } ,falsey  packetx `crlf
line` , // " ++ [27880; 37322]%N ++ runes_of_ascii "
@tag( 42 )repeat
u64 packetx,
@calculatedFrom(  ""1"" ) repeat u16 calculatedFrom, }
")).
Eval vm_compute in ("<<<M262>>>" ++ check (runes_of_ascii "  packet  Logon
    { o Header ,	Header
, @lengthOf(
u )	char[ 255 ] tag `tab	here`, char[]falsey ,
    @lengthOf(	zchar )
    @rightPad (
) float roots// @lengthOf(
,
@calculatedFrom(	""// no comment"") i64
u8x,
} options { metadata = '0' ;_x = 4294967296 ; Packet
    =
    '0'
;
    }

")).
Eval vm_compute in ("<<<M1274>>>" ++ check (runes_of_ascii "// top
options
    // c0
{ // c1a
  // c1b
FixedStringPadFromLeft
    // c2
= // c3
true
    // c4
; // c5a
  // c5b
}
    // c6
root // c7
packet P {
    // c10
char[ // c11a
  // c11b
4 // c12a
  // c12b
] z // c14
,
    // c15
} // c16a
  // c16b
")).
Eval vm_compute in ("<<<M1382>>>" ++ check (runes_of_ascii "packet Sub {
    u8 a,
    @calculatedFrom(""CRC16"") i32 SubSum,
}
root packet Frame {
    u16 MsgType,
    u16 BodyLen @lengthOf(Body),
    Sub Body,
    string note,
    @calculatedFrom(""CRC16"") i32 Checksum,
    u8 tail,
}
")).
Eval vm_compute in ("<<<M92>>>" ++ check (runes_of_ascii "packet lengthOf { } root packet leftPad {  zchar[00// a // b
]
    Foo `` // c
, @calculatedFrom( ""1"" )
@leftPad (
    ' '
// trailing space 
// " ++ [27880; 37322]%N ++ runes_of_ascii "
)  @leftPad
( ' ')
repeat u8
options1 , }")).
Eval vm_compute in ("<<<M1542>>>" ++ check (runes_of_ascii "// top
options {
    // c1
    LittleEndian = true;
    // c5
}

// c6
root packet P {
    u16 a,// c13
    u32 Sum @calculatedFrom(""CRC32""),
    // c19
}// c20a
// c20b")).
Eval vm_compute in ("<<<M491>>>" ++ check (runes_of_ascii "packet uint8x
{ match pack
    as msg_type	{
    0123456789 :	float
}
,
} packet //	t
a1
    { } options {packetx packetx
    = '\x00'	; u128= ""a	b""  ; }
")).
Eval vm_compute in ("<<<M1416>>>" ++ check (runes_of_ascii "packet A {
    match k as n {
        [
            ""a"", ""bb"", ""c c"", ""d"", ""e"",
            ""f"", ""g"", ""h"", ""i"", ""j""
        ] : B,
        2 : C,
    },
}")).
Eval vm_compute in ("<<<M542>>>" ++ check (runes_of_ascii "$ packet uint8x
{ match pack
    as msg_type	{
    0123456789 :	float
}
,
} packet //	t
a1
    { } options {packetx
    = '\x00'	; u128= ""a	b""  ; }
")).
Eval vm_compute in ("<<<M442>>>" ++ check (runes_of_ascii "packet uint8x
{ match pack
    as msg_type	{
    0123456789 :	}
float
,
} packet //	t
a1
    { } options {packetx
    = '\x00'	; u128= ""a	b""  ; }
")).
Eval vm_compute in ("<<<M468>>>" ++ check (runes_of_ascii "packet uint8x
{ match pack
    as msg_type	{
    0123456789 :	float
}
,
} packet //	t
,
    { } options {packetx
    = '\x00'	; u128= ""a	b""  ; }
")).
Eval vm_compute in ("<<<M667>>>" ++ check (runes_of_ascii "// @lengthOf(
packet i8i8 { u128 o char }
options { MetaDataX = true;
    BodyLength =""packet"" x_y_z= 007
crc //x
= ""abc"" ;
    msg_type =
i16 }")).
Eval vm_compute in ("<<<M1588>>>" ++ check (runes_of_ascii "packet A {
    match k as n {
        [
            1, ""bb"", 007, ""d"", 5,
            ""f"", 7, ""h"", 9, ""j""
        ] : B,
        2 : C,
    },
}")).
Eval vm_compute in ("<<<M688>>>" ++ check (runes_of_ascii "// @lengthOf(
packet i8i8 { u128 o , }
options { MetaDataX = true;
    BodyLength =""packet"" x_y_z= 007
crc //x
= ""abc"" ;
    msg_type =
i16")).
Eval vm_compute in ("<<<M714>>>" ++ check (runes_of_ascii "// @lengthOf(
packet i8i8 { u128 o , }
options { MetaDataX = true;
    BodyLength =""packet"" x_y_z= 007
crc //x
= ""abc"" ;
    msg_type")).
Eval vm_compute in ("<<<M304>>>" ++ check (runes_of_ascii "packet
    // " ++ [27880; 37322]%N ++ runes_of_ascii "
    Logon {
repeatCount @lengthOf( roots ) , @tag(0) repeat zchar[007] crc , rootA a1 `{ , }` , string_ `" ++ [233]%N ++ runes_of_ascii "`
,  }
")).
Eval vm_compute in ("<<<M1194>>>" ++ check (runes_of_ascii "// top
packet // c0
body // c1
{ // c2
i32 // c3
f32a // c4
`{ , }` // c5
, // c6
} // c7
options // c8
{ // c9
} // c10
")).
Eval vm_compute in ("<<<M1161>>>" ++ check (runes_of_ascii "MetaData leftPad { chars MetaDataX , } packet repeatCount { // c
char[ 255 ] uint8x `" ++ [233]%N ++ runes_of_ascii "` , } MetaData pack { As Foo , }")).
Eval vm_compute in ("<<<M39>>>" ++ check (runes_of_ascii "options { o =
    '\x00' // " ++ [128512]%N ++ runes_of_ascii " emoji
; T = u32 ; msg_type
// `tick` ""quote"" 'q'
//
= ""a	b""  a1 = '\x00'
}
// " ++ [128512]%N ++ runes_of_ascii " emoji
")).
Eval vm_compute in ("<<<M915>>>" ++ check (runes_of_ascii "packet A {
  match k as n {
    [""a"", ""bb"", 007, ""d"", ""e"", 66, ""g"", ""h"", 9, ""j"", ""k"", 12] : B
    2 : C
  },
}")).
Eval vm_compute in ("<<<M1278>>>" ++ check (runes_of_ascii "  options{ 
LittleEndian =	true
	; } root	packet
	P {	u16  a ,u32 
Sum
@calculatedFrom(
""CRC32""  )	, }

")).
Eval vm_compute in ("<<<M484>>>" ++ check (runes_of_ascii "packet uint8x
{ match pack
    as msg_type	{
    0123456789 :	float
}
,
} packet //	t
a1
    { }")).
Eval vm_compute in ("<<<M905>>>" ++ check (runes_of_ascii "packet A {
  match k as n {
    [1, 22, 007, 4, 5, 66, 7, 8, 9, 10, 11, 12] : B
    2 : C
  },
}")).
Eval vm_compute in ("<<<M717>>>" ++ check (runes_of_ascii "// @lengthOf(
packet i8i8 { u128 o , }
options { MetaDataX = true;
    BodyLength =""packet"" ")).
Eval vm_compute in ("<<<M640>>>" ++ check (runes_of_ascii "
packet
    asx {match u128 as lengthOf
{
//	t
// `tick` ""quote"" 'q'
$255 : x ,
    } ,	}")).
Eval vm_compute in ("<<<M602>>>" ++ check (runes_of_ascii "
packet
    asx {match u128 as lengthOf
{
//	t
// `tick` ""quote"" 'q'
255 :  ,
    } ,	}")).
Eval vm_compute in ("<<<M865>>>" ++ check (runes_of_ascii "packet A {
  match k as n {
    [1, 22, 007, 4, 5, 66, 7, 8, 9] : B,
    2 : C
  },
}")).
Eval vm_compute in ("<<<M748>>>" ++ check (runes_of_ascii "options match @lengthOf( options char[] zchar[ MetaData f32 f64 u16 ""{,}"" `doc` (")).
Eval vm_compute in ("<<<M269>>>" ++ check (runes_of_ascii "options
{ Z9_ ='\x00'  } packet trueish
{ // " ++ [128512]%N ++ runes_of_ascii " emoji
u16 calculatedFrom
, }")).
Eval vm_compute in ("<<<M804>>>" ++ check (runes_of_ascii "packet A {
  match k as n {
    [1, ""bb"", 007, ""d""] : B,
    2 : C
  },
}")).
Eval vm_compute in ("<<<M1559>>>" ++ check (runes_of_ascii "MetaData
	M
	{u8
    x `a
    b
  c`
, 
T

    t

`a
    b
  c`,} ")).
Eval vm_compute in ("<<<M781>>>" ++ check (runes_of_ascii "packet A {
  match k as n {
    [""a"", ""bb""] : B
    2 : C
  },
}")).
Eval vm_compute in ("<<<M1527>>>" ++ check (runes_of_ascii "packet msg_type {
    repeat zchar[007] Logon `two words`,
}")).
Eval vm_compute in ("<<<M764>>>" ++ check (runes_of_ascii "float32 true uint8 f32 i64 i32 @leftPad ) char[ } uint8")).
Eval vm_compute in ("<<<M1208>>>" ++ check (runes_of_ascii "packet body { i32 f32a
// c
`{ , }` , } options { }")).
Eval vm_compute in ("<<<M1737>>>" ++ check (runes_of_ascii "MetaData _x {
    i64 u128,
    Packet Header,
}")).
Eval vm_compute in ("<<<M1095>>>" ++ check (runes_of_ascii "packet A { char[ // a
 3 // b
 ] // c
 x, }")).
Eval vm_compute in ("<<<M1075>>>" ++ check (runes_of_ascii "MetaData M {
}// c
MetaData N {
}// d")).
Eval vm_compute in ("<<<M1507>>>" ++ check (runes_of_ascii "
root packet
P
	{ string
s ,
}")).
Eval vm_compute in ("<<<M586>>>" ++ check (runes_of_ascii "
packet
    asx {match u128 as")).
Eval vm_compute in ("<<<M917>>>" ++ check (runes_of_ascii "packet A {
    u8 x `a
b`,
}")).
Eval vm_compute in ("<<<M1460>>>" ++ check (runes_of_ascii "
// c
    packet x{ 
}")).
Eval vm_compute in ("<<<M1629>>>" ++ check (runes_of_ascii "packet Packet

{
}

")).
Eval vm_compute in ("<<<M1956>>>" ++ check (runes_of_ascii "

  packet 
o
	{}

")).
Eval vm_compute in ("<<<M1039>>>" ++ check (runes_of_ascii "packet A {
}// c 	")).
Eval vm_compute in ("<<<M1049>>>" ++ check (runes_of_ascii "packet A {
}// c" ++ [65279]%N)).
Eval vm_compute in ("<<<M99>>>" ++ check (runes_of_ascii "
 // " ++ [128512]%N ++ runes_of_ascii " emoji")).
Eval vm_compute in ("<<<M985>>>" ++ check (runes_of_ascii "// c" ++ [160]%N)).
Eval vm_compute in ("<<<M19>>>" ++ check (runes_of_ascii "
")).
