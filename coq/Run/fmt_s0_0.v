From FP Require Import Lexer Parser ShowPT Digest Formatter.
From Coq Require Import String List NArith.
Import ListNotations.
Open Scope string_scope.
Set Printing Width 100000000.
Set Printing Depth 100000000.
Definition show_fres (r : fres) : string :=
  match r with
  | FOk s => "OK:" ++ sh_escaped s ""
  | FErr s => "ERR:" ++ sh_escaped s ""
  | FPanic p => "PANIC:" ++ p
  end.
Definition check (rs : list rune) : string := digest (show_fres (format_res rs)).
Definition full (rs : list rune) : string := show_fres (format_res rs).
Eval vm_compute in ("<<<M320>>>" ++ check (runes_of_ascii "packet
    /// triple
    a1 { @rightPad ( ' ' ) @tag( 255
)
@lengthOf( zchar ) string MetaDataX	@calculatedFrom( ""CRC32"" ) // a // b
`crlf
line` ,u8 A @lengthOf( charz
    ) ,
    body ,@rightPad
    ( '0'	)@lengthOf( charz ) match repeatCount as
    Z9_ { 0123456789 : metadata // @lengthOf(
,""" ++ [233]%N ++ runes_of_ascii "t" ++ [233]%N ++ runes_of_ascii """ : float  ,// packet A { u8 x, }
""1"": Logon ,// " ++ [27880; 37322]%N ++ runes_of_ascii "
},
x_y_z`" ++ [233]%N ++ runes_of_ascii "`//x
, @calculatedFrom(	""1"")match Header  as body
    { 4294967296
// @lengthOf(
// @lengthOf(
: MetaDataX
,
""abc"" //x
: packetx
    }
, x_y_z @calculatedFrom( ""\" ++ [233]%N ++ runes_of_ascii """ ),i64_  @calculatedFrom(""abc"")`
`,
@rightPad //	t
(
)
    //	t
    char
    float
@lengthOf(	trueish )
, @tag(42 ) @leftPad ( '\x00' ) @calculatedFrom(	""\n"") repeat string
tag, //x
} packet
tag { repeat T u `
` , string u128 @calculatedFrom( // `tick` ""quote"" 'q'
""packet"" )`u8 x,` ,
// trailing space 
//x
repeat
    f64
stringy `" ++ [233]%N ++ runes_of_ascii "` , u32 leftPad  @lengthOf(float ) , uint32	i8i8
@lengthOf( f32a
) , int@calculatedFrom( """ ++ [233]%N ++ runes_of_ascii "t" ++ [233]%N ++ runes_of_ascii """ )
    ,
    // c
    @calculatedFrom( ""\n""
) @leftPad
    ( '\x00') @rightPad
    ()
    repeat
pack  `// not a comment` , @calculatedFrom( ""1""	)
    char[]  string_
,f64 calculatedFrom
    @lengthOf(	pack)  `tab	here`,@tag(00 ) int8 tag
    ,
} options { f32a
= ""a	b"" _x = false ; _x = '0' o= false /// triple
} packet falsey
    /// triple
    { @tag(
    // trailing space 
    007 ) string falsey,
i64_
@lengthOf(crc),repeat // c
u128 body// packet A { u8 x, }
, char[ 00]roots,/// triple
metadata @lengthOf(packetx // `tick` ""quote"" 'q'
)
    `
`	,// trailing space 
string_
BodyLength, @calculatedFrom(
""it's"" ) repeat matchKey ,
metadata
    @calculatedFrom( ""abc""
)// @lengthOf(
,
@tag( 255 )repeat
Pad
    {
char[] packetx ,repeat o { int16 charz
    // packet A { u8 x, }
    ,packetx {
i8
//
// packet A { u8 x, }
zchar ,} ,char[10 //x
]x
, repeat zchar[ 0123456789 ]
pack , // c
} ,	int ,
i8 asx ,
}
,}
packet leftPad
    { @tag(255
    /// triple
    )repeat uint16 msg_type  ,
    // c
    f32  trueish @calculatedFrom("""" )	`two words` // `tick` ""quote"" 'q'
, @leftPad( '\x00' ) @lengthOf( leftPad
) // a // b
@lengthOf( asx // a // b
)
    //	t
    zchar[ 1] roots @calculatedFrom(
""abc""
) ,pack @lengthOf(
Z9_ ), @tag(
65535) @lengthOf(Header
    ) // c
f64 tag , @tag( 1
)repeat
    u8x, match stringy// c
as x { ""it's"" // " ++ [27880; 37322]%N ++ runes_of_ascii "
: Z9_ ,7 : u128 ,
""// no comment"" :trueish, 00
:
    //	t
    f32a ,
    [3,  1, 00]:	pack,""" ++ [28040; 24687]%N ++ runes_of_ascii """
    // trailing space 
    : options1	,
// `tick` ""quote"" 'q'
//x
} ,
repeat // `tick` ""quote"" 'q'
u128 { repeat
crc
{ int16	int ,  }
// c
// @lengthOf(
, }
    // @lengthOf(
    , @leftPad ( ' '  ) // trailing space 
repeat
zchar[ 255 ]
// " ++ [128512]%N ++ runes_of_ascii " emoji
// `tick` ""quote"" 'q'
int `crlf
line` ,@tag( 1 ) Logon roots
    `// not a comment` , }
")).
Eval vm_compute in ("<<<M213>>>" ++ check (runes_of_ascii "
packet body
{@tag(
    3 ) i16 options1 ,  repeat string
body ,
@calculatedFrom( // trailing space 
""a\""b""
) x_y_z @calculatedFrom(
""a\\"") `it's` , match o as BodyLength
{ 00
:
pack,
1 : u	,
[255,255,""// no comment"" ]
    : Packet	[ 65535 ] :  i64_ , }
// @lengthOf(
//
,// a // b
@calculatedFrom( // c
""" ++ [233]%N ++ runes_of_ascii "t" ++ [233]%N ++ runes_of_ascii """ ) string// `tick` ""quote"" 'q'
len `tab	here`,
    @tag( 0123456789
) repeat
    //	t
    matchKey A `a\`,
    i8i8 Packet , stringy @calculatedFrom( ""x y"" ) ,f32a As
`crlf
line` ,u128{ repeat
    int  {
    repeat
    zchar[255 ] a1`{ , }`
,
// a // b
// a // b
match calculatedFrom as body//	t
{
    0 // " ++ [27880; 37322]%N ++ runes_of_ascii "
:body	42
    // c
    :tag // @lengthOf(
, ""1""	:packetx , ""it's"":  roots,}, i32 u @calculatedFrom(// " ++ [128512]%N ++ runes_of_ascii " emoji
""a\\"" ) ,
}	,
string_`crlf
line`, _x  , repeat lengthOf crc ,	}, // " ++ [27880; 37322]%N ++ runes_of_ascii "
}
MetaData rootA {
uint8	tag , string	Z9_ `u8 x,` ,
    f64 float ,
    Logon
falsey`a\`
, } packet len{  char[] u	`// not a comment`, char[] Header
`// not a comment`	, string charz
// a // b
/// triple
`tab	here` ,
    //
    @leftPad
    // packet A { u8 x, }
    ( )@lengthOf(
a1)
// " ++ [128512]%N ++ runes_of_ascii " emoji
//x
len
crc, @leftPad ( ' ' )Packet @calculatedFrom(""" ++ [128512]%N ++ runes_of_ascii """ ) , repeat uint8 a1
, match
    T as As { ""packet"": Logon , [	""" ++ [128512]%N ++ runes_of_ascii """
    , 0 ]
: i64_ , [ ""packet"" , 7
    ]
    : string_ ,
} , repeat//
zchar[
007 ] zchar `{ , }` ,
    }
")).
Eval vm_compute in ("<<<M149>>>" ++ check (runes_of_ascii "// trailing space 
packet
    charz {	@calculatedFrom( ""1""
)match x
as tag
    {	[
7 , // @lengthOf(
0
, 65535	,
    // `tick` ""quote"" 'q'
    ""it's""/// triple
,0
    ,
""x y"", 255 ] :tag  , [ ""1"" // a // b
, //	t
3  , 007, // " ++ [27880; 37322]%N ++ runes_of_ascii "
255 ,  ""x y""
    // @lengthOf(
    ] :pack ,[""" ++ [233]%N ++ runes_of_ascii "t" ++ [233]%N ++ runes_of_ascii """	, 7  , 10  , 3
, 0
    , ""a\""b"" ] :
    // packet A { u8 x, }
    leftPad, [ 65535
    // " ++ [27880; 37322]%N ++ runes_of_ascii "
    ,
""x y""]
: chars [ ""\n"" ,65535 , ""a\\""
] :
A	, ""\n"" :
    lengthOf , } ,
match string_
    as	i8i8 { 7 :msg_type , // c
""abc"" :
tag ,""a\""b"" :metadata, 255
    : matchKey	,
    [""CRC32"" ,""1""
// " ++ [27880; 37322]%N ++ runes_of_ascii "
// " ++ [128512]%N ++ runes_of_ascii " emoji
, 007 , ""packet"" ,""a\\"" /// triple
,	""a\""b""
    // " ++ [128512]%N ++ runes_of_ascii " emoji
    , 007 , 4294967296 ] : lengthOf , }
,uint16
pack , string Pad@lengthOf( o ) `say ""hi""` ,repeat i8 body
    ,
@lengthOf( //x
crc ) float64 body `// not a comment`
, repeat rootA { int16 x_y_z `tab	here` ,
falsey @calculatedFrom( ""{,}"" ), trueish @lengthOf(
crc) `{ , }` , }
, match Pad as
Header
{
    4294967296: Header,""\n"" :msg_type,""a	b"" :
    x_y_z
    , }
,
    //	t
    Logon
, } 	 ")).
Eval vm_compute in ("<<<M1749>>>" ++ check (runes_of_ascii "

  root
    packet

    packetx 
{@tag(

0 )  char[ 00 
]
    Z9_ 
,
// a // b
falsey 
      // c
{

    match
x
    as  options1
{
[	//	t
  	42

    , 007]:
	uint8x
} ,	uint8

falsey 
`crlf
line`	, } , f64

Pad
,
	@tag(
	7
)string
Logon // " ++ [27880; 37322]%N ++ runes_of_ascii "
	`a\`  ,
@lengthOf(
	lengthOf	//	t
	)char[
3 ]  
  // " ++ [27880; 37322]%N ++ runes_of_ascii "
  //
	  calculatedFrom

    @calculatedFrom(
    """ ++ [28040; 24687]%N ++ runes_of_ascii """	) , char[]
T 
,//x
  	@tag(

42 
)@leftPad(

    )
char[]

trueish
    @calculatedFrom(
	""`tick`""
) ,match
// `tick` ""quote"" 'q'
	uint8x
	as
	pack  {
[ ""abc""	,

""1""
    , ""packet""

    ,
// `tick` ""quote"" 'q'

	// `tick` ""quote"" 'q'
1,
""a\""b"" ] :As ,

    """ ++ [28040; 24687]%N ++ runes_of_ascii """ :trueish

    ,
	}
	,
    } packet /// triple
	charz  {repeat
	Z9_ 
{
    Pad {

match len
	as 
string_ {
        // a // b
	4294967296
	:
    msg_type  , [ 
""// no comment"" ]	: 
u ,	}
,
	}
	,zchar[
	65535

]

    As@lengthOf(	//x
      string_
)	,

}

,
	} ")).
Eval vm_compute in ("<<<M188>>>" ++ check (runes_of_ascii "// packet A { u8 x, }
root
    packet
    leftPad { @calculatedFrom(
    //x
    ""`tick`"" )	@rightPad( )
    // " ++ [128512]%N ++ runes_of_ascii " emoji
    string_
// `tick` ""quote"" 'q'
// a // b
@lengthOf(	tag
    ) `a\` ,i64 T
    `" ++ [233]%N ++ runes_of_ascii "`,//	t
}
packet
Pad// @lengthOf(
{ @lengthOf(	float ) char[] x@calculatedFrom(
    ""a\""b"")
    , // trailing space 
@tag(
    0// " ++ [128512]%N ++ runes_of_ascii " emoji
) // " ++ [27880; 37322]%N ++ runes_of_ascii "
repeatCount// packet A { u8 x, }
,
repeat rootA{
_x
    ,zchar[3 ]roots
    /// triple
    `crlf
line` ,
}
,
/// triple
// a // b
match
    metadata as BodyLength
    { [
    // c
    10 , 10 , ""a\""b"", """"	, ""\n""
,  ""a\\"" , 4294967296]  :
    u
, }
, repeat	i64_ Packet `" ++ [28040; 24687; 31867; 22411]%N ++ runes_of_ascii "`
,@tag( // packet A { u8 x, }
65535)
    char[] float`it's`
, char[7 ]
    x @calculatedFrom( ""{,}"" ),
    }MetaData leftPad// a // b
{ body rootA
`crlf
line`
, int64
msg_type
`doc`
    , // @lengthOf(
}
")).
Eval vm_compute in ("<<<M1832>>>" ++ check (runes_of_ascii "options {
    Foo = ""// no comment"";
}

packet float {
}

packet len {
    @lengthOf(_x)
    stringy {
        metadata @calculatedFrom(""a\\""),
    },
}

packet asx {
    @tag(0)
    repeat float64 A `say ""hi""`,
    //
    // trailing space 
    i16 int `say ""hi""`,
    @calculatedFrom(""" ++ [128512]%N ++ runes_of_ascii """)
    lengthOf Header `two words`,
    f32a zchar,
    @rightPad('0')
    repeat string_ chars ``,
    @tag(4294967296)
    @calculatedFrom(""a	b"")
    repeat msg_type,
    @leftPad()
    repeat f64 _x,
    repeat As {
        Logon @lengthOf(calculatedFrom) `two words`,
        repeat u64 o `u8 x,`,
    },
    @calculatedFrom(""packet"")
    repeat uint8 u,
}

packet uint8x {
    @leftPad('0')
    //	t
    //x
    zchar[255] metadata `a\`,//
}// `tick` ""quote"" 'q'")).
Eval vm_compute in ("<<<M1351>>>" ++ check (runes_of_ascii "options {
    StringPrefixLenType = u8;
    ArrayPrefixLenType = u32;
    FixedStringPadFromLeft = true;
    FixedStringPadChar = ' ';
}
packet Leg {
}
packet Heartbeat {
    zchar[6] msgKind,
    @rightPad('0') char[3] Qty,
    zchar[9] Side2,
    i8 Acct,
}
packet Logout {
    int8 x,
}
packet Order {
    char[] Acct,
    zchar[8] count,
    u32 OrderId,
    uint8 lastPx,
    u16 clOrdID,
    zchar[7] Note,
}
root packet Reject {
    @leftPad(' ') char[8] Side2,
    i8 clOrdID,
    repeat f32 x,
    u32 lastPx,
    match lastPx as Body {
        [30, 147] : Heartbeat,
        134 : Leg,
        183 : Logout,
        40 : Order,
    },
    u16 Ref @calculatedFrom(""CRC32""),
}
")).
Eval vm_compute in ("<<<M342>>>" ++ check (runes_of_ascii "root packet Z9_	{  repeat i8i8 int`// not a comment`
,	uint8x
    // c
    , f64 i8i8  `tab	here` ,@tag(
3 ) @tag( 3 ) @tag( /// triple
10
// trailing space 
// trailing space 
) repeat int{ MetaDataX // " ++ [27880; 37322]%N ++ runes_of_ascii "
,} , @tag( 10
    ) int8
    pack@lengthOf(x
    ), Logon ,	@tag( 00
) repeat
rootA
uint8x ,  @calculatedFrom( ""\n"" // a // b
) // `tick` ""quote"" 'q'
@lengthOf( len )
// @lengthOf(
// `tick` ""quote"" 'q'
BodyLength  { matchKey f32a
//x
// `tick` ""quote"" 'q'
`say ""hi""` ,} ,  char[] leftPad `{ , }` ,
@lengthOf( float )match repeatCount as	o { 255 : matchKey ,
    // " ++ [128512]%N ++ runes_of_ascii " emoji
    00:	A 007 :
    options1 } , }
")).
Eval vm_compute in ("<<<M1333>>>" ++ check (runes_of_ascii "options {
    LittleEndian = false;
    ArrayPrefixLenType = u8;
    FixedStringPadFromLeft = true;
    FixedStringPadChar = '0';
}
packet Heartbeat {
    string lastPx,
    uint8 Qty,
    i64 Acct,
    char[4] Ref,
}
packet Fill {
    uint8 Ref,
    Heartbeat,
    f32 OrderId,
    repeat f32 x,
}
root packet Order {
    zchar[2] OrderId,
    zchar[2] Acct,
    zchar[1] Note,
    zchar[9] Qty,
    string price,
    string tag7,
    u32 x,
    match x as Body {
        123 : Fill,
        112 : Heartbeat,
    },
    u32 seqNo @calculatedFrom(""CRC32""),
}
")).
Eval vm_compute in ("<<<M1874>>>" ++ check (runes_of_ascii "options {
	LittleEndian
=
	true
	;

    StringPrefixLenType =	u64  ; ArrayPrefixLenType

= 
u16

; 
FixedStringPadFromLeft	=	false

; 
FixedStringPadChar

=  ' '; 
}
packet
Logon{zchar[
5

    ] Side2 
,
}
    root	packet  Logout
{

    repeat
i64
Tail

    ,
	Logon
    ,
	repeat

i16

    OrderId,

    char[]venue
,
	uint64

    x, 
repeat
i16

count	,

    u8

Flags,match Flags
as
Body {
25
: Logon

    ,
}
, u16
	Qty @calculatedFrom(
    ""CR\
C32""
	)	,

    }")).
Eval vm_compute in ("<<<M1365>>>" ++ check (runes_of_ascii "
options

{LittleEndian
=true	; StringPrefixLenType= u64 ;

ArrayPrefixLenType

=u16;

    FixedStringPadFromLeft=false ; FixedStringPadChar
    = ' '

;

}
    packet Logon

{ zchar[ 5 ]

Side2  ,
    }root

packet	Logout

{
repeat
    i64 Tail

    ,	Logon
	, repeat 
i16

OrderId
    , char[] venue  , 
uint64 
x
,
    repeat	i16 count
, u8 Flags, match Flags
    as	Body  { 25 :
    Logon	,	}	, u16 Qty
@calculatedFrom( ""CRC32"")
, 
}

")).
Eval vm_compute in ("<<<M101>>>" ++ check (runes_of_ascii "MetaData T {  a1 Packet,// " ++ [128512]%N ++ runes_of_ascii " emoji
uint8x
// @lengthOf(
//x
Pad `" ++ [233]%N ++ runes_of_ascii "` , a1
    // " ++ [27880; 37322]%N ++ runes_of_ascii "
    MetaDataX ,	zchar[00]metadata`u8 x,` ,Pad// trailing space 
x `
` ,
    i8
u8x ,
}  options { As =
    false;}root packet options1 { @calculatedFrom( ""// no comment"" ) @lengthOf( _x	)
    @tag(007 ) repeat
// trailing space 
// @lengthOf(
f32 i8i8
    `" ++ [233]%N ++ runes_of_ascii "` ,
    @rightPad	( ' '// " ++ [27880; 37322]%N ++ runes_of_ascii "
) repeat Pad , }
")).
Eval vm_compute in ("<<<M1475>>>" ++ check (runes_of_ascii "options {
    T = zchar[42]
    options1 = uint8;
    lengthOf = char[4294967296];
}

packet Z9_ {
    repeat MetaDataX `crlf
        line`,
    repeat string x_y_z,
    u32 x,// `tick` ""quote"" 'q'
    @tag(00)
    repeat i64 Logon,
    u8x f32a,
    repeat lengthOf ``,
    repeat stringy Pad `
        `,
    repeat string_ chars `// not a comment`,
}")).
Eval vm_compute in ("<<<M1636>>>" ++ check (runes_of_ascii "packet tag {
}

packet packetx {
    @calculatedFrom(""x y"")
    @tag(42)
    @lengthOf(As)
    char a1 `two words`,
    @leftPad('\x00')
    @tag(10)
    @lengthOf(u)
    char[] falsey,
}//

MetaData f32a {
    string u128,
    roots stringy,
    Header body,
    float options1 `it's`,
    i8i8 options1 `" ++ [28040; 24687; 31867; 22411]%N ++ runes_of_ascii "`,
}")).
Eval vm_compute in ("<<<M182>>>" ++ check (runes_of_ascii "root packet int {match MetaDataX	as charz
{ 255 :uint8x , 65535 : // @lengthOf(
u128 ""\" ++ [233]%N ++ runes_of_ascii """
:o,0123456789 : _x ""{,}"" :
    matchKey
// `tick` ""quote"" 'q'
// `tick` ""quote"" 'q'
[4294967296 ,"""" ,	10
    ]: charz , }	, @lengthOf( roots
) x @calculatedFrom( ""\n"" )
    , i32
    tag , }")).
Eval vm_compute in ("<<<M1372>>>" ++ check (runes_of_ascii "
options  {
    LittleEndian
= true
;
}packet
	Logon{ 
u8
	x	, 
string  user, }packet  Logout	{

u16  reason, } 
packet	Empty  {} root packet
    Frame
{	u16
MsgType
,  u8 BodyLen 
@lengthOf( Body )	, u8
	flags, 
Logon

Body ,
    u32	trailer
	, } ")).
Eval vm_compute in ("<<<M1318>>>" ++ check (runes_of_ascii "packet FooBar // c1
{ u8 a ,
    // c5
} // c6
packet foo_bar // c8a
  // c8b
{
    // c9
u16
    // c10
b , // c12a
  // c12b
} // c13
root // c14
packet R { // c17a
  // c17b
FooBar ,
    // c19
foo_bar // c20
, } ")).
Eval vm_compute in ("<<<M311>>>" ++ check (runes_of_ascii "MetaData
falsey { Header falsey
`
` , string Foo `" ++ [28040; 24687; 31867; 22411]%N ++ runes_of_ascii "`
    // `tick` ""quote"" 'q'
    ,falsey repeatCount , i8
u , }
packet A	{ match _x as T { 007: lengthOf// `tick` ""quote"" 'q'
}, } 	 ")).
Eval vm_compute in ("<<<M1876>>>" ++ check (runes_of_ascii "packet A {
    match k as n {
        [
            1, 007, 5, 7, 9,
            11, ""bb"", ""d"", ""f"", ""h"",
            ""j"", ""l""
        ] : B,
        2 : C,
    },
}")).
Eval vm_compute in ("<<<M1694>>>" ++ check (runes_of_ascii "root packet body {
    repeat i8i8 `it's`,
}

packet chars {
    @rightPad('\x00')
    // `tick` ""quote"" 'q'
    leftPad {
        char[10] asx `" ++ [233]%N ++ runes_of_ascii "`,
    },
}")).
Eval vm_compute in ("<<<M651>>>" ++ check (runes_of_ascii "// @lengthOf(
packet i8i8 { u128 o , }
options { MetaDataX MetaDataX = true;
    BodyLength =""packet"" x_y_z= 007
crc //x
= ""abc"" ;
    msg_type =
i16 }")).
Eval vm_compute in ("<<<M539>>>" ++ check (runes_of_ascii "packet uint8x
{ match pack
    as msg_type	{
    0123456789 :	float
}
,
} p" ++ [8232]%N ++ runes_of_ascii "acket //	t
a1
    { } options {packetx
    = '\x00'	; u128= ""a	b""  ; }
")).
Eval vm_compute in ("<<<M487>>>" ++ check (runes_of_ascii "packet uint8x
{ match pack
    as msg_type	{
    0123456789 :	float
}
,
} packet //	t
a1
    { } options packetx{
    = '\x00'	; u128= ""a	b""  ; }
")).
Eval vm_compute in ("<<<M702>>>" ++ check (runes_of_ascii "// @lengthOf(
packet i8i8 { u128 o , }
options { MetaDataX = true;
    BodyLength =""packet"" x_y_z= 007
crc //x
= ""abc"" ""abc"" ;
    msg_type =
i16 }")).
Eval vm_compute in ("<<<M661>>>" ++ check (runes_of_ascii "// @lengthOf(
packet i8i8 { u128 o o , }
options { MetaDataX = true;
    BodyLength =""packet"" x_y_z= 007
crc //x
= ""abc"" ;
    msg_type =
i16 }")).
Eval vm_compute in ("<<<M529>>>" ++ check (runes_of_ascii "packet uint8x
{ match pack
    as msg_type	{
    0123456789 :	float
}
,
} packet //	t
a1
    { } options {packetx
    = '\x00'	; u128= ""a	b""")).
Eval vm_compute in ("<<<M98>>>" ++ check (runes_of_ascii "
packet stringy {
}
MetaData u8x	{ zchar[ 65535
    // a // b
    ] Pad ,stringy string_
`u8 x,` ,	u8 lengthOf`
` , char[ 255
] pack , } 	 ")).
Eval vm_compute in ("<<<M1642>>>" ++ check (runes_of_ascii "packet A {
    match k as n {
        [
            22, 4, 66, ""a"", ""c c"",
            ""e"", ""g""
        ] : B,
        2 : C,
    },
}")).
Eval vm_compute in ("<<<M1440>>>" ++ check (runes_of_ascii "
packet

    A

    {
match k

    as n 
{ [  1 , 22
,007 
, 4	,  5

,
    66
    ,
7
,  8
]:

B,
    2

:
C
} ,} ")).
Eval vm_compute in ("<<<M1147>>>" ++ check (runes_of_ascii "MetaData leftPad { // c
chars MetaDataX , } packet repeatCount { char[ 255 ] uint8x `" ++ [233]%N ++ runes_of_ascii "` , } MetaData pack { As Foo , }")).
Eval vm_compute in ("<<<M1179>>>" ++ check (runes_of_ascii "MetaData leftPad { chars MetaDataX , } packet repeatCount { char[ 255 ] uint8x `" ++ [233]%N ++ runes_of_ascii "` , } MetaData pack // c
{ As Foo , }")).
Eval vm_compute in ("<<<M893>>>" ++ check (runes_of_ascii "packet A {
  match k as n {
    [""a"", ""bb"", ""c c"", ""d"", ""e"", ""f"", ""g"", ""h"", ""i"", ""j"", ""k""] : B,
    2 : C
  },
}")).
Eval vm_compute in ("<<<M902>>>" ++ check (runes_of_ascii "packet A {
  match k as n {
    [""a"", ""bb"", 007, ""d"", ""e"", 66, ""g"", ""h"", 9, ""j"", ""k""] : B
    2 : C
  },
}")).
Eval vm_compute in ("<<<M867>>>" ++ check (runes_of_ascii "packet A {
  match k as n {
    [""a"", ""bb"", ""c c"", ""d"", ""e"", ""f"", ""g"", ""h"", ""i""] : B,
    2 : C
  },
}")).
Eval vm_compute in ("<<<M1304>>>" ++ check (runes_of_ascii "
packet order_item

{  u8
a

    , } root
packet

    new_order{ order_item
	,  u8
x ,

}

")).
Eval vm_compute in ("<<<M389>>>" ++ check (runes_of_ascii "root packet SimpleMessage {
    uint16 MsgType `" ++ [28040; 24687; 31867; 22411]%N ++ runes_of_ascii "`,
    string JsonBody `Json" ++ [23383; 31526; 20018; 28040; 24687; 20307]%N ++ runes_of_ascii "`,
}")).
Eval vm_compute in ("<<<M618>>>" ++ check (runes_of_ascii "
packet
    asx {match u128 as lengthOf
{
//	t
// `tick` ""quote"" 'q'
255 : x ,
    } , ,	}")).
Eval vm_compute in ("<<<M599>>>" ++ check (runes_of_ascii "
packet
    asx {match u128 as lengthOf
{
//	t
// `tick` ""quote"" 'q'
255 x : ,
    } ,	}")).
Eval vm_compute in ("<<<M845>>>" ++ check (runes_of_ascii "packet A {
  match k as n {
    [""a"", 22, ""c c"", 4, ""e"", 66, ""g""] : B,
    2 : C
  },
}")).
Eval vm_compute in ("<<<M1302>>>" ++ check (runes_of_ascii "packet order_item {
    u8 a,
}
root packet new_order {
    order_item,
    u8 x,
}
")).
Eval vm_compute in ("<<<M831>>>" ++ check (runes_of_ascii "packet A {
  match k as n {
    [1, ""bb"", 007, ""d"", 5, ""f""] : B
    2 : C
  },
}")).
Eval vm_compute in ("<<<M903>>>" ++ check (runes_of_ascii "packet A { Inner { match k as n { [1,22,007,4,5,66,7,8,9,10,11] : B, }, }, }")).
Eval vm_compute in ("<<<M1820>>>" ++ check (runes_of_ascii "packet  A  {	B

    { 	 // a

u8
x
, 	 // b
  }	// c
    ,	// d
  }
")).
Eval vm_compute in ("<<<M791>>>" ++ check (runes_of_ascii "packet A {
  match k as n {
    [1, ""bb"", 007] : B,
    2 : C
  },
}")).
Eval vm_compute in ("<<<M1127>>>" ++ check (runes_of_ascii "// top
MetaData
    // c0
u
    // c1
{ // c2a
  // c2b
} // c3
")).
Eval vm_compute in ("<<<M1102>>>" ++ check (runes_of_ascii "// top
MetaData
    // c0
tag
    // c1
{ // c2
}
    // c3
")).
Eval vm_compute in ("<<<M1245>>>" ++ check (runes_of_ascii "root
    packet	P
{repeat

char 
cs  ,u8

    x ,} ")).
Eval vm_compute in ("<<<M1213>>>" ++ check (runes_of_ascii "packet body { i32 f32a `{ , }` , } // c
options { }")).
Eval vm_compute in ("<<<M1515>>>" ++ check (runes_of_ascii "  // top

packet 	 // c0
  	x 
{// c2
	}
// c3")).
Eval vm_compute in ("<<<M1066>>>" ++ check (runes_of_ascii "packet A {
    u8 x,    // c    u8 y,
}")).
Eval vm_compute in ("<<<M1081>>>" ++ check (runes_of_ascii "options { a = 1; // a
 b = 2 // b
 }")).
Eval vm_compute in ("<<<M1673>>>" ++ check (runes_of_ascii "packet A {
    u8 x `d" ++ [133]%N ++ runes_of_ascii "`,// c" ++ [133]%N ++ runes_of_ascii "
}")).
Eval vm_compute in ("<<<M1076>>>" ++ check (runes_of_ascii "MetaData M {
}// c
packet A {}")).
Eval vm_compute in ("<<<M1798>>>" ++ check (runes_of_ascii "

  packet

A {}	// c" ++ [65279]%N ++ runes_of_ascii "
 
")).
Eval vm_compute in ("<<<M63>>>" ++ check (runes_of_ascii "packet i64_
    { }

")).
Eval vm_compute in ("<<<M1061>>>" ++ check (runes_of_ascii "packet A {
}
// c x")).
Eval vm_compute in ("<<<M1016>>>" ++ check (runes_of_ascii "packet A {
}
// c" ++ [8233]%N)).
Eval vm_compute in ("<<<M984>>>" ++ check (runes_of_ascii "packet A {
}// c" ++ [160]%N)).
Eval vm_compute in ("<<<M566>>>" ++ check (runes_of_ascii "
packet
    asx")).
Eval vm_compute in ("<<<M741>>>" ++ check ([65533; 65533]%N ++ runes_of_ascii "1" ++ [65533]%N ++ runes_of_ascii "dcV")).
Eval vm_compute in ("<<<M1442>>>" ++ check (runes_of_ascii "// c")).
