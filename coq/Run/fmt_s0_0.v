From FP Require Import Lexer Parser ShowPT Digest Formatter.
From Coq Require Import String List NArith.
Import ListNotations.
Open Scope string_scope.
Set Printing Width 100000000.
Set Printing Depth 100000000.
Definition show_fres (r : fres) : string :=
  match r with
  | FOk s => "OK:" ++ sh_escaped s ""
  | FErr s => "ERR:" ++ sh_escaped s ""
  | FPanic p => "PANIC:" ++ p
  end.
Definition check (rs : list rune) : string := digest (show_fres (format_res rs)).
Definition full (rs : list rune) : string := show_fres (format_res rs).
Eval vm_compute in ("<<<M1900>>>" ++ check (runes_of_ascii "
options{
    // c1
	LittleEndian  // c2a
	// c2b
  = true
	    // c4
  ; 
    // c5
StringPrefixLenType
// c6
    = // c7
  u8 ;// c9
    ArrayPrefixLenType  // c10a

	// c10b
  	=
	// c11
    u8 
      // c12
    ;  // c13
		FixedStringPadFromLeft = // c15a

  // c15b
true // c16a
// c16b
  ;	FixedStringPadChar  // c18
  	=  // c19
	'0' 	 // c20a

// c20b
	  ;  
  // c21
		}	// c22a
		// c22b
    	packet 
      // c23
  Logon
// c24
  {// c25a

  // c25b
	repeat 	 // c26
	i8
Ref  // c28
	, 	 // c29
	@rightPad	// c30
	( // c31
    	'0' 	 // c32a
	  // c32b
) char[ 	 // c34a

// c34b

8 	 // c35a
// c35b
	] // c36a
    // c36b
  msgKind 
, 	 // c38
    repeat	// c39

InOrderid72// c40
	{
    u8 
// c42
    Side2 // c43
    , 	 // c44
uint32 
    // c45
  Qty 
    // c46
    	, 	 // c47
	repeat  // c48
InPrice27	// c49
{// c50a
// c50b
    	repeat
char[ 	 // c52a
	// c52b
4
	// c53
]
    // c54

Acct  // c55a

// c55b
	  ,	// c56
    u64

    sym // c58
  	, 
	    // c59
  }	,
    zchar[// c62
  4// c63a
  // c63b
  	]  // c64
  clOrdID 	 // c65
,
    int16  // c67
lastPx

// c68
	, 	 // c69
InAcct22 
	// c70
  {
        // c71
      repeat char[

3 // c74
	  ]	// c75a

// c75b
  	OrderId // c76a
// c76b

,// c77a
// c77b
      } 
// c78
  	, 
	// c79
	} 	 // c80a

// c80b
    ,	// c81
  int64
	    // c82
  Px  // c83
, }  // c85
packet // c86a

	// c86b
    	Fill // c87
    {// c88a
  // c88b
uint16 Qty	// c90
    	,  // c91
    repeat 	 // c92a
	  // c92b
    char[
// c93
	  1 	 // c94a
	// c94b

  ] 	 // c95a
    // c95b
  Flags 
        // c96
    	,  
  // c97
		i8  // c98a
	// c98b

Ref
        // c99

,// c100
}	// c101
	packet  // c102
Logout
// c103
{
	// c104
@leftPad 	 // c105
  ( 
// c106
    '0'  
      // c107
)	// c108a

// c108b
char[	// c109a

	// c109b
  3 
// c110

  ] x

, 	 // c113a
    // c113b
		int8

    // c114

f1	// c115a
// c115b

,	// c116a
    // c116b
    Logon 
// c117
	,
// c118
    uint16 venue
, 
    // c121
  zchar[
	// c122
	2 
    // c123
	]  // c124
		Px // c125a
	// c125b
    , }// c127a
		// c127b
packet // c128

  Reject // c129
  {

// c130
    	}

root 	 // c132
  packet 	 // c133
    	Leg 
// c134
  	{// c135a
// c135b
	  Fill // c136a
// c136b
    ,  // c137
u16// c138a
  // c138b
    	msgKind 

// c139
	,// c140
	match // c141
    	msgKind// c142
	  as
        // c143
  Body 
        // c144
	  { 

    // c145
	  [
	182 
// c147
	,
	83 	 // c149
  ]// c150a
    	// c150b
  : 
    // c151
		Fill // c152
, // c153
    199
:

    Reject , 
	// c157
	137	// c158a

// c158b
	:// c159a
  // c159b
  Logout ,
	35 	 // c162

:// c163a
// c163b

Logon,// c165
	}	// c166
, // c167a
	// c167b
	u32
// c168
  lastPx	@calculatedFrom( // c170
  ""CRC32"" 	 // c171

	) 
  // c172

, 
	    // c173

}// c174a
  	// c174b")).
Eval vm_compute in ("<<<M1477>>>" ++ check (runes_of_ascii "//	t
packet MetaDataX {
    @leftPad( )
    repeat float64 asx,
}

MetaData Foo {
    // a // b
    char[65535] Pad,
}

packet body {
    match asx as charz {
        // `tick` ""quote"" 'q'
        10 : u8x,
        ""it's"" : leftPad,
        3 : metadata,
        ""it's"" : x,
        [65535, """ ++ [233]%N ++ runes_of_ascii "t" ++ [233]%N ++ runes_of_ascii """] : u128,
        10 : len,
    },
    repeat f32 rootA ``,// 50% %s
    @leftPad(
        //
        ' ' )
    repeat i64 BodyLength,
    repeatCount {
        i16 crc @lengthOf(u128),
    },
    u16 u @lengthOf(f32a) `// not a comment`,// trailing space 
    len {
        match Logon as Foo {
            """ ++ [233]%N ++ runes_of_ascii "t" ++ [233]%N ++ runes_of_ascii """ : stringy,
            10 : msg_type,
            //	t
            [
                ""\n"", ""`tick`"", ""abc"", """", 007,
                1, ""a\""b""
            ] : i64_,
            255 : T,
            ""{,}"" : f32a,
        },
        string tag @lengthOf(Z9_),
        // a // b
        u32 charz `crlf
        line`,
        u8x @lengthOf(rootA),
    },
    float,
    int8 repeatCount @lengthOf(f32a) `crlf
    line`,
    zchar[7] BodyLength @lengthOf(string_),
}

packet u128 {
    x `// not a comment`,
}//

packet x {
    A `doc`,
    Packet @calculatedFrom(""\" ++ [233]%N ++ runes_of_ascii """) `say ""hi""`,
    repeat string asx,
    @lengthOf(MetaDataX)
    repeat char[4294967296] string_ `u8 x,`,
    @lengthOf(charz)
    char[0123456789] f32a `say ""hi""`,
}")).
Eval vm_compute in ("<<<M1748>>>" ++ check (runes_of_ascii "
options{
	}
root 
packet
    tag	{
	@calculatedFrom(

    // @lengthOf(
    ""packet"") u128 @lengthOf(
zchar 
)

    , }  packet
    _x
	{ 
@calculatedFrom(
    ""a\\"")	//
	@rightPad(

    ' ' )
	As
, zchar // c
	@calculatedFrom(

    """ ++ [233]%N ++ runes_of_ascii "t" ++ [233]%N ++ runes_of_ascii """ )
`tab	here` // trailing space 
	, 
@tag( 007
	)

    @lengthOf(  //	t
    zchar  )	// packet A { u8 x, }
    string
crc 
,

string u128
	// c
    @calculatedFrom(

    ""packet""
//
// `tick` ""quote"" 'q'
  ) // c

,
	repeat
uint64
asx,	@lengthOf( 
zchar
) lengthOf
	{
string 
trueish `// not a comment`
    ,}
, 

// trailing space 
		// `tick` ""quote"" 'q'
  @tag(
0)
u128 
{
repeat
f64  /// triple
    crc

`` ,  char[ 3

    ]  Foo`crlf
line` 
,
repeat

//x

// @lengthOf(
float	uint8x  ,char[  10
]	msg_type
    `u8 x,`
    , } // packet A { u8 x, }
	,

    uint64

string_ ,

packetx 
matchKey ,// 50% %s
  @leftPad	(  ' '

) repeat
zchar[ 	 // @lengthOf(

255] Z9_ , 
}
    MetaData
    crc

    {  calculatedFrom
body
`// not a comment` ,  i64_ i8i8,
	o

options1	`u8 x,` 
,

char[
    10
	] pack
,
	}
    // a // b
")).
Eval vm_compute in ("<<<M145>>>" ++ check (runes_of_ascii "options
{ }
root packet tag{ @calculatedFrom(
    // @lengthOf(
    ""packet"" ) u128 @lengthOf(zchar
) ,
    } packet _x { @calculatedFrom( ""a\\"" )//
@rightPad (	' ' ) As , zchar// c
@calculatedFrom( """ ++ [233]%N ++ runes_of_ascii "t" ++ [233]%N ++ runes_of_ascii """ ) `tab	here` // trailing space 
, @tag(007 ) @lengthOf( //	t
zchar ) // packet A { u8 x, }
string crc
,string u128
    // c
    @calculatedFrom(
    ""packet""
//
// `tick` ""quote"" 'q'
)// c
,
    repeat uint64 asx, @lengthOf( zchar) lengthOf
{
string
trueish `// not a comment`
    , }	,
// trailing space 
// `tick` ""quote"" 'q'
@tag(0) u128 { repeat f64 /// triple
crc
``
, char[
3 ] Foo`crlf
line` , repeat
//x
// @lengthOf(
float uint8x
,
char[
10 ] msg_type
`u8 x,`, }// packet A { u8 x, }
,
uint64	string_,
packetx matchKey
, // 50% %s
@leftPad
    (' ' ) repeat zchar[ // @lengthOf(
255  ]
    Z9_,} MetaData crc {calculatedFrom
body `// not a comment`
    ,i64_
i8i8 , o options1  `u8 x,` , char[
10 ] pack , }
// a // b
")).
Eval vm_compute in ("<<<M1729>>>" ++ check (runes_of_ascii "packet i8i8 {
    // trailing space 
    // " ++ [27880; 37322]%N ++ runes_of_ascii "
    MetaDataX @lengthOf(chars) `" ++ [233]%N ++ runes_of_ascii "`,// 50% %s
    char[] u128 @lengthOf(u8x),
    @lengthOf(T)
    float64 repeatCount,
    @tag(00)
    MetaDataX,
    // a // b
    // trailing space 
    uint64 chars `tab	here`,
    string_ @lengthOf(As) ``,
    zchar[00] asx @lengthOf(metadata) `line1
    line2`,
    @lengthOf(charz)
    charz f32a `" ++ [28040; 24687; 31867; 22411]%N ++ runes_of_ascii "`,
    @rightPad(	'\x00'
    )
    repeat BodyLength tag,
}

packet repeatCount {
    crc stringy,
}

options {
    zchar = char[];
    options1 = false
    repeatCount = ""a	b""
    body = ""`tick`""
}

// a // b
//x
MetaData MetaDataX {
    Pad repeatCount `u8 x,`,
    char[42] f32a ``,
    _x Z9_,
}

packet Logon {
    @tag(007)
    o {
        char Packet @lengthOf(repeatCount),
    },
}// a // b")).
Eval vm_compute in ("<<<M132>>>" ++ check (runes_of_ascii "// @lengthOf(
packet x_y_z { float32 T
    @lengthOf( int)// c
, @tag( //	t
255 ) @calculatedFrom( ""\n"")
    lengthOf { repeat Packet repeatCount
    ,} , char[ 0]body
`two words`  ,
o// a // b
`a\`
    , @tag(1) repeat	Foo lengthOf//	t
,
repeat lengthOf {
    string_ @lengthOf(
// packet A { u8 x, }
// trailing space 
x_y_z
    // " ++ [128512]%N ++ runes_of_ascii " emoji
    )
    , repeat asx {
    int16 float
    @calculatedFrom( ""CRC32"" ) ,
} ,//
i8 leftPad@calculatedFrom(""\n""
)
`// not a comment`	,} , char[
    00 ]u ,	match a1 as roots
// `tick` ""quote"" 'q'
// `tick` ""quote"" 'q'
{//
[ """ ++ [28040; 24687]%N ++ runes_of_ascii """ ,""// no comment""	, /// triple
""1"",	0 ] // a // b
: calculatedFrom
,  } , } options  { metadata =char[] }
")).
Eval vm_compute in ("<<<M274>>>" ++ check (runes_of_ascii "packet x_y_z {
    @tag(1 ) string	u
@calculatedFrom(
""`tick`"" ) ,
} packet	chars { char[ 00 ]
    crc `two words`
, @lengthOf( calculatedFrom ) uint64 _x`
`
    // " ++ [27880; 37322]%N ++ runes_of_ascii "
    , match Logon
as falsey
{[	""`tick`"" , ""\n"" ,
007 //	t
, 007
, 1, 3
    , ""it's""]
: options1  , [42 , """ ++ [28040; 24687]%N ++ runes_of_ascii """ ] : msg_type
, 007
    : string_ , } ,// 50% %s
repeatCount lengthOf, @tag( 007
    )
    Pad , } packet
A	{	@calculatedFrom( ""CRC32"" ) @lengthOf( zchar ) repeatCount {
zchar[
0 ] stringy `two words` ,	} //
, i16 falsey
,match A // @lengthOf(
as tag
{ 3 :i64_ , [0123456789  ]
    : chars
, 7 :  options1 ,} , }")).
Eval vm_compute in ("<<<M1603>>>" ++ check (runes_of_ascii "packet metadata {
    Header u128,
}

packet zchar {
    /// triple
    @tag(4294967296)
    @lengthOf(a1)
    i8 _x `crlf
        line`,
    @lengthOf(_x)
    match x_y_z as Packet {
        0 : leftPad,
        65535 : tag,
        00 : leftPad,
        ""a\\"" : Packet,
        10 : o,
        [""CRC32""] : float,
    },
    match stringy as calculatedFrom {
        ""`tick`"" : rootA,
        ""`tick`"" : asx,
        3 : u128,
    },
    @lengthOf(msg_type)
    @tag(10)
    // 50% %s
    repeatCount @lengthOf(string_) `a\`,
}")).
Eval vm_compute in ("<<<M245>>>" ++ check (runes_of_ascii "root packet x { } options
    {	msg_type
=	false //	t
; Z9_ =	0 ;
    // c
    }
MetaData metadata{
} packet	_x{ @tag(65535) match BodyLength
as metadata
    {
10
:trueish , [// `tick` ""quote"" 'q'
""{,}"" ] : u// @lengthOf(
,
    }
    , @calculatedFrom(""CRC32""
)@rightPad( '0' ) lengthOf string_
    ,// 50% %s
@lengthOf( matchKey
) Packet
    { lengthOf@lengthOf( uint8x
    ) `` ,
i8i8 { repeat msg_type lengthOf,
    // c
    matchKey	,},
    o @lengthOf( lengthOf ) , }, }
//	t
")).
Eval vm_compute in ("<<<M1841>>>" ++ check (runes_of_ascii "// top
options {
    // c1a
    // c1b
    FixedStringPadChar = '0';// c5a
    // c5b
}

packet Q {
    // c9a
    // c9b
    zchar[4] z,// c14
    @rightPad( // c16a
          // c16b
        '\x00' // c17
        )
    char[3] n,// c23a
    // c23b
    char[5] d,// c28a
    // c28b
}// c29a

// c29b
root packet R {
    // c33a
    // c33b
    Q,
    // c35
    zchar[8] top,// c40a
    // c40b
    repeat zchar[2] zs,// c46
}// c47")).
Eval vm_compute in ("<<<M368>>>" ++ check (runes_of_ascii "root packet a1 {i8 A @calculatedFrom( //
""\" ++ [233]%N ++ runes_of_ascii """ )
, @lengthOf( int ) @lengthOf(  len) @lengthOf( f32a )
string
u8x `say ""hi""`
//	t
// " ++ [128512]%N ++ runes_of_ascii " emoji
, char[
    00 ]  As@lengthOf(  Z9_ )
, repeat leftPad ,  repeat  x_y_z
, @rightPad( '0') f64 lengthOf @calculatedFrom( ""`tick`"" ) `100% of %d`// " ++ [27880; 37322]%N ++ runes_of_ascii "
, repeat char  Foo// " ++ [27880; 37322]%N ++ runes_of_ascii "
, match msg_type as x_y_z
    { [ 255 , 7  ,10 ,
""a	b""
] : Foo,
    // a // b
    } ,
}
")).
Eval vm_compute in ("<<<M1554>>>" ++ check (runes_of_ascii "
MetaData
    Header 	 /// triple
  {As options1 `two words`
	,
u64
matchKey  `100% of %d`
,	}

    root  packet _x

{ @lengthOf(
	i64_
    )
A@calculatedFrom( 
// trailing space 
		""{,}""	)
    ,

x
matchKey

,
	o @calculatedFrom( //	t
	""{,}""	)
,@rightPad	(  '0' )@lengthOf(Z9_ )
	@calculatedFrom( ""a\\"") 
zchar[ 65535  ]  Packet
    @lengthOf(	Packet) ,
	}
")).
Eval vm_compute in ("<<<M1690>>>" ++ check (runes_of_ascii "options {
}

root packet chars {
    @rightPad('0'	)
    chars f32a `say ""hi""`,
    int16 u8x,
    @tag(4294967296)
    @rightPad()
    u64 packetx @calculatedFrom(""it's""),
    @calculatedFrom(""\n"")
    o @calculatedFrom(""a\""b""),
    Logon @lengthOf(BodyLength),
}

options {
}

MetaData zchar {
    u64 MetaDataX `// not a comment`,
}")).
Eval vm_compute in ("<<<M1497>>>" ++ check (runes_of_ascii "options {
    len = 00;
    //	t
    // packet A { u8 x, }
    charz = zchar[3];
    Pad = 255;
    falsey = """ ++ [28040; 24687]%N ++ runes_of_ascii """
}

root packet repeatCount {
    char[4294967296] x_y_z @lengthOf(string_),
    @calculatedFrom(""packet"")
    @tag(4294967296)
    float32 asx @lengthOf(x_y_z),
    u64 zchar,
}")).
Eval vm_compute in ("<<<M1644>>>" ++ check (runes_of_ascii "packet MDSnapshotZZ {
    u8 a,
}

packet OrderACK {
    u16 b,
}

packet HTTPServerInfo {
    string s,
}

root packet FIXMsg {
    u8 KType,
    MDSnapshotZZ,
    repeat OrderACK,
    match KType as Body {
        1 : HTTPServerInfo,
        2 : OrderACK,
    },
}")).
Eval vm_compute in ("<<<M536>>>" ++ check (runes_of_ascii "packet
    asx { @calculatedFrom(
""""  ) @tag( 255 )repeat
// packet A { u8 x, }
// trailing space 
int16 u8x
,
@tag(
    //
    007 )
    @tag( @lengthOf0
    /// triple
    ) @tag( 1) u
    @lengthOf( T ),
// `tick` ""quote"" 'q'
//x
} // " ++ [128512]%N ++ runes_of_ascii " emoji")).
Eval vm_compute in ("<<<M254>>>" ++ check (runes_of_ascii "options
    // 50% %s
    { //
u128=zchar[10	]	;	body = '0' Z9_ =float64 ; i8i8 = ""a\\""
    ; } packet T  {
char[ 42] asx
    @calculatedFrom(/// triple
""CRC32""
),}
// trailing space 
// " ++ [128512]%N ++ runes_of_ascii " emoji
root packet x { Pad u128 `100% of %d`
, } 	 ")).
Eval vm_compute in ("<<<M543>>>" ++ check (runes_of_ascii "packet
    asx { @calculatedFrom(
""""  ) @tag( 255 )repeat
// packet A { u8 x, }
// trailing space 
int16 u8x
,
@tag(
    //
    007 )
    @tag( 0
    /// triple
    " ++ [65279]%N ++ runes_of_ascii ") @tag( 1) u
    @lengthOf( T ),
// `tick` ""quote"" 'q'
//x
} // " ++ [128512]%N ++ runes_of_ascii " emoji")).
Eval vm_compute in ("<<<M509>>>" ++ check (runes_of_ascii "packet
    asx { @calculatedFrom(
""""  ) @tag( 255 )repeat
// packet A { u8 x, }
// trailing space 
int16 u8x
,
@tag(
    //
    007 )
    @tag( 0
    /// triple
    ) @tag( 1) u
    @lengthOf( , ),
// `tick` ""quote"" 'q'
//x
} // " ++ [128512]%N ++ runes_of_ascii " emoji")).
Eval vm_compute in ("<<<M436>>>" ++ check (runes_of_ascii "packet
    asx { @calculatedFrom(
""""  ) @tag( 255 )repeat
// packet A { u8 x, }
// trailing space 
 u8x
,
@tag(
    //
    007 )
    @tag( 0
    /// triple
    ) @tag( 1) u
    @lengthOf( T ),
// `tick` ""quote"" 'q'
//x
} // " ++ [128512]%N ++ runes_of_ascii " emoji")).
Eval vm_compute in ("<<<M1264>>>" ++ check (runes_of_ascii "packet Inner
    // c1
{ // c2a
  // c2b
u8 // c3
a // c4
,
    // c5
} // c6a
  // c6b
root // c7
packet // c8
P // c9
{ repeat
    // c11
Inner items // c13a
  // c13b
, // c14a
  // c14b
u8 x
    // c16
, }
    // c18
")).
Eval vm_compute in ("<<<M524>>>" ++ check (runes_of_ascii "packet
    asx { @calculatedFrom(
""""  ) @tag( 255 )repeat
// packet A { u8 x, }
// trailing space 
int16 u8x
,
@tag(
    //
    007 )
    @tag( 0
    /// triple
    ) @tag( 1) u
    @lengthOf( T ),")).
Eval vm_compute in ("<<<M351>>>" ++ check (runes_of_ascii "options { i8i8=00 matchKey = 4294967296 msg_type = ' ' metadata
    = 4294967296}//
packet u8x {@tag( 4294967296 )	@leftPad( /// triple
'0'  )
@tag( 1
) asx A`// not a comment`,  }
")).
Eval vm_compute in ("<<<M587>>>" ++ check (runes_of_ascii "MetaData u
    { } MetaData o
{ float uint8x uint8x
`100% of %d` ,repeatCount u8x, string_ leftPad
, i32
    Foo , int64 x `two words` , calculatedFrom
stringy `a\` ,
}
")).
Eval vm_compute in ("<<<M559>>>" ++ check (runes_of_ascii "MetaData u
    i64 } MetaData o
{ float uint8x
`100% of %d` ,repeatCount u8x, string_ leftPad
, i32
    Foo , int64 x `two words` , calculatedFrom
stringy `a\` ,
}
")).
Eval vm_compute in ("<<<M1590>>>" ++ check (runes_of_ascii "packet A {
    match k as n {
        [
            1, ""bb"", 007, ""d"", 5,
            ""f"", 7, ""h"", 9, ""j"",
            11, ""l""
        ] : B,
        2 : C,
    },
}")).
Eval vm_compute in ("<<<M673>>>" ++ check (runes_of_ascii "MetaData u
    { } MetaData o
{ float uint8x
`100% of %d` ,repeatCount u8x, string_ leftPad
, i32
    Foo , int64 x `two words` , calculatedFrom
`a\` stringy ,
}
")).
Eval vm_compute in ("<<<M711>>>" ++ check (runes_of_ascii "packet
crc
{repeat  Foo A  `u8 x,` ,	true uint8x ) string
matchKey @lengthOf( stringy ) `a\`
,
    // c
    }
MetaData chars{
leftPad
    //	t
    crc
`" ++ [233]%N ++ runes_of_ascii "`
,}")).
Eval vm_compute in ("<<<M1891>>>" ++ check (runes_of_ascii "packet A {
    match k as n {
        [
            1, 22, 007, 4, 5,
            66, 7, 8, 9, 10,
            11, 12
        ] : B,
        2 : C,
    },
}")).
Eval vm_compute in ("<<<M480>>>" ++ check (runes_of_ascii "packet
    asx { @calculatedFrom(
""""  ) @tag( 255 )repeat
// packet A { u8 x, }
// trailing space 
int16 u8x
,
@tag(
    //
    007 )
    @tag( 0")).
Eval vm_compute in ("<<<M1518>>>" ++ check (runes_of_ascii "
options {

}
options

{	// c
	  MetaDataX	= char
; }  MetaData
	Pad
{
    i8
    metadata

    ,string
stringy,  int8 As `{ , }`, }")).
Eval vm_compute in ("<<<M1785>>>" ++ check (runes_of_ascii "root	packet	//
    u{float32
	BodyLength
	,
    }
packet

    u{char[ 1
	]

a1
@calculatedFrom(""a\""b""
	) ,

    }/// triple
")).
Eval vm_compute in ("<<<M1426>>>" ++ check (runes_of_ascii "packet A {
    Inner {
        u8 x `a
        b`,
        Deep {
            u8 y `a
            b`,
        },
    },
}")).
Eval vm_compute in ("<<<M1597>>>" ++ check (runes_of_ascii "options
	{

LittleEndian
= true ;
}
root
	packet P

    {
	u16
	a  ,
u32 Sum
    @calculatedFrom(""CRC32""
	),	}
")).
Eval vm_compute in ("<<<M1230>>>" ++ check (runes_of_ascii "options { } options { MetaDataX = char ; } MetaData Pad { i8
// c
metadata , string stringy , int8 As `{ , }` , }")).
Eval vm_compute in ("<<<M283>>>" ++ check (runes_of_ascii "
packet trueish
    {} packet Z9_
{  stringy
    calculatedFrom	`say ""hi""` ,
    u64
Z9_ , } packet f32a { }")).
Eval vm_compute in ("<<<M929>>>" ++ check (runes_of_ascii "packet A {
    u16 len @lengthOf(body) `
`,
    u32 crc @calculatedFrom(""CRC32"") `
`,
    string body,
}")).
Eval vm_compute in ("<<<M640>>>" ++ check (runes_of_ascii "MetaData u
    { } MetaData o
{ float uint8x
`100% of %d` ,repeatCount u8x, string_ leftPad
, i32")).
Eval vm_compute in ("<<<M1577>>>" ++ check (runes_of_ascii "packet Foo {
    float64 a1,
    string Z9_ @lengthOf(Logon) `line1
        line2`,
}
// " ++ [128512]%N ++ runes_of_ascii " emoji")).
Eval vm_compute in ("<<<M1534>>>" ++ check (runes_of_ascii "
// top

options  // c0
	{// c1

  A // c2
    =// c3
  ""// no comment""	// c4
    }	// c5
")).
Eval vm_compute in ("<<<M1852>>>" ++ check (runes_of_ascii "packet A {
    match k as n {
        [1, 22, ""c c"", 4, 5] : B,
        2 : C,
    },
}")).
Eval vm_compute in ("<<<M1652>>>" ++ check (runes_of_ascii "packet A {
    B b `tab
    	x`,
    B `tab
    	x`,
    repeat B bs `tab
    	x`,
}")).
Eval vm_compute in ("<<<M359>>>" ++ check (runes_of_ascii "options
    //
    { MetaDataX // " ++ [128512]%N ++ runes_of_ascii " emoji
= false crc = char[]
// a // b
//x
}")).
Eval vm_compute in ("<<<M1701>>>" ++ check (runes_of_ascii "packet A {
    @leftPad()
    char[4] x,
    @rightPad( )
    zchar[2] y,
}")).
Eval vm_compute in ("<<<M343>>>" ++ check (runes_of_ascii "//x
packet
rootA {f32
uint8x `{ , }` ,	string msg_type`{ , }`	,
    }")).
Eval vm_compute in ("<<<M1106>>>" ++ check (runes_of_ascii "packet A { match k as n { [ // a
 1 // b
 , // c
 2 ] // d
 : B }, }")).
Eval vm_compute in ("<<<M916>>>" ++ check (runes_of_ascii "packet A {
    B b `a
b`,
    B `a
b`,
    repeat B bs `a
b`,
}")).
Eval vm_compute in ("<<<M1794>>>" ++ check (runes_of_ascii "

  root
    packet
    A
	{ 
u8 
x
`tab
	x`
    ,

    }")).
Eval vm_compute in ("<<<M1905>>>" ++ check (runes_of_ascii "MetaData float {
    packetx f32a `crlf
    line`,
}")).
Eval vm_compute in ("<<<M943>>>" ++ check (runes_of_ascii "MetaData M {
    u8 x `a

b`,
    T t `a

b`,
}")).
Eval vm_compute in ("<<<M124>>>" ++ check (runes_of_ascii "packet A { repeat f64 A , } // @lengthOf(")).
Eval vm_compute in ("<<<M590>>>" ++ check (runes_of_ascii "MetaData u
    { } MetaData o
{ float")).
Eval vm_compute in ("<<<M332>>>" ++ check (runes_of_ascii "  MetaData
u8x  {float32
uint8x ,}")).
Eval vm_compute in ("<<<M1651>>>" ++ check (runes_of_ascii "packet A {
    u8 x `d" ++ [8232]%N ++ runes_of_ascii "`,// c" ++ [8232]%N ++ runes_of_ascii "
}")).
Eval vm_compute in ("<<<M580>>>" ++ check (runes_of_ascii "MetaData u
    { } MetaData o")).
Eval vm_compute in ("<<<M1099>>>" ++ check (runes_of_ascii "options { a = 1 // a
 ; }")).
Eval vm_compute in ("<<<M32>>>" ++ check (runes_of_ascii "MetaData
packetx { }
")).
Eval vm_compute in ("<<<M1060>>>" ++ check (runes_of_ascii "packet A {
}
// c 	")).
Eval vm_compute in ("<<<M1058>>>" ++ check (runes_of_ascii "packet A {
}// c 	")).
Eval vm_compute in ("<<<M1101>>>" ++ check (runes_of_ascii "options { // a
 }")).
Eval vm_compute in ("<<<M350>>>" ++ check (runes_of_ascii "options { }
")).
Eval vm_compute in ("<<<M1064>>>" ++ check (runes_of_ascii "// c" ++ [8203]%N)).
