From FP Require Import Lexer Parser ShowPT Digest Formatter.
From Coq Require Import String List NArith.
Import ListNotations.
Open Scope string_scope.
Set Printing Width 100000000.
Set Printing Depth 100000000.
Definition show_fres (r : fres) : string :=
  match r with
  | FOk s => "OK:" ++ sh_escaped s ""
  | FErr s => "ERR:" ++ sh_escaped s ""
  | FPanic p => "PANIC:" ++ p
  end.
Definition check (rs : list rune) : string := digest (show_fres (format_res rs)).
Definition full (rs : list rune) : string := show_fres (format_res rs).
Eval vm_compute in ("<<<M727>>>" ++ check (runes_of_ascii "packet lengthOf { @leftPad
( ' '
    )
// c
// packet A { u8 x, }
match len as As {
""1""
: leftPad
,255
: Pad	""1"" :
x // a // b
,4294967296:  u128
, // " ++ [27880; 37322]%N ++ runes_of_ascii "
}
    , @rightPad( ) crc  `line1
line2`, @lengthOf( leftPad
    )
@calculatedFrom( ""a\\"" ) repeat char[] _x`a\`	,repeatCount asx , repeat u	{match falsey as i8i8
    {
    //x
    """ ++ [233]%N ++ runes_of_ascii "t" ++ [233]%N ++ runes_of_ascii """ : float  ,
[ ""\n""] : _x
    , ""CRC32""// a // b
:
roots
, 7 :	matchKey
""packet"" : Foo
, ""1"":
int , } ,
}
    ,
    i8 x `" ++ [233]%N ++ runes_of_ascii "`	,@tag( 3
    ) f32a ,
    repeat
    lengthOf {
    //x
    int@lengthOf(
/// triple
// " ++ [128512]%N ++ runes_of_ascii " emoji
calculatedFrom )	,int64 falsey	`doc`
    ,},// @lengthOf(
@calculatedFrom( ""x y""
// @lengthOf(
//	t
) //	t
match x_y_z as
    //
    Z9_ {1 :
    lengthOf , 255
: u128
, ""it's"" : Z9_  ,
    // @lengthOf(
    42:
len }
    , match
calculatedFrom as crc  {	[ 0123456789 , 255 , ""packet"",""it's"" ,
0, ""\n"" ,1
    ,
    0123456789
] : calculatedFrom, 65535: _x ""CRC32""
    // a // b
    :
tag ,[//	t
""`tick`""
    // @lengthOf(
    ] : T
    , [ ""it's"" , ""it's""
// packet A { u8 x, }
// `tick` ""quote"" 'q'
, 0123456789 , """ ++ [128512]%N ++ runes_of_ascii """// " ++ [128512]%N ++ runes_of_ascii " emoji
,
4294967296, ""`tick`"" ] :
pack ,
} , }
    packet
//x
// packet A { u8 x, }
u8x { //x
} root
// " ++ [27880; 37322]%N ++ runes_of_ascii "
// @lengthOf(
packet
string_ { @tag( 3) char[]crc, @rightPad
    ( '\x00' )@leftPad// @lengthOf(
( ' ' )repeat char[ 42 ]Foo  ,
    @calculatedFrom( //
""{,}""
)
    string
stringy @lengthOf( chars	)  ,@tag(
1 // packet A { u8 x, }
)// " ++ [128512]%N ++ runes_of_ascii " emoji
zchar[ 007 ] charz`two words`,
    repeat
    msg_type
{ char uint8x
    `line1
line2` , char[ /// triple
00 ] // trailing space 
options1 @calculatedFrom( """ ++ [233]%N ++ runes_of_ascii "t" ++ [233]%N ++ runes_of_ascii """ ) `say ""hi""` ,
    matchKey @calculatedFrom(""1""
    ), //
} //x
, @tag( 0123456789
    )
    //	t
    zchar[
00
//
// a // b
]
    // packet A { u8 x, }
    lengthOf , @tag( 3 )
    falsey As , } packet
lengthOf{	chars { Packet
`tab	here`, metadata ,
    repeat zchar ,	} ,match matchKey  as roots { ""x y"" :  float }
    // packet A { u8 x, }
    , @tag(1 ) @tag( 4294967296)
T
{ int32
    // `tick` ""quote"" 'q'
    string_ `a\`
    ,i8
    // a // b
    Pad @calculatedFrom( ""a\""b""
) // packet A { u8 x, }
`u8 x,`
// a // b
// trailing space 
, repeat char[]
    //x
    zchar `" ++ [233]%N ++ runes_of_ascii "` , u8x { repeat char[]x_y_z ,
} , } , @rightPad
( '\x00' )
repeat zchar[// trailing space 
7  ] // @lengthOf(
i8i8//	t
, }")).
Eval vm_compute in ("<<<M891>>>" ++ check (runes_of_ascii "packet o
    {
    i64 Packet `
`, } root packet falsey { i8 zchar @lengthOf(i64_ )
    // trailing space 
    , @tag( 255 )
    char[ 10]// c
i64_@calculatedFrom(""\n"" ) `u8 x,`	,
@leftPad(	' ' ) i64 uint8x ,
repeat
u8x
    {// " ++ [27880; 37322]%N ++ runes_of_ascii "
rootA
{ MetaDataX
    @lengthOf( // `tick` ""quote"" 'q'
trueish
)	, T@lengthOf(
    f32a) ,
    // a // b
    repeat
    stringy,} , pack  @calculatedFrom(
""it's"" ) ,
    i16
    metadata
`u8 x,` , repeat
int
    ,} ,
    // @lengthOf(
    } packet
    // " ++ [128512]%N ++ runes_of_ascii " emoji
    body { leftPad { match u8x
    as
i64_
    { // @lengthOf(
[ 007 ,0 ] :
    a1 ,[ 42 ]:	A  ,	} ,
match	x as Z9_ { 007
    :MetaDataX
    ,
0
    //	t
    :leftPad ,""" ++ [128512]%N ++ runes_of_ascii """ :
    MetaDataX ,
""abc"" :uint8x ,007: trueish,
    // c
    } , } ,
zchar @calculatedFrom( ""// no comment"")  ,
trueish	@lengthOf( u ) `line1
line2` , @calculatedFrom( ""abc"" ) char[]
    /// triple
    len /// triple
`tab	here`
, float64 zchar
`line1
line2`
, match i64_ //
as body
{[ // @lengthOf(
0123456789
    // c
    ]
    : float 10:  Foo ,
[ ""CRC32""
]: Foo ""x y"" :metadata , [ 10 ,	255 , ""abc"" ,0123456789, //x
0 , 1 ,
7 ]
:	f32a, } , @calculatedFrom(""{,}"" )
    @lengthOf(
    len // a // b
)
    match x_y_z as uint8x {
""\" ++ [233]%N ++ runes_of_ascii """:T ,  } , o @lengthOf(// trailing space 
body )
    ,	u64 //
o @calculatedFrom(
""a	b""
    ) // c
`say ""hi""`
,repeat  string Header
    , }packet
zchar {
// `tick` ""quote"" 'q'
// packet A { u8 x, }
@rightPad ( // " ++ [27880; 37322]%N ++ runes_of_ascii "
'0'
//	t
/// triple
)
repeat
zchar[ 3]  o `doc` , zchar[
    // packet A { u8 x, }
    4294967296 ] x_y_z , @calculatedFrom(""{,}""
    /// triple
    )	@calculatedFrom(	""" ++ [28040; 24687]%N ++ runes_of_ascii """ ) float32
    A @lengthOf(Pad ),
    @tag(
    7 )
    // `tick` ""quote"" 'q'
    Packet
    @calculatedFrom(
    ""// no comment""
    )
,zchar[ 10 ]
asx
    // " ++ [27880; 37322]%N ++ runes_of_ascii "
    `` /// triple
, tag len `tab	here`,	}
")).
Eval vm_compute in ("<<<M4327>>>" ++ check (runes_of_ascii "packet rootA {
    @rightPad('0')
    string leftPad @calculatedFrom(""" ++ [233]%N ++ runes_of_ascii "t" ++ [233]%N ++ runes_of_ascii """) `two words`,
}

packet A {
    @calculatedFrom(""it's"")
    char[] msg_type @lengthOf(asx) `u8 x,`,
    charz o,
    @calculatedFrom(""`tick`"")
    @lengthOf(crc)
    //
    match falsey as metadata {
        // @lengthOf(
        [65535, 65535] : u8x,
        ""\n"" : int,
        007 : MetaDataX,
        ""it's"" : f32a,
        0 : i8i8,
        [65535, 255] : u8x,
    },
}

packet charz {
    string MetaDataX,
    // packet A { u8 x, }
    repeat char[] _x,
    @rightPad()
    match pack as string_ {
        ""a	b"" : trueish,
        ""it's"" : A,
        10 : T,
        0 : msg_type,
        [
            7, 1, ""1"", 00, 10,
            4294967296, 10
        ] : Pad,
    },// a // b
    A {
        repeat u128 {
            char[00] a1 `line1
            line2`,//x
            uint8x rootA `say ""hi""`,
            match uint8x as i64_ {
                """ ++ [28040; 24687]%N ++ runes_of_ascii """ : msg_type,
                ""\n"" : i8i8,
            },
            i64 x_y_z `{ , }`,
        },
        match zchar as Header {
            3 : pack,
            ""x y"" : packetx,
            //x
            255 : u8x,
            ""abc"" : Z9_,
            ""x y"" : msg_type,
            [""a\\"", 10] : o,
        },
        char[0] leftPad `{ , }`,
        string stringy @calculatedFrom(""`tick`"") `u8 x,`,
    },
    repeat zchar[00] Packet,
    repeat u16 tag,
    @tag(65535)
    repeat uint64 MetaDataX,
}

MetaData pack {
}")).
Eval vm_compute in ("<<<M1405>>>" ++ check (runes_of_ascii "options {
    StringPrefixLenType = u16;
    ArrayPrefixLenType = u16;
}

packet SampleBinary {
    uint16 MsgType `" ++ [28040; 24687; 31867; 22411]%N ++ runes_of_ascii "`,
    u16 BodyLenght @lengthOf(Body) `" ++ [28040; 24687; 20307; 38271; 24230]%N ++ runes_of_ascii "`,
    match MsgType as Body {
        1 : Logon,
        2 : Logout,
        3 : Heartbeat,
        4 : RiskControlRequest,
        5 : RiskControlResponse,
    },
    @calculatedFrom(""CRC32"")
    u32 Ckecksum `" ++ [26657; 39564; 21644]%N ++ runes_of_ascii "`,
}

packet Logon {
    @leftPad('0')
    char[10] UserName `" ++ [29992; 25143; 21517]%N ++ runes_of_ascii "`,
    string Password `" ++ [23494; 30721]%N ++ runes_of_ascii "`,
    uint64 ClientId `" ++ [23458; 25143; 31471]%N ++ runes_of_ascii "ID`,
    u16 HeartbeatInterval `" ++ [24515; 36339; 38388; 38548]%N ++ runes_of_ascii "`,
}

packet Logout {
    @rightPad('0')
    char[10] UserName `" ++ [29992; 25143; 21517]%N ++ runes_of_ascii "`,
    uint64 ClientId `" ++ [23458; 25143; 31471]%N ++ runes_of_ascii "ID`,
}

packet Heartbeat {
}

packet RiskControlRequest {
    string UniqueOrderId `" ++ [21807; 19968; 35746; 21333; 21495]%N ++ runes_of_ascii "`,
    char[16] ClOrdID `" ++ [23458; 25143; 35746; 21333; 21495]%N ++ runes_of_ascii "`,
    char[3] MarketID `" ++ [24066; 22330]%N ++ runes_of_ascii "id`,
    char[12] SecurityID `" ++ [35777; 21048; 20195; 30721]%N ++ runes_of_ascii "`,
    char Side `" ++ [20080; 21334; 26041; 21521]%N ++ runes_of_ascii "`,
    char OrderType `" ++ [35746; 21333; 31867; 22411]%N ++ runes_of_ascii "`,
    u64 Price `" ++ [20215; 26684]%N ++ runes_of_ascii "`,
    u32 Qty `" ++ [25968; 37327]%N ++ runes_of_ascii "`,
    repeat string ExtraInfo `" ++ [38468; 21152; 20449; 24687]%N ++ runes_of_ascii "`,
    repeat SubOrder {
        char[16] ClOrdID `" ++ [23376; 35746; 21333; 21495]%N ++ runes_of_ascii "`,
        u64 Price `" ++ [23376; 35746; 21333; 20215; 26684]%N ++ runes_of_ascii "`,
        u32 Qty `" ++ [23376; 35746; 21333; 25968; 37327]%N ++ runes_of_ascii "`,
    },
}

packet RiskControlResponse {
    string UniqueOrderId `" ++ [21807; 19968; 35746; 21333; 21495]%N ++ runes_of_ascii "`,
    i32 Status `" ++ [29366; 24577]%N ++ runes_of_ascii "`,
    string Msg `" ++ [32467; 26524; 20449; 24687]%N ++ runes_of_ascii "`,
    repeat Detail,
}

packet Detail {
    string RuleName `" ++ [35268; 21017; 21517; 31216]%N ++ runes_of_ascii "`,
    u16 Code `" ++ [21407; 22240; 20195; 30721]%N ++ runes_of_ascii "`,
}")).
Eval vm_compute in ("<<<M787>>>" ++ check (runes_of_ascii "  packet
    pack
    {
    BodyLength
    , @tag(0) repeat Z9_ options1 ,int32 packetx @calculatedFrom( ""it's"") ``
, @rightPad
(
) uint16 int
@calculatedFrom(""" ++ [233]%N ++ runes_of_ascii "t" ++ [233]%N ++ runes_of_ascii """ )  `a\`
,u32 Header // `tick` ""quote"" 'q'
@calculatedFrom(// c
""\" ++ [233]%N ++ runes_of_ascii """) `" ++ [233]%N ++ runes_of_ascii "` , //x
len
float `two words` // " ++ [27880; 37322]%N ++ runes_of_ascii "
, x ,
repeat//x
zchar[ 0] x_y_z
, }// packet A { u8 x, }
packet
    options1 { match x_y_z as u128
    {
    [""a\\"" ] : roots , [//x
10
, ""abc""] :
int , ""1"" :// c
i64_  ,7
:
    As ,""{,}""
:
    i8i8	,42  :
asx , } // packet A { u8 x, }
, } MetaData  rootA { Header T`{ , }` , }  root
// `tick` ""quote"" 'q'
// `tick` ""quote"" 'q'
packet len{  u8
// trailing space 
// `tick` ""quote"" 'q'
metadata @lengthOf(
// `tick` ""quote"" 'q'
// " ++ [128512]%N ++ runes_of_ascii " emoji
Packet)
, @calculatedFrom( ""a	b"" ) i8	i64_  `tab	here` , uint16 i64_	`u8 x,`  ,@calculatedFrom( ""`tick`"" ) repeat uint8 T
`u8 x,` , matchKey
{  match As
    as roots { ""\n"" :
a1 // " ++ [128512]%N ++ runes_of_ascii " emoji
} ,
chars @lengthOf( asx ) ,
}
, repeat
i8i8  { char[] Header `a\` ,o options1
// a // b
// trailing space 
, string
    Packet `it's` // " ++ [27880; 37322]%N ++ runes_of_ascii "
,
    // @lengthOf(
    } , } MetaData repeatCount { char[] Header`two words` , int16 f32a
    `u8 x,`  , tag zchar ,	Packet x `it's` ,} // packet A { u8 x, }")).
Eval vm_compute in ("<<<M1179>>>" ++ check (runes_of_ascii "MetaData crc
// trailing space 
// packet A { u8 x, }
{Z9_  metadata
`u8 x,`, }
    packet // packet A { u8 x, }
matchKey
{	leftPad , string x ,
    // " ++ [27880; 37322]%N ++ runes_of_ascii "
    } packet x	{ match msg_type
as MetaDataX//
{ // @lengthOf(
00
:  roots , } , char[ 255
]
    // packet A { u8 x, }
    falsey `" ++ [28040; 24687; 31867; 22411]%N ++ runes_of_ascii "`
    //	t
    , @lengthOf(
    Logon	) @tag(
42 ) @lengthOf( Foo
)
    repeat//	t
char[ 1	] u,
// packet A { u8 x, }
//	t
i8 chars
@calculatedFrom( ""a\""b""
// @lengthOf(
// trailing space 
),	@calculatedFrom(""" ++ [128512]%N ++ runes_of_ascii """ /// triple
) @calculatedFrom( ""`tick`""
) f64 Logon
    ,
@lengthOf(  calculatedFrom
    ) //
repeatCount
{
    repeat Packet`two words` , match  i64_ as
charz{""a\\"" :
int[	""\" ++ [233]%N ++ runes_of_ascii """ , 0123456789
    , """ ++ [28040; 24687]%N ++ runes_of_ascii """
]
    :
Pad
, 1: As,""CRC32""
:	Header ,
},  char[ 007 // packet A { u8 x, }
]
tag
`doc` , repeat As`" ++ [233]%N ++ runes_of_ascii "` , // c
}
,
    MetaDataX @calculatedFrom("""")`line1
line2`, // c
} options{ _x=false
As = zchar[ 65535
]
BodyLength= int64 o
=	false ;
calculatedFrom
    =	'0' ;
    } root	packet Packet { // @lengthOf(
falsey Packet, @lengthOf(
    BodyLength ) @lengthOf(uint8x
) @rightPad (
) string float	`// not a comment`, } 	 ")).
Eval vm_compute in ("<<<M196>>>" ++ check (runes_of_ascii "packet
a1
    { @rightPad
    ( ' '  ) repeat	a1 ,
    //	t
    repeat
float32 i8i8	`two words`, @lengthOf( A ) float zchar ,@rightPad(
'0'
)	uint32 o `doc`
, @calculatedFrom( ""packet""
    )	repeat
asx `crlf
line`//	t
, @tag( 007 )
@calculatedFrom(	""CRC32""
)repeat uint64 A `line1
line2` , @leftPad ( '\x00'
)
// packet A { u8 x, }
//x
string stringy `` , @rightPad( '\x00' ) @tag( 255 /// triple
)
body
    @lengthOf( Z9_	)
,match
x_y_z
// packet A { u8 x, }
// " ++ [128512]%N ++ runes_of_ascii " emoji
as
falsey{""\" ++ [233]%N ++ runes_of_ascii """: options1
, } ,Logon falsey
// c
// " ++ [27880; 37322]%N ++ runes_of_ascii "
`say ""hi""`
, } packet// " ++ [128512]%N ++ runes_of_ascii " emoji
Foo { }options {
// @lengthOf(
// `tick` ""quote"" 'q'
f32a
=	""a\""b"" ;
float= '0' ;  calculatedFrom
    = 65535
    ; msg_type= '0';
    // trailing space 
    A = """"
} root packet
string_ {
match float as u128{ [ ""\n""
]	:// trailing space 
Packet , }
    ,} packet charz { lengthOf @calculatedFrom(
    // " ++ [128512]%N ++ runes_of_ascii " emoji
    """ ++ [28040; 24687]%N ++ runes_of_ascii """)
,
    @leftPad
( ' ' ) repeat chars`" ++ [28040; 24687; 31867; 22411]%N ++ runes_of_ascii "`, match leftPad
    as a1 {
    ""`tick`"" :
    string_ // c
,
// c
// c
10
:
    string_, 4294967296// a // b
: Foo
, } , }")).
Eval vm_compute in ("<<<M165>>>" ++ check (runes_of_ascii "packet uint8x { @lengthOf( Pad )
    Foo ,} root packet Foo  {
char[] i64_
    @calculatedFrom( ""a	b"" ) `u8 x,`
    // @lengthOf(
    , zchar[
    // trailing space 
    3]
    tag
@lengthOf( tag ), @lengthOf(	falsey) options1
//x
/// triple
@lengthOf(  repeatCount ) ,
string
matchKey `crlf
line` ,} packet metadata { //	t
uint32
    i8i8 , }
root packet
Header {
@lengthOf( _x ) @lengthOf(
A )metadata
    tag
    // trailing space 
    `
` ,x_y_z `tab	here`
    ,
    Pad // " ++ [128512]%N ++ runes_of_ascii " emoji
, @calculatedFrom(
    """ ++ [128512]%N ++ runes_of_ascii """ )
    //x
    repeat string f32a`crlf
line`, string packetx	@calculatedFrom( ""a\\""
)
    , }  packet
    // packet A { u8 x, }
    u8x { pack, @calculatedFrom( ""// no comment"" // `tick` ""quote"" 'q'
)packetx, match options1// trailing space 
as chars { ""1"" :
Logon
// a // b
// a // b
, 7 :
trueish } ,
match asx  as
    /// triple
    Logon {	[ 3 ]: _x , [
    ""// no comment"" , 7 , """ ++ [233]%N ++ runes_of_ascii "t" ++ [233]%N ++ runes_of_ascii """  ,""it's""
,1 ]
    : i8i8 // " ++ [27880; 37322]%N ++ runes_of_ascii "
[
/// triple
// " ++ [27880; 37322]%N ++ runes_of_ascii "
""1"" ] : T , } , } // a // b")).
Eval vm_compute in ("<<<M3534>>>" ++ check (runes_of_ascii "

  options  {
    StringPrefixLenType
=
    u32

    ; ArrayPrefixLenType
= 
u8 ;
FixedStringPadFromLeft

= false;

    } packet  Logon { 
i8
venue ,int16
	f1, zchar[ 8
] Acct ,
repeat	InNote16  {
	InQty73	{float32
    tag7 ,
	} , f32
Acct
, zchar[5]

    sym ,
    }	,
    uint16 Side2
    ,i32 lastPx

    ,
}  packet

Fill
    {  repeat 
InOrderid15
    {

    zchar[
	8

    ] 
sym , repeat

    char[	2  ]

    OrderId
	, repeat Logon
,	InQty82

{	char[]	Tail  ,repeat

Logon

,
float64

    price, f64

Side2

, },
    char[

    12]venue
,

    char[

    4 ]

Px 
,}

    ,@rightPad

    ('0'

)

char[  2  ]
    venue ,

InPrice99{  InAcct72 {

    u8
	pad0,	}  , u32
OrderId, Logon

    ,},  } root
	packet

Reject {
zchar[  9 ] msgKind  ,  u32 
venue  ,u16 seqNo@lengthOf(	Body
) ,  match
	venue as
Body {
    57

:	Fill  ,
    8
	:Logon 
,}
    ,
    u16
	Tail	@calculatedFrom(

""CRC32"" ),}
")).
Eval vm_compute in ("<<<M850>>>" ++ check (runes_of_ascii "packet Packet {
match
    a1
    as calculatedFrom//
{
    // `tick` ""quote"" 'q'
    00
    : falsey""" ++ [233]%N ++ runes_of_ascii "t" ++ [233]%N ++ runes_of_ascii """ : string_ ,
[	00 ] :o , ""it's"": u , //	t
10 : BodyLength ""1"" : BodyLength
, } ,}  root packet	calculatedFrom {  repeat
    uint64
    int `line1
line2`
,
string rootA ``,
    @lengthOf( i64_)leftPad@calculatedFrom( ""\" ++ [233]%N ++ runes_of_ascii """ )	`line1
line2`  ,uint8 x_y_z // `tick` ""quote"" 'q'
`" ++ [28040; 24687; 31867; 22411]%N ++ runes_of_ascii "`
, } options {}
MetaData crc
{ pack	asx`" ++ [233]%N ++ runes_of_ascii "` , }packet
    rootA { @lengthOf( x_y_z )repeat T Pad
// a // b
// " ++ [128512]%N ++ runes_of_ascii " emoji
, string
len ,
match float as matchKey { ""a\""b"" : x
    //	t
    ,
007 :
calculatedFrom
,
    255 :// @lengthOf(
crc , }
,int32
//x
//
float ,@leftPad ( ' ' ) @lengthOf(
    stringy)  @calculatedFrom( ""`tick`"" )
    repeat
    float {
zchar[ 00 ] crc @calculatedFrom(
    ""1""
    )`// not a comment` ,
    //x
    string stringy`doc`, } , i16
asx `doc` ,
    // `tick` ""quote"" 'q'
    }
")).
Eval vm_compute in ("<<<M1133>>>" ++ check (runes_of_ascii "  packet
    stringy	{
    @tag(//	t
1) Logon @lengthOf( roots
// @lengthOf(
// " ++ [27880; 37322]%N ++ runes_of_ascii "
) ,
    @tag(4294967296
) repeat
leftPad
    { match	metadata as // trailing space 
u8x {
4294967296: // " ++ [128512]%N ++ runes_of_ascii " emoji
pack ""CRC32""	: f32a ,
}  , } ,
match Logon
as float{ [ ""// no comment"" // packet A { u8 x, }
] :
    roots 0123456789 :Pad , } , repeat Foo
//
// c
{ matchKey { zchar[ 4294967296] repeatCount
    `{ , }`	, }
,uint64 int @lengthOf( float ) ,
match // packet A { u8 x, }
asx as trueish { ""// no comment"" //	t
:
    lengthOf	,10
    :As // `tick` ""quote"" 'q'
, 3
:
calculatedFrom ,
    [ 7 ,4294967296
    ]
:	leftPad,
4294967296 :  BodyLength
    ,} , },
i8 Packet ,@calculatedFrom( """ ++ [128512]%N ++ runes_of_ascii """ )
    Logon o , repeat u64
asx , @calculatedFrom(
""a\""b"" ) repeat
    int8 MetaDataX ,
@calculatedFrom( ""abc"" ) uint64 // trailing space 
tag
`line1
line2`  ,	}
")).
Eval vm_compute in ("<<<M3689>>>" ++ check (runes_of_ascii "
// `tick` ""quote"" 'q'
		packet A	{ 
	// `tick` ""quote"" 'q'
    // c

  repeat	lengthOf // " ++ [128512]%N ++ runes_of_ascii " emoji
	{ As

    metadata

    ,
match
pack

as  // @lengthOf(
	As {
    [
7
    ]

    :  //x
	int ,

    ""it's""
:i64_
    , ""a\""b""
: // " ++ [27880; 37322]%N ++ runes_of_ascii "
		string_, 
[

    00 , 4294967296 
,

""{,}"" ,	""" ++ [233]%N ++ runes_of_ascii "t" ++ [233]%N ++ runes_of_ascii """
    ,

    """ ++ [233]%N ++ runes_of_ascii "t" ++ [233]%N ++ runes_of_ascii """
	,""abc""
	,
	1
,
1
    ]
:	Pad
// @lengthOf(
  }
,leftPad x 

// @lengthOf(
    	//x

  `" ++ [28040; 24687; 31867; 22411]%N ++ runes_of_ascii "`

,  char[	65535 ]metadata
, 
}
	, }packet a1
    {
}packet 	 //x
  pack

    { int
	{i64_ 
x_y_z	, // " ++ [128512]%N ++ runes_of_ascii " emoji
  u8x

    `say ""hi""`
,
    f32
A
	`u8 x,`
, }	,}
root 
packet	falsey

{
	@tag(255 )	repeat float64	Logon,	float64
    Foo  @lengthOf( 
float

    )
,
}

    options
{

    matchKey
	// packet A { u8 x, }
    =char[]
;
    tag = ' '

    ; 
i64_
=
""1""
}

")).
Eval vm_compute in ("<<<M63>>>" ++ check (runes_of_ascii "// trailing space 
options{
    asx = """ ++ [233]%N ++ runes_of_ascii "t" ++ [233]%N ++ runes_of_ascii """ zchar = 7 i8i8=65535 ;	Pad =i8
; } // a // b
MetaData
    string_  { //	t
char[ 0 // packet A { u8 x, }
]zchar ,// `tick` ""quote"" 'q'
char[ 4294967296] msg_type ,
u16
MetaDataX `" ++ [233]%N ++ runes_of_ascii "`,} root packet Foo{	f64
BodyLength
@lengthOf(
repeatCount ) ,
repeat asx {
char[ 00] stringy // `tick` ""quote"" 'q'
@lengthOf( Foo)
    ,  i8 string_,}
    ,
float64 i8i8 `say ""hi""` ,  @tag( 0 ) MetaDataX
    {// " ++ [27880; 37322]%N ++ runes_of_ascii "
repeat uint16 stringy
,	repeat x_y_z , asx, } ,
    @rightPad( '\x00' ) repeat
    char[7
] metadata
// a // b
// " ++ [27880; 37322]%N ++ runes_of_ascii "
, i16 x
, match falsey
    as
asx	{""a\""b""
:
    u ,} // @lengthOf(
,// trailing space 
@calculatedFrom(  """"//
)
match f32a
as
u8x {
//x
//
""a\""b"":matchKey , } //
,
x `" ++ [233]%N ++ runes_of_ascii "`  ,char[
65535 ]
string_ `u8 x,` , }
// c
")).
Eval vm_compute in ("<<<M3538>>>" ++ check (runes_of_ascii "options

{	StringPrefixLenType = u16  ;ArrayPrefixLenType=u32;
	FixedStringPadFromLeft
	= false;  FixedStringPadChar = '0'  ;}

    packet
	Logout
	{
    f64

f1	,i16

    Note
, @rightPad  ('\x00' )  char[

    11	]	Flags,  }packet Cancel {float64

msgKind
,
}packet
Reject

{
InQty43

    {
    float32 sym
, char[
	10	]Tail
,

    uint8
venue
,uint16
f1 
,

char[ 9

    ] 
Acct

    ,
}

,	}

packet
	Trade {
    char[] x

,
    zchar[ 
6 ] 
Note

,
repeat
    Reject
, }  root  packet Order	{
	Cancel
    ,Logout ,

u64
Acct
    ,

    u32 
OrderId
,  match	OrderId	as
	Body
{ [

    127,70]: 
Reject
,

    177
	: Trade
,
    58 :
    Logout, 75
	:  Cancel,
}

,	u32

Tail  @calculatedFrom(  ""CRC32"")
,

}")).
Eval vm_compute in ("<<<M280>>>" ++ check (runes_of_ascii "options{
    metadata
= '0' int = 007 ; zchar
// " ++ [27880; 37322]%N ++ runes_of_ascii "
// `tick` ""quote"" 'q'
=
'\x00' ;
    }
    packet charz {
@leftPad
    ( '0'
    ) @tag(
42
    // " ++ [128512]%N ++ runes_of_ascii " emoji
    ) @calculatedFrom(
    // " ++ [27880; 37322]%N ++ runes_of_ascii "
    ""a\""b"" )char[]
    packetx
    @calculatedFrom(""\" ++ [233]%N ++ runes_of_ascii """
    )`
`
,	match charz as msg_type  {
//
// trailing space 
4294967296:
o 0123456789: // packet A { u8 x, }
trueish ,  ""// no comment"" : asx //x
[ 65535 ,
65535 ,
    3,""a\""b""
,	""a\\""	,""" ++ [28040; 24687]%N ++ runes_of_ascii """
, 0123456789 ,
    ""a	b"" ]
: T
,
}
, @rightPad (
' '
    )
crc , repeat char[]
    // packet A { u8 x, }
    stringy  `a\` , }
// " ++ [128512]%N ++ runes_of_ascii " emoji
// " ++ [128512]%N ++ runes_of_ascii " emoji
MetaData// c
tag { uint64 metadata ,int64 trueish `{ , }`,
uint32 a1 , f32 Packet `// not a comment` , }
")).
Eval vm_compute in ("<<<M3496>>>" ++ check (runes_of_ascii "// top
packet // c0
P1 {
    // c2
u8 // c3
a // c4
, // c5
}
    // c6
packet P2 // c8
{ // c9
P1
    // c10
, // c11
} packet // c13
P3
    // c14
{ P2 // c16a
  // c16b
, P1
    // c18
, }
    // c20
packet // c21a
  // c21b
P4
    // c22
{ repeat P3
    // c25
,
    // c26
P2 // c27
, // c28
}
    // c29
root packet P5
    // c32
{ // c33
P4 // c34a
  // c34b
, // c35a
  // c35b
P3 // c36
, // c37
P1 // c38
, u8
    // c40
K , // c42
match K // c44
as
    // c45
Body // c46a
  // c46b
{ // c47
4 : // c49
P4 // c50
, 3
    // c52
:
    // c53
P3 , 2
    // c56
: // c57a
  // c57b
P2
    // c58
, // c59
1
    // c60
: // c61
P1 , } // c64
, // c65
}
    // c66
")).
Eval vm_compute in ("<<<M4482>>>" ++ check (runes_of_ascii "root packet packetx {
    match x as repeatCount {
        65535 : i8i8,
        10 : x_y_z,
        42 : packetx,
        0123456789 : metadata,
        [""\" ++ [233]%N ++ runes_of_ascii """] : x_y_z,
        ""a\\"" : i8i8,
    },
    stringy {
        // c
        stringy i64_,
        repeat Header As `two words`,
    },
    repeat char[007] u8x `line1
    line2`,
    @lengthOf(charz)
    // packet A { u8 x, }
    @leftPad('0')
    int16 BodyLength,
    repeat float32 repeatCount,
    match trueish as MetaDataX {
        ""a	b"" : x,
    },
    char[0] matchKey @lengthOf(float),
    @lengthOf(i64_)
    @lengthOf(repeatCount)
    // " ++ [27880; 37322]%N ++ runes_of_ascii "
    @lengthOf(float)
    f32 Z9_,
}")).
Eval vm_compute in ("<<<M3542>>>" ++ check (runes_of_ascii "
options 
{
LittleEndian
= true ;FixedStringPadFromLeft=true	;
	FixedStringPadChar
	=

    '0'  ; } packet  Trade 
{

    string

clOrdID

, char[]
Px ,
    u32
x	,	}
packet Reject 
{int32 Side2
    ,

    repeat

char[ 3 ]	clOrdID
	,
i32 tag7

,} 
packet 
Leg 
{
	}
    root

packet
	Quote {
string Side2,
    string lastPx ,
    InSym58
    {int16

OrderId 
,Reject	,
    i8
    Qty  ,
    i64  venue ,f32	Note 
, }
    , char[]
count 
,zchar[	9
] 
price,
u16 Qty,	match	Qty 
as

    Body

    { 69
	: Leg 
,

    48 : Trade
    ,

51:Reject

    ,
}, 
u16 Acct @calculatedFrom(	""CRC32""

),
    } ")).
Eval vm_compute in ("<<<M460>>>" ++ check (runes_of_ascii "  options// `tick` ""quote"" 'q'
{}	MetaData falsey {	rootA
calculatedFrom
,float32 a1
`u8 x,`
    ,} packet MetaDataX
//x
// trailing space 
{repeat
roots Z9_ , int16
    // `tick` ""quote"" 'q'
    lengthOf
`" ++ [233]%N ++ runes_of_ascii "` ,string MetaDataX
,@lengthOf(
    // @lengthOf(
    rootA ) repeat options1
{
    Pad o `
` ,// c
} , @tag( 0	)
@leftPad ( '\x00' ) char As
    , uint16
// " ++ [27880; 37322]%N ++ runes_of_ascii "
// packet A { u8 x, }
i64_ @lengthOf( i64_ ) `line1
line2`
    , @lengthOf( uint8x
)
Packet { int32 As , u64 falsey , repeat matchKey{ int i64_ ,
}  , }, @tag( 3
    )
char[] options1 @lengthOf(	Header ) ,}")).
Eval vm_compute in ("<<<M433>>>" ++ check (runes_of_ascii "options {
    Packet = string } root
    //	t
    packet  trueish{ // a // b
@calculatedFrom( ""packet""	) i64 trueish`// not a comment`
,match MetaDataX as rootA
// trailing space 
// a // b
{
[ ""packet"" , """ ++ [28040; 24687]%N ++ runes_of_ascii """ ,// " ++ [27880; 37322]%N ++ runes_of_ascii "
42] :uint8x 0123456789
    // a // b
    : int
// trailing space 
//x
, }
,
    @rightPad ( '0' )match metadata as
uint8x {
255 :
    len
0
:Packet,""a\""b"" :i8i8
, } /// triple
, match
msg_type as repeatCount { ""CRC32"":
x_y_z , [ ""a	b""
, ""\" ++ [233]%N ++ runes_of_ascii """, 7, ""it's""
,  1 , 7 ]
:
// c
// trailing space 
As // @lengthOf(
,
},
    }

")).
Eval vm_compute in ("<<<M1273>>>" ++ check (runes_of_ascii "MetaData
lengthOf
{
// " ++ [27880; 37322]%N ++ runes_of_ascii "
// a // b
zchar[ 4294967296 ]
Pad,	As // " ++ [128512]%N ++ runes_of_ascii " emoji
trueish`" ++ [28040; 24687; 31867; 22411]%N ++ runes_of_ascii "` , u32 calculatedFrom
`it's` ,zchar[// " ++ [128512]%N ++ runes_of_ascii " emoji
255
    ]packetx ,	string
asx , int16 string_ ``
    ,
    } packet	Header { @calculatedFrom(""" ++ [233]%N ++ runes_of_ascii "t" ++ [233]%N ++ runes_of_ascii """) uint8 //	t
lengthOf
,string
    //	t
    int @calculatedFrom(	""x y"") `" ++ [28040; 24687; 31867; 22411]%N ++ runes_of_ascii "` ,match
stringy as tag { [
10 ] :
    trueish //x
10// `tick` ""quote"" 'q'
:  int
    /// triple
    ,
    // @lengthOf(
    ""abc"" : o
}	, @tag(3 )
    zchar[ // `tick` ""quote"" 'q'
255 ] i64_ , }

")).
Eval vm_compute in ("<<<M3260>>>" ++ check (runes_of_ascii "// top
MetaData // c0
x_y_z // c1
{ // c2
char // c3
body // c4
, // c5
f64 // c6
i8i8 // c7
`two words` // c8
, // c9
body // c10
body // c11
`" ++ [28040; 24687; 31867; 22411]%N ++ runes_of_ascii "` // c12
, // c13
} // c14
root // c15
packet // c16
chars // c17
{ // c18
@lengthOf( // c19
i64_ // c20
) // c21
chars // c22
, // c23
i8i8 // c24
{ // c25
falsey // c26
@lengthOf( // c27
stringy // c28
) // c29
`doc` // c30
, // c31
} // c32
, // c33
x // c34
@lengthOf( // c35
A // c36
) // c37
`crlf
line` // c38
, // c39
} // c40
")).
Eval vm_compute in ("<<<M3285>>>" ++ check (runes_of_ascii "// top
packet // c0
trueish
    // c1
{ repeat // c3
u32
    // c4
MetaDataX // c5a
  // c5b
`doc` // c6a
  // c6b
, Header
    // c8
{
    // c9
packetx // c10a
  // c10b
o `u8 x,` // c12a
  // c12b
, // c13a
  // c13b
}
    // c14
,
    // c15
@leftPad // c16
( // c17a
  // c17b
'\x00' // c18a
  // c18b
) repeat char[
    // c21
0123456789
    // c22
] // c23
repeatCount // c24
,
    // c25
} // c26a
  // c26b
packet // c27
Packet // c28
{ // c29a
  // c29b
} ")).
Eval vm_compute in ("<<<M805>>>" ++ check (runes_of_ascii "packet
charz { @lengthOf(
Z9_ ) @leftPad ( )	@tag(
    7 )char[] metadata, repeat
    float asx ,
i8 a1 @calculatedFrom( ""a\\"" )  ,
    leftPad
@calculatedFrom( """ ++ [128512]%N ++ runes_of_ascii """ )	`doc` , uint16	trueish `u8 x,`, //x
match
    Logon as pack { 42	:  tag ,	0:falsey
, [ 3 // c
,	1
//	t
// " ++ [128512]%N ++ runes_of_ascii " emoji
]: x_y_z // `tick` ""quote"" 'q'
, }  ,
repeat
// `tick` ""quote"" 'q'
// trailing space 
leftPad{
char[]
    leftPad  `tab	here`
    , char[ 42 // a // b
] x_y_z, } , }")).
Eval vm_compute in ("<<<M3650>>>" ++ check (runes_of_ascii "MetaData rootA {
    char[42] body `tab	here`,
    string pack,
    zchar[65535] A `it's`,
    i64_ Pad,
}

MetaData leftPad {
    int16 u,
}

packet trueish {
    @tag(00)
    char[42] MetaDataX `crlf
    line`,
    @lengthOf(asx)
    chars charz,
    @rightPad('0')
    @lengthOf(a1)
    char[] Packet @calculatedFrom(""x y"") `crlf
    line`,
    len i8i8,
    @rightPad('\x00')
    options1 {
        x @lengthOf(Z9_),
    },
}")).
Eval vm_compute in ("<<<M3873>>>" ++ check (runes_of_ascii "packet u128 {
    // @lengthOf(
    @lengthOf(u8x)
    char[] lengthOf `it's`,
    @calculatedFrom(""it's"")
    u16 metadata @calculatedFrom(""// no comment"") `// not a comment`,
    @lengthOf(int)
    // @lengthOf(
    repeat trueish float,
    // c
    char[00] falsey,
    repeat zchar[3] falsey,
    @lengthOf(pack)
    zchar[007] packetx @lengthOf(len),
    repeat char u `tab	here`,
    Pad @lengthOf(leftPad),
}")).
Eval vm_compute in ("<<<M1341>>>" ++ check (runes_of_ascii "packet // packet A { u8 x, }
len {repeat crc// c
, zchar[
//	t
// packet A { u8 x, }
7
]	roots `" ++ [233]%N ++ runes_of_ascii "`
,u{string_ x_y_z ,
} ,	}	root packet len {falsey
    `a\`,	@rightPad
(' '
)	@rightPad  ( )
// packet A { u8 x, }
// `tick` ""quote"" 'q'
@tag( 007
) repeat float	{ msg_type
    `" ++ [28040; 24687; 31867; 22411]%N ++ runes_of_ascii "`,int8 i8i8 `say ""hi""`
, match
    u128 as crc {
    007
//	t
// @lengthOf(
:tag , } ,char[]  As `it's`
, } ,
    }
")).
Eval vm_compute in ("<<<M1284>>>" ++ check (runes_of_ascii "root packet
Foo{ uint8x @lengthOf(// " ++ [128512]%N ++ runes_of_ascii " emoji
zchar ) // `tick` ""quote"" 'q'
,body { repeat zchar[
4294967296 ]
    tag , }
, int8 _x
`u8 x,`
    , char[]
T , Foo
, @rightPad ( ' '
    // packet A { u8 x, }
    )	repeat uint8 stringy
    ,zchar[ 255] calculatedFrom@calculatedFrom(""x y"") `" ++ [28040; 24687; 31867; 22411]%N ++ runes_of_ascii "` , float32
len @lengthOf(
// " ++ [27880; 37322]%N ++ runes_of_ascii "
// `tick` ""quote"" 'q'
i8i8 ) , uint32
    Pad ,
    }")).
Eval vm_compute in ("<<<M544>>>" ++ check (runes_of_ascii "
MetaData msg_type {string u128`` , string uint8x,} options{
//	t
// " ++ [27880; 37322]%N ++ runes_of_ascii "
uint8x =
    // c
    ""packet"";
// `tick` ""quote"" 'q'
// a // b
}MetaData trueish //	t
{MetaDataX int
,
    int msg_type `{ , }` ,Foo lengthOf ,float32 calculatedFrom
    ,
int64 packetx,// " ++ [27880; 37322]%N ++ runes_of_ascii "
uint32 Z9_ , }  MetaData string_
    {
uint32 string_ , }
    packet BodyLength
{	char[ 10] o
, }")).
Eval vm_compute in ("<<<M556>>>" ++ check (runes_of_ascii "packet len { i8
    Pad @calculatedFrom( ""abc""
)
, } packet BodyLength{ repeat matchKey , @calculatedFrom(""1"" )
    repeat uint32
    // @lengthOf(
    f32a
`two words`, MetaDataX , zchar[0123456789
    ] options1 @lengthOf( // c
i8i8 ) `" ++ [233]%N ++ runes_of_ascii "` , @calculatedFrom(
""" ++ [28040; 24687]%N ++ runes_of_ascii """ ) match u8x as _x	{
//	t
// packet A { u8 x, }
""\" ++ [233]%N ++ runes_of_ascii """ :string_  ,
10 :  Z9_, } , }
")).
Eval vm_compute in ("<<<M3977>>>" ++ check (runes_of_ascii "// trailing space 
packet i64_ {
    uint8 body,
    @calculatedFrom(""\n"")
    repeat BodyLength {
        repeat crc len `" ++ [233]%N ++ runes_of_ascii "`,
        As,
        repeat char[] Header,
    },
    match T as T {
        3 : repeatCount,
    },
    match tag as pack {
        ""a	b"" : string_,
    },
    zchar[10] a1 ``,
    @tag(3)
    string int,
}")).
Eval vm_compute in ("<<<M3559>>>" ++ check (runes_of_ascii "options
    {
LittleEndian 
=true;
}packet
    Logon
{	u8  x

    , }  packet

Logout{
u16 
reason

    , }	root
    packet Frame
    {  i32

    Kind
,
i32  Kind2,
match  Kind as  Body
	{
1:

Logon ,	[

    2 ,
3 ,4  ]
    :

Logout ,100

:Logon ,	}	, match
Kind2

as
    Trailer {	0 :

    Logout
, } ,

}
")).
Eval vm_compute in ("<<<M283>>>" ++ check (runes_of_ascii "root packet
    i64_ {@tag(4294967296) match lengthOf as // " ++ [27880; 37322]%N ++ runes_of_ascii "
charz	{ 1 :
T , } ,repeat char[ 00]
MetaDataX //x
,
match // @lengthOf(
Foo as
    chars{ // `tick` ""quote"" 'q'
""" ++ [28040; 24687]%N ++ runes_of_ascii """:charz
, } ,} root packet MetaDataX {
@lengthOf( chars// " ++ [128512]%N ++ runes_of_ascii " emoji
)
uint16 Foo , Foo ,
    } packet zchar { // trailing space 
}")).
Eval vm_compute in ("<<<M1510>>>" ++ check (runes_of_ascii "root packet Foo // " ++ [128512]%N ++ runes_of_ascii " emoji
{ } options {
    // a // b
    tag // `tick` ""quote"" 'q'
= //	t
""""
    ; u8x = zchar[0  ] }
MetaData
    int {zchar[ zchar[ 10]
lengthOf	`` , i64 u8x`// not a comment` ,MetaDataX pack// `tick` ""quote"" 'q'
`crlf
line`
, Logon charz `crlf
line`
    ,
    // a // b
    }
")).
Eval vm_compute in ("<<<M1530>>>" ++ check (runes_of_ascii "root packet Foo // " ++ [128512]%N ++ runes_of_ascii " emoji
{ } options {
    // a // b
    tag // `tick` ""quote"" 'q'
= //	t
""""
    ; u8x = zchar[0  ] }
MetaData
    int {zchar[ 10]
lengthOf	`` `` , i64 u8x`// not a comment` ,MetaDataX pack// `tick` ""quote"" 'q'
`crlf
line`
, Logon charz `crlf
line`
    ,
    // a // b
    }
")).
Eval vm_compute in ("<<<M4276>>>" ++ check (runes_of_ascii "MetaData
	lengthOf {	float 
rootA `
`,
i16 // " ++ [128512]%N ++ runes_of_ascii " emoji
		x
    , float32 msg_type
, 
lengthOf 
	// a // b
	// " ++ [27880; 37322]%N ++ runes_of_ascii "

u8x
`" ++ [28040; 24687; 31867; 22411]%N ++ runes_of_ascii "`	,}options
    {

packetx =
    3; 
options1=zchar[

255
]	; Pad
=false 
;repeatCount
    =42  // @lengthOf(
    	;
chars 
      /// triple
  // a // b
  =
' '
;
}

")).
Eval vm_compute in ("<<<M1492>>>" ++ check (runes_of_ascii "root packet Foo // " ++ [128512]%N ++ runes_of_ascii " emoji
{ } options {
    // a // b
    tag // `tick` ""quote"" 'q'
= //	t
""""
    ; u8x = zchar[0  ] ,
MetaData
    int {zchar[ 10]
lengthOf	`` , i64 u8x`// not a comment` ,MetaDataX pack// `tick` ""quote"" 'q'
`crlf
line`
, Logon charz `crlf
line`
    ,
    // a // b
    }
")).
Eval vm_compute in ("<<<M1469>>>" ++ check (runes_of_ascii "root packet Foo // " ++ [128512]%N ++ runes_of_ascii " emoji
{ } options {
    // a // b
    tag // `tick` ""quote"" 'q'
= //	t
""""
    ; u8x  zchar[0  ] }
MetaData
    int {zchar[ 10]
lengthOf	`` , i64 u8x`// not a comment` ,MetaDataX pack// `tick` ""quote"" 'q'
`crlf
line`
, Logon charz `crlf
line`
    ,
    // a // b
    }
")).
Eval vm_compute in ("<<<M1539>>>" ++ check (runes_of_ascii "root packet Foo // " ++ [128512]%N ++ runes_of_ascii " emoji
{ } options {
    // a // b
    tag // `tick` ""quote"" 'q'
= //	t
""""
    ; u8x = zchar[0  ] }
MetaData
    int {zchar[ 10]
lengthOf	`` ,  u8x`// not a comment` ,MetaDataX pack// `tick` ""quote"" 'q'
`crlf
line`
, Logon charz `crlf
line`
    ,
    // a // b
    }
")).
Eval vm_compute in ("<<<M92>>>" ++ check (runes_of_ascii "root
    packet packetx {	uint32
x_y_z@calculatedFrom( """ ++ [233]%N ++ runes_of_ascii "t" ++ [233]%N ++ runes_of_ascii """ ) ,@calculatedFrom(
    ""{,}"" // trailing space 
)	float calculatedFrom
`line1
line2` ,u16 Packet @lengthOf( f32a ) ,
char[] o `tab	here`, @calculatedFrom( ""x y""  )T {
repeat i64 chars , } ,
i16  roots	,
} // @lengthOf(")).
Eval vm_compute in ("<<<M4377>>>" ++ check (runes_of_ascii "options {
    u128 = u32;
    Z9_ = ""`tick`""
    trueish = ""`tick`"";
    // @lengthOf(
    tag = '0'
}

options {
    metadata = ""a	b"";
    packetx = '\x00'// " ++ [128512]%N ++ runes_of_ascii " emoji
}

options {
    charz = 65535
}

options {
    msg_type = zchar[10];
    asx = false
    tag = char[];
}")).
Eval vm_compute in ("<<<M885>>>" ++ check (runes_of_ascii "packet//	t
u8x{
// `tick` ""quote"" 'q'
//x
Pad @lengthOf(
    _x
// " ++ [27880; 37322]%N ++ runes_of_ascii "
/// triple
)
,
    //	t
    }
// `tick` ""quote"" 'q'
// c
packet body
    { @rightPad ( '\x00'// `tick` ""quote"" 'q'
) asx`it's`, }packet u128 { } packet stringy { @rightPad
    ( ) chars, }
")).
Eval vm_compute in ("<<<M3560>>>" ++ check (runes_of_ascii "options {
    LittleEndian = true;
}
packet Logon {
    u8 x,
    string user,
}
packet Logout {
    u16 reason,
}
packet Empty {
}
root packet Frame {
    u16 MsgType,
    @lengthOf(Body) u8 BodyLen,
    u8 flags,
    Logon Body,
    u32 trailer,
}
")).
Eval vm_compute in ("<<<M3213>>>" ++ check (runes_of_ascii "packet Logon // c1a
  // c1b
{ // c2a
  // c2b
@tag( 42 // c4
) // c5
@rightPad (
    // c7
' ' ) @leftPad
    // c10
( )
    // c12
repeat // c13
trueish
    // c14
{
    // c15
string
    // c16
T
    // c17
, }
    // c19
,
    // c20
} ")).
Eval vm_compute in ("<<<M3567>>>" ++ check (runes_of_ascii "options{ roots =u8 f32a
	=
    '\x00'	BodyLength= """ ++ [28040; 24687]%N ++ runes_of_ascii """
    }  MetaData// a // b
	packetx

{	i32	options1 ,

    zchar[

    1 
]  u8x 	 // @lengthOf(
	`doc`  ,
	zchar[ 7	] matchKey 	 // " ++ [27880; 37322]%N ++ runes_of_ascii "

,

int8

    As `crlf
line` , 
}")).
Eval vm_compute in ("<<<M771>>>" ++ check (runes_of_ascii "packet Logon { @lengthOf( Pad
    ) int{ match matchKey
as
Pad { ""CRC32"" :
body
,
    }
    ,  len
    // `tick` ""quote"" 'q'
    @lengthOf(// `tick` ""quote"" 'q'
chars )
    /// triple
    , float
@lengthOf( Foo ), } , }
")).
Eval vm_compute in ("<<<M2328>>>" ++ check (runes_of_ascii "MetaData Packet { }packet	asx  { @lengthOf( asx) falsey`crlf
line`
,
    }
    packet x	{uint32// @lengthOf(
rootA	,u32 options1 `say ""hi""` @tag( @tag( 7
    )// packet A { u8 x, }
msg_type @lengthOf(
stringy	)	, }

")).
Eval vm_compute in ("<<<M2287>>>" ++ check (runes_of_ascii "MetaData Packet { }packet	asx  { @lengthOf( asx) falsey`crlf
line`
,
    }
    packet {	x uint32// @lengthOf(
rootA	,u32 options1 `say ""hi""` , @tag( 7
    )// packet A { u8 x, }
msg_type @lengthOf(
stringy	)	, }

")).
Eval vm_compute in ("<<<M2292>>>" ++ check (runes_of_ascii "MetaData Packet { }packet	asx  { @lengthOf( asx) falsey`crlf
line`
,
    }
    packet x	uint32{// @lengthOf(
rootA	,u32 options1 `say ""hi""` , @tag( 7
    )// packet A { u8 x, }
msg_type @lengthOf(
stringy	)	, }

")).
Eval vm_compute in ("<<<M2335>>>" ++ check (runes_of_ascii "MetaData Packet { }packet	asx  { @lengthOf( asx) falsey`crlf
line`
,
    }
    packet x	{uint32// @lengthOf(
rootA	,u32 options1 `say ""hi""` , @tag( 
    )// packet A { u8 x, }
msg_type @lengthOf(
stringy	)	, }

")).
Eval vm_compute in ("<<<M2216>>>" ++ check (runes_of_ascii "MetaData  { }packet	asx  { @lengthOf( asx) falsey`crlf
line`
,
    }
    packet x	{uint32// @lengthOf(
rootA	,u32 options1 `say ""hi""` , @tag( 7
    )// packet A { u8 x, }
msg_type @lengthOf(
stringy	)	, }

")).
Eval vm_compute in ("<<<M2320>>>" ++ check (runes_of_ascii "MetaData Packet { }packet	asx  { @lengthOf( asx) falsey`crlf
line`
,
    }
    packet x	{uint32// @lengthOf(
rootA	,u32 options1  , @tag( 7
    )// packet A { u8 x, }
msg_type @lengthOf(
stringy	)	, }

")).
Eval vm_compute in ("<<<M1>>>" ++ check (runes_of_ascii "// c
options {
    lengthOf = false Logon =
    false ;
} MetaData lengthOf
{ // " ++ [128512]%N ++ runes_of_ascii " emoji
float32 i8i8, }
root // `tick` ""quote"" 'q'
packet roots
{  zchar[
7	] f32a
    // trailing space 
    , }
")).
Eval vm_compute in ("<<<M1352>>>" ++ check (runes_of_ascii "// packet A { u8 x, }
MetaData T {
rootA MetaDataX , rootA pack
    // `tick` ""quote"" 'q'
    ,
    int8 zchar ,string trueish  `line1
line2`	, u16 metadata `say ""hi""`
, matchKey
f32a ,  }
")).
Eval vm_compute in ("<<<M3960>>>" ++ check (runes_of_ascii "root
packet
    // c1

  P 	 // c2
    { u8 // c4
s_u8	// c5

  ,	// c6
repeat	// c7
		u8 	 // c8

  r_u8
, u16// c11

b_len
    // c12
	  ,  // c13a

// c13b

	} 
	    // c14
")).
Eval vm_compute in ("<<<M3391>>>" ++ check (runes_of_ascii "// top
MetaData
    // c0
_x
    // c1
{
    // c2
zchar[
    // c3
4294967296
    // c4
]
    // c5
lengthOf
    // c6
`// not a comment`
    // c7
,
    // c8
}
    // c9
")).
Eval vm_compute in ("<<<M1548>>>" ++ check (runes_of_ascii "root packet Foo // " ++ [128512]%N ++ runes_of_ascii " emoji
{ } options {
    // a // b
    tag // `tick` ""quote"" 'q'
= //	t
""""
    ; u8x = zchar[0  ] }
MetaData
    int {zchar[ 10]
lengthOf	`` , i64")).
Eval vm_compute in ("<<<M1538>>>" ++ check (runes_of_ascii "root packet Foo // " ++ [128512]%N ++ runes_of_ascii " emoji
{ } options {
    // a // b
    tag // `tick` ""quote"" 'q'
= //	t
""""
    ; u8x = zchar[0  ] }
MetaData
    int {zchar[ 10]
lengthOf	``")).
Eval vm_compute in ("<<<M1248>>>" ++ check (runes_of_ascii "MetaData u128{ zchar asx
    /// triple
    , As chars`" ++ [28040; 24687; 31867; 22411]%N ++ runes_of_ascii "`,
    char[]repeatCount
    `doc` , u64 body , string Packet `say ""hi""` ,	body MetaDataX , }
")).
Eval vm_compute in ("<<<M93>>>" ++ check (runes_of_ascii "MetaData  falsey { i64
    A // " ++ [27880; 37322]%N ++ runes_of_ascii "
, string
Header
,	zchar[	10 ]
Foo `" ++ [28040; 24687; 31867; 22411]%N ++ runes_of_ascii "`
    // @lengthOf(
    ,packetx
    body, f32a  MetaDataX `it's`,  }
")).
Eval vm_compute in ("<<<M3946>>>" ++ check (runes_of_ascii "packet string_ {
    metadata @lengthOf(T),
    @lengthOf(x)
    Logon @calculatedFrom(""""),
    @calculatedFrom(""a	b"")
    x_y_z `say ""hi""`,
}")).
Eval vm_compute in ("<<<M615>>>" ++ check (runes_of_ascii "root packet a1	{ repeat T`it's`	,@calculatedFrom( ""a\""b"" ) repeat char[]metadata , float64 roots `crlf
line` ,f64 Logon `doc` , }
// c
")).
Eval vm_compute in ("<<<M1721>>>" ++ check (runes_of_ascii "root @tag packet /// triple
rootA {	i32
MetaDataX@calculatedFrom( ""CRC32"" ) `line1
line2` , } MetaData BodyLength {
u8
rootA, } // c")).
Eval vm_compute in ("<<<M1673>>>" ++ check (runes_of_ascii "root packet /// triple
rootA {	i32
MetaDataX@calculatedFrom( ""CRC32"" ) `line1
line2` , , } MetaData BodyLength {
u8
rootA, } // c")).
Eval vm_compute in ("<<<M1664>>>" ++ check (runes_of_ascii "root packet /// triple
rootA {	i32
MetaDataX@calculatedFrom( ""CRC32"" `line1
line2` ) , } MetaData BodyLength {
u8
rootA, } // c")).
Eval vm_compute in ("<<<M3788>>>" ++ check (runes_of_ascii "packet  A
    { match
    k  as
    n{ [
""a""

,	""bb""

    ,	""c c"", ""d"" ,""e"" ,

""f""

    , ""g""	]
:

B  2 : C} 
,

    }
")).
Eval vm_compute in ("<<<M1782>>>" ++ check (runes_of_ascii "packet packet
    Pad // a // b
{ i8i8 @calculatedFrom( ""a	b"") `u8 x,` ,
} options{ float// " ++ [128512]%N ++ runes_of_ascii " emoji
= f64 i64_
=//	t
00 }
")).
Eval vm_compute in ("<<<M4357>>>" ++ check (runes_of_ascii "packet Logon {
    @tag(42)
    @rightPad(' ')
    @leftPad()
    repeat trueish {
        string T,
        // c
    },
}")).
Eval vm_compute in ("<<<M1170>>>" ++ check (runes_of_ascii "options
{// c
stringy= ""1"" ;float = i64; // a // b
calculatedFrom
=
    ""it's"" ; // c
Z9_=""// no comment"" ; // " ++ [27880; 37322]%N ++ runes_of_ascii "
}
")).
Eval vm_compute in ("<<<M1886>>>" ++ check (runes_of_ascii "packet
    Pad // a // b
{ i8i8 @calculated<From( ""a	b"") `u8 x,` ,
} options{ float// " ++ [128512]%N ++ runes_of_ascii " emoji
= f64 i64_
=//	t
00 }
")).
Eval vm_compute in ("<<<M1848>>>" ++ check (runes_of_ascii "packet
    Pad // a // b
{ i8i8 @calculatedFrom( ""a	b"") `u8 x,` ,
} options{ float// " ++ [128512]%N ++ runes_of_ascii " emoji
{ f64 i64_
=//	t
00 }
")).
Eval vm_compute in ("<<<M254>>>" ++ check (runes_of_ascii "options { i8i8= char[]
    ; } packet
MetaDataX{ @calculatedFrom( ""x y"" )int32 T `" ++ [28040; 24687; 31867; 22411]%N ++ runes_of_ascii "` ,
    f64 matchKey
    , }")).
Eval vm_compute in ("<<<M4412>>>" ++ check (runes_of_ascii "
packet
    A {
    match
k
    as
n  { [ ""a"" ,
""bb""
,
007
	, ""d""	,  ""e""
    ] : B
,
    2
    :
C  }

,
	}")).
Eval vm_compute in ("<<<M1830>>>" ++ check (runes_of_ascii "packet
    Pad // a // b
{ i8i8 @calculatedFrom( ""a	b"") `u8 x,` ,
} { float// " ++ [128512]%N ++ runes_of_ascii " emoji
= f64 i64_
=//	t
00 }
")).
Eval vm_compute in ("<<<M3047>>>" ++ check (runes_of_ascii "packet A {
    Inner {
        u8 x `tab
	x`,
        Deep {
            u8 y `tab
	x`,
        },
    },
}")).
Eval vm_compute in ("<<<M3338>>>" ++ check (runes_of_ascii "
// c
packet calculatedFrom { @tag( 4294967296 ) u msg_type , char[ 3 ] crc @lengthOf( len ) `u8 x,` , }")).
Eval vm_compute in ("<<<M3355>>>" ++ check (runes_of_ascii "packet calculatedFrom { @tag( 4294967296 ) u msg_type , // c
char[ 3 ] crc @lengthOf( len ) `u8 x,` , }")).
Eval vm_compute in ("<<<M3755>>>" ++ check (runes_of_ascii "packet calculatedFrom {
    @tag(4294967296)
    u msg_type,
    char[3] crc @lengthOf(len) `u8 x,`,
}")).
Eval vm_compute in ("<<<M854>>>" ++ check (runes_of_ascii "
options{ x = ' '
    }
packet
//	t
//x
matchKey
    { zchar[ 7 ]o  @calculatedFrom(""it's"" ) ,
}
")).
Eval vm_compute in ("<<<M3601>>>" ++ check (runes_of_ascii "options {
}

packet u128 {
    repeat uint8x x `say ""hi""`,// trailing space 
}

MetaData crc {
}")).
Eval vm_compute in ("<<<M3231>>>" ++ check (runes_of_ascii "packet Logon { @tag( 42 ) @rightPad (
// c
' ' ) @leftPad ( ) repeat trueish { string T , } , }")).
Eval vm_compute in ("<<<M878>>>" ++ check (runes_of_ascii "options {  chars = 10  MetaDataX= 3 ;Header
    =//x
zchar[ 7 ]x_y_z = """";
    i64_ =' ' ; }

")).
Eval vm_compute in ("<<<M4152>>>" ++ check (runes_of_ascii "packet A {
    Logon {
        repeat char[42] falsey `a\`,
        repeat int32 T,
    },
}")).
Eval vm_compute in ("<<<M1961>>>" ++ check (runes_of_ascii "@leftPad
packet crc
    { f32a @calculatedFrom( """ ++ [233]%N ++ runes_of_ascii "t" ++ [233]%N ++ runes_of_ascii """ )
    `say ""hi""`, lengthOf `` ,  }")).
Eval vm_compute in ("<<<M2017>>>" ++ check (runes_of_ascii "root
packet crc
    { f32a @calculatedFrom( """ ++ [233]%N ++ runes_of_ascii "t" ++ [233]%N ++ runes_of_ascii """ )
    `say ""hi""`, lengthOf `` , ,  }")).
Eval vm_compute in ("<<<M2043>>>" ++ check (runes_of_ascii "root
packet crc
    { f32a @calculatedFrom( """ ++ [233]%N ++ runes_of_ascii "t" ++ [233]%N ++ runes_of_ascii """ )
    \`say ""hi""`, lengthOf `` ,  }")).
Eval vm_compute in ("<<<M3638>>>" ++ check (runes_of_ascii "options {
    LittleEndian = true;
}

root packet P {
    repeat char cs,
    u8 x,
}")).
Eval vm_compute in ("<<<M3939>>>" ++ check (runes_of_ascii "packet

    A{
	match

    k as
n
    {

    1  :B
    ,
    // c
}  ,
}
")).
Eval vm_compute in ("<<<M3298>>>" ++ check (runes_of_ascii "packet o { // c
@tag( 42 ) repeat x { char[ 0123456789 ] i64_ , } , } options { }")).
Eval vm_compute in ("<<<M3330>>>" ++ check (runes_of_ascii "packet o { @tag( 42 ) repeat x { char[ 0123456789 ] i64_ , } , } options { // c
}")).
Eval vm_compute in ("<<<M2919>>>" ++ check (runes_of_ascii "packet A {
  match k as n {
    [1, 22, ""c c"", 4, 5, ""f""] : B,
    2 : C
  },
}")).
Eval vm_compute in ("<<<M3840>>>" ++ check (runes_of_ascii "packet A { match

k as

    n	{  [ 
1] 
:

    B
,2 
:
    C
	}
,
    }
")).
Eval vm_compute in ("<<<M682>>>" ++ check (runes_of_ascii "packet trueish
    //x
    { @calculatedFrom( ""abc""
) body `tab	here`	, }
")).
Eval vm_compute in ("<<<M2874>>>" ++ check (runes_of_ascii "packet A {
  match k as n {
    [""a"", ""bb"", ""c c""] : B,
    2 : C
  },
}")).
Eval vm_compute in ("<<<M2878>>>" ++ check (runes_of_ascii "packet A {
  match k as n {
    [""a"", 22, ""c c""] : B,
    2 : C
  },
}")).
Eval vm_compute in ("<<<M1981>>>" ++ check (runes_of_ascii "root
packet crc
    { f32a  """ ++ [233]%N ++ runes_of_ascii "t" ++ [233]%N ++ runes_of_ascii """ )
    `say ""hi""`, lengthOf `` ,  }")).
Eval vm_compute in ("<<<M2886>>>" ++ check (runes_of_ascii "packet A {
  match k as n {
    [1, 22, 007, 4] : B
    2 : C
  },
}")).
Eval vm_compute in ("<<<M2178>>>" ++ check (runes_of_ascii "root
    // `tick` ""quote"" 'q'
    packet As { trueish , Packet }
")).
Eval vm_compute in ("<<<M1824>>>" ++ check (runes_of_ascii "packet
    Pad // a // b
{ i8i8 @calculatedFrom( ""a	b"") `u8 x,`")).
Eval vm_compute in ("<<<M2797>>>" ++ check (runes_of_ascii "match 1 char uint64 uint64 @tag( int64 `" ++ [28040; 24687; 31867; 22411]%N ++ runes_of_ascii "` options , uint64")).
Eval vm_compute in ("<<<M3420>>>" ++ check (runes_of_ascii "root  packet

    P

    {
repeat
char cs  ,
u8
x  ,
} ")).
Eval vm_compute in ("<<<M4047>>>" ++ check (runes_of_ascii "

  options

    {a
    =""x\
y"" ;	b
=

    ""x\
y"" 
}
")).
Eval vm_compute in ("<<<M1379>>>" ++ check (runes_of_ascii "// " ++ [128512]%N ++ runes_of_ascii " emoji
MetaData u {int	Foo, f32a stringy `doc`,
} 	 ")).
Eval vm_compute in ("<<<M1905>>>" ++ check (runes_of_ascii "
packet	As  @calculatedFrom(//x
""{,}""	)lengthOf , } 	 ")).
Eval vm_compute in ("<<<M377>>>" ++ check (runes_of_ascii "// " ++ [27880; 37322]%N ++ runes_of_ascii "
MetaData u128 {  char[
    3 ] f32a `doc` , }")).
Eval vm_compute in ("<<<M4182>>>" ++ check (runes_of_ascii "options
{

    stringy
	= ' '	/// triple
	;

}

")).
Eval vm_compute in ("<<<M2402>>>" ++ check (runes_of_ascii "MetaData {
A
i64
chars	, } // `tick` ""quote"" 'q'")).
Eval vm_compute in ("<<<M3379>>>" ++ check (runes_of_ascii "// top
packet
    // c0
lengthOf {
    // c2
} ")).
Eval vm_compute in ("<<<M1740>>>" ++ check (runes_of_ascii "{ options }options {  } // `tick` ""quote"" 'q'")).
Eval vm_compute in ("<<<M4291>>>" ++ check (runes_of_ascii "

  MetaData

packetx 
{_x
metadata ,
    }
")).
Eval vm_compute in ("<<<M2131>>>" ++ check (runes_of_ascii "MetaData x
{// " ++ [128512]%N ++ runes_of_ascii " emoji
i16 stringy , char[")).
Eval vm_compute in ("<<<M838>>>" ++ check (runes_of_ascii "MetaData
zchar {_x
T
    , } options {}")).
Eval vm_compute in ("<<<M3198>>>" ++ check (runes_of_ascii "MetaData zchar { zchar[ 3 // c
] Pad , }")).
Eval vm_compute in ("<<<M3573>>>" ++ check (runes_of_ascii "root packet Pad {
    zchar[7] float,
}")).
Eval vm_compute in ("<<<M311>>>" ++ check (runes_of_ascii "MetaData x_y_z { string options1 , }
")).
Eval vm_compute in ("<<<M2765>>>" ++ check (runes_of_ascii "@tag( options options [ : char[] i64")).
Eval vm_compute in ("<<<M2772>>>" ++ check (runes_of_ascii "uint16 char uint16 ' ' root string")).
Eval vm_compute in ("<<<M2654>>>" ++ check (runes_of_ascii "options { a = 1; b = 2 c = 3;; }")).
Eval vm_compute in ("<<<M328>>>" ++ check (runes_of_ascii "root packet roots
//x
// " ++ [27880; 37322]%N ++ runes_of_ascii "
{}")).
Eval vm_compute in ("<<<M3161>>>" ++ check (runes_of_ascii "MetaData M {
}// c
packet A {}")).
Eval vm_compute in ("<<<M2648>>>" ++ check (runes_of_ascii "MetaData M { @tag(1) u8 x, }")).
Eval vm_compute in ("<<<M3038>>>" ++ check (runes_of_ascii "packet A {
    u8 x `
x`,
}")).
Eval vm_compute in ("<<<M3951>>>" ++ check (runes_of_ascii "options {
    int = i16;
}")).
Eval vm_compute in ("<<<M4213>>>" ++ check (runes_of_ascii "options {
    i64_ = 00
}")).
Eval vm_compute in ("<<<M3279>>>" ++ check (runes_of_ascii "options { u8x = 3 // c
}")).
Eval vm_compute in ("<<<M4160>>>" ++ check (runes_of_ascii "// c 	
	packet 
A {

}")).
Eval vm_compute in ("<<<M1301>>>" ++ check (runes_of_ascii "packet len {
    } 	 ")).
Eval vm_compute in ("<<<M2066>>>" ++ check (runes_of_ascii "MetaData A { u64 , }")).
Eval vm_compute in ("<<<M2849>>>" ++ check (runes_of_ascii "y+" ++ [65533; 65533; 65533]%N ++ runes_of_ascii "Y65x" ++ [1125; 65533; 65533; 0; 65533; 223]%N ++ runes_of_ascii "Q	" ++ [7; 65533]%N)).
Eval vm_compute in ("<<<M2854>>>" ++ check (runes_of_ascii "8Fa/Ek?q4_g4W,XqgA")).
Eval vm_compute in ("<<<M3141>>>" ++ check (runes_of_ascii "packet A {
}
// c" ++ [6158]%N)).
Eval vm_compute in ("<<<M3089>>>" ++ check (runes_of_ascii "packet A {
}// c" ++ [8202]%N)).
Eval vm_compute in ("<<<M1016>>>" ++ check (runes_of_ascii "
MetaData As{
}")).
Eval vm_compute in ("<<<M717>>>" ++ check (runes_of_ascii "
options { }
")).
Eval vm_compute in ("<<<M233>>>" ++ check (runes_of_ascii " // a // b")).
Eval vm_compute in ("<<<M2502>>>" ++ check (runes_of_ascii "// ab
c")).
Eval vm_compute in ("<<<M2454>>>" ++ check (runes_of_ascii "option")).
Eval vm_compute in ("<<<M2508>>>" ++ check (runes_of_ascii """a\""""")).
Eval vm_compute in ("<<<M1418>>>" ++ check (runes_of_ascii "root")).
Eval vm_compute in ("<<<M2469>>>" ++ check (runes_of_ascii "' '")).
Eval vm_compute in ("<<<M2473>>>" ++ check (runes_of_ascii "''")).
Eval vm_compute in ("<<<M2674>>>" ++ check (runes_of_ascii ",")).
