From FP Require Import Lexer Parser ShowPT Digest Formatter.
From Coq Require Import String List NArith.
Import ListNotations.
Open Scope string_scope.
Set Printing Width 100000000.
Set Printing Depth 100000000.
Definition show_fres (r : fres) : string :=
  match r with
  | FOk s => "OK:" ++ sh_escaped s ""
  | FErr s => "ERR:" ++ sh_escaped s ""
  | FPanic p => "PANIC:" ++ p
  end.
Definition check (rs : list rune) : string := digest (show_fres (format_res rs)).
Definition full (rs : list rune) : string := show_fres (format_res rs).
Eval vm_compute in ("<<<M1443>>>" ++ check (runes_of_ascii "// top
options // c0
{ // c1
LittleEndian
    // c2
= true // c4a
  // c4b
; // c5a
  // c5b
StringPrefixLenType =
    // c7
u64 // c8
; // c9a
  // c9b
ArrayPrefixLenType // c10a
  // c10b
= u8 ;
    // c13
FixedStringPadChar // c14
= // c15a
  // c15b
'0' // c16
; // c17
} packet Reject // c20a
  // c20b
{ // c21a
  // c21b
i32 // c22
Ref ,
    // c24
repeat // c25
f64 // c26a
  // c26b
OrderId ,
    // c28
repeat // c29a
  // c29b
InNote12 // c30a
  // c30b
{
    // c31
u8
    // c32
pad0 // c33a
  // c33b
,
    // c34
} , @leftPad // c37
( // c38
' ' // c39
) // c40a
  // c40b
char[ // c41
6 // c42
] // c43
count
    // c44
, // c45a
  // c45b
}
    // c46
packet Logout { // c49
zchar[ // c50
6 // c51a
  // c51b
]
    // c52
Tail // c53a
  // c53b
,
    // c54
repeat // c55
string // c56a
  // c56b
venue // c57a
  // c57b
,
    // c58
} // c59a
  // c59b
packet // c60
Cancel // c61a
  // c61b
{ // c62a
  // c62b
u64
    // c63
count // c64a
  // c64b
,
    // c65
repeat char[
    // c67
5
    // c68
] // c69a
  // c69b
lastPx // c70
, // c71a
  // c71b
i64 Tail // c73
,
    // c74
repeat
    // c75
InF140 { // c77a
  // c77b
repeat Logout // c79
, // c80
repeat Reject // c82
, // c83a
  // c83b
} // c84a
  // c84b
, // c85
}
    // c86
root
    // c87
packet
    // c88
Trade // c89
{ repeat InMsgkind39 { // c93a
  // c93b
repeat // c94
Reject // c95
,
    // c96
char[ // c97
4
    // c98
] // c99a
  // c99b
Px // c100
, } // c102
, // c103a
  // c103b
string // c104
Acct
    // c105
, uint16 // c107a
  // c107b
price , // c109a
  // c109b
f32 // c110a
  // c110b
OrderId
    // c111
, // c112
u16 x , u16 // c116a
  // c116b
clOrdID
    // c117
@lengthOf( // c118a
  // c118b
Body // c119a
  // c119b
) // c120a
  // c120b
,
    // c121
match // c122a
  // c122b
x // c123
as Body // c125a
  // c125b
{ 178
    // c127
: // c128a
  // c128b
Logout
    // c129
,
    // c130
13 : // c132a
  // c132b
Cancel // c133a
  // c133b
, // c134a
  // c134b
174 // c135
: // c136
Reject , // c138a
  // c138b
} // c139a
  // c139b
, // c140
u16 // c141
Flags // c142a
  // c142b
@calculatedFrom(
    // c143
""CRC32"" ) // c145
,
    // c146
} ")).
Eval vm_compute in ("<<<M103>>>" ++ check (runes_of_ascii "packet
trueish {
@calculatedFrom(	"""" ) u
    @lengthOf( a1
) ,
} options //	t
{
    trueish =
42 }
options { //	t
}packet Foo {match matchKey
as body	{
    // `tick` ""quote"" 'q'
    [4294967296 ]	: Packet , 00 : A ,
    } , @calculatedFrom( ""x y"" ) // " ++ [27880; 37322]%N ++ runes_of_ascii "
@lengthOf(	a1)
    repeat f64	rootA , } packet len{ @calculatedFrom( ""// no comment"") string T @lengthOf(
f32a )
    , float32 chars
    , @rightPad ( ' ' ) repeat chars{ string A , string
i64_ `line1
line2`
,
float32
    //
    i8i8 ,uint64
    /// triple
    matchKey @calculatedFrom( ""abc"" )
/// triple
// `tick` ""quote"" 'q'
`" ++ [233]%N ++ runes_of_ascii "` , } , A
    `a\` ,
@tag( 00
)
    @tag( 0123456789 )
    @tag( 1	)
u128 {i64_
    {
// c
// trailing space 
BodyLength , i64 u
`{ , }` , match
    Z9_
    as
chars /// triple
{ ["""" ] : // `tick` ""quote"" 'q'
float , [ 0123456789  , 42
    , 3 ,
    //	t
    10  , 10 ]
// a // b
/// triple
: stringy , ""1"" :trueish , // packet A { u8 x, }
""packet"" : u128 [
""x y"" ,7 ] : A
} ,
    int32	a1 ,} , rootA
//x
/// triple
`doc` ,
//x
// `tick` ""quote"" 'q'
} , @rightPad ( ' ' ) repeat options1  { int
    @calculatedFrom( ""packet"" ) , // " ++ [128512]%N ++ runes_of_ascii " emoji
} , repeat char[65535]
    falsey
    // packet A { u8 x, }
    , @rightPad ( ) repeat char[] i8i8,
repeat calculatedFrom  msg_type ,@rightPad (	) @tag(
65535 ) repeat calculatedFrom crc , } 	 ")).
Eval vm_compute in ("<<<M1617>>>" ++ check (runes_of_ascii "// top
options {
    // c1
    StringPrefixLenType = u16;
    // c5
    ArrayPrefixLenType = u32;
    FixedStringPadFromLeft = false;// c13a
    // c13b
    FixedStringPadChar = '0';// c17
}

// c18
packet Logout {
    // c21
    f64 f1,// c24
    i16 Note,// c27
    @rightPad('\x00')
    char[11] Flags,
    // c36
}// c37

packet Cancel {
    // c40
    float64 msgKind,
    // c43
}// c44

packet Reject {
    // c47
    InQty43 {
        // c49
        float32 sym,// c52
        char[10] Tail,// c57a
        // c57b
        uint8 venue,// c60
        uint16 f1,
        // c63
        char[9] Acct,// c68
    },// c70
}// c71a

// c71b
packet Trade {
    // c74
    char[] x,// c77a
    // c77b
    zchar[6] Note,// c82a
    // c82b
    repeat Reject,
}

root packet Order {
    // c90a
    // c90b
    Cancel,
    Logout,// c94a
    // c94b
    u64 Acct,
    u32 OrderId,
    match OrderId as Body {
        [127, 70] : Reject,
        177 : Trade,
        // c117
        58 : Logout,
        75 : Cancel,
        // c125
    },
    u32 Tail @calculatedFrom(""CRC32""),// c133
}// c134")).
Eval vm_compute in ("<<<M1462>>>" ++ check (runes_of_ascii "// top
options // c0a
  // c0b
{ // c1a
  // c1b
LittleEndian // c2
= false ; // c5a
  // c5b
StringPrefixLenType // c6a
  // c6b
= // c7
u8 // c8
; ArrayPrefixLenType // c10a
  // c10b
= u16 // c12
; FixedStringPadFromLeft =
    // c15
false // c16
; // c17
} // c18
packet
    // c19
Heartbeat // c20
{
    // c21
u8 // c22a
  // c22b
seqNo
    // c23
,
    // c24
@rightPad ( '\x00' ) // c28
char[ 8
    // c30
] x // c32
, } root // c35
packet
    // c36
Trade
    // c37
{
    // c38
repeat
    // c39
Heartbeat , // c41a
  // c41b
float32 // c42
OrderId
    // c43
, i64 // c45
Acct // c46
, // c47a
  // c47b
u16
    // c48
Qty , u16
    // c51
clOrdID // c52a
  // c52b
, match
    // c54
clOrdID as // c56
Body
    // c57
{ 131 :
    // c60
Heartbeat // c61a
  // c61b
, // c62
} // c63
, // c64a
  // c64b
u16 // c65a
  // c65b
sym // c66a
  // c66b
@calculatedFrom( ""CRC32""
    // c68
) // c69a
  // c69b
, // c70a
  // c70b
}
    // c71
")).
Eval vm_compute in ("<<<M1529>>>" ++ check (runes_of_ascii "

  options

{
	LittleEndian
=
	true

; 
StringPrefixLenType= u64; ArrayPrefixLenType
    =  u8 ;
	FixedStringPadChar

= '0'
;
    } packet

Reject

{ i32 Ref
    ,repeat
    f64
    OrderId , repeat

    InNote12  {

u8 
pad0  ,
    }
	,@leftPad 
( ' '
    )
	char[
6 ]
count,

} packet
    Logout
{
	zchar[
6

]Tail
    ,

repeat  string

venue

, }	packet Cancel 
{
u64 count ,
    repeat char[	5

    ] 
lastPx
	, i64 Tail,
	repeat InF140{
repeat Logout
	,repeat Reject
	,
    } 
,
    }
    root

    packet
Trade	{

repeat
InMsgkind39 {repeat
	Reject , 
char[
	4 ]	Px
,
	}
    , 
string	Acct
,  uint16	price	,
f32 OrderId	,

    u16
x
,

    u16

    clOrdID
	@lengthOf(  Body	)
,match x 
as

Body	{ 
178

    :Logout ,	13 : Cancel

,
174:Reject

,  }
,
u16 Flags @calculatedFrom(""CR\
C32""
)	, 
}
")).
Eval vm_compute in ("<<<M308>>>" ++ check (runes_of_ascii "root packet options1 //	t
{ @lengthOf( Packet )
//x
//	t
repeat chars // " ++ [128512]%N ++ runes_of_ascii " emoji
{ repeatCount
u128 , match u as
BodyLength/// triple
{
[ 65535 ] :
// trailing space 
//x
packetx // a // b
,
3 :
    zchar ,
255: roots """ ++ [233]%N ++ runes_of_ascii "t" ++ [233]%N ++ runes_of_ascii """// c
: Header}
    , i64 Packet,	char[]	uint8x @calculatedFrom(
""// no comment""  ) `crlf
line`
,
    } , string
trueish , @leftPad  (' '  )
i8i8	{/// triple
float64
T @lengthOf( leftPad )
    ,// @lengthOf(
u128 `" ++ [233]%N ++ runes_of_ascii "`
    , lengthOf, // a // b
matchKey ,
    },
    repeat
    char[1] MetaDataX	`a\`  ,
// c
// " ++ [128512]%N ++ runes_of_ascii " emoji
@calculatedFrom( ""1"" )string chars
    `it's` , char[] calculatedFrom
    @lengthOf(
    calculatedFrom) `doc`, rootA// @lengthOf(
_x
// `tick` ""quote"" 'q'
/// triple
`" ++ [28040; 24687; 31867; 22411]%N ++ runes_of_ascii "` , } MetaData calculatedFrom {  u tag `
`,
}
")).
Eval vm_compute in ("<<<M230>>>" ++ check (runes_of_ascii "//x
root packet Z9_ { @calculatedFrom( ""a\\"")zchar[ 1] // @lengthOf(
a1 @lengthOf(
Z9_) ,
@tag( 0123456789
    )@lengthOf(
Header ) @tag( 4294967296 ) uint8 u128  ,i16 msg_type// trailing space 
, tag matchKey, repeat i8 options1 `tab	here` , repeat /// triple
f32a Z9_,
/// triple
//	t
match tag as Foo { 42 : Logon ,
    [ 4294967296
    ] : Pad , 3 :a1 , [007	, 1 ]
: a1 ,}
    ,// packet A { u8 x, }
repeat zchar { repeat //
u8 options1 // c
, leftPad
{	msg_type ,
} ,
leftPad@lengthOf( string_
)
    `a\` ,
    }, zchar charz , string tag @calculatedFrom(
""{,}"")
, // " ++ [27880; 37322]%N ++ runes_of_ascii "
}
    packet// @lengthOf(
u128 {@tag(// " ++ [27880; 37322]%N ++ runes_of_ascii "
4294967296 ) @tag( 42
) f32a @lengthOf( float )
    `" ++ [233]%N ++ runes_of_ascii "` ,	}
")).
Eval vm_compute in ("<<<M1176>>>" ++ check (runes_of_ascii "// top
MetaData // c0
x_y_z // c1a
  // c1b
{ // c2
char // c3a
  // c3b
body // c4
, // c5a
  // c5b
f64 // c6
i8i8 // c7a
  // c7b
`two words` // c8
, // c9a
  // c9b
body // c10
body `" ++ [28040; 24687; 31867; 22411]%N ++ runes_of_ascii "`
    // c12
, } // c14a
  // c14b
root packet chars // c17a
  // c17b
{
    // c18
@lengthOf( // c19a
  // c19b
i64_ // c20a
  // c20b
) chars , // c23a
  // c23b
i8i8
    // c24
{ // c25a
  // c25b
falsey
    // c26
@lengthOf( stringy ) // c29a
  // c29b
`doc` ,
    // c31
} // c32
, x @lengthOf( // c35a
  // c35b
A // c36
) // c37a
  // c37b
`crlf
line`
    // c38
, } // c40a
  // c40b
")).
Eval vm_compute in ("<<<M232>>>" ++ check (runes_of_ascii "packet
    string_ { match charz as  len {
7 : Pad
    // @lengthOf(
    } ,
    match //	t
i64_ as string_ { // @lengthOf(
007:float [0 ]:Packet
// `tick` ""quote"" 'q'
//
, 10 : leftPad
,
}
,
char[]
// trailing space 
// @lengthOf(
roots, char[ 3 ] Header `it's` ,
options1 @calculatedFrom( ""packet"" )`" ++ [233]%N ++ runes_of_ascii "`
,
BodyLength
// @lengthOf(
//x
, repeat char[	65535 // " ++ [27880; 37322]%N ++ runes_of_ascii "
]  body , char[ 42 ]
// a // b
// " ++ [128512]%N ++ runes_of_ascii " emoji
Packet// packet A { u8 x, }
`" ++ [233]%N ++ runes_of_ascii "`  , repeat/// triple
f64 float	`it's`, packetx
matchKey , }
")).
Eval vm_compute in ("<<<M1941>>>" ++ check (runes_of_ascii "
// top

	packet  
  // c0
	u128	// c1
  {// c2

	@lengthOf( 
// c3

  body// c4a
    // c4b
    )	// c5
	match	// c6
	x_y_z// c7
      as
	// c8

	u // c9
	{	// c10a
	// c10b
""x y"" :	// c12a
  // c12b

  i8i8
, 	 // c14a

	// c14b
		}	// c15a
  // c15b
	  ,
    // c16

	@tag( 
// c17
    255 // c18
		)
// c19
	char[]  // c20
  	roots	// c21a
  // c21b
	@lengthOf( 
int 
    // c23
)
    // c24
	  ,// c25
	} // c26")).
Eval vm_compute in ("<<<M1354>>>" ++ check (runes_of_ascii "// top
packet // c0a
  // c0b
B // c1
{ // c2a
  // c2b
u8 // c3
a // c4a
  // c4b
,
    // c5
} // c6
root packet P // c9
{ u8 // c11
K // c12a
  // c12b
, // c13
match
    // c14
K
    // c15
as Body // c17a
  // c17b
{
    // c18
1
    // c19
: B // c21
, }
    // c23
, u16 // c25
L @lengthOf( // c27a
  // c27b
Body // c28a
  // c28b
) // c29
, // c30a
  // c30b
} // c31a
  // c31b
")).
Eval vm_compute in ("<<<M74>>>" ++ check (runes_of_ascii "// packet A { u8 x, }
root packet
charz {
    matchKey { repeat
    Foo { // trailing space 
uint8 chars @lengthOf(	x
    ) , } //
, pack{rootA@lengthOf( MetaDataX// c
) , } // a // b
, roots{zchar[	10	]
    leftPad ,
    } ,	repeat pack
stringy`two words` ,	}, } packet rootA {char[ 10 ]
    x_y_z
`{ , }` , uint64 falsey ,
    // " ++ [27880; 37322]%N ++ runes_of_ascii "
    }
")).
Eval vm_compute in ("<<<M329>>>" ++ check (runes_of_ascii "
options{MetaDataX =
    char }packet packetx {match // packet A { u8 x, }
string_
    as trueish {""a\""b"" : crc // trailing space 
,
1 : calculatedFrom [
1 ]  : u8x	, }
, }options {}
    MetaData Z9_
    // " ++ [128512]%N ++ runes_of_ascii " emoji
    {
    string MetaDataX `` // trailing space 
, }options{ o= '\x00';// trailing space 
}")).
Eval vm_compute in ("<<<M1582>>>" ++ check (runes_of_ascii "packet T {
}

packet string_ {
    @tag(7)
    repeat uint8 rootA,
    @lengthOf(o)
    float u,// trailing space 
    Packet @calculatedFrom(""a\\""),
    f32 repeatCount `say ""hi""`,
}

packet MetaDataX {
    match leftPad as Packet {
        007 : x,
    },// trailing space 
}")).
Eval vm_compute in ("<<<M1748>>>" ++ check (runes_of_ascii "// top
options {
    // c1
    LittleEndian = true;
}

// c6
packet B {
    // c9a
    // c9b
    u8 a,// c12
    string s,// c15a
    // c15b
}// c16a

// c16b
root packet P {
    u16 L @lengthOf(B),
    // c26
    B,// c28
    u8 t,// c31
}")).
Eval vm_compute in ("<<<M1417>>>" ++ check (runes_of_ascii "packet
Logon { string
user
	,

    }

    root
packet
Frame

{
u8	K 
,
	match
K	as  Body{

    1
	:Logon  ,2 
:  Logout

,
}

, 
Tail,}
	packet
	Logout	{
    u16
    reason,
    }
packet Tail	{

u32

    crc

, } ")).
Eval vm_compute in ("<<<M424>>>" ++ check (runes_of_ascii "options
{
matchKey = 42/// triple
x=char[] ;
// packet A { u8 x, }
//
charz
=
// packet A { u8 x, }
// trailing space 
true  ; } MetaData BodyLength
{
uint8
pack,zchar[ 1]float ,  float32 x_y_z `` ,u32
_x,i16 body  , }
")).
Eval vm_compute in ("<<<M584>>>" ++ check (runes_of_ascii "options
{
matchKey = 42/// triple
x='0' ;
// packet A { u8 x, }
//
charz
=
// packet A { u8 x, }
// trailing space 
true  ; } MetaData BodyLength
{
uint8
pack,zchar[ 1]float ,  float32 x_y_z `` ,u32
_x,i16 caf" ++ [233]%N ++ runes_of_ascii "_1  , }
")).
Eval vm_compute in ("<<<M448>>>" ++ check (runes_of_ascii "options
{
matchKey = 42/// triple
x='0' ;
// packet A { u8 x, }
//
charz
=
// packet A { u8 x, }
// trailing space 
true  } ; MetaData BodyLength
{
uint8
pack,zchar[ 1]float ,  float32 x_y_z `` ,u32
_x,i16 body  , }
")).
Eval vm_compute in ("<<<M466>>>" ++ check (runes_of_ascii "options
{
matchKey = 42/// triple
x='0' ;
// packet A { u8 x, }
//
charz
=
// packet A { u8 x, }
// trailing space 
true  ; } MetaData BodyLength

uint8
pack,zchar[ 1]float ,  float32 x_y_z `` ,u32
_x,i16 body  , }
")).
Eval vm_compute in ("<<<M1402>>>" ++ check (runes_of_ascii "

  options	{	FixedStringPadChar

    = '0';
	}packet
    Q
{  zchar[

4	]	z

    , @rightPad
(
'\x00'

)

char[3] n,char[ 
5  ]

d
	, }root	packet
R
    { Q
    ,
zchar[
8  ]top
	,	repeat 
zchar[
2 
] zs,
	}")).
Eval vm_compute in ("<<<M535>>>" ++ check (runes_of_ascii "options
{
matchKey = 42/// triple
x='0' ;
// packet A { u8 x, }
//
charz
=
// packet A { u8 x, }
// trailing space 
true  ; } MetaData BodyLength
{
uint8
pack,zchar[ 1]float ,  float32 x_y_z `` ,")).
Eval vm_compute in ("<<<M686>>>" ++ check (runes_of_ascii "// c
packet i64_ {	char[] calculatedFrom , } packet
trueish  {@calculatedFrom(
""a\\"" ) o { i32 falsey@lengthOf( uint8x ),
} packet } // `tick` ""quote"" 'q'
options {// c
Z9_ = ' '//
}
")).
Eval vm_compute in ("<<<M676>>>" ++ check (runes_of_ascii "// c
packet i64_ {	char[] calculatedFrom , } packet
trueish  @calculatedFrom({
""a\\"" ) o { i32 falsey@lengthOf( uint8x ),
} , } // `tick` ""quote"" 'q'
options {// c
Z9_ = ' '//
}
")).
Eval vm_compute in ("<<<M661>>>" ++ check (runes_of_ascii "// c
packet i64_ {	char[] calculatedFrom , } packet
trueish  {@calculatedFrom(
""a\\"" ) o { i32 falsey@lengthOf( uint8x ),
} , } // `tick` ""quote"" 'q'
options {// c
Z9_ = ' '")).
Eval vm_compute in ("<<<M1705>>>" ++ check (runes_of_ascii "
// top
      root 	 // c0
packet  P  
      // c2
    {	// c3
	repeat

// c4

char cs
// c6
,

    u8 
x	// c9a
		// c9b
,// c10a
// c10b
	}  
  // c11
")).
Eval vm_compute in ("<<<M102>>>" ++ check (runes_of_ascii "packet u128
{ i64 A `{ , }`
,
    } MetaData
    i64_ {
trueish
Z9_ ,
// " ++ [128512]%N ++ runes_of_ascii " emoji
// `tick` ""quote"" 'q'
} options { metadata = i16 ; charz=
false}
")).
Eval vm_compute in ("<<<M1777>>>" ++ check (runes_of_ascii "packet A {
    match k as n {
        [
            ""a"", 22, ""c c"", 4, ""e"",
            66, ""g"", 8
        ] : B,
        2 : C,
    },
}")).
Eval vm_compute in ("<<<M70>>>" ++ check (runes_of_ascii "MetaData f32a{uint8 // a // b
repeatCount, x_y_z i8i8, f32 msg_type , charz
lengthOf `tab	here`, char[	7
    ]chars,float  x ,
}
")).
Eval vm_compute in ("<<<M936>>>" ++ check (runes_of_ascii "packet A {
    u16 len @lengthOf(body) `a
    b
  c`,
    u32 crc @calculatedFrom(""CRC32"") `a
    b
  c`,
    string body,
}")).
Eval vm_compute in ("<<<M2034>>>" ++ check (runes_of_ascii "packet
    Logon {
    @tag( 42	)@rightPad	( 
	    // c
' '
	) 
@leftPad

( 
)

repeat 
trueish  { string 
T 
,} 
,
} ")).
Eval vm_compute in ("<<<M1944>>>" ++ check (runes_of_ascii "packet Logon {
    @tag(42)
    @rightPad(' ')
    @leftPad()
    repeat trueish {
        string T,
    },
    // c
}")).
Eval vm_compute in ("<<<M590>>>" ++ check (runes_of_ascii "uint16
    // trailing space 
    matchKey
{ u64 chars // a // b
,char[] lengthOf `// not a comment`
    , //	t
}")).
Eval vm_compute in ("<<<M893>>>" ++ check (runes_of_ascii "packet A {
  match k as n {
    [""a"", ""bb"", ""c c"", ""d"", ""e"", ""f"", ""g"", ""h"", ""i"", ""j"", ""k""] : B
    2 : C
  },
}")).
Eval vm_compute in ("<<<M1638>>>" ++ check (runes_of_ascii "options {
    msg_type = 00
    string_ = 0
    x = zchar[255];
    leftPad = false;
    f32a = 007;// " ++ [27880; 37322]%N ++ runes_of_ascii "
}")).
Eval vm_compute in ("<<<M1254>>>" ++ check (runes_of_ascii "packet
// c
calculatedFrom { @tag( 4294967296 ) u msg_type , char[ 3 ] crc @lengthOf( len ) `u8 x,` , }")).
Eval vm_compute in ("<<<M1286>>>" ++ check (runes_of_ascii "packet calculatedFrom { @tag( 4294967296 ) u msg_type , char[ 3 ] crc @lengthOf( len ) `u8 x,`
// c
, }")).
Eval vm_compute in ("<<<M898>>>" ++ check (runes_of_ascii "packet A {
  match k as n {
    [1, 22, ""c c"", 4, 5, ""f"", 7, 8, ""i"", 10, 11] : B,
    2 : C
  },
}")).
Eval vm_compute in ("<<<M1132>>>" ++ check (runes_of_ascii "packet Logon // c
{ @tag( 42 ) @rightPad ( ' ' ) @leftPad ( ) repeat trueish { string T , } , }")).
Eval vm_compute in ("<<<M1164>>>" ++ check (runes_of_ascii "packet Logon { @tag( 42 ) @rightPad ( ' ' ) @leftPad ( ) repeat trueish { string T // c
, } , }")).
Eval vm_compute in ("<<<M271>>>" ++ check (runes_of_ascii "packet BodyLength { @tag(	007
)
char[ 65535
]
    string_
`u8 x,`,
    // @lengthOf(
    }")).
Eval vm_compute in ("<<<M1808>>>" ++ check (runes_of_ascii "options {
    Packet = zchar[3]
    u128 = zchar[42]
    a1 = '\x00';
    crc = 0;//	t
}")).
Eval vm_compute in ("<<<M1630>>>" ++ check (runes_of_ascii "packet A {
    B b `x
        `,
    B `x
        `,
    repeat B bs `x
        `,
}")).
Eval vm_compute in ("<<<M1215>>>" ++ check (runes_of_ascii "packet o { @tag(
// c
42 ) repeat x { char[ 0123456789 ] i64_ , } , } options { }")).
Eval vm_compute in ("<<<M1596>>>" ++ check (runes_of_ascii "MetaData Z9_ {
    //	t
    // " ++ [27880; 37322]%N ++ runes_of_ascii "
    u128 Foo,
    lengthOf uint8x `say ""hi""`,
}")).
Eval vm_compute in ("<<<M839>>>" ++ check (runes_of_ascii "packet A {
  match k as n {
    [1, 22, 007, 4, 5, 66, 7] : B
    2 : C
  },
}")).
Eval vm_compute in ("<<<M820>>>" ++ check (runes_of_ascii "packet A {
  match k as n {
    [1, 22, ""c c"", 4, 5] : B,
    2 : C
  },
}")).
Eval vm_compute in ("<<<M1327>>>" ++ check (runes_of_ascii "MetaData _x { zchar[ 4294967296 ] lengthOf `// not a comment` , } // c
")).
Eval vm_compute in ("<<<M793>>>" ++ check (runes_of_ascii "packet A {
  match k as n {
    [""a"", 22, ""c c""] : B
    2 : C
  },
}")).
Eval vm_compute in ("<<<M1988>>>" ++ check (runes_of_ascii "packet A{ Inner	{match
k
    as n
{
	[ 1]	:  B
, }
, 
}
    ,}
")).
Eval vm_compute in ("<<<M133>>>" ++ check (runes_of_ascii "packet string_ // `tick` ""quote"" 'q'
{ u
//
// " ++ [128512]%N ++ runes_of_ascii " emoji
, }
")).
Eval vm_compute in ("<<<M175>>>" ++ check (runes_of_ascii "packet
    A {
//	t
/// triple
repeat
char[] _x ,  }
")).
Eval vm_compute in ("<<<M1865>>>" ++ check (runes_of_ascii "packet A {
    u16 len @lengthOf(body) `d`,
}")).
Eval vm_compute in ("<<<M1107>>>" ++ check (runes_of_ascii "MetaData zchar
// c
{ zchar[ 3 ] Pad , }")).
Eval vm_compute in ("<<<M1629>>>" ++ check (runes_of_ascii "packet A {
    u8 x `a
    
    b`,
}")).
Eval vm_compute in ("<<<M957>>>" ++ check (runes_of_ascii "root packet A {
    u8 x `
x`,
}")).
Eval vm_compute in ("<<<M1002>>>" ++ check (runes_of_ascii "packet A {
 u8 x `d" ++ [8192]%N ++ runes_of_ascii "`, // c" ++ [8192]%N ++ runes_of_ascii "
}")).
Eval vm_compute in ("<<<M1605>>>" ++ check (runes_of_ascii "packet

    A {} 	 // c" ++ [8202]%N ++ runes_of_ascii "
")).
Eval vm_compute in ("<<<M1294>>>" ++ check (runes_of_ascii "// c
packet lengthOf { }")).
Eval vm_compute in ("<<<M1664>>>" ++ check (runes_of_ascii "

  packet
	A

{
	} ")).
Eval vm_compute in ("<<<M1016>>>" ++ check (runes_of_ascii "// c" ++ [8233]%N ++ runes_of_ascii "
packet A {
}")).
Eval vm_compute in ("<<<M1008>>>" ++ check (runes_of_ascii "packet A {
}// c" ++ [8232]%N)).
Eval vm_compute in ("<<<M1587>>>" ++ check (runes_of_ascii "options {
}")).
Eval vm_compute in ("<<<M1044>>>" ++ check (runes_of_ascii "// c" ++ [8203]%N)).
