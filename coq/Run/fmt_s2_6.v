From FP Require Import Lexer Parser ShowPT Digest Formatter.
From Coq Require Import String List NArith.
Import ListNotations.
Open Scope string_scope.
Set Printing Width 100000000.
Set Printing Depth 100000000.
Definition show_fres (r : fres) : string :=
  match r with
  | FOk s => "OK:" ++ sh_escaped s ""
  | FErr s => "ERR:" ++ sh_escaped s ""
  | FPanic p => "PANIC:" ++ p
  end.
Definition check (rs : list rune) : string := digest (show_fres (format_res rs)).
Definition full (rs : list rune) : string := show_fres (format_res rs).
Eval vm_compute in ("<<<M3874>>>" ++ check (runes_of_ascii "

  // `tick` ""quote"" 'q'

packet 
A

{@lengthOf(  msg_type  )repeat

int64
rootA 
  // " ++ [27880; 37322]%N ++ runes_of_ascii "
	// `tick` ""quote"" 'q'
	,  x
    ,
@calculatedFrom(	"""" 
)  //x
    x  @lengthOf( 	 // @lengthOf(

	trueish

    )  ,match  x
	as

    x_y_z  { ""a\""b""
: 	 // trailing space 
	  packetx}

    ,	packetx @calculatedFrom( 
""""
    )

`u8 x,` 
,float32
u128
	`crlf
line`

    ,	match x  as
T

    { [
""packet""	]

:

    body }
    , x_y_z

    @calculatedFrom(
    """"	) ,rootA	tag,
    } root packet 
body
// " ++ [27880; 37322]%N ++ runes_of_ascii "
    /// triple
  { @calculatedFrom( 
""a\\""

    )
    repeat

i8 metadata	,	@calculatedFrom(
    """ ++ [128512]%N ++ runes_of_ascii """ 
)
repeat 
pack  string_

,
@rightPad
( //x
	' '
    )char[
    10
] calculatedFrom	@lengthOf(	pack)`doc` ,
    @calculatedFrom(
""it's""  //	t
      ) 
repeat

    Packet {// " ++ [27880; 37322]%N ++ runes_of_ascii "
	match

options1  as
    body {

    ""\n""	:Foo
	, 3	:  //
    asx	, } , }

    ,@lengthOf(

    As )
float64 Logon	@calculatedFrom( """" )
        /// triple
	, i64_

{ match
	x_y_z as string_

    { 42:
	pack""\" ++ [233]%N ++ runes_of_ascii """	// " ++ [128512]%N ++ runes_of_ascii " emoji
:
    rootA

,
	255: 
lengthOf 4294967296:tag , 
}

,  }  ,	@tag(3 
) @tag( 7

    )
    @rightPad
    (

) repeat
        //x
//x
  uint64

u128
, 
int16

    packetx // " ++ [27880; 37322]%N ++ runes_of_ascii "
`" ++ [233]%N ++ runes_of_ascii "`
        // " ++ [27880; 37322]%N ++ runes_of_ascii "
  // c
	  , repeat

    metadata  
      //
  /// triple
    	len 

//x

	// trailing space 
,
}
    packet	rootA  {repeat	A	{

repeat
	T	{
roots@lengthOf(	i64_ 
) , 
u16
tag

@calculatedFrom(
""packet""  )
,

    string
    falsey	@calculatedFrom(
	""\n""
    ) 
,
match
	x

    as
    u8x 
    //	t
  // " ++ [27880; 37322]%N ++ runes_of_ascii "
	{
0// trailing space 
      :
	string_ ,  """" :	_x	""\" ++ [233]%N ++ runes_of_ascii """  /// triple
  	:  MetaDataX
	,

    }, 
} , } ,
    @calculatedFrom(
	""a\""b"" )

    repeat
i16	i8i8
,
    repeat
    float32  BodyLength `two words`

,@leftPad  (
	)

u32 
_x 	 // packet A { u8 x, }
		@calculatedFrom(""CRC32"" ),
@leftPad(
    ' ')  crc	@lengthOf( o )
`u8 x,`
,
@lengthOf(

Packet)  msg_type	Z9_ ,
	u 
{
repeat o  ,	} 
, }
packet rootA

    { repeat
    T	uint8x

,
	}  
      //	t
    	packet 
x_y_z
	{	@tag(255	// " ++ [128512]%N ++ runes_of_ascii " emoji
      )
	float64

lengthOf	,
@rightPad
	// " ++ [128512]%N ++ runes_of_ascii " emoji
	('0') len
@calculatedFrom( ""a\\""	)
    ,  uint32

    Logon  @calculatedFrom(

""`tick`""  //	t

  )`it's` 
, @rightPad
	(	)zchar[

00  ]

len

, @tag(	// packet A { u8 x, }

3

) char[ 255 
]

    Header 	 //x
      `{ , }`,  match 
Logon as

metadata	{ 
""{,}"" : 
pack , 
}  ,
}")).
Eval vm_compute in ("<<<M3726>>>" ++ check (runes_of_ascii "
root
	packet a1 {

repeat	zchar 
int 
, string u , string 
u8x @lengthOf(

msg_type 
)  ,
rootA

`it's`	, @tag(
	255
)  //x
    uint16 packetx @lengthOf(

    Z9_)

`it's`	,	@leftPad
    ('\x00' )	uint8 zchar,  @tag( 007
)@tag(  // trailing space 

  4294967296
    )

    trueish @lengthOf(	i64_ ) 
,
	uint8
	repeatCount 
`crlf
line`
,
    string metadata
    ,
match len
as 
metadata{

    0: 
Packet ,} ,} packet As 
{repeat 
i8 T
	,

pack  ,
    @lengthOf( stringy
    )
char[
	0]
    Pad
,repeat
    char[
	0]

    tag ,
    @lengthOf( roots
    )

uint16  
  // a // b

string_// " ++ [128512]%N ++ runes_of_ascii " emoji
@lengthOf(
	    // a // b
    zchar

)	`{ , }`  ,

    @lengthOf( a1 // " ++ [128512]%N ++ runes_of_ascii " emoji

)

repeat x_y_z
    {
int8	f32a
    , packetx { match
Header	as Packet { 
[ 

// @lengthOf(

// trailing space 
""it's"" ] :

    uint8x 
1
:u128

    ,""\" ++ [233]%N ++ runes_of_ascii """:
MetaDataX
	,
[

    ""a\\""
,1,""x y""  ] 
:
f32a
,
65535 :
BodyLength
,}
,
msg_type @calculatedFrom( ""abc"" ) 
//

`// not a comment` ,match

    chars
	as 
Header
    { 7

    :

x_y_z
	,  10
:matchKey/// triple
,

    ""x y"":	// " ++ [128512]%N ++ runes_of_ascii " emoji
	x_y_z ,
	007  : float	,  },  // a // b
uint8x 
u
,	}
,
repeat 
Foo
	{ //	t
    repeat
float64 
chars
, //x
  match len 
    //
  //x
  as 
Pad{ [
    ""\" ++ [233]%N ++ runes_of_ascii """

,
1

    ] :

    u8x

    , 10:

    i64_ [

""CRC32""] :Logon, [
    ""CRC32""
	, 
255

    ]
    : u8x , },

}
,}

,	@lengthOf( Packet	) @leftPad (
    '0'
)  @rightPad
	// c

()
zchar[ 3 
] 
uint8x  //
    ,
    match
    int  as
pack
	{ 
	// " ++ [128512]%N ++ runes_of_ascii " emoji
	[ 3] :  string_ ""a\""b""
:
	repeatCount,	007 :
	zchar	}
    ,
	repeat
uint8 lengthOf
`// not a comment` ,}
options  { Logon
	=
    ""packet""

// @lengthOf(
      // `tick` ""quote"" 'q'

rootA
=  //	t
    true packetx= false f32a=

    ""a\\""
	} root  packet 
u
	{

    repeat char[] body
, //
      @calculatedFrom(

    ""a\""b""

)	@lengthOf(Foo)A @calculatedFrom(
	""{,}"" ) 
,  }  options {trueish=
0
	charz  =
    ""abc""

}

")).
Eval vm_compute in ("<<<M3756>>>" ++ check (runes_of_ascii "  //x
  root

    packet

// `tick` ""quote"" 'q'

// `tick` ""quote"" 'q'
	i8i8
    {u128
{
repeat
lengthOf Foo	//
	`u8 x,`
    ,
MetaDataX falsey
`two words`, 
Pad{
    u8
	a1  @lengthOf(
leftPad

)
,

    }
	,
int 
@calculatedFrom(  // " ++ [128512]%N ++ runes_of_ascii " emoji
    ""a\\"" )
    `
`	, } ,

    Header
	Logon
	,	match	rootA 	 // c
	as  BodyLength
    // " ++ [27880; 37322]%N ++ runes_of_ascii "
	  {
	""" ++ [28040; 24687]%N ++ runes_of_ascii """ :	Pad [
""" ++ [233]%N ++ runes_of_ascii "t" ++ [233]%N ++ runes_of_ascii """,	1]:
    _x 
,
	},options1

    `crlf
line`  ,

    repeat
	u

    {match
i8i8 as
    falsey {	// `tick` ""quote"" 'q'
[ 42 ,
4294967296	]	:
    x_y_z
	,

42 :
float
, 

// `tick` ""quote"" 'q'
    // c
    3

:
packetx  ,	},}
	,
charz ,	} 
	    // a // b

root  packet float 
// @lengthOf(
    // c
    {repeat	_x	body
`say ""hi""` ,
	charz `// not a comment`, 
repeat lengthOf
    {
repeatCount

    {repeat
tag
    { zchar[

42 
]

// a // b
    // " ++ [27880; 37322]%N ++ runes_of_ascii "
	leftPad,
repeat
zchar[

0123456789]T 
`crlf
line`,char[]
trueish
    ,
zchar[
	007  // " ++ [128512]%N ++ runes_of_ascii " emoji
  ]
lengthOf
@lengthOf(

string_

)	`" ++ [233]%N ++ runes_of_ascii "`
    ,  }
	,
	repeat	int32
As
    ,
    int8 chars,i32 
calculatedFrom 
`it's`
	, } 	 /// triple
,
	zchar[  00 ]
chars 
``,}

,  char[ 
255
]
charz @calculatedFrom(
    ""1""

) `doc`
,  // packet A { u8 x, }
	match 
body as
rootA
{ 
""CRC32""
	: A	,
[ 
007 , ""{,}"" 
,

0// `tick` ""quote"" 'q'
    , 
""1"" ,
    0123456789

    , ""// no comment"" // " ++ [27880; 37322]%N ++ runes_of_ascii "

,""it's""
, 
1
	] : BodyLength

65535	: x_y_z
[ ""`tick`""
	] 
:	a1}  , repeat
    asx{
    char[ 0123456789 ] 
i64_
	`" ++ [28040; 24687; 31867; 22411]%N ++ runes_of_ascii "`  ,
} ,
@lengthOf(x_y_z
) pack@calculatedFrom( 
""" ++ [233]%N ++ runes_of_ascii "t" ++ [233]%N ++ runes_of_ascii """
) ,

@tag( 3

    // trailing space 
  //

	)repeat
    uint64  o ,// @lengthOf(
}
")).
Eval vm_compute in ("<<<M4259>>>" ++ check (runes_of_ascii "packet charz {
    match Packet as x_y_z {
        """" : f32a,
        [
            255, 4294967296, 0, 4294967296, 10,
            00
        ] : crc,
        ""{,}"" : Foo,
        65535 : Pad,
        10 : Logon,
    },
    repeat Foo {
        match tag as matchKey {
            [65535, 3] : body,
            10 : A,
            42 : body,
            007 : As,
            [""a\\""] : msg_type,
            [0123456789, 255] : msg_type,
        },
        u16 MetaDataX,
        o {
            match T as string_ {
                0 : trueish,
                3 : MetaDataX,
                //x
                ""packet"" : rootA,
                7 : o,
                [42, 0123456789, ""a\\"", ""a	b"", ""packet""] : f32a,
                [4294967296, 65535, ""a	b"", ""packet""] : falsey,
            },
        },
    },
    packetx u ``,
    @tag(42)
    u32 f32a ``,
    msg_type @lengthOf(matchKey) `{ , }`,
    @leftPad(' ')
    char[] asx @calculatedFrom(""" ++ [28040; 24687]%N ++ runes_of_ascii """),
    /// triple
    // " ++ [128512]%N ++ runes_of_ascii " emoji
    zchar[3] rootA,
    uint16 u8x `two words`,
    @rightPad('0')
    match zchar as repeatCount {
        ""a\\"" : T,
        ""a\\"" : As,
        [
            255, 4294967296, 00, 7, ""// no comment"",
            ""x y"", ""{,}"", ""it's""
        ] : leftPad,
        007 : zchar,
        ""a	b"" : falsey,
    },
}

options {
    lengthOf = '0'// a // b
}")).
Eval vm_compute in ("<<<M787>>>" ++ check (runes_of_ascii "  packet
    pack
    {
    BodyLength
    , @tag(0) repeat Z9_ options1 ,int32 packetx @calculatedFrom( ""it's"") ``
, @rightPad
(
) uint16 int
@calculatedFrom(""" ++ [233]%N ++ runes_of_ascii "t" ++ [233]%N ++ runes_of_ascii """ )  `a\`
,u32 Header // `tick` ""quote"" 'q'
@calculatedFrom(// c
""\" ++ [233]%N ++ runes_of_ascii """) `" ++ [233]%N ++ runes_of_ascii "` , //x
len
float `two words` // " ++ [27880; 37322]%N ++ runes_of_ascii "
, x ,
repeat//x
zchar[ 0] x_y_z
, }// packet A { u8 x, }
packet
    options1 { match x_y_z as u128
    {
    [""a\\"" ] : roots , [//x
10
, ""abc""] :
int , ""1"" :// c
i64_  ,7
:
    As ,""{,}""
:
    i8i8	,42  :
asx , } // packet A { u8 x, }
, } MetaData  rootA { Header T`{ , }` , }  root
// `tick` ""quote"" 'q'
// `tick` ""quote"" 'q'
packet len{  u8
// trailing space 
// `tick` ""quote"" 'q'
metadata @lengthOf(
// `tick` ""quote"" 'q'
// " ++ [128512]%N ++ runes_of_ascii " emoji
Packet)
, @calculatedFrom( ""a	b"" ) i8	i64_  `tab	here` , uint16 i64_	`u8 x,`  ,@calculatedFrom( ""`tick`"" ) repeat uint8 T
`u8 x,` , matchKey
{  match As
    as roots { ""\n"" :
a1 // " ++ [128512]%N ++ runes_of_ascii " emoji
} ,
chars @lengthOf( asx ) ,
}
, repeat
i8i8  { char[] Header `a\` ,o options1
// a // b
// trailing space 
, string
    Packet `it's` // " ++ [27880; 37322]%N ++ runes_of_ascii "
,
    // @lengthOf(
    } , } MetaData repeatCount { char[] Header`two words` , int16 f32a
    `u8 x,`  , tag zchar ,	Packet x `it's` ,} // packet A { u8 x, }")).
Eval vm_compute in ("<<<M830>>>" ++ check (runes_of_ascii "packet chars { float{ match
Header
    as stringy{ // a // b
1
: i64_
    ,65535  :
T
    ,
007
    :
    string_ , 00 : pack ,
}
    ,
    // @lengthOf(
    i16 int@calculatedFrom(
//	t
//x
""{,}""
),
char[ 255  ] trueish,
}
,
    repeat string_
    //	t
    { trueish {
match rootA as Logon
{
0
: metadata
10
: tag,
    },	matchKey {match
    tag as lengthOf	{[
""`tick`"" , 00] : Header , [ 4294967296 ]
    :
    tag , 4294967296
:
//
/// triple
leftPad
, [
""abc"",	65535 ,""a\""b""
    , // a // b
""// no comment""] : float ,},} // trailing space 
,/// triple
}, match BodyLength as	a1
    {	65535: A
255:	lengthOf ""\n""
: roots
, } ,	repeat repeatCount , charz trueish  `it's`
    ,	} // a // b
, char[]
    //
    tag @calculatedFrom( ""a\""b""
    ) ,@calculatedFrom(""// no comment""
)uint16 options1 `
`
    , } packet x_y_z
{ @calculatedFrom( """ ++ [28040; 24687]%N ++ runes_of_ascii """  ) @tag( 0 )
@lengthOf(
falsey
) zchar @calculatedFrom(
    ""x y"" )
, /// triple
float64 stringy @lengthOf(
    /// triple
    matchKey
// `tick` ""quote"" 'q'
//x
)// c
, string_  ,@leftPad ( )
    options1
repeatCount`" ++ [233]%N ++ runes_of_ascii "` , }	packet
    lengthOf
    {// packet A { u8 x, }
}
")).
Eval vm_compute in ("<<<M110>>>" ++ check (runes_of_ascii "//	t
packet// `tick` ""quote"" 'q'
crc {@tag( /// triple
10
) uint16/// triple
matchKey @calculatedFrom( ""\" ++ [233]%N ++ runes_of_ascii """ ) , @calculatedFrom(
""x y"" )
u16
    // a // b
    Packet  @calculatedFrom(""" ++ [233]%N ++ runes_of_ascii "t" ++ [233]%N ++ runes_of_ascii """) ,string Pad
    // @lengthOf(
    @lengthOf(  roots) ,//x
@tag( 42 ) repeat float{
    match
    // @lengthOf(
    roots
//	t
//
as Z9_
    { 42: packetx // c
, } // a // b
, Pad { pack , uint32 u, repeat Z9_ {
    packetx
float ,
    } , uint64 msg_type
    `it's` ,
} ,Header`" ++ [233]%N ++ runes_of_ascii "`
    , //	t
char[]stringy ,}	, match // packet A { u8 x, }
u as a1 //	t
{ [ 7
]// " ++ [27880; 37322]%N ++ runes_of_ascii "
:	zchar
    ,[255,""a\""b"",  0123456789 , 4294967296
    ,
1
,
    42, 0 ]
:Foo
    [  ""{,}"" ] : a1 , ""// no comment""
    :
A ,0
    : u8x, 255 : Packet
}	, repeat i64 chars ,
repeat char[ 0123456789 ]repeatCount
,
body  Foo, @calculatedFrom(
""\n""
    )char[]
int
    @lengthOf(	len
    )  , @tag( 3) char[]
A
`doc`
    ,
}
packet a1  { @rightPad( '0'  )
    // `tick` ""quote"" 'q'
    float // a // b
@lengthOf(
stringy
    ) `doc`
,} options
    {	As	= 7 crc = ""{,}""
    u =""it's"" zchar= '\x00'
}
")).
Eval vm_compute in ("<<<M3210>>>" ++ check (runes_of_ascii "// top
root
    // c0
packet // c1a
  // c1b
msg_type // c2a
  // c2b
{ // c3
i64 // c4
options1 // c5a
  // c5b
,
    // c6
@lengthOf( // c7a
  // c7b
f32a // c8
) // c9
repeat // c10
uint16
    // c11
Foo
    // c12
, // c13a
  // c13b
@calculatedFrom(
    // c14
""x y""
    // c15
) // c16a
  // c16b
repeat int64 // c18a
  // c18b
pack // c19a
  // c19b
, // c20a
  // c20b
@leftPad // c21
(
    // c22
' '
    // c23
) // c24a
  // c24b
uint8
    // c25
Foo , }
    // c28
packet rootA // c30a
  // c30b
{ // c31
f32a // c32a
  // c32b
x
    // c33
`two words` // c34
, char // c36
asx // c37a
  // c37b
@lengthOf(
    // c38
falsey // c39a
  // c39b
) // c40a
  // c40b
`u8 x,` // c41a
  // c41b
, // c42
@lengthOf( i64_
    // c44
)
    // c45
uint16 // c46
chars // c47a
  // c47b
, // c48
@tag( // c49a
  // c49b
0 // c50a
  // c50b
) string
    // c52
_x
    // c53
@calculatedFrom(
    // c54
""abc""
    // c55
) // c56a
  // c56b
`// not a comment`
    // c57
, // c58
} // c59a
  // c59b
")).
Eval vm_compute in ("<<<M3539>>>" ++ check (runes_of_ascii "options {
    StringPrefixLenType = u8;
    ArrayPrefixLenType = u32;
    FixedStringPadFromLeft = false;
    FixedStringPadChar = ' ';
}
packet Party {
    repeat i16 Qty,
    repeat string Tail,
    i8 OrderId,
    i8 msgKind,
}
packet Ack {
    Party,
    repeat InRef20 {
        Party,
        int8 tag7,
        char[5] OrderId,
        zchar[7] Tail,
        char[] count,
        InPrice45 {
            Party,
            char[1] Px,
        },
    },
    char[12] price,
    int8 sym,
}
packet Reject {
    repeat InPrice47 {
        Party,
    },
    zchar[4] x,
    repeat Ack,
    zchar[2] Ref,
    repeat Party,
}
packet Cancel {
    Reject,
    repeat string f1,
    uint16 OrderId,
    u8 Acct,
    int8 msgKind,
}
root packet Fill {
    u8 count,
    char[] tag7,
    zchar[7] Acct,
    u32 OrderId,
    u32 Note @lengthOf(Body),
    match OrderId as Body {
        106 : Cancel,
        196 : Reject,
        74 : Party,
        75 : Ack,
    },
}
")).
Eval vm_compute in ("<<<M3865>>>" ++ check (runes_of_ascii "

  packet chars 
{@leftPad (
'0'

    ) char[] MetaDataX@lengthOf(  Foo ) 
,
	@lengthOf( 
chars	) repeat
    BodyLength
// `tick` ""quote"" 'q'
,
    @lengthOf(  MetaDataX )  @lengthOf(
A 
) uint8x// trailing space 
	{
	u16 
Pad @lengthOf(
    // a // b
    /// triple
charz  ) 
`line1
line2` 
, i64_
    {

match
i8i8 	 /// triple
    as
i8i8
{  7  : calculatedFrom 255
	:	x_y_z

,
0123456789

:

    rootA 
""packet""

    :string_,0123456789: chars

, }
        //x

// " ++ [27880; 37322]%N ++ runes_of_ascii "
	, } ,

    }
	, zchar[ 3
] Header`two words`, i32 o,
@tag(4294967296

) pack `` ,
    repeatCount

{

    i8  // " ++ [128512]%N ++ runes_of_ascii " emoji
	i64_
    `
`	,
asx i64_	,crc  {repeat

zchar[ 
255]

repeatCount  // c

,
repeat

uint8 Packet  ,	char  leftPad
// packet A { u8 x, }
		// `tick` ""quote"" 'q'

	,uint32
lengthOf @lengthOf(
charz  ),	} 	 /// triple
	,
},
    leftPad`` ,repeat int16 
Pad 
  //x
, repeat

    u
	matchKey ,  }")).
Eval vm_compute in ("<<<M3264>>>" ++ check (runes_of_ascii "// top
options
    // c0
{
    // c1
chars
    // c2
=
    // c3
""a\\""
    // c4
}
    // c5
packet
    // c6
Z9_
    // c7
{
    // c8
match
    // c9
BodyLength
    // c10
as
    // c11
roots
    // c12
{
    // c13
""" ++ [28040; 24687]%N ++ runes_of_ascii """
    // c14
:
    // c15
falsey
    // c16
,
    // c17
00
    // c18
:
    // c19
u128
    // c20
0
    // c21
:
    // c22
len
    // c23
,
    // c24
007
    // c25
:
    // c26
f32a
    // c27
}
    // c28
,
    // c29
@tag(
    // c30
3
    // c31
)
    // c32
@calculatedFrom(
    // c33
""`tick`""
    // c34
)
    // c35
@leftPad
    // c36
(
    // c37
' '
    // c38
)
    // c39
string
    // c40
asx
    // c41
,
    // c42
string
    // c43
u
    // c44
@lengthOf(
    // c45
options1
    // c46
)
    // c47
,
    // c48
float32
    // c49
i64_
    // c50
@calculatedFrom(
    // c51
""a\""b""
    // c52
)
    // c53
,
    // c54
}
    // c55
")).
Eval vm_compute in ("<<<M4144>>>" ++ check (runes_of_ascii "packet trueish {
    char[7] chars @calculatedFrom(""" ++ [128512]%N ++ runes_of_ascii """),
    char[] uint8x @calculatedFrom(""`tick`"") `
    `,
    int16 metadata @calculatedFrom(""" ++ [128512]%N ++ runes_of_ascii """) `doc`,
    pack @lengthOf(stringy),
    u8 float @lengthOf(leftPad),
    @lengthOf(chars)
    f32a trueish,
    repeat zchar[4294967296] u,
    @leftPad(' ')
    @lengthOf(leftPad)
    @tag(7)
    repeat string u128,
}

packet Header {
    u64 leftPad,
    @lengthOf(u128)
    repeat uint32 T,
    @tag(4294967296)
    repeat uint32 x_y_z ``,
    T,
    @tag(1)
    zchar[7] Packet @lengthOf(f32a),// trailing space 
    float32 lengthOf,// packet A { u8 x, }
    i32 calculatedFrom `crlf
    line`,
    @tag(0123456789)
    @tag(1)
    @calculatedFrom(""" ++ [128512]%N ++ runes_of_ascii """)
    float32 lengthOf @calculatedFrom(""\n"") `" ++ [233]%N ++ runes_of_ascii "`,
    zchar[007] zchar @calculatedFrom(""abc"") `" ++ [28040; 24687; 31867; 22411]%N ++ runes_of_ascii "`,
    int32 roots,
}")).
Eval vm_compute in ("<<<M3802>>>" ++ check (runes_of_ascii "packet a1 {
    @lengthOf(packetx)
    A @lengthOf(T) `tab	here`,
    zchar[42] Header,// " ++ [128512]%N ++ runes_of_ascii " emoji
    @leftPad('0')
    match o as int {
        1 : Logon,
    },
    repeat packetx `line1
        line2`,
    string x @calculatedFrom(""CRC32""),
    i8 repeatCount `// not a comment`,
    match i64_ as x_y_z {
        3 : len,
        4294967296 : u8x,
        00 : crc,
        [
            10, 007, 3, 00, 0123456789,
            0123456789, """ ++ [128512]%N ++ runes_of_ascii """
        ] : tag,
        42 : repeatCount,
    },
    @lengthOf(f32a)
    @lengthOf(stringy)
    @calculatedFrom(""\" ++ [233]%N ++ runes_of_ascii """)
    repeat i64 As,
    @rightPad()
    repeat leftPad {
        uint32 crc @calculatedFrom(""" ++ [233]%N ++ runes_of_ascii "t" ++ [233]%N ++ runes_of_ascii """),
    },
}

MetaData Pad {
    As pack,
}

root packet len {
    @calculatedFrom(""\" ++ [233]%N ++ runes_of_ascii """)
    int64 a1 @calculatedFrom(""CRC32""),
}")).
Eval vm_compute in ("<<<M3867>>>" ++ check (runes_of_ascii "MetaData msg_type {
    string charz,
    crc u8x,
    u16 x_y_z `u8 x,`,
    i64 zchar,
}

// @lengthOf(
packet T {
    @calculatedFrom(""a\\"")
    uint16 chars @calculatedFrom(""x y"") `
    `,
}

packet pack {
}

options {
}

packet trueish {
    @calculatedFrom(""abc"")
    match chars as lengthOf {
        [4294967296] : a1,
        [
            7, 4294967296, 0, 65535, ""CRC32"",
            ""1"", ""a\\"", ""{,}""
        ] : a1,
    },
    string lengthOf `" ++ [28040; 24687; 31867; 22411]%N ++ runes_of_ascii "`,
    @lengthOf(x)
    match charz as a1 {
        255 : Logon,
    },
    @calculatedFrom(""a	b"")
    @tag(00)
    @lengthOf(zchar)
    body @lengthOf(msg_type),
    MetaDataX @lengthOf(len) `a\`,
    @rightPad('\x00')
    @lengthOf(Packet)
    string u128 `u8 x,`,
    packetx @lengthOf(o),
}")).
Eval vm_compute in ("<<<M628>>>" ++ check (runes_of_ascii "root packet _x { //	t
uint16
_x, @tag( 7 ) repeat uint32 crc `line1
line2`,match stringy as packetx
{  255 : len , 255 //x
:A ,
    1 :
    //
    Z9_,
""it's""
    // trailing space 
    :
body[
""{,}"" , ""packet"" // trailing space 
, 0, ""\n"" ]:
// `tick` ""quote"" 'q'
// `tick` ""quote"" 'q'
x , }
,repeat
    uint32
Logon `tab	here` ,} packet string_
    { string asx @lengthOf( float )
// c
// packet A { u8 x, }
,@calculatedFrom(	""a\\""
) match	chars as x { 42 : A
    , """ ++ [28040; 24687]%N ++ runes_of_ascii """
    : T ""a\\"" : tag //
, 3 // trailing space 
: i8i8
[ 255 ] :MetaDataX /// triple
,} ,
float64 zchar	,@lengthOf( calculatedFrom )int
falsey ,
i16 Packet @calculatedFrom(
    ""// no comment"") `say ""hi""`
    ,@lengthOf( rootA
)trueish ,}")).
Eval vm_compute in ("<<<M284>>>" ++ check (runes_of_ascii "packet Pad
{char[ 007] string_ ,// @lengthOf(
@lengthOf( zchar
)string rootA
, @lengthOf(T ) char trueish @lengthOf(
    zchar
) `line1
line2`, repeat f64 calculatedFrom , @calculatedFrom(""it's"" ) leftPad
    `it's`
    , stringy{
int8 Packet @lengthOf( metadata
)
`tab	here`
    ,
A ,
    match charz as uint8x{ 3
:  MetaDataX ,
    1
    :
    //	t
    charz ""a	b""
    :
    //x
    msg_type	,
    //x
    [
0 , 10 , ""// no comment"" ,""\" ++ [233]%N ++ runes_of_ascii """
] : A , // @lengthOf(
""\n"" :
trueish , },	},
    @calculatedFrom( ""a\\"")
char[ 7 ] u @calculatedFrom( ""a\\""),
    //	t
    @tag(	7) o
{	As `it's`	,} ,} packet u	{
}packet stringy {
@tag(0123456789 )string pack @lengthOf( Pad), }")).
Eval vm_compute in ("<<<M3606>>>" ++ check (runes_of_ascii "  options { 
Packet = string
} root 
    //	t
    	packet	trueish

{ // a // b
@calculatedFrom( 
""packet"") i64 trueish
`// not a comment`
    , match
MetaDataX as  rootA 
        // trailing space 
// a // b
    {
[
""packet""
	,
    """ ++ [28040; 24687]%N ++ runes_of_ascii """	, // " ++ [27880; 37322]%N ++ runes_of_ascii "
    	42]
    :

uint8x 0123456789 
    // a // b

	:
int  
      // trailing space 

	//x
,} ,  @rightPad (  '0' )
match 
metadata
	as 
uint8x {	255: 
len 0 :Packet 
,
    ""a\""b"": i8i8	,} /// triple

  ,
match

    msg_type
as

repeatCount {
""CRC32"":

x_y_z
    , 
[

""a	b""
,

    ""\" ++ [233]%N ++ runes_of_ascii """,

    7, 
""it's"",	1
    ,

7 
]:
	    // c
	  // trailing space 
  As// @lengthOf(
  ,

}
,
	} ")).
Eval vm_compute in ("<<<M597>>>" ++ check (runes_of_ascii "  options{} root packet A
{ @rightPad
(
) @lengthOf(u128 ) @calculatedFrom(
    ""\" ++ [233]%N ++ runes_of_ascii """ ) repeat u {string body
,
zchar @lengthOf( roots
)// " ++ [27880; 37322]%N ++ runes_of_ascii "
,
// @lengthOf(
// @lengthOf(
uint64
Pad,// `tick` ""quote"" 'q'
repeat metadata
, } ,@tag(3 )	Pad
@calculatedFrom( ""a\""b""
    ) `two words` , @leftPad ( '\x00' ) T x`crlf
line` ,
    match BodyLength as crc
{	[  007 ]
:
    uint8x,
00 :u
""a\""b"" :
    tag , 00 :	options1 //	t
, ""\" ++ [233]%N ++ runes_of_ascii """ :trueish	,[  65535 , ""x y"" ,
"""" ,
// packet A { u8 x, }
// @lengthOf(
3 ] : float,
} ,} options{ x_y_z // " ++ [128512]%N ++ runes_of_ascii " emoji
=
    42
    //
    }
    options {
zchar
    = false /// triple
; }
")).
Eval vm_compute in ("<<<M460>>>" ++ check (runes_of_ascii "  options// `tick` ""quote"" 'q'
{}	MetaData falsey {	rootA
calculatedFrom
,float32 a1
`u8 x,`
    ,} packet MetaDataX
//x
// trailing space 
{repeat
roots Z9_ , int16
    // `tick` ""quote"" 'q'
    lengthOf
`" ++ [233]%N ++ runes_of_ascii "` ,string MetaDataX
,@lengthOf(
    // @lengthOf(
    rootA ) repeat options1
{
    Pad o `
` ,// c
} , @tag( 0	)
@leftPad ( '\x00' ) char As
    , uint16
// " ++ [27880; 37322]%N ++ runes_of_ascii "
// packet A { u8 x, }
i64_ @lengthOf( i64_ ) `line1
line2`
    , @lengthOf( uint8x
)
Packet { int32 As , u64 falsey , repeat matchKey{ int i64_ ,
}  , }, @tag( 3
    )
char[] options1 @lengthOf(	Header ) ,}")).
Eval vm_compute in ("<<<M448>>>" ++ check (runes_of_ascii "packet int{ @rightPad (
) @lengthOf(	zchar )
    @tag(
7 ) repeat pack ,
    match f32a as
    // @lengthOf(
    float {255: Foo 7 :Pad
[ ""it's"" , 007
    ,
    // `tick` ""quote"" 'q'
    """", ""x y"" ,
""packet"", ""a	b"" ]	: As
    ,4294967296 : Packet ,""" ++ [28040; 24687]%N ++ runes_of_ascii """ : i64_ , } ,char[] Foo@lengthOf(	u8x )
`it's`
,
    @tag( 007 ) u64 Packet , } options { u128
    = ""packet""
//	t
// packet A { u8 x, }
}root
packet leftPad{
    //	t
    } root packet msg_type
{ // packet A { u8 x, }
@leftPad
    (
'0' ) uint64 a1 // " ++ [128512]%N ++ runes_of_ascii " emoji
, }
// `tick` ""quote"" 'q'
")).
Eval vm_compute in ("<<<M159>>>" ++ check (runes_of_ascii "packet BodyLength
    { repeat string As `{ , }`
,	@tag(4294967296 ) match Pad as
lengthOf { //	t
007	: // `tick` ""quote"" 'q'
i8i8 /// triple
,""a\""b"": //x
msg_type,	}, repeat
    uint32 Z9_ , @tag( 00 )// `tick` ""quote"" 'q'
charz
    , string
    // trailing space 
    i8i8 // packet A { u8 x, }
@lengthOf( BodyLength ) ,@calculatedFrom(
    ""{,}""  )
    // a // b
    @leftPad// " ++ [27880; 37322]%N ++ runes_of_ascii "
( )
leftPad metadata  ,
//
// " ++ [128512]%N ++ runes_of_ascii " emoji
string i8i8 ``
    , uint64 trueish@calculatedFrom(
""1""
/// triple
// " ++ [27880; 37322]%N ++ runes_of_ascii "
) `
`, }")).
Eval vm_compute in ("<<<M4127>>>" ++ check (runes_of_ascii "root packet metadata {
    repeat zchar[255] matchKey `line1
    line2`,
    @tag(0)
    // " ++ [128512]%N ++ runes_of_ascii " emoji
    match A as msg_type {
        ""packet"" : len,
        255 : roots,
        """ ++ [233]%N ++ runes_of_ascii "t" ++ [233]%N ++ runes_of_ascii """ : leftPad,
        ""CRC32"" : Z9_,
        //	t
    },
    @leftPad(' ')
    char[] Logon,//x
    char[3] T `{ , }`,
    uint64 metadata @calculatedFrom(""1""),
    @rightPad()
    match u as len {
        [""\" ++ [233]%N ++ runes_of_ascii """, ""1""] : f32a,
    },
    u128 falsey,
    @calculatedFrom(""" ++ [28040; 24687]%N ++ runes_of_ascii """)
    As @lengthOf(falsey),
}")).
Eval vm_compute in ("<<<M4314>>>" ++ check (runes_of_ascii "options {
    A = 4294967296
    body = 0
    tag = ""// no comment"";
    Packet = 00;
}

root packet leftPad {
}

root packet rootA {
    repeat charz {
        repeatCount {
            a1 {
                repeat uint32 stringy ``,
            },
            /// triple
            zchar[65535] tag,
            i64_ metadata,
            a1 {
                repeat zchar[3] Foo `two words`,
            },
        },
        string a1 @lengthOf(float),
    },
}")).
Eval vm_compute in ("<<<M4323>>>" ++ check (runes_of_ascii "packet Pad {
    @lengthOf(len)
    zchar[10] int `a\`,
    @tag(007)
    string leftPad @lengthOf(string_),
    char[0123456789] len,
    u32 crc `two words`,
}

root packet u128 {
    zchar[00] A @calculatedFrom(""\" ++ [233]%N ++ runes_of_ascii """) `line1
        line2`,
    @tag(10)
    char[] len `" ++ [28040; 24687; 31867; 22411]%N ++ runes_of_ascii "`,
    @leftPad()
    @lengthOf(A)
    match crc as msg_type {
        7 : trueish,
    },
    @leftPad('0')
    f32a @calculatedFrom(""// no comment"") `crlf
        line`,
}")).
Eval vm_compute in ("<<<M3837>>>" ++ check (runes_of_ascii "packet Pad {
    i16 A @calculatedFrom(""a\""b""),
}

packet roots {
    @tag(65535)
    repeat f32a {
        char[00] a1 @calculatedFrom(""a\\""),
        float32 x_y_z,
        len {
            // `tick` ""quote"" 'q'
            // c
            stringy u8x `
                        `,
        },
        f32 Foo @calculatedFrom(""a\""b""),
    },
    @calculatedFrom(""1"")
    u64 calculatedFrom,
    u32 u8x,
    u32 calculatedFrom ``,
}")).
Eval vm_compute in ("<<<M467>>>" ++ check (runes_of_ascii "root/// triple
packet//	t
options1 { float64 u128`" ++ [28040; 24687; 31867; 22411]%N ++ runes_of_ascii "`// a // b
,	@tag(  0 ) //	t
match int as
    float { 4294967296 //
:	metadata, ""a\\"" : x// packet A { u8 x, }
, 3
: u
    // packet A { u8 x, }
    ,
// c
// " ++ [128512]%N ++ runes_of_ascii " emoji
0 :falsey } ,
    } options
// @lengthOf(
//x
{
    As
// " ++ [128512]%N ++ runes_of_ascii " emoji
//
=
// a // b
// `tick` ""quote"" 'q'
float64 ;
//	t
//	t
Logon	=""// no comment"" ; float = char[255 ] string_ =
007;  u = '\x00' }
")).
Eval vm_compute in ("<<<M3472>>>" ++ check (runes_of_ascii "// top
packet // c0a
  // c0b
A { // c2
u8 // c3a
  // c3b
a
    // c4
, // c5
} // c6a
  // c6b
packet B // c8a
  // c8b
{
    // c9
u16 b // c11
, // c12a
  // c12b
} root // c14
packet // c15
P { // c17
u8 // c18a
  // c18b
K , // c20
match // c21
K
    // c22
as // c23
M { // c25
1
    // c26
: // c27a
  // c27b
A // c28
, 1 // c30
: B // c32a
  // c32b
, // c33a
  // c33b
} // c34
, // c35
} ")).
Eval vm_compute in ("<<<M3288>>>" ++ check (runes_of_ascii "// top
packet
    // c0
u128 // c1
{ // c2
@lengthOf(
    // c3
body // c4a
  // c4b
) // c5
match // c6
x_y_z // c7
as
    // c8
u // c9
{ // c10a
  // c10b
""x y"" : // c12a
  // c12b
i8i8 , // c14a
  // c14b
} // c15a
  // c15b
,
    // c16
@tag(
    // c17
255 // c18
)
    // c19
char[] // c20
roots // c21a
  // c21b
@lengthOf( int
    // c23
)
    // c24
, // c25
} // c26
")).
Eval vm_compute in ("<<<M4150>>>" ++ check (runes_of_ascii "packet int {
    string crc `{ , }`,
    repeat uint8 roots `doc`,
    u32 Logon `
    `,
}

packet x_y_z {
    metadata {
        Pad @calculatedFrom(""it's"") `crlf
        line`,
        char[] asx,
        Z9_ @lengthOf(x) `two words`,
    },
    tag x_y_z `it's`,
    @calculatedFrom(""a	b"")
    @calculatedFrom(""{,}"")
    @rightPad('\x00')
    int64 packetx ``,
}")).
Eval vm_compute in ("<<<M1351>>>" ++ check (runes_of_ascii "packet  rootA
    // `tick` ""quote"" 'q'
    { leftPad @calculatedFrom( ""`tick`""),
    } root // trailing space 
packet zchar {
    char[	3 ] Packet ,	@tag( 3 ) zchar[ 00 ] lengthOf , repeat u128 {
repeat int64 A ,/// triple
}
    ,  @leftPad ( '0' )
@lengthOf( u
//	t
// c
) @lengthOf(	repeatCount  ) asx {
repeat int `" ++ [233]%N ++ runes_of_ascii "`,	zchar[ 3
] u128
,} , }

")).
Eval vm_compute in ("<<<M4146>>>" ++ check (runes_of_ascii "
packet calculatedFrom
{int16  asx @calculatedFrom( """"
) ,
    @calculatedFrom(""1""  ) 
i8i8
{

i32
    stringy @calculatedFrom(""a	b""
)  `say ""hi""`	, i32 	 //x
	uint8x , match Header
    as Logon {
00
:	A,
    },	match

// `tick` ""quote"" 'q'
repeatCount as
	Packet
	{""packet""
:
	// trailing space 
	MetaDataX """ ++ [28040; 24687]%N ++ runes_of_ascii """:
u 
, }	,  },
}

")).
Eval vm_compute in ("<<<M3869>>>" ++ check (runes_of_ascii "MetaData packetx {
    float64 _x,
    msg_type calculatedFrom `say ""hi""`,
    metadata Foo `a\`,
    falsey asx `two words`,
    char[4294967296] calculatedFrom,
    int32 options1,
}

options {
    crc = '\x00';
    charz = ""it's"";
    BodyLength = ""\" ++ [233]%N ++ runes_of_ascii """
    body = int8;
}

MetaData len {
    char[42] Logon `tab	here`,
}")).
Eval vm_compute in ("<<<M3291>>>" ++ check (runes_of_ascii "// top
packet // c0a
  // c0b
o // c1
{ // c2a
  // c2b
@tag( // c3a
  // c3b
42 // c4a
  // c4b
)
    // c5
repeat
    // c6
x { char[ // c9a
  // c9b
0123456789 // c10
] // c11a
  // c11b
i64_ // c12a
  // c12b
,
    // c13
} ,
    // c15
} options // c17a
  // c17b
{ // c18a
  // c18b
} // c19a
  // c19b
")).
Eval vm_compute in ("<<<M1495>>>" ++ check (runes_of_ascii "root packet Foo // " ++ [128512]%N ++ runes_of_ascii " emoji
{ } options {
    // a // b
    tag // `tick` ""quote"" 'q'
= //	t
""""
    ; u8x = zchar[0  ] }
MetaData MetaData
    int {zchar[ 10]
lengthOf	`` , i64 u8x`// not a comment` ,MetaDataX pack// `tick` ""quote"" 'q'
`crlf
line`
, Logon charz `crlf
line`
    ,
    // a // b
    }
")).
Eval vm_compute in ("<<<M1612>>>" ++ check (runes_of_ascii "root packet Foo // " ++ [128512]%N ++ runes_of_ascii " emoji
{ } options {
    // a // b
    tag // `tick` ""quote"" 'q'
= //	t
""""
    ; u8x = zchar[0  ] }
MetaData
    int {'1' zchar[ 10]
lengthOf	`` , i64 u8x`// not a comment` ,MetaDataX pack// `tick` ""quote"" 'q'
`crlf
line`
, Logon charz `crlf
line`
    ,
    // a // b
    }
")).
Eval vm_compute in ("<<<M1547>>>" ++ check (runes_of_ascii "root packet Foo // " ++ [128512]%N ++ runes_of_ascii " emoji
{ } options {
    // a // b
    tag // `tick` ""quote"" 'q'
= //	t
""""
    ; u8x = zchar[0  ] }
MetaData
    int {zchar[ 10]
lengthOf	`` , i64 65535`// not a comment` ,MetaDataX pack// `tick` ""quote"" 'q'
`crlf
line`
, Logon charz `crlf
line`
    ,
    // a // b
    }
")).
Eval vm_compute in ("<<<M1436>>>" ++ check (runes_of_ascii "root packet Foo // " ++ [128512]%N ++ runes_of_ascii " emoji
{ } { options
    // a // b
    tag // `tick` ""quote"" 'q'
= //	t
""""
    ; u8x = zchar[0  ] }
MetaData
    int {zchar[ 10]
lengthOf	`` , i64 u8x`// not a comment` ,MetaDataX pack// `tick` ""quote"" 'q'
`crlf
line`
, Logon charz `crlf
line`
    ,
    // a // b
    }
")).
Eval vm_compute in ("<<<M1596>>>" ++ check (runes_of_ascii "root packet Foo // " ++ [128512]%N ++ runes_of_ascii " emoji
{ } options {
    // a // b
    tag // `tick` ""quote"" 'q'
= //	t
""""
    ; u8x = zchar[0  ] }
MetaData
    int {zchar[ 10]
lengthOf	`` , i64 u8x`// not a comment` ,MetaDataX pack// `tick` ""quote"" 'q'
`crlf
line`
, Logon charz `crlf
line`
    }
    // a // b
    ,
")).
Eval vm_compute in ("<<<M655>>>" ++ check (runes_of_ascii "
packet Z9_
{ i8 x_y_z @lengthOf( u128 // packet A { u8 x, }
)	, }packet stringy
{
@rightPad ( '0'
) match repeatCount
as Foo
    {007 : float
    }
,@tag( 0 )repeat	zchar[ 4294967296 ] zchar `" ++ [233]%N ++ runes_of_ascii "` ,
}MetaData roots {  u8x Pad
`u8 x,` , uint8 packetx
,
/// triple
// packet A { u8 x, }
}
")).
Eval vm_compute in ("<<<M1122>>>" ++ check (runes_of_ascii "root packet u8x { Packet	{
    repeat i32 tag , } , match  A
    as Logon {00: _x
, } , int8 i8i8
@lengthOf( metadata
) ,	string
lengthOf `
`	,
float32	calculatedFrom
`two words`,}packet a1
{
Pad rootA , }  MetaData crc { char[ 007	] As`a\` ,
u8x
metadata  , roots lengthOf
    ,	}
")).
Eval vm_compute in ("<<<M3623>>>" ++ check (runes_of_ascii "

  // top
  packet 	 // c0
	o// c1
  	{// c2
@tag( 	 // c3
42	// c4
  	) 	 // c5
    repeat	// c6
x  // c7
  	{ // c8
	char[ // c9

  0123456789 // c10
    	] // c11
i64_ // c12
, // c13
    } 	 // c14
  , 	 // c15
	} 	 // c16
options 	 // c17
    { // c18
	}	// c19")).
Eval vm_compute in ("<<<M560>>>" ++ check (runes_of_ascii "options { lengthOf
    = 7 u8x // " ++ [27880; 37322]%N ++ runes_of_ascii "
= true  ;
matchKey =
65535 ;// trailing space 
As // " ++ [27880; 37322]%N ++ runes_of_ascii "
=
    4294967296
    ;
    packetx
=
    true
    ;}packet
Foo {@lengthOf( u8x /// triple
) float32 trueish , repeat
char[] crc// " ++ [128512]%N ++ runes_of_ascii " emoji
, repeat int,} packet As { }
")).
Eval vm_compute in ("<<<M1593>>>" ++ check (runes_of_ascii "root packet Foo // " ++ [128512]%N ++ runes_of_ascii " emoji
{ } options {
    // a // b
    tag // `tick` ""quote"" 'q'
= //	t
""""
    ; u8x = zchar[0  ] }
MetaData
    int {zchar[ 10]
lengthOf	`` , i64 u8x`// not a comment` ,MetaDataX pack// `tick` ""quote"" 'q'
`crlf
line`
, Logon charz")).
Eval vm_compute in ("<<<M352>>>" ++ check (runes_of_ascii "
root packet
    // `tick` ""quote"" 'q'
    BodyLength { metadata
/// triple
// `tick` ""quote"" 'q'
{
calculatedFrom,zchar[ 007 ] msg_type@lengthOf( int )
`say ""hi""` , chars uint8x , string
As @calculatedFrom( ""a	b""
)`
` ,/// triple
} ,  }
")).
Eval vm_compute in ("<<<M4046>>>" ++ check (runes_of_ascii "MetaData charz{
zchar[ 00
    ]leftPad
	`tab	here`	,

    zchar[	//x
    007 ] // " ++ [27880; 37322]%N ++ runes_of_ascii "
    	matchKey , crc matchKey	,
char[1
// " ++ [27880; 37322]%N ++ runes_of_ascii "
// a // b
  	] 
	    // `tick` ""quote"" 'q'
  //	t
x_y_z
    ,
	string_ matchKey	`say ""hi""`

,	}
")).
Eval vm_compute in ("<<<M2308>>>" ++ check (runes_of_ascii "MetaData Packet { }packet	asx  { @lengthOf( asx) falsey`crlf
line`
,
    }
    packet x	{uint32// @lengthOf(
rootA	@lengthOf(u32 options1 `say ""hi""` , @tag( 7
    )// packet A { u8 x, }
msg_type @lengthOf(
stringy	)	, }

")).
Eval vm_compute in ("<<<M890>>>" ++ check (runes_of_ascii "MetaData pack
{
    f64 msg_type ,
    zchar[4294967296
    ] Z9_
, repeatCount chars `two words`, // " ++ [27880; 37322]%N ++ runes_of_ascii "
} packet options1 {}
packet options1// " ++ [128512]%N ++ runes_of_ascii " emoji
{ u128
// trailing space 
/// triple
A
    ,  repeatCount tag , }
")).
Eval vm_compute in ("<<<M2306>>>" ++ check (runes_of_ascii "MetaData Packet { }packet	asx  { @lengthOf( asx) falsey`crlf
line`
,
    }
    packet x	{uint32// @lengthOf(
rootA	, ,u32 options1 `say ""hi""` , @tag( 7
    )// packet A { u8 x, }
msg_type @lengthOf(
stringy	)	, }

")).
Eval vm_compute in ("<<<M2222>>>" ++ check (runes_of_ascii "MetaData Packet } {packet	asx  { @lengthOf( asx) falsey`crlf
line`
,
    }
    packet x	{uint32// @lengthOf(
rootA	,u32 options1 `say ""hi""` , @tag( 7
    )// packet A { u8 x, }
msg_type @lengthOf(
stringy	)	, }

")).
Eval vm_compute in ("<<<M1215>>>" ++ check (runes_of_ascii "packet lengthOf {
repeat  lengthOf {
    charz `
` , string
stringy,a1{	BodyLength , }
, }
    , pack Logon,	@rightPad (  ) zchar[007
]
x , } packet	Header  {@calculatedFrom( """ ++ [128512]%N ++ runes_of_ascii """
    ) Logon`it's` ,} options { }")).
Eval vm_compute in ("<<<M1002>>>" ++ check (runes_of_ascii "options
    {roots =
    uint8 ;
    asx= ' '
    // a // b
    ; }
options
    // a // b
    { }root packet  Packet { @lengthOf(T )@calculatedFrom(""abc""  ) @calculatedFrom( ""1"" )A // c
lengthOf, }
/// triple
")).
Eval vm_compute in ("<<<M839>>>" ++ check (runes_of_ascii "packet Z9_ { i32 body
,	u64 u8x @lengthOf(
    // trailing space 
    x_y_z ) ,@lengthOf( u128
    ) zchar[
    00 ] stringy,
repeat uint8
leftPad , } packet matchKey { } // @lengthOf(
packet pack //
{}
")).
Eval vm_compute in ("<<<M166>>>" ++ check (runes_of_ascii "packet u128 {
@rightPad (
    ' '
    //x
    )// c
Packet , f64
//
// @lengthOf(
Pad `it's` , }packet i64_{ } packet trueish { @leftPad	( '\x00')leftPad
@calculatedFrom( // " ++ [27880; 37322]%N ++ runes_of_ascii "
""`tick`"" ) `u8 x,` , }
")).
Eval vm_compute in ("<<<M4352>>>" ++ check (runes_of_ascii "//	t

MetaData
    asx
{
	char[]asx
	,x
	_x

,
    }
    root
    packet

    lengthOf  {
@tag( 10
	)@rightPad 
(	'0') 
@rightPad
	(  '0'
)// " ++ [128512]%N ++ runes_of_ascii " emoji
  	u32

    BodyLength
    , 	 //	t
}

")).
Eval vm_compute in ("<<<M461>>>" ++ check (runes_of_ascii "root packet msg_type {
float32 trueish
    , uint16// @lengthOf(
metadata , @lengthOf(  o ) // a // b
@lengthOf( _x) @calculatedFrom( """" )Z9_
    x_y_z,
zchar[ 3]zchar	`tab	here`,
    }
")).
Eval vm_compute in ("<<<M3624>>>" ++ check (runes_of_ascii "// top
packet u128 {
    @lengthOf(body)
    // c5
    match x_y_z as u {
        // c10
        ""x y"" : i8i8,
    },
    @tag(255)
    // c19
    char[] roots @lengthOf(int),
}")).
Eval vm_compute in ("<<<M960>>>" ++ check (runes_of_ascii "// packet A { u8 x, }
packet  BodyLength  {
    @tag( 255 ) repeat
uint64 f32a
    , }packet
chars { }
MetaData zchar { char[] tag`a\` ,
    body Logon `tab	here`	, }
")).
Eval vm_compute in ("<<<M3848>>>" ++ check (runes_of_ascii "root packet A {
    @lengthOf(calculatedFrom)
    @tag(65535)
    charz @lengthOf(charz),
}

options {
    crc = 65535
}

options {
    leftPad = 1
    A = true;
}")).
Eval vm_compute in ("<<<M3904>>>" ++ check (runes_of_ascii "packet A {
    match k as n {
        [
            1, 22, 007, 4, 5,
            66, 7, 8, 9, 10,
            11, 12
        ] : B,
        2 : C,
    },
}")).
Eval vm_compute in ("<<<M833>>>" ++ check (runes_of_ascii "options{ options1	=""\" ++ [233]%N ++ runes_of_ascii """ x =u64 Z9_= '0' calculatedFrom=	char[] ; } root	packet trueish
    { } packet BodyLength
    { @leftPad ( )
u64 _x ,
    }
")).
Eval vm_compute in ("<<<M1061>>>" ++ check (runes_of_ascii "MetaData //
u128 { x_y_z x_y_z `tab	here`, string
// c
/// triple
charz// a // b
, i64 roots`{ , }`
    ,/// triple
Logon//	t
packetx ,
    }
")).
Eval vm_compute in ("<<<M660>>>" ++ check (runes_of_ascii "MetaData tag {
} MetaData
pack
{// packet A { u8 x, }
} options	{
MetaDataX='\x00' ;
leftPad
// `tick` ""quote"" 'q'
//x
= ""{,}"" ; }
// c
")).
Eval vm_compute in ("<<<M143>>>" ++ check (runes_of_ascii "options { msg_type = 00 string_ =
// `tick` ""quote"" 'q'
// c
0 x
=
zchar[
255 ] ;leftPad =false ;f32a // @lengthOf(
=
007 ; // " ++ [27880; 37322]%N ++ runes_of_ascii "
}
")).
Eval vm_compute in ("<<<M1206>>>" ++ check (runes_of_ascii "options
    {
// " ++ [27880; 37322]%N ++ runes_of_ascii "
// trailing space 
crc
    =
'\x00'
}packet len {}
    packet
    // " ++ [27880; 37322]%N ++ runes_of_ascii "
    repeatCount { } // trailing space ")).
Eval vm_compute in ("<<<M1728>>>" ++ check (runes_of_ascii "root packet /// triple
root%A {	i32
MetaDataX@calculatedFrom( ""CRC32"" ) `line1
line2` , } MetaData BodyLength {
u8
rootA, } // c")).
Eval vm_compute in ("<<<M4290>>>" ++ check (runes_of_ascii "root packet roots {
    BodyLength asx,
    a1,
    @tag(7)
    zchar[42] BodyLength,// " ++ [27880; 37322]%N ++ runes_of_ascii "
    x_y_z `u8 x,`,
    f64 packetx,
}")).
Eval vm_compute in ("<<<M1632>>>" ++ check (runes_of_ascii "root u16 /// triple
rootA {	i32
MetaDataX@calculatedFrom( ""CRC32"" ) `line1
line2` , } MetaData BodyLength {
u8
rootA, } // c")).
Eval vm_compute in ("<<<M1806>>>" ++ check (runes_of_ascii "packet
    Pad // a // b
{ i8i8 @calculatedFrom( ""a	b"" ""a	b"") `u8 x,` ,
} options{ float// " ++ [128512]%N ++ runes_of_ascii " emoji
= f64 i64_
=//	t
00 }
")).
Eval vm_compute in ("<<<M485>>>" ++ check (runes_of_ascii "options{
    Pad =	string options1 =  char[ 65535 ] float= 3
    ;	falsey	=
    '\x00' // a // b
x=
    //x
    ' '  }
")).
Eval vm_compute in ("<<<M1895>>>" ++ check (runes_of_ascii "packet
    Pad // a // b
{ i8i8 @calculatedFrom( ""a	b"") `u8 x,` ,
} options{ float// " ++ [128512]%N ++ runes_of_ascii " emoji
= f64 caf" ++ [233]%N ++ runes_of_ascii "_1
=//	t
00 }
")).
Eval vm_compute in ("<<<M1802>>>" ++ check (runes_of_ascii "packet
    Pad // a // b
{ i8i8 ""a	b"" @calculatedFrom() `u8 x,` ,
} options{ float// " ++ [128512]%N ++ runes_of_ascii " emoji
= f64 i64_
=//	t
00 }
")).
Eval vm_compute in ("<<<M1870>>>" ++ check (runes_of_ascii "packet
    Pad // a // b
{ i8i8 @calculatedFrom( ""a	b"") `u8 x,` ,
} options{ float// " ++ [128512]%N ++ runes_of_ascii " emoji
= f64 i64_
=//	t
00 
")).
Eval vm_compute in ("<<<M3046>>>" ++ check (runes_of_ascii "packet A {
    u16 len @lengthOf(body) `tab
	x`,
    u32 crc @calculatedFrom(""CRC32"") `tab
	x`,
    string body,
}")).
Eval vm_compute in ("<<<M1818>>>" ++ check (runes_of_ascii "packet
    Pad // a // b
{ i8i8 @calculatedFrom( ""a	b"") : ,
} options{ float// " ++ [128512]%N ++ runes_of_ascii " emoji
= f64 i64_
=//	t
00 }
")).
Eval vm_compute in ("<<<M1298>>>" ++ check (runes_of_ascii "root
    packet options1 { @calculatedFrom( """ ++ [128512]%N ++ runes_of_ascii """ ) u8x
@calculatedFrom( ""a\\""
/// triple
// @lengthOf(
) ,	}
")).
Eval vm_compute in ("<<<M3586>>>" ++ check (runes_of_ascii "packet f32a {
    int16 int,
}

MetaData f32a {
    char i8i8,
    string Pad,
    zchar f32a,
    x T,
}")).
Eval vm_compute in ("<<<M3348>>>" ++ check (runes_of_ascii "packet calculatedFrom { @tag( 4294967296
// c
) u msg_type , char[ 3 ] crc @lengthOf( len ) `u8 x,` , }")).
Eval vm_compute in ("<<<M750>>>" ++ check (runes_of_ascii "  packet i64_{ @leftPad (
'0'
//x
// @lengthOf(
)	u8 MetaDataX ,
    i16
// trailing space 
//x
Pad,
}")).
Eval vm_compute in ("<<<M229>>>" ++ check (runes_of_ascii "packet x_y_z { char[
    // packet A { u8 x, }
    42 ] A @calculatedFrom( ""`tick`"" ) `it's` , }

")).
Eval vm_compute in ("<<<M3215>>>" ++ check (runes_of_ascii "
// c
packet Logon { @tag( 42 ) @rightPad ( ' ' ) @leftPad ( ) repeat trueish { string T , } , }")).
Eval vm_compute in ("<<<M3230>>>" ++ check (runes_of_ascii "packet Logon { @tag( 42 ) @rightPad ( // c
' ' ) @leftPad ( ) repeat trueish { string T , } , }")).
Eval vm_compute in ("<<<M202>>>" ++ check (runes_of_ascii "
options {
roots //x
=""packet"" ; len  =0 ;crc  =zchar[65535
/// triple
// " ++ [128512]%N ++ runes_of_ascii " emoji
]//x
;
}
")).
Eval vm_compute in ("<<<M271>>>" ++ check (runes_of_ascii "packet BodyLength { @tag(	007
)
char[ 65535
]
    string_
`u8 x,`,
    // @lengthOf(
    }")).
Eval vm_compute in ("<<<M2941>>>" ++ check (runes_of_ascii "packet A {
  match k as n {
    [1, ""bb"", 007, ""d"", 5, ""f"", 7, ""h""] : B,
    2 : C
  },
}")).
Eval vm_compute in ("<<<M3021>>>" ++ check (runes_of_ascii "packet A {
    B b `a
    b
  c`,
    B `a
    b
  c`,
    repeat B bs `a
    b
  c`,
}")).
Eval vm_compute in ("<<<M1983>>>" ++ check (runes_of_ascii "root
packet crc
    { f32a """ ++ [233]%N ++ runes_of_ascii "t" ++ [233]%N ++ runes_of_ascii """ @calculatedFrom( )
    `say ""hi""`, lengthOf `` ,  }")).
Eval vm_compute in ("<<<M4134>>>" ++ check (runes_of_ascii "MetaData msg_type {
    As roots,
    i32 rootA,
    f64 falsey,
    char[] rootA,
}")).
Eval vm_compute in ("<<<M2915>>>" ++ check (runes_of_ascii "packet A {
  match k as n {
    [1, ""bb"", 007, ""d"", 5, ""f""] : B,
    2 : C
  },
}")).
Eval vm_compute in ("<<<M3321>>>" ++ check (runes_of_ascii "packet o { @tag( 42 ) repeat x { char[ 0123456789 ] i64_ ,
// c
} , } options { }")).
Eval vm_compute in ("<<<M436>>>" ++ check (runes_of_ascii "
root packet	f32a {packetx
@calculatedFrom( ""CRC32""
    )
// a // b
//x
,  }
")).
Eval vm_compute in ("<<<M3670>>>" ++ check (runes_of_ascii "
packet  A

{ 
match  k
as
	n
	{

    [	1,
""bb""  ,  007]
:B
	2

: C
}
,} ")).
Eval vm_compute in ("<<<M999>>>" ++ check (runes_of_ascii "
MetaData
As
{Foo len,
} root packet Foo { Foo x , // `tick` ""quote"" 'q'
}")).
Eval vm_compute in ("<<<M3045>>>" ++ check (runes_of_ascii "packet A {
    B b `tab
	x`,
    B `tab
	x`,
    repeat B bs `tab
	x`,
}")).
Eval vm_compute in ("<<<M2962>>>" ++ check (runes_of_ascii "packet A { Inner { match k as n { [1,22,007,4,5,66,7,8,9] : B, }, }, }")).
Eval vm_compute in ("<<<M2885>>>" ++ check (runes_of_ascii "packet A {
  match k as n {
    [1, 22, 007, 4] : B,
    2 : C
  },
}")).
Eval vm_compute in ("<<<M15>>>" ++ check (runes_of_ascii "options
    { Z9_
    =
""" ++ [233]%N ++ runes_of_ascii "t" ++ [233]%N ++ runes_of_ascii """; rootA = string; } // trailing space ")).
Eval vm_compute in ("<<<M2660>>>" ++ check (runes_of_ascii "options { a = char[3]; b = zchar[0] c = char[] d = string e = u8 }")).
Eval vm_compute in ("<<<M2813>>>" ++ check (runes_of_ascii "msg_type ""// no comment"" u8 char[ ] string u64 f64 true } char[]")).
Eval vm_compute in ("<<<M2870>>>" ++ check (runes_of_ascii "packet A {
  match k as n {
    [""a"", 22] : B
    2 : C
  },
}")).
Eval vm_compute in ("<<<M3622>>>" ++ check (runes_of_ascii "MetaData metadata {
    uint8 metadata `a\`,
    char len,
}")).
Eval vm_compute in ("<<<M4096>>>" ++ check (runes_of_ascii "  packet	A	{ match
k as	n { 
[
1 
]: 
B 
2 :  C  } , 
}
")).
Eval vm_compute in ("<<<M1946>>>" ++ check (runes_of_ascii "
packet	As { @calculatedFrom(//x
""{,}""	')lengthOf , } 	 ")).
Eval vm_compute in ("<<<M175>>>" ++ check (runes_of_ascii "packet
    A {
//	t
/// triple
repeat
char[] _x ,  }
")).
Eval vm_compute in ("<<<M35>>>" ++ check (runes_of_ascii "MetaData trueish { char[]chars , char[] int
    ,}
")).
Eval vm_compute in ("<<<M3170>>>" ++ check (runes_of_ascii "packet A { B { // a
 u8 x, // b
 } // c
 , // d
 }")).
Eval vm_compute in ("<<<M2396>>>" ++ check (runes_of_ascii "MetaData A
{
i64
chars	} , // `tick` ""quote"" 'q'")).
Eval vm_compute in ("<<<M2847>>>" ++ check (runes_of_ascii "options i32 @rightPad { } ] 255 ; int8 as f64 ,")).
Eval vm_compute in ("<<<M1749>>>" ++ check (runes_of_ascii "options { options} {  } // `tick` ""quote"" 'q'")).
Eval vm_compute in ("<<<M1091>>>" ++ check (runes_of_ascii "// " ++ [128512]%N ++ runes_of_ascii " emoji
MetaData
    tag
{ /// triple
}")).
Eval vm_compute in ("<<<M4199>>>" ++ check (runes_of_ascii "
root packet roots
    //x
// " ++ [27880; 37322]%N ++ runes_of_ascii "

	{ }

")).
Eval vm_compute in ("<<<M950>>>" ++ check (runes_of_ascii "MetaData matchKey{Packet As//	t
`" ++ [233]%N ++ runes_of_ascii "` , }
")).
Eval vm_compute in ("<<<M3199>>>" ++ check (runes_of_ascii "MetaData zchar { zchar[ 3
// c
] Pad , }")).
Eval vm_compute in ("<<<M4431>>>" ++ check (runes_of_ascii "MetaData 
u128 { uint32 lengthOf  ,
}
")).
Eval vm_compute in ("<<<M798>>>" ++ check (runes_of_ascii "options{ asx = u64 ; string_ = 10 }
")).
Eval vm_compute in ("<<<M2823>>>" ++ check (runes_of_ascii "7cz/x~1=[HQ/x:A(ov&qJs5T2>9H=i|j3ta[")).
Eval vm_compute in ("<<<M2589>>>" ++ check (runes_of_ascii "packet A { x @calculatedFrom(c), }")).
Eval vm_compute in ("<<<M1766>>>" ++ check (runes_of_ascii "options { }options {  } // `tick")).
Eval vm_compute in ("<<<M3019>>>" ++ check (runes_of_ascii "root packet A {
    u8 x `
`,
}")).
Eval vm_compute in ("<<<M3113>>>" ++ check (runes_of_ascii "packet A {
 u8 x `d" ++ [8287]%N ++ runes_of_ascii "`, // c" ++ [8287]%N ++ runes_of_ascii "
}")).
Eval vm_compute in ("<<<M1433>>>" ++ check (runes_of_ascii "root packet Foo // " ++ [128512]%N ++ runes_of_ascii " emoji
{")).
Eval vm_compute in ("<<<M2731>>>" ++ check ([14; 3]%N ++ runes_of_ascii "AV" ++ [65533; 65533; 65533]%N ++ runes_of_ascii "r" ++ [4]%N ++ runes_of_ascii "+{e" ++ [65533; 65533; 65533]%N ++ runes_of_ascii ";&" ++ [65533; 65533; 3; 3; 65533]%N ++ runes_of_ascii "Q" ++ [65533]%N ++ runes_of_ascii "+G" ++ [5]%N)).
Eval vm_compute in ("<<<M2721>>>" ++ check (runes_of_ascii ", 42 { int16 options false")).
Eval vm_compute in ("<<<M3388>>>" ++ check (runes_of_ascii "packet lengthOf { } // c
")).
Eval vm_compute in ("<<<M3276>>>" ++ check (runes_of_ascii "options { u8x
// c
= 3 }")).
Eval vm_compute in ("<<<M3690>>>" ++ check (runes_of_ascii "packet
A  { }	// c" ++ [8192]%N ++ runes_of_ascii "
 
")).
Eval vm_compute in ("<<<M525>>>" ++ check (runes_of_ascii "packet rootA
{ //
}
")).
Eval vm_compute in ("<<<M1764>>>" ++ check (runes_of_ascii "options { }options {")).
Eval vm_compute in ("<<<M2790>>>" ++ check ([65533; 65533; 65533]%N ++ runes_of_ascii "4" ++ [65533; 65533]%N ++ runes_of_ascii "(" ++ [65533]%N ++ runes_of_ascii "X" ++ [65533]%N ++ runes_of_ascii "fb" ++ [65533]%N ++ runes_of_ascii "4" ++ [65533]%N ++ runes_of_ascii "{" ++ [65533]%N ++ runes_of_ascii "E" ++ [65533]%N)).
Eval vm_compute in ("<<<M3067>>>" ++ check (runes_of_ascii "// c" ++ [12288]%N ++ runes_of_ascii "
packet A {
}")).
Eval vm_compute in ("<<<M3168>>>" ++ check (runes_of_ascii "packet A { // a
 }")).
Eval vm_compute in ("<<<M3104>>>" ++ check (runes_of_ascii "packet A {
}// c" ++ [8239]%N)).
Eval vm_compute in ("<<<M1156>>>" ++ check (runes_of_ascii "packet o
{//x
}")).
Eval vm_compute in ("<<<M569>>>" ++ check (runes_of_ascii "

/// triple
")).
Eval vm_compute in ("<<<M3629>>>" ++ check (runes_of_ascii "options {
}")).
Eval vm_compute in ("<<<M2462>>>" ++ check (runes_of_ascii "Metadata")).
Eval vm_compute in ("<<<M1228>>>" ++ check (runes_of_ascii " // " ++ [27880; 37322]%N)).
Eval vm_compute in ("<<<M2439>>>" ++ check (runes_of_ascii "uint8")).
Eval vm_compute in ("<<<M3135>>>" ++ check (runes_of_ascii "// c" ++ [65279]%N)).
Eval vm_compute in ("<<<M1318>>>" ++ check (runes_of_ascii "


")).
Eval vm_compute in ("<<<M2803>>>" ++ check (runes_of_ascii "4KK")).
Eval vm_compute in ("<<<M2494>>>" ++ check (runes_of_ascii "/")).
