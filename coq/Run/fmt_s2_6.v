From FP Require Import Lexer Parser ShowPT Digest Formatter.
From Coq Require Import String List NArith.
Import ListNotations.
Open Scope string_scope.
Set Printing Width 100000000.
Set Printing Depth 100000000.
Definition show_fres (r : fres) : string :=
  match r with
  | FOk s => "OK:" ++ sh_escaped s ""
  | FErr s => "ERR:" ++ sh_escaped s ""
  | FPanic p => "PANIC:" ++ p
  end.
Definition check (rs : list rune) : string := digest (show_fres (format_res rs)).
Definition full (rs : list rune) : string := show_fres (format_res rs).
Eval vm_compute in ("<<<M3804>>>" ++ check (runes_of_ascii "  packet
	options1

    { i8
    leftPad

// c
	// " ++ [128512]%N ++ runes_of_ascii " emoji
	`say ""hi""`
	,@tag( 4294967296 )repeat
zchar[  7] 
Pad ,

    @leftPad( '\x00' )

As	`u8 x,`  ,  falsey @calculatedFrom(
	""x y""
) , 

    // `tick` ""quote"" 'q'
    	//x
    	pack `say ""hi""`

,
x

{ match  Header
as
	charz // trailing space 
{
00
        // `tick` ""quote"" 'q'
    	// " ++ [128512]%N ++ runes_of_ascii " emoji
  :
a1 
,} ,

    repeat
	char[ 
        // packet A { u8 x, }
    	0123456789
    ]rootA`line1
line2` ,
    uint64	tag`" ++ [28040; 24687; 31867; 22411]%N ++ runes_of_ascii "`
,  f32  Z9_  , 	 // c
  }

, 
@leftPad 
()	@leftPad	( '\x00'	)
	float32
    tag  // @lengthOf(
  	,
    repeat 
f32 T 	 //x
	`" ++ [28040; 24687; 31867; 22411]%N ++ runes_of_ascii "` ,@lengthOf(	chars

    )
	@calculatedFrom(""" ++ [128512]%N ++ runes_of_ascii """ 
)

@calculatedFrom( ""a	b""	)match
calculatedFrom	as
packetx{	""\n"" :

    trueish
, [ """",

007 	 // " ++ [128512]%N ++ runes_of_ascii " emoji
]	// trailing space 
      :

packetx , ""// no comment"": packetx [ 7
,  0123456789
    ]
	:

pack

""" ++ [233]%N ++ runes_of_ascii "t" ++ [233]%N ++ runes_of_ascii """
    : Packet // trailing space 
    } 	 // `tick` ""quote"" 'q'

  ,  @calculatedFrom(	""\n""
	) 	 //x
	repeat

u16

As  ,
}

root
	packet
uint8x
{
	@lengthOf(
stringy )string a1

    ,
	    // a // b

// 50% %s
    int16  i64_`" ++ [28040; 24687; 31867; 22411]%N ++ runes_of_ascii "`

,	int16 Logon@calculatedFrom(  ""// no comment""// packet A { u8 x, }
      ) ,MetaDataX MetaDataX`it's`  ,	i64_ 
,
    match matchKey
as
zchar {""1"" :
    As [
0 
]
: 
f32a

    ,

[""x y""	]
:body ,

""it's"" 
: _x

, /// triple
  [
    """ ++ [28040; 24687]%N ++ runes_of_ascii """
,
007  ] :

    matchKey ""x y""	: x_y_z ,
	}
	,
	@calculatedFrom(  // " ++ [128512]%N ++ runes_of_ascii " emoji

""" ++ [128512]%N ++ runes_of_ascii """)int64 o
    @lengthOf(  body

    )
, // `tick` ""quote"" 'q'
	asx
	{chars `say ""hi""` //x
	,
i64
    falsey , 
i8

    zchar
`two words`

,

char[
    255 
]

    tag
	@calculatedFrom( 
"""" )	, }
,  char[] Pad

    @lengthOf(

charz) `
`
	,
@tag( 007
)  @tag(
255
)
    repeat 
u64
x  , }  packet  metadata
	{	match BodyLength
	as	u128{
4294967296 :
trueish

    ,
	10 :
	_x

    ""a\""b""	: 
int

    , 007  :
Logon ,

""" ++ [233]%N ++ runes_of_ascii "t" ++ [233]%N ++ runes_of_ascii """:
Z9_
    ,// trailing space 
  [

42  
  //x
	  ,
00
	]
: 
    // packet A { u8 x, }
  	u128
}

, zchar[

    0123456789	]  chars  `a\` ,	match // a // b
trueish
	as
tag  { // @lengthOf(
  0: zchar

, 
    // @lengthOf(
  } ,

zchar[	4294967296	]	lengthOf	,

    asx
@lengthOf(
	tag
)//x
    ,

    char[ 65535 ] u @lengthOf( 
x_y_z  // " ++ [128512]%N ++ runes_of_ascii " emoji

)

    `two words`  // 50% %s
	,
    _x @calculatedFrom( """ ++ [233]%N ++ runes_of_ascii "t" ++ [233]%N ++ runes_of_ascii """) 
`{ , }` ,
	@tag(3 //x
	)	zchar[	255 ]
    Header
`` , float32 crc

, 
Z9_@lengthOf(

    body

    )

`two words` , } root
packet f32a  {
@rightPad (
)	string

    u8x
	`say ""hi""`

    ,
} options {  } ")).
Eval vm_compute in ("<<<M3537>>>" ++ check (runes_of_ascii "// top
options // c0a
  // c0b
{ // c1
StringPrefixLenType // c2
=
    // c3
u64
    // c4
;
    // c5
ArrayPrefixLenType =
    // c7
u8 // c8a
  // c8b
; FixedStringPadChar
    // c10
=
    // c11
'0' // c12
;
    // c13
}
    // c14
packet Logout // c16a
  // c16b
{
    // c17
char[] f1
    // c19
, repeat
    // c21
u64 // c22a
  // c22b
Qty
    // c23
, // c24
string Acct ,
    // c27
char[] // c28
Side2 ,
    // c30
repeat
    // c31
i64 // c32
clOrdID
    // c33
, } packet // c36a
  // c36b
Logon // c37a
  // c37b
{ i64 // c39
tag7 // c40
,
    // c41
Logout , // c43
@rightPad // c44
( // c45
'\x00' // c46a
  // c46b
) char[
    // c48
4 ] Qty
    // c51
, // c52a
  // c52b
repeat char[ // c54a
  // c54b
4 ] // c56a
  // c56b
venue
    // c57
, // c58a
  // c58b
string seqNo , }
    // c62
packet // c63
Party // c64
{
    // c65
Logon , // c67
float32 // c68a
  // c68b
x // c69
, uint32 // c71a
  // c71b
price
    // c72
,
    // c73
repeat // c74
string // c75a
  // c75b
venue
    // c76
, repeat // c78
char[ // c79
3
    // c80
] // c81a
  // c81b
seqNo // c82
,
    // c83
} // c84a
  // c84b
packet // c85
Leg // c86a
  // c86b
{ string // c88
Flags
    // c89
,
    // c90
i32 Ref , repeat
    // c94
Logout // c95
, // c96a
  // c96b
repeat // c97a
  // c97b
u16 // c98a
  // c98b
x // c99a
  // c99b
,
    // c100
}
    // c101
packet Cancel { // c104
repeat Logon
    // c106
, // c107a
  // c107b
int8 // c108a
  // c108b
Ref ,
    // c110
Logout ,
    // c112
char[] // c113
OrderId // c114
, int16 Tail , }
    // c119
root packet
    // c121
Heartbeat // c122a
  // c122b
{ zchar[
    // c124
8 // c125a
  // c125b
] // c126
price // c127
, // c128
repeat // c129
Logout , // c131
Cancel // c132a
  // c132b
, // c133
char[]
    // c134
Qty ,
    // c136
int32 // c137a
  // c137b
x // c138
, Leg
    // c140
, // c141
} // c142a
  // c142b
")).
Eval vm_compute in ("<<<M329>>>" ++ check (runes_of_ascii "  packet
    charz { char[]stringy @lengthOf( MetaDataX
    )	,
    @calculatedFrom(""a\\""
    )
//x
/// triple
@calculatedFrom( ""\" ++ [233]%N ++ runes_of_ascii """) // trailing space 
@tag(
// packet A { u8 x, }
// c
42  )
    // packet A { u8 x, }
    asx lengthOf
    , }packet
    leftPad {
} packet stringy { match calculatedFrom	as
MetaDataX// a // b
{ [""a\\"" ,
    """ ++ [28040; 24687]%N ++ runes_of_ascii """ , ""CRC32"" , 10 ]:
    x //
,0
    // c
    :
falsey , 1 :
u8x , 65535
: Foo , } , }
//
// @lengthOf(
packet  i8i8 {repeat
    Logon, repeat
a1
chars
    `// not a comment` , zchar[ // packet A { u8 x, }
0123456789
    ] int
    ,@calculatedFrom( //x
""{,}""
    /// triple
    ) roots,@rightPad
(
    ' '
    )
@calculatedFrom( """ ++ [28040; 24687]%N ++ runes_of_ascii """ ) len, @tag(3 ) crc
@lengthOf(
    asx
)  ``
    // @lengthOf(
    ,
    }packet options1 {
@rightPad
( '0'// c
) // trailing space 
@calculatedFrom( """" // packet A { u8 x, }
) // packet A { u8 x, }
@tag( 4294967296)
repeat MetaDataX zchar `crlf
line`
, o { u8 // @lengthOf(
body
    @lengthOf(
Foo
    )// c
,  repeat char u8x`
`, A  @lengthOf( matchKey ) ,  }//x
,@calculatedFrom(""a	b"") matchKey msg_type
,@lengthOf(
    options1 )	repeat
string Logon
    // packet A { u8 x, }
    , @calculatedFrom( /// triple
""" ++ [128512]%N ++ runes_of_ascii """)  @calculatedFrom(
""" ++ [233]%N ++ runes_of_ascii "t" ++ [233]%N ++ runes_of_ascii """ ) //	t
i64 Logon, @lengthOf(  float )
@calculatedFrom(//
""a\""b"" ) chars matchKey `// not a comment` ,@rightPad // trailing space 
(
    ' '
//	t
// a // b
) repeat MetaDataX{
match
float // " ++ [27880; 37322]%N ++ runes_of_ascii "
as
    charz { 0123456789	:
string_ } , },// `tick` ""quote"" 'q'
match  f32a as stringy
    { """ ++ [28040; 24687]%N ++ runes_of_ascii """ :
    _x , 1 :
stringy ,
    65535 : u8x  65535: asx, } ,
i8
asx
,
    }")).
Eval vm_compute in ("<<<M4398>>>" ++ check (runes_of_ascii "root packet 
    // packet A { u8 x, }
    	// trailing space 
    T

{ u64

    int ,
match

rootA
as 
BodyLength 
{""it's""
:  o 
    // c
// packet A { u8 x, }
	, 10 : int,
""packet"":string_  ,[  // `tick` ""quote"" 'q'

""abc""	, 3 ,0123456789 
  // packet A { u8 x, }
		,  // " ++ [27880; 37322]%N ++ runes_of_ascii "
    007
, 7
,
	3

    ,
	007  ]
    // 50% %s

	// `tick` ""quote"" 'q'
:int
	, },
match	i64_ as
options1{ 
0123456789:	// packet A { u8 x, }

zchar
    ,

00
:  pack,
}

,  match 
zchar  as
options1 {
	""it's"":	matchKey ,""1""// " ++ [128512]%N ++ runes_of_ascii " emoji
: u128 	 // packet A { u8 x, }

	, // `tick` ""quote"" 'q'
  	""`tick`"":
trueish
255

//x
    	// " ++ [128512]%N ++ runes_of_ascii " emoji
  :
	crc  , 
    // `tick` ""quote"" 'q'
  // @lengthOf(
	}  ,
    // trailing space 
  } packet

//
    //	t
    	Z9_
	{ 
@leftPad	(  '\x00'
    ) 
repeat

float32

Packet,@lengthOf( x) 
string u,	@calculatedFrom(  ""\" ++ [233]%N ++ runes_of_ascii """ ) zchar[ 65535

    ]
As@lengthOf(BodyLength 
/// triple

  // " ++ [128512]%N ++ runes_of_ascii " emoji
  	)

, 
string
leftPad @calculatedFrom( ""a\\""
    )  ,
	@rightPad
    ('\x00'
) 	 // c

  rootA {

repeat

Packet 	 // trailing space 
	{

char[ 10
]  matchKey

    `crlf
line`
	, 

    // a // b
  	}
    ,

    }
,match  Packet  as

uint8x	{255  :
	roots

    , 
[ 42,3
, 
""\" ++ [233]%N ++ runes_of_ascii """	]
: repeatCount
}
    ,

    repeat

    _x `two words`
,
	} MetaData
    tag 
        // " ++ [128512]%N ++ runes_of_ascii " emoji
  // " ++ [27880; 37322]%N ++ runes_of_ascii "
	  {Pad
Header // packet A { u8 x, }
    ,
	}

")).
Eval vm_compute in ("<<<M131>>>" ++ check (runes_of_ascii "
packet Pad { zchar[ 00 ] Z9_ `doc`, @calculatedFrom( """ ++ [128512]%N ++ runes_of_ascii """ ) repeat f64 lengthOf
`doc` ,match i8i8
// @lengthOf(
// @lengthOf(
as crc { [ ""1""  , 10 //	t
,
3	,
// trailing space 
// a // b
""packet""// c
,
""{,}"" ]
:_x ,
}
,
zchar @calculatedFrom( ""a\""b"" ) ,
    @lengthOf(
    Packet ) match // `tick` ""quote"" 'q'
asx
    as //x
calculatedFrom// `tick` ""quote"" 'q'
{4294967296 : string_
,
10 : body /// triple
[ //
007 ,
0123456789 ] :	MetaDataX ,  65535 :A ,
    42: BodyLength} ,@lengthOf( metadata ) @tag( 10 ) // 50% %s
uint32 pack
`doc`	,  uint8x f32a
    , match Logon as body {[/// triple
255
    //
    , ""a\\""
]: leftPad}	,
    @leftPad( )  u8 x
    @lengthOf( body )// c
, } packet
    body
{ // trailing space 
@lengthOf(lengthOf ) repeat
float64 matchKey ,
    @tag(
1)
    @tag( // @lengthOf(
1
)
    @calculatedFrom( ""a\\"") x_y_z @lengthOf(
    asx )
// packet A { u8 x, }
// 50% %s
,
match x as Header
{
[ 0 ,	""a\\""	, 0 ,0123456789 , 65535, ""`tick`"" ] : rootA
    ,[  007 , """ ++ [128512]%N ++ runes_of_ascii """ ] : roots,
3 : matchKey ,
[ 00
]
:leftPad ,""it's""	: leftPad
, ""1"" :uint8x } ,
// c
// packet A { u8 x, }
match
    // 50% %s
    T as lengthOf	{ 42
:packetx
    ,}	, repeat
u A ,
@lengthOf(
a1 ) u8x`tab	here`
, string pack
    // packet A { u8 x, }
    , }")).
Eval vm_compute in ("<<<M162>>>" ++ check (runes_of_ascii "packet
// trailing space 
// @lengthOf(
asx{ // 50% %s
body  repeatCount
    ,
@tag( 1 )
repeat _x BodyLength
, }  options{ len
= false // packet A { u8 x, }
; } packet
    msg_type
    { // @lengthOf(
repeat string_ x , @tag( 007 )	@calculatedFrom( ""it's"" )@lengthOf(  u8x )
uint32
    BodyLength , @calculatedFrom( ""a\""b""  ) match a1// " ++ [27880; 37322]%N ++ runes_of_ascii "
as matchKey{ 00
: options1 , 4294967296 : // `tick` ""quote"" 'q'
x_y_z , // @lengthOf(
[3// packet A { u8 x, }
,
""a	b"" , 0123456789 ] :
i64_
    ,
0 :leftPad , ""`tick`"" :int // " ++ [128512]%N ++ runes_of_ascii " emoji
[""" ++ [28040; 24687]%N ++ runes_of_ascii """ ]
    // a // b
    :
Z9_ ,
}
,@rightPad
() int32 A ,
@calculatedFrom( ""CRC32"")
    @tag(
65535 )
    @lengthOf(
packetx)
    zchar[// packet A { u8 x, }
10] u8x `two words`,
    f32
    zchar @lengthOf( Packet ), }
MetaData u8x{
} packet tag {
repeat u8 T `say ""hi""`, leftPad, @lengthOf(matchKey // @lengthOf(
)
// trailing space 
/// triple
match Foo as T
    { [  10
    ,10 , ""1""
,  0,
    ""packet"" , 4294967296 ,
""a\""b"" ,
7
    ] //	t
:
msg_type
, 00 : // packet A { u8 x, }
Pad }
    , repeat packetx
    // 50% %s
    { Header Packet
    ,uint16
o
,}
,	@rightPad( ' ')
    repeat int16 // trailing space 
Logon
, }")).
Eval vm_compute in ("<<<M184>>>" ++ check (runes_of_ascii "
options {
    Pad = false ; }
    packet f32a { zchar[
3
]
i64_ @calculatedFrom(
//
// @lengthOf(
""\" ++ [233]%N ++ runes_of_ascii """)
, @lengthOf( rootA
)
roots { int32 //	t
metadata // `tick` ""quote"" 'q'
@calculatedFrom(  ""abc""
    ) ,	char[
    10
    ] stringy // packet A { u8 x, }
@lengthOf(pack
)`two words` , _x rootA ,  } ,
    @calculatedFrom( ""`tick`"" ) match asx as Z9_{	00  :
    repeatCount , [	10
, 007
,""it's"" , 4294967296 , 4294967296
// 50% %s
// trailing space 
]:pack ,
}
, } MetaData roots {char[ 3 ]	charz	, char[]
u8x , } root packet u8x	{} root packet asx{	rootA {
repeat string
//
// `tick` ""quote"" 'q'
repeatCount `u8 x,` ,
    match len as
    Logon {/// triple
0 : len }
    //
    ,repeat// `tick` ""quote"" 'q'
i64_ T
    // packet A { u8 x, }
    `doc` ,
    // 50% %s
    } ,/// triple
Logon
@lengthOf( trueish	) , @tag(
    255 )
    repeat	zchar[	007
// 50% %s
// trailing space 
] float ,	u32 // c
As @calculatedFrom(""{,}"")
, Z9_ @calculatedFrom(
//x
//	t
"""") ,lengthOf ,
@lengthOf( _x ) tag
{
repeat T `" ++ [233]%N ++ runes_of_ascii "` ,
    // a // b
    }
    ,
i64 tag// c
@calculatedFrom(
    ""abc""  ) , }")).
Eval vm_compute in ("<<<M3802>>>" ++ check (runes_of_ascii "packet

    zchar 
{repeat	// packet A { u8 x, }
char[	10
]	/// triple

repeatCount

    `line1
line2`
,  zchar[10 ]
	// packet A { u8 x, }

//
    rootA @calculatedFrom(

""packet"")	, f32
crc`{ , }`	// trailing space 

,
    repeat char[255
]

    msg_type , }options

{
	u8x
	= 
""\n""

; }

    packet trueish{ repeat  // a // b
		i64_ 
,@calculatedFrom(""// no comment"" 	 // trailing space 
) 
      // `tick` ""quote"" 'q'
	  @tag(
	// @lengthOf(
      4294967296
	) repeat 
matchKey {  As
	`
`
	,
	u8x `it's` ,  Packet @lengthOf( T

)	// `tick` ""quote"" 'q'
`a\`
    ,
}
	, 	 // a // b

	lengthOf

    packetx
	`" ++ [28040; 24687; 31867; 22411]%N ++ runes_of_ascii "` 	 //	t
  	, roots  {
	MetaDataX len,  zchar

{ match Packet

// 50% %s
      // `tick` ""quote"" 'q'

as  MetaDataX
{
    // 50% %s
  // `tick` ""quote"" 'q'

  1  :	// " ++ [128512]%N ++ runes_of_ascii " emoji
  x_y_z

7
    :
	o ,0123456789
	: i64_	,

}

,	}

    ,// a // b

}
,

@calculatedFrom(
	""// no comment""
	) repeat
int16
charz
    `line1
line2`,// c

@tag( 0123456789
    )u  `
` 

    // @lengthOf(
      , }

")).
Eval vm_compute in ("<<<M3566>>>" ++ check (runes_of_ascii "options {
    LittleEndian = false;
    StringPrefixLenType = u16;
    ArrayPrefixLenType = u16;
    FixedStringPadFromLeft = false;
    FixedStringPadChar = ' ';
}
packet Heartbeat {
    i32 f1,
}
packet Cancel {
    char[] Note,
}
packet Fill {
    u32 price,
    float64 Ref,
    zchar[8] tag7,
    repeat Cancel,
    int64 Acct,
}
packet Quote {
    @rightPad('0') char[12] count,
    char[] seqNo,
}
root packet Party {
    Fill,
    InMsgkind30 {
        repeat u16 Ref,
        repeat InCount61 {
            repeat i8 sym,
            char[] Ref,
            repeat char[4] Qty,
            repeat Heartbeat,
        },
        u32 venue,
        uint16 Flags,
    },
    u8 Px,
    repeat u16 Side2,
    @rightPad('0') char[10] Qty,
    @rightPad('\x00') char[1] clOrdID,
    u8 Tail,
    match Tail as Body {
        [159, 182] : Quote,
        155 : Heartbeat,
        178 : Fill,
        49 : Cancel,
    },
    u16 Ref @calculatedFrom(""CRC32""),
}
")).
Eval vm_compute in ("<<<M766>>>" ++ check (runes_of_ascii "packet  tag{int Packet `say ""hi""`
,@calculatedFrom( """" )
    // `tick` ""quote"" 'q'
    Packet ,
@tag(
1 )
float64 rootA
@lengthOf( msg_type
) ,	match  trueish  as uint8x{ ["""" , ""a\\"" , 1
, ""a\""b""
] :
    u
, [	""a	b"" , ""// no comment""
    //x
    , ""{,}"" ,
3 ,
7]
    :
    uint8x , 3 : chars	[""// no comment""/// triple
,
    //	t
    ""`tick`"" ] :
    // c
    u128, [ ""x y"" ,//	t
""{,}"" ] :stringy , } // 50% %s
,
@rightPad
( )@tag( 4294967296 ) @lengthOf(repeatCount )//
int32 metadata`crlf
line`, @calculatedFrom( ""a\\""
    ) _x @lengthOf(
matchKey )// 50% %s
`tab	here`
, repeat
    body x
    ,}
    packet chars { i64 crc@lengthOf( //
zchar	) , @tag(0123456789 // 50% %s
)float64 calculatedFrom, } MetaData float	{ }packet Z9_{	@rightPad ( '\x00'
    ) zchar @lengthOf( // 50% %s
len )/// triple
, asx chars`two words`
, f32
    zchar //	t
@calculatedFrom( ""\" ++ [233]%N ++ runes_of_ascii """
    ) `u8 x,`	, float32 u , }
")).
Eval vm_compute in ("<<<M4062>>>" ++ check (runes_of_ascii "packet packetx {
}

MetaData u128 {
}

MetaData calculatedFrom {
    repeatCount Packet,
    a1 rootA `{ , }`,
    float64 rootA `" ++ [28040; 24687; 31867; 22411]%N ++ runes_of_ascii "`,
    u trueish `100% of %d`,
    As i8i8,// " ++ [128512]%N ++ runes_of_ascii " emoji
}

//x
packet a1 {
    // " ++ [128512]%N ++ runes_of_ascii " emoji
    @lengthOf(packetx)
    A @lengthOf(T) `" ++ [233]%N ++ runes_of_ascii "`,
    repeat i32 rootA `" ++ [233]%N ++ runes_of_ascii "`,//x
    repeat u16 metadata,
    @calculatedFrom(""x y"")
    @leftPad('0')
    repeat zchar[255] matchKey,// a // b
    match rootA as u128 {
        [7, ""1"", ""{,}"", ""packet"", 3] : u,
        """ ++ [233]%N ++ runes_of_ascii "t" ++ [233]%N ++ runes_of_ascii """ : tag,
        /// triple
        // " ++ [27880; 37322]%N ++ runes_of_ascii "
        00 : T,
        10 : leftPad,
        ""x y"" : options1,
        // packet A { u8 x, }
        //
    },
    @calculatedFrom(""packet"")
    match As as len {
        4294967296 : trueish,
        42 : lengthOf,
    },
    @tag(1)
    string _x @lengthOf(string_),
    char[] BodyLength @lengthOf(int) `100% of %d`,
    i8 pack,
}")).
Eval vm_compute in ("<<<M801>>>" ++ check (runes_of_ascii "options{ int
= '\x00'f32a= '\x00' }packet // 50% %s
_x {  @lengthOf( trueish ) match charz
as Pad {
    ""abc"" : float ,
//	t
// 50% %s
42: // c
pack , 10 : // packet A { u8 x, }
rootA  , } ,
}
packet roots {	string f32a @lengthOf(metadata ) `" ++ [28040; 24687; 31867; 22411]%N ++ runes_of_ascii "`,// " ++ [128512]%N ++ runes_of_ascii " emoji
repeatCount {repeat
u,
    f64 BodyLength , uint8 o@calculatedFrom(	""\n"" ) , repeat
Z9_
// packet A { u8 x, }
/// triple
,// c
} ,
f64
a1@calculatedFrom( ""abc"" )`{ , }` , @calculatedFrom(""\" ++ [233]%N ++ runes_of_ascii """ )
len
    calculatedFrom ``
,	@lengthOf( msg_type) string A`" ++ [233]%N ++ runes_of_ascii "` // packet A { u8 x, }
, @lengthOf(  float )@tag( 4294967296 )
    @calculatedFrom(
    ""// no comment"" )
    zchar[0
] Foo `a\` , @tag(  255 )
repeat zchar[ 255 ]	i8i8
`doc`  ,
    // c
    i32	i8i8
, // `tick` ""quote"" 'q'
} root
    packet metadata
// 50% %s
/// triple
{	zchar[3 ]
body `it's` , }
")).
Eval vm_compute in ("<<<M937>>>" ++ check (runes_of_ascii "root packet Foo {	string u128
    , } packet	T  {@tag( 255 )
    repeat char[3 ]
    matchKey`// not a comment` , char[255
] T
,} root packet
BodyLength{ @leftPad (//	t
'\x00' )	@lengthOf( MetaDataX ) @calculatedFrom(
""{,}"")
// " ++ [128512]%N ++ runes_of_ascii " emoji
// packet A { u8 x, }
repeat leftPad `a\` ,  repeat
float64 Foo,char[3 ]metadata, // trailing space 
i8i8	@calculatedFrom(""" ++ [128512]%N ++ runes_of_ascii """
) `a\` ,
string
msg_type`it's` , @rightPad
( )char[ 65535] tag , zchar[00]MetaDataX , @leftPad (// packet A { u8 x, }
' ' )
    @calculatedFrom( """"
) @lengthOf( matchKey // c
) match BodyLength as roots { 4294967296: u8x // @lengthOf(
[ // packet A { u8 x, }
1
,  ""\" ++ [233]%N ++ runes_of_ascii """	, 65535 ,
    // trailing space 
    0 ,
    3
    , ""packet""] :
//x
//	t
Pad ,
0	:string_
    , },
f32a @calculatedFrom( ""// no comment"" ) , uint8 x	, }
")).
Eval vm_compute in ("<<<M389>>>" ++ check (runes_of_ascii "packet
i64_ {@lengthOf(
falsey)
    rootA
options1
    `" ++ [233]%N ++ runes_of_ascii "` ,}	options {int=
// a // b
// `tick` ""quote"" 'q'
4294967296 ;
Packet  =0123456789
}
MetaData o {char[] Packet
,char[007 ] repeatCount ,
lengthOf //	t
packetx ,  } root packet
x_y_z { repeat char[ 4294967296]  Packet // a // b
,
char[1 ] options1 @lengthOf(rootA )  ,
    @calculatedFrom( ""\" ++ [233]%N ++ runes_of_ascii """ )
    falsey@lengthOf(	int  )
    /// triple
    `// not a comment`
    // 50% %s
    ,
repeat u32 MetaDataX
, repeat i64
lengthOf , @lengthOf(
    repeatCount )
    Packet
A,zchar[ 00 ]
pack // " ++ [27880; 37322]%N ++ runes_of_ascii "
`a\` ,repeat
pack
    MetaDataX
    `crlf
line`, zchar[0
] f32a @calculatedFrom(
""abc"" )
    `u8 x,` ,@rightPad
( //x
)
u128 { float64 charz @calculatedFrom( ""`tick`""	), }, // c
} /// triple")).
Eval vm_compute in ("<<<M1341>>>" ++ check (runes_of_ascii "
packet f32a {@lengthOf(
    //x
    i8i8 ) matchKey @lengthOf( Pad )`100% of %d` ,
@tag(
//
// " ++ [27880; 37322]%N ++ runes_of_ascii "
0123456789 )
    // 50% %s
    @calculatedFrom(
// @lengthOf(
//	t
""abc""
) repeat char[  0]
    //	t
    f32a /// triple
, @tag( 3  )
    @calculatedFrom( ""1""
// " ++ [128512]%N ++ runes_of_ascii " emoji
//	t
)  @lengthOf( lengthOf) zchar[
    1  ]zchar  , //x
@calculatedFrom( ""a	b"" )@tag( 65535 ) char[ 65535 ]
matchKey	,
//x
//	t
int //x
zchar	`{ , }`, repeat metadata As
, @calculatedFrom( ""CRC32""
    ) _x ,
repeat Pad
{uint8 Header
    `{ , }` , }
,@lengthOf( u128// packet A { u8 x, }
)
    i32 trueish @lengthOf(
// c
// `tick` ""quote"" 'q'
chars ) `// not a comment`, @tag( 65535
)
repeat	u8x tag `a\` ,
// " ++ [128512]%N ++ runes_of_ascii " emoji
// @lengthOf(
}")).
Eval vm_compute in ("<<<M566>>>" ++ check (runes_of_ascii "root packet
options1{ @lengthOf( f32a )
    //
    repeat string float `crlf
line`
    , @lengthOf(  msg_type
)
@calculatedFrom(
""{,}"" // @lengthOf(
)	zchar[ 3
] Header// c
, // a // b
f64 i64_
    `100% of %d` , @lengthOf( Z9_ ) match Header as msg_type
{""" ++ [233]%N ++ runes_of_ascii "t" ++ [233]%N ++ runes_of_ascii """ : leftPad, } ,Z9_
    {match lengthOf as x_y_z { [
    // @lengthOf(
    10  ,4294967296 ] /// triple
: packetx ""a	b""	: matchKey
7	: leftPad , [ ""x y"" , 4294967296 // trailing space 
,1,  ""a\""b"" ,""a\""b""
    , // `tick` ""quote"" 'q'
""x y""
]:
    string_	}	,char BodyLength `a\` /// triple
,
    } ,@rightPad ('\x00' ) i64 Pad ,
//	t
// " ++ [27880; 37322]%N ++ runes_of_ascii "
@rightPad ( '\x00' )f32a @calculatedFrom(
""a	b""
//x
// a // b
) ,
    }
")).
Eval vm_compute in ("<<<M3759>>>" ++ check (runes_of_ascii "// " ++ [27880; 37322]%N ++ runes_of_ascii "
MetaData rootA {
    f64 As,
    f64 int `two words`,
    f32 body `say ""hi""`,
    zchar[4294967296] x,// a // b
    uint32 lengthOf `
    `,
}

root packet pack {
    match pack as repeatCount {
        ""CRC32"" : crc,
        1 : calculatedFrom,
        [""packet"", ""{,}"", 10, ""a\\""] : float,
        //	t
        ""packet"" : _x,
        10 : o,
    },
    match a1 as T {
        65535 : Z9_,
        0 : _x,
    },
    u64 Pad `" ++ [233]%N ++ runes_of_ascii "`,
    @calculatedFrom(""packet"")
    MetaDataX pack,
    char[007] uint8x,
    i8i8 @lengthOf(msg_type) `u8 x,`,
    @rightPad('\x00')
    string_ `" ++ [233]%N ++ runes_of_ascii "`,
}

root packet a1 {
}

MetaData x_y_z {
    i16 roots `say ""hi""`,
}")).
Eval vm_compute in ("<<<M312>>>" ++ check (runes_of_ascii "
packet
    u { // @lengthOf(
match Foo as
    a1 {
[ 65535 ]
    //
    : chars, }	, body
@calculatedFrom(
    // `tick` ""quote"" 'q'
    ""CRC32""
    ) ,
// trailing space 
// `tick` ""quote"" 'q'
char[ //	t
0 ]
    matchKey @calculatedFrom(""\" ++ [233]%N ++ runes_of_ascii """
) ,}
// trailing space 
// " ++ [27880; 37322]%N ++ runes_of_ascii "
packet crc {
}packet Foo{ @calculatedFrom(	""" ++ [28040; 24687]%N ++ runes_of_ascii """	)@tag(
7 ) @calculatedFrom( ""\" ++ [233]%N ++ runes_of_ascii """ ) match
    stringy as pack	{// `tick` ""quote"" 'q'
7
    : string_,
    3 : calculatedFrom  ,""`tick`"" : i64_, [ """ ++ [128512]%N ++ runes_of_ascii """
    // c
    ]
: tag
    , [ ""CRC32""	]
    :rootA , } ,packetx
@lengthOf(
    calculatedFrom// @lengthOf(
)
    `a\`
,
i32
Foo ,i16 calculatedFrom,}
")).
Eval vm_compute in ("<<<M4167>>>" ++ check (runes_of_ascii "

  MetaData
	asx	{u8
    u128	`100% of %d` ,

}
	root

packet 
packetx
{
}
	packet  options1
	{@tag(007)
	char[ 
0// a // b
	] lengthOf 

    // trailing space 
	, char[
4294967296]

rootA 
,

@tag( 
    /// triple

//
	3
    ) u @lengthOf(
    _x )
	,i64  zchar
	@calculatedFrom(
""\n"")
	,  lengthOf  // trailing space 
      int , @lengthOf(
    Packet
) 
@lengthOf(
	Logon
)  string  f32a`tab	here`

    , 
repeat	//x
  	string

packetx,@calculatedFrom(

""" ++ [128512]%N ++ runes_of_ascii """

)

    @calculatedFrom(""\" ++ [233]%N ++ runes_of_ascii """	)	repeat
	f32a 
      // 50% %s
calculatedFrom , }root

packet  len {
}  
  // trailing space 
 
")).
Eval vm_compute in ("<<<M940>>>" ++ check (runes_of_ascii "packet options1 {repeat	A /// triple
{	BodyLength@calculatedFrom(  ""abc"" ) `line1
line2` , //
}	,
u64 chars
    `{ , }`  ,
@calculatedFrom(""\n"" )u16
_x, u16 As ,
    // " ++ [128512]%N ++ runes_of_ascii " emoji
    match  u as pack {  1 :x_y_z , } , @tag(// trailing space 
4294967296
) @calculatedFrom( ""a\\"" )
    @leftPad(
    // " ++ [128512]%N ++ runes_of_ascii " emoji
    ' ' ) uint64
chars@lengthOf(
    Pad
// a // b
//	t
) ,@leftPad ( '0'
    ) char[] o	,
@calculatedFrom(
    ""\" ++ [233]%N ++ runes_of_ascii """ )
char charz @lengthOf(
    T ), repeat
    // " ++ [27880; 37322]%N ++ runes_of_ascii "
    msg_type rootA, @leftPad
(  ' ' )@tag( 1 )char[
0 ]
    MetaDataX @lengthOf( Foo
) , }
")).
Eval vm_compute in ("<<<M519>>>" ++ check (runes_of_ascii "root packet
    //
    charz { i8i8	@calculatedFrom( ""a\\""
    ) , body
roots ,
} packet  msg_type{@lengthOf( asx// " ++ [128512]%N ++ runes_of_ascii " emoji
) repeat Header { match BodyLength
as msg_type {[
    00 ,
// c
//x
3// packet A { u8 x, }
]: BodyLength , [ 0123456789
    , ""it's""  ]: charz // " ++ [27880; 37322]%N ++ runes_of_ascii "
0123456789 : msg_type }  , char[ 42
    ]
i64_
@calculatedFrom(
""packet""	)
    `a\` , zchar[ 0 ]
options1`tab	here` ,} , @calculatedFrom( ""\n"" ) zchar[	255 ] msg_type , //x
match
    repeatCount as
    repeatCount {42 : rootA ,}, } options{
calculatedFrom = true  }")).
Eval vm_compute in ("<<<M1230>>>" ++ check (runes_of_ascii "root	packet
    // `tick` ""quote"" 'q'
    _x {  @lengthOf(
f32a
    )
@lengthOf( x	)  @calculatedFrom( ""a	b"") calculatedFrom
int `a\`
, @tag(
007 ) u8x	,
    @leftPad
(  '0' ) //
u64
u128@lengthOf(rootA
    )
    ,  @calculatedFrom( ""{,}"" /// triple
)matchKey BodyLength, }
// " ++ [128512]%N ++ runes_of_ascii " emoji
// c
MetaData i64_ { Logon // packet A { u8 x, }
T
,}packet
    lengthOf
{
repeat
    // trailing space 
    Z9_{ zchar[ 007 ] Header@calculatedFrom( ""it's"" ) ,A{
char[] Header //x
`two words`
    ,	}, string //	t
i8i8 `crlf
line` , } , }")).
Eval vm_compute in ("<<<M4024>>>" ++ check (runes_of_ascii "MetaData
Z9_
    {stringy // 50% %s

chars
`" ++ [28040; 24687; 31867; 22411]%N ++ runes_of_ascii "` ,
	uint32

leftPad // @lengthOf(
	`
` 
, u128
stringy `crlf
line` ,  // c
  u16
    packetx , } packet
len {}	root	packet 
matchKey {
match 
Header
as f32a {

    0123456789
:
    lengthOf
    ,
[ ""`tick`"" 
	// a // b
	  ,""packet""

,
""" ++ [233]%N ++ runes_of_ascii "t" ++ [233]%N ++ runes_of_ascii """ 
]
    :
repeatCount	,

    [// " ++ [27880; 37322]%N ++ runes_of_ascii "
    4294967296	, 
""// no comment"" 
,
7
    ]  :
Packet
00:
options1

    ,
	007
:  trueish ,
	""" ++ [28040; 24687]%N ++ runes_of_ascii """
	:
i8i8

    ,}
//
		//x
  , }
    options{
}
	    //
")).
Eval vm_compute in ("<<<M165>>>" ++ check (runes_of_ascii "  options
    // `tick` ""quote"" 'q'
    { o// " ++ [27880; 37322]%N ++ runes_of_ascii "
=
    // a // b
    ""a	b"" uint8x = u64 // " ++ [27880; 37322]%N ++ runes_of_ascii "
} packet options1
{ @tag( 007 ) roots
@calculatedFrom(  ""CRC32"") , } MetaData
    A{ options1 x
`100% of %d` ,
    len f32a `{ , }` ,
    int16 a1// 50% %s
`tab	here`	, float
    crc	,
    }root packet As {  @lengthOf( uint8x ) @calculatedFrom( """")@rightPad ( '0' ) repeat
    matchKey
    {	i64 charz , } ,
    tag // a // b
,@lengthOf( roots
)	repeat char[ 42 ] // " ++ [128512]%N ++ runes_of_ascii " emoji
Logon ,}")).
Eval vm_compute in ("<<<M4416>>>" ++ check (runes_of_ascii "options {
}

root packet x {
}

packet tag {
}

packet Logon {
    @rightPad()
    zchar[00] u8x @calculatedFrom(""it's"") `it's`,// `tick` ""quote"" 'q'
    zchar[4294967296] trueish @calculatedFrom(""it's"") `tab	here`,// @lengthOf(
    @calculatedFrom(""\" ++ [233]%N ++ runes_of_ascii """)
    @calculatedFrom(""" ++ [233]%N ++ runes_of_ascii "t" ++ [233]%N ++ runes_of_ascii """)
    u32 options1 `" ++ [233]%N ++ runes_of_ascii "`,
    @tag(7)
    msg_type @lengthOf(stringy),
    char[007] asx `two words`,//
    @lengthOf(T)
    @rightPad('\x00')
    o chars,
}

root packet asx {
}")).
Eval vm_compute in ("<<<M462>>>" ++ check (runes_of_ascii "// trailing space 
root // `tick` ""quote"" 'q'
packet// `tick` ""quote"" 'q'
roots{	match crc as	Pad
{
0: float
[
    00, ""\n"" ,
//x
// trailing space 
0,
""`tick`"", 65535 ,
    // `tick` ""quote"" 'q'
    """"
, """ ++ [28040; 24687]%N ++ runes_of_ascii """, 4294967296
]:
    // @lengthOf(
    Z9_ , },
}
    root packet chars {// c
@rightPad ( ' ' )	falsey
{ rootA , } ,zchar[
    0123456789 ]
// 50% %s
// " ++ [27880; 37322]%N ++ runes_of_ascii "
msg_type  @lengthOf( asx ) //	t
,
    u @calculatedFrom( ""a	b""
)
`a\` , }
")).
Eval vm_compute in ("<<<M3787>>>" ++ check (runes_of_ascii "// " ++ [128512]%N ++ runes_of_ascii " emoji
packet asx {
    // c
    match o as packetx {
        [
            1, 65535, 007, """ ++ [233]%N ++ runes_of_ascii "t" ++ [233]%N ++ runes_of_ascii """, ""{,}"",
            """ ++ [233]%N ++ runes_of_ascii "t" ++ [233]%N ++ runes_of_ascii """
        ] : stringy,
        ""// no comment"" : body,
        ""\" ++ [233]%N ++ runes_of_ascii """ : body,
        ""CRC32"" : int,
        65535 : o,
    },
    @leftPad(' ')
    @calculatedFrom(""it's"")
    @calculatedFrom(""// no comment"")
    repeat asx {
        x,
        char[42] msg_type,
    },
    @lengthOf(As)
    T tag,
}")).
Eval vm_compute in ("<<<M1277>>>" ++ check (runes_of_ascii "root
packet //x
float {
// " ++ [27880; 37322]%N ++ runes_of_ascii "
// " ++ [27880; 37322]%N ++ runes_of_ascii "
@calculatedFrom( ""\" ++ [233]%N ++ runes_of_ascii """
    //x
    )
    uint8x {
match metadata as len { [
    // `tick` ""quote"" 'q'
    """ ++ [28040; 24687]%N ++ runes_of_ascii """ ,0
    ] : float
    [
65535 ,4294967296 ]: asx, } ,
match A as
f32a {
    7
    //x
    : stringy  }
    ,
}
, @tag(
// `tick` ""quote"" 'q'
/// triple
255
/// triple
/// triple
)chars leftPad // trailing space 
,}
packet  lengthOf { repeat lengthOf a1 `
` ,  }")).
Eval vm_compute in ("<<<M3947>>>" ++ check (runes_of_ascii "root
	packet 
//x

  o
{
    @tag(
65535 )	// c
    	rootA	@calculatedFrom(
	""a	b"")
    `two words`
,
// a // b
    } 
// a // b
    root 
packet  
      // trailing space 
    Foo
	{@lengthOf( 
x_y_z  )@tag(	0123456789) //x
@calculatedFrom(  """ ++ [128512]%N ++ runes_of_ascii """
	)

i8i8 ,f32 int	/// triple
    , @calculatedFrom( ""it's""
    )	i64
	MetaDataX

    @calculatedFrom( ""x y""
) 
``
    , 
} packet

zchar
{
	}")).
Eval vm_compute in ("<<<M1009>>>" ++ check (runes_of_ascii "MetaData//	t
zchar	{ charz
tag `say ""hi""`,char[
10] string_ , // 50% %s
u16
u8x // " ++ [27880; 37322]%N ++ runes_of_ascii "
`100% of %d`, zchar[
    1
// `tick` ""quote"" 'q'
// a // b
]	calculatedFrom`line1
line2`, float32 string_ `" ++ [233]%N ++ runes_of_ascii "`,} packet
    Pad { char[  007
    /// triple
    ] As , As @calculatedFrom( ""\" ++ [233]%N ++ runes_of_ascii """ ) `
` , crc
`100% of %d`,
    // c
    @tag( 4294967296 ) @calculatedFrom( """ ++ [128512]%N ++ runes_of_ascii """ )
    f32 u8x,}
")).
Eval vm_compute in ("<<<M906>>>" ++ check (runes_of_ascii "root packet u
    { match T as zchar {	""packet""
:u8x ,
[ ""{,}"" ] :// c
x ,	1 :	i64_ , }, zchar[
    00 ] Z9_
`u8 x,`,match pack as float {
""abc"" :  u128
    , 65535 :
matchKey""\" ++ [233]%N ++ runes_of_ascii """ : pack	""abc"":asx /// triple
, [00,3 ]: u8x , 0 : // @lengthOf(
Packet, } ,
} options{ trueish =
    '0'} MetaData tag
    {uint64
    charz , // @lengthOf(
} // packet A { u8 x, }")).
Eval vm_compute in ("<<<M1092>>>" ++ check (runes_of_ascii "root
// a // b
// " ++ [128512]%N ++ runes_of_ascii " emoji
packet u { @calculatedFrom(
    ""\" ++ [233]%N ++ runes_of_ascii """ )matchKey@calculatedFrom( ""a\""b"" ) , match
    uint8x
    as MetaDataX { [
4294967296 ] :  int ,
    [
    10,""" ++ [128512]%N ++ runes_of_ascii """  ] : zchar 65535: A,""// no comment"" :MetaDataX ,} , match f32a as A // " ++ [27880; 37322]%N ++ runes_of_ascii "
{
[""{,}""
    ] :
// " ++ [128512]%N ++ runes_of_ascii " emoji
/// triple
chars
""" ++ [28040; 24687]%N ++ runes_of_ascii """
    :	Pad,} , char[]o`crlf
line`// a // b
, }
")).
Eval vm_compute in ("<<<M981>>>" ++ check (runes_of_ascii "
packet uint8x
{uint8x
charz	`100% of %d`
    // c
    ,
@rightPad ( ' '
    ) repeat
roots { zchar[ 42 ]_x
, asx ,
match i64_ as f32a{	""a\\"": falsey , 0 :
options1 , ""1"" // @lengthOf(
:
x , 0 :
    //
    u128 , [ 00 , 4294967296/// triple
]
: len , [// c
""`tick`"" ,
    //x
    ""packet"" ,	7
    ,
    3 , """ ++ [233]%N ++ runes_of_ascii "t" ++ [233]%N ++ runes_of_ascii """ ] :
A , } , } , }
")).
Eval vm_compute in ("<<<M4032>>>" ++ check (runes_of_ascii "
packet stringy
	{

@lengthOf(
As	// trailing space 
)

    char[ 4294967296
	] 
  // trailing space 
    // " ++ [128512]%N ++ runes_of_ascii " emoji

o
	, 
}
	root

    packet f32a{	@rightPad 
(  '0' )

uint16 
u8x@lengthOf(
	Pad
    )

`a\`  ,  }
MetaData

Packet

{
i64_
o	,uint64
    u128 ,
As
    x
,

    u32

    f32a  ,// 50% %s
	  }

")).
Eval vm_compute in ("<<<M1365>>>" ++ check (runes_of_ascii "// @lengthOf(
packet  Z9_
{ @tag(
7 // " ++ [128512]%N ++ runes_of_ascii " emoji
) @tag(
10 ) @lengthOf( u )
    repeat
metadata
    {	repeat asx`100% of %d`  , repeat x_y_z, repeat u16  Pad `" ++ [233]%N ++ runes_of_ascii "` , match leftPad as
    trueish {65535 :
packetx/// triple
, 4294967296	: trueish,[ ""a\""b""
, ""\" ++ [233]%N ++ runes_of_ascii """ ]
:
chars
,7 : a1[""" ++ [28040; 24687]%N ++ runes_of_ascii """ ]: falsey, } , }
    , }")).
Eval vm_compute in ("<<<M4281>>>" ++ check (runes_of_ascii "MetaData stringy {
    zchar[7] x_y_z,
    zchar[007] A,
    string As `
    `,
}

root packet tag {
    @leftPad()
    match _x as _x {
        255 : chars,
        10 : roots,
        3 : Foo,
        [""{,}"", ""packet""] : u,
        //x
        //
        00 : x_y_z,
        1 : i64_,
    },
}")).
Eval vm_compute in ("<<<M1972>>>" ++ check (runes_of_ascii "packet	packetx { // trailing space 
x_y_z
{
string
charz ,
string x// @lengthOf(
`two words`
    ,  u8x { // `tick` ""quote"" 'q'
charz `100% of %d` // packet A { u8 x, }
,}// " ++ [27880; 37322]%N ++ runes_of_ascii "
,} , }
    // a // b
    packet metadata {  @leftPad @leftPad ( '0') repeat i32 options1 ,u64 uint8x , }
")).
Eval vm_compute in ("<<<M1864>>>" ++ check (runes_of_ascii "packet	packetx { // trailing space 
@rightPad
{
string
charz ,
string x// @lengthOf(
`two words`
    ,  u8x { // `tick` ""quote"" 'q'
charz `100% of %d` // packet A { u8 x, }
,}// " ++ [27880; 37322]%N ++ runes_of_ascii "
,} , }
    // a // b
    packet metadata {  @leftPad ( '0') repeat i32 options1 ,u64 uint8x , }
")).
Eval vm_compute in ("<<<M1947>>>" ++ check (runes_of_ascii "packet	packetx { // trailing space 
x_y_z
{
string
charz ,
string x// @lengthOf(
`two words`
    ,  u8x { // `tick` ""quote"" 'q'
charz `100% of %d` // packet A { u8 x, }
,}// " ++ [27880; 37322]%N ++ runes_of_ascii "
,} , , }
    // a // b
    packet metadata {  @leftPad ( '0') repeat i32 options1 ,u64 uint8x , }
")).
Eval vm_compute in ("<<<M1888>>>" ++ check (runes_of_ascii "packet	packetx { // trailing space 
x_y_z
{
string
charz ,
x string// @lengthOf(
`two words`
    ,  u8x { // `tick` ""quote"" 'q'
charz `100% of %d` // packet A { u8 x, }
,}// " ++ [27880; 37322]%N ++ runes_of_ascii "
,} , }
    // a // b
    packet metadata {  @leftPad ( '0') repeat i32 options1 ,u64 uint8x , }
")).
Eval vm_compute in ("<<<M4086>>>" ++ check (runes_of_ascii "packet T {
    char[] metadata @calculatedFrom(""abc"") `line1
        line2`,
}

packet body {
    repeat len i64_,
}

packet float {
    @leftPad('0')
    // " ++ [27880; 37322]%N ++ runes_of_ascii "
    i32 Header @calculatedFrom(""a	b""),
    /// triple
    // " ++ [27880; 37322]%N ++ runes_of_ascii "
    string Logon @calculatedFrom(""a	b""),
    rootA,
}")).
Eval vm_compute in ("<<<M1906>>>" ++ check (runes_of_ascii "packet	packetx { // trailing space 
x_y_z
{
string
charz ,
string x// @lengthOf(
`two words`
    ,   { // `tick` ""quote"" 'q'
charz `100% of %d` // packet A { u8 x, }
,}// " ++ [27880; 37322]%N ++ runes_of_ascii "
,} , }
    // a // b
    packet metadata {  @leftPad ( '0') repeat i32 options1 ,u64 uint8x , }
")).
Eval vm_compute in ("<<<M1991>>>" ++ check (runes_of_ascii "packet	packetx { // trailing space 
x_y_z
{
string
charz ,
string x// @lengthOf(
`two words`
    ,  u8x { // `tick` ""quote"" 'q'
charz `100% of %d` // packet A { u8 x, }
,}// " ++ [27880; 37322]%N ++ runes_of_ascii "
,} , }
    // a // b
    packet metadata {  @leftPad ( '0')  i32 options1 ,u64 uint8x , }
")).
Eval vm_compute in ("<<<M1896>>>" ++ check (runes_of_ascii "packet	packetx { // trailing space 
x_y_z
{
string
charz ,
string x// @lengthOf(

    ,  u8x { // `tick` ""quote"" 'q'
charz `100% of %d` // packet A { u8 x, }
,}// " ++ [27880; 37322]%N ++ runes_of_ascii "
,} , }
    // a // b
    packet metadata {  @leftPad ( '0') repeat i32 options1 ,u64 uint8x , }
")).
Eval vm_compute in ("<<<M3508>>>" ++ check (runes_of_ascii "packet MDSnapshotZZ {
    u8 a,
}
packet OrderACK {
    u16 b,
}
packet HTTPServerInfo {
    string s,
}
root packet FIXMsg {
    u8 KType,
    MDSnapshotZZ,
    repeat OrderACK,
    match KType as Body {
        1 : HTTPServerInfo,
        2 : OrderACK,
    },
}
")).
Eval vm_compute in ("<<<M2208>>>" ++ check (runes_of_ascii "packet// packet A { u8 x, }
repeatCount	{// packet A { u8 x, }
@leftPad ( '\x00'
) repeat na" ++ [239]%N ++ runes_of_ascii "ve MetaDataX `crlf
line`,
    repeat
    char[] MetaDataX
    ,
u64	uint8x@calculatedFrom(""a\""b""
// c
// packet A { u8 x, }
) `tab	here`
,//
}MetaData pack
    {
    }
")).
Eval vm_compute in ("<<<M2092>>>" ++ check (runes_of_ascii "packet// packet A { u8 x, }
repeatCount	{// packet A { u8 x, }
@leftPad ( '\x00'
) repeat f32 MetaDataX `crlf
line`,
    repeat
    char[] MetaDataX
    ,
u64	uint8x@calculatedFrom(""a\""b""
// c
// packet A { u8 x, }
) `tab	here`
,//
}MetaData pack
    {
    }
")).
Eval vm_compute in ("<<<M2177>>>" ++ check (runes_of_ascii "packet// packet A { u8 x, }
repeatCount	{// packet A { u8 x, }
@leftPad ( '\x00'
) repeat u8x MetaDataX `crlf
line`,
    repeat
    char[] MetaDataX
    ,
u64	uint8x@calculatedFrom(""a\""b""
// c
// packet A { u8 x, }
) `tab	here`
,//
}MetaData i32
    {
    }
")).
Eval vm_compute in ("<<<M1554>>>" ++ check (runes_of_ascii "packet calculatedFrom
{ @calculatedFrom( ""a\\"" ) zchar[ 4294967296 ]
calculatedFrom@lengthOf( pack )	`100% of %d` ,char[]body@calculatedFrom( ""// no comment"" )  ,
@tag( 007) //x
int8
leftPad`it's` , repeat repeat pack
    { repeat char[ 3] body
,},
}")).
Eval vm_compute in ("<<<M2064>>>" ++ check (runes_of_ascii "packet// packet A { u8 x, }
repeatCount	{// packet A { u8 x, }
 ( '\x00'
) repeat u8x MetaDataX `crlf
line`,
    repeat
    char[] MetaDataX
    ,
u64	uint8x@calculatedFrom(""a\""b""
// c
// packet A { u8 x, }
) `tab	here`
,//
}MetaData pack
    {
    }
")).
Eval vm_compute in ("<<<M1549>>>" ++ check (runes_of_ascii "packet calculatedFrom
{ @calculatedFrom( ""a\\"" ) zchar[ 4294967296 ]
calculatedFrom@lengthOf( pack )	`100% of %d` ,char[]body@calculatedFrom( ""// no comment"" )  ,
@tag( 007) //x
int8
leftPad`it's` , , repeat pack
    { repeat char[ 3] body
,},
}")).
Eval vm_compute in ("<<<M1628>>>" ++ check ([127]%N ++ runes_of_ascii "packet calculatedFrom
{ @calculatedFrom( ""a\\"" ) zchar[ 4294967296 ]
calculatedFrom@lengthOf( pack )	`100% of %d` ,char[]body@calculatedFrom( ""// no comment"" )  ,
@tag( 007) //x
int8
leftPad`it's` , repeat pack
    { repeat char[ 3] body
,},
}")).
Eval vm_compute in ("<<<M1515>>>" ++ check (runes_of_ascii "packet calculatedFrom
{ @calculatedFrom( ""a\\"" ) zchar[ 4294967296 ]
calculatedFrom@lengthOf( pack )	`100% of %d` ,char[]body@calculatedFrom( ""// no comment"" )  @tag(
, 007) //x
int8
leftPad`it's` , repeat pack
    { repeat char[ 3] body
,},
}")).
Eval vm_compute in ("<<<M1563>>>" ++ check (runes_of_ascii "packet calculatedFrom
{ @calculatedFrom( ""a\\"" ) zchar[ 4294967296 ]
calculatedFrom@lengthOf( pack )	`100% of %d` ,char[]body@calculatedFrom( ""// no comment"" )  ,
@tag( 007) //x
int8
leftPad`it's` , repeat pack
     repeat char[ 3] body
,},
}")).
Eval vm_compute in ("<<<M1431>>>" ++ check (runes_of_ascii "packet calculatedFrom
{ repeatCount ""a\\"" ) zchar[ 4294967296 ]
calculatedFrom@lengthOf( pack )	`100% of %d` ,char[]body@calculatedFrom( ""// no comment"" )  ,
@tag( 007) //x
int8
leftPad`it's` , repeat pack
    { repeat char[ 3] body
,},
}")).
Eval vm_compute in ("<<<M1463>>>" ++ check (runes_of_ascii "packet calculatedFrom
{ @calculatedFrom( ""a\\"" ) zchar[ 4294967296 ]
calculatedFrom pack )	`100% of %d` ,char[]body@calculatedFrom( ""// no comment"" )  ,
@tag( 007) //x
int8
leftPad`it's` , repeat pack
    { repeat char[ 3] body
,},
}")).
Eval vm_compute in ("<<<M3361>>>" ++ check (runes_of_ascii "// top
MetaData // c0
_x
    // c1
{
    // c2
f64 charz // c4
`tab	here` // c5a
  // c5b
,
    // c6
}
    // c7
options // c8a
  // c8b
{ BodyLength // c10a
  // c10b
= """ ++ [233]%N ++ runes_of_ascii "t" ++ [233]%N ++ runes_of_ascii """ // c12a
  // c12b
;
    // c13
} // c14a
  // c14b
")).
Eval vm_compute in ("<<<M4248>>>" ++ check (runes_of_ascii "packet repeatCount {
    // packet A { u8 x, }
    @leftPad('\x00')
    repeat u8x MetaDataX `crlf
        line`,
    repeat char[] MetaDataX,
    u64 uint8x @calculatedFrom(""a\""b"") `tab	here`,//
}

MetaData pack {
}")).
Eval vm_compute in ("<<<M959>>>" ++ check (runes_of_ascii "  root packet
// `tick` ""quote"" 'q'
// trailing space 
i64_ { match leftPad as roots { 0// " ++ [27880; 37322]%N ++ runes_of_ascii "
: Z9_
,
} , } packet MetaDataX { } root
packet x {
char[ 00
// " ++ [27880; 37322]%N ++ runes_of_ascii "
//x
]int @lengthOf(roots	)
``// " ++ [128512]%N ++ runes_of_ascii " emoji
,}
")).
Eval vm_compute in ("<<<M1241>>>" ++ check (runes_of_ascii "root packet msg_type
    {packetx T ,
} options
    {	matchKey
= 1 ; } packet
    u { repeat
// packet A { u8 x, }
/// triple
char[ 7 ]
    i8i8`it's` , }  options
    {
BodyLength
    =//	t
""" ++ [128512]%N ++ runes_of_ascii """
}
")).
Eval vm_compute in ("<<<M3627>>>" ++ check (runes_of_ascii "
/// triple
options 
        // " ++ [27880; 37322]%N ++ runes_of_ascii "
    // c

	{ u8x

= u64// `tick` ""quote"" 'q'
	lengthOf	=""a	b""lengthOf

    =	' ' 
;
    T  =
    '\x00'  // @lengthOf(
; 	 // @lengthOf(
	  } //	t
")).
Eval vm_compute in ("<<<M504>>>" ++ check (runes_of_ascii "packet
Pad  { @lengthOf( leftPad
) i32 msg_type
, /// triple
@tag(
    //
    4294967296 ) uint8x
@lengthOf(
// packet A { u8 x, }
//	t
string_ )`// not a comment` ,float64 leftPad , }")).
Eval vm_compute in ("<<<M1283>>>" ++ check (runes_of_ascii "
MetaData lengthOf{ metadata
roots `crlf
line`
, } packet // `tick` ""quote"" 'q'
f32a{	} root
packet MetaDataX	{char uint8x `tab	here`
    , } // 50% %s
root packet a1 {}

")).
Eval vm_compute in ("<<<M1327>>>" ++ check (runes_of_ascii "
root packet trueish{}
root
packet T{repeat
asx float, }
MetaData repeatCount
{ /// triple
Packet falsey ,
} MetaData Z9_ {
zchar[
7]	Foo
// 50% %s
//
, }
/// triple
")).
Eval vm_compute in ("<<<M2428>>>" ++ check (runes_of_ascii "
packet MetaDataX
{
    @leftPad
( // a // b
'0'
) i8 u @lengthOf(
MetaDataX
    ) `say ""hi""` ,	} MetaData BodyLength {
    asx
x_y_z `" ++ [233]%N ++ runes_of_ascii "`
, uint64 uint64 u128 , }
")).
Eval vm_compute in ("<<<M4548>>>" ++ check (runes_of_ascii "// top
  MetaData 
	// c0
	zchar 

// c1
	{ 
	// c2
	zchar[ 
        // c3
	3 

    // c4
		]
	// c5
    	Pad 

// c6
	  , 
      // c7
  }

    // c8
 
")).
Eval vm_compute in ("<<<M2391>>>" ++ check (runes_of_ascii "
packet MetaDataX
{
    @leftPad
( // a // b
'0'
) i8 u @lengthOf(
MetaDataX
    ) `say ""hi""` ,	} MetaData BodyLength { {
    asx
x_y_z `" ++ [233]%N ++ runes_of_ascii "`
, uint64 u128 , }
")).
Eval vm_compute in ("<<<M683>>>" ++ check (runes_of_ascii "MetaData Logon { int Z9_, } packet zchar {
    @calculatedFrom( ""\n"" )
zchar[
4294967296 ]  msg_type ,	@tag(
65535 )stringy@lengthOf(A
) `say ""hi""`
    , }
")).
Eval vm_compute in ("<<<M1658>>>" ++ check (runes_of_ascii "options { } packet Packet{ {char[] i64_ ,
@tag(
    255) match
crc as i8i8{""{,}"" : trueish """" : Pad , ""a\\"" :
Foo ,
    1 :packetx
, """ ++ [128512]%N ++ runes_of_ascii """ : trueish , } , }")).
Eval vm_compute in ("<<<M2440>>>" ++ check (runes_of_ascii "
packet MetaDataX
{
    @leftPad
( // a // b
'0'
) i8 u @lengthOf(
MetaDataX
    ) `say ""hi""` ,	 MetaData BodyLength {
    asx
x_y_z `" ++ [233]%N ++ runes_of_ascii "`
, uint64 u128 , }
")).
Eval vm_compute in ("<<<M1641>>>" ++ check (runes_of_ascii "options = } packet Packet{char[] i64_ ,
@tag(
    255) match
crc as i8i8{""{,}"" : trueish """" : Pad , ""a\\"" :
Foo ,
    1 :packetx
, """ ++ [128512]%N ++ runes_of_ascii """ : trueish , } , }")).
Eval vm_compute in ("<<<M1794>>>" ++ check (runes_of_ascii "options { } packet Packet{char[] i64_ ,
@tag(
    255) match
crc as i8i8{""{,}"" : trueish """" : Pad , ""a\\"" :
Foo ,
    1 :packetx
, : """ ++ [128512]%N ++ runes_of_ascii """ trueish , } , }")).
Eval vm_compute in ("<<<M1807>>>" ++ check (runes_of_ascii "options { } packet Packet{char[] i64_ ,
@tag(
    255) match
crc as i8i8{""{,}"" : trueish """" : Pad , ""a\\"" :
Foo ,
    1 :packetx
, """ ++ [128512]%N ++ runes_of_ascii """ : trueish  } , }")).
Eval vm_compute in ("<<<M192>>>" ++ check (runes_of_ascii "options {a1
= // " ++ [27880; 37322]%N ++ runes_of_ascii "
1 ;
tag =
    string
    ;}
packet// " ++ [27880; 37322]%N ++ runes_of_ascii "
u{float32 leftPad `// not a comment` , } packet int { }
    options {
    Logon=""{,}"" ; }
")).
Eval vm_compute in ("<<<M1752>>>" ++ check (runes_of_ascii "options { } packet Packet{char[] i64_ ,
@tag(
    255) match
crc as i8i8{""{,}"" : trueish """" : Pad ,  :
Foo ,
    1 :packetx
, """ ++ [128512]%N ++ runes_of_ascii """ : trueish , } , }")).
Eval vm_compute in ("<<<M3795>>>" ++ check (runes_of_ascii "packet chars {
    repeat char[0123456789] repeatCount,
    body Foo,
    @calculatedFrom(""\n"")
    char[] int @lengthOf(len),
    // @lengthOf(
}")).
Eval vm_compute in ("<<<M738>>>" ++ check (runes_of_ascii "packet body {  match body as	x {
42:msg_type 255 : options1 65535 : u
    //
    ,
//	t
// " ++ [27880; 37322]%N ++ runes_of_ascii "
""" ++ [233]%N ++ runes_of_ascii "t" ++ [233]%N ++ runes_of_ascii """ : a1""packet"": lengthOf
,  } // " ++ [27880; 37322]%N ++ runes_of_ascii "
, }
")).
Eval vm_compute in ("<<<M170>>>" ++ check (runes_of_ascii "  packet falsey {
repeat leftPad {
repeat i64_// " ++ [128512]%N ++ runes_of_ascii " emoji
pack `// not a comment`
    // packet A { u8 x, }
    ,}
// " ++ [128512]%N ++ runes_of_ascii " emoji
// " ++ [27880; 37322]%N ++ runes_of_ascii "
,
}
")).
Eval vm_compute in ("<<<M3464>>>" ++ check (runes_of_ascii "options {
    LittleEndian = true;
}
packet B {
    u8 a,
    string s,
}
root packet P {
    u16 L @lengthOf(B),
    B,
    u8 t,
}
")).
Eval vm_compute in ("<<<M3674>>>" ++ check (runes_of_ascii "MetaData As {
    roots tag,
    u32 a1 ``,
    crc packetx,
    BodyLength A `crlf
        line`,
}

options {
    a1 = true
}")).
Eval vm_compute in ("<<<M3270>>>" ++ check (runes_of_ascii "MetaData metadata { } MetaData // c
rootA { i8 i64_ , roots options1 `a\` , lengthOf Header , Z9_ Foo , int16 BodyLength , }")).
Eval vm_compute in ("<<<M3302>>>" ++ check (runes_of_ascii "MetaData metadata { } MetaData rootA { i8 i64_ , roots options1 `a\` , lengthOf Header , Z9_ Foo , int16 // c
BodyLength , }")).
Eval vm_compute in ("<<<M980>>>" ++ check (runes_of_ascii "options {
    Packet
=""\n"" i64_
// trailing space 
// packet A { u8 x, }
= i32 ; Z9_ =
char[ 00 ] metadata
= uint64 }
")).
Eval vm_compute in ("<<<M3597>>>" ++ check (runes_of_ascii "MetaData float {
    uint8 BodyLength,
}

MetaData charz {
    float32 trueish `a\`,
    i16 metadata `say ""hi""`,
}")).
Eval vm_compute in ("<<<M3984>>>" ++ check (runes_of_ascii "MetaData charz {
    // " ++ [27880; 37322]%N ++ runes_of_ascii "
    char[65535] i64_,
    tag msg_type `say ""hi""`,
    // trailing space 
    //	t
}")).
Eval vm_compute in ("<<<M3341>>>" ++ check (runes_of_ascii "MetaData float { uint8 BodyLength , } MetaData charz { float32 trueish
// c
`a\` , i16 metadata `say ""hi""` , }")).
Eval vm_compute in ("<<<M354>>>" ++ check (runes_of_ascii "MetaData Pad{
// @lengthOf(
//
} //x
MetaData
T { repeatCount a1 `say ""hi""`	,// trailing space 
} // 50% %s")).
Eval vm_compute in ("<<<M3004>>>" ++ check (runes_of_ascii "packet A {
  match k as n {
    [""a"", 22, ""c c"", 4, ""e"", 66, ""g"", 8, ""i"", 10, ""k""] : B,
    2 : C
  },
}")).
Eval vm_compute in ("<<<M520>>>" ++ check (runes_of_ascii "root packet f32a  {}MetaData o {
u64 u , /// triple
o uint8x
, }
packet A{ // `tick` ""quote"" 'q'
}
")).
Eval vm_compute in ("<<<M2439>>>" ++ check (runes_of_ascii "
packet MetaDataX
{
    @leftPad
( // a // b
'0'
) i8 u @lengthOf(
MetaDataX
    ) `say ""hi""` ,	}")).
Eval vm_compute in ("<<<M3461>>>" ++ check (runes_of_ascii "packet B {
    u8 a,
    string s,
}
root packet P {
    u16 L @lengthOf(B),
    B,
    u8 t,
}
")).
Eval vm_compute in ("<<<M635>>>" ++ check (runes_of_ascii "packet  msg_type {
    } MetaData
    stringy { char[]packetx , }root packet
repeatCount{ }
")).
Eval vm_compute in ("<<<M911>>>" ++ check (runes_of_ascii "options	{
len =
char[ 00
// @lengthOf(
//
]
    ; calculatedFrom=
    ""x y"";
u8x = """ ++ [28040; 24687]%N ++ runes_of_ascii """ }")).
Eval vm_compute in ("<<<M2277>>>" ++ check (runes_of_ascii "MetaData _x {string x `// not a comment` , string
i?64_ // trailing space 
`a\` ,
    }
")).
Eval vm_compute in ("<<<M2251>>>" ++ check (runes_of_ascii "MetaData _x {string x `// not a comment` , string
`a\` // trailing space 
i64_ ,
    }
")).
Eval vm_compute in ("<<<M3747>>>" ++ check (runes_of_ascii "
packet

A
{
Inner {

match	k
as n {	[
1 ,  22 ,

007,
    4,
	5]:
B
, }
,
	}, }
")).
Eval vm_compute in ("<<<M3496>>>" ++ check (runes_of_ascii "packet order_item {
    u8 a,
}
root packet new_order {
    order_item,
    u8 x,
}
")).
Eval vm_compute in ("<<<M1142>>>" ++ check (runes_of_ascii "packet As { calculatedFrom @lengthOf( MetaDataX )
`100% of %d`
    // " ++ [27880; 37322]%N ++ runes_of_ascii "
    , }
")).
Eval vm_compute in ("<<<M239>>>" ++ check (runes_of_ascii "packet rootA
{} packet
    zchar {
float64
a1 @calculatedFrom( ""{,}"" )
    , }")).
Eval vm_compute in ("<<<M861>>>" ++ check (runes_of_ascii "root packet i8i8 {
    }// packet A { u8 x, }
packet
    f32a { BodyLength,}
")).
Eval vm_compute in ("<<<M3374>>>" ++ check (runes_of_ascii "MetaData _x { f64 charz `tab	here` // c
, } options { BodyLength = """ ++ [233]%N ++ runes_of_ascii "t" ++ [233]%N ++ runes_of_ascii """ ; }")).
Eval vm_compute in ("<<<M536>>>" ++ check (runes_of_ascii "options {
    // @lengthOf(
    lengthOf // " ++ [128512]%N ++ runes_of_ascii " emoji
=
    7 // 50% %s
; }")).
Eval vm_compute in ("<<<M641>>>" ++ check (runes_of_ascii "options{u= ""x y""leftPad= ""// no comment"" ;
u8x = """ ++ [128512]%N ++ runes_of_ascii """ ; i64_
    = 007}")).
Eval vm_compute in ("<<<M3426>>>" ++ check (runes_of_ascii "packet o { @tag( 4294967296 ) options1 @lengthOf( u8x ) `" ++ [233]%N ++ runes_of_ascii "` , } // c
")).
Eval vm_compute in ("<<<M3420>>>" ++ check (runes_of_ascii "packet o { @tag( 4294967296 ) options1 @lengthOf( u8x ) // c
`" ++ [233]%N ++ runes_of_ascii "` , }")).
Eval vm_compute in ("<<<M2682>>>" ++ check (runes_of_ascii "options { a = char[3]; b = zchar[0] c = char[] d = string e = u8 }")).
Eval vm_compute in ("<<<M4006>>>" ++ check (runes_of_ascii "/// triple
  	options{charz 
=false	;
}	packet  Logon
    {  }
")).
Eval vm_compute in ("<<<M2268>>>" ++ check (runes_of_ascii "MetaData _x {string x `// not a comment` , string
i64_ // tra")).
Eval vm_compute in ("<<<M991>>>" ++ check (runes_of_ascii "
MetaData	crc {
    /// triple
    MetaDataX i64_ //
,	}
")).
Eval vm_compute in ("<<<M2762>>>" ++ check (runes_of_ascii "true ] , root int64 ] u16 lengthOf u8 uint64 ' ' } false")).
Eval vm_compute in ("<<<M4073>>>" ++ check (runes_of_ascii "  root
	packet

    A
    { }  root
    packet
B{	} ")).
Eval vm_compute in ("<<<M1394>>>" ++ check (runes_of_ascii "  options{msg_type // trailing space 
= '\x00' ;	}
")).
Eval vm_compute in ("<<<M2253>>>" ++ check (runes_of_ascii "MetaData _x {string x `// not a comment` , string")).
Eval vm_compute in ("<<<M3201>>>" ++ check (runes_of_ascii "packet A {} packet B {} MetaData M {} options {}")).
Eval vm_compute in ("<<<M1330>>>" ++ check (runes_of_ascii "root
packet packetx {
    As
u128 , }
// " ++ [27880; 37322]%N ++ runes_of_ascii "
")).
Eval vm_compute in ("<<<M903>>>" ++ check (runes_of_ascii "packet // packet A { u8 x, }
u128 {
    }
")).
Eval vm_compute in ("<<<M2790>>>" ++ check (runes_of_ascii ": true string false false root = zchar[ )")).
Eval vm_compute in ("<<<M3242>>>" ++ check (runes_of_ascii "MetaData zchar { zchar[ 3
// c
] Pad , }")).
Eval vm_compute in ("<<<M4435>>>" ++ check (runes_of_ascii "MetaData chars {
    Pad BodyLength,
}")).
Eval vm_compute in ("<<<M2801>>>" ++ check (runes_of_ascii "='DGVS%neQCiE9%uEYt6u*Vq85g!LWUFu''^")).
Eval vm_compute in ("<<<M104>>>" ++ check (runes_of_ascii "MetaData a1	{ // trailing space 
}")).
Eval vm_compute in ("<<<M2840>>>" ++ check ([65533; 15; 1849; 1966; 65533]%N ++ runes_of_ascii "C" ++ [65533; 2009; 65533; 18; 65533; 65533]%N ++ runes_of_ascii "z" ++ [65533; 65533; 30]%N ++ runes_of_ascii "J" ++ [168]%N ++ runes_of_ascii ">" ++ [65533]%N ++ runes_of_ascii "|q" ++ [4; 65533; 65533; 17]%N ++ runes_of_ascii "I" ++ [65533; 28]%N ++ runes_of_ascii " " ++ [65533; 65533; 30]%N)).
Eval vm_compute in ("<<<M2811>>>" ++ check (runes_of_ascii ": as } root int16 """" match as [")).
Eval vm_compute in ("<<<M404>>>" ++ check (runes_of_ascii "packet	int
{ uint16
Pad ,
}")).
Eval vm_compute in ("<<<M1227>>>" ++ check (runes_of_ascii "MetaData
crc { string o , }")).
Eval vm_compute in ("<<<M2831>>>" ++ check (runes_of_ascii "= int8 [ int64 i64 u32 i16")).
Eval vm_compute in ("<<<M1432>>>" ++ check (runes_of_ascii "packet calculatedFrom
{")).
Eval vm_compute in ("<<<M2583>>>" ++ check (runes_of_ascii "packet A { repeat u8 }")).
Eval vm_compute in ("<<<M2685>>>" ++ check (runes_of_ascii "options { a = `d`; }")).
Eval vm_compute in ("<<<M3189>>>" ++ check (runes_of_ascii "packet A {
}
// c x")).
Eval vm_compute in ("<<<M3149>>>" ++ check (runes_of_ascii "packet A {
}
// c" ++ [8239]%N)).
Eval vm_compute in ("<<<M2652>>>" ++ check (runes_of_ascii "packet A { } root")).
Eval vm_compute in ("<<<M1006>>>" ++ check (runes_of_ascii "//	t
options { }")).
Eval vm_compute in ("<<<M951>>>" ++ check (runes_of_ascii "packet T { }
")).
Eval vm_compute in ("<<<M2572>>>" ++ check ([65279]%N ++ runes_of_ascii "packet A {}")).
Eval vm_compute in ("<<<M2800>>>" ++ check ([65533]%N ++ runes_of_ascii "0#" ++ [65533]%N ++ runes_of_ascii "j" ++ [65533; 567]%N ++ runes_of_ascii "Nk" ++ [65533]%N)).
Eval vm_compute in ("<<<M2437>>>" ++ check (runes_of_ascii "
packet")).
Eval vm_compute in ("<<<M2488>>>" ++ check (runes_of_ascii "Packet")).
Eval vm_compute in ("<<<M2748>>>" ++ check ([29; 20; 65533; 65533; 65533]%N)).
Eval vm_compute in ("<<<M2536>>>" ++ check (runes_of_ascii """//""")).
Eval vm_compute in ("<<<M2544>>>" ++ check (runes_of_ascii "`""`")).
Eval vm_compute in ("<<<M2555>>>" ++ check (runes_of_ascii "__")).
Eval vm_compute in ("<<<M2734>>>" ++ check (runes_of_ascii ")")).
