From FP Require Import Lexer Parser ShowPT Digest.
From Coq Require Import String List NArith.
Import ListNotations.
Open Scope string_scope.
Set Printing Width 100000000.
Set Printing Depth 100000000.
Definition nl : string := String (Ascii.ascii_of_nat 10) EmptyString.
Definition model_lex (rs : list rune) : string := show_toks (lex rs).
Definition model_parse (rs : list rune) : string :=
  show_pt (match lex rs with Some ts => parse ts | None => None end).
(* coqc is slow at printing long strings: digests first (Digest.v), full texts on demand *)
Definition check (rs : list rune) : string :=
  digest (model_lex rs) ++ " " ++ digest (model_parse rs).
Definition full (rs : list rune) : string := model_lex rs ++ nl ++ model_parse rs.
Definition terms (ts : list tok) (t : pt) : string :=
  digest (show_toks (Some ts)) ++ " " ++ digest (show_pt (Some t)) ++ " " ++ digest (show_pt (parse ts)).
Definition terms_full (ts : list tok) (t : pt) : string :=
  show_toks (Some ts) ++ nl ++ show_pt (Some t) ++ nl ++ show_pt (parse ts).
Eval vm_compute in ("<<<M11>>>" ++ check (runes_of_ascii "options { falsey
= false}")).
Eval vm_compute in ("<<<M43>>>" ++ check (runes_of_ascii "packet	BodyLength { repeat f32a Pad`// not a comment` ,
// " ++ [128512]%N ++ runes_of_ascii " emoji
// c
}
MetaData As { }options { crc
    // packet A { u8 x, }
    =
""a\\""
float= '\x00'
    a1 // c
= ' ';i8i8 =
    4294967296
}	packet u128 {
// `tick` ""quote"" 'q'
//
match //x
stringy as o{ ""`tick`""  : Foo  , [ 4294967296 ]	: x_y_z ,} ,zchar[ /// triple
10 ] // `tick` ""quote"" 'q'
Packet@lengthOf(u8x
),
@lengthOf(
roots) // " ++ [27880; 37322]%N ++ runes_of_ascii "
x
    `// not a comment` , i64
    asx @lengthOf( rootA ) , metadata ,
i64_ @calculatedFrom(  ""\" ++ [233]%N ++ runes_of_ascii """ ) ,	@lengthOf(u128
) repeat o `two words` , }
")).
Eval vm_compute in ("<<<M75>>>" ++ check (runes_of_ascii "packet MetaDataX
{ @calculatedFrom(
    ""CRC32""
    ) @tag(	255 //
) zchar[ 007
// c
// trailing space 
] Logon , } MetaData
// " ++ [27880; 37322]%N ++ runes_of_ascii "
// `tick` ""quote"" 'q'
u8x{ char[0123456789
    // @lengthOf(
    ]	Foo , i64 x_y_z , o msg_type
    , }
// packet A { u8 x, }
")).
Eval vm_compute in ("<<<M107>>>" ++ check (runes_of_ascii "
packet float {
} MetaData As { char[]
    trueish , }
// " ++ [27880; 37322]%N ++ runes_of_ascii "
")).
Eval vm_compute in ("<<<M139>>>" ++ check (runes_of_ascii "root packet x_y_z { match Z9_ as  u{ 255:pack , 255 : u128
, 007 : float ""\n"" :options1 , [	""" ++ [28040; 24687]%N ++ runes_of_ascii """ , 1 ]
: Z9_""" ++ [28040; 24687]%N ++ runes_of_ascii """:	chars
, }, u8 _x @calculatedFrom(
    // a // b
    """ ++ [28040; 24687]%N ++ runes_of_ascii """ )`say ""hi""` ,@tag( 3 ) match a1 as msg_type { [ ""\n"" // a // b
, 255//x
, 0 ] :crc	,} , }
root packet o
{  match tag as _x
    { 007 :
    x ,	10 :charz,
""{,}""
:body	,""" ++ [233]%N ++ runes_of_ascii "t" ++ [233]%N ++ runes_of_ascii """ : len
""" ++ [128512]%N ++ runes_of_ascii """
    :
    u , }
    ,
    u64 u @calculatedFrom( ""x y""
// c
// " ++ [27880; 37322]%N ++ runes_of_ascii "
)
`it's`, @lengthOf( trueish ) repeat // packet A { u8 x, }
uint8 u8x
`" ++ [28040; 24687; 31867; 22411]%N ++ runes_of_ascii "` // a // b
, @calculatedFrom(	""\n"" )
    @rightPad() @leftPad (
    '\x00')
    repeat uint32 float, @lengthOf(	A )
    @tag(//	t
0123456789 ) @rightPad ( ' '
    ) zchar[ 10	]
    // " ++ [128512]%N ++ runes_of_ascii " emoji
    o// packet A { u8 x, }
,
    uint8x
    @calculatedFrom( ""a\\"" // " ++ [27880; 37322]%N ++ runes_of_ascii "
) `
`
,body
, repeat //	t
char[10 ]
    string_ `tab	here`
    , } root packet
    roots {  } packet u {@calculatedFrom(	""" ++ [128512]%N ++ runes_of_ascii """ )	f64 Logon// `tick` ""quote"" 'q'
@calculatedFrom( ""1""
)
    `a\` ,  int16 trueish `line1
line2`
,//
zchar[  0123456789 ]
    // a // b
    BodyLength `two words`, float32 i8i8 @lengthOf( metadata ) `// not a comment`
, i32 leftPad,	}

")).
Eval vm_compute in ("<<<T139>>>" ++ terms [mkTok 34 "root" 1 0 false; mkTok 35 "packet" 1 5 false; mkTok 42 "x_y_z" 1 12 false; mkTok 2 "{" 1 18 false; mkTok 38 "match" 1 20 false; mkTok 42 "Z9_" 1 26 false; mkTok 17 "as" 1 30 false; mkTok 42 "u" 1 34 false; mkTok 2 "{" 1 35 false; mkTok 30 "255" 1 37 false; mkTok 39 ":" 1 40 false; mkTok 42 "pack" 1 41 false; mkTok 40 "," 1 46 false; mkTok 30 "255" 1 48 false; mkTok 39 ":" 1 52 false; mkTok 42 "u128" 1 54 false; mkTok 40 "," 2 0 false; mkTok 30 "007" 2 2 false; mkTok 39 ":" 2 6 false; mkTok 42 "float" 2 8 false; mkTok 31 """\n""" 2 14 false; mkTok 39 ":" 2 19 false; mkTok 42 "options1" 2 20 false; mkTok 40 "," 2 29 false; mkTok 18 "[" 2 31 false; mkTok 31 (string_of_bytes [34; 230; 182; 136; 230; 129; 175; 34]%N) 2 33 false; mkTok 40 "," 2 38 false; mkTok 30 "1" 2 40 false; mkTok 13 "]" 2 42 false; mkTok 39 ":" 3 0 false; mkTok 42 "Z9_" 3 2 false; mkTok 31 (string_of_bytes [34; 230; 182; 136; 230; 129; 175; 34]%N) 3 5 false; mkTok 39 ":" 3 9 false; mkTok 42 "chars" 3 11 false; mkTok 40 "," 4 0 false; mkTok 3 "}" 4 2 false; mkTok 40 "," 4 3 false; mkTok 20 "u8" 4 5 false; mkTok 42 "_x" 4 8 false; mkTok 5 "@calculatedFrom(" 4 11 false; mkTok 44 "// a // b" 5 4 true; mkTok 31 (string_of_bytes [34; 230; 182; 136; 230; 129; 175; 34]%N) 6 4 false; mkTok 6 ")" 6 9 false; mkTok 43 "`say ""hi""`" 6 10 false; mkTok 40 "," 6 21 false; mkTok 9 "@tag(" 6 22 false; mkTok 30 "3" 6 28 false; mkTok 6 ")" 6 30 false; mkTok 38 "match" 6 32 false; mkTok 42 "a1" 6 38 false; mkTok 17 "as" 6 41 false; mkTok 42 "msg_type" 6 44 false; mkTok 2 "{" 6 53 false; mkTok 18 "[" 6 55 false; mkTok 31 """\n""" 6 57 false; mkTok 44 "// a // b" 6 62 true; mkTok 40 "," 7 0 false; mkTok 30 "255" 7 2 false; mkTok 44 "//x" 7 5 true; mkTok 40 "," 8 0 false; mkTok 30 "0" 8 2 false; mkTok 13 "]" 8 4 false; mkTok 39 ":" 8 6 false; mkTok 42 "crc" 8 7 false; mkTok 40 "," 8 11 false; mkTok 3 "}" 8 12 false; mkTok 40 "," 8 14 false; mkTok 3 "}" 8 16 false; mkTok 34 "root" 9 0 false; mkTok 35 "packet" 9 5 false; mkTok 42 "o" 9 12 false; mkTok 2 "{" 10 0 false; mkTok 38 "match" 10 3 false; mkTok 42 "tag" 10 9 false; mkTok 17 "as" 10 13 false; mkTok 42 "_x" 10 16 false; mkTok 2 "{" 11 4 false; mkTok 30 "007" 11 6 false; mkTok 39 ":" 11 10 false; mkTok 42 "x" 12 4 false; mkTok 40 "," 12 6 false; mkTok 30 "10" 12 8 false; mkTok 39 ":" 12 11 false; mkTok 42 "charz" 12 12 false; mkTok 40 "," 12 17 false; mkTok 31 """{,}""" 13 0 false; mkTok 39 ":" 14 0 false; mkTok 42 "body" 14 1 false; mkTok 40 "," 14 6 false; mkTok 31 (string_of_bytes [34; 195; 169; 116; 195; 169; 34]%N) 14 7 false; mkTok 39 ":" 14 13 false; mkTok 42 "len" 14 15 false; mkTok 31 (string_of_bytes [34; 240; 159; 152; 128; 34]%N) 15 0 false; mkTok 39 ":" 16 4 false; mkTok 42 "u" 17 4 false; mkTok 40 "," 17 6 false; mkTok 3 "}" 17 8 false; mkTok 40 "," 18 4 false; mkTok 23 "u64" 19 4 false; mkTok 42 "u" 19 8 false; mkTok 5 "@calculatedFrom(" 19 10 false; mkTok 31 """x y""" 19 27 false; mkTok 44 "// c" 20 0 true; mkTok 44 (string_of_bytes [47; 47; 32; 230; 179; 168; 233; 135; 138]%N) 21 0 true; mkTok 6 ")" 22 0 false; mkTok 43 "`it's`" 23 0 false; mkTok 40 "," 23 6 false; mkTok 7 "@lengthOf(" 23 8 false; mkTok 42 "trueish" 23 19 false; mkTok 6 ")" 23 27 false; mkTok 36 "repeat" 23 29 false; mkTok 44 "// packet A { u8 x, }" 23 36 true; mkTok 20 "uint8" 24 0 false; mkTok 42 "u8x" 24 6 false; mkTok 43 (string_of_bytes [96; 230; 182; 136; 230; 129; 175; 231; 177; 187; 229; 158; 139; 96]%N) 25 0 false; mkTok 44 "// a // b" 25 7 true; mkTok 40 "," 26 0 false; mkTok 5 "@calculatedFrom(" 26 2 false; mkTok 31 """\n""" 26 19 false; mkTok 6 ")" 26 24 false; mkTok 32 "@rightPad" 27 4 false; mkTok 8 "(" 27 13 false; mkTok 6 ")" 27 14 false; mkTok 32 "@leftPad" 27 16 false; mkTok 8 "(" 27 25 false; mkTok 33 "'\x00'" 28 4 false; mkTok 6 ")" 28 10 false; mkTok 36 "repeat" 29 4 false; mkTok 22 "uint32" 29 11 false; mkTok 42 "float" 29 18 false; mkTok 40 "," 29 23 false; mkTok 7 "@lengthOf(" 29 25 false; mkTok 42 "A" 29 36 false; mkTok 6 ")" 29 38 false; mkTok 9 "@tag(" 30 4 false; mkTok 44 (string_of_bytes [47; 47; 9; 116]%N) 30 9 true; mkTok 30 "0123456789" 31 0 false; mkTok 6 ")" 31 11 false; mkTok 32 "@rightPad" 31 13 false; mkTok 8 "(" 31 23 false; mkTok 33 "' '" 31 25 false; mkTok 6 ")" 32 4 false; mkTok 14 "zchar[" 32 6 false; mkTok 30 "10" 32 13 false; mkTok 13 "]" 32 16 false; mkTok 44 (string_of_bytes [47; 47; 32; 240; 159; 152; 128; 32; 101; 109; 111; 106; 105]%N) 33 4 true; mkTok 42 "o" 34 4 false; mkTok 44 "// packet A { u8 x, }" 34 5 true; mkTok 40 "," 35 0 false; mkTok 42 "uint8x" 36 4 false; mkTok 5 "@calculatedFrom(" 37 4 false; mkTok 31 """a\\""" 37 21 false; mkTok 44 (string_of_bytes [47; 47; 32; 230; 179; 168; 233; 135; 138]%N) 37 27 true; mkTok 6 ")" 38 0 false; mkTok 43 (string_of_bytes [96; 10; 96]%N) 38 2 false; mkTok 40 "," 40 0 false; mkTok 42 "body" 40 1 false; mkTok 40 "," 41 0 false; mkTok 36 "repeat" 41 2 false; mkTok 44 (string_of_bytes [47; 47; 9; 116]%N) 41 9 true; mkTok 12 "char[" 42 0 false; mkTok 30 "10" 42 5 false; mkTok 13 "]" 42 8 false; mkTok 42 "string_" 43 4 false; mkTok 43 (string_of_bytes [96; 116; 97; 98; 9; 104; 101; 114; 101; 96]%N) 43 12 false; mkTok 40 "," 44 4 false; mkTok 3 "}" 44 6 false; mkTok 34 "root" 44 8 false; mkTok 35 "packet" 44 13 false; mkTok 42 "roots" 45 4 false; mkTok 2 "{" 45 10 false; mkTok 3 "}" 45 13 false; mkTok 35 "packet" 45 15 false; mkTok 42 "u" 45 22 false; mkTok 2 "{" 45 24 false; mkTok 5 "@calculatedFrom(" 45 25 false; mkTok 31 (string_of_bytes [34; 240; 159; 152; 128; 34]%N) 45 42 false; mkTok 6 ")" 45 46 false; mkTok 29 "f64" 45 48 false; mkTok 42 "Logon" 45 52 false; mkTok 44 "// `tick` ""quote"" 'q'" 45 57 true; mkTok 5 "@calculatedFrom(" 46 0 false; mkTok 31 """1""" 46 17 false; mkTok 6 ")" 47 0 false; mkTok 43 "`a\`" 48 4 false; mkTok 40 "," 48 9 false; mkTok 25 "int16" 48 12 false; mkTok 42 "trueish" 48 18 false; mkTok 43 (string_of_bytes [96; 108; 105; 110; 101; 49; 10; 108; 105; 110; 101; 50; 96]%N) 48 26 false; mkTok 40 "," 50 0 false; mkTok 44 "//" 50 1 true; mkTok 14 "zchar[" 51 0 false; mkTok 30 "0123456789" 51 8 false; mkTok 13 "]" 51 19 false; mkTok 44 "// a // b" 52 4 true; mkTok 42 "BodyLength" 53 4 false; mkTok 43 "`two words`" 53 15 false; mkTok 40 "," 53 26 false; mkTok 28 "float32" 53 28 false; mkTok 42 "i8i8" 53 36 false; mkTok 7 "@lengthOf(" 53 41 false; mkTok 42 "metadata" 53 52 false; mkTok 6 ")" 53 61 false; mkTok 43 "`// not a comment`" 53 63 false; mkTok 40 "," 54 0 false; mkTok 26 "i32" 54 2 false; mkTok 42 "leftPad" 54 6 false; mkTok 40 "," 54 13 false; mkTok 3 "}" 54 15 false; mkTok 0 "<EOF>" 56 0 false] (mkPacket (mkPtok 34 "root" 1 0 0) (Some (mkPtok 3 "}" 54 15 208)) [(DPacket (mkPacketDef (mkSpan (mkPtok 34 "root" 1 0 0) (mkPtok 3 "}" 8 16 67)) (Some (mkPtok 34 "root" 1 0 0)) (mkPtok 35 "packet" 1 5 1) (mkPtok 42 "x_y_z" 1 12 2) (mkPtok 2 "{" 1 18 3) [(mkFieldWithAttr (mkSpan (mkPtok 38 "match" 1 20 4) (mkPtok 40 "," 4 3 36)) [] (MatchField (mkSpan (mkPtok 38 "match" 1 20 4) (mkPtok 40 "," 4 3 36)) (mkMatchFieldDecl (mkSpan (mkPtok 38 "match" 1 20 4) (mkPtok 3 "}" 4 2 35)) (mkPtok 38 "match" 1 20 4) (mkPtok 42 "Z9_" 1 26 5) (mkPtok 17 "as" 1 30 6) (mkPtok 42 "u" 1 34 7) (mkPtok 2 "{" 1 35 8) [(mkMatchPair (mkSpan (mkPtok 30 "255" 1 37 9) (mkPtok 40 "," 1 46 12)) (MKDigits (mkPtok 30 "255" 1 37 9)) (mkPtok 39 ":" 1 40 10) (mkPtok 42 "pack" 1 41 11) (Some (mkPtok 40 "," 1 46 12))); (mkMatchPair (mkSpan (mkPtok 30 "255" 1 48 13) (mkPtok 40 "," 2 0 16)) (MKDigits (mkPtok 30 "255" 1 48 13)) (mkPtok 39 ":" 1 52 14) (mkPtok 42 "u128" 1 54 15) (Some (mkPtok 40 "," 2 0 16))); (mkMatchPair (mkSpan (mkPtok 30 "007" 2 2 17) (mkPtok 42 "float" 2 8 19)) (MKDigits (mkPtok 30 "007" 2 2 17)) (mkPtok 39 ":" 2 6 18) (mkPtok 42 "float" 2 8 19) None); (mkMatchPair (mkSpan (mkPtok 31 """\n""" 2 14 20) (mkPtok 40 "," 2 29 23)) (MKString (mkPtok 31 """\n""" 2 14 20)) (mkPtok 39 ":" 2 19 21) (mkPtok 42 "options1" 2 20 22) (Some (mkPtok 40 "," 2 29 23))); (mkMatchPair (mkSpan (mkPtok 18 "[" 2 31 24) (mkPtok 42 "Z9_" 3 2 30)) (MKList (mkKeyList (mkSpan (mkPtok 18 "[" 2 31 24) (mkPtok 13 "]" 2 42 28)) (mkPtok 18 "[" 2 31 24) (mkPtok 31 (string_of_bytes [34; 230; 182; 136; 230; 129; 175; 34]%N) 2 33 25) [((mkPtok 40 "," 2 38 26), (mkPtok 30 "1" 2 40 27))] (mkPtok 13 "]" 2 42 28))) (mkPtok 39 ":" 3 0 29) (mkPtok 42 "Z9_" 3 2 30) None); (mkMatchPair (mkSpan (mkPtok 31 (string_of_bytes [34; 230; 182; 136; 230; 129; 175; 34]%N) 3 5 31) (mkPtok 40 "," 4 0 34)) (MKString (mkPtok 31 (string_of_bytes [34; 230; 182; 136; 230; 129; 175; 34]%N) 3 5 31)) (mkPtok 39 ":" 3 9 32) (mkPtok 42 "chars" 3 11 33) (Some (mkPtok 40 "," 4 0 34)))] (mkPtok 3 "}" 4 2 35)) (mkPtok 40 "," 4 3 36))); (mkFieldWithAttr (mkSpan (mkPtok 20 "u8" 4 5 37) (mkPtok 40 "," 6 21 44)) [] (CheckSumField (mkSpan (mkPtok 20 "u8" 4 5 37) (mkPtok 40 "," 6 21 44)) (mkChecksumFieldDecl (mkSpan (mkPtok 20 "u8" 4 5 37) (mkPtok 40 "," 6 21 44)) (Some (TyBasic (mkSpan (mkPtok 20 "u8" 4 5 37) (mkPtok 20 "u8" 4 5 37)) (mkBasicType (mkSpan (mkPtok 20 "u8" 4 5 37) (mkPtok 20 "u8" 4 5 37)) (mkPtok 20 "u8" 4 5 37)))) (mkPtok 42 "_x" 4 8 38) (mkCalculatedFrom (mkSpan (mkPtok 5 "@calculatedFrom(" 4 11 39) (mkPtok 6 ")" 6 9 42)) (mkPtok 5 "@calculatedFrom(" 4 11 39) (mkPtok 31 (string_of_bytes [34; 230; 182; 136; 230; 129; 175; 34]%N) 6 4 41) (mkPtok 6 ")" 6 9 42)) (Some (mkPtok 43 "`say ""hi""`" 6 10 43)) (mkPtok 40 "," 6 21 44)))); (mkFieldWithAttr (mkSpan (mkPtok 9 "@tag(" 6 22 45) (mkPtok 40 "," 8 14 66)) [(FATag (mkSpan (mkPtok 9 "@tag(" 6 22 45) (mkPtok 6 ")" 6 30 47)) (mkTagAttr (mkSpan (mkPtok 9 "@tag(" 6 22 45) (mkPtok 6 ")" 6 30 47)) (mkPtok 9 "@tag(" 6 22 45) (mkPtok 30 "3" 6 28 46) (mkPtok 6 ")" 6 30 47)))] (MatchField (mkSpan (mkPtok 38 "match" 6 32 48) (mkPtok 40 "," 8 14 66)) (mkMatchFieldDecl (mkSpan (mkPtok 38 "match" 6 32 48) (mkPtok 3 "}" 8 12 65)) (mkPtok 38 "match" 6 32 48) (mkPtok 42 "a1" 6 38 49) (mkPtok 17 "as" 6 41 50) (mkPtok 42 "msg_type" 6 44 51) (mkPtok 2 "{" 6 53 52) [(mkMatchPair (mkSpan (mkPtok 18 "[" 6 55 53) (mkPtok 40 "," 8 11 64)) (MKList (mkKeyList (mkSpan (mkPtok 18 "[" 6 55 53) (mkPtok 13 "]" 8 4 61)) (mkPtok 18 "[" 6 55 53) (mkPtok 31 """\n""" 6 57 54) [((mkPtok 40 "," 7 0 56), (mkPtok 30 "255" 7 2 57)); ((mkPtok 40 "," 8 0 59), (mkPtok 30 "0" 8 2 60))] (mkPtok 13 "]" 8 4 61))) (mkPtok 39 ":" 8 6 62) (mkPtok 42 "crc" 8 7 63) (Some (mkPtok 40 "," 8 11 64)))] (mkPtok 3 "}" 8 12 65)) (mkPtok 40 "," 8 14 66)))] (mkPtok 3 "}" 8 16 67))); (DPacket (mkPacketDef (mkSpan (mkPtok 34 "root" 9 0 68) (mkPtok 3 "}" 44 6 166)) (Some (mkPtok 34 "root" 9 0 68)) (mkPtok 35 "packet" 9 5 69) (mkPtok 42 "o" 9 12 70) (mkPtok 2 "{" 10 0 71) [(mkFieldWithAttr (mkSpan (mkPtok 38 "match" 10 3 72) (mkPtok 40 "," 18 4 97)) [] (MatchField (mkSpan (mkPtok 38 "match" 10 3 72) (mkPtok 40 "," 18 4 97)) (mkMatchFieldDecl (mkSpan (mkPtok 38 "match" 10 3 72) (mkPtok 3 "}" 17 8 96)) (mkPtok 38 "match" 10 3 72) (mkPtok 42 "tag" 10 9 73) (mkPtok 17 "as" 10 13 74) (mkPtok 42 "_x" 10 16 75) (mkPtok 2 "{" 11 4 76) [(mkMatchPair (mkSpan (mkPtok 30 "007" 11 6 77) (mkPtok 40 "," 12 6 80)) (MKDigits (mkPtok 30 "007" 11 6 77)) (mkPtok 39 ":" 11 10 78) (mkPtok 42 "x" 12 4 79) (Some (mkPtok 40 "," 12 6 80))); (mkMatchPair (mkSpan (mkPtok 30 "10" 12 8 81) (mkPtok 40 "," 12 17 84)) (MKDigits (mkPtok 30 "10" 12 8 81)) (mkPtok 39 ":" 12 11 82) (mkPtok 42 "charz" 12 12 83) (Some (mkPtok 40 "," 12 17 84))); (mkMatchPair (mkSpan (mkPtok 31 """{,}""" 13 0 85) (mkPtok 40 "," 14 6 88)) (MKString (mkPtok 31 """{,}""" 13 0 85)) (mkPtok 39 ":" 14 0 86) (mkPtok 42 "body" 14 1 87) (Some (mkPtok 40 "," 14 6 88))); (mkMatchPair (mkSpan (mkPtok 31 (string_of_bytes [34; 195; 169; 116; 195; 169; 34]%N) 14 7 89) (mkPtok 42 "len" 14 15 91)) (MKString (mkPtok 31 (string_of_bytes [34; 195; 169; 116; 195; 169; 34]%N) 14 7 89)) (mkPtok 39 ":" 14 13 90) (mkPtok 42 "len" 14 15 91) None); (mkMatchPair (mkSpan (mkPtok 31 (string_of_bytes [34; 240; 159; 152; 128; 34]%N) 15 0 92) (mkPtok 40 "," 17 6 95)) (MKString (mkPtok 31 (string_of_bytes [34; 240; 159; 152; 128; 34]%N) 15 0 92)) (mkPtok 39 ":" 16 4 93) (mkPtok 42 "u" 17 4 94) (Some (mkPtok 40 "," 17 6 95)))] (mkPtok 3 "}" 17 8 96)) (mkPtok 40 "," 18 4 97))); (mkFieldWithAttr (mkSpan (mkPtok 23 "u64" 19 4 98) (mkPtok 40 "," 23 6 106)) [] (CheckSumField (mkSpan (mkPtok 23 "u64" 19 4 98) (mkPtok 40 "," 23 6 106)) (mkChecksumFieldDecl (mkSpan (mkPtok 23 "u64" 19 4 98) (mkPtok 40 "," 23 6 106)) (Some (TyBasic (mkSpan (mkPtok 23 "u64" 19 4 98) (mkPtok 23 "u64" 19 4 98)) (mkBasicType (mkSpan (mkPtok 23 "u64" 19 4 98) (mkPtok 23 "u64" 19 4 98)) (mkPtok 23 "u64" 19 4 98)))) (mkPtok 42 "u" 19 8 99) (mkCalculatedFrom (mkSpan (mkPtok 5 "@calculatedFrom(" 19 10 100) (mkPtok 6 ")" 22 0 104)) (mkPtok 5 "@calculatedFrom(" 19 10 100) (mkPtok 31 """x y""" 19 27 101) (mkPtok 6 ")" 22 0 104)) (Some (mkPtok 43 "`it's`" 23 0 105)) (mkPtok 40 "," 23 6 106)))); (mkFieldWithAttr (mkSpan (mkPtok 7 "@lengthOf(" 23 8 107) (mkPtok 40 "," 26 0 116)) [(FALengthOf (mkSpan (mkPtok 7 "@lengthOf(" 23 8 107) (mkPtok 6 ")" 23 27 109)) (mkLengthOf (mkSpan (mkPtok 7 "@lengthOf(" 23 8 107) (mkPtok 6 ")" 23 27 109)) (mkPtok 7 "@lengthOf(" 23 8 107) (mkPtok 42 "trueish" 23 19 108) (mkPtok 6 ")" 23 27 109)))] (MetaField (mkSpan (mkPtok 36 "repeat" 23 29 110) (mkPtok 40 "," 26 0 116)) (Some (mkPtok 36 "repeat" 23 29 110)) (mkMetaDecl (mkSpan (mkPtok 20 "uint8" 24 0 112) (mkPtok 40 "," 26 0 116)) (TyBasic (mkSpan (mkPtok 20 "uint8" 24 0 112) (mkPtok 20 "uint8" 24 0 112)) (mkBasicType (mkSpan (mkPtok 20 "uint8" 24 0 112) (mkPtok 20 "uint8" 24 0 112)) (mkPtok 20 "uint8" 24 0 112))) (mkPtok 42 "u8x" 24 6 113) (Some (mkPtok 43 (string_of_bytes [96; 230; 182; 136; 230; 129; 175; 231; 177; 187; 229; 158; 139; 96]%N) 25 0 114)) (mkPtok 40 "," 26 0 116)))); (mkFieldWithAttr (mkSpan (mkPtok 5 "@calculatedFrom(" 26 2 117) (mkPtok 40 "," 29 23 130)) [(FACalculatedFrom (mkSpan (mkPtok 5 "@calculatedFrom(" 26 2 117) (mkPtok 6 ")" 26 24 119)) (mkCalculatedFrom (mkSpan (mkPtok 5 "@calculatedFrom(" 26 2 117) (mkPtok 6 ")" 26 24 119)) (mkPtok 5 "@calculatedFrom(" 26 2 117) (mkPtok 31 """\n""" 26 19 118) (mkPtok 6 ")" 26 24 119))); (FAPadding (mkSpan (mkPtok 32 "@rightPad" 27 4 120) (mkPtok 6 ")" 27 14 122)) (mkPaddingAttr (mkSpan (mkPtok 32 "@rightPad" 27 4 120) (mkPtok 6 ")" 27 14 122)) (mkPtok 32 "@rightPad" 27 4 120) (mkPtok 8 "(" 27 13 121) None (mkPtok 6 ")" 27 14 122))); (FAPadding (mkSpan (mkPtok 32 "@leftPad" 27 16 123) (mkPtok 6 ")" 28 10 126)) (mkPaddingAttr (mkSpan (mkPtok 32 "@leftPad" 27 16 123) (mkPtok 6 ")" 28 10 126)) (mkPtok 32 "@leftPad" 27 16 123) (mkPtok 8 "(" 27 25 124) (Some (mkPtok 33 "'\x00'" 28 4 125)) (mkPtok 6 ")" 28 10 126)))] (MetaField (mkSpan (mkPtok 36 "repeat" 29 4 127) (mkPtok 40 "," 29 23 130)) (Some (mkPtok 36 "repeat" 29 4 127)) (mkMetaDecl (mkSpan (mkPtok 22 "uint32" 29 11 128) (mkPtok 40 "," 29 23 130)) (TyBasic (mkSpan (mkPtok 22 "uint32" 29 11 128) (mkPtok 22 "uint32" 29 11 128)) (mkBasicType (mkSpan (mkPtok 22 "uint32" 29 11 128) (mkPtok 22 "uint32" 29 11 128)) (mkPtok 22 "uint32" 29 11 128))) (mkPtok 42 "float" 29 18 129) None (mkPtok 40 "," 29 23 130)))); (mkFieldWithAttr (mkSpan (mkPtok 7 "@lengthOf(" 29 25 131) (mkPtok 40 "," 35 0 148)) [(FALengthOf (mkSpan (mkPtok 7 "@lengthOf(" 29 25 131) (mkPtok 6 ")" 29 38 133)) (mkLengthOf (mkSpan (mkPtok 7 "@lengthOf(" 29 25 131) (mkPtok 6 ")" 29 38 133)) (mkPtok 7 "@lengthOf(" 29 25 131) (mkPtok 42 "A" 29 36 132) (mkPtok 6 ")" 29 38 133))); (FATag (mkSpan (mkPtok 9 "@tag(" 30 4 134) (mkPtok 6 ")" 31 11 137)) (mkTagAttr (mkSpan (mkPtok 9 "@tag(" 30 4 134) (mkPtok 6 ")" 31 11 137)) (mkPtok 9 "@tag(" 30 4 134) (mkPtok 30 "0123456789" 31 0 136) (mkPtok 6 ")" 31 11 137))); (FAPadding (mkSpan (mkPtok 32 "@rightPad" 31 13 138) (mkPtok 6 ")" 32 4 141)) (mkPaddingAttr (mkSpan (mkPtok 32 "@rightPad" 31 13 138) (mkPtok 6 ")" 32 4 141)) (mkPtok 32 "@rightPad" 31 13 138) (mkPtok 8 "(" 31 23 139) (Some (mkPtok 33 "' '" 31 25 140)) (mkPtok 6 ")" 32 4 141)))] (MetaField (mkSpan (mkPtok 14 "zchar[" 32 6 142) (mkPtok 40 "," 35 0 148)) None (mkMetaDecl (mkSpan (mkPtok 14 "zchar[" 32 6 142) (mkPtok 40 "," 35 0 148)) (TyFixed (mkSpan (mkPtok 14 "zchar[" 32 6 142) (mkPtok 13 "]" 32 16 144)) (mkFixedString (mkSpan (mkPtok 14 "zchar[" 32 6 142) (mkPtok 13 "]" 32 16 144)) (mkPtok 14 "zchar[" 32 6 142) (mkPtok 30 "10" 32 13 143) (mkPtok 13 "]" 32 16 144))) (mkPtok 42 "o" 34 4 146) None (mkPtok 40 "," 35 0 148)))); (mkFieldWithAttr (mkSpan (mkPtok 42 "uint8x" 36 4 149) (mkPtok 40 "," 40 0 155)) [] (CheckSumField (mkSpan (mkPtok 42 "uint8x" 36 4 149) (mkPtok 40 "," 40 0 155)) (mkChecksumFieldDecl (mkSpan (mkPtok 42 "uint8x" 36 4 149) (mkPtok 40 "," 40 0 155)) None (mkPtok 42 "uint8x" 36 4 149) (mkCalculatedFrom (mkSpan (mkPtok 5 "@calculatedFrom(" 37 4 150) (mkPtok 6 ")" 38 0 153)) (mkPtok 5 "@calculatedFrom(" 37 4 150) (mkPtok 31 """a\\""" 37 21 151) (mkPtok 6 ")" 38 0 153)) (Some (mkPtok 43 (string_of_bytes [96; 10; 96]%N) 38 2 154)) (mkPtok 40 "," 40 0 155)))); (mkFieldWithAttr (mkSpan (mkPtok 42 "body" 40 1 156) (mkPtok 40 "," 41 0 157)) [] (ObjectField (mkSpan (mkPtok 42 "body" 40 1 156) (mkPtok 40 "," 41 0 157)) None (mkPtok 42 "body" 40 1 156) None None (mkPtok 40 "," 41 0 157))); (mkFieldWithAttr (mkSpan (mkPtok 36 "repeat" 41 2 158) (mkPtok 40 "," 44 4 165)) [] (MetaField (mkSpan (mkPtok 36 "repeat" 41 2 158) (mkPtok 40 "," 44 4 165)) (Some (mkPtok 36 "repeat" 41 2 158)) (mkMetaDecl (mkSpan (mkPtok 12 "char[" 42 0 160) (mkPtok 40 "," 44 4 165)) (TyFixed (mkSpan (mkPtok 12 "char[" 42 0 160) (mkPtok 13 "]" 42 8 162)) (mkFixedString (mkSpan (mkPtok 12 "char[" 42 0 160) (mkPtok 13 "]" 42 8 162)) (mkPtok 12 "char[" 42 0 160) (mkPtok 30 "10" 42 5 161) (mkPtok 13 "]" 42 8 162))) (mkPtok 42 "string_" 43 4 163) (Some (mkPtok 43 (string_of_bytes [96; 116; 97; 98; 9; 104; 101; 114; 101; 96]%N) 43 12 164)) (mkPtok 40 "," 44 4 165))))] (mkPtok 3 "}" 44 6 166))); (DPacket (mkPacketDef (mkSpan (mkPtok 34 "root" 44 8 167) (mkPtok 3 "}" 45 13 171)) (Some (mkPtok 34 "root" 44 8 167)) (mkPtok 35 "packet" 44 13 168) (mkPtok 42 "roots" 45 4 169) (mkPtok 2 "{" 45 10 170) [] (mkPtok 3 "}" 45 13 171))); (DPacket (mkPacketDef (mkSpan (mkPtok 35 "packet" 45 15 172) (mkPtok 3 "}" 54 15 208)) None (mkPtok 35 "packet" 45 15 172) (mkPtok 42 "u" 45 22 173) (mkPtok 2 "{" 45 24 174) [(mkFieldWithAttr (mkSpan (mkPtok 5 "@calculatedFrom(" 45 25 175) (mkPtok 40 "," 48 9 185)) [(FACalculatedFrom (mkSpan (mkPtok 5 "@calculatedFrom(" 45 25 175) (mkPtok 6 ")" 45 46 177)) (mkCalculatedFrom (mkSpan (mkPtok 5 "@calculatedFrom(" 45 25 175) (mkPtok 6 ")" 45 46 177)) (mkPtok 5 "@calculatedFrom(" 45 25 175) (mkPtok 31 (string_of_bytes [34; 240; 159; 152; 128; 34]%N) 45 42 176) (mkPtok 6 ")" 45 46 177)))] (CheckSumField (mkSpan (mkPtok 29 "f64" 45 48 178) (mkPtok 40 "," 48 9 185)) (mkChecksumFieldDecl (mkSpan (mkPtok 29 "f64" 45 48 178) (mkPtok 40 "," 48 9 185)) (Some (TyBasic (mkSpan (mkPtok 29 "f64" 45 48 178) (mkPtok 29 "f64" 45 48 178)) (mkBasicType (mkSpan (mkPtok 29 "f64" 45 48 178) (mkPtok 29 "f64" 45 48 178)) (mkPtok 29 "f64" 45 48 178)))) (mkPtok 42 "Logon" 45 52 179) (mkCalculatedFrom (mkSpan (mkPtok 5 "@calculatedFrom(" 46 0 181) (mkPtok 6 ")" 47 0 183)) (mkPtok 5 "@calculatedFrom(" 46 0 181) (mkPtok 31 """1""" 46 17 182) (mkPtok 6 ")" 47 0 183)) (Some (mkPtok 43 "`a\`" 48 4 184)) (mkPtok 40 "," 48 9 185)))); (mkFieldWithAttr (mkSpan (mkPtok 25 "int16" 48 12 186) (mkPtok 40 "," 50 0 189)) [] (MetaField (mkSpan (mkPtok 25 "int16" 48 12 186) (mkPtok 40 "," 50 0 189)) None (mkMetaDecl (mkSpan (mkPtok 25 "int16" 48 12 186) (mkPtok 40 "," 50 0 189)) (TyBasic (mkSpan (mkPtok 25 "int16" 48 12 186) (mkPtok 25 "int16" 48 12 186)) (mkBasicType (mkSpan (mkPtok 25 "int16" 48 12 186) (mkPtok 25 "int16" 48 12 186)) (mkPtok 25 "int16" 48 12 186))) (mkPtok 42 "trueish" 48 18 187) (Some (mkPtok 43 (string_of_bytes [96; 108; 105; 110; 101; 49; 10; 108; 105; 110; 101; 50; 96]%N) 48 26 188)) (mkPtok 40 "," 50 0 189)))); (mkFieldWithAttr (mkSpan (mkPtok 14 "zchar[" 51 0 191) (mkPtok 40 "," 53 26 197)) [] (MetaField (mkSpan (mkPtok 14 "zchar[" 51 0 191) (mkPtok 40 "," 53 26 197)) None (mkMetaDecl (mkSpan (mkPtok 14 "zchar[" 51 0 191) (mkPtok 40 "," 53 26 197)) (TyFixed (mkSpan (mkPtok 14 "zchar[" 51 0 191) (mkPtok 13 "]" 51 19 193)) (mkFixedString (mkSpan (mkPtok 14 "zchar[" 51 0 191) (mkPtok 13 "]" 51 19 193)) (mkPtok 14 "zchar[" 51 0 191) (mkPtok 30 "0123456789" 51 8 192) (mkPtok 13 "]" 51 19 193))) (mkPtok 42 "BodyLength" 53 4 195) (Some (mkPtok 43 "`two words`" 53 15 196)) (mkPtok 40 "," 53 26 197)))); (mkFieldWithAttr (mkSpan (mkPtok 28 "float32" 53 28 198) (mkPtok 40 "," 54 0 204)) [] (LengthField (mkSpan (mkPtok 28 "float32" 53 28 198) (mkPtok 40 "," 54 0 204)) (mkLengthFieldDecl (mkSpan (mkPtok 28 "float32" 53 28 198) (mkPtok 40 "," 54 0 204)) (Some (TyBasic (mkSpan (mkPtok 28 "float32" 53 28 198) (mkPtok 28 "float32" 53 28 198)) (mkBasicType (mkSpan (mkPtok 28 "float32" 53 28 198) (mkPtok 28 "float32" 53 28 198)) (mkPtok 28 "float32" 53 28 198)))) (mkPtok 42 "i8i8" 53 36 199) (mkLengthOf (mkSpan (mkPtok 7 "@lengthOf(" 53 41 200) (mkPtok 6 ")" 53 61 202)) (mkPtok 7 "@lengthOf(" 53 41 200) (mkPtok 42 "metadata" 53 52 201) (mkPtok 6 ")" 53 61 202)) (Some (mkPtok 43 "`// not a comment`" 53 63 203)) (mkPtok 40 "," 54 0 204)))); (mkFieldWithAttr (mkSpan (mkPtok 26 "i32" 54 2 205) (mkPtok 40 "," 54 13 207)) [] (MetaField (mkSpan (mkPtok 26 "i32" 54 2 205) (mkPtok 40 "," 54 13 207)) None (mkMetaDecl (mkSpan (mkPtok 26 "i32" 54 2 205) (mkPtok 40 "," 54 13 207)) (TyBasic (mkSpan (mkPtok 26 "i32" 54 2 205) (mkPtok 26 "i32" 54 2 205)) (mkBasicType (mkSpan (mkPtok 26 "i32" 54 2 205) (mkPtok 26 "i32" 54 2 205)) (mkPtok 26 "i32" 54 2 205))) (mkPtok 42 "leftPad" 54 6 206) None (mkPtok 40 "," 54 13 207))))] (mkPtok 3 "}" 54 15 208)))])).
Eval vm_compute in ("<<<M171>>>" ++ check (runes_of_ascii "MetaData
Packet {
    float	Pad ,u32 // " ++ [128512]%N ++ runes_of_ascii " emoji
Foo `it's`
    ,uint16 stringy
    , } packet
    stringy // @lengthOf(
{ @lengthOf(
    chars
) repeat f32 pack ,  @lengthOf(
rootA
)
    // @lengthOf(
    @calculatedFrom( ""CRC32""  ) char[] MetaDataX
    // a // b
    `" ++ [28040; 24687; 31867; 22411]%N ++ runes_of_ascii "` , @tag( 4294967296
    ) len	@calculatedFrom(""a	b"")
,
} packet
stringy { f32 leftPad/// triple
,
stringy { int	@calculatedFrom(""1"" ) `" ++ [233]%N ++ runes_of_ascii "`,	char[] o, zchar[ 0123456789  ]
    matchKey @lengthOf(	lengthOf )
`two words`
, }
,
@leftPad ('\x00'
) @lengthOf(
// " ++ [128512]%N ++ runes_of_ascii " emoji
/// triple
falsey) repeat string falsey
    `// not a comment` // trailing space 
, //	t
string Pad
    , }

")).
Eval vm_compute in ("<<<M203>>>" ++ check (runes_of_ascii "/// triple
MetaData roots
    { string
Z9_ `say ""hi""`
    //
    ,o
    tag ,char[4294967296 // " ++ [128512]%N ++ runes_of_ascii " emoji
] body `crlf
line`
,
    _x lengthOf `tab	here` , } options { repeatCount	= ""x y"" ; T = """ ++ [28040; 24687]%N ++ runes_of_ascii """ }
    /// triple
    packet int{ @calculatedFrom( ""CRC32"" )int64 f32a, roots @calculatedFrom( ""it's"" )`` ,@calculatedFrom(""a\\"" )@tag( 007 ) char[ 255//	t
] crc @lengthOf(packetx )
    ,
match
    Pad as string_ { [""\" ++ [233]%N ++ runes_of_ascii """,3
    // " ++ [27880; 37322]%N ++ runes_of_ascii "
    ] : lengthOf  ,[ 42
    ]:
// packet A { u8 x, }
// packet A { u8 x, }
body ,
7 : i8i8
    ,0123456789:
options1
,//x
[ 00 ] : Z9_ ,  }// @lengthOf(
,float
,// " ++ [27880; 37322]%N ++ runes_of_ascii "
} MetaData zchar
    {
    zchar[
3 ]
    options1
    `line1
line2` ,}  packet asx
{ zchar[
    42// " ++ [128512]%N ++ runes_of_ascii " emoji
]
falsey ,	@calculatedFrom(
""1""
)
repeat string As `" ++ [233]%N ++ runes_of_ascii "`, char[] trueish
    , int32 Header , repeat  stringy
`crlf
line`, string
x_y_z,
f64 T
//x
// `tick` ""quote"" 'q'
, uint8x
@lengthOf( charz
)
    `a\` , }")).
Eval vm_compute in ("<<<M235>>>" ++ check (runes_of_ascii "MetaData trueish { u64// trailing space 
i8i8 , }")).
Eval vm_compute in ("<<<M267>>>" ++ check (runes_of_ascii "options
{ u // a // b
=42 x_y_z
    =' ' ;msg_type =
    true ; u
=10 ;  } options { zchar =
uint8
;  } // c")).
Eval vm_compute in ("<<<M299>>>" ++ check (runes_of_ascii "MetaData leftPad {
}
")).
Eval vm_compute in ("<<<M331>>>" ++ check (runes_of_ascii "options { falsey
// " ++ [128512]%N ++ runes_of_ascii " emoji
// " ++ [27880; 37322]%N ++ runes_of_ascii "
= ""abc""; roots = // c
'0'	;MetaDataX
=
// " ++ [128512]%N ++ runes_of_ascii " emoji
// " ++ [128512]%N ++ runes_of_ascii " emoji
'0' ; //
crc= // " ++ [128512]%N ++ runes_of_ascii " emoji
42 // a // b
x	= '0'
; } packet A {  repeat uint64 u128 , @tag(
65535) int16
options1
    `line1
line2` , } options { // packet A { u8 x, }
int
=
""// no comment""msg_type  = zchar[ 0123456789
    /// triple
    ] ; calculatedFrom =// @lengthOf(
u8	;
    asx=
""" ++ [28040; 24687]%N ++ runes_of_ascii """ ; body = 10 } options { charz = true	metadata = char[]
; Packet// c
=  true}
packet Logon
{
@calculatedFrom( """ ++ [128512]%N ++ runes_of_ascii """ )
    repeat packetx rootA,}

")).
Eval vm_compute in ("<<<M363>>>" ++ check (runes_of_ascii "MetaData leftPad // `tick` ""quote"" 'q'
{
    }")).
Eval vm_compute in ("<<<T363>>>" ++ terms [mkTok 37 "MetaData" 1 0 false; mkTok 42 "leftPad" 1 9 false; mkTok 44 "// `tick` ""quote"" 'q'" 1 17 true; mkTok 2 "{" 2 0 false; mkTok 3 "}" 3 4 false; mkTok 0 "<EOF>" 3 5 false] (mkPacket (mkPtok 37 "MetaData" 1 0 0) (Some (mkPtok 3 "}" 3 4 4)) [(DMeta (mkMetaDef (mkSpan (mkPtok 37 "MetaData" 1 0 0) (mkPtok 3 "}" 3 4 4)) (mkPtok 37 "MetaData" 1 0 0) (mkPtok 42 "leftPad" 1 9 1) (mkPtok 2 "{" 2 0 3) [] (mkPtok 3 "}" 3 4 4)))])).
Eval vm_compute in ("<<<M395>>>" ++ check (runes_of_ascii "MetaData // " ++ [128512]%N ++ runes_of_ascii " emoji
chars { int64 metadata	,
char[00] stringy
//
// c
,
    f64 Foo ,} options {	} options {As = char[ 4294967296
]A =
""x y""options1=	float32 Logon =  '\x00' ;	}
")).
Eval vm_compute in ("<<<M427>>>" ++ check (runes_of_ascii "options { // @lengthOf(
} options{metadata = ' ' }packet
    Packet
{ @leftPad (
    ' ' ) pack @calculatedFrom( ""`tick`"" ),}
packet// " ++ [27880; 37322]%N ++ runes_of_ascii "
T
{@tag( 255
)@tag(// `tick` ""quote"" 'q'
7 )
@calculatedFrom( ""CRC32"" ) metadata	@calculatedFrom( """" )// trailing space 
, repeat string falsey `` , match crc as roots { 255
    : As ,
    42 : MetaDataX }, // @lengthOf(
@tag( 0 )@calculatedFrom(
    //	t
    ""it's"")@calculatedFrom(""" ++ [233]%N ++ runes_of_ascii "t" ++ [233]%N ++ runes_of_ascii """) match string_ as a1
{ """ ++ [233]%N ++ runes_of_ascii "t" ++ [233]%N ++ runes_of_ascii """ : body//	t
, 7
    : Packet,
    // `tick` ""quote"" 'q'
    } //
, string options1,
calculatedFrom MetaDataX
,zchar[42]	i8i8
    `` , }")).
Eval vm_compute in ("<<<M459>>>" ++ check (@nil rune)).
Eval vm_compute in ("<<<M491>>>" ++ check (runes_of_ascii "
root
packet string_ {	@tag(	65535)  u8  u8x@calculatedFrom( ""it's"" // packet A { u8 x, }
) , zchar[	10
// " ++ [27880; 37322]%N ++ runes_of_ascii "
//
] pack,  string
f32a  ,
Pad x`say ""hi""`
,@calculatedFrom(
""`tick`""	) // c
@rightPad ( ' ') @calculatedFrom(
""" ++ [128512]%N ++ runes_of_ascii """ )
    match tag as  u128 {
    [
255 ,	""packet""
,	4294967296 , ""// no comment"" , ""\n"" , // a // b
65535 ,""""
    // c
    , """ ++ [28040; 24687]%N ++ runes_of_ascii """] : falsey ""CRC32"" : uint8x , [ 007 , 3 , """ ++ [28040; 24687]%N ++ runes_of_ascii """
] : As , }	,
} 	 ")).
Eval vm_compute in ("<<<M523>>>" ++ check (runes_of_ascii "root packet
    options1 {
    // a // b
    zchar[
    // `tick` ""quote"" 'q'
    1 ] a1 `u8 x,` ,
    }MetaData calculatedFrom {}
    root  packet i64_	{@tag( 10 ) @leftPad	( // c
' '
// a // b
// a // b
) int32 Packet@calculatedFrom( // packet A { u8 x, }
""1"")
,}
")).
Eval vm_compute in ("<<<M555>>>" ++ check (runes_of_ascii "root packet i64_
// " ++ [27880; 37322]%N ++ runes_of_ascii "
// a // b
{/// triple
lengthOf {// c
T	{/// triple
zchar tag ,match
//
// `tick` ""quote"" 'q'
body
    //	t
    as
    //x
    falsey{00 :
BodyLength
    , [ 10 , 0,""1""	, 0123456789 , ""a\\"" ,""`tick`"",
    """",
    4294967296 ]
    :
stringy // c
, // trailing space 
"""" : // " ++ [128512]%N ++ runes_of_ascii " emoji
trueish
, // packet A { u8 x, }
[""CRC32"" , 00 , 10
,
    1  ] :
int , } , i8 T ,
    // `tick` ""quote"" 'q'
    } /// triple
, msg_type{ int64 u ,
}
,match rootA//x
as i64_ {
    7
: uint8x ,} ,
} ,
repeat// `tick` ""quote"" 'q'
calculatedFrom //x
{
Pad T,
    repeatCount
    int , i16
    crc @calculatedFrom( ""packet""
) `` ,
    match
// `tick` ""quote"" 'q'
// packet A { u8 x, }
u128
as
As { """" : crc,
[ 65535 , 4294967296 , 007
    ,
""a	b""
, 10 // `tick` ""quote"" 'q'
]
    : rootA
, } , } ,
    zchar[4294967296 ]  u
,
repeat uint16
    string_ `a\`	, } root
packet A{	match Logon as asx { [	3 ,	""a	b""
] : MetaDataX ,
    0
: lengthOf ,""packet""
:
// packet A { u8 x, }
// " ++ [27880; 37322]%N ++ runes_of_ascii "
u8x,	255 : repeatCount , [00 ,""""  ] :
charz
,
["""" ]:msg_type, }  ,}
")).
Eval vm_compute in ("<<<M587>>>" ++ check (runes_of_ascii "
packet int {} packet roots
{}")).
Eval vm_compute in ("<<<T587>>>" ++ terms [mkTok 35 "packet" 2 0 false; mkTok 42 "int" 2 7 false; mkTok 2 "{" 2 11 false; mkTok 3 "}" 2 12 false; mkTok 35 "packet" 2 14 false; mkTok 42 "roots" 2 21 false; mkTok 2 "{" 3 0 false; mkTok 3 "}" 3 1 false; mkTok 0 "<EOF>" 3 2 false] (mkPacket (mkPtok 35 "packet" 2 0 0) (Some (mkPtok 3 "}" 3 1 7)) [(DPacket (mkPacketDef (mkSpan (mkPtok 35 "packet" 2 0 0) (mkPtok 3 "}" 2 12 3)) None (mkPtok 35 "packet" 2 0 0) (mkPtok 42 "int" 2 7 1) (mkPtok 2 "{" 2 11 2) [] (mkPtok 3 "}" 2 12 3))); (DPacket (mkPacketDef (mkSpan (mkPtok 35 "packet" 2 14 4) (mkPtok 3 "}" 3 1 7)) None (mkPtok 35 "packet" 2 14 4) (mkPtok 42 "roots" 2 21 5) (mkPtok 2 "{" 3 0 6) [] (mkPtok 3 "}" 3 1 7)))])).
Eval vm_compute in ("<<<M619>>>" ++ check (runes_of_ascii "packet u128 {
@calculatedFrom(
""" ++ [28040; 24687]%N ++ runes_of_ascii """ )
stringy { match falsey
as Z9_ { // @lengthOf(
""packet"": float
    //	t
    , } , match uint8x as x_y_z
{ 3 :i64_ ,
//
// " ++ [128512]%N ++ runes_of_ascii " emoji
""CRC32"" :float
    , 007 : falsey ,  0123456789 : //x
Packet , [
    ""it's""
// packet A { u8 x, }
// " ++ [128512]%N ++ runes_of_ascii " emoji
, ""\" ++ [233]%N ++ runes_of_ascii """ ] : calculatedFrom,}
,uint16
uint8x `it's`
, repeat i8 repeatCount,} ,
u8 string_
,
    // trailing space 
    @lengthOf(
    body ) @rightPad (
    '\x00' ) zchar[ 65535 ] trueish @calculatedFrom(
""`tick`"" ) , @rightPad ( ) charz @lengthOf(
A) , MetaDataX,
@tag(
    3) char[ 3 ] x	`doc`
,repeat
    i8i8 {
    string Z9_,  } ,
} // @lengthOf(
root packet chars
    // " ++ [27880; 37322]%N ++ runes_of_ascii "
    {
    string_ , u16
trueish `
` , float32 Pad
@lengthOf(metadata )
`" ++ [28040; 24687; 31867; 22411]%N ++ runes_of_ascii "`,repeatCount ,  @lengthOf( x )	char[]uint8x @lengthOf( T )// a // b
`tab	here`	, A	{ char rootA // packet A { u8 x, }
`
` // a // b
, int64 f32a
    //	t
    ,
    Packet { repeat i16
    Foo
`it's` , /// triple
zchar[65535 ]
stringy
    @calculatedFrom( ""1"" )`
` , // trailing space 
}  , int
    // " ++ [128512]%N ++ runes_of_ascii " emoji
    ,
    } , // trailing space 
charz
// `tick` ""quote"" 'q'
//	t
metadata,
@calculatedFrom( ""\" ++ [233]%N ++ runes_of_ascii """
)
match o
as matchKey {	""abc""
: zchar , // " ++ [27880; 37322]%N ++ runes_of_ascii "
""CRC32"": As// packet A { u8 x, }
""packet"": Packet// `tick` ""quote"" 'q'
,
    ""x y"" :pack
[0 , 10 , 00 ,  ""\n"",65535,""1"" ]:
As // trailing space 
, } /// triple
, //
}options
{ } packet leftPad {@calculatedFrom( ""a\\""
    ) @lengthOf(len
    ) @tag(
1)
char[
255] u8x,
    @calculatedFrom( ""// no comment"" )
    int32 //	t
len@lengthOf( _x ) // " ++ [27880; 37322]%N ++ runes_of_ascii "
,@calculatedFrom(
""" ++ [28040; 24687]%N ++ runes_of_ascii """ ) repeat Logon int `" ++ [28040; 24687; 31867; 22411]%N ++ runes_of_ascii "`
    ,
    match As as
packetx {
    ""a	b"" : uint8x ,
    // a // b
    }
, char[ 0
    ] charz @lengthOf( i8i8) , chars
metadata , @tag( 0123456789)
//
// trailing space 
BodyLength // packet A { u8 x, }
, }
")).
Eval vm_compute in ("<<<M651>>>" ++ check (runes_of_ascii "root packet
    f32a
    { @tag( 42
    ) char
Header `
`	,
    }
")).
Eval vm_compute in ("<<<M683>>>" ++ check (runes_of_ascii "MetaData roots {	charz matchKey //
`two words`
    , char[	65535 ] //	t
T `// not a comment`
, char[]
tag , string
/// triple
// @lengthOf(
a1 `two words`
,
} root packet stringy
    // trailing space 
    { repeat roots {repeat calculatedFrom	len
// " ++ [128512]%N ++ runes_of_ascii " emoji
// " ++ [128512]%N ++ runes_of_ascii " emoji
,
} ,  @tag( 42
)  @rightPad(/// triple
'0' )@tag(
007
)  f32 lengthOf @lengthOf( tag ) `crlf
line`
,	int32 chars,zchar[ 3
]
rootA @calculatedFrom(
""a\""b"" )// c
, @rightPad
( ) @calculatedFrom(""" ++ [128512]%N ++ runes_of_ascii """
) @tag(	0123456789 ) Foo {char[] u8x	@lengthOf( charz
    // @lengthOf(
    ) , A	, } ,
    match repeatCount as
body{
""\n"" :  T, [
    """ ++ [128512]%N ++ runes_of_ascii """, 255
// @lengthOf(
/// triple
] : lengthOf , } ,
@calculatedFrom(""x y"" )
    u8
packetx
@calculatedFrom(//x
""CRC32"" // a // b
) `tab	here` ,
    }
")).
Eval vm_compute in ("<<<M715>>>" ++ check (runes_of_ascii "//	t
MetaData asx
{
zchar Packet `" ++ [233]%N ++ runes_of_ascii "` ,	zchar[ 42 ]
f32a
    , } options {
    // packet A { u8 x, }
    tag=
    ""\n"" ;
    }
")).
Eval vm_compute in ("<<<M747>>>" ++ check (runes_of_ascii "  MetaData crc { } 	 ")).
Eval vm_compute in ("<<<M779>>>" ++ check (runes_of_ascii "
packet // packet A { u8 x, }
rootA { }")).
Eval vm_compute in ("<<<M811>>>" ++ check (runes_of_ascii "MetaData a1
{
// `tick` ""quote"" 'q'
//	t
_x  asx ,} MetaData Packet
{	BodyLength
    int, } root packet x	{ @leftPad(' ' ) f64
// a // b
// `tick` ""quote"" 'q'
repeatCount@lengthOf(
x // c
) `line1
line2`
, @rightPad// @lengthOf(
('\x00'
    )match i8i8 as pack{ [ 10
, """ ++ [128512]%N ++ runes_of_ascii """, 10
, ""a	b"" ,
1// trailing space 
,
// c
// " ++ [128512]%N ++ runes_of_ascii " emoji
7 ] : leftPad [ 255 , 10 ,0 , 1 , """ ++ [233]%N ++ runes_of_ascii "t" ++ [233]%N ++ runes_of_ascii """, ""x y""  ]: A """ ++ [28040; 24687]%N ++ runes_of_ascii """ :
    u, 00 :  charz ,
    // a // b
    """ ++ [28040; 24687]%N ++ runes_of_ascii """
:
len 0:
    As, } ,
f32 x
`" ++ [233]%N ++ runes_of_ascii "` , }	MetaData x {}")).
Eval vm_compute in ("<<<T811>>>" ++ terms [mkTok 37 "MetaData" 1 0 false; mkTok 42 "a1" 1 9 false; mkTok 2 "{" 2 0 false; mkTok 44 "// `tick` ""quote"" 'q'" 3 0 true; mkTok 44 (string_of_bytes [47; 47; 9; 116]%N) 4 0 true; mkTok 42 "_x" 5 0 false; mkTok 42 "asx" 5 4 false; mkTok 40 "," 5 8 false; mkTok 3 "}" 5 9 false; mkTok 37 "MetaData" 5 11 false; mkTok 42 "Packet" 5 20 false; mkTok 2 "{" 6 0 false; mkTok 42 "BodyLength" 6 2 false; mkTok 42 "int" 7 4 false; mkTok 40 "," 7 7 false; mkTok 3 "}" 7 9 false; mkTok 34 "root" 7 11 false; mkTok 35 "packet" 7 16 false; mkTok 42 "x" 7 23 false; mkTok 2 "{" 7 25 false; mkTok 32 "@leftPad" 7 27 false; mkTok 8 "(" 7 35 false; mkTok 33 "' '" 7 36 false; mkTok 6 ")" 7 40 false; mkTok 29 "f64" 7 42 false; mkTok 44 "// a // b" 8 0 true; mkTok 44 "// `tick` ""quote"" 'q'" 9 0 true; mkTok 42 "repeatCount" 10 0 false; mkTok 7 "@lengthOf(" 10 11 false; mkTok 42 "x" 11 0 false; mkTok 44 "// c" 11 2 true; mkTok 6 ")" 12 0 false; mkTok 43 (string_of_bytes [96; 108; 105; 110; 101; 49; 10; 108; 105; 110; 101; 50; 96]%N) 12 2 false; mkTok 40 "," 14 0 false; mkTok 32 "@rightPad" 14 2 false; mkTok 44 "// @lengthOf(" 14 11 true; mkTok 8 "(" 15 0 false; mkTok 33 "'\x00'" 15 1 false; mkTok 6 ")" 16 4 false; mkTok 38 "match" 16 5 false; mkTok 42 "i8i8" 16 11 false; mkTok 17 "as" 16 16 false; mkTok 42 "pack" 16 19 false; mkTok 2 "{" 16 23 false; mkTok 18 "[" 16 25 false; mkTok 30 "10" 16 27 false; mkTok 40 "," 17 0 false; mkTok 31 (string_of_bytes [34; 240; 159; 152; 128; 34]%N) 17 2 false; mkTok 40 "," 17 5 false; mkTok 30 "10" 17 7 false; mkTok 40 "," 18 0 false; mkTok 31 (string_of_bytes [34; 97; 9; 98; 34]%N) 18 2 false; mkTok 40 "," 18 8 false; mkTok 30 "1" 19 0 false; mkTok 44 "// trailing space " 19 1 true; mkTok 40 "," 20 0 false; mkTok 44 "// c" 21 0 true; mkTok 44 (string_of_bytes [47; 47; 32; 240; 159; 152; 128; 32; 101; 109; 111; 106; 105]%N) 22 0 true; mkTok 30 "7" 23 0 false; mkTok 13 "]" 23 2 false; mkTok 39 ":" 23 4 false; mkTok 42 "leftPad" 23 6 false; mkTok 18 "[" 23 14 false; mkTok 30 "255" 23 16 false; mkTok 40 "," 23 20 false; mkTok 30 "10" 23 22 false; mkTok 40 "," 23 25 false; mkTok 30 "0" 23 26 false; mkTok 40 "," 23 28 false; mkTok 30 "1" 23 30 false; mkTok 40 "," 23 32 false; mkTok 31 (string_of_bytes [34; 195; 169; 116; 195; 169; 34]%N) 23 34 false; mkTok 40 "," 23 39 false; mkTok 31 """x y""" 23 41 false; mkTok 13 "]" 23 48 false; mkTok 39 ":" 23 49 false; mkTok 42 "A" 23 51 false; mkTok 31 (string_of_bytes [34; 230; 182; 136; 230; 129; 175; 34]%N) 23 53 false; mkTok 39 ":" 23 58 false; mkTok 42 "u" 24 4 false; mkTok 40 "," 24 5 false; mkTok 30 "00" 24 7 false; mkTok 39 ":" 24 10 false; mkTok 42 "charz" 24 13 false; mkTok 40 "," 24 19 false; mkTok 44 "// a // b" 25 4 true; mkTok 31 (string_of_bytes [34; 230; 182; 136; 230; 129; 175; 34]%N) 26 4 false; mkTok 39 ":" 27 0 false; mkTok 42 "len" 28 0 false; mkTok 30 "0" 28 4 false; mkTok 39 ":" 28 5 false; mkTok 42 "As" 29 4 false; mkTok 40 "," 29 6 false; mkTok 3 "}" 29 8 false; mkTok 40 "," 29 10 false; mkTok 28 "f32" 30 0 false; mkTok 42 "x" 30 4 false; mkTok 43 (string_of_bytes [96; 195; 169; 96]%N) 31 0 false; mkTok 40 "," 31 4 false; mkTok 3 "}" 31 6 false; mkTok 37 "MetaData" 31 8 false; mkTok 42 "x" 31 17 false; mkTok 2 "{" 31 19 false; mkTok 3 "}" 31 20 false; mkTok 0 "<EOF>" 31 21 false] (mkPacket (mkPtok 37 "MetaData" 1 0 0) (Some (mkPtok 3 "}" 31 20 103)) [(DMeta (mkMetaDef (mkSpan (mkPtok 37 "MetaData" 1 0 0) (mkPtok 3 "}" 5 9 8)) (mkPtok 37 "MetaData" 1 0 0) (mkPtok 42 "a1" 1 9 1) (mkPtok 2 "{" 2 0 2) [(MIRef (mkRefMetaDecl (mkSpan (mkPtok 42 "_x" 5 0 5) (mkPtok 40 "," 5 8 7)) (mkPtok 42 "_x" 5 0 5) (mkPtok 42 "asx" 5 4 6) None (mkPtok 40 "," 5 8 7)))] (mkPtok 3 "}" 5 9 8))); (DMeta (mkMetaDef (mkSpan (mkPtok 37 "MetaData" 5 11 9) (mkPtok 3 "}" 7 9 15)) (mkPtok 37 "MetaData" 5 11 9) (mkPtok 42 "Packet" 5 20 10) (mkPtok 2 "{" 6 0 11) [(MIRef (mkRefMetaDecl (mkSpan (mkPtok 42 "BodyLength" 6 2 12) (mkPtok 40 "," 7 7 14)) (mkPtok 42 "BodyLength" 6 2 12) (mkPtok 42 "int" 7 4 13) None (mkPtok 40 "," 7 7 14)))] (mkPtok 3 "}" 7 9 15))); (DPacket (mkPacketDef (mkSpan (mkPtok 34 "root" 7 11 16) (mkPtok 3 "}" 31 6 99)) (Some (mkPtok 34 "root" 7 11 16)) (mkPtok 35 "packet" 7 16 17) (mkPtok 42 "x" 7 23 18) (mkPtok 2 "{" 7 25 19) [(mkFieldWithAttr (mkSpan (mkPtok 32 "@leftPad" 7 27 20) (mkPtok 40 "," 14 0 33)) [(FAPadding (mkSpan (mkPtok 32 "@leftPad" 7 27 20) (mkPtok 6 ")" 7 40 23)) (mkPaddingAttr (mkSpan (mkPtok 32 "@leftPad" 7 27 20) (mkPtok 6 ")" 7 40 23)) (mkPtok 32 "@leftPad" 7 27 20) (mkPtok 8 "(" 7 35 21) (Some (mkPtok 33 "' '" 7 36 22)) (mkPtok 6 ")" 7 40 23)))] (LengthField (mkSpan (mkPtok 29 "f64" 7 42 24) (mkPtok 40 "," 14 0 33)) (mkLengthFieldDecl (mkSpan (mkPtok 29 "f64" 7 42 24) (mkPtok 40 "," 14 0 33)) (Some (TyBasic (mkSpan (mkPtok 29 "f64" 7 42 24) (mkPtok 29 "f64" 7 42 24)) (mkBasicType (mkSpan (mkPtok 29 "f64" 7 42 24) (mkPtok 29 "f64" 7 42 24)) (mkPtok 29 "f64" 7 42 24)))) (mkPtok 42 "repeatCount" 10 0 27) (mkLengthOf (mkSpan (mkPtok 7 "@lengthOf(" 10 11 28) (mkPtok 6 ")" 12 0 31)) (mkPtok 7 "@lengthOf(" 10 11 28) (mkPtok 42 "x" 11 0 29) (mkPtok 6 ")" 12 0 31)) (Some (mkPtok 43 (string_of_bytes [96; 108; 105; 110; 101; 49; 10; 108; 105; 110; 101; 50; 96]%N) 12 2 32)) (mkPtok 40 "," 14 0 33)))); (mkFieldWithAttr (mkSpan (mkPtok 32 "@rightPad" 14 2 34) (mkPtok 40 "," 29 10 94)) [(FAPadding (mkSpan (mkPtok 32 "@rightPad" 14 2 34) (mkPtok 6 ")" 16 4 38)) (mkPaddingAttr (mkSpan (mkPtok 32 "@rightPad" 14 2 34) (mkPtok 6 ")" 16 4 38)) (mkPtok 32 "@rightPad" 14 2 34) (mkPtok 8 "(" 15 0 36) (Some (mkPtok 33 "'\x00'" 15 1 37)) (mkPtok 6 ")" 16 4 38)))] (MatchField (mkSpan (mkPtok 38 "match" 16 5 39) (mkPtok 40 "," 29 10 94)) (mkMatchFieldDecl (mkSpan (mkPtok 38 "match" 16 5 39) (mkPtok 3 "}" 29 8 93)) (mkPtok 38 "match" 16 5 39) (mkPtok 42 "i8i8" 16 11 40) (mkPtok 17 "as" 16 16 41) (mkPtok 42 "pack" 16 19 42) (mkPtok 2 "{" 16 23 43) [(mkMatchPair (mkSpan (mkPtok 18 "[" 16 25 44) (mkPtok 42 "leftPad" 23 6 61)) (MKList (mkKeyList (mkSpan (mkPtok 18 "[" 16 25 44) (mkPtok 13 "]" 23 2 59)) (mkPtok 18 "[" 16 25 44) (mkPtok 30 "10" 16 27 45) [((mkPtok 40 "," 17 0 46), (mkPtok 31 (string_of_bytes [34; 240; 159; 152; 128; 34]%N) 17 2 47)); ((mkPtok 40 "," 17 5 48), (mkPtok 30 "10" 17 7 49)); ((mkPtok 40 "," 18 0 50), (mkPtok 31 (string_of_bytes [34; 97; 9; 98; 34]%N) 18 2 51)); ((mkPtok 40 "," 18 8 52), (mkPtok 30 "1" 19 0 53)); ((mkPtok 40 "," 20 0 55), (mkPtok 30 "7" 23 0 58))] (mkPtok 13 "]" 23 2 59))) (mkPtok 39 ":" 23 4 60) (mkPtok 42 "leftPad" 23 6 61) None); (mkMatchPair (mkSpan (mkPtok 18 "[" 23 14 62) (mkPtok 42 "A" 23 51 76)) (MKList (mkKeyList (mkSpan (mkPtok 18 "[" 23 14 62) (mkPtok 13 "]" 23 48 74)) (mkPtok 18 "[" 23 14 62) (mkPtok 30 "255" 23 16 63) [((mkPtok 40 "," 23 20 64), (mkPtok 30 "10" 23 22 65)); ((mkPtok 40 "," 23 25 66), (mkPtok 30 "0" 23 26 67)); ((mkPtok 40 "," 23 28 68), (mkPtok 30 "1" 23 30 69)); ((mkPtok 40 "," 23 32 70), (mkPtok 31 (string_of_bytes [34; 195; 169; 116; 195; 169; 34]%N) 23 34 71)); ((mkPtok 40 "," 23 39 72), (mkPtok 31 """x y""" 23 41 73))] (mkPtok 13 "]" 23 48 74))) (mkPtok 39 ":" 23 49 75) (mkPtok 42 "A" 23 51 76) None); (mkMatchPair (mkSpan (mkPtok 31 (string_of_bytes [34; 230; 182; 136; 230; 129; 175; 34]%N) 23 53 77) (mkPtok 40 "," 24 5 80)) (MKString (mkPtok 31 (string_of_bytes [34; 230; 182; 136; 230; 129; 175; 34]%N) 23 53 77)) (mkPtok 39 ":" 23 58 78) (mkPtok 42 "u" 24 4 79) (Some (mkPtok 40 "," 24 5 80))); (mkMatchPair (mkSpan (mkPtok 30 "00" 24 7 81) (mkPtok 40 "," 24 19 84)) (MKDigits (mkPtok 30 "00" 24 7 81)) (mkPtok 39 ":" 24 10 82) (mkPtok 42 "charz" 24 13 83) (Some (mkPtok 40 "," 24 19 84))); (mkMatchPair (mkSpan (mkPtok 31 (string_of_bytes [34; 230; 182; 136; 230; 129; 175; 34]%N) 26 4 86) (mkPtok 42 "len" 28 0 88)) (MKString (mkPtok 31 (string_of_bytes [34; 230; 182; 136; 230; 129; 175; 34]%N) 26 4 86)) (mkPtok 39 ":" 27 0 87) (mkPtok 42 "len" 28 0 88) None); (mkMatchPair (mkSpan (mkPtok 30 "0" 28 4 89) (mkPtok 40 "," 29 6 92)) (MKDigits (mkPtok 30 "0" 28 4 89)) (mkPtok 39 ":" 28 5 90) (mkPtok 42 "As" 29 4 91) (Some (mkPtok 40 "," 29 6 92)))] (mkPtok 3 "}" 29 8 93)) (mkPtok 40 "," 29 10 94))); (mkFieldWithAttr (mkSpan (mkPtok 28 "f32" 30 0 95) (mkPtok 40 "," 31 4 98)) [] (MetaField (mkSpan (mkPtok 28 "f32" 30 0 95) (mkPtok 40 "," 31 4 98)) None (mkMetaDecl (mkSpan (mkPtok 28 "f32" 30 0 95) (mkPtok 40 "," 31 4 98)) (TyBasic (mkSpan (mkPtok 28 "f32" 30 0 95) (mkPtok 28 "f32" 30 0 95)) (mkBasicType (mkSpan (mkPtok 28 "f32" 30 0 95) (mkPtok 28 "f32" 30 0 95)) (mkPtok 28 "f32" 30 0 95))) (mkPtok 42 "x" 30 4 96) (Some (mkPtok 43 (string_of_bytes [96; 195; 169; 96]%N) 31 0 97)) (mkPtok 40 "," 31 4 98))))] (mkPtok 3 "}" 31 6 99))); (DMeta (mkMetaDef (mkSpan (mkPtok 37 "MetaData" 31 8 100) (mkPtok 3 "}" 31 20 103)) (mkPtok 37 "MetaData" 31 8 100) (mkPtok 42 "x" 31 17 101) (mkPtok 2 "{" 31 19 102) [] (mkPtok 3 "}" 31 20 103)))])).
Eval vm_compute in ("<<<M843>>>" ++ check (runes_of_ascii "root
    packet
falsey{  repeat i64_ , //	t
@tag( 4294967296 ) @leftPad (' ' )
@lengthOf( _x )x leftPad `a\`,
/// triple
// " ++ [27880; 37322]%N ++ runes_of_ascii "
@calculatedFrom( """"	)  @lengthOf( i8i8 ) @tag( 10
    ) stringy { u8x { int8 i8i8 @lengthOf( string_ ) `doc`
, string asx, }
// " ++ [128512]%N ++ runes_of_ascii " emoji
/// triple
,} ,
    @tag( 007
)string metadata  , } // packet A { u8 x, }")).
Eval vm_compute in ("<<<M875>>>" ++ check (runes_of_ascii "packet
packetx {
    match i64_ as roots
// trailing space 
// c
{ 7
:
x 42 :  asx
    // @lengthOf(
    , 65535 : i64_ [ 00 // `tick` ""quote"" 'q'
, 1 ] : Z9_ [ // c
""\n"",3,
007 ]
    :float ,
} , }MetaData metadata {	char[]Header `" ++ [28040; 24687; 31867; 22411]%N ++ runes_of_ascii "` ,Foo stringy
, uint64 body , f32	a1
    , } packet
    chars{ }")).
Eval vm_compute in ("<<<M907>>>" ++ check (runes_of_ascii "packet
// @lengthOf(
// " ++ [128512]%N ++ runes_of_ascii " emoji
len{ @calculatedFrom( ""it's"")
    calculatedFrom msg_type
, }
")).
Eval vm_compute in ("<<<M939>>>" ++ check (runes_of_ascii "packet repeatCount{ }
root packet uint8x {
    @rightPad ( '\x00' )
options1//x
As , // a // b
}
")).
Eval vm_compute in ("<<<M971>>>" ++ check (runes_of_ascii "packet // trailing space 
A
{ @tag( 0
)
    string
i8i8`a\`
    // packet A { u8 x, }
    , float64
    x @lengthOf( Header // " ++ [128512]%N ++ runes_of_ascii " emoji
) `tab	here` // @lengthOf(
,zchar[
    3 ]	lengthOf ,
// packet A { u8 x, }
// " ++ [27880; 37322]%N ++ runes_of_ascii "
o msg_type `{ , }` ,
    //x
    Logon // c
@lengthOf( i64_)
,@leftPad (
' ' ) repeat As
// packet A { u8 x, }
// @lengthOf(
,  match
    len as leftPad
    {""x y"" :
    repeatCount , """ ++ [28040; 24687]%N ++ runes_of_ascii """ :
packetx , ""x y"" : u8x ,
4294967296:
Header ""a	b"": roots,
} , @calculatedFrom(
// " ++ [128512]%N ++ runes_of_ascii " emoji
/// triple
""{,}"" )
    // trailing space 
    uint32// packet A { u8 x, }
i64_ `line1
line2`, } // " ++ [128512]%N ++ runes_of_ascii " emoji")).
Eval vm_compute in ("<<<M1003>>>" ++ check (runes_of_ascii "
")).
Eval vm_compute in ("<<<M1035>>>" ++ check (runes_of_ascii "packet falsey {
    // a // b
    char[]x_y_z @lengthOf(  u ) `two words` , } MetaData Packet
{
    char[
3  ] rootA `line1
line2`
,
    string
    A ,
} root packet string_ {uint8
calculatedFrom  @lengthOf( u128 )
`line1
line2`, char[ 3] Z9_ ,float , }
")).
Eval vm_compute in ("<<<T1035>>>" ++ terms [mkTok 35 "packet" 1 0 false; mkTok 42 "falsey" 1 7 false; mkTok 2 "{" 1 14 false; mkTok 44 "// a // b" 2 4 true; mkTok 16 "char[]" 3 4 false; mkTok 42 "x_y_z" 3 10 false; mkTok 7 "@lengthOf(" 3 16 false; mkTok 42 "u" 3 28 false; mkTok 6 ")" 3 30 false; mkTok 43 "`two words`" 3 32 false; mkTok 40 "," 3 44 false; mkTok 3 "}" 3 46 false; mkTok 37 "MetaData" 3 48 false; mkTok 42 "Packet" 3 57 false; mkTok 2 "{" 4 0 false; mkTok 12 "char[" 5 4 false; mkTok 30 "3" 6 0 false; mkTok 13 "]" 6 3 false; mkTok 42 "rootA" 6 5 false; mkTok 43 (string_of_bytes [96; 108; 105; 110; 101; 49; 10; 108; 105; 110; 101; 50; 96]%N) 6 11 false; mkTok 40 "," 8 0 false; mkTok 15 "string" 9 4 false; mkTok 42 "A" 10 4 false; mkTok 40 "," 10 6 false; mkTok 3 "}" 11 0 false; mkTok 34 "root" 11 2 false; mkTok 35 "packet" 11 7 false; mkTok 42 "string_" 11 14 false; mkTok 2 "{" 11 22 false; mkTok 20 "uint8" 11 23 false; mkTok 42 "calculatedFrom" 12 0 false; mkTok 7 "@lengthOf(" 12 16 false; mkTok 42 "u128" 12 27 false; mkTok 6 ")" 12 32 false; mkTok 43 (string_of_bytes [96; 108; 105; 110; 101; 49; 10; 108; 105; 110; 101; 50; 96]%N) 13 0 false; mkTok 40 "," 14 6 false; mkTok 12 "char[" 14 8 false; mkTok 30 "3" 14 14 false; mkTok 13 "]" 14 15 false; mkTok 42 "Z9_" 14 17 false; mkTok 40 "," 14 21 false; mkTok 42 "float" 14 22 false; mkTok 40 "," 14 28 false; mkTok 3 "}" 14 30 false; mkTok 0 "<EOF>" 15 0 false] (mkPacket (mkPtok 35 "packet" 1 0 0) (Some (mkPtok 3 "}" 14 30 43)) [(DPacket (mkPacketDef (mkSpan (mkPtok 35 "packet" 1 0 0) (mkPtok 3 "}" 3 46 11)) None (mkPtok 35 "packet" 1 0 0) (mkPtok 42 "falsey" 1 7 1) (mkPtok 2 "{" 1 14 2) [(mkFieldWithAttr (mkSpan (mkPtok 16 "char[]" 3 4 4) (mkPtok 40 "," 3 44 10)) [] (LengthField (mkSpan (mkPtok 16 "char[]" 3 4 4) (mkPtok 40 "," 3 44 10)) (mkLengthFieldDecl (mkSpan (mkPtok 16 "char[]" 3 4 4) (mkPtok 40 "," 3 44 10)) (Some (TyDynamic (mkSpan (mkPtok 16 "char[]" 3 4 4) (mkPtok 16 "char[]" 3 4 4)) (mkDynamicString (mkSpan (mkPtok 16 "char[]" 3 4 4) (mkPtok 16 "char[]" 3 4 4)) (mkPtok 16 "char[]" 3 4 4)))) (mkPtok 42 "x_y_z" 3 10 5) (mkLengthOf (mkSpan (mkPtok 7 "@lengthOf(" 3 16 6) (mkPtok 6 ")" 3 30 8)) (mkPtok 7 "@lengthOf(" 3 16 6) (mkPtok 42 "u" 3 28 7) (mkPtok 6 ")" 3 30 8)) (Some (mkPtok 43 "`two words`" 3 32 9)) (mkPtok 40 "," 3 44 10))))] (mkPtok 3 "}" 3 46 11))); (DMeta (mkMetaDef (mkSpan (mkPtok 37 "MetaData" 3 48 12) (mkPtok 3 "}" 11 0 24)) (mkPtok 37 "MetaData" 3 48 12) (mkPtok 42 "Packet" 3 57 13) (mkPtok 2 "{" 4 0 14) [(MIDecl (mkMetaDecl (mkSpan (mkPtok 12 "char[" 5 4 15) (mkPtok 40 "," 8 0 20)) (TyFixed (mkSpan (mkPtok 12 "char[" 5 4 15) (mkPtok 13 "]" 6 3 17)) (mkFixedString (mkSpan (mkPtok 12 "char[" 5 4 15) (mkPtok 13 "]" 6 3 17)) (mkPtok 12 "char[" 5 4 15) (mkPtok 30 "3" 6 0 16) (mkPtok 13 "]" 6 3 17))) (mkPtok 42 "rootA" 6 5 18) (Some (mkPtok 43 (string_of_bytes [96; 108; 105; 110; 101; 49; 10; 108; 105; 110; 101; 50; 96]%N) 6 11 19)) (mkPtok 40 "," 8 0 20))); (MIDecl (mkMetaDecl (mkSpan (mkPtok 15 "string" 9 4 21) (mkPtok 40 "," 10 6 23)) (TyDynamic (mkSpan (mkPtok 15 "string" 9 4 21) (mkPtok 15 "string" 9 4 21)) (mkDynamicString (mkSpan (mkPtok 15 "string" 9 4 21) (mkPtok 15 "string" 9 4 21)) (mkPtok 15 "string" 9 4 21))) (mkPtok 42 "A" 10 4 22) None (mkPtok 40 "," 10 6 23)))] (mkPtok 3 "}" 11 0 24))); (DPacket (mkPacketDef (mkSpan (mkPtok 34 "root" 11 2 25) (mkPtok 3 "}" 14 30 43)) (Some (mkPtok 34 "root" 11 2 25)) (mkPtok 35 "packet" 11 7 26) (mkPtok 42 "string_" 11 14 27) (mkPtok 2 "{" 11 22 28) [(mkFieldWithAttr (mkSpan (mkPtok 20 "uint8" 11 23 29) (mkPtok 40 "," 14 6 35)) [] (LengthField (mkSpan (mkPtok 20 "uint8" 11 23 29) (mkPtok 40 "," 14 6 35)) (mkLengthFieldDecl (mkSpan (mkPtok 20 "uint8" 11 23 29) (mkPtok 40 "," 14 6 35)) (Some (TyBasic (mkSpan (mkPtok 20 "uint8" 11 23 29) (mkPtok 20 "uint8" 11 23 29)) (mkBasicType (mkSpan (mkPtok 20 "uint8" 11 23 29) (mkPtok 20 "uint8" 11 23 29)) (mkPtok 20 "uint8" 11 23 29)))) (mkPtok 42 "calculatedFrom" 12 0 30) (mkLengthOf (mkSpan (mkPtok 7 "@lengthOf(" 12 16 31) (mkPtok 6 ")" 12 32 33)) (mkPtok 7 "@lengthOf(" 12 16 31) (mkPtok 42 "u128" 12 27 32) (mkPtok 6 ")" 12 32 33)) (Some (mkPtok 43 (string_of_bytes [96; 108; 105; 110; 101; 49; 10; 108; 105; 110; 101; 50; 96]%N) 13 0 34)) (mkPtok 40 "," 14 6 35)))); (mkFieldWithAttr (mkSpan (mkPtok 12 "char[" 14 8 36) (mkPtok 40 "," 14 21 40)) [] (MetaField (mkSpan (mkPtok 12 "char[" 14 8 36) (mkPtok 40 "," 14 21 40)) None (mkMetaDecl (mkSpan (mkPtok 12 "char[" 14 8 36) (mkPtok 40 "," 14 21 40)) (TyFixed (mkSpan (mkPtok 12 "char[" 14 8 36) (mkPtok 13 "]" 14 15 38)) (mkFixedString (mkSpan (mkPtok 12 "char[" 14 8 36) (mkPtok 13 "]" 14 15 38)) (mkPtok 12 "char[" 14 8 36) (mkPtok 30 "3" 14 14 37) (mkPtok 13 "]" 14 15 38))) (mkPtok 42 "Z9_" 14 17 39) None (mkPtok 40 "," 14 21 40)))); (mkFieldWithAttr (mkSpan (mkPtok 42 "float" 14 22 41) (mkPtok 40 "," 14 28 42)) [] (ObjectField (mkSpan (mkPtok 42 "float" 14 22 41) (mkPtok 40 "," 14 28 42)) None (mkPtok 42 "float" 14 22 41) None None (mkPtok 40 "," 14 28 42)))] (mkPtok 3 "}" 14 30 43)))])).
Eval vm_compute in ("<<<M1067>>>" ++ check (runes_of_ascii "
root packet
zchar {	}
")).
Eval vm_compute in ("<<<M1099>>>" ++ check (runes_of_ascii "
MetaData T { }
")).
Eval vm_compute in ("<<<M1131>>>" ++ check (runes_of_ascii "options
{ stringy =  7;crc = ""x y"";}
MetaData f32a{ }
")).
Eval vm_compute in ("<<<M1163>>>" ++ check (runes_of_ascii "options {
Logon
= true
    msg_type
= '\x00' ;
T =
int16 }
")).
Eval vm_compute in ("<<<M1195>>>" ++ check (runes_of_ascii "options{
i8i8 = '0';
    Header = ""packet"" ;
float  ='0'
// c
// a // b
; MetaDataX=int32	;
    i64_ = zchar[ 255
    ]
; }")).
Eval vm_compute in ("<<<M1227>>>" ++ check (runes_of_ascii "// packet A { u8 x, }

")).
Eval vm_compute in ("<<<M1259>>>" ++ check (runes_of_ascii "
")).
Eval vm_compute in ("<<<T1259>>>" ++ terms [mkTok 0 "<EOF>" 2 0 false] (mkPacket (mkPtok 0 "<EOF>" 2 0 0) None [])).
Eval vm_compute in ("<<<M1291>>>" ++ check (runes_of_ascii "packet asx
{// c
@calculatedFrom(
""\" ++ [233]%N ++ runes_of_ascii """ )
crc
    { int8 zchar @calculatedFrom(""" ++ [128512]%N ++ runes_of_ascii """ )
,
    } // trailing space 
, roots@lengthOf( // a // b
metadata )`` ,
@calculatedFrom(
""1"" //
)@lengthOf(
    matchKey) //	t
@calculatedFrom( """ ++ [233]%N ++ runes_of_ascii "t" ++ [233]%N ++ runes_of_ascii """ )
    // packet A { u8 x, }
    u Header	, u128 ,	match _x as
    msg_type{ 1 :
    BodyLength	,42
    : packetx	, //	t
[ ""{,}"" ] :// c
chars , //
[ ""`tick`"" ,	0 ,
    """ ++ [233]%N ++ runes_of_ascii "t" ++ [233]%N ++ runes_of_ascii """ ,
// a // b
// " ++ [27880; 37322]%N ++ runes_of_ascii "
65535
//
// trailing space 
, ""packet"", ""{,}"" ] : chars ,	3
/// triple
// @lengthOf(
: packetx ,	7
//
// packet A { u8 x, }
:crc , } , @lengthOf(
    len )repeatCount { zchar[ 65535
    ] x_y_z
,	} , f32a
    @lengthOf( body  )
    ,  } //x")).
Eval vm_compute in ("<<<M1323>>>" ++ check (runes_of_ascii "options //
{} packet	tag //	t
{ u64
u @lengthOf(u128 ) , char[]Pad
    // a // b
    @lengthOf( crc) ,
    i32 options1@lengthOf(msg_type// c
) ,} options {
    }")).
Eval vm_compute in ("<<<M1355>>>" ++ check (runes_of_ascii "MetaData packetx	{
    MetaDataX zchar , calculatedFrom i64_ ,char[] BodyLength , zchar[ 4294967296 // packet A { u8 x, }
] MetaDataX``
, int BodyLength `
`, i64 i64_ , }
options
    { u8x= u32 ; } MetaData rootA{
zchar[ 4294967296 ] roots
`doc` ,
char[ 0123456789 ]
    // a // b
    uint8x `" ++ [233]%N ++ runes_of_ascii "`
    , Z9_ len	`u8 x,`	, }
")).
Eval vm_compute in ("<<<M1387>>>" ++ check (runes_of_ascii "MetaData stringy
    // trailing space 
    {  char[
42 ]
leftPad `tab	here` ,_x pack, char  zchar `// not a comment` ,	u8x repeatCount
    `say ""hi""`
,
    // `tick` ""quote"" 'q'
    pack uint8x `a\`  ,}
")).
Eval vm_compute in ("<<<M1419>>>" ++ check (runes_of_ascii "packet
    Foo{@calculatedFrom(
""" ++ [233]%N ++ runes_of_ascii "t" ++ [233]%N ++ runes_of_ascii """ )
repeatCount stringy, u32 u8x	@calculatedFrom(  ""{,}""
)
    `
`
    // " ++ [27880; 37322]%N ++ runes_of_ascii "
    ,
    repeat	float64 Foo
,
char[]T
    `{ , }` , } packet // a // b
f32a	{@tag(
    // a // b
    007) uint64
    falsey,
}
MetaData Foo{
u16
T ,
crc tag ,A
    falsey	`tab	here`,	}
")).
Eval vm_compute in ("<<<M1451>>>" ++ check (runes_of_ascii "// packet A { u8 x, }
 	 ")).
Eval vm_compute in ("<<<M1483>>>" ++ check (runes_of_ascii "packet
x	{ As { a1
{ char[
65535 ]
// " ++ [27880; 37322]%N ++ runes_of_ascii "
/// triple
crc `` ,	msg_type ,} , } , repeat Z9_ {
    T ,	pack ,	repeat tag  A, int64/// triple
f32a`u8 x,` ,	}
,
} 	 ")).
Eval vm_compute in ("<<<T1483>>>" ++ terms [mkTok 35 "packet" 1 0 false; mkTok 42 "x" 2 0 false; mkTok 2 "{" 2 2 false; mkTok 42 "As" 2 4 false; mkTok 2 "{" 2 7 false; mkTok 42 "a1" 2 9 false; mkTok 2 "{" 3 0 false; mkTok 12 "char[" 3 2 false; mkTok 30 "65535" 4 0 false; mkTok 13 "]" 4 6 false; mkTok 44 (string_of_bytes [47; 47; 32; 230; 179; 168; 233; 135; 138]%N) 5 0 true; mkTok 44 "/// triple" 6 0 true; mkTok 42 "crc" 7 0 false; mkTok 43 "``" 7 4 false; mkTok 40 "," 7 7 false; mkTok 42 "msg_type" 7 9 false; mkTok 40 "," 7 18 false; mkTok 3 "}" 7 19 false; mkTok 40 "," 7 21 false; mkTok 3 "}" 7 23 false; mkTok 40 "," 7 25 false; mkTok 36 "repeat" 7 27 false; mkTok 42 "Z9_" 7 34 false; mkTok 2 "{" 7 38 false; mkTok 42 "T" 8 4 false; mkTok 40 "," 8 6 false; mkTok 42 "pack" 8 8 false; mkTok 40 "," 8 13 false; mkTok 36 "repeat" 8 15 false; mkTok 42 "tag" 8 22 false; mkTok 42 "A" 8 27 false; mkTok 40 "," 8 28 false; mkTok 27 "int64" 8 30 false; mkTok 44 "/// triple" 8 35 true; mkTok 42 "f32a" 9 0 false; mkTok 43 "`u8 x,`" 9 4 false; mkTok 40 "," 9 12 false; mkTok 3 "}" 9 14 false; mkTok 40 "," 10 0 false; mkTok 3 "}" 11 0 false; mkTok 0 "<EOF>" 11 4 false] (mkPacket (mkPtok 35 "packet" 1 0 0) (Some (mkPtok 3 "}" 11 0 39)) [(DPacket (mkPacketDef (mkSpan (mkPtok 35 "packet" 1 0 0) (mkPtok 3 "}" 11 0 39)) None (mkPtok 35 "packet" 1 0 0) (mkPtok 42 "x" 2 0 1) (mkPtok 2 "{" 2 2 2) [(mkFieldWithAttr (mkSpan (mkPtok 42 "As" 2 4 3) (mkPtok 40 "," 7 25 20)) [] (InerObjectField (mkSpan (mkPtok 42 "As" 2 4 3) (mkPtok 40 "," 7 25 20)) None (InerObjectDecl (mkSpan (mkPtok 42 "As" 2 4 3) (mkPtok 3 "}" 7 23 19)) (mkPtok 42 "As" 2 4 3) (mkPtok 2 "{" 2 7 4) [(InerObjectField (mkSpan (mkPtok 42 "a1" 2 9 5) (mkPtok 40 "," 7 21 18)) None (InerObjectDecl (mkSpan (mkPtok 42 "a1" 2 9 5) (mkPtok 3 "}" 7 19 17)) (mkPtok 42 "a1" 2 9 5) (mkPtok 2 "{" 3 0 6) [(MetaField (mkSpan (mkPtok 12 "char[" 3 2 7) (mkPtok 40 "," 7 7 14)) None (mkMetaDecl (mkSpan (mkPtok 12 "char[" 3 2 7) (mkPtok 40 "," 7 7 14)) (TyFixed (mkSpan (mkPtok 12 "char[" 3 2 7) (mkPtok 13 "]" 4 6 9)) (mkFixedString (mkSpan (mkPtok 12 "char[" 3 2 7) (mkPtok 13 "]" 4 6 9)) (mkPtok 12 "char[" 3 2 7) (mkPtok 30 "65535" 4 0 8) (mkPtok 13 "]" 4 6 9))) (mkPtok 42 "crc" 7 0 12) (Some (mkPtok 43 "``" 7 4 13)) (mkPtok 40 "," 7 7 14))); (ObjectField (mkSpan (mkPtok 42 "msg_type" 7 9 15) (mkPtok 40 "," 7 18 16)) None (mkPtok 42 "msg_type" 7 9 15) None None (mkPtok 40 "," 7 18 16))] (mkPtok 3 "}" 7 19 17)) (mkPtok 40 "," 7 21 18))] (mkPtok 3 "}" 7 23 19)) (mkPtok 40 "," 7 25 20))); (mkFieldWithAttr (mkSpan (mkPtok 36 "repeat" 7 27 21) (mkPtok 40 "," 10 0 38)) [] (InerObjectField (mkSpan (mkPtok 36 "repeat" 7 27 21) (mkPtok 40 "," 10 0 38)) (Some (mkPtok 36 "repeat" 7 27 21)) (InerObjectDecl (mkSpan (mkPtok 42 "Z9_" 7 34 22) (mkPtok 3 "}" 9 14 37)) (mkPtok 42 "Z9_" 7 34 22) (mkPtok 2 "{" 7 38 23) [(ObjectField (mkSpan (mkPtok 42 "T" 8 4 24) (mkPtok 40 "," 8 6 25)) None (mkPtok 42 "T" 8 4 24) None None (mkPtok 40 "," 8 6 25)); (ObjectField (mkSpan (mkPtok 42 "pack" 8 8 26) (mkPtok 40 "," 8 13 27)) None (mkPtok 42 "pack" 8 8 26) None None (mkPtok 40 "," 8 13 27)); (ObjectField (mkSpan (mkPtok 36 "repeat" 8 15 28) (mkPtok 40 "," 8 28 31)) (Some (mkPtok 36 "repeat" 8 15 28)) (mkPtok 42 "tag" 8 22 29) (Some (mkPtok 42 "A" 8 27 30)) None (mkPtok 40 "," 8 28 31)); (MetaField (mkSpan (mkPtok 27 "int64" 8 30 32) (mkPtok 40 "," 9 12 36)) None (mkMetaDecl (mkSpan (mkPtok 27 "int64" 8 30 32) (mkPtok 40 "," 9 12 36)) (TyBasic (mkSpan (mkPtok 27 "int64" 8 30 32) (mkPtok 27 "int64" 8 30 32)) (mkBasicType (mkSpan (mkPtok 27 "int64" 8 30 32) (mkPtok 27 "int64" 8 30 32)) (mkPtok 27 "int64" 8 30 32))) (mkPtok 42 "f32a" 9 0 34) (Some (mkPtok 43 "`u8 x,`" 9 4 35)) (mkPtok 40 "," 9 12 36)))] (mkPtok 3 "}" 9 14 37)) (mkPtok 40 "," 10 0 38)))] (mkPtok 3 "}" 11 0 39)))])).
Eval vm_compute in ("<<<M1515>>>" ++ check (runes_of_ascii "root
    packet	tag { string charz
, }
")).
Eval vm_compute in ("<<<M1547>>>" ++ check (runes_of_ascii "
")).
Eval vm_compute in ("<<<M1579>>>" ++ check (runes_of_ascii "MetaData Logon
//
// " ++ [27880; 37322]%N ++ runes_of_ascii "
{ rootA	metadata , char[1 ] rootA	`tab	here`, matchKey
// packet A { u8 x, }
//x
roots `crlf
line`, //	t
char[]  matchKey,
} packet
float	{ @calculatedFrom( ""abc""
)// trailing space 
@tag(  65535
)
char Packet
@calculatedFrom(
// @lengthOf(
// a // b
""a\""b"" )
    ,
    msg_type
,  f32 metadata @calculatedFrom(""" ++ [233]%N ++ runes_of_ascii "t" ++ [233]%N ++ runes_of_ascii """ ) , } // packet A { u8 x, }")).
Eval vm_compute in ("<<<M1611>>>" ++ check (runes_of_ascii "MetaData x {zchar[
10 ]As ,u32 x ,char[ 0
    ]o // c
`it's`
    // c
    ,
char[65535 ]	metadata ,// @lengthOf(
} // packet A { u8 x, }")).
Eval vm_compute in ("<<<M1643>>>" ++ check (runes_of_ascii "packet msg_type
{ // a // b
As As `line1
line2`, }  packet metadata { Pad
`tab	here`, float32 a1 , zchar[ 0
    ]
matchKey @lengthOf( matchKey
// @lengthOf(
// trailing space 
)
, }
packet int { }
")).
Eval vm_compute in ("<<<M1675>>>" ++ check (runes_of_ascii "options { u
    =
false zchar = ""CRC32""	; falsey
    = int32	}
MetaData T { } options
    // @lengthOf(
    {pack= float32
;
    //x
    }")).
Eval vm_compute in ("<<<M1707>>>" ++ check (runes_of_ascii "
root packet Logon {string
    // @lengthOf(
    Logon ,
    } MetaData lengthOf
    //x
    { int32 As `tab	here` ,
A o ,
    // `tick` ""quote"" 'q'
    i64
i8i8 `" ++ [233]%N ++ runes_of_ascii "`	, char[]	int, u32
u128 , }")).
Eval vm_compute in ("<<<T1707>>>" ++ terms [mkTok 34 "root" 2 0 false; mkTok 35 "packet" 2 5 false; mkTok 42 "Logon" 2 12 false; mkTok 2 "{" 2 18 false; mkTok 15 "string" 2 19 false; mkTok 44 "// @lengthOf(" 3 4 true; mkTok 42 "Logon" 4 4 false; mkTok 40 "," 4 10 false; mkTok 3 "}" 5 4 false; mkTok 37 "MetaData" 5 6 false; mkTok 42 "lengthOf" 5 15 false; mkTok 44 "//x" 6 4 true; mkTok 2 "{" 7 4 false; mkTok 26 "int32" 7 6 false; mkTok 42 "As" 7 12 false; mkTok 43 (string_of_bytes [96; 116; 97; 98; 9; 104; 101; 114; 101; 96]%N) 7 15 false; mkTok 40 "," 7 26 false; mkTok 42 "A" 8 0 false; mkTok 42 "o" 8 2 false; mkTok 40 "," 8 4 false; mkTok 44 "// `tick` ""quote"" 'q'" 9 4 true; mkTok 27 "i64" 10 4 false; mkTok 42 "i8i8" 11 0 false; mkTok 43 (string_of_bytes [96; 195; 169; 96]%N) 11 5 false; mkTok 40 "," 11 9 false; mkTok 16 "char[]" 11 11 false; mkTok 42 "int" 11 18 false; mkTok 40 "," 11 21 false; mkTok 22 "u32" 11 23 false; mkTok 42 "u128" 12 0 false; mkTok 40 "," 12 5 false; mkTok 3 "}" 12 7 false; mkTok 0 "<EOF>" 12 8 false] (mkPacket (mkPtok 34 "root" 2 0 0) (Some (mkPtok 3 "}" 12 7 31)) [(DPacket (mkPacketDef (mkSpan (mkPtok 34 "root" 2 0 0) (mkPtok 3 "}" 5 4 8)) (Some (mkPtok 34 "root" 2 0 0)) (mkPtok 35 "packet" 2 5 1) (mkPtok 42 "Logon" 2 12 2) (mkPtok 2 "{" 2 18 3) [(mkFieldWithAttr (mkSpan (mkPtok 15 "string" 2 19 4) (mkPtok 40 "," 4 10 7)) [] (MetaField (mkSpan (mkPtok 15 "string" 2 19 4) (mkPtok 40 "," 4 10 7)) None (mkMetaDecl (mkSpan (mkPtok 15 "string" 2 19 4) (mkPtok 40 "," 4 10 7)) (TyDynamic (mkSpan (mkPtok 15 "string" 2 19 4) (mkPtok 15 "string" 2 19 4)) (mkDynamicString (mkSpan (mkPtok 15 "string" 2 19 4) (mkPtok 15 "string" 2 19 4)) (mkPtok 15 "string" 2 19 4))) (mkPtok 42 "Logon" 4 4 6) None (mkPtok 40 "," 4 10 7))))] (mkPtok 3 "}" 5 4 8))); (DMeta (mkMetaDef (mkSpan (mkPtok 37 "MetaData" 5 6 9) (mkPtok 3 "}" 12 7 31)) (mkPtok 37 "MetaData" 5 6 9) (mkPtok 42 "lengthOf" 5 15 10) (mkPtok 2 "{" 7 4 12) [(MIDecl (mkMetaDecl (mkSpan (mkPtok 26 "int32" 7 6 13) (mkPtok 40 "," 7 26 16)) (TyBasic (mkSpan (mkPtok 26 "int32" 7 6 13) (mkPtok 26 "int32" 7 6 13)) (mkBasicType (mkSpan (mkPtok 26 "int32" 7 6 13) (mkPtok 26 "int32" 7 6 13)) (mkPtok 26 "int32" 7 6 13))) (mkPtok 42 "As" 7 12 14) (Some (mkPtok 43 (string_of_bytes [96; 116; 97; 98; 9; 104; 101; 114; 101; 96]%N) 7 15 15)) (mkPtok 40 "," 7 26 16))); (MIRef (mkRefMetaDecl (mkSpan (mkPtok 42 "A" 8 0 17) (mkPtok 40 "," 8 4 19)) (mkPtok 42 "A" 8 0 17) (mkPtok 42 "o" 8 2 18) None (mkPtok 40 "," 8 4 19))); (MIDecl (mkMetaDecl (mkSpan (mkPtok 27 "i64" 10 4 21) (mkPtok 40 "," 11 9 24)) (TyBasic (mkSpan (mkPtok 27 "i64" 10 4 21) (mkPtok 27 "i64" 10 4 21)) (mkBasicType (mkSpan (mkPtok 27 "i64" 10 4 21) (mkPtok 27 "i64" 10 4 21)) (mkPtok 27 "i64" 10 4 21))) (mkPtok 42 "i8i8" 11 0 22) (Some (mkPtok 43 (string_of_bytes [96; 195; 169; 96]%N) 11 5 23)) (mkPtok 40 "," 11 9 24))); (MIDecl (mkMetaDecl (mkSpan (mkPtok 16 "char[]" 11 11 25) (mkPtok 40 "," 11 21 27)) (TyDynamic (mkSpan (mkPtok 16 "char[]" 11 11 25) (mkPtok 16 "char[]" 11 11 25)) (mkDynamicString (mkSpan (mkPtok 16 "char[]" 11 11 25) (mkPtok 16 "char[]" 11 11 25)) (mkPtok 16 "char[]" 11 11 25))) (mkPtok 42 "int" 11 18 26) None (mkPtok 40 "," 11 21 27))); (MIDecl (mkMetaDecl (mkSpan (mkPtok 22 "u32" 11 23 28) (mkPtok 40 "," 12 5 30)) (TyBasic (mkSpan (mkPtok 22 "u32" 11 23 28) (mkPtok 22 "u32" 11 23 28)) (mkBasicType (mkSpan (mkPtok 22 "u32" 11 23 28) (mkPtok 22 "u32" 11 23 28)) (mkPtok 22 "u32" 11 23 28))) (mkPtok 42 "u128" 12 0 29) None (mkPtok 40 "," 12 5 30)))] (mkPtok 3 "}" 12 7 31)))])).
Eval vm_compute in ("<<<M1739>>>" ++ check (runes_of_ascii "/// triple
packet Z9_ {
}
options // " ++ [128512]%N ++ runes_of_ascii " emoji
{
    string_// @lengthOf(
=
    ""abc""
    Foo= //x
u64; repeatCount  =""CRC32"" ;} options { //	t
len =""{,}"";
    roots	= """ ++ [28040; 24687]%N ++ runes_of_ascii """; // " ++ [128512]%N ++ runes_of_ascii " emoji
} // " ++ [128512]%N ++ runes_of_ascii " emoji
options	{string_ =
zchar[
65535];// trailing space 
i8i8
    = 4294967296 ; }")).
Eval vm_compute in ("<<<M1771>>>" ++ check (runes_of_ascii "
options { roots = u64	;
uint8x= 65535
    packetx = 1 ; }packet
    repeatCount { match len
// `tick` ""quote"" 'q'
// `tick` ""quote"" 'q'
as
Packet{[ """"
    , 3
    ,0123456789 ,
0123456789 ,7 , ""\n"" ]: charz ,
    65535 : trueish
""// no comment"" :	zchar
    , ""\n"" : string_ , },
    }packet repeatCount {
    @rightPad( ' ' )
zchar len ``	, metadata
msg_type
    `a\`  , }

")).
Eval vm_compute in ("<<<M1803>>>" ++ check (runes_of_ascii "root packet
pack {
@calculatedFrom( """" ) stringy @lengthOf( body ),
char[
    3
    //x
    ]
    lengthOf ,
@leftPad ( '\x00' )match
BodyLength as Header { /// triple
""abc""  : packetx
,""`tick`"": calculatedFrom/// triple
, 4294967296
    : asx , }
    , } packet leftPad { }
")).
Eval vm_compute in ("<<<M1835>>>" ++ check (runes_of_ascii "packet Logon { match f32a as u128 {	65535 : leftPad ,	[ ""it's"" , 65535 ,
    42 , 0 ,4294967296
, ""\" ++ [233]%N ++ runes_of_ascii """ ]// `tick` ""quote"" 'q'
: u8x ,	""1"" // " ++ [27880; 37322]%N ++ runes_of_ascii "
:/// triple
packetx } ,@leftPad
( )
repeat lengthOf a1 //	t
, }
    root packet _x{ } packet roots { @calculatedFrom(
""a	b""
) @leftPad ( ) @calculatedFrom( ""packet"" ) packetx ,	repeat trueish
{
u32 chars/// triple
@calculatedFrom( ""a\\"" ) // " ++ [128512]%N ++ runes_of_ascii " emoji
,
    float32	MetaDataX
@lengthOf(//x
options1 )
,// a // b
charz @calculatedFrom( ""1""
    ) , } ,
match
leftPad as
    // trailing space 
    BodyLength{ [
    //x
    ""packet"" , 10
    ,
""`tick`"" //
,""x y"" , 007 ] : pack, 0123456789
    //x
    : a1
    ,0123456789// trailing space 
:
    charz // packet A { u8 x, }
[""`tick`""]
    : packetx
, /// triple
}, @calculatedFrom(""it's"" // c
) @rightPad
(
'0' )@lengthOf( x ) zchar @calculatedFrom( ""{,}""
    ) `" ++ [28040; 24687; 31867; 22411]%N ++ runes_of_ascii "`
,
    Logon@lengthOf(
    body )
, }options { a1 = char[ 0 ] pack =
    int64
    ; Logon = ' ' _x
= uint16 ; // `tick` ""quote"" 'q'
} root
// a // b
// " ++ [27880; 37322]%N ++ runes_of_ascii "
packet Header {@leftPad ( )
matchKey
,	A  @calculatedFrom( ""// no comment""
)  , charz	{  string Z9_ `" ++ [28040; 24687; 31867; 22411]%N ++ runes_of_ascii "` , repeat Pad // " ++ [27880; 37322]%N ++ runes_of_ascii "
{asx
`{ , }` , uint64 BodyLength
`
` , repeat
    zchar[	1 ] msg_type  , i64
i64_ `line1
line2` ,
    } , }  , _x ,
    string
    Header, repeat char[42 ] trueish ``, @rightPad ( )
    @leftPad(
    // c
    '0')
    repeat u32
    // a // b
    i64_, i64_ {match
    //
    u128 as i8i8
    // " ++ [27880; 37322]%N ++ runes_of_ascii "
    { 4294967296 :
falsey } , }, zchar[7]
_x `say ""hi""` , // @lengthOf(
crc@calculatedFrom(""abc"" ), }
")).
Eval vm_compute in ("<<<M1867>>>" ++ check (runes_of_ascii "// packet A { u8 x, }
root packet zchar {@leftPad (	' ' )@tag( 3 )
@lengthOf( T // " ++ [128512]%N ++ runes_of_ascii " emoji
) Pad @lengthOf(o )
    , @lengthOf( len // a // b
) @calculatedFrom( // c
""x y""//
) int64 stringy , @tag( 007 ) @calculatedFrom(""a	b"" ) repeatCount{ _x, }
    ,	f64 i64_
    @lengthOf(
options1
)
    ,
lengthOf
    T
, @leftPad ( ' ' )
char
chars`
` ,} MetaData //
A { Header i64_ `tab	here`	,
    } packet _x  { @calculatedFrom( ""abc"" )match BodyLength
as matchKey {
10  :	tag , [ 1, 00 ,10,
    // " ++ [27880; 37322]%N ++ runes_of_ascii "
    42 , ""1"" ] : x
    , ""a\\"" :  crc
    , [ ""1""
// " ++ [128512]%N ++ runes_of_ascii " emoji
// `tick` ""quote"" 'q'
, ""packet"", 10 , """ ++ [28040; 24687]%N ++ runes_of_ascii """
, // a // b
4294967296, 0123456789 ,
    ""abc"" ,
    007  ]: rootA  , [0123456789 ,
    0 ,4294967296 ] :Packet , } ,
} packet
    options1 {
    @leftPad
    ( ' '  )
@leftPad
    //	t
    ( '\x00' ) @lengthOf(repeatCount ) chars
Z9_	, i64_{
repeat
uint8
options1  , } , @calculatedFrom( ""packet""
)falsey
len ,zchar[00 ]
    i8i8 /// triple
, @lengthOf(msg_type// c
) zchar[ 00] u@lengthOf( i64_
    ) , @tag(
    1 )@tag(
7 ) u32	i8i8 `" ++ [28040; 24687; 31867; 22411]%N ++ runes_of_ascii "` , }
")).
Eval vm_compute in ("<<<M1899>>>" ++ check (runes_of_ascii "
packet //
u128 {} packet zchar	{ u8 A
``
, // c
u @calculatedFrom( ""\" ++ [233]%N ++ runes_of_ascii """	), @calculatedFrom(""x y"" ) repeat T i64_, } root packet int {	T  `tab	here` , } // c")).
Eval vm_compute in ("<<<M1931>>>" ++ check (runes_of_ascii "packet
lengthOf {@calculatedFrom(  """ ++ [233]%N ++ runes_of_ascii "t" ++ [233]%N ++ runes_of_ascii """	)Foo	u8x ,
    @calculatedFrom(
""1""
    ) // c
char[ 1  ]
    u128 , u16	string_ `a\` , @calculatedFrom( ""packet"" ) Pad ,
    falsey , lengthOf@calculatedFrom(""CRC32"" )
,} root packet
crc{ // " ++ [27880; 37322]%N ++ runes_of_ascii "
repeatCount , Z9_ { int64
    calculatedFrom
// a // b
// " ++ [27880; 37322]%N ++ runes_of_ascii "
,
}  ,
} options{	body=
//
//x
' ' ; Header =
false options1 = 3; }packet a1 {// `tick` ""quote"" 'q'
repeat char[ 00
] T `it's` ,
}
MetaData
A
{ matchKey int ,
    }
")).
Eval vm_compute in ("<<<T1931>>>" ++ terms [mkTok 35 "packet" 1 0 false; mkTok 42 "lengthOf" 2 0 false; mkTok 2 "{" 2 9 false; mkTok 5 "@calculatedFrom(" 2 10 false; mkTok 31 (string_of_bytes [34; 195; 169; 116; 195; 169; 34]%N) 2 28 false; mkTok 6 ")" 2 34 false; mkTok 42 "Foo" 2 35 false; mkTok 42 "u8x" 2 39 false; mkTok 40 "," 2 43 false; mkTok 5 "@calculatedFrom(" 3 4 false; mkTok 31 """1""" 4 0 false; mkTok 6 ")" 5 4 false; mkTok 44 "// c" 5 6 true; mkTok 12 "char[" 6 0 false; mkTok 30 "1" 6 6 false; mkTok 13 "]" 6 9 false; mkTok 42 "u128" 7 4 false; mkTok 40 "," 7 9 false; mkTok 21 "u16" 7 11 false; mkTok 42 "string_" 7 15 false; mkTok 43 "`a\`" 7 23 false; mkTok 40 "," 7 28 false; mkTok 5 "@calculatedFrom(" 7 30 false; mkTok 31 """packet""" 7 47 false; mkTok 6 ")" 7 56 false; mkTok 42 "Pad" 7 58 false; mkTok 40 "," 7 62 false; mkTok 42 "falsey" 8 4 false; mkTok 40 "," 8 11 false; mkTok 42 "lengthOf" 8 13 false; mkTok 5 "@calculatedFrom(" 8 21 false; mkTok 31 """CRC32""" 8 37 false; mkTok 6 ")" 8 45 false; mkTok 40 "," 9 0 false; mkTok 3 "}" 9 1 false; mkTok 34 "root" 9 3 false; mkTok 35 "packet" 9 8 false; mkTok 42 "crc" 10 0 false; mkTok 2 "{" 10 3 false; mkTok 44 (string_of_bytes [47; 47; 32; 230; 179; 168; 233; 135; 138]%N) 10 5 true; mkTok 42 "repeatCount" 11 0 false; mkTok 40 "," 11 12 false; mkTok 42 "Z9_" 11 14 false; mkTok 2 "{" 11 18 false; mkTok 27 "int64" 11 20 false; mkTok 42 "calculatedFrom" 12 4 false; mkTok 44 "// a // b" 13 0 true; mkTok 44 (string_of_bytes [47; 47; 32; 230; 179; 168; 233; 135; 138]%N) 14 0 true; mkTok 40 "," 15 0 false; mkTok 3 "}" 16 0 false; mkTok 40 "," 16 3 false; mkTok 3 "}" 17 0 false; mkTok 1 "options" 17 2 false; mkTok 2 "{" 17 9 false; mkTok 42 "body" 17 11 false; mkTok 4 "=" 17 15 false; mkTok 44 "//" 18 0 true; mkTok 44 "//x" 19 0 true; mkTok 33 "' '" 20 0 false; mkTok 41 ";" 20 4 false; mkTok 42 "Header" 20 6 false; mkTok 4 "=" 20 13 false; mkTok 11 "false" 21 0 false; mkTok 42 "options1" 21 6 false; mkTok 4 "=" 21 15 false; mkTok 30 "3" 21 17 false; mkTok 41 ";" 21 18 false; mkTok 3 "}" 21 20 false; mkTok 35 "packet" 21 21 false; mkTok 42 "a1" 21 28 false; mkTok 2 "{" 21 31 false; mkTok 44 "// `tick` ""quote"" 'q'" 21 32 true; mkTok 36 "repeat" 22 0 false; mkTok 12 "char[" 22 7 false; mkTok 30 "00" 22 13 false; mkTok 13 "]" 23 0 false; mkTok 42 "T" 23 2 false; mkTok 43 "`it's`" 23 4 false; mkTok 40 "," 23 11 false; mkTok 3 "}" 24 0 false; mkTok 37 "MetaData" 25 0 false; mkTok 42 "A" 26 0 false; mkTok 2 "{" 27 0 false; mkTok 42 "matchKey" 27 2 false; mkTok 42 "int" 27 11 false; mkTok 40 "," 27 15 false; mkTok 3 "}" 28 4 false; mkTok 0 "<EOF>" 29 0 false] (mkPacket (mkPtok 35 "packet" 1 0 0) (Some (mkPtok 3 "}" 28 4 86)) [(DPacket (mkPacketDef (mkSpan (mkPtok 35 "packet" 1 0 0) (mkPtok 3 "}" 9 1 34)) None (mkPtok 35 "packet" 1 0 0) (mkPtok 42 "lengthOf" 2 0 1) (mkPtok 2 "{" 2 9 2) [(mkFieldWithAttr (mkSpan (mkPtok 5 "@calculatedFrom(" 2 10 3) (mkPtok 40 "," 2 43 8)) [(FACalculatedFrom (mkSpan (mkPtok 5 "@calculatedFrom(" 2 10 3) (mkPtok 6 ")" 2 34 5)) (mkCalculatedFrom (mkSpan (mkPtok 5 "@calculatedFrom(" 2 10 3) (mkPtok 6 ")" 2 34 5)) (mkPtok 5 "@calculatedFrom(" 2 10 3) (mkPtok 31 (string_of_bytes [34; 195; 169; 116; 195; 169; 34]%N) 2 28 4) (mkPtok 6 ")" 2 34 5)))] (ObjectField (mkSpan (mkPtok 42 "Foo" 2 35 6) (mkPtok 40 "," 2 43 8)) None (mkPtok 42 "Foo" 2 35 6) (Some (mkPtok 42 "u8x" 2 39 7)) None (mkPtok 40 "," 2 43 8))); (mkFieldWithAttr (mkSpan (mkPtok 5 "@calculatedFrom(" 3 4 9) (mkPtok 40 "," 7 9 17)) [(FACalculatedFrom (mkSpan (mkPtok 5 "@calculatedFrom(" 3 4 9) (mkPtok 6 ")" 5 4 11)) (mkCalculatedFrom (mkSpan (mkPtok 5 "@calculatedFrom(" 3 4 9) (mkPtok 6 ")" 5 4 11)) (mkPtok 5 "@calculatedFrom(" 3 4 9) (mkPtok 31 """1""" 4 0 10) (mkPtok 6 ")" 5 4 11)))] (MetaField (mkSpan (mkPtok 12 "char[" 6 0 13) (mkPtok 40 "," 7 9 17)) None (mkMetaDecl (mkSpan (mkPtok 12 "char[" 6 0 13) (mkPtok 40 "," 7 9 17)) (TyFixed (mkSpan (mkPtok 12 "char[" 6 0 13) (mkPtok 13 "]" 6 9 15)) (mkFixedString (mkSpan (mkPtok 12 "char[" 6 0 13) (mkPtok 13 "]" 6 9 15)) (mkPtok 12 "char[" 6 0 13) (mkPtok 30 "1" 6 6 14) (mkPtok 13 "]" 6 9 15))) (mkPtok 42 "u128" 7 4 16) None (mkPtok 40 "," 7 9 17)))); (mkFieldWithAttr (mkSpan (mkPtok 21 "u16" 7 11 18) (mkPtok 40 "," 7 28 21)) [] (MetaField (mkSpan (mkPtok 21 "u16" 7 11 18) (mkPtok 40 "," 7 28 21)) None (mkMetaDecl (mkSpan (mkPtok 21 "u16" 7 11 18) (mkPtok 40 "," 7 28 21)) (TyBasic (mkSpan (mkPtok 21 "u16" 7 11 18) (mkPtok 21 "u16" 7 11 18)) (mkBasicType (mkSpan (mkPtok 21 "u16" 7 11 18) (mkPtok 21 "u16" 7 11 18)) (mkPtok 21 "u16" 7 11 18))) (mkPtok 42 "string_" 7 15 19) (Some (mkPtok 43 "`a\`" 7 23 20)) (mkPtok 40 "," 7 28 21)))); (mkFieldWithAttr (mkSpan (mkPtok 5 "@calculatedFrom(" 7 30 22) (mkPtok 40 "," 7 62 26)) [(FACalculatedFrom (mkSpan (mkPtok 5 "@calculatedFrom(" 7 30 22) (mkPtok 6 ")" 7 56 24)) (mkCalculatedFrom (mkSpan (mkPtok 5 "@calculatedFrom(" 7 30 22) (mkPtok 6 ")" 7 56 24)) (mkPtok 5 "@calculatedFrom(" 7 30 22) (mkPtok 31 """packet""" 7 47 23) (mkPtok 6 ")" 7 56 24)))] (ObjectField (mkSpan (mkPtok 42 "Pad" 7 58 25) (mkPtok 40 "," 7 62 26)) None (mkPtok 42 "Pad" 7 58 25) None None (mkPtok 40 "," 7 62 26))); (mkFieldWithAttr (mkSpan (mkPtok 42 "falsey" 8 4 27) (mkPtok 40 "," 8 11 28)) [] (ObjectField (mkSpan (mkPtok 42 "falsey" 8 4 27) (mkPtok 40 "," 8 11 28)) None (mkPtok 42 "falsey" 8 4 27) None None (mkPtok 40 "," 8 11 28))); (mkFieldWithAttr (mkSpan (mkPtok 42 "lengthOf" 8 13 29) (mkPtok 40 "," 9 0 33)) [] (CheckSumField (mkSpan (mkPtok 42 "lengthOf" 8 13 29) (mkPtok 40 "," 9 0 33)) (mkChecksumFieldDecl (mkSpan (mkPtok 42 "lengthOf" 8 13 29) (mkPtok 40 "," 9 0 33)) None (mkPtok 42 "lengthOf" 8 13 29) (mkCalculatedFrom (mkSpan (mkPtok 5 "@calculatedFrom(" 8 21 30) (mkPtok 6 ")" 8 45 32)) (mkPtok 5 "@calculatedFrom(" 8 21 30) (mkPtok 31 """CRC32""" 8 37 31) (mkPtok 6 ")" 8 45 32)) None (mkPtok 40 "," 9 0 33))))] (mkPtok 3 "}" 9 1 34))); (DPacket (mkPacketDef (mkSpan (mkPtok 34 "root" 9 3 35) (mkPtok 3 "}" 17 0 51)) (Some (mkPtok 34 "root" 9 3 35)) (mkPtok 35 "packet" 9 8 36) (mkPtok 42 "crc" 10 0 37) (mkPtok 2 "{" 10 3 38) [(mkFieldWithAttr (mkSpan (mkPtok 42 "repeatCount" 11 0 40) (mkPtok 40 "," 11 12 41)) [] (ObjectField (mkSpan (mkPtok 42 "repeatCount" 11 0 40) (mkPtok 40 "," 11 12 41)) None (mkPtok 42 "repeatCount" 11 0 40) None None (mkPtok 40 "," 11 12 41))); (mkFieldWithAttr (mkSpan (mkPtok 42 "Z9_" 11 14 42) (mkPtok 40 "," 16 3 50)) [] (InerObjectField (mkSpan (mkPtok 42 "Z9_" 11 14 42) (mkPtok 40 "," 16 3 50)) None (InerObjectDecl (mkSpan (mkPtok 42 "Z9_" 11 14 42) (mkPtok 3 "}" 16 0 49)) (mkPtok 42 "Z9_" 11 14 42) (mkPtok 2 "{" 11 18 43) [(MetaField (mkSpan (mkPtok 27 "int64" 11 20 44) (mkPtok 40 "," 15 0 48)) None (mkMetaDecl (mkSpan (mkPtok 27 "int64" 11 20 44) (mkPtok 40 "," 15 0 48)) (TyBasic (mkSpan (mkPtok 27 "int64" 11 20 44) (mkPtok 27 "int64" 11 20 44)) (mkBasicType (mkSpan (mkPtok 27 "int64" 11 20 44) (mkPtok 27 "int64" 11 20 44)) (mkPtok 27 "int64" 11 20 44))) (mkPtok 42 "calculatedFrom" 12 4 45) None (mkPtok 40 "," 15 0 48)))] (mkPtok 3 "}" 16 0 49)) (mkPtok 40 "," 16 3 50)))] (mkPtok 3 "}" 17 0 51))); (DOption (mkOptionDef (mkSpan (mkPtok 1 "options" 17 2 52) (mkPtok 3 "}" 21 20 67)) (mkPtok 1 "options" 17 2 52) (mkPtok 2 "{" 17 9 53) [(mkOptionDecl (mkSpan (mkPtok 42 "body" 17 11 54) (mkPtok 41 ";" 20 4 59)) (mkPtok 42 "body" 17 11 54) (mkPtok 4 "=" 17 15 55) (VPaddingChar (mkSpan (mkPtok 33 "' '" 20 0 58) (mkPtok 33 "' '" 20 0 58)) (mkPtok 33 "' '" 20 0 58)) (Some (mkPtok 41 ";" 20 4 59))); (mkOptionDecl (mkSpan (mkPtok 42 "Header" 20 6 60) (mkPtok 11 "false" 21 0 62)) (mkPtok 42 "Header" 20 6 60) (mkPtok 4 "=" 20 13 61) (VFalse (mkSpan (mkPtok 11 "false" 21 0 62) (mkPtok 11 "false" 21 0 62)) (mkPtok 11 "false" 21 0 62)) None); (mkOptionDecl (mkSpan (mkPtok 42 "options1" 21 6 63) (mkPtok 41 ";" 21 18 66)) (mkPtok 42 "options1" 21 6 63) (mkPtok 4 "=" 21 15 64) (VDigits (mkSpan (mkPtok 30 "3" 21 17 65) (mkPtok 30 "3" 21 17 65)) (mkPtok 30 "3" 21 17 65)) (Some (mkPtok 41 ";" 21 18 66)))] (mkPtok 3 "}" 21 20 67))); (DPacket (mkPacketDef (mkSpan (mkPtok 35 "packet" 21 21 68) (mkPtok 3 "}" 24 0 79)) None (mkPtok 35 "packet" 21 21 68) (mkPtok 42 "a1" 21 28 69) (mkPtok 2 "{" 21 31 70) [(mkFieldWithAttr (mkSpan (mkPtok 36 "repeat" 22 0 72) (mkPtok 40 "," 23 11 78)) [] (MetaField (mkSpan (mkPtok 36 "repeat" 22 0 72) (mkPtok 40 "," 23 11 78)) (Some (mkPtok 36 "repeat" 22 0 72)) (mkMetaDecl (mkSpan (mkPtok 12 "char[" 22 7 73) (mkPtok 40 "," 23 11 78)) (TyFixed (mkSpan (mkPtok 12 "char[" 22 7 73) (mkPtok 13 "]" 23 0 75)) (mkFixedString (mkSpan (mkPtok 12 "char[" 22 7 73) (mkPtok 13 "]" 23 0 75)) (mkPtok 12 "char[" 22 7 73) (mkPtok 30 "00" 22 13 74) (mkPtok 13 "]" 23 0 75))) (mkPtok 42 "T" 23 2 76) (Some (mkPtok 43 "`it's`" 23 4 77)) (mkPtok 40 "," 23 11 78))))] (mkPtok 3 "}" 24 0 79))); (DMeta (mkMetaDef (mkSpan (mkPtok 37 "MetaData" 25 0 80) (mkPtok 3 "}" 28 4 86)) (mkPtok 37 "MetaData" 25 0 80) (mkPtok 42 "A" 26 0 81) (mkPtok 2 "{" 27 0 82) [(MIRef (mkRefMetaDecl (mkSpan (mkPtok 42 "matchKey" 27 2 83) (mkPtok 40 "," 27 15 85)) (mkPtok 42 "matchKey" 27 2 83) (mkPtok 42 "int" 27 11 84) None (mkPtok 40 "," 27 15 85)))] (mkPtok 3 "}" 28 4 86)))])).
Eval vm_compute in ("<<<M1963>>>" ++ check (runes_of_ascii "options
{Z9_ = 255
repeatCount  =  0 ;u128 =  u32
; // `tick` ""quote"" 'q'
f32a = 00 }
")).
Eval vm_compute in ("<<<M1995>>>" ++ check (runes_of_ascii "root packet _x {} root packet chars
    { repeat Packet /// triple
MetaDataX`two words` ,} packet// @lengthOf(
_x {@tag( 0123456789// @lengthOf(
)@calculatedFrom(
""\n"" ) @lengthOf( options1 ) roots @lengthOf(
string_ ) , } /// triple")).
Eval vm_compute in ("<<<M2027>>>" ++ check (runes_of_ascii "options{ i64_ u64 string ; trueish =
    '\x00'
    leftPad = ""a\\"" /// triple
; crc
    = 255; uint8x
=
""abc""
    ;}")).
Eval vm_compute in ("<<<M2059>>>" ++ check (runes_of_ascii "options{ i64_ = string ; trueish =
    '\x00'
    leftPad  ""a\\"" /// triple
; crc
    = 255; uint8x
=
""abc""
    ;}")).
Eval vm_compute in ("<<<M2091>>>" ++ check (runes_of_ascii "options{ i64_ = string ; trueish =
    '\x00'
    leftPad = ""a\\"" /// triple
; crc
    = 255 uint8x ;
=
""abc""
    ;}")).
Eval vm_compute in ("<<<M2123>>>" ++ check (runes_of_ascii "options{ i64_ = string ; trueish =
    '\x00'
    leftPad = ""a\\"" /// triple
; crc
    = 255; uint8x
=
""abc""
    ;" ++ [127]%N ++ runes_of_ascii " }")).
Eval vm_compute in ("<<<M2155>>>" ++ check (runes_of_ascii "  packet
asx
{
/// triple
// @lengthOf(
 stringy
`" ++ [28040; 24687; 31867; 22411]%N ++ runes_of_ascii "` ,} MetaData
    A {string  _x, zchar Header `a\`
// @lengthOf(
// packet A { u8 x, }
, char[] MetaDataX
,zchar[ 1 ]
    matchKey
    , char[] //
u,	char[0123456789 ]
    matchKey
    `{ , }`, }
")).
Eval vm_compute in ("<<<M2187>>>" ++ check (runes_of_ascii "  packet
asx
{
/// triple
// @lengthOf(
u32 stringy
`" ++ [28040; 24687; 31867; 22411]%N ++ runes_of_ascii "` ,} MetaData
    { A string  _x, zchar Header `a\`
// @lengthOf(
// packet A { u8 x, }
, char[] MetaDataX
,zchar[ 1 ]
    matchKey
    , char[] //
u,	char[0123456789 ]
    matchKey
    `{ , }`, }
")).
Eval vm_compute in ("<<<M2219>>>" ++ check (runes_of_ascii "  packet
asx
{
/// triple
// @lengthOf(
u32 stringy
`" ++ [28040; 24687; 31867; 22411]%N ++ runes_of_ascii "` ,} MetaData
    A {string  _x, zchar")).
Eval vm_compute in ("<<<M2251>>>" ++ check (runes_of_ascii "  packet
asx
{
/// triple
// @lengthOf(
u32 stringy
`" ++ [28040; 24687; 31867; 22411]%N ++ runes_of_ascii "` ,} MetaData
    A {string  _x, zchar Header `a\`
// @lengthOf(
// packet A { u8 x, }
, char[] MetaDataX
,zchar[ 1 1 ]
    matchKey
    , char[] //
u,	char[0123456789 ]
    matchKey
    `{ , }`, }
")).
Eval vm_compute in ("<<<M2283>>>" ++ check (runes_of_ascii "  packet
asx
{
/// triple
// @lengthOf(
u32 stringy
`" ++ [28040; 24687; 31867; 22411]%N ++ runes_of_ascii "` ,} MetaData
    A {string  _x, zchar Header `a\`
// @lengthOf(
// packet A { u8 x, }
, char[] MetaDataX
,zchar[ 1 ]
    matchKey
    , char[] //
u uint16	char[0123456789 ]
    matchKey
    `{ , }`, }
")).
Eval vm_compute in ("<<<M2315>>>" ++ check (runes_of_ascii "  packet
asx
{
/// triple
// @lengthOf(
u32 stringy
`" ++ [28040; 24687; 31867; 22411]%N ++ runes_of_ascii "` ,} MetaData
    A {string  _x, zchar Header `a\`
// @lengthOf(
// packet A { u8 x, }
, char[] MetaDataX
,zchar[ 1 ]
    matchKey
    , char[] //
u,	char[0123456789 ]
    matchKey
    `{ , }`, 
")).
Eval vm_compute in ("<<<M2347>>>" ++ check (runes_of_ascii "root
    packet packet
Packet
{ // trailing space 
matchKey `tab	here` ,}")).
Eval vm_compute in ("<<<M2379>>>" ++ check (runes_of_ascii "root
    packet
Packet
{ // trailing space 
matchKey `tab	here` ,")).
Eval vm_compute in ("<<<M2411>>>" ++ check (runes_of_ascii "options")).
Eval vm_compute in ("<<<M2443>>>" ++ check (runes_of_ascii "options{ falsey // a // b
=
    '0' } options { repeatCount repeatCount =
true ; string_// a // b
=
// c
// " ++ [27880; 37322]%N ++ runes_of_ascii "
int64
// trailing space 
/// triple
; } // @lengthOf(")).
Eval vm_compute in ("<<<M2475>>>" ++ check (runes_of_ascii "options{ falsey // a // b
=
    '0' } options { repeatCount =
true ; string_// a // b
=
// c
// " ++ [27880; 37322]%N ++ runes_of_ascii "
]
// trailing space 
/// triple
; } // @lengthOf(")).
Eval vm_compute in ("<<<M2507>>>" ++ check (runes_of_ascii "options{ a" ++ [769]%N ++ runes_of_ascii "b // a // b
=
    '0' } options { repeatCount =
true ; string_// a // b
=
// c
// " ++ [27880; 37322]%N ++ runes_of_ascii "
int64
// trailing space 
/// triple
; } // @lengthOf(")).
Eval vm_compute in ("<<<M2539>>>" ++ check (runes_of_ascii "options{}root packet
metadata { {
@lengthOf(x ) float32
body ``, }
    MetaData
Z9_
    {
    string string_ , Logon x
,
uint32
    // packet A { u8 x, }
    Z9_,asx
_x
    `tab	here` , }
")).
Eval vm_compute in ("<<<M2571>>>" ++ check (runes_of_ascii "options{}root packet
metadata {
@lengthOf(x ) float32
body :, }
    MetaData
Z9_
    {
    string string_ , Logon x
,
uint32
    // packet A { u8 x, }
    Z9_,asx
_x
    `tab	here` , }
")).
Eval vm_compute in ("<<<M2603>>>" ++ check (runes_of_ascii "options{}root packet
metadata {
@lengthOf(x ) float32
body ``, }
    MetaData
Z9_
    {
    string  , Logon x
,
uint32
    // packet A { u8 x, }
    Z9_,asx
_x
    `tab	here` , }
")).
Eval vm_compute in ("<<<M2635>>>" ++ check (runes_of_ascii "options{}root packet
metadata {
@lengthOf(x ) float32
body ``, }
    MetaData
Z9_
    {
    string string_ , Logon x
,
uint32
    // packet A { u8 x, }
    ,Z9_ asx
_x
    `tab	here` , }
")).
Eval vm_compute in ("<<<M2667>>>" ++ check (runes_of_ascii "options{}root packet
metadata {
@length")).
Eval vm_compute in ("<<<M2699>>>" ++ check (runes_of_ascii "options {
    =
""a\\"" ; }")).
Eval vm_compute in ("<<<M2731>>>" ++ check (runes_of_ascii "op" ++ [0]%N ++ runes_of_ascii "tions {
    falsey=
""a\\"" ; }")).
Eval vm_compute in ("<<<M2763>>>" ++ check (runes_of_ascii "MetaData f32a
{
    //	t
    string root
    packet tag  {
}
")).
Eval vm_compute in ("<<<M2795>>>" ++ check (runes_of_ascii "MetaData f32a$
{
    //	t
    }root
    packet tag  {
}
")).
Eval vm_compute in ("<<<M2827>>>" ++ check (runes_of_ascii "
options
    {msg_type = =
    float32  }root
packet Z9_{ char /// triple
crc @lengthOf(
options1 ) //
,} MetaData a1{}
")).
Eval vm_compute in ("<<<M2859>>>" ++ check (runes_of_ascii "
options
    {msg_type =
    float32  }root
packet Z9_[ char /// triple
crc @lengthOf(
options1 ) //
,} MetaData a1{}
")).
Eval vm_compute in ("<<<M2891>>>" ++ check (runes_of_ascii "
options
    {msg_type =
    float32  }root
packet Z9_{ char /// triple
crc @lengthOf(
options1 ) //
, MetaData a1{}
")).
Eval vm_compute in ("<<<M2923>>>" ++ check (runes_of_ascii "
options" ++ [0]%N ++ runes_of_ascii "
    {msg_type =
    float32  }root
packet Z9_{ char /// triple
crc @lengthOf(
options1 ) //
,} MetaData a1{}
")).
Eval vm_compute in ("<<<M2955>>>" ++ check (runes_of_ascii "packet crc{ // " ++ [128512]%N ++ runes_of_ascii " emoji
i8 string i8i8
`a\`, }
")).
Eval vm_compute in ("<<<M2987>>>" ++ check (runes_of_ascii "packet crc{ // " ++ [128512]%N ++ runes_of_ascii " emoji
repeat string i8i8%
`a\`, }
")).
Eval vm_compute in ("<<<M3019>>>" ++ check (runes_of_ascii "packet BodyLength {} } MetaData zchar{ zchar[// @lengthOf(
42 ]
    pack , string_
A , char[]crc , _x trueish ,
// " ++ [27880; 37322]%N ++ runes_of_ascii "
// " ++ [128512]%N ++ runes_of_ascii " emoji
zchar[
    3 ]	T // trailing space 
, } packet body
{
    }
")).
Eval vm_compute in ("<<<M3051>>>" ++ check (runes_of_ascii "packet BodyLength {} MetaData zchar{ zchar[// @lengthOf(
42 uint64
    pack , string_
A , char[]crc , _x trueish ,
// " ++ [27880; 37322]%N ++ runes_of_ascii "
// " ++ [128512]%N ++ runes_of_ascii " emoji
zchar[
    3 ]	T // trailing space 
, } packet body
{
    }
")).
Eval vm_compute in ("<<<M3083>>>" ++ check (runes_of_ascii "packet BodyLength {} MetaData zchar{ zchar[// @lengthOf(
42 ]
    pack , string_
A , char[] , _x trueish ,
// " ++ [27880; 37322]%N ++ runes_of_ascii "
// " ++ [128512]%N ++ runes_of_ascii " emoji
zchar[
    3 ]	T // trailing space 
, } packet body
{
    }
")).
Eval vm_compute in ("<<<M3115>>>" ++ check (runes_of_ascii "packet BodyLength {} MetaData zchar{ zchar[// @lengthOf(
42 ]
    pack , string_
A , char[]crc , _x trueish ,
// " ++ [27880; 37322]%N ++ runes_of_ascii "
// " ++ [128512]%N ++ runes_of_ascii " emoji
zchar[
    ] 3	T // trailing space 
, } packet body
{
    }
")).
Eval vm_compute in ("<<<M3147>>>" ++ check (runes_of_ascii "packet BodyLength {} MetaData zchar{ zchar[// @lengthOf(
42 ]
    pack , string_
A , char[]crc , _x trueish ,
// " ++ [27880; 37322]%N ++ runes_of_ascii "
// " ++ [128512]%N ++ runes_of_ascii " emoji
zchar[
    3 ]	T // trailing space 
, } packet")).
Eval vm_compute in ("<<<M3179>>>" ++ check (runes_of_ascii "
string_ {@lengthOf( int ) match packetx as f32a {
    1 :	calculatedFrom , }  ,
    } packet len
    //	t
    { @calculatedFrom( """ ++ [233]%N ++ runes_of_ascii "t" ++ [233]%N ++ runes_of_ascii """ ) body Header , char[] lengthOf  `two words` ,chars{repeat string_ matchKey ,
    } ,
    }
")).
Eval vm_compute in ("<<<M3211>>>" ++ check (runes_of_ascii "packet
string_ {@lengthOf( int ) packetx match as f32a {
    1 :	calculatedFrom , }  ,
    } packet len
    //	t
    { @calculatedFrom( """ ++ [233]%N ++ runes_of_ascii "t" ++ [233]%N ++ runes_of_ascii """ ) body Header , char[] lengthOf  `two words` ,chars{repeat string_ matchKey ,
    } ,
    }
")).
Eval vm_compute in ("<<<M3243>>>" ++ check (runes_of_ascii "packet
string_ {@lengthOf( int ) match packetx as f32a {
    1")).
Eval vm_compute in ("<<<M3275>>>" ++ check (runes_of_ascii "packet
string_ {@lengthOf( int ) match packetx as f32a {
    1 :	calculatedFrom , }  ,
    } packet len len
    //	t
    { @calculatedFrom( """ ++ [233]%N ++ runes_of_ascii "t" ++ [233]%N ++ runes_of_ascii """ ) body Header , char[] lengthOf  `two words` ,chars{repeat string_ matchKey ,
    } ,
    }
")).
Eval vm_compute in ("<<<M3307>>>" ++ check (runes_of_ascii "packet
string_ {@lengthOf( int ) match packetx as f32a {
    1 :	calculatedFrom , }  ,
    } packet len
    //	t
    { @calculatedFrom( """ ++ [233]%N ++ runes_of_ascii "t" ++ [233]%N ++ runes_of_ascii """ ) body uint16 , char[] lengthOf  `two words` ,chars{repeat string_ matchKey ,
    } ,
    }
")).
Eval vm_compute in ("<<<M3339>>>" ++ check (runes_of_ascii "packet
string_ {@lengthOf( int ) match packetx as f32a {
    1 :	calculatedFrom , }  ,
    } packet len
    //	t
    { @calculatedFrom( """ ++ [233]%N ++ runes_of_ascii "t" ++ [233]%N ++ runes_of_ascii """ ) body Header , char[] lengthOf  `two words` ,chars repeat string_ matchKey ,
    } ,
    }
")).
Eval vm_compute in ("<<<M3371>>>" ++ check (runes_of_ascii "packet
string_ {@lengthOf( int ) match packetx as f32a {
    1 :	calculatedFrom , }  ,
    } packet len
    //	t
    { @calculatedFrom( """ ++ [233]%N ++ runes_of_ascii "t" ++ [233]%N ++ runes_of_ascii """ ) body Header , char[] lengthOf  `two words` ,chars{repeat string_ matchKey ,
    } }
    ,
")).
Eval vm_compute in ("<<<M3403>>>" ++ check (runes_of_ascii "/// triple
root
packet // packet A { u8 x, }
chars { @lengthOf(charz )
stringy,  @tag(  0 ) // a // b
asx
    As
,
// trailing space 
// trailing space 
x_y_z {
repeat % i16 charz , } ,	int16  crc ,}
")).
Eval vm_compute in ("<<<M3435>>>" ++ check (runes_of_ascii "/// triple
")).
Eval vm_compute in ("<<<M3467>>>" ++ check (runes_of_ascii "/// triple
root
packet // packet A { u8 x, }
chars { @lengthOf(charz )
stringy,  @tag(  0 ) // a // b
asx
    As
,
// trailing space 
// trailing space 
x_y_z {
repeat i16 charz , } ,	int16  crc , ,}
")).
Eval vm_compute in ("<<<M3499>>>" ++ check (runes_of_ascii "zchar")).
Eval vm_compute in ("<<<M3531>>>" ++ check (runes_of_ascii "Metadata")).
Eval vm_compute in ("<<<M3563>>>" ++ check (runes_of_ascii "/")).
Eval vm_compute in ("<<<M3595>>>" ++ check (runes_of_ascii "1 2")).
Eval vm_compute in ("<<<M3627>>>" ++ check (runes_of_ascii "packet A { repeat x @lengthOf(y), }")).
Eval vm_compute in ("<<<M3659>>>" ++ check (runes_of_ascii "packet A { x @tag(1), }")).
Eval vm_compute in ("<<<M3691>>>" ++ check (runes_of_ascii "packet A { @leftPad('0' u8 x, }")).
Eval vm_compute in ("<<<M3723>>>" ++ check (runes_of_ascii "MetaData M { match k as n { 1 : B }, }")).
Eval vm_compute in ("<<<M3755>>>" ++ check (runes_of_ascii "		")).
Eval vm_compute in ("<<<M3787>>>" ++ check (runes_of_ascii "as repeat @calculatedFrom( { root char")).
Eval vm_compute in ("<<<M3819>>>" ++ check (runes_of_ascii "'\x00' as zchar[")).
Eval vm_compute in ("<<<M3851>>>" ++ check (runes_of_ascii "i16 { 42 char[ = root char[] : '0' , repeat ; )")).
Eval vm_compute in ("<<<M3883>>>" ++ check (runes_of_ascii "uint32 @lengthOf( ) as @calculatedFrom( ' ' i8 } @calculatedFrom(")).
Eval vm_compute in ("<<<M3915>>>" ++ check (runes_of_ascii "i16 @rightPad ) `crlf
line` = calculatedFrom ""`tick`"" char : @leftPad ]")).
Eval vm_compute in ("<<<M3947>>>" ++ check (runes_of_ascii "uint8x u32 packet @lengthOf( { false float32 repeat ] = ; `" ++ [233]%N ++ runes_of_ascii "` [")).
Eval vm_compute in ("<<<M3979>>>" ++ check (runes_of_ascii ": options")).
