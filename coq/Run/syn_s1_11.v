From FP Require Import Lexer Parser ShowPT Digest.
From Coq Require Import String List NArith.
Import ListNotations.
Open Scope string_scope.
Set Printing Width 100000000.
Set Printing Depth 100000000.
Definition nl : string := String (Ascii.ascii_of_nat 10) EmptyString.
Definition model_lex (rs : list rune) : string := show_toks (lex rs).
Definition model_parse (rs : list rune) : string :=
  show_pt (match lex rs with Some ts => parse ts | None => None end).
(* coqc is slow at printing long strings: digests first (Digest.v), full texts on demand *)
Definition check (rs : list rune) : string :=
  digest (model_lex rs) ++ " " ++ digest (model_parse rs).
Definition full (rs : list rune) : string := model_lex rs ++ nl ++ model_parse rs.
Definition terms (ts : list tok) (t : pt) : string :=
  digest (show_toks (Some ts)) ++ " " ++ digest (show_pt (Some t)) ++ " " ++ digest (show_pt (parse ts)).
Definition terms_full (ts : list tok) (t : pt) : string :=
  show_toks (Some ts) ++ nl ++ show_pt (Some t) ++ nl ++ show_pt (parse ts).
Eval vm_compute in ("<<<M11>>>" ++ check (runes_of_ascii "  MetaData //	t
len { char[ 007 ] T
, }packet
    chars {
@tag( 0
)
char[] stringy @calculatedFrom( ""a\""b"" //x
) `" ++ [233]%N ++ runes_of_ascii "`	,@tag( // trailing space 
65535
)	repeat
o MetaDataX
,
    crc@lengthOf( i8i8 ),
@calculatedFrom(
/// triple
// `tick` ""quote"" 'q'
""x y""
    ) roots@lengthOf(packetx ) , @calculatedFrom(  ""1"" )
@lengthOf( Logon
) @lengthOf( x ) repeat
    T pack, @lengthOf( lengthOf)@tag(  42 ) i64 crc // c
@calculatedFrom( ""packet"" ) `
` ,
i8i8
    `` , }  packet len
    {
match u128	as string_ { 65535 :u128 ,
    }
, As ,
    Header ,// " ++ [27880; 37322]%N ++ runes_of_ascii "
@rightPad
('\x00'
)
    @leftPad
    (
    '\x00' ) asx
    {
    /// triple
    repeat
BodyLength { asx {	repeat
u32
    // @lengthOf(
    Header , repeat
    i64  i64_,
// 50% %s
// `tick` ""quote"" 'q'
match rootA as float
    // c
    { [ 007 , ""CRC32"",
    7 ,
""it's"" , 7	, 3 ] : x_y_z , 007 : pack , } , char[]
metadata @lengthOf( BodyLength )
// " ++ [128512]%N ++ runes_of_ascii " emoji
// `tick` ""quote"" 'q'
,}
,
repeat
    char[00
] u `{ , }` // " ++ [27880; 37322]%N ++ runes_of_ascii "
,  repeat
zchar[
    3 ]	tag ,repeat crc
    int `line1
line2` ,} ,// `tick` ""quote"" 'q'
char[255 ] asx @lengthOf(chars)  ,int64
Foo
    ``
, _x{ T
{ string_	`" ++ [28040; 24687; 31867; 22411]%N ++ runes_of_ascii "` , char[] chars
    , }, repeat
    a1 { repeatCount
@lengthOf( o )
,i64 leftPad
,	zchar[
255// `tick` ""quote"" 'q'
]  float@calculatedFrom(  ""\" ++ [233]%N ++ runes_of_ascii """
), repeat string i8i8
,
// trailing space 
// `tick` ""quote"" 'q'
}  ,}, } , @calculatedFrom(
""abc""
) repeat f32a trueish `u8 x,`	, match calculatedFrom as
// packet A { u8 x, }
// @lengthOf(
stringy { [ 1, 65535
    ]
:u , } , } packet options1
    {
string calculatedFrom// a // b
`" ++ [233]%N ++ runes_of_ascii "`// c
,
    @lengthOf( x_y_z
    ) zchar[0123456789]
x_y_z// trailing space 
@lengthOf(
falsey ) `a\`
    ,	}
")).
Eval vm_compute in ("<<<M43>>>" ++ check (runes_of_ascii "
packet body{ @lengthOf(  zchar
)
f32
    i8i8 , uint8x zchar `u8 x,` ,/// triple
}packet pack
{ @lengthOf( u ) /// triple
char[]
    charz// a // b
@lengthOf(
    o) , f32a @calculatedFrom( ""packet"") ,@lengthOf( metadata
    )repeat int32 repeatCount
    ,@leftPad(
'\x00' ) char[] chars	@lengthOf( roots )
, @calculatedFrom(""\n"" ) matchKey
    //	t
    ,
    }
packet
u8x { @calculatedFrom( ""{,}"" )uint8 string_ @lengthOf( trueish ) , Header {  char[] lengthOf
`u8 x,` , }
    // " ++ [128512]%N ++ runes_of_ascii " emoji
    ,// 50% %s
i16 u `say ""hi""`	, }
// " ++ [27880; 37322]%N ++ runes_of_ascii "
")).
Eval vm_compute in ("<<<M75>>>" ++ check (runes_of_ascii "// `tick` ""quote"" 'q'
packet
u { }  MetaData Packet { int64 u128//
, x crc `
` ,
    float64 len ,
f32
// @lengthOf(
//
A `
`, // 50% %s
}
//x
// `tick` ""quote"" 'q'
root
packet
crc { body {
    f64
leftPad , a1  , }
    , repeat uint8x{ repeat f32 string_ `
` ,
int8
    // " ++ [27880; 37322]%N ++ runes_of_ascii "
    T @calculatedFrom(
"""" ) `say ""hi""` ,
uint8 repeatCount ,} , }
")).
Eval vm_compute in ("<<<M107>>>" ++ check (runes_of_ascii "
options { options1 =
i64 matchKey// `tick` ""quote"" 'q'
= true ;
matchKey// c
=
    i16 ;
    u8x =
    ""{,}""; }
")).
Eval vm_compute in ("<<<M139>>>" ++ check (runes_of_ascii "packet As{ trueish @lengthOf( roots ) , }
packet charz{}	options  { charz
= ""a	b"" uint8x=
    // a // b
    4294967296 ; uint8x
= '\x00' tag = string }
")).
Eval vm_compute in ("<<<T139>>>" ++ terms [mkTok 35 "packet" 1 0 false; mkTok 42 "As" 1 7 false; mkTok 2 "{" 1 9 false; mkTok 42 "trueish" 1 11 false; mkTok 7 "@lengthOf(" 1 19 false; mkTok 42 "roots" 1 30 false; mkTok 6 ")" 1 36 false; mkTok 40 "," 1 38 false; mkTok 3 "}" 1 40 false; mkTok 35 "packet" 2 0 false; mkTok 42 "charz" 2 7 false; mkTok 2 "{" 2 12 false; mkTok 3 "}" 2 13 false; mkTok 1 "options" 2 15 false; mkTok 2 "{" 2 24 false; mkTok 42 "charz" 2 26 false; mkTok 4 "=" 3 0 false; mkTok 31 (string_of_bytes [34; 97; 9; 98; 34]%N) 3 2 false; mkTok 42 "uint8x" 3 8 false; mkTok 4 "=" 3 14 false; mkTok 44 "// a // b" 4 4 true; mkTok 30 "4294967296" 5 4 false; mkTok 41 ";" 5 15 false; mkTok 42 "uint8x" 5 17 false; mkTok 4 "=" 6 0 false; mkTok 33 "'\x00'" 6 2 false; mkTok 42 "tag" 6 9 false; mkTok 4 "=" 6 13 false; mkTok 15 "string" 6 15 false; mkTok 3 "}" 6 22 false; mkTok 0 "<EOF>" 7 0 false] (mkPacket (mkPtok 35 "packet" 1 0 0) (Some (mkPtok 3 "}" 6 22 29)) [(DPacket (mkPacketDef (mkSpan (mkPtok 35 "packet" 1 0 0) (mkPtok 3 "}" 1 40 8)) None (mkPtok 35 "packet" 1 0 0) (mkPtok 42 "As" 1 7 1) (mkPtok 2 "{" 1 9 2) [(mkFieldWithAttr (mkSpan (mkPtok 42 "trueish" 1 11 3) (mkPtok 40 "," 1 38 7)) [] (LengthField (mkSpan (mkPtok 42 "trueish" 1 11 3) (mkPtok 40 "," 1 38 7)) (mkLengthFieldDecl (mkSpan (mkPtok 42 "trueish" 1 11 3) (mkPtok 40 "," 1 38 7)) None (mkPtok 42 "trueish" 1 11 3) (mkLengthOf (mkSpan (mkPtok 7 "@lengthOf(" 1 19 4) (mkPtok 6 ")" 1 36 6)) (mkPtok 7 "@lengthOf(" 1 19 4) (mkPtok 42 "roots" 1 30 5) (mkPtok 6 ")" 1 36 6)) None (mkPtok 40 "," 1 38 7))))] (mkPtok 3 "}" 1 40 8))); (DPacket (mkPacketDef (mkSpan (mkPtok 35 "packet" 2 0 9) (mkPtok 3 "}" 2 13 12)) None (mkPtok 35 "packet" 2 0 9) (mkPtok 42 "charz" 2 7 10) (mkPtok 2 "{" 2 12 11) [] (mkPtok 3 "}" 2 13 12))); (DOption (mkOptionDef (mkSpan (mkPtok 1 "options" 2 15 13) (mkPtok 3 "}" 6 22 29)) (mkPtok 1 "options" 2 15 13) (mkPtok 2 "{" 2 24 14) [(mkOptionDecl (mkSpan (mkPtok 42 "charz" 2 26 15) (mkPtok 31 (string_of_bytes [34; 97; 9; 98; 34]%N) 3 2 17)) (mkPtok 42 "charz" 2 26 15) (mkPtok 4 "=" 3 0 16) (VString (mkSpan (mkPtok 31 (string_of_bytes [34; 97; 9; 98; 34]%N) 3 2 17) (mkPtok 31 (string_of_bytes [34; 97; 9; 98; 34]%N) 3 2 17)) (mkPtok 31 (string_of_bytes [34; 97; 9; 98; 34]%N) 3 2 17)) None); (mkOptionDecl (mkSpan (mkPtok 42 "uint8x" 3 8 18) (mkPtok 41 ";" 5 15 22)) (mkPtok 42 "uint8x" 3 8 18) (mkPtok 4 "=" 3 14 19) (VDigits (mkSpan (mkPtok 30 "4294967296" 5 4 21) (mkPtok 30 "4294967296" 5 4 21)) (mkPtok 30 "4294967296" 5 4 21)) (Some (mkPtok 41 ";" 5 15 22))); (mkOptionDecl (mkSpan (mkPtok 42 "uint8x" 5 17 23) (mkPtok 33 "'\x00'" 6 2 25)) (mkPtok 42 "uint8x" 5 17 23) (mkPtok 4 "=" 6 0 24) (VPaddingChar (mkSpan (mkPtok 33 "'\x00'" 6 2 25) (mkPtok 33 "'\x00'" 6 2 25)) (mkPtok 33 "'\x00'" 6 2 25)) None); (mkOptionDecl (mkSpan (mkPtok 42 "tag" 6 9 26) (mkPtok 15 "string" 6 15 28)) (mkPtok 42 "tag" 6 9 26) (mkPtok 4 "=" 6 13 27) (VType (mkSpan (mkPtok 15 "string" 6 15 28) (mkPtok 15 "string" 6 15 28)) (TyDynamic (mkSpan (mkPtok 15 "string" 6 15 28) (mkPtok 15 "string" 6 15 28)) (mkDynamicString (mkSpan (mkPtok 15 "string" 6 15 28) (mkPtok 15 "string" 6 15 28)) (mkPtok 15 "string" 6 15 28)))) None)] (mkPtok 3 "}" 6 22 29)))])).
Eval vm_compute in ("<<<M171>>>" ++ check (runes_of_ascii "packet Foo {  @calculatedFrom( """"	)
@calculatedFrom( ""1"" ) @rightPad(
) int32
    As
@calculatedFrom( """" )
    `a\`
//x
//	t
,
@calculatedFrom( ""\n"" )
char[65535// @lengthOf(
] asx ,repeat // a // b
int8
    // packet A { u8 x, }
    trueish `` , } packet
A { @tag(4294967296 ) uint16 Logon @calculatedFrom(
    // `tick` ""quote"" 'q'
    """ ++ [233]%N ++ runes_of_ascii "t" ++ [233]%N ++ runes_of_ascii """ ), // `tick` ""quote"" 'q'
@lengthOf( As )
repeat MetaDataX
    falsey
`u8 x,` ,@calculatedFrom(""\n""
    )	match repeatCount
as
A {	4294967296 :
zchar
    } , match
crc
    // `tick` ""quote"" 'q'
    as float { 255
    :u , } ,} root
/// triple
//	t
packet matchKey { string MetaDataX `a\`
, BodyLength
{ match repeatCount as
len {//x
""" ++ [28040; 24687]%N ++ runes_of_ascii """ : asx 3  :
MetaDataX , """ ++ [28040; 24687]%N ++ runes_of_ascii """:// 50% %s
len
    ,  ""x y"":msg_type
,  [
    4294967296 ]
: asx ,
    ""it's""	: repeatCount ,}, zchar[ 0123456789
] Z9_ @calculatedFrom( ""a\\""  ) ,	repeat  zchar[10 ] lengthOf `
`,
uint16 tag `u8 x,` , } // " ++ [27880; 37322]%N ++ runes_of_ascii "
,@leftPad
    ( ) u128 trueish,
    // c
    }")).
Eval vm_compute in ("<<<M203>>>" ++ check (runes_of_ascii "packet  u128  {
repeat
string float `100% of %d`
    , @tag( 1
) @tag( // " ++ [27880; 37322]%N ++ runes_of_ascii "
007	)
    match pack as i8i8
{  ""CRC32"" //	t
:
trueish 0123456789	: _x ,[00 ,""" ++ [128512]%N ++ runes_of_ascii """, /// triple
255 , 255
]	: // trailing space 
uint8x
    ,[  ""`tick`""	] :trueish , 7  :
    i8i8 } , Logon
, @calculatedFrom(""1"" // packet A { u8 x, }
) zchar[ 0123456789 ]
/// triple
// trailing space 
trueish @calculatedFrom(""1""// " ++ [128512]%N ++ runes_of_ascii " emoji
) `u8 x,`	, @leftPad ( )@tag(	7) char[
// trailing space 
//	t
0123456789] BodyLength
//x
// 50% %s
@calculatedFrom( ""abc"" /// triple
)
    ,	T/// triple
a1 ,}packet
Packet {  }
")).
Eval vm_compute in ("<<<M235>>>" ++ check (runes_of_ascii "options // packet A { u8 x, }
{ MetaDataX
=
00
    // trailing space 
    ; stringy = ""packet"" Header= char[ 42 ]} packet As  {
} packet trueish{ BodyLength ,
    @tag(
42 )u8 msg_type @calculatedFrom(
""a\""b"" ) ,
repeat  u16 u128
, @calculatedFrom(
    ""abc"")
// `tick` ""quote"" 'q'
// packet A { u8 x, }
match charz as x_y_z {3	:
    //	t
    Z9_, 7: repeatCount [ //x
1 , ""a\\""// c
] :
    i64_
    , ""it's"":
    Logon },
f32 // 50% %s
int `it's`, @calculatedFrom( ""{,}""
    )
falsey @calculatedFrom( ""a\""b"" )
, @lengthOf(A	)
    Header
// 50% %s
/// triple
@calculatedFrom( ""packet"" )
    `tab	here`  ,char[3 // trailing space 
] zchar@lengthOf( rootA ) , }

")).
Eval vm_compute in ("<<<M267>>>" ++ check (runes_of_ascii "packet packetx{} packet
    zchar //	t
{}
")).
Eval vm_compute in ("<<<M299>>>" ++ check (runes_of_ascii "MetaData Packet
{ }")).
Eval vm_compute in ("<<<M331>>>" ++ check (runes_of_ascii "options {
//x
//	t
}MetaData crc
    { //
uint32 packetx`line1
line2`	, }	options
    {// packet A { u8 x, }
trueish=
// c
// packet A { u8 x, }
true falsey	=false f32a= zchar[
255 ]
trueish=
255	Z9_
= ""\n""
;} packet repeatCount
{
asx { match _x as msg_type// @lengthOf(
{ 0123456789
// " ++ [128512]%N ++ runes_of_ascii " emoji
// 50% %s
:trueish ,
[42
    ]
    : matchKey // packet A { u8 x, }
, """ ++ [28040; 24687]%N ++ runes_of_ascii """ :
    roots, [ 1 ] :
As} , }
    , @calculatedFrom( ""// no comment"") char metadata
    ,
repeat	rootA
{ int64	stringy@calculatedFrom(
""1""
    ) , u32
    // `tick` ""quote"" 'q'
    T, } , float32
i64_ ,repeat
zchar[ 007
]
T
`say ""hi""` ,repeat
// 50% %s
// " ++ [128512]%N ++ runes_of_ascii " emoji
tag
{int8 crc `crlf
line` ,
repeat	o {repeat
    f32a, } ,repeat i16
    Z9_ `" ++ [233]%N ++ runes_of_ascii "`, zchar[3  ]
    body @lengthOf( Packet ) , }
, @lengthOf( o ) match uint8x as As{
    255: T , } ,f32a @lengthOf(leftPad
    ) , BodyLength
_x`it's`, //	t
repeat asx{ char[ 10
] i64_ @lengthOf( u
    )
,
} ,
} //x")).
Eval vm_compute in ("<<<M363>>>" ++ check (runes_of_ascii "packet tag
{ }root packet a1
{ }
    MetaData pack { Packet Z9_ `` ,leftPad trueish , char[] _x // 50% %s
`
` , packetx Packet `it's`,  tag // " ++ [27880; 37322]%N ++ runes_of_ascii "
msg_type `" ++ [233]%N ++ runes_of_ascii "`
    , char[3 //x
]
    // trailing space 
    i64_`crlf
line`, }
")).
Eval vm_compute in ("<<<T363>>>" ++ terms [mkTok 35 "packet" 1 0 false; mkTok 42 "tag" 1 7 false; mkTok 2 "{" 2 0 false; mkTok 3 "}" 2 2 false; mkTok 34 "root" 2 3 false; mkTok 35 "packet" 2 8 false; mkTok 42 "a1" 2 15 false; mkTok 2 "{" 3 0 false; mkTok 3 "}" 3 2 false; mkTok 37 "MetaData" 4 4 false; mkTok 42 "pack" 4 13 false; mkTok 2 "{" 4 18 false; mkTok 42 "Packet" 4 20 false; mkTok 42 "Z9_" 4 27 false; mkTok 43 "``" 4 31 false; mkTok 40 "," 4 34 false; mkTok 42 "leftPad" 4 35 false; mkTok 42 "trueish" 4 43 false; mkTok 40 "," 4 51 false; mkTok 16 "char[]" 4 53 false; mkTok 42 "_x" 4 60 false; mkTok 44 "// 50% %s" 4 63 true; mkTok 43 (string_of_bytes [96; 10; 96]%N) 5 0 false; mkTok 40 "," 6 2 false; mkTok 42 "packetx" 6 4 false; mkTok 42 "Packet" 6 12 false; mkTok 43 "`it's`" 6 19 false; mkTok 40 "," 6 25 false; mkTok 42 "tag" 6 28 false; mkTok 44 (string_of_bytes [47; 47; 32; 230; 179; 168; 233; 135; 138]%N) 6 32 true; mkTok 42 "msg_type" 7 0 false; mkTok 43 (string_of_bytes [96; 195; 169; 96]%N) 7 9 false; mkTok 40 "," 8 4 false; mkTok 12 "char[" 8 6 false; mkTok 30 "3" 8 11 false; mkTok 44 "//x" 8 13 true; mkTok 13 "]" 9 0 false; mkTok 44 "// trailing space " 10 4 true; mkTok 42 "i64_" 11 4 false; mkTok 43 (string_of_bytes [96; 99; 114; 108; 102; 13; 10; 108; 105; 110; 101; 96]%N) 11 8 false; mkTok 40 "," 12 5 false; mkTok 3 "}" 12 7 false; mkTok 0 "<EOF>" 13 0 false] (mkPacket (mkPtok 35 "packet" 1 0 0) (Some (mkPtok 3 "}" 12 7 41)) [(DPacket (mkPacketDef (mkSpan (mkPtok 35 "packet" 1 0 0) (mkPtok 3 "}" 2 2 3)) None (mkPtok 35 "packet" 1 0 0) (mkPtok 42 "tag" 1 7 1) (mkPtok 2 "{" 2 0 2) [] (mkPtok 3 "}" 2 2 3))); (DPacket (mkPacketDef (mkSpan (mkPtok 34 "root" 2 3 4) (mkPtok 3 "}" 3 2 8)) (Some (mkPtok 34 "root" 2 3 4)) (mkPtok 35 "packet" 2 8 5) (mkPtok 42 "a1" 2 15 6) (mkPtok 2 "{" 3 0 7) [] (mkPtok 3 "}" 3 2 8))); (DMeta (mkMetaDef (mkSpan (mkPtok 37 "MetaData" 4 4 9) (mkPtok 3 "}" 12 7 41)) (mkPtok 37 "MetaData" 4 4 9) (mkPtok 42 "pack" 4 13 10) (mkPtok 2 "{" 4 18 11) [(MIRef (mkRefMetaDecl (mkSpan (mkPtok 42 "Packet" 4 20 12) (mkPtok 40 "," 4 34 15)) (mkPtok 42 "Packet" 4 20 12) (mkPtok 42 "Z9_" 4 27 13) (Some (mkPtok 43 "``" 4 31 14)) (mkPtok 40 "," 4 34 15))); (MIRef (mkRefMetaDecl (mkSpan (mkPtok 42 "leftPad" 4 35 16) (mkPtok 40 "," 4 51 18)) (mkPtok 42 "leftPad" 4 35 16) (mkPtok 42 "trueish" 4 43 17) None (mkPtok 40 "," 4 51 18))); (MIDecl (mkMetaDecl (mkSpan (mkPtok 16 "char[]" 4 53 19) (mkPtok 40 "," 6 2 23)) (TyDynamic (mkSpan (mkPtok 16 "char[]" 4 53 19) (mkPtok 16 "char[]" 4 53 19)) (mkDynamicString (mkSpan (mkPtok 16 "char[]" 4 53 19) (mkPtok 16 "char[]" 4 53 19)) (mkPtok 16 "char[]" 4 53 19))) (mkPtok 42 "_x" 4 60 20) (Some (mkPtok 43 (string_of_bytes [96; 10; 96]%N) 5 0 22)) (mkPtok 40 "," 6 2 23))); (MIRef (mkRefMetaDecl (mkSpan (mkPtok 42 "packetx" 6 4 24) (mkPtok 40 "," 6 25 27)) (mkPtok 42 "packetx" 6 4 24) (mkPtok 42 "Packet" 6 12 25) (Some (mkPtok 43 "`it's`" 6 19 26)) (mkPtok 40 "," 6 25 27))); (MIRef (mkRefMetaDecl (mkSpan (mkPtok 42 "tag" 6 28 28) (mkPtok 40 "," 8 4 32)) (mkPtok 42 "tag" 6 28 28) (mkPtok 42 "msg_type" 7 0 30) (Some (mkPtok 43 (string_of_bytes [96; 195; 169; 96]%N) 7 9 31)) (mkPtok 40 "," 8 4 32))); (MIDecl (mkMetaDecl (mkSpan (mkPtok 12 "char[" 8 6 33) (mkPtok 40 "," 12 5 40)) (TyFixed (mkSpan (mkPtok 12 "char[" 8 6 33) (mkPtok 13 "]" 9 0 36)) (mkFixedString (mkSpan (mkPtok 12 "char[" 8 6 33) (mkPtok 13 "]" 9 0 36)) (mkPtok 12 "char[" 8 6 33) (mkPtok 30 "3" 8 11 34) (mkPtok 13 "]" 9 0 36))) (mkPtok 42 "i64_" 11 4 38) (Some (mkPtok 43 (string_of_bytes [96; 99; 114; 108; 102; 13; 10; 108; 105; 110; 101; 96]%N) 11 8 39)) (mkPtok 40 "," 12 5 40)))] (mkPtok 3 "}" 12 7 41)))])).
Eval vm_compute in ("<<<M395>>>" ++ check (runes_of_ascii "packet// `tick` ""quote"" 'q'
x_y_z { }MetaData
Logon  { pack chars `" ++ [233]%N ++ runes_of_ascii "`, }options { len = 00}root packet	len {char[
    7  ] asx ,  }  MetaData MetaDataX // " ++ [27880; 37322]%N ++ runes_of_ascii "
{
char Foo `100% of %d` , }")).
Eval vm_compute in ("<<<M427>>>" ++ check (runes_of_ascii "// c
packet string_{x @lengthOf( charz ) `u8 x,` , } options { T // packet A { u8 x, }
= char[ 3
] ;
a1 =65535
    //x
    ;msg_type  = string ;
MetaDataX //	t
= uint8
; } MetaData // trailing space 
u /// triple
{ char[ 1
] repeatCount `line1
line2`,f32 i8i8, // " ++ [128512]%N ++ runes_of_ascii " emoji
char[]
matchKey``// " ++ [27880; 37322]%N ++ runes_of_ascii "
,// c
stringy Foo,zchar[ 007] i8i8`doc`	, u8x
i64_ `" ++ [233]%N ++ runes_of_ascii "`
,  }
")).
Eval vm_compute in ("<<<M459>>>" ++ check (runes_of_ascii "packet calculatedFrom { Z9_ repeatCount,
@tag(
    // trailing space 
    4294967296 ) u16 Foo, zchar[ 255 ] _x ,As{
// 50% %s
/// triple
zchar[
65535 ] charz ,//x
f64 A
`crlf
line`, } , // `tick` ""quote"" 'q'
}
    packet
u {match x_y_z as int {
[	""it's"" ]:
uint8x , 4294967296 : i64_
    ,
""x y""	: BodyLength
// packet A { u8 x, }
// trailing space 
, ""x y"" :u8x	,
    }, //	t
}options { As =
    f64 ;  }")).
Eval vm_compute in ("<<<M491>>>" ++ check (runes_of_ascii "packet
    BodyLength
{  @rightPad( ) _x	, // c
} 	 ")).
Eval vm_compute in ("<<<M523>>>" ++ check (runes_of_ascii "packet
x { @calculatedFrom(  ""a	b"" )crc // 50% %s
crc`crlf
line`  , }

")).
Eval vm_compute in ("<<<M555>>>" ++ check (runes_of_ascii "// packet A { u8 x, }
packet roots{ repeat	body
// `tick` ""quote"" 'q'
// @lengthOf(
, } MetaData asx {
    char[7 ] zchar  `{ , }`,}
")).
Eval vm_compute in ("<<<M587>>>" ++ check (runes_of_ascii "
")).
Eval vm_compute in ("<<<T587>>>" ++ terms [mkTok 0 "<EOF>" 2 0 false] (mkPacket (mkPtok 0 "<EOF>" 2 0 0) None [])).
Eval vm_compute in ("<<<M619>>>" ++ check (runes_of_ascii "packet lengthOf {
@tag(3
    )	asx `{ , }` , }	root	packet// 50% %s
chars
{@tag(  0123456789 ) match int
    // a // b
    as i8i8 { [
    """ ++ [128512]%N ++ runes_of_ascii """,65535 ] :Pad [65535,
    0123456789 , ""a\""b"" ,""a\""b"",
    7 , ""abc""
    , 65535 ,3 ] : repeatCount
, } , }options
// c
// `tick` ""quote"" 'q'
{  chars= '\x00' ;	}	packet  body {	i64 o ,
@calculatedFrom( // " ++ [27880; 37322]%N ++ runes_of_ascii "
"""" )
@lengthOf(int)match metadata	as
    charz {""`tick`""
:
lengthOf ,	1 :repeatCount , //	t
[""abc""]
    // trailing space 
    :uint8x  ,
    ""\n""
:Pad, } //
,
    @rightPad('0' ) int64
    msg_type
    // " ++ [128512]%N ++ runes_of_ascii " emoji
    @calculatedFrom( ""\" ++ [233]%N ++ runes_of_ascii """ ) ,
@lengthOf( MetaDataX )
    /// triple
    zchar @calculatedFrom( ""a\\"" ) ,}
    packet int  {
@lengthOf( T  ) MetaDataX { options1// @lengthOf(
{
    /// triple
    match
As as roots
{
0 : asx , [
10 ,"""" ,
1 , 0123456789  ,
""CRC32""  , 3 ,
    ""a\\""] //	t
: int, """" : leftPad ,
[
1
    ,
1 ] : int ,  },
uint8x float
    // @lengthOf(
    , }, int16
    Logon `" ++ [28040; 24687; 31867; 22411]%N ++ runes_of_ascii "` , repeat pack
    {repeat
i16 packetx``, rootA
    string_ , }
,zchar[ 0 ]
Header`say ""hi""` ,} ,
    }
")).
Eval vm_compute in ("<<<M651>>>" ++ check (runes_of_ascii "MetaData
    Z9_ { }root packet // " ++ [128512]%N ++ runes_of_ascii " emoji
MetaDataX{@calculatedFrom( ""// no comment"" ) match
Packet as body {
""" ++ [233]%N ++ runes_of_ascii "t" ++ [233]%N ++ runes_of_ascii """ :metadata """ ++ [28040; 24687]%N ++ runes_of_ascii """: // " ++ [128512]%N ++ runes_of_ascii " emoji
u8x
, 10 : matchKey
""" ++ [28040; 24687]%N ++ runes_of_ascii """: stringy ,	},@leftPad
('0' ) char[] pack , @lengthOf(
charz ) match
    charz	as metadata// packet A { u8 x, }
{
    ""{,}"" : i64_ ,[0 ] : calculatedFrom
    ,
    ""CRC32"" :
rootA , [
4294967296 , ""packet""] : len
//	t
// " ++ [27880; 37322]%N ++ runes_of_ascii "
, [""abc"" ] : msg_type ""a\""b"": repeatCount,
} , }")).
Eval vm_compute in ("<<<M683>>>" ++ check (runes_of_ascii "packet
    msg_type
{ @rightPad (
' ')u32 a1, u8x
@lengthOf( crc ) , }")).
Eval vm_compute in ("<<<M715>>>" ++ check (runes_of_ascii "
options
    {
options1
=false ; x_y_z =
""abc"";A =  ""packet""
    trueish = // " ++ [128512]%N ++ runes_of_ascii " emoji
42
    ; } options // " ++ [27880; 37322]%N ++ runes_of_ascii "
{ rootA = true }MetaData i64_{ string
uint8x ,}")).
Eval vm_compute in ("<<<M747>>>" ++ check (runes_of_ascii "options{
u8x =
int8 ;
    Pad =int16; falsey
    = true ; }  root packet trueish {@lengthOf(pack
)
int64
u @calculatedFrom(
    //
    ""CRC32""	)
    , }
MetaData // c
chars { msg_type asx //
`{ , }`, roots Logon`" ++ [233]%N ++ runes_of_ascii "` ,	char[] string_`doc`  ,roots  pack `
`
    ,
// packet A { u8 x, }
// packet A { u8 x, }
Packet crc ,
Foo i64_ , }")).
Eval vm_compute in ("<<<M779>>>" ++ check (runes_of_ascii "root
packet tag { } // " ++ [128512]%N ++ runes_of_ascii " emoji")).
Eval vm_compute in ("<<<M811>>>" ++ check (runes_of_ascii "packet zchar{
    char[
7] i64_ `tab	here`,
    @lengthOf(	u128
    )
    // " ++ [27880; 37322]%N ++ runes_of_ascii "
    @calculatedFrom(
// packet A { u8 x, }
//x
""" ++ [233]%N ++ runes_of_ascii "t" ++ [233]%N ++ runes_of_ascii """
    )
    @calculatedFrom( """ ++ [233]%N ++ runes_of_ascii "t" ++ [233]%N ++ runes_of_ascii """  )
    calculatedFrom
lengthOf `doc`	,char len ,match  int as
Pad{ ""a\\"" : falsey ,	255 :lengthOf ,},	match
rootA
as Foo  { 42 :
zchar [""`tick`""  ,
""{,}""
/// triple
// @lengthOf(
] : stringy,}
    , char[ 00 ] int	@lengthOf( u128 )	,	}
packet T
{ @leftPad (
// " ++ [27880; 37322]%N ++ runes_of_ascii "
// @lengthOf(
'0'
)repeat
pack , }")).
Eval vm_compute in ("<<<T811>>>" ++ terms [mkTok 35 "packet" 1 0 false; mkTok 42 "zchar" 1 7 false; mkTok 2 "{" 1 12 false; mkTok 12 "char[" 2 4 false; mkTok 30 "7" 3 0 false; mkTok 13 "]" 3 1 false; mkTok 42 "i64_" 3 3 false; mkTok 43 (string_of_bytes [96; 116; 97; 98; 9; 104; 101; 114; 101; 96]%N) 3 8 false; mkTok 40 "," 3 18 false; mkTok 7 "@lengthOf(" 4 4 false; mkTok 42 "u128" 4 15 false; mkTok 6 ")" 5 4 false; mkTok 44 (string_of_bytes [47; 47; 32; 230; 179; 168; 233; 135; 138]%N) 6 4 true; mkTok 5 "@calculatedFrom(" 7 4 false; mkTok 44 "// packet A { u8 x, }" 8 0 true; mkTok 44 "//x" 9 0 true; mkTok 31 (string_of_bytes [34; 195; 169; 116; 195; 169; 34]%N) 10 0 false; mkTok 6 ")" 11 4 false; mkTok 5 "@calculatedFrom(" 12 4 false; mkTok 31 (string_of_bytes [34; 195; 169; 116; 195; 169; 34]%N) 12 21 false; mkTok 6 ")" 12 28 false; mkTok 42 "calculatedFrom" 13 4 false; mkTok 42 "lengthOf" 14 0 false; mkTok 43 "`doc`" 14 9 false; mkTok 40 "," 14 15 false; mkTok 19 "char" 14 16 false; mkTok 42 "len" 14 21 false; mkTok 40 "," 14 25 false; mkTok 38 "match" 14 26 false; mkTok 42 "int" 14 33 false; mkTok 17 "as" 14 37 false; mkTok 42 "Pad" 15 0 false; mkTok 2 "{" 15 3 false; mkTok 31 """a\\""" 15 5 false; mkTok 39 ":" 15 11 false; mkTok 42 "falsey" 15 13 false; mkTok 40 "," 15 20 false; mkTok 30 "255" 15 22 false; mkTok 39 ":" 15 26 false; mkTok 42 "lengthOf" 15 27 false; mkTok 40 "," 15 36 false; mkTok 3 "}" 15 37 false; mkTok 40 "," 15 38 false; mkTok 38 "match" 15 40 false; mkTok 42 "rootA" 16 0 false; mkTok 17 "as" 17 0 false; mkTok 42 "Foo" 17 3 false; mkTok 2 "{" 17 8 false; mkTok 30 "42" 17 10 false; mkTok 39 ":" 17 13 false; mkTok 42 "zchar" 18 0 false; mkTok 18 "[" 18 6 false; mkTok 31 """`tick`""" 18 7 false; mkTok 40 "," 18 17 false; mkTok 31 """{,}""" 19 0 false; mkTok 44 "/// triple" 20 0 true; mkTok 44 "// @lengthOf(" 21 0 true; mkTok 13 "]" 22 0 false; mkTok 39 ":" 22 2 false; mkTok 42 "stringy" 22 4 false; mkTok 40 "," 22 11 false; mkTok 3 "}" 22 12 false; mkTok 40 "," 23 4 false; mkTok 12 "char[" 23 6 false; mkTok 30 "00" 23 12 false; mkTok 13 "]" 23 15 false; mkTok 42 "int" 23 17 false; mkTok 7 "@lengthOf(" 23 21 false; mkTok 42 "u128" 23 32 false; mkTok 6 ")" 23 37 false; mkTok 40 "," 23 39 false; mkTok 3 "}" 23 41 false; mkTok 35 "packet" 24 0 false; mkTok 42 "T" 24 7 false; mkTok 2 "{" 25 0 false; mkTok 32 "@leftPad" 25 2 false; mkTok 8 "(" 25 11 false; mkTok 44 (string_of_bytes [47; 47; 32; 230; 179; 168; 233; 135; 138]%N) 26 0 true; mkTok 44 "// @lengthOf(" 27 0 true; mkTok 33 "'0'" 28 0 false; mkTok 6 ")" 29 0 false; mkTok 36 "repeat" 29 1 false; mkTok 42 "pack" 30 0 false; mkTok 40 "," 30 5 false; mkTok 3 "}" 30 7 false; mkTok 0 "<EOF>" 30 8 false] (mkPacket (mkPtok 35 "packet" 1 0 0) (Some (mkPtok 3 "}" 30 7 84)) [(DPacket (mkPacketDef (mkSpan (mkPtok 35 "packet" 1 0 0) (mkPtok 3 "}" 23 41 71)) None (mkPtok 35 "packet" 1 0 0) (mkPtok 42 "zchar" 1 7 1) (mkPtok 2 "{" 1 12 2) [(mkFieldWithAttr (mkSpan (mkPtok 12 "char[" 2 4 3) (mkPtok 40 "," 3 18 8)) [] (MetaField (mkSpan (mkPtok 12 "char[" 2 4 3) (mkPtok 40 "," 3 18 8)) None (mkMetaDecl (mkSpan (mkPtok 12 "char[" 2 4 3) (mkPtok 40 "," 3 18 8)) (TyFixed (mkSpan (mkPtok 12 "char[" 2 4 3) (mkPtok 13 "]" 3 1 5)) (mkFixedString (mkSpan (mkPtok 12 "char[" 2 4 3) (mkPtok 13 "]" 3 1 5)) (mkPtok 12 "char[" 2 4 3) (mkPtok 30 "7" 3 0 4) (mkPtok 13 "]" 3 1 5))) (mkPtok 42 "i64_" 3 3 6) (Some (mkPtok 43 (string_of_bytes [96; 116; 97; 98; 9; 104; 101; 114; 101; 96]%N) 3 8 7)) (mkPtok 40 "," 3 18 8)))); (mkFieldWithAttr (mkSpan (mkPtok 7 "@lengthOf(" 4 4 9) (mkPtok 40 "," 14 15 24)) [(FALengthOf (mkSpan (mkPtok 7 "@lengthOf(" 4 4 9) (mkPtok 6 ")" 5 4 11)) (mkLengthOf (mkSpan (mkPtok 7 "@lengthOf(" 4 4 9) (mkPtok 6 ")" 5 4 11)) (mkPtok 7 "@lengthOf(" 4 4 9) (mkPtok 42 "u128" 4 15 10) (mkPtok 6 ")" 5 4 11))); (FACalculatedFrom (mkSpan (mkPtok 5 "@calculatedFrom(" 7 4 13) (mkPtok 6 ")" 11 4 17)) (mkCalculatedFrom (mkSpan (mkPtok 5 "@calculatedFrom(" 7 4 13) (mkPtok 6 ")" 11 4 17)) (mkPtok 5 "@calculatedFrom(" 7 4 13) (mkPtok 31 (string_of_bytes [34; 195; 169; 116; 195; 169; 34]%N) 10 0 16) (mkPtok 6 ")" 11 4 17))); (FACalculatedFrom (mkSpan (mkPtok 5 "@calculatedFrom(" 12 4 18) (mkPtok 6 ")" 12 28 20)) (mkCalculatedFrom (mkSpan (mkPtok 5 "@calculatedFrom(" 12 4 18) (mkPtok 6 ")" 12 28 20)) (mkPtok 5 "@calculatedFrom(" 12 4 18) (mkPtok 31 (string_of_bytes [34; 195; 169; 116; 195; 169; 34]%N) 12 21 19) (mkPtok 6 ")" 12 28 20)))] (ObjectField (mkSpan (mkPtok 42 "calculatedFrom" 13 4 21) (mkPtok 40 "," 14 15 24)) None (mkPtok 42 "calculatedFrom" 13 4 21) (Some (mkPtok 42 "lengthOf" 14 0 22)) (Some (mkPtok 43 "`doc`" 14 9 23)) (mkPtok 40 "," 14 15 24))); (mkFieldWithAttr (mkSpan (mkPtok 19 "char" 14 16 25) (mkPtok 40 "," 14 25 27)) [] (MetaField (mkSpan (mkPtok 19 "char" 14 16 25) (mkPtok 40 "," 14 25 27)) None (mkMetaDecl (mkSpan (mkPtok 19 "char" 14 16 25) (mkPtok 40 "," 14 25 27)) (TyBasic (mkSpan (mkPtok 19 "char" 14 16 25) (mkPtok 19 "char" 14 16 25)) (mkBasicType (mkSpan (mkPtok 19 "char" 14 16 25) (mkPtok 19 "char" 14 16 25)) (mkPtok 19 "char" 14 16 25))) (mkPtok 42 "len" 14 21 26) None (mkPtok 40 "," 14 25 27)))); (mkFieldWithAttr (mkSpan (mkPtok 38 "match" 14 26 28) (mkPtok 40 "," 15 38 42)) [] (MatchField (mkSpan (mkPtok 38 "match" 14 26 28) (mkPtok 40 "," 15 38 42)) (mkMatchFieldDecl (mkSpan (mkPtok 38 "match" 14 26 28) (mkPtok 3 "}" 15 37 41)) (mkPtok 38 "match" 14 26 28) (mkPtok 42 "int" 14 33 29) (mkPtok 17 "as" 14 37 30) (mkPtok 42 "Pad" 15 0 31) (mkPtok 2 "{" 15 3 32) [(mkMatchPair (mkSpan (mkPtok 31 """a\\""" 15 5 33) (mkPtok 40 "," 15 20 36)) (MKString (mkPtok 31 """a\\""" 15 5 33)) (mkPtok 39 ":" 15 11 34) (mkPtok 42 "falsey" 15 13 35) (Some (mkPtok 40 "," 15 20 36))); (mkMatchPair (mkSpan (mkPtok 30 "255" 15 22 37) (mkPtok 40 "," 15 36 40)) (MKDigits (mkPtok 30 "255" 15 22 37)) (mkPtok 39 ":" 15 26 38) (mkPtok 42 "lengthOf" 15 27 39) (Some (mkPtok 40 "," 15 36 40)))] (mkPtok 3 "}" 15 37 41)) (mkPtok 40 "," 15 38 42))); (mkFieldWithAttr (mkSpan (mkPtok 38 "match" 15 40 43) (mkPtok 40 "," 23 4 62)) [] (MatchField (mkSpan (mkPtok 38 "match" 15 40 43) (mkPtok 40 "," 23 4 62)) (mkMatchFieldDecl (mkSpan (mkPtok 38 "match" 15 40 43) (mkPtok 3 "}" 22 12 61)) (mkPtok 38 "match" 15 40 43) (mkPtok 42 "rootA" 16 0 44) (mkPtok 17 "as" 17 0 45) (mkPtok 42 "Foo" 17 3 46) (mkPtok 2 "{" 17 8 47) [(mkMatchPair (mkSpan (mkPtok 30 "42" 17 10 48) (mkPtok 42 "zchar" 18 0 50)) (MKDigits (mkPtok 30 "42" 17 10 48)) (mkPtok 39 ":" 17 13 49) (mkPtok 42 "zchar" 18 0 50) None); (mkMatchPair (mkSpan (mkPtok 18 "[" 18 6 51) (mkPtok 40 "," 22 11 60)) (MKList (mkKeyList (mkSpan (mkPtok 18 "[" 18 6 51) (mkPtok 13 "]" 22 0 57)) (mkPtok 18 "[" 18 6 51) (mkPtok 31 """`tick`""" 18 7 52) [((mkPtok 40 "," 18 17 53), (mkPtok 31 """{,}""" 19 0 54))] (mkPtok 13 "]" 22 0 57))) (mkPtok 39 ":" 22 2 58) (mkPtok 42 "stringy" 22 4 59) (Some (mkPtok 40 "," 22 11 60)))] (mkPtok 3 "}" 22 12 61)) (mkPtok 40 "," 23 4 62))); (mkFieldWithAttr (mkSpan (mkPtok 12 "char[" 23 6 63) (mkPtok 40 "," 23 39 70)) [] (LengthField (mkSpan (mkPtok 12 "char[" 23 6 63) (mkPtok 40 "," 23 39 70)) (mkLengthFieldDecl (mkSpan (mkPtok 12 "char[" 23 6 63) (mkPtok 40 "," 23 39 70)) (Some (TyFixed (mkSpan (mkPtok 12 "char[" 23 6 63) (mkPtok 13 "]" 23 15 65)) (mkFixedString (mkSpan (mkPtok 12 "char[" 23 6 63) (mkPtok 13 "]" 23 15 65)) (mkPtok 12 "char[" 23 6 63) (mkPtok 30 "00" 23 12 64) (mkPtok 13 "]" 23 15 65)))) (mkPtok 42 "int" 23 17 66) (mkLengthOf (mkSpan (mkPtok 7 "@lengthOf(" 23 21 67) (mkPtok 6 ")" 23 37 69)) (mkPtok 7 "@lengthOf(" 23 21 67) (mkPtok 42 "u128" 23 32 68) (mkPtok 6 ")" 23 37 69)) None (mkPtok 40 "," 23 39 70))))] (mkPtok 3 "}" 23 41 71))); (DPacket (mkPacketDef (mkSpan (mkPtok 35 "packet" 24 0 72) (mkPtok 3 "}" 30 7 84)) None (mkPtok 35 "packet" 24 0 72) (mkPtok 42 "T" 24 7 73) (mkPtok 2 "{" 25 0 74) [(mkFieldWithAttr (mkSpan (mkPtok 32 "@leftPad" 25 2 75) (mkPtok 40 "," 30 5 83)) [(FAPadding (mkSpan (mkPtok 32 "@leftPad" 25 2 75) (mkPtok 6 ")" 29 0 80)) (mkPaddingAttr (mkSpan (mkPtok 32 "@leftPad" 25 2 75) (mkPtok 6 ")" 29 0 80)) (mkPtok 32 "@leftPad" 25 2 75) (mkPtok 8 "(" 25 11 76) (Some (mkPtok 33 "'0'" 28 0 79)) (mkPtok 6 ")" 29 0 80)))] (ObjectField (mkSpan (mkPtok 36 "repeat" 29 1 81) (mkPtok 40 "," 30 5 83)) (Some (mkPtok 36 "repeat" 29 1 81)) (mkPtok 42 "pack" 30 0 82) None None (mkPtok 40 "," 30 5 83)))] (mkPtok 3 "}" 30 7 84)))])).
Eval vm_compute in ("<<<M843>>>" ++ check (runes_of_ascii "packet crc {}
")).
Eval vm_compute in ("<<<M875>>>" ++ check (runes_of_ascii "options
    {	pack= ""`tick`"" ; pack
    =
    0123456789 i64_ = // `tick` ""quote"" 'q'
zchar[ 42]}
")).
Eval vm_compute in ("<<<M907>>>" ++ check (runes_of_ascii "packet
    //
    calculatedFrom {/// triple
pack matchKey `` , int8 MetaDataX
`a\` ,
    @lengthOf(crc  )
    int16 T , zchar[1]
    Logon @lengthOf(T )`line1
line2` ,
@rightPad ( ) Packet`u8 x,` ,}
packet pack /// triple
{ } packet
Z9_ {
Pad @lengthOf( _x )  `say ""hi""`
, @lengthOf(
matchKey
)@calculatedFrom(  """ ++ [128512]%N ++ runes_of_ascii """ ) f32	matchKey @calculatedFrom(  ""{,}""  ) `// not a comment`	,  } options
    {
    u
=
char[  65535 ]; rootA
=
3 leftPad = ' '
;repeatCount =
    // " ++ [128512]%N ++ runes_of_ascii " emoji
    '\x00' ;
}")).
Eval vm_compute in ("<<<M939>>>" ++ check (runes_of_ascii "MetaData stringy { char[]	u, u16	o , roots
T ,
string Pad ,falsey
msg_type
,
    zchar[ 7 ] Logon, }MetaData int {	u64
u8x
    `" ++ [28040; 24687; 31867; 22411]%N ++ runes_of_ascii "` ,}
")).
Eval vm_compute in ("<<<M971>>>" ++ check (runes_of_ascii "packet Pad{ zchar[
    00	]	crc ,@rightPad ( '\x00' ) uint16 crc `" ++ [233]%N ++ runes_of_ascii "`,} options { _x = string ; }// 50% %s
options
// " ++ [27880; 37322]%N ++ runes_of_ascii "
/// triple
{ Foo=  10 }options
{ Foo = '\x00'	; }
")).
Eval vm_compute in ("<<<M1003>>>" ++ check (runes_of_ascii "MetaData falsey { } root packet
trueish /// triple
{
repeat uint32 leftPad ,
    char[ 4294967296 ]len
@calculatedFrom( """ ++ [128512]%N ++ runes_of_ascii """ )`doc`  , @lengthOf(
packetx)	repeat int16 // `tick` ""quote"" 'q'
roots `u8 x,`
,@rightPad(  ' '/// triple
) repeat char[ 00 ]
MetaDataX , x
    @calculatedFrom(
""`tick`""
    ),float64
    lengthOf `{ , }` // trailing space 
,
@lengthOf(i64_ )int16 calculatedFrom // c
@lengthOf( u	), } packet stringy
{ i64_
`tab	here`
,
rootA
    Z9_ ,
string
    Pad
@calculatedFrom(// `tick` ""quote"" 'q'
""// no comment""
    )	`a\`, @rightPad ( '\x00') @calculatedFrom(""{,}"" ) @calculatedFrom( ""CRC32"" ) falsey
    `doc`,  match Logon as tag	{3: f32a, ""abc""  : o,255: A
""abc"" : leftPad , },
@calculatedFrom(
// @lengthOf(
// " ++ [128512]%N ++ runes_of_ascii " emoji
""" ++ [233]%N ++ runes_of_ascii "t" ++ [233]%N ++ runes_of_ascii """ // packet A { u8 x, }
)repeat
u32
//
// " ++ [27880; 37322]%N ++ runes_of_ascii "
_x
`100% of %d`
    , zchar[ 42 ] body `{ , }`,
    zchar[
//x
// a // b
10//x
]	u128	`u8 x,`	, int @calculatedFrom(
    /// triple
    ""abc""  ) ,repeat
    options1
    // trailing space 
    , }
")).
Eval vm_compute in ("<<<M1035>>>" ++ check (@nil rune)).
Eval vm_compute in ("<<<T1035>>>" ++ terms [mkTok 0 "<EOF>" 1 0 false] (mkPacket (mkPtok 0 "<EOF>" 1 0 0) None [])).
Eval vm_compute in ("<<<M1067>>>" ++ check (runes_of_ascii "
")).
Eval vm_compute in ("<<<M1099>>>" ++ check (runes_of_ascii "root
    packet len
    {// a // b
char[ 0123456789 // " ++ [27880; 37322]%N ++ runes_of_ascii "
] pack @calculatedFrom(""a\\"") `say ""hi""` , match Header
    as
    trueish {[ ""a\\"" ,
255 ,007 ] :	asx
    , } ,
match Pad as
    Foo // `tick` ""quote"" 'q'
{""\n"" : uint8x	1: lengthOf
    , 65535
    : u128,
},
} packet
    tag  { o
rootA``
, }root
packet tag {
uint8x,
    @lengthOf( int ) // 50% %s
@tag(0 ) Pad ,
// packet A { u8 x, }
// 50% %s
u8 x , @lengthOf(
Z9_) f32 BodyLength
`tab	here` ,
    repeat
    char[
255
] f32a
    , repeat
msg_type lengthOf ,	@leftPad ( '\x00' ) repeat	int32 asx,
repeat string f32a , @leftPad ( )
len Foo ,
} // trailing space 
packet uint8x {  calculatedFrom
    // 50% %s
    ,
/// triple
// trailing space 
} MetaData asx{ // c
}
")).
Eval vm_compute in ("<<<M1131>>>" ++ check (runes_of_ascii "options { } root packet _x
    { }")).
Eval vm_compute in ("<<<M1163>>>" ++ check (runes_of_ascii "root packet BodyLength{ zchar[ 3 ] u8x `" ++ [28040; 24687; 31867; 22411]%N ++ runes_of_ascii "` ,	}
")).
Eval vm_compute in ("<<<M1195>>>" ++ check (runes_of_ascii "MetaData o{ char[] a1 `// not a comment` , metadata rootA `// not a comment` ,	int8
    matchKey
// @lengthOf(
// c
`{ , }`
    , i64
    Packet , i16  pack
, len trueish ,}// @lengthOf(
packet  Packet{// 50% %s
@calculatedFrom(  ""// no comment"" ) char[0
]  zchar @calculatedFrom(""x y"" )	`100% of %d` ,	@lengthOf( o )@rightPad(
    '0') @calculatedFrom( ""\" ++ [233]%N ++ runes_of_ascii """  )match lengthOf as
Packet { // trailing space 
[ 00
    ,
    4294967296 //	t
, ""a\\"" , ""{,}"" ] :	_x , } ,
@leftPad (
    '0' ) @lengthOf(
matchKey ) x	repeatCount  , string_  `line1
line2` ,} // " ++ [27880; 37322]%N)).
Eval vm_compute in ("<<<M1227>>>" ++ check (runes_of_ascii " // a // b")).
Eval vm_compute in ("<<<M1259>>>" ++ check (runes_of_ascii "MetaData Z9_	{ BodyLength _x,}")).
Eval vm_compute in ("<<<T1259>>>" ++ terms [mkTok 37 "MetaData" 1 0 false; mkTok 42 "Z9_" 1 9 false; mkTok 2 "{" 1 13 false; mkTok 42 "BodyLength" 1 15 false; mkTok 42 "_x" 1 26 false; mkTok 40 "," 1 28 false; mkTok 3 "}" 1 29 false; mkTok 0 "<EOF>" 1 30 false] (mkPacket (mkPtok 37 "MetaData" 1 0 0) (Some (mkPtok 3 "}" 1 29 6)) [(DMeta (mkMetaDef (mkSpan (mkPtok 37 "MetaData" 1 0 0) (mkPtok 3 "}" 1 29 6)) (mkPtok 37 "MetaData" 1 0 0) (mkPtok 42 "Z9_" 1 9 1) (mkPtok 2 "{" 1 13 2) [(MIRef (mkRefMetaDecl (mkSpan (mkPtok 42 "BodyLength" 1 15 3) (mkPtok 40 "," 1 28 5)) (mkPtok 42 "BodyLength" 1 15 3) (mkPtok 42 "_x" 1 26 4) None (mkPtok 40 "," 1 28 5)))] (mkPtok 3 "}" 1 29 6)))])).
Eval vm_compute in ("<<<M1291>>>" ++ check (runes_of_ascii "//	t
MetaData o /// triple
{BodyLength // " ++ [128512]%N ++ runes_of_ascii " emoji
Z9_ , char
Foo ,zchar[ 1
]
u `" ++ [28040; 24687; 31867; 22411]%N ++ runes_of_ascii "` ,
    char[]  Logon `100% of %d`
,
    // " ++ [27880; 37322]%N ++ runes_of_ascii "
    }
    /// triple
    MetaData u { uint32  pack , matchKey
    calculatedFrom // `tick` ""quote"" 'q'
`crlf
line`,
string
    roots , char[42
] calculatedFrom,}
packet trueish
    { @lengthOf( u128 ) chars {
    stringy
    {repeat Foo{ asx @lengthOf(
// " ++ [27880; 37322]%N ++ runes_of_ascii "
//x
uint8x)// " ++ [128512]%N ++ runes_of_ascii " emoji
`
` ,
    uint64 Header@lengthOf( calculatedFrom)
    ,uint16 Foo`
`
    ,calculatedFrom , } , Pad msg_type
`{ , }` , repeat zchar[ 4294967296] tag , match stringy as
    A {
0123456789 :body
[
    //	t
    ""1"" , """ ++ [28040; 24687]%N ++ runes_of_ascii """ ,
3
    ] :stringy ,[	""" ++ [233]%N ++ runes_of_ascii "t" ++ [233]%N ++ runes_of_ascii """ ,""\n""// 50% %s
]
    // packet A { u8 x, }
    : Header	,
} ,
},
    char
    asx
,
} , }")).
Eval vm_compute in ("<<<M1323>>>" ++ check (runes_of_ascii "MetaData body
// c
// packet A { u8 x, }
{tag
    A `
`	, i8
    leftPad, charz roots// `tick` ""quote"" 'q'
`a\` , }
")).
Eval vm_compute in ("<<<M1355>>>" ++ check (runes_of_ascii "options
{ Foo = ' ' }")).
Eval vm_compute in ("<<<M1387>>>" ++ check (runes_of_ascii "packet T { @tag(
    00 ) uint8 MetaDataX ,}
")).
Eval vm_compute in ("<<<M1419>>>" ++ check (runes_of_ascii "// " ++ [27880; 37322]%N ++ runes_of_ascii "
root	packet
packetx {@rightPad (
'0' )
float @calculatedFrom(//
""CRC32"" ) `" ++ [28040; 24687; 31867; 22411]%N ++ runes_of_ascii "` , @calculatedFrom( """" ) repeat	f32 calculatedFrom, } //	t")).
Eval vm_compute in ("<<<M1451>>>" ++ check (runes_of_ascii "root packet
    uint8x {
    } packet
uint8x {} options // " ++ [128512]%N ++ runes_of_ascii " emoji
{ Foo = ' ' u =
char[]
}
// c
// `tick` ""quote"" 'q'
packet charz { char[] zchar
`" ++ [233]%N ++ runes_of_ascii "`	, @calculatedFrom(
    ""x y"" )
string Logon , char[ 0
// 50% %s
//
] crc @lengthOf(  float)`" ++ [233]%N ++ runes_of_ascii "` // @lengthOf(
,// " ++ [27880; 37322]%N ++ runes_of_ascii "
} root packet Header{i8 // trailing space 
calculatedFrom
@lengthOf( u128 ) , @tag(
    //x
    65535 )
    repeat// `tick` ""quote"" 'q'
zchar[	4294967296 ] tag
//	t
//x
,@leftPad// " ++ [128512]%N ++ runes_of_ascii " emoji
( '\x00'// packet A { u8 x, }
) tag { match
    // c
    repeatCount
as charz{ 0123456789  :
asx , }
,
f32	string_/// triple
`
` //
,
}, uint32 matchKey, i32// c
leftPad	@calculatedFrom(""1"") `it's` , _x
{f32a @calculatedFrom(
""`tick`"") , char metadata
    `a\`
    , repeat uint16// a // b
float
    `" ++ [233]%N ++ runes_of_ascii "`// " ++ [128512]%N ++ runes_of_ascii " emoji
, } ,@lengthOf( A ) zchar[ 0123456789 ]
Header@lengthOf(o )`
` ,	}
")).
Eval vm_compute in ("<<<M1483>>>" ++ check (runes_of_ascii "
root
packet
    MetaDataX {  } //x
MetaData
//
//
_x {
// `tick` ""quote"" 'q'
//x
char[]
    x
//x
// c
,
MetaDataX zchar ,  }
")).
Eval vm_compute in ("<<<T1483>>>" ++ terms [mkTok 34 "root" 2 0 false; mkTok 35 "packet" 3 0 false; mkTok 42 "MetaDataX" 4 4 false; mkTok 2 "{" 4 14 false; mkTok 3 "}" 4 17 false; mkTok 44 "//x" 4 19 true; mkTok 37 "MetaData" 5 0 false; mkTok 44 "//" 6 0 true; mkTok 44 "//" 7 0 true; mkTok 42 "_x" 8 0 false; mkTok 2 "{" 8 3 false; mkTok 44 "// `tick` ""quote"" 'q'" 9 0 true; mkTok 44 "//x" 10 0 true; mkTok 16 "char[]" 11 0 false; mkTok 42 "x" 12 4 false; mkTok 44 "//x" 13 0 true; mkTok 44 "// c" 14 0 true; mkTok 40 "," 15 0 false; mkTok 42 "MetaDataX" 16 0 false; mkTok 42 "zchar" 16 10 false; mkTok 40 "," 16 16 false; mkTok 3 "}" 16 19 false; mkTok 0 "<EOF>" 17 0 false] (mkPacket (mkPtok 34 "root" 2 0 0) (Some (mkPtok 3 "}" 16 19 21)) [(DPacket (mkPacketDef (mkSpan (mkPtok 34 "root" 2 0 0) (mkPtok 3 "}" 4 17 4)) (Some (mkPtok 34 "root" 2 0 0)) (mkPtok 35 "packet" 3 0 1) (mkPtok 42 "MetaDataX" 4 4 2) (mkPtok 2 "{" 4 14 3) [] (mkPtok 3 "}" 4 17 4))); (DMeta (mkMetaDef (mkSpan (mkPtok 37 "MetaData" 5 0 6) (mkPtok 3 "}" 16 19 21)) (mkPtok 37 "MetaData" 5 0 6) (mkPtok 42 "_x" 8 0 9) (mkPtok 2 "{" 8 3 10) [(MIDecl (mkMetaDecl (mkSpan (mkPtok 16 "char[]" 11 0 13) (mkPtok 40 "," 15 0 17)) (TyDynamic (mkSpan (mkPtok 16 "char[]" 11 0 13) (mkPtok 16 "char[]" 11 0 13)) (mkDynamicString (mkSpan (mkPtok 16 "char[]" 11 0 13) (mkPtok 16 "char[]" 11 0 13)) (mkPtok 16 "char[]" 11 0 13))) (mkPtok 42 "x" 12 4 14) None (mkPtok 40 "," 15 0 17))); (MIRef (mkRefMetaDecl (mkSpan (mkPtok 42 "MetaDataX" 16 0 18) (mkPtok 40 "," 16 16 20)) (mkPtok 42 "MetaDataX" 16 0 18) (mkPtok 42 "zchar" 16 10 19) None (mkPtok 40 "," 16 16 20)))] (mkPtok 3 "}" 16 19 21)))])).
Eval vm_compute in ("<<<M1515>>>" ++ check (runes_of_ascii "root packet rootA {
repeat
    trueish o , } 	 ")).
Eval vm_compute in ("<<<M1547>>>" ++ check (runes_of_ascii "root packet i64_ { // trailing space 
char[ 1
    ]
pack @calculatedFrom( ""x y"" )
,}// trailing space 
packet
MetaDataX {
} MetaData zchar { // " ++ [128512]%N ++ runes_of_ascii " emoji
string x_y_z
`" ++ [28040; 24687; 31867; 22411]%N ++ runes_of_ascii "` , }
/// triple
")).
Eval vm_compute in ("<<<M1579>>>" ++ check (runes_of_ascii "packet As { @calculatedFrom(
    //	t
    ""a\""b"" ) char[007 ]
calculatedFrom ,}
packet lengthOf { u16 charz
    @lengthOf(
    float )  , @calculatedFrom(
""it's"" )options1 @lengthOf(
    body) `doc` ,	}
")).
Eval vm_compute in ("<<<M1611>>>" ++ check (runes_of_ascii "
")).
Eval vm_compute in ("<<<M1643>>>" ++ check (runes_of_ascii "root packet roots { @tag( 0
)  leftPad { Pad u128
`` , }
    , // " ++ [27880; 37322]%N ++ runes_of_ascii "
repeat
char[// trailing space 
3 // " ++ [128512]%N ++ runes_of_ascii " emoji
]len // @lengthOf(
,  @lengthOf(_x
    // trailing space 
    )  x @calculatedFrom( ""1"" // `tick` ""quote"" 'q'
) , int16 Z9_  ,// `tick` ""quote"" 'q'
u8 charz, char Logon ,
}options { Pad = '0' ; msg_type // " ++ [128512]%N ++ runes_of_ascii " emoji
= 7 Packet =  string chars = i32 ; u8x =
    """ ++ [28040; 24687]%N ++ runes_of_ascii """ ;  }
packet pack	{}

")).
Eval vm_compute in ("<<<M1675>>>" ++ check (runes_of_ascii "
")).
Eval vm_compute in ("<<<M1707>>>" ++ check (runes_of_ascii "packet f32a { match Pad as
    MetaDataX {  255 : zchar ,""{,}"" : Foo, [ ""// no comment""
    , """" ] :a1  , [ ""\n""	,	0123456789
, ""`tick`"" ,
3 ,
""a	b""
    ] : Foo// 50% %s
,} ,
    match _x as
    o//
{ //
""" ++ [28040; 24687]%N ++ runes_of_ascii """ : f32a ,
[ ""`tick`"" //	t
,""x y"",""a\\"" ] :
chars	, 00: len , """ ++ [128512]%N ++ runes_of_ascii """:i64_, },char[
007 ] Packet @lengthOf( chars
    ),
uint64
o ,}
")).
Eval vm_compute in ("<<<T1707>>>" ++ terms [mkTok 35 "packet" 1 0 false; mkTok 42 "f32a" 1 7 false; mkTok 2 "{" 1 12 false; mkTok 38 "match" 1 14 false; mkTok 42 "Pad" 1 20 false; mkTok 17 "as" 1 24 false; mkTok 42 "MetaDataX" 2 4 false; mkTok 2 "{" 2 14 false; mkTok 30 "255" 2 17 false; mkTok 39 ":" 2 21 false; mkTok 42 "zchar" 2 23 false; mkTok 40 "," 2 29 false; mkTok 31 """{,}""" 2 30 false; mkTok 39 ":" 2 36 false; mkTok 42 "Foo" 2 38 false; mkTok 40 "," 2 41 false; mkTok 18 "[" 2 43 false; mkTok 31 """// no comment""" 2 45 false; mkTok 40 "," 3 4 false; mkTok 31 """""" 3 6 false; mkTok 13 "]" 3 9 false; mkTok 39 ":" 3 11 false; mkTok 42 "a1" 3 12 false; mkTok 40 "," 3 16 false; mkTok 18 "[" 3 18 false; mkTok 31 """\n""" 3 20 false; mkTok 40 "," 3 25 false; mkTok 30 "0123456789" 3 27 false; mkTok 40 "," 4 0 false; mkTok 31 """`tick`""" 4 2 false; mkTok 40 "," 4 11 false; mkTok 30 "3" 5 0 false; mkTok 40 "," 5 2 false; mkTok 31 (string_of_bytes [34; 97; 9; 98; 34]%N) 6 0 false; mkTok 13 "]" 7 4 false; mkTok 39 ":" 7 6 false; mkTok 42 "Foo" 7 8 false; mkTok 44 "// 50% %s" 7 11 true; mkTok 40 "," 8 0 false; mkTok 3 "}" 8 1 false; mkTok 40 "," 8 3 false; mkTok 38 "match" 9 4 false; mkTok 42 "_x" 9 10 false; mkTok 17 "as" 9 13 false; mkTok 42 "o" 10 4 false; mkTok 44 "//" 10 5 true; mkTok 2 "{" 11 0 false; mkTok 44 "//" 11 2 true; mkTok 31 (string_of_bytes [34; 230; 182; 136; 230; 129; 175; 34]%N) 12 0 false; mkTok 39 ":" 12 5 false; mkTok 42 "f32a" 12 7 false; mkTok 40 "," 12 12 false; mkTok 18 "[" 13 0 false; mkTok 31 """`tick`""" 13 2 false; mkTok 44 (string_of_bytes [47; 47; 9; 116]%N) 13 11 true; mkTok 40 "," 14 0 false; mkTok 31 """x y""" 14 1 false; mkTok 40 "," 14 6 false; mkTok 31 """a\\""" 14 7 false; mkTok 13 "]" 14 13 false; mkTok 39 ":" 14 15 false; mkTok 42 "chars" 15 0 false; mkTok 40 "," 15 6 false; mkTok 30 "00" 15 8 false; mkTok 39 ":" 15 10 false; mkTok 42 "len" 15 12 false; mkTok 40 "," 15 16 false; mkTok 31 (string_of_bytes [34; 240; 159; 152; 128; 34]%N) 15 18 false; mkTok 39 ":" 15 21 false; mkTok 42 "i64_" 15 22 false; mkTok 40 "," 15 26 false; mkTok 3 "}" 15 28 false; mkTok 40 "," 15 29 false; mkTok 12 "char[" 15 30 false; mkTok 30 "007" 16 0 false; mkTok 13 "]" 16 4 false; mkTok 42 "Packet" 16 6 false; mkTok 7 "@lengthOf(" 16 13 false; mkTok 42 "chars" 16 24 false; mkTok 6 ")" 17 4 false; mkTok 40 "," 17 5 false; mkTok 23 "uint64" 18 0 false; mkTok 42 "o" 19 0 false; mkTok 40 "," 19 2 false; mkTok 3 "}" 19 3 false; mkTok 0 "<EOF>" 20 0 false] (mkPacket (mkPtok 35 "packet" 1 0 0) (Some (mkPtok 3 "}" 19 3 84)) [(DPacket (mkPacketDef (mkSpan (mkPtok 35 "packet" 1 0 0) (mkPtok 3 "}" 19 3 84)) None (mkPtok 35 "packet" 1 0 0) (mkPtok 42 "f32a" 1 7 1) (mkPtok 2 "{" 1 12 2) [(mkFieldWithAttr (mkSpan (mkPtok 38 "match" 1 14 3) (mkPtok 40 "," 8 3 40)) [] (MatchField (mkSpan (mkPtok 38 "match" 1 14 3) (mkPtok 40 "," 8 3 40)) (mkMatchFieldDecl (mkSpan (mkPtok 38 "match" 1 14 3) (mkPtok 3 "}" 8 1 39)) (mkPtok 38 "match" 1 14 3) (mkPtok 42 "Pad" 1 20 4) (mkPtok 17 "as" 1 24 5) (mkPtok 42 "MetaDataX" 2 4 6) (mkPtok 2 "{" 2 14 7) [(mkMatchPair (mkSpan (mkPtok 30 "255" 2 17 8) (mkPtok 40 "," 2 29 11)) (MKDigits (mkPtok 30 "255" 2 17 8)) (mkPtok 39 ":" 2 21 9) (mkPtok 42 "zchar" 2 23 10) (Some (mkPtok 40 "," 2 29 11))); (mkMatchPair (mkSpan (mkPtok 31 """{,}""" 2 30 12) (mkPtok 40 "," 2 41 15)) (MKString (mkPtok 31 """{,}""" 2 30 12)) (mkPtok 39 ":" 2 36 13) (mkPtok 42 "Foo" 2 38 14) (Some (mkPtok 40 "," 2 41 15))); (mkMatchPair (mkSpan (mkPtok 18 "[" 2 43 16) (mkPtok 40 "," 3 16 23)) (MKList (mkKeyList (mkSpan (mkPtok 18 "[" 2 43 16) (mkPtok 13 "]" 3 9 20)) (mkPtok 18 "[" 2 43 16) (mkPtok 31 """// no comment""" 2 45 17) [((mkPtok 40 "," 3 4 18), (mkPtok 31 """""" 3 6 19))] (mkPtok 13 "]" 3 9 20))) (mkPtok 39 ":" 3 11 21) (mkPtok 42 "a1" 3 12 22) (Some (mkPtok 40 "," 3 16 23))); (mkMatchPair (mkSpan (mkPtok 18 "[" 3 18 24) (mkPtok 40 "," 8 0 38)) (MKList (mkKeyList (mkSpan (mkPtok 18 "[" 3 18 24) (mkPtok 13 "]" 7 4 34)) (mkPtok 18 "[" 3 18 24) (mkPtok 31 """\n""" 3 20 25) [((mkPtok 40 "," 3 25 26), (mkPtok 30 "0123456789" 3 27 27)); ((mkPtok 40 "," 4 0 28), (mkPtok 31 """`tick`""" 4 2 29)); ((mkPtok 40 "," 4 11 30), (mkPtok 30 "3" 5 0 31)); ((mkPtok 40 "," 5 2 32), (mkPtok 31 (string_of_bytes [34; 97; 9; 98; 34]%N) 6 0 33))] (mkPtok 13 "]" 7 4 34))) (mkPtok 39 ":" 7 6 35) (mkPtok 42 "Foo" 7 8 36) (Some (mkPtok 40 "," 8 0 38)))] (mkPtok 3 "}" 8 1 39)) (mkPtok 40 "," 8 3 40))); (mkFieldWithAttr (mkSpan (mkPtok 38 "match" 9 4 41) (mkPtok 40 "," 15 29 72)) [] (MatchField (mkSpan (mkPtok 38 "match" 9 4 41) (mkPtok 40 "," 15 29 72)) (mkMatchFieldDecl (mkSpan (mkPtok 38 "match" 9 4 41) (mkPtok 3 "}" 15 28 71)) (mkPtok 38 "match" 9 4 41) (mkPtok 42 "_x" 9 10 42) (mkPtok 17 "as" 9 13 43) (mkPtok 42 "o" 10 4 44) (mkPtok 2 "{" 11 0 46) [(mkMatchPair (mkSpan (mkPtok 31 (string_of_bytes [34; 230; 182; 136; 230; 129; 175; 34]%N) 12 0 48) (mkPtok 40 "," 12 12 51)) (MKString (mkPtok 31 (string_of_bytes [34; 230; 182; 136; 230; 129; 175; 34]%N) 12 0 48)) (mkPtok 39 ":" 12 5 49) (mkPtok 42 "f32a" 12 7 50) (Some (mkPtok 40 "," 12 12 51))); (mkMatchPair (mkSpan (mkPtok 18 "[" 13 0 52) (mkPtok 40 "," 15 6 62)) (MKList (mkKeyList (mkSpan (mkPtok 18 "[" 13 0 52) (mkPtok 13 "]" 14 13 59)) (mkPtok 18 "[" 13 0 52) (mkPtok 31 """`tick`""" 13 2 53) [((mkPtok 40 "," 14 0 55), (mkPtok 31 """x y""" 14 1 56)); ((mkPtok 40 "," 14 6 57), (mkPtok 31 """a\\""" 14 7 58))] (mkPtok 13 "]" 14 13 59))) (mkPtok 39 ":" 14 15 60) (mkPtok 42 "chars" 15 0 61) (Some (mkPtok 40 "," 15 6 62))); (mkMatchPair (mkSpan (mkPtok 30 "00" 15 8 63) (mkPtok 40 "," 15 16 66)) (MKDigits (mkPtok 30 "00" 15 8 63)) (mkPtok 39 ":" 15 10 64) (mkPtok 42 "len" 15 12 65) (Some (mkPtok 40 "," 15 16 66))); (mkMatchPair (mkSpan (mkPtok 31 (string_of_bytes [34; 240; 159; 152; 128; 34]%N) 15 18 67) (mkPtok 40 "," 15 26 70)) (MKString (mkPtok 31 (string_of_bytes [34; 240; 159; 152; 128; 34]%N) 15 18 67)) (mkPtok 39 ":" 15 21 68) (mkPtok 42 "i64_" 15 22 69) (Some (mkPtok 40 "," 15 26 70)))] (mkPtok 3 "}" 15 28 71)) (mkPtok 40 "," 15 29 72))); (mkFieldWithAttr (mkSpan (mkPtok 12 "char[" 15 30 73) (mkPtok 40 "," 17 5 80)) [] (LengthField (mkSpan (mkPtok 12 "char[" 15 30 73) (mkPtok 40 "," 17 5 80)) (mkLengthFieldDecl (mkSpan (mkPtok 12 "char[" 15 30 73) (mkPtok 40 "," 17 5 80)) (Some (TyFixed (mkSpan (mkPtok 12 "char[" 15 30 73) (mkPtok 13 "]" 16 4 75)) (mkFixedString (mkSpan (mkPtok 12 "char[" 15 30 73) (mkPtok 13 "]" 16 4 75)) (mkPtok 12 "char[" 15 30 73) (mkPtok 30 "007" 16 0 74) (mkPtok 13 "]" 16 4 75)))) (mkPtok 42 "Packet" 16 6 76) (mkLengthOf (mkSpan (mkPtok 7 "@lengthOf(" 16 13 77) (mkPtok 6 ")" 17 4 79)) (mkPtok 7 "@lengthOf(" 16 13 77) (mkPtok 42 "chars" 16 24 78) (mkPtok 6 ")" 17 4 79)) None (mkPtok 40 "," 17 5 80)))); (mkFieldWithAttr (mkSpan (mkPtok 23 "uint64" 18 0 81) (mkPtok 40 "," 19 2 83)) [] (MetaField (mkSpan (mkPtok 23 "uint64" 18 0 81) (mkPtok 40 "," 19 2 83)) None (mkMetaDecl (mkSpan (mkPtok 23 "uint64" 18 0 81) (mkPtok 40 "," 19 2 83)) (TyBasic (mkSpan (mkPtok 23 "uint64" 18 0 81) (mkPtok 23 "uint64" 18 0 81)) (mkBasicType (mkSpan (mkPtok 23 "uint64" 18 0 81) (mkPtok 23 "uint64" 18 0 81)) (mkPtok 23 "uint64" 18 0 81))) (mkPtok 42 "o" 19 0 82) None (mkPtok 40 "," 19 2 83))))] (mkPtok 3 "}" 19 3 84)))])).
Eval vm_compute in ("<<<M1739>>>" ++ check (runes_of_ascii "// @lengthOf(
root packet BodyLength
{
repeat zchar[
1 ]
u128 , body @calculatedFrom(
""\n"")
    `100% of %d` ,
    repeat lengthOf { char[ // " ++ [128512]%N ++ runes_of_ascii " emoji
1
] float @calculatedFrom(	""x y"" ) ,
    }
,	Logon  @calculatedFrom( ""a	b""
) /// triple
,crc@calculatedFrom( ""\" ++ [233]%N ++ runes_of_ascii """), @calculatedFrom( ""a\""b"" ) @lengthOf(
charz
)	_x @calculatedFrom(""it's""	) , } MetaData
options1
{charz i8i8
, }")).
Eval vm_compute in ("<<<M1771>>>" ++ check (runes_of_ascii "packet Packet {
    match	Z9_ as
    _x{ 10 :
    msg_type , // @lengthOf(
[ ""1"" ,007
    ,""a	b""	,
65535 ]
: int , }
, options1 ,
}
    MetaData leftPad { int8 chars,
o
    tag
`say ""hi""` , char[] leftPad`{ , }`, }root // 50% %s
packet Pad
    { @leftPad( '\x00') zchar[ // trailing space 
255 ]
i64_
`" ++ [28040; 24687; 31867; 22411]%N ++ runes_of_ascii "` , // 50% %s
@lengthOf( a1  )
u8	pack@calculatedFrom(""packet"" ) ,float64
    options1`{ , }`
    ,// " ++ [128512]%N ++ runes_of_ascii " emoji
float32 Foo `say ""hi""` ,
} MetaData
zchar { } packet	roots{
@lengthOf( //
metadata // " ++ [27880; 37322]%N ++ runes_of_ascii "
) match
Packet	as	repeatCount  {[
    ""\n""
// c
//
,
""" ++ [28040; 24687]%N ++ runes_of_ascii """ , 3, ""a\""b""	, 007 // a // b
,42
,""\n"" ,// " ++ [128512]%N ++ runes_of_ascii " emoji
""abc""] :falsey	65535 : u8x , // 50% %s
1 :body, } , @rightPad (
'0' )
match msg_type as stringy
{00 // packet A { u8 x, }
:
string_ , 007 : Z9_
    10: zchar , 255 : leftPad, } , @lengthOf( crc
    )
@calculatedFrom( ""1""
) packetx	{
    A u `it's` ,
uint32 Packet@lengthOf(
    leftPad
) `
` , repeat u128 Pad , },
@lengthOf( f32a) @tag(
10)repeat  u8 Header
, T@lengthOf( Foo ) ,zchar[
//
// " ++ [27880; 37322]%N ++ runes_of_ascii "
0123456789] crc @calculatedFrom( ""it's""
    // c
    )
, char[4294967296 ]// trailing space 
lengthOf @calculatedFrom( ""a\\"" ) `say ""hi""` , }
//
")).
Eval vm_compute in ("<<<M1803>>>" ++ check (runes_of_ascii "
packet i8i8 {Foo
{char[]
    // 50% %s
    a1 @calculatedFrom( """ ++ [233]%N ++ runes_of_ascii "t" ++ [233]%N ++ runes_of_ascii """// @lengthOf(
) ,  float @calculatedFrom( ""{,}"") ,repeat u8 Foo // trailing space 
`` ,i64_ , } , string i64_`` ,	} options {	Z9_ = ' ' ; } options { u = // trailing space 
""packet""
    ;
stringy =
42 ; calculatedFrom =
i32 ;uint8x
    =
    true string_= true  ; // " ++ [27880; 37322]%N ++ runes_of_ascii "
}")).
Eval vm_compute in ("<<<M1835>>>" ++ check (runes_of_ascii "root packet
//x
//x
uint8x
{ @calculatedFrom(
    ""\" ++ [233]%N ++ runes_of_ascii """)
uint16 tag  `
` ,  @calculatedFrom(
""a\""b"") float32 lengthOf
`// not a comment` ,
    //	t
    metadata@calculatedFrom(""1""
    ) ,	@calculatedFrom( """ ++ [233]%N ++ runes_of_ascii "t" ++ [233]%N ++ runes_of_ascii """
    )@tag( 007 ) Z9_
// `tick` ""quote"" 'q'
//
`" ++ [28040; 24687; 31867; 22411]%N ++ runes_of_ascii "` , u32 roots
`say ""hi""` ,  repeat // " ++ [128512]%N ++ runes_of_ascii " emoji
float32 roots
, @calculatedFrom( ""abc"") repeat char[ 00 ]matchKey
, @leftPad ( ) string
msg_type @calculatedFrom(
    // a // b
    ""a\""b"" )  , x MetaDataX , @rightPad ( ' '
) u8x @lengthOf( u) //	t
,  }packet
    u8x// `tick` ""quote"" 'q'
{
    Pad Z9_
`` , // trailing space 
} MetaData falsey { calculatedFrom
BodyLength `
`,
/// triple
// `tick` ""quote"" 'q'
o body ,
}options { }	packet len//	t
{
}

")).
Eval vm_compute in ("<<<M1867>>>" ++ check (runes_of_ascii "packet matchKey { @lengthOf(
    int
// c
// a // b
)string_  T `{ , }` // @lengthOf(
, }
MetaData
    T { uint64 options1 `100% of %d`
,	zchar[7
] As ,} packet u128{	@calculatedFrom(
    // c
    ""packet"" ) @tag( 7
)@lengthOf( charz
//x
// trailing space 
) match body
    as
/// triple
//
stringy
{
    //
    ""\n""
    //x
    : metadata """" :crc,	[ 42 ] :	rootA , } , }
")).
Eval vm_compute in ("<<<M1899>>>" ++ check (runes_of_ascii "MetaData
Packet{
u16 chars , }

")).
Eval vm_compute in ("<<<M1931>>>" ++ check (runes_of_ascii "options { i8i8 =0123456789 len=char[] //	t
i8i8
= '0'
    matchKey=
""CRC32""
    // `tick` ""quote"" 'q'
    o
    ='0' }root //	t
packet len { }
root  packet tag {  repeat int8
msg_type  `{ , }`
    ,}")).
Eval vm_compute in ("<<<T1931>>>" ++ terms [mkTok 1 "options" 1 0 false; mkTok 2 "{" 1 8 false; mkTok 42 "i8i8" 1 10 false; mkTok 4 "=" 1 15 false; mkTok 30 "0123456789" 1 16 false; mkTok 42 "len" 1 27 false; mkTok 4 "=" 1 30 false; mkTok 16 "char[]" 1 31 false; mkTok 44 (string_of_bytes [47; 47; 9; 116]%N) 1 38 true; mkTok 42 "i8i8" 2 0 false; mkTok 4 "=" 3 0 false; mkTok 33 "'0'" 3 2 false; mkTok 42 "matchKey" 4 4 false; mkTok 4 "=" 4 12 false; mkTok 31 """CRC32""" 5 0 false; mkTok 44 "// `tick` ""quote"" 'q'" 6 4 true; mkTok 42 "o" 7 4 false; mkTok 4 "=" 8 4 false; mkTok 33 "'0'" 8 5 false; mkTok 3 "}" 8 9 false; mkTok 34 "root" 8 10 false; mkTok 44 (string_of_bytes [47; 47; 9; 116]%N) 8 15 true; mkTok 35 "packet" 9 0 false; mkTok 42 "len" 9 7 false; mkTok 2 "{" 9 11 false; mkTok 3 "}" 9 13 false; mkTok 34 "root" 10 0 false; mkTok 35 "packet" 10 6 false; mkTok 42 "tag" 10 13 false; mkTok 2 "{" 10 17 false; mkTok 36 "repeat" 10 20 false; mkTok 24 "int8" 10 27 false; mkTok 42 "msg_type" 11 0 false; mkTok 43 "`{ , }`" 11 10 false; mkTok 40 "," 12 4 false; mkTok 3 "}" 12 5 false; mkTok 0 "<EOF>" 12 6 false] (mkPacket (mkPtok 1 "options" 1 0 0) (Some (mkPtok 3 "}" 12 5 35)) [(DOption (mkOptionDef (mkSpan (mkPtok 1 "options" 1 0 0) (mkPtok 3 "}" 8 9 19)) (mkPtok 1 "options" 1 0 0) (mkPtok 2 "{" 1 8 1) [(mkOptionDecl (mkSpan (mkPtok 42 "i8i8" 1 10 2) (mkPtok 30 "0123456789" 1 16 4)) (mkPtok 42 "i8i8" 1 10 2) (mkPtok 4 "=" 1 15 3) (VDigits (mkSpan (mkPtok 30 "0123456789" 1 16 4) (mkPtok 30 "0123456789" 1 16 4)) (mkPtok 30 "0123456789" 1 16 4)) None); (mkOptionDecl (mkSpan (mkPtok 42 "len" 1 27 5) (mkPtok 16 "char[]" 1 31 7)) (mkPtok 42 "len" 1 27 5) (mkPtok 4 "=" 1 30 6) (VType (mkSpan (mkPtok 16 "char[]" 1 31 7) (mkPtok 16 "char[]" 1 31 7)) (TyDynamic (mkSpan (mkPtok 16 "char[]" 1 31 7) (mkPtok 16 "char[]" 1 31 7)) (mkDynamicString (mkSpan (mkPtok 16 "char[]" 1 31 7) (mkPtok 16 "char[]" 1 31 7)) (mkPtok 16 "char[]" 1 31 7)))) None); (mkOptionDecl (mkSpan (mkPtok 42 "i8i8" 2 0 9) (mkPtok 33 "'0'" 3 2 11)) (mkPtok 42 "i8i8" 2 0 9) (mkPtok 4 "=" 3 0 10) (VPaddingChar (mkSpan (mkPtok 33 "'0'" 3 2 11) (mkPtok 33 "'0'" 3 2 11)) (mkPtok 33 "'0'" 3 2 11)) None); (mkOptionDecl (mkSpan (mkPtok 42 "matchKey" 4 4 12) (mkPtok 31 """CRC32""" 5 0 14)) (mkPtok 42 "matchKey" 4 4 12) (mkPtok 4 "=" 4 12 13) (VString (mkSpan (mkPtok 31 """CRC32""" 5 0 14) (mkPtok 31 """CRC32""" 5 0 14)) (mkPtok 31 """CRC32""" 5 0 14)) None); (mkOptionDecl (mkSpan (mkPtok 42 "o" 7 4 16) (mkPtok 33 "'0'" 8 5 18)) (mkPtok 42 "o" 7 4 16) (mkPtok 4 "=" 8 4 17) (VPaddingChar (mkSpan (mkPtok 33 "'0'" 8 5 18) (mkPtok 33 "'0'" 8 5 18)) (mkPtok 33 "'0'" 8 5 18)) None)] (mkPtok 3 "}" 8 9 19))); (DPacket (mkPacketDef (mkSpan (mkPtok 34 "root" 8 10 20) (mkPtok 3 "}" 9 13 25)) (Some (mkPtok 34 "root" 8 10 20)) (mkPtok 35 "packet" 9 0 22) (mkPtok 42 "len" 9 7 23) (mkPtok 2 "{" 9 11 24) [] (mkPtok 3 "}" 9 13 25))); (DPacket (mkPacketDef (mkSpan (mkPtok 34 "root" 10 0 26) (mkPtok 3 "}" 12 5 35)) (Some (mkPtok 34 "root" 10 0 26)) (mkPtok 35 "packet" 10 6 27) (mkPtok 42 "tag" 10 13 28) (mkPtok 2 "{" 10 17 29) [(mkFieldWithAttr (mkSpan (mkPtok 36 "repeat" 10 20 30) (mkPtok 40 "," 12 4 34)) [] (MetaField (mkSpan (mkPtok 36 "repeat" 10 20 30) (mkPtok 40 "," 12 4 34)) (Some (mkPtok 36 "repeat" 10 20 30)) (mkMetaDecl (mkSpan (mkPtok 24 "int8" 10 27 31) (mkPtok 40 "," 12 4 34)) (TyBasic (mkSpan (mkPtok 24 "int8" 10 27 31) (mkPtok 24 "int8" 10 27 31)) (mkBasicType (mkSpan (mkPtok 24 "int8" 10 27 31) (mkPtok 24 "int8" 10 27 31)) (mkPtok 24 "int8" 10 27 31))) (mkPtok 42 "msg_type" 11 0 32) (Some (mkPtok 43 "`{ , }`" 11 10 33)) (mkPtok 40 "," 12 4 34))))] (mkPtok 3 "}" 12 5 35)))])).
Eval vm_compute in ("<<<M1963>>>" ++ check (runes_of_ascii "options // c
{ roots
=// @lengthOf(
""x y"" ; T =""it's""
    i8i8=
    4294967296 ; o
= f32 ;
float =' ' ;} root
packet
As{ match packetx
as calculatedFrom {00	: // a // b
zchar , ""{,}"" : msg_type
    //x
    , """ ++ [233]%N ++ runes_of_ascii "t" ++ [233]%N ++ runes_of_ascii """	: packetx , ""// no comment""  : len ,
[ // " ++ [27880; 37322]%N ++ runes_of_ascii "
1 , 1 , 255 , ""a\""b"" ,""" ++ [128512]%N ++ runes_of_ascii """, 255 , ""// no comment"" ]
    :  string_ , }
,	} // c
MetaData packetx {
    f32 packetx `u8 x,` , As
    i8i8`two words` ,Pad pack ,
    i8i8	Header `two words`
,  }
    // `tick` ""quote"" 'q'
    root  packet T {
repeatCount, @tag( 3 )
char[
    // `tick` ""quote"" 'q'
    7 ]
roots ,@calculatedFrom( """ ++ [233]%N ++ runes_of_ascii "t" ++ [233]%N ++ runes_of_ascii """
) pack {
    stringy zchar `tab	here` , char[] Header
    // " ++ [27880; 37322]%N ++ runes_of_ascii "
    `a\`,	Foo metadata `line1
line2` , f64 stringy @lengthOf(
    As )
    , } , }//
options { trueish =	'0' ;	packetx = ""`tick`""
//	t
// " ++ [128512]%N ++ runes_of_ascii " emoji
; // @lengthOf(
Header
= i8
; int =false ; o = char[ 00
    ]
    }")).
Eval vm_compute in ("<<<M1995>>>" ++ check (runes_of_ascii "packet x { repeat
string lengthOf
    `line1
line2`
, } // " ++ [128512]%N ++ runes_of_ascii " emoji")).
Eval vm_compute in ("<<<M2027>>>" ++ check (runes_of_ascii "MetaData repeatCount { `100% of %d` packetx,
} root packet  metadata {
char _x @lengthOf( trueish ), @leftPad
( ' '// " ++ [27880; 37322]%N ++ runes_of_ascii "
)/// triple
char[] len`doc` , // packet A { u8 x, }
repeatCount , }
")).
Eval vm_compute in ("<<<M2059>>>" ++ check (runes_of_ascii "MetaData repeatCount { float64 packetx,
} root packet  metadata 
char _x @lengthOf( trueish ), @leftPad
( ' '// " ++ [27880; 37322]%N ++ runes_of_ascii "
)/// triple
char[] len`doc` , // packet A { u8 x, }
repeatCount , }
")).
Eval vm_compute in ("<<<M2091>>>" ++ check (runes_of_ascii "MetaData repeatCount { float64 packetx,
} root packet  metadata {
char _x @lengthOf( trueish )@leftPad ,
( ' '// " ++ [27880; 37322]%N ++ runes_of_ascii "
)/// triple
char[] len`doc` , // packet A { u8 x, }
repeatCount , }
")).
Eval vm_compute in ("<<<M2123>>>" ++ check (runes_of_ascii "MetaData repeatCount { float64 packetx,
} root packet  metadata {
char _x @lengthOf( trueish ), @leftPad
( ' '// " ++ [27880; 37322]%N ++ runes_of_ascii "
)/// triple
char[]")).
Eval vm_compute in ("<<<M2155>>>" ++ check (runes_of_ascii "MetaData repeatCount { float64 packetx,
} root packet  @tag metadata {
char _x @lengthOf( trueish ), @leftPad
( ' '// " ++ [27880; 37322]%N ++ runes_of_ascii "
)/// triple
char[] len`doc` , // packet A { u8 x, }
repeatCount , }
")).
Eval vm_compute in ("<<<M2187>>>" ++ check (runes_of_ascii "options{
leftPad
    65535=
;
a1 = true ; packetx=  '\x00' ; packetx
=  """ ++ [28040; 24687]%N ++ runes_of_ascii """MetaDataX= // " ++ [27880; 37322]%N ++ runes_of_ascii "
false }root // c
packet // packet A { u8 x, }
Pad { repeat
u8 Header
// packet A { u8 x, }
//	t
`{ , }`
// a // b
//x
, }
")).
Eval vm_compute in ("<<<M2219>>>" ++ check (runes_of_ascii "options{
leftPad
    =65535
;
a1 = true")).
Eval vm_compute in ("<<<M2251>>>" ++ check (runes_of_ascii "options{
leftPad
    =65535
;
a1 = true ; packetx=  '\x00' ; packetx
=  """ ++ [28040; 24687]%N ++ runes_of_ascii """ """ ++ [28040; 24687]%N ++ runes_of_ascii """MetaDataX= // " ++ [27880; 37322]%N ++ runes_of_ascii "
false }root // c
packet // packet A { u8 x, }
Pad { repeat
u8 Header
// packet A { u8 x, }
//	t
`{ , }`
// a // b
//x
, }
")).
Eval vm_compute in ("<<<M2283>>>" ++ check (runes_of_ascii "options{
leftPad
    =65535
;
a1 = true ; packetx=  '\x00' ; packetx
=  """ ++ [28040; 24687]%N ++ runes_of_ascii """MetaDataX= // " ++ [27880; 37322]%N ++ runes_of_ascii "
false }root // c
zchar[ // packet A { u8 x, }
Pad { repeat
u8 Header
// packet A { u8 x, }
//	t
`{ , }`
// a // b
//x
, }
")).
Eval vm_compute in ("<<<M2315>>>" ++ check (runes_of_ascii "options{
leftPad
    =65535
;
a1 = true ; packetx=  '\x00' ; packetx
=  """ ++ [28040; 24687]%N ++ runes_of_ascii """MetaDataX= // " ++ [27880; 37322]%N ++ runes_of_ascii "
false }root // c
packet // packet A { u8 x, }
Pad { repeat
u8 Header
// packet A { u8 x, }
//	t
`{ , }`
// a // b
//x
 }
")).
Eval vm_compute in ("<<<M2347>>>" ++ check (runes_of_ascii "
packet packet float
{	@calculatedFrom( """ ++ [233]%N ++ runes_of_ascii "t" ++ [233]%N ++ runes_of_ascii """ )
@rightPad ( '\x00' )
    @calculatedFrom( ""x y"" ) string chars  ,
    // a // b
    char[0 ]
    u	@lengthOf( i8i8 ) `{ , }` ,repeat char[] o //x
`// not a comment`, } // c")).
Eval vm_compute in ("<<<M2379>>>" ++ check (runes_of_ascii "
packet float
{	@calculatedFrom( """ ++ [233]%N ++ runes_of_ascii "t" ++ [233]%N ++ runes_of_ascii """ )
zchar[ ( '\x00' )
    @calculatedFrom( ""x y"" ) string chars  ,
    // a // b
    char[0 ]
    u	@lengthOf( i8i8 ) `{ , }` ,repeat char[] o //x
`// not a comment`, } // c")).
Eval vm_compute in ("<<<M2411>>>" ++ check (runes_of_ascii "
packet float
{	@calculatedFrom( """ ++ [233]%N ++ runes_of_ascii "t" ++ [233]%N ++ runes_of_ascii """ )
@rightPad ( '\x00' )
    @calculatedFrom( ""x y"" )  chars  ,
    // a // b
    char[0 ]
    u	@lengthOf( i8i8 ) `{ , }` ,repeat char[] o //x
`// not a comment`, } // c")).
Eval vm_compute in ("<<<M2443>>>" ++ check (runes_of_ascii "
packet float
{	@calculatedFrom( """ ++ [233]%N ++ runes_of_ascii "t" ++ [233]%N ++ runes_of_ascii """ )
@rightPad ( '\x00' )
    @calculatedFrom( ""x y"" ) string chars  ,
    // a // b
    char[0 ]
    @lengthOf(	u i8i8 ) `{ , }` ,repeat char[] o //x
`// not a comment`, } // c")).
Eval vm_compute in ("<<<M2475>>>" ++ check (runes_of_ascii "
packet float
{	@calculatedFrom( """ ++ [233]%N ++ runes_of_ascii "t" ++ [233]%N ++ runes_of_ascii """ )
@rightPad ( '\x00' )
    @calculatedFrom( ""x y"" ) string chars  ,
    // a // b
    char[0 ]
    u	@lengthOf( i8i8 ) `{ , }` ,")).
Eval vm_compute in ("<<<M2507>>>" ++ check (runes_of_ascii "
packet float
{	@calculatedFrom( """ ++ [233]%N ++ runes_of_ascii "t" ++ [233]%N ++ runes_of_ascii """ @tag)
@rightPad ( '\x00' )
    @calculatedFrom( ""x y"" ) string chars  ,
    // a // b
    char[0 ]
    u	@lengthOf( i8i8 ) `{ , }` ,repeat char[] o //x
`// not a comment`, } // c")).
Eval vm_compute in ("<<<M2539>>>" ++ check (runes_of_ascii "root packet u128 repeat
    {
    zchar[ 65535 ] u `" ++ [28040; 24687; 31867; 22411]%N ++ runes_of_ascii "` ,// `tick` ""quote"" 'q'
} packet i64_ {repeatCount
    `
` ,	} // " ++ [128512]%N ++ runes_of_ascii " emoji")).
Eval vm_compute in ("<<<M2571>>>" ++ check (runes_of_ascii "root packet u128{
    repeat
    zchar[ 65535 ] u")).
Eval vm_compute in ("<<<M2603>>>" ++ check (runes_of_ascii "root packet u128{
    repeat
    zchar[ 65535 ] u `" ++ [28040; 24687; 31867; 22411]%N ++ runes_of_ascii "` ,// `tick` ""quote"" 'q'
} packet i64_ {repeatCount
    `
` `
` ,	} // " ++ [128512]%N ++ runes_of_ascii " emoji")).
Eval vm_compute in ("<<<M2635>>>" ++ check (runes_of_ascii "root packet u128{
    repeat
    zchar[ 65535 ] u `" ++ [28040; 24687; 31867; 22411]%N ++ runes_of_ascii "` ,// `tick` ""quote"" 'q'
} packet i64_ {" ++ [252]%N ++ runes_of_ascii "ber
    `
` ,	} // " ++ [128512]%N ++ runes_of_ascii " emoji")).
Eval vm_compute in ("<<<M2667>>>" ++ check (runes_of_ascii "
MetaData
roots { int8
    BodyLength")).
Eval vm_compute in ("<<<M2699>>>" ++ check (runes_of_ascii "options Packet = ""CRC32""i8i8 = false; leftPad =
    '\x00'
    // `tick` ""quote"" 'q'
    ; o=255  ;
    // packet A { u8 x, }
    }")).
Eval vm_compute in ("<<<M2731>>>" ++ check (runes_of_ascii "options {Packet = ""CRC32""i8i8 = ;false leftPad =
    '\x00'
    // `tick` ""quote"" 'q'
    ; o=255  ;
    // packet A { u8 x, }
    }")).
Eval vm_compute in ("<<<M2763>>>" ++ check (runes_of_ascii "options {Packet = ""CRC32""i8i8 = false; leftPad =
    '\x00'
    // `tick` ""quote"" 'q'
    ;")).
Eval vm_compute in ("<<<M2795>>>" ++ check (runes_of_ascii "options {Packet = ""CRC32""i8i8 = false; leftPad" ++ [65279]%N ++ runes_of_ascii " =
    '\x00'
    // `tick` ""quote"" 'q'
    ; o=255  ;
    // packet A { u8 x, }
    }")).
Eval vm_compute in ("<<<M2827>>>" ++ check (runes_of_ascii "
packet metadata { @rightPad ' '
    // packet A { u8 x, }
    ( ) repeat u32	A
,matchKey ,
    @lengthOf( string_ ) @lengthOf( body )
    // a // b
    @lengthOf(float  )	repeat
int32 u8x
    // c
    `tab	here`
, } // a // b")).
Eval vm_compute in ("<<<M2859>>>" ++ check (runes_of_ascii "
packet metadata { @rightPad (
    // packet A { u8 x, }
    ' ' ) repeat u32	A")).
Eval vm_compute in ("<<<M2891>>>" ++ check (runes_of_ascii "
packet metadata { @rightPad (
    // packet A { u8 x, }
    ' ' ) repeat u32	A
,matchKey ,
    @lengthOf( string_ ) @lengthOf( body body )
    // a // b
    @lengthOf(float  )	repeat
int32 u8x
    // c
    `tab	here`
, } // a // b")).
Eval vm_compute in ("<<<M2923>>>" ++ check (runes_of_ascii "
packet metadata { @rightPad (
    // packet A { u8 x, }
    ' ' ) repeat u32	A
,matchKey ,
    @lengthOf( string_ ) @lengthOf( body )
    // a // b
    @lengthOf(float  )	repeat
] u8x
    // c
    `tab	here`
, } // a // b")).
Eval vm_compute in ("<<<M2955>>>" ++ check (runes_of_ascii "
packet metadata ?{ @rightPad (
    // packet A { u8 x, }
    ' ' ) repeat u32	A
,matchKey ,
    @lengthOf( string_ ) @lengthOf( body )
    // a // b
    @lengthOf(float  )	repeat
int32 u8x
    // c
    `tab	here`
, } // a // b")).
Eval vm_compute in ("<<<M2987>>>" ++ check (runes_of_ascii "packet x{
string
zchar zchar , //	t
}
")).
Eval vm_compute in ("<<<M3019>>>" ++ check (runes_of_ascii "packet a" ++ [769]%N ++ runes_of_ascii "b{
string
zchar , //	t
}
")).
Eval vm_compute in ("<<<M3051>>>" ++ check (runes_of_ascii "
MetaData Logon
{ // c
}root")).
Eval vm_compute in ("<<<M3083>>>" ++ check (runes_of_ascii "
MetaData Logon
{ // c
}root packet
    Pad {
    } options
{
u
    = =
    ""CRC32""
    // " ++ [128512]%N ++ runes_of_ascii " emoji
    i64_ = u16;
T =65535 x = ' '
    ; u128
= true ; }")).
Eval vm_compute in ("<<<M3115>>>" ++ check (runes_of_ascii "
MetaData Logon
{ // c
}root packet
    Pad {
    } options
{
u
    =
    ""CRC32""
    // " ++ [128512]%N ++ runes_of_ascii " emoji
    i64_ = u16;
string =65535 x = ' '
    ; u128
= true ; }")).
Eval vm_compute in ("<<<M3147>>>" ++ check (runes_of_ascii "
MetaData Logon
{ // c
}root packet
    Pad {
    } options
{
u
    =
    ""CRC32""
    // " ++ [128512]%N ++ runes_of_ascii " emoji
    i64_ = u16;
T =65535 x = ' '
    ; 
= true ; }")).
Eval vm_compute in ("<<<M3179>>>" ++ check (runes_of_ascii "
MetaData Logon
{ // c
}root packet
    Pad {
    } options
{
u
    =
    ""CRC32""
    //\ " ++ [128512]%N ++ runes_of_ascii " emoji
    i64_ = u16;
T =65535 x = ' '
    ; u128
= true ; }")).
Eval vm_compute in ("<<<T3179>>>" ++ terms [mkTok 37 "MetaData" 2 0 false; mkTok 42 "Logon" 2 9 false; mkTok 2 "{" 3 0 false; mkTok 44 "// c" 3 2 true; mkTok 3 "}" 4 0 false; mkTok 34 "root" 4 1 false; mkTok 35 "packet" 4 6 false; mkTok 42 "Pad" 5 4 false; mkTok 2 "{" 5 8 false; mkTok 3 "}" 6 4 false; mkTok 1 "options" 6 6 false; mkTok 2 "{" 7 0 false; mkTok 42 "u" 8 0 false; mkTok 4 "=" 9 4 false; mkTok 31 """CRC32""" 10 4 false; mkTok 44 (string_of_bytes [47; 47; 92; 32; 240; 159; 152; 128; 32; 101; 109; 111; 106; 105]%N) 11 4 true; mkTok 42 "i64_" 12 4 false; mkTok 4 "=" 12 9 false; mkTok 21 "u16" 12 11 false; mkTok 41 ";" 12 14 false; mkTok 42 "T" 13 0 false; mkTok 4 "=" 13 2 false; mkTok 30 "65535" 13 3 false; mkTok 42 "x" 13 9 false; mkTok 4 "=" 13 11 false; mkTok 33 "' '" 13 13 false; mkTok 41 ";" 14 4 false; mkTok 42 "u128" 14 6 false; mkTok 4 "=" 15 0 false; mkTok 10 "true" 15 2 false; mkTok 41 ";" 15 7 false; mkTok 3 "}" 15 9 false; mkTok 0 "<EOF>" 15 10 false] (mkPacket (mkPtok 37 "MetaData" 2 0 0) (Some (mkPtok 3 "}" 15 9 31)) [(DMeta (mkMetaDef (mkSpan (mkPtok 37 "MetaData" 2 0 0) (mkPtok 3 "}" 4 0 4)) (mkPtok 37 "MetaData" 2 0 0) (mkPtok 42 "Logon" 2 9 1) (mkPtok 2 "{" 3 0 2) [] (mkPtok 3 "}" 4 0 4))); (DPacket (mkPacketDef (mkSpan (mkPtok 34 "root" 4 1 5) (mkPtok 3 "}" 6 4 9)) (Some (mkPtok 34 "root" 4 1 5)) (mkPtok 35 "packet" 4 6 6) (mkPtok 42 "Pad" 5 4 7) (mkPtok 2 "{" 5 8 8) [] (mkPtok 3 "}" 6 4 9))); (DOption (mkOptionDef (mkSpan (mkPtok 1 "options" 6 6 10) (mkPtok 3 "}" 15 9 31)) (mkPtok 1 "options" 6 6 10) (mkPtok 2 "{" 7 0 11) [(mkOptionDecl (mkSpan (mkPtok 42 "u" 8 0 12) (mkPtok 31 """CRC32""" 10 4 14)) (mkPtok 42 "u" 8 0 12) (mkPtok 4 "=" 9 4 13) (VString (mkSpan (mkPtok 31 """CRC32""" 10 4 14) (mkPtok 31 """CRC32""" 10 4 14)) (mkPtok 31 """CRC32""" 10 4 14)) None); (mkOptionDecl (mkSpan (mkPtok 42 "i64_" 12 4 16) (mkPtok 41 ";" 12 14 19)) (mkPtok 42 "i64_" 12 4 16) (mkPtok 4 "=" 12 9 17) (VType (mkSpan (mkPtok 21 "u16" 12 11 18) (mkPtok 21 "u16" 12 11 18)) (TyBasic (mkSpan (mkPtok 21 "u16" 12 11 18) (mkPtok 21 "u16" 12 11 18)) (mkBasicType (mkSpan (mkPtok 21 "u16" 12 11 18) (mkPtok 21 "u16" 12 11 18)) (mkPtok 21 "u16" 12 11 18)))) (Some (mkPtok 41 ";" 12 14 19))); (mkOptionDecl (mkSpan (mkPtok 42 "T" 13 0 20) (mkPtok 30 "65535" 13 3 22)) (mkPtok 42 "T" 13 0 20) (mkPtok 4 "=" 13 2 21) (VDigits (mkSpan (mkPtok 30 "65535" 13 3 22) (mkPtok 30 "65535" 13 3 22)) (mkPtok 30 "65535" 13 3 22)) None); (mkOptionDecl (mkSpan (mkPtok 42 "x" 13 9 23) (mkPtok 41 ";" 14 4 26)) (mkPtok 42 "x" 13 9 23) (mkPtok 4 "=" 13 11 24) (VPaddingChar (mkSpan (mkPtok 33 "' '" 13 13 25) (mkPtok 33 "' '" 13 13 25)) (mkPtok 33 "' '" 13 13 25)) (Some (mkPtok 41 ";" 14 4 26))); (mkOptionDecl (mkSpan (mkPtok 42 "u128" 14 6 27) (mkPtok 41 ";" 15 7 30)) (mkPtok 42 "u128" 14 6 27) (mkPtok 4 "=" 15 0 28) (VTrue (mkSpan (mkPtok 10 "true" 15 2 29) (mkPtok 10 "true" 15 2 29)) (mkPtok 10 "true" 15 2 29)) (Some (mkPtok 41 ";" 15 7 30)))] (mkPtok 3 "}" 15 9 31)))])).
Eval vm_compute in ("<<<M3211>>>" ++ check (runes_of_ascii "MetaData body{(
packet	Packet { x_y_z @calculatedFrom(  ""a\\"")// `tick` ""quote"" 'q'
, }
")).
Eval vm_compute in ("<<<M3243>>>" ++ check (runes_of_ascii "MetaData body{}
packet	Packet { x_y_z @calculatedFrom(  ""a\\""// `tick` ""quote"" 'q'
, }
")).
Eval vm_compute in ("<<<M3275>>>" ++ check (runes_of_ascii "MetaData body{}
packet	Packet { x_y_z @calculatedFrom(  ""a\\""|)// `tick` ""quote"" 'q'
, }
")).
Eval vm_compute in ("<<<M3307>>>" ++ check (runes_of_ascii "packet f32a {} root options len {repeat u // " ++ [128512]%N ++ runes_of_ascii " emoji
`{ , }` , }
")).
Eval vm_compute in ("<<<M3339>>>" ++ check (runes_of_ascii "packet f32a {} root packet len {repeat u // " ++ [128512]%N ++ runes_of_ascii " emoji
`{ , }` , 
")).
Eval vm_compute in ("<<<M3371>>>" ++ check (runes_of_ascii "options{ _x=""\" ++ [233]%N ++ runes_of_ascii """;
    Logon = 10	; Foo= 7;
i64_= char[]} options {
matchKey = ""// no comment"" // a // b
falsey = string
; trueish =
    4294967296
options1=
    ""it's"" s" ++ [0]%N ++ runes_of_ascii "tring_	= true } options {
    /// triple
    }")).
Eval vm_compute in ("<<<M3403>>>" ++ check (runes_of_ascii "options{ _x=""\" ++ [233]%N ++ runes_of_ascii """;
    Logon = 10	; Foo= 7;
i64_= char[]} options {
matchKey = ""// no comment"" // a // b
falsey = string
; trueish =
    4294967296
options1 options1=
    ""it's"" string_	= true } options {
    /// triple
    }")).
Eval vm_compute in ("<<<M3435>>>" ++ check (runes_of_ascii "options{ _x=""\" ++ [233]%N ++ runes_of_ascii """;
    Logon = 10	;")).
Eval vm_compute in ("<<<M3467>>>" ++ check (runes_of_ascii "options{ _x=""\" ++ [233]%N ++ runes_of_ascii """;
    Logon = 10	; Foo= 7;
i64_= char[]} { options
matchKey = ""// no comment"" // a // b
falsey = string
; trueish =
    4294967296
options1=
    ""it's"" string_	= true } options {
    /// triple
    }")).
Eval vm_compute in ("<<<M3499>>>" ++ check (runes_of_ascii "zchar")).
Eval vm_compute in ("<<<M3531>>>" ++ check (runes_of_ascii "Metadata")).
Eval vm_compute in ("<<<M3563>>>" ++ check (runes_of_ascii "/")).
Eval vm_compute in ("<<<M3595>>>" ++ check (runes_of_ascii "1 2")).
Eval vm_compute in ("<<<M3627>>>" ++ check (runes_of_ascii "packet A { repeat x @lengthOf(y), }")).
Eval vm_compute in ("<<<M3659>>>" ++ check (runes_of_ascii "packet A { x @tag(1), }")).
Eval vm_compute in ("<<<M3691>>>" ++ check (runes_of_ascii "packet A { @leftPad('0' u8 x, }")).
Eval vm_compute in ("<<<M3723>>>" ++ check (runes_of_ascii "MetaData M { match k as n { 1 : B }, }")).
Eval vm_compute in ("<<<M3755>>>" ++ check (runes_of_ascii "		")).
Eval vm_compute in ("<<<M3787>>>" ++ check (runes_of_ascii "options char[ uint8 char[ '0' [ match :")).
Eval vm_compute in ("<<<M3819>>>" ++ check (runes_of_ascii ", u8 match int16 zchar[")).
Eval vm_compute in ("<<<M3851>>>" ++ check (runes_of_ascii "zchar[ ' ' string @rightPad , char[] false @leftPad { u64 match uint64 string")).
Eval vm_compute in ("<<<M3883>>>" ++ check (runes_of_ascii "i8 @lengthOf( repeat ) f64 , u64 zchar[ char[ int64")).
Eval vm_compute in ("<<<M3915>>>" ++ check (runes_of_ascii "u32 false , as :")).
Eval vm_compute in ("<<<M3947>>>" ++ check (runes_of_ascii "@lengthOf( true string '0' } char[ Header root")).
Eval vm_compute in ("<<<M3979>>>" ++ check (runes_of_ascii "7 @tag( u16 ; @tag( repeat root ) ; options")).
