From FP Require Import Lexer Parser ShowPT Digest Formatter.
From Coq Require Import String List NArith.
Import ListNotations.
Open Scope string_scope.
Set Printing Width 100000000.
Set Printing Depth 100000000.
Definition show_fres (r : fres) : string :=
  match r with
  | FOk s => "OK:" ++ sh_escaped s ""
  | FErr s => "ERR:" ++ sh_escaped s ""
  | FPanic p => "PANIC:" ++ p
  end.
Definition check (rs : list rune) : string := digest (show_fres (format_res rs)).
Definition full (rs : list rune) : string := show_fres (format_res rs).
Eval vm_compute in ("<<<M3661>>>" ++ check (runes_of_ascii "options {
    ArrayPrefixLenType = u16;
    FixedStringPadFromLeft = true;
    JavaPackage = ""co\
m.example.msg"";
    GoPackage = ""ms\
g"";
    GoModule = ""example.com/msg"";
}
MetaData Meta {
    u32 SeqNum `sequence number`,
    char[8] Symbol `symbol`,
    zchar[5] ZSym `z symbol`,
    string Note,
    Symbol AltSymbol `alias of symbol`,
    f64 Price,
}
packet Inner {
    u8 a,
    i16 b,
    string c,
}
packet Inner2 {
    u8 a2,
    char[3] c2,
}
packet Logon {
    u8 x,
    string user,
    repeat u16 codes,
}
packet Logout {
    u16 reason,
}
packet Empty {
}
root packet Msg {
    u8 su8,
    uint8 luint8,
    u16 su16,
    uint16 luint16,
    u32 su32,
    uint32 luint32,
    u64 su64,
    uint64 luint64,
    i8 si8,
    int8 lint8,
    i16 si16,
    int16 lint16,
    i32 si32,
    int32 lint32,
    i64 si64,
    int64 lint64,
    f32 sf32,
    float32 lfloat32,
    f64 sf64,
    float64 lfloat64,
    char[6] fsplain,
    @leftPad('0') char[4] fs0,
    @rightPad('0') char[5] fs1,
    @leftPad(' ') char[6] fs2,
    @rightPad(' ') char[7] fs3,
    @leftPad('\x00') char[8] fs4,
    @rightPad('\x00') char[9] fs5,
    @leftPad() char[10] fs6,
    @rightPad() char[11] fs7,
    zchar[7] fz,
    @leftPad('0') zchar[3] fzl0,
    string s1 `doc`,
    char[] s2,
    Inner,
    Sub {
        u8 q,
        string w,
        Deep {
            u16 z,
            repeat i32 zs,
        },
    },
    repeat u8 ru8,
    repeat u16 ru16,
    repeat u32 ru32,
    repeat u64 ru64,
    repeat i8 ri8,
    repeat i16 ri16,
    repeat i32 ri32,
    repeat i64 ri64,
    repeat f32 rf32,
    repeat f64 rf64,
    repeat string rstr,
    repeat char[] rstr2,
    repeat char[3] rfs,
    repeat zchar[3] rfz,
    repeat Inner2,
    repeat Grp {
        u8 k,
        char[2] v,
    },
    SeqNum,
    SeqNum seq2,
    repeat SeqNum seqs,
    Symbol,
    AltSymbol alt,
    ZSym,
    Note,
    repeat Symbol syms,
    Price px,
    u16 MsgType,
    u32 BodyLen @lengthOf(Body),
    match MsgType as Body {
        1 : Logon,
        [2, 3] : Logout,
        7 : Logon,
        9 : Empty,
    },
    u32 Checksum @calculatedFrom(""CRC32""),
}
")).
Eval vm_compute in ("<<<M697>>>" ++ check (runes_of_ascii "MetaData	leftPad { Header
    falsey ,} packet x_y_z	{  @calculatedFrom( ""`tick`"" )
@rightPad // `tick` ""quote"" 'q'
( '\x00'
) match matchKey
    as
As {
[	""CRC32"" , ""\n""]/// triple
:	Logon ,
[ 007, """ ++ [28040; 24687]%N ++ runes_of_ascii """,
""" ++ [28040; 24687]%N ++ runes_of_ascii """ , """ ++ [128512]%N ++ runes_of_ascii """ ,
0123456789 ]://	t
x [1 ] : /// triple
i8i8
, ""`tick`"": u8x
    , } ,
int64
    _x `tab	here`
    // trailing space 
    ,
    @rightPad( ) char[ 255 ] uint8x `a\`  , string string_ //x
,
    repeat int16 packetx
,// " ++ [27880; 37322]%N ++ runes_of_ascii "
@rightPad
(' ' ) string
    string_ ,
i16 asx @lengthOf(
// " ++ [128512]%N ++ runes_of_ascii " emoji
// trailing space 
int )`// not a comment`
,
float32
uint8x , i8 i64_ @calculatedFrom( ""\n"")
    // packet A { u8 x, }
    ,
}
packet	T { string_
// a // b
// @lengthOf(
@lengthOf(
    A  ) `{ , }` , @calculatedFrom( """" ) match	Pad	as u {
[ ""1"" // " ++ [128512]%N ++ runes_of_ascii " emoji
, ""1"" ] : body,
    [ 0123456789
, ""a\\"",
/// triple
// trailing space 
""" ++ [128512]%N ++ runes_of_ascii """ , ""it's""
,
""it's""	]:
    lengthOf , """ ++ [128512]%N ++ runes_of_ascii """ :	A , [ 0123456789
// c
/// triple
, 3] : rootA , 4294967296
: rootA } , string metadata
@lengthOf(
    A  )
    // packet A { u8 x, }
    ,
@lengthOf( msg_type
) @rightPad( ' ' )  @rightPad (
    )f64	u128
@lengthOf(  rootA
/// triple
// @lengthOf(
) `{ , }` ,} packet  int  {@tag(
255
    // a // b
    ) @rightPad (
    ' ') repeat
char[10 ] u128, @calculatedFrom(
""\" ++ [233]%N ++ runes_of_ascii """
    ) char[ 007
] calculatedFrom
    , @rightPad('\x00' ) repeat zchar[ 007	] i8i8,
@calculatedFrom(
    ""// no comment"" ) char[] x_y_z , zchar[
    // trailing space 
    0123456789 ] msg_type @calculatedFrom( ""a\""b"" ) ,u8 f32a  @lengthOf( rootA ) `crlf
line`	, zchar[	7 // " ++ [128512]%N ++ runes_of_ascii " emoji
]
msg_type	@lengthOf(
    Header
)`// not a comment` ,
char[ 42 ]roots
`" ++ [233]%N ++ runes_of_ascii "` //
, @lengthOf(  stringy  )	@lengthOf( As )
// trailing space 
// " ++ [128512]%N ++ runes_of_ascii " emoji
zchar[7
    ] msg_type // " ++ [128512]%N ++ runes_of_ascii " emoji
`{ , }`	,	}
    root
packet u{ // c
repeat uint64 As, } 	 ")).
Eval vm_compute in ("<<<M322>>>" ++ check (runes_of_ascii "
packet
metadata {
i8 BodyLength,
asx `two words`  ,char[ 0123456789] asx`" ++ [28040; 24687; 31867; 22411]%N ++ runes_of_ascii "`// " ++ [128512]%N ++ runes_of_ascii " emoji
, @tag(
42/// triple
)
    repeat	charz `crlf
line` ,
body ,@tag( 65535  ) match
    // " ++ [128512]%N ++ runes_of_ascii " emoji
    Pad as x_y_z  { ""{,}"" :
u , } ,
    repeat Foo
    {repeat pack {
// `tick` ""quote"" 'q'
// `tick` ""quote"" 'q'
f32 calculatedFrom
    @lengthOf( options1
    )
,
//x
// c
}
, int32 Header @calculatedFrom(""a	b"")
, char[]
zchar
    `
`
    ,
    zchar[00 ]a1 @calculatedFrom(
    // c
    ""{,}"") `crlf
line` , }
,
    body zchar ,i64_ @calculatedFrom( ""a\\""  )
, // " ++ [27880; 37322]%N ++ runes_of_ascii "
match
/// triple
// " ++ [27880; 37322]%N ++ runes_of_ascii "
zchar
as zchar {	1 : u128
    ,
255
: packetx, [""{,}"" ,""// no comment"",  0 , 65535 ,  3 ] :  u8x, 0123456789:  calculatedFrom // `tick` ""quote"" 'q'
, 10 : Header	,
}
    ,
}packet string_
{ @tag( 10 ) T, @calculatedFrom(""CRC32""//	t
)@lengthOf(charz )@lengthOf(
zchar) zchar[
42
    ] // a // b
a1 `" ++ [233]%N ++ runes_of_ascii "` , int32 x `two words` //
, float32 repeatCount ,
    //
    @lengthOf(
    Packet) @rightPad('0'	) // @lengthOf(
@calculatedFrom(""a\""b"") zchar[ 0 ]	repeatCount @lengthOf(
BodyLength  ) // trailing space 
, float,
repeat
zchar
// trailing space 
//x
,} root packet body
{  @lengthOf(msg_type) repeat
    u128 {// trailing space 
char[
// " ++ [128512]%N ++ runes_of_ascii " emoji
//
0123456789 ]options1
,
}	, //	t
f64
    u128`it's`	,// @lengthOf(
repeat  i64 charz ,
@calculatedFrom( """ ++ [128512]%N ++ runes_of_ascii """ )
    repeat char
    roots, } packet
metadata // @lengthOf(
{ // trailing space 
@lengthOf( // packet A { u8 x, }
BodyLength ) @tag( 4294967296  ) f32a
A
, } MetaData u128 { } //")).
Eval vm_compute in ("<<<M360>>>" ++ check (runes_of_ascii "root packet falsey { @lengthOf(Pad	)repeatCount
    @calculatedFrom( ""1"")
    ,@calculatedFrom( """"
)
@lengthOf(
stringy ) A
leftPad , @calculatedFrom(""{,}""
    ) // " ++ [128512]%N ++ runes_of_ascii " emoji
f32 calculatedFrom `{ , }` , char[007
    ] a1,
repeat char[ 007 ] repeatCount`it's`
, char[] pack `line1
line2`, } packet // " ++ [128512]%N ++ runes_of_ascii " emoji
trueish{ repeat zchar[10 ]options1 `a\`
,  roots@calculatedFrom(
""" ++ [128512]%N ++ runes_of_ascii """	) `{ , }`
,  @calculatedFrom(	""a\""b""	)
_x _x `
` , //x
i8 pack
    , @lengthOf(  string_ )
match charz
as
repeatCount
{[
0123456789 ]
    : x// a // b
,255:
    Foo, [ 0123456789 , ""1"" ] : f32a """" :
    // " ++ [128512]%N ++ runes_of_ascii " emoji
    len
,	[0 ,
0123456789 ,""a\\"" ,65535]
    : int ,[""packet"" , ""1"" ,65535 ,  ""a\""b""
    ,	4294967296
, ""x y""
    , ""// no comment"" ]
: calculatedFrom , // trailing space 
},
@calculatedFrom( // " ++ [27880; 37322]%N ++ runes_of_ascii "
""" ++ [28040; 24687]%N ++ runes_of_ascii """
)Pad int  `tab	here`,
} packet // c
As
{
    options1
,  @lengthOf( int // a // b
)int8
options1 @lengthOf( u8x)
`crlf
line`, } packet falsey { @rightPad ( ) char[ 3] o
    , }root
packet
    // @lengthOf(
    _x {@tag( 42
) trueish
    @calculatedFrom(
""" ++ [128512]%N ++ runes_of_ascii """ )
`
` , f32a `crlf
line` , match
rootA as stringy  { // trailing space 
[ ""packet""
    ,
//
// " ++ [27880; 37322]%N ++ runes_of_ascii "
"""" ]:
    uint8x ,  ""\" ++ [233]%N ++ runes_of_ascii """
: uint8x , [""\n"" ,1 ]
    : zchar // packet A { u8 x, }
, 255:
// `tick` ""quote"" 'q'
//
int ,[ ""packet""]: roots }
, repeat u16 // c
x_y_z// a // b
`// not a comment` , }")).
Eval vm_compute in ("<<<M4100>>>" ++ check (runes_of_ascii "
root packet roots	{
	repeat
rootA
	`{ , }` ,

BodyLength , @lengthOf( 
int)  u64  pack

`// not a comment`

,  chars@lengthOf(
    crc)  // packet A { u8 x, }
    , 
	// @lengthOf(
  // `tick` ""quote"" 'q'
	  tag

    `u8 x,`

    ,match x_y_z  as  chars 
{	// " ++ [128512]%N ++ runes_of_ascii " emoji

[
    65535
,
    ""x y""	// a // b
  	, 10
	,
	4294967296 ]
:	//x
  repeatCount ,[	255 ] // @lengthOf(
: i8i8 
, 4294967296 :
metadata 
,
[	10 ,
""""
	,255

,

0 , ""abc"" ,	10]
: 
rootA
// @lengthOf(

	,
[ ""1""  ,""1""
	]

: 
uint8x ,
	[""""  , 
10 
	// trailing space 

  ]
: 
options1,	},
}
packet trueish { uint16 i64_
,

    }
packet	zchar	{Logon
{
	// " ++ [27880; 37322]%N ++ runes_of_ascii "

	// @lengthOf(
	match	pack as 
asx 
{
	[

    1,  // `tick` ""quote"" 'q'
10]

: Logon ,[

    7] :

pack, [42 
,	""// no comment"" ,7 , 00 ,

65535  ]:	x , //
	  ""1"":	uint8x ,  """"  :  A  65535
	:
    u8x
    }

    ,

    } ,
x 
`u8 x,`, @tag(	65535)

string
    stringy`say ""hi""`
	,
	repeat uint16 leftPad `
`
    ,

match
options1	as
    Foo { ""abc"" :
falsey
    ,
3 : T , }

    , zchar[ 
4294967296
]charz
@lengthOf( As

    ),
i64
    Packet ,
	@lengthOf( MetaDataX ) @lengthOf(metadata )@calculatedFrom(
""" ++ [128512]%N ++ runes_of_ascii """ )  uint8

T@calculatedFrom(""" ++ [128512]%N ++ runes_of_ascii """
)`" ++ [233]%N ++ runes_of_ascii "` ,
	} // `tick` ""quote"" 'q'")).
Eval vm_compute in ("<<<M4181>>>" ++ check (runes_of_ascii "options
{
Packet 
=  ""packet""
    len=

    ""packet"" ;charz

= 
true 
}	packet
	calculatedFrom// c
	{
//	t
    	// a // b

	repeat// " ++ [27880; 37322]%N ++ runes_of_ascii "

	Packet
,
    uint8x @calculatedFrom(
// @lengthOf(

	// `tick` ""quote"" 'q'
    	""\n"" )
    ,@calculatedFrom(""// no comment"" )
    @rightPad	/// triple
  (' '
    )match
    x 
	//x
  //	t
    as

Packet	{ 
00
: Pad	[
	0]  :  // @lengthOf(

  As,

    } 
,

@lengthOf( chars )a1  `it's`

    , match Logon

as  int
	{
""packet""
:	int

[  """ ++ [28040; 24687]%N ++ runes_of_ascii """

,

0123456789	// trailing space 

,

""x y""
, 65535
    //	t
	]	:

    lengthOf
	,
10 : asx , 
[

""// no comment""	] :
	zchar 
, ""// no comment""

    :a1  
      //
    // `tick` ""quote"" 'q'
    , 
0

: len	,} 	 // " ++ [27880; 37322]%N ++ runes_of_ascii "
    , 
match
u8x as MetaDataX{

    [ 255
]: string_ // packet A { u8 x, }
,
	[
""// no comment"" ,
""CRC32"" 
] :metadata

    ,// packet A { u8 x, }
		""a\""b""
	:
// " ++ [27880; 37322]%N ++ runes_of_ascii "
  leftPad
}
,

Header	`tab	here`

    ,  }  packet u128	{ 
char[
    10 	 //x

] trueish `tab	here` ,
repeat asx{ match len
    as
	chars	{
1

    :
MetaDataX
,
42
	:roots ,
	10
    :BodyLength,	""// no comment""	:
o
, ""a\\""
	:  i64_ ,
}
,  }	, 
}
")).
Eval vm_compute in ("<<<M3914>>>" ++ check (runes_of_ascii "

  root packet

body
	{

@tag(	4294967296  )
As 
@calculatedFrom(
    """ ++ [128512]%N ++ runes_of_ascii """) 
`a\` 
,	/// triple
      } root

packet  uint8x {	MetaDataX  {repeat
    matchKey
lengthOf , repeat
u32
uint8x 
      // packet A { u8 x, }
    // a // b
	`doc` 

    /// triple

  ,
	}
, }
	options{	int// a // b

  =	""abc""	} 
packet
// trailing space 
    u8x
	{  }root  packet	// " ++ [128512]%N ++ runes_of_ascii " emoji
	falsey

    {
repeat float32
u

,  repeat char[] 
	// " ++ [128512]%N ++ runes_of_ascii " emoji
  // packet A { u8 x, }
msg_type

    `
` ,  @leftPad

(' ' 
)@tag(
255
)
match  Header 
as
	msg_type

    {	3 :

    uint8x
	,

    255: x
,	// trailing space 
	7 	 // " ++ [27880; 37322]%N ++ runes_of_ascii "

: leftPad  
  // c
	// `tick` ""quote"" 'q'
""" ++ [28040; 24687]%N ++ runes_of_ascii """ 

// packet A { u8 x, }
	// c
    :	Packet	,
[  4294967296

,
""1""

] : T

,  } , 
	//	t
	Logon

@calculatedFrom(  ""x y"" 
) `it's`  ,	string  charz @calculatedFrom(  
      // " ++ [128512]%N ++ runes_of_ascii " emoji
	//	t
    ""abc""	)
, string options1 , 
    /// triple
    	/// triple
	@lengthOf( 
  //
	  //x
    As )

repeat 
zchar[	// `tick` ""quote"" 'q'
7
]	zchar
,@lengthOf(	crc
    )
    x_y_z
	@calculatedFrom(  """ ++ [28040; 24687]%N ++ runes_of_ascii """ )
,  } ")).
Eval vm_compute in ("<<<M3616>>>" ++ check (runes_of_ascii "options {
    LittleEndian = true;
    StringPrefixLenType = u16;
    ArrayPrefixLenType = u8;
    FixedStringPadChar = '0';
}
packet Logout {
    repeat i16 f1,
    string Ref,
    @rightPad('\x00') char[9] Tail,
    repeat char[6] Flags,
    repeat char[3] Acct,
}
packet Party {
    char[2] f1,
    u8 Side2,
    @leftPad(' ') char[1] venue,
}
packet Order {
    repeat i64 Ref,
    InPx62 {
        i32 OrderId,
    },
    InNote53 {
        InClordid80 {
            char[] Acct,
            u32 Px,
            repeat Party,
        },
        InPrice12 {
            u8 pad0,
        },
        repeat Logout,
        InFlags23 {
            repeat string seqNo,
            string sym,
            int8 Flags,
            zchar[5] lastPx,
            zchar[6] Px,
        },
        char[10] Acct,
        InPx18 {
            zchar[2] count,
            Party,
        },
    },
    char[5] Side2,
    char[1] Acct,
}
root packet Ack {
    u32 Tail,
    repeat char[4] msgKind,
    repeat Logout,
}
")).
Eval vm_compute in ("<<<M4523>>>" ++ check (runes_of_ascii "

  options
	{StringPrefixLenType	=  u64
	;ArrayPrefixLenType	=
	u16

; FixedStringPadChar=  ' ' ; }
packet
	Logon {	i32

msgKind, 
repeat
    InOrderid65 {

    u8
pad0

,}
    ,  i8
tag7
,
    @leftPad  (

' ' )char[ 12

    ] 
x,} 
packet Leg 
{char[] f1 ,repeat

    char[	5  ]

Px,InQty34
{ repeat

    char[6
	]Qty ,
char[ 7
]	seqNo	,
string 
count ,

}  ,Logon
,  }	packet

    Party
{ 
@leftPad
	(	'0'

) char[

    10
	]  OrderId 
, 
string
    Tail
,
}packet
Fill  {
zchar[5 ] 
venue

, zchar[ 3 ]  clOrdID  ,
InRef95
{InLastpx25{
u8 pad0,

    } ,float64 OrderId ,

    i32
f1

    ,
    float32

x  ,
char[] seqNo ,}

,repeat string
seqNo
	,

    } root 
packet Heartbeat
	{  repeat
    Leg, u32 seqNo , u16
tag7 ,
u32 Flags @lengthOf(

    Body

    )

,match

tag7 
as Body
    {
[	195
	,	75

    ]  : Party

, 171:Fill
	,78 :
    Logon,  142 :	Leg ,

}
, 
u32
	Note @calculatedFrom( ""CRC32"" 
),

}
")).
Eval vm_compute in ("<<<M394>>>" ++ check (runes_of_ascii "
MetaData As	{ zchar[ 007	]
BodyLength `u8 x,` , char[]
    o
,
T stringy ,	f32a
    As
, }root packet	Logon{int32
charz @calculatedFrom(	""`tick`"" ) `crlf
line`,
match uint8x as options1 {
10
: Logon 4294967296
// `tick` ""quote"" 'q'
// `tick` ""quote"" 'q'
: pack, 10
    // c
    :
    BodyLength  ,
0 : options1 , 0:calculatedFrom
, [
""it's""
,
0, ""a\""b"" //
, ""a	b""	, 0123456789 ,
00 , 3 ,
007 // " ++ [27880; 37322]%N ++ runes_of_ascii "
]
    :packetx	}, @leftPad// packet A { u8 x, }
(	'\x00'
    ) @tag(
4294967296 )
    repeat uint8 Packet
`it's` ,// packet A { u8 x, }
zchar[
    0123456789 ] len
    // " ++ [27880; 37322]%N ++ runes_of_ascii "
    @lengthOf( A  )
, zchar[// " ++ [128512]%N ++ runes_of_ascii " emoji
0
    ]u @calculatedFrom(
""x y"" ) , @tag( 00 )	match zchar as
o { 4294967296: uint8x
[ ""CRC32""
    , ""// no comment""
// a // b
// @lengthOf(
, 4294967296 , 0123456789
    ] :
BodyLength ,}, @leftPad( '0' ) @lengthOf( BodyLength  )
@tag(0 ) calculatedFrom`line1
line2`
,}")).
Eval vm_compute in ("<<<M3685>>>" ++ check (runes_of_ascii "// a // b
MetaData x {
    i8 MetaDataX `" ++ [233]%N ++ runes_of_ascii "`,
    string matchKey,// packet A { u8 x, }
    BodyLength f32a,
    char[7] u8x,
    char[] len,
    int16 msg_type,
}

packet o {
    match roots as T {
        [
            255, 1, 1, """ ++ [28040; 24687]%N ++ runes_of_ascii """, ""`tick`"",
            ""a\""b"", 42
        ] : pack,
        [0, ""// no comment""] : Logon,
        [
            ""1"", ""abc"", 255, 3, ""\n"",
            255, """ ++ [128512]%N ++ runes_of_ascii """, ""{,}""
        ] : x_y_z,
    },
    char[] len @lengthOf(Pad),
    char[] BodyLength,
    trueish @calculatedFrom(""1"") `" ++ [233]%N ++ runes_of_ascii "`,
    match chars as x_y_z {
        ""`tick`"" : calculatedFrom,
    },
    @lengthOf(string_)
    char[3] f32a,
    falsey `" ++ [28040; 24687; 31867; 22411]%N ++ runes_of_ascii "`,
    repeat int64 u128 `tab	here`,
    uint8 msg_type @calculatedFrom(""a\\"") `line1
    line2`,
}

options {
    body = zchar[4294967296];
    u128 = '\x00'
    BodyLength = float32
}
// @lengthOf(")).
Eval vm_compute in ("<<<M746>>>" ++ check (runes_of_ascii "packet o
    {
    /// triple
    }
packet Pad // a // b
{ repeat  f32
metadata	`two words`,repeat
    charz	{  i32 i64_@calculatedFrom(""\" ++ [233]%N ++ runes_of_ascii """ ) `u8 x,` ,
repeat uint8x
tag , uint16// " ++ [128512]%N ++ runes_of_ascii " emoji
Packet	@calculatedFrom( ""a	b"" ) `u8 x,` ,
    } ,
}  packet
metadata {@leftPad	( )
repeat  f32 i64_  ,
    // `tick` ""quote"" 'q'
    f32a @calculatedFrom( ""x y""
) , repeat zchar[007 ]  body // a // b
,@rightPad ( '\x00' )	string MetaDataX  @lengthOf( options1)
,  @tag( 3 )
    match  _x as
    lengthOf {  ""`tick`"": //	t
body}
/// triple
// c
,@calculatedFrom(""`tick`""
)i64 options1@calculatedFrom( ""abc"") `" ++ [28040; 24687; 31867; 22411]%N ++ runes_of_ascii "` , i8 As // a // b
, rootA
@lengthOf( lengthOf) //x
,
// " ++ [27880; 37322]%N ++ runes_of_ascii "
// " ++ [27880; 37322]%N ++ runes_of_ascii "
}  MetaData body { int16 // " ++ [128512]%N ++ runes_of_ascii " emoji
len `line1
line2`
,  uint16 stringy , uint64 falsey
`{ , }`, len len ,
} // " ++ [128512]%N ++ runes_of_ascii " emoji")).
Eval vm_compute in ("<<<M3638>>>" ++ check (runes_of_ascii "

  options
{

    LittleEndian= false ;StringPrefixLenType= u8
; 
ArrayPrefixLenType =	u8
    ;

    FixedStringPadFromLeft= true

;
    FixedStringPadChar

    =  ' '

;

    }
packet Trade	{

zchar[2	] 
Side2,	i8

    seqNo	,

    }

    packet
    Party {
	uint32
price  ,	} 
packet Ack
{	@rightPad( '\x00') char[	6
    ]  x
    ,	repeat char[ 4

    ] 
Flags ,zchar[
    9  ] f1
	,
    }	packet Cancel{

Ack
	,

}
	packet Heartbeat {string
    Px , string

Acct
,f64 
Side2
, InQty24 { i16
seqNo ,
repeat
i32  Flags ,

    }  , }

root packet
Logon{
    Trade ,  i64
	venue ,
    u32 x
,u8
seqNo 
, match

seqNo
	as
    Body  { 
[
1 , 164
]
: 
Ack , 31 :
    Cancel
    , 23

: Heartbeat
    , 64

    :
    Party
    , }
, }

")).
Eval vm_compute in ("<<<M659>>>" ++ check (runes_of_ascii "options
    {
metadata = ""a\""b""
;
    int
    = true
; chars ='\x00';
    string_ = '\x00'
; }packet x { match As as
    tag{ 1 :zchar, ""a	b"" // packet A { u8 x, }
: len,
} , Pad i64_ , // " ++ [27880; 37322]%N ++ runes_of_ascii "
@tag(3
)leftPad {// trailing space 
body , } ,char[]i8i8 `{ , }` ,charz { repeat
u16
zchar `two words` ,}
//
//	t
, int64 Z9_// " ++ [27880; 37322]%N ++ runes_of_ascii "
@calculatedFrom( ""a\\""
)
    , @rightPad ( '\x00'
    ) metadata@lengthOf(i64_// `tick` ""quote"" 'q'
) , @lengthOf( // @lengthOf(
int
) u32	u128 , // packet A { u8 x, }
@tag( 10 )
// " ++ [27880; 37322]%N ++ runes_of_ascii "
// " ++ [128512]%N ++ runes_of_ascii " emoji
@rightPad (
    '\x00') //
@tag( 007)
float {	int32 Pad`" ++ [233]%N ++ runes_of_ascii "`  , i16	options1
`` , repeatCount// @lengthOf(
,	chars @lengthOf(  pack) ,
    } ,
repeat int
{zchar[ 10]
u `two words` , i64 Logon,
}, }
")).
Eval vm_compute in ("<<<M1239>>>" ++ check (runes_of_ascii "packet Header{ @rightPad
    (
    '0' )
char[] x_y_z, Header {	repeat zchar[ 00 ] leftPad ,
    repeat
f64 // a // b
float `a\`  , match o	as pack{ ""1"":
    asx ,65535
: x// `tick` ""quote"" 'q'
, 65535// @lengthOf(
: i8i8
, [//
""" ++ [28040; 24687]%N ++ runes_of_ascii """]: matchKey } ,
    repeat A , } ,
    char[ 3]trueish, @calculatedFrom( """ ++ [128512]%N ++ runes_of_ascii """  )
    f32a , } packet uint8x
{
//
//x
chars@lengthOf(  Logon
) , @leftPad
    (' ' )repeat zchar[
1 ]	_x `// not a comment` ,	char[]
body``
,uint32 leftPad `line1
line2`,
repeat x_y_z { u8x msg_type // `tick` ""quote"" 'q'
,
} , @tag( 0 ) int16 i8i8 `tab	here`
, repeat Pad `doc` ,
repeat
// packet A { u8 x, }
//
u ,
    u8x
@calculatedFrom(  ""x y"" )
`two words` , }
")).
Eval vm_compute in ("<<<M1378>>>" ++ check (runes_of_ascii "options{
    A = ""\n"" ; matchKey = 4294967296 } root packet repeatCount
{ rootA `{ , }`
    , @tag(0 )	@tag(  007 )
    string
    packetx
    ,  repeat // c
u128
u128	`u8 x,`	, @leftPad
    ( ' '	)
    i64_ @calculatedFrom(""`tick`""	)
    // @lengthOf(
    `it's`
, char[ 00 ] lengthOf `it's` , Foo`u8 x,`, zchar[
65535] i64_ , char[
    // c
    0	]_x
    ,
    repeat zchar[0123456789]	u
,  @tag(
    10 // trailing space 
)
/// triple
// packet A { u8 x, }
int64 pack
@calculatedFrom( ""packet""
    )
`u8 x,`
// a // b
// trailing space 
, } packet
    float
// a // b
//x
{@tag(
0
    // " ++ [27880; 37322]%N ++ runes_of_ascii "
    )
char[0
]
stringy `" ++ [28040; 24687; 31867; 22411]%N ++ runes_of_ascii "`	, } /// triple")).
Eval vm_compute in ("<<<M847>>>" ++ check (runes_of_ascii "options// trailing space 
{ o =	007
    // packet A { u8 x, }
    ;
}
    root packet options1 {//
@rightPad () zchar[ 65535 ] x, @lengthOf( lengthOf	)x metadata // @lengthOf(
, // `tick` ""quote"" 'q'
@tag(
007  )int64
uint8x
// @lengthOf(
//x
@lengthOf(i64_ )//x
`a\`, @calculatedFrom(""1"" )	@tag(
007 ) repeat	u32 metadata
, // a // b
match
    As
as rootA {
""a\""b"" :As
,
} ,@calculatedFrom(
""CRC32"" ) uint16 As
@calculatedFrom(
    ""a	b"")
`" ++ [28040; 24687; 31867; 22411]%N ++ runes_of_ascii "` ,@lengthOf( A) u int `" ++ [233]%N ++ runes_of_ascii "`, i64_ MetaDataX , leftPad
    , @lengthOf(
_x) body `two words` ,
    } MetaData repeatCount
{ charz	packetx ,  float32 f32a ,
}
")).
Eval vm_compute in ("<<<M877>>>" ++ check (runes_of_ascii "root packet A { @tag( 42	)
    match // @lengthOf(
Logon as rootA { 0123456789
: int } ,
repeat char[]
uint8x `crlf
line`, int {
// `tick` ""quote"" 'q'
//
repeat
f64 Packet , uint8x  @calculatedFrom(
    ""1"" ) , string  x `it's` , }	, @lengthOf( Foo )
@calculatedFrom(""a	b""
) @lengthOf( body)
metadata {match	pack as matchKey { ""x y"" : falsey , ""it's"" //
: Header}	, body {
char[] len  , /// triple
} , }
, char[
    // a // b
    0123456789
    ]	T
    // " ++ [128512]%N ++ runes_of_ascii " emoji
    @calculatedFrom(
    ""`tick`"" )
    , }options{ len =' '	} MetaData
As {
    f64 As , char[ 0123456789 ] x
,}
")).
Eval vm_compute in ("<<<M4189>>>" ++ check (runes_of_ascii "packet i8i8 {
    char[] string_ `tab	here`,
    @lengthOf(T)
    @lengthOf(uint8x)
    @rightPad('\x00')
    zchar[4294967296] f32a @calculatedFrom(""CRC32"") `it's`,
}// @lengthOf(

root packet A {
    @rightPad()
    @calculatedFrom(""" ++ [233]%N ++ runes_of_ascii "t" ++ [233]%N ++ runes_of_ascii """)
    string T `crlf
    line`,
    u64 falsey `two words`,
    zchar[65535] lengthOf `doc`,
    match crc as int {
        [""packet"", ""it's""] : body,
        007 : leftPad,
        ""{,}"" : Z9_,
        [
            0123456789, 00, ""a\\"", """ ++ [128512]%N ++ runes_of_ascii """, ""\" ++ [233]%N ++ runes_of_ascii """,
            ""`tick`"", ""it's"", """ ++ [233]%N ++ runes_of_ascii "t" ++ [233]%N ++ runes_of_ascii """
        ] : x_y_z,
    },
}")).
Eval vm_compute in ("<<<M3891>>>" ++ check (runes_of_ascii "MetaData a1 {
    // `tick` ""quote"" 'q'
    //	t
    _x asx,
}

MetaData Packet {
    BodyLength int,
}

root packet x {
    @leftPad(' ')
    f64 repeatCount @lengthOf(x) `line1
        line2`,
    @rightPad('\x00')
    match i8i8 as pack {
        [
            10, """ ++ [128512]%N ++ runes_of_ascii """, 10, ""a	b"", 1,
            7
        ] : leftPad,
        [
            255, 10, 0, 1, """ ++ [233]%N ++ runes_of_ascii "t" ++ [233]%N ++ runes_of_ascii """,
            ""x y""
        ] : A,
        """ ++ [28040; 24687]%N ++ runes_of_ascii """ : u,
        00 : charz,
        // a // b
        """ ++ [28040; 24687]%N ++ runes_of_ascii """ : len,
        0 : As,
    },
    f32 x `" ++ [233]%N ++ runes_of_ascii "`,
}

MetaData x {
}")).
Eval vm_compute in ("<<<M4394>>>" ++ check (runes_of_ascii "MetaData
    //	t
  u
	{  int8
	body,
string Packet ,}	options  // `tick` ""quote"" 'q'

  {	matchKey  =

    float64
	;} packet roots {  // " ++ [128512]%N ++ runes_of_ascii " emoji
@calculatedFrom(	""abc""	)  match
MetaDataX
        // " ++ [27880; 37322]%N ++ runes_of_ascii "
  	// c
		as  // " ++ [27880; 37322]%N ++ runes_of_ascii "
  _x{
007

    :o [ 42  ,  ""x y"" , 65535
,
1 ,
    65535 ,

""a	b""
, 4294967296,  00
	]:f32a

    ""CRC32"" : repeatCount  ,

    ""CRC32"" :u128
    ,	}	, } 
options { } MetaData 
uint8x
{ char[] 
u128

, body

crc `
`

    ,  lengthOf	rootA , 	 // " ++ [128512]%N ++ runes_of_ascii " emoji
i8 crc ,

    }")).
Eval vm_compute in ("<<<M1043>>>" ++ check (runes_of_ascii "options {
    } root
    packet u8x { options1 { Header @lengthOf( x_y_z
) , u16  f32a ,} , zchar[ 4294967296 ]leftPad
    , repeat char[
    007 ]//	t
trueish, int
@calculatedFrom( """ ++ [28040; 24687]%N ++ runes_of_ascii """ )
    // c
    ,
    match
    i64_  as chars{""" ++ [128512]%N ++ runes_of_ascii """	:// a // b
Logon, 42 : matchKey
    65535 :	u , [ 4294967296
,
65535
] :As ,} ,
@rightPad // a // b
( '\x00')
    @tag(
42 )
    // packet A { u8 x, }
    i32 Pad// " ++ [128512]%N ++ runes_of_ascii " emoji
`two words`
, // c
@tag(
    // c
    00 )
    f32a`tab	here` ,
    }
")).
Eval vm_compute in ("<<<M1277>>>" ++ check (runes_of_ascii "MetaData o{ i16 len // @lengthOf(
, }  packet msg_type{ chars roots
    // @lengthOf(
    , // trailing space 
repeat char[ 0  ] packetx `{ , }` //x
, @rightPad( '\x00'	)
    // @lengthOf(
    repeat i64 x
, match packetx // " ++ [128512]%N ++ runes_of_ascii " emoji
as  packetx{ 65535:x [ ""\n""
    // a // b
    , 3 ]:Logon,  } , BodyLength @calculatedFrom(
""{,}"" )
    // trailing space 
    , repeat pack// c
Z9_ , x
    i8i8 ,
} options
    { int=
    ""abc"" ; u
= ""abc""	int = '0'
;
    }
")).
Eval vm_compute in ("<<<M3968>>>" ++ check (runes_of_ascii "packet crc {
    @leftPad(' ')
    u64 packetx @lengthOf(trueish),
    float `line1
        line2`,
    // packet A { u8 x, }
    // trailing space 
}

packet msg_type {
    zchar[3] i8i8 @lengthOf(u),
    char[] roots,
    match x_y_z as uint8x {
        ""a	b"" : body,
    },
    @tag(42)
    @rightPad('0')
    Packet @calculatedFrom(""1"") `
        `,
    @lengthOf(MetaDataX)
    i32 trueish,
    @rightPad(' ')
    u128 @lengthOf(_x),
}")).
Eval vm_compute in ("<<<M1302>>>" ++ check (runes_of_ascii "packet packetx
    {match _x
as // a // b
rootA {
3 :  leftPad } // " ++ [27880; 37322]%N ++ runes_of_ascii "
, u32 stringy// c
, @rightPad // " ++ [128512]%N ++ runes_of_ascii " emoji
(// trailing space 
' '
)
    @lengthOf( A // " ++ [128512]%N ++ runes_of_ascii " emoji
) string msg_type `u8 x,`, match string_  as body { [ 42 ,
    // @lengthOf(
    ""1""	,""packet"" , """ ++ [128512]%N ++ runes_of_ascii """ , ""packet"" ,
0123456789 ]
    //	t
    :
    calculatedFrom } , //	t
u8 Packet , @lengthOf( // `tick` ""quote"" 'q'
lengthOf )repeat u8x asx
`doc` ,  }
")).
Eval vm_compute in ("<<<M3613>>>" ++ check (runes_of_ascii "packet Frame {
    u8 HK,
    u8 BK,
    u8 TK,
    match HK as Hdr {
        1 : HdrA,
        2 : HdrB,
    },
    match BK as Body {
        1 : BodyA,
        2 : BodyB,
    },
    match TK as Trl {
        1 : TrlA,
    },
}
packet HdrA {
    u8 a,
}
packet HdrB {
    u16 b,
}
packet BodyA {
    u32 c,
}
packet BodyB {
    u64 d,
}
packet TrlA {
    u8 e,
}
root packet Msg {
    Frame,
    u8 x,
}
")).
Eval vm_compute in ("<<<M624>>>" ++ check (runes_of_ascii "packet  x_y_z
    // @lengthOf(
    { @tag( 1
/// triple
//
) A @calculatedFrom(""a\""b""	) , match Pad as lengthOf{ 007 :u128 , }	, match
chars as roots
    {1	: roots , [ 1
    ] :
    A
, // " ++ [27880; 37322]%N ++ runes_of_ascii "
""a	b"" : roots
[	""abc"" , 0
    ] :
    // trailing space 
    u128 ,
    }
    , repeat i64
i8i8 , @calculatedFrom( """ ++ [233]%N ++ runes_of_ascii "t" ++ [233]%N ++ runes_of_ascii """ )BodyLength,
@tag( 255 ) string u8x ,
    BodyLength options1 `
`
, }
")).
Eval vm_compute in ("<<<M4392>>>" ++ check (runes_of_ascii "root packet As {
    u {
        tag a1,
        repeat charz `a\`,
    },
    match float as u128 {
        ""a\\"" : msg_type,
        ""`tick`"" : packetx,
    },
    repeat char[255] falsey `two words`,
    f32 packetx,
    zchar[0] options1 `{ , }`,
    repeat rootA `
        `,
}

MetaData Header {
    u32 Header ``,
}

//x
//x
MetaData matchKey {
    msg_type Z9_,
}")).
Eval vm_compute in ("<<<M4250>>>" ++ check (runes_of_ascii "  packet	Foo 
{char[ 10
    ] 
f32a @lengthOf( calculatedFrom
) `crlf
line`

,  match
	pack as	A	// `tick` ""quote"" 'q'
		{
	""" ++ [233]%N ++ runes_of_ascii "t" ++ [233]%N ++ runes_of_ascii """ :

    f32a	/// triple
    ,
[
    ""x y"" ,""`tick`""]	:
falsey ,	""x y"" 

//x
:

Foo
    ,7: chars// c
,	""{,}""
    :  u128,255 : 
A

,
	}
    ,

    string
    //x
	// trailing space 
T	`
`
    ,

    }/// triple
 
")).
Eval vm_compute in ("<<<M357>>>" ++ check (runes_of_ascii "options
{
// @lengthOf(
// " ++ [128512]%N ++ runes_of_ascii " emoji
x = 10//
; x_y_z//
=
    true	;
Logon =
    i32 T =
    0 }
MetaData
f32a	{ zchar len,
    }
    options {string_
// c
//
= zchar[
007 ] ;
x_y_z = '0'
    ;
}MetaData msg_type // " ++ [27880; 37322]%N ++ runes_of_ascii "
{ lengthOf msg_type `two words`
    ,	i64 crc , packetx  zchar
`// not a comment`
, string// c
falsey `tab	here` , }
")).
Eval vm_compute in ("<<<M1996>>>" ++ check (runes_of_ascii "MetaData
    u { }  options {
// c
// @lengthOf(
float = int8 ;rootA =false ; As =	int16 // `tick` ""quote"" 'q'
repeatCount
    // trailing space 
    =
    int16
; u8x =
    //	t
    '\x00' ; } options	{
    repeatCount repeatCount
= 0
u128
    //
    = false ; i64_
// trailing space 
// `tick` ""quote"" 'q'
= '0' ; //	t
}
")).
Eval vm_compute in ("<<<M2028>>>" ++ check (runes_of_ascii "MetaData
    u { }  options {
// c
// @lengthOf(
float = int8 ;rootA =false ; As =	int16 // `tick` ""quote"" 'q'
repeatCount
    // trailing space 
    =
    int16
; u8x =
    //	t
    '\x00' ; } options	{
    repeatCount
= 0
u128
    //
    = false packet i64_
// trailing space 
// `tick` ""quote"" 'q'
= '0' ; //	t
}
")).
Eval vm_compute in ("<<<M1956>>>" ++ check (runes_of_ascii "MetaData
    u { }  options {
// c
// @lengthOf(
float = int8 ;rootA =false ; As =	int16 // `tick` ""quote"" 'q'
repeatCount
    // trailing space 
    =
    int16
; ; u8x =
    //	t
    '\x00' ; } options	{
    repeatCount
= 0
u128
    //
    = false ; i64_
// trailing space 
// `tick` ""quote"" 'q'
= '0' ; //	t
}
")).
Eval vm_compute in ("<<<M2066>>>" ++ check (runes_of_ascii "MetaData
    u { }  options {
// c
// @lengthOf(
float = int8 ;rootA =false ; As =	int16 // `tick` ""quote"" 'q'
repeatCount
    // trailing space 
    =
    int16
; u8x =
    //	t
    '\x00' ; } options	{
    repeatCount
= 0
u128
    //
 '   = false ; i64_
// trailing space 
// `tick` ""quote"" 'q'
= '0' ; //	t
}
")).
Eval vm_compute in ("<<<M1973>>>" ++ check (runes_of_ascii "MetaData
    u { }  options {
// c
// @lengthOf(
float = int8 ;rootA =false ; As =	int16 // `tick` ""quote"" 'q'
repeatCount
    // trailing space 
    =
    int16
; u8x =
    //	t
    string ; } options	{
    repeatCount
= 0
u128
    //
    = false ; i64_
// trailing space 
// `tick` ""quote"" 'q'
= '0' ; //	t
}
")).
Eval vm_compute in ("<<<M1945>>>" ++ check (runes_of_ascii "MetaData
    u { }  options {
// c
// @lengthOf(
float = int8 ;rootA =false ; As =	int16 // `tick` ""quote"" 'q'
repeatCount
    // trailing space 
    
    int16
; u8x =
    //	t
    '\x00' ; } options	{
    repeatCount
= 0
u128
    //
    = false ; i64_
// trailing space 
// `tick` ""quote"" 'q'
= '0' ; //	t
}
")).
Eval vm_compute in ("<<<M1885>>>" ++ check (runes_of_ascii "MetaData
    u { }  options {
// c
// @lengthOf(
 = int8 ;rootA =false ; As =	int16 // `tick` ""quote"" 'q'
repeatCount
    // trailing space 
    =
    int16
; u8x =
    //	t
    '\x00' ; } options	{
    repeatCount
= 0
u128
    //
    = false ; i64_
// trailing space 
// `tick` ""quote"" 'q'
= '0' ; //	t
}
")).
Eval vm_compute in ("<<<M3521>>>" ++ check (runes_of_ascii "// top
packet // c0
float // c1
{ // c2
repeat // c3
i8i8 // c4
MetaDataX // c5
`it's` // c6
, // c7
rootA // c8
, // c9
repeat // c10
int8 // c11
int // c12
, // c13
match // c14
repeatCount // c15
as // c16
x_y_z // c17
{ // c18
""{,}"" // c19
: // c20
Logon // c21
, // c22
} // c23
, // c24
} // c25
")).
Eval vm_compute in ("<<<M3623>>>" ++ check (runes_of_ascii "options {
    LittleEndian = true;
    StringPrefixLenType = u8;
    ArrayPrefixLenType = u8;
}
packet Ack {
}
root packet Quote {
    Ack,
    InSym94 {
        repeat Ack,
    },
    u16 msgKind,
    u16 OrderId @lengthOf(Body),
    match msgKind as Body {
        [110, 48] : Ack,
    },
}
")).
Eval vm_compute in ("<<<M238>>>" ++ check (runes_of_ascii "MetaData
    a1 { // a // b
}options { o
= 255
; } packet f32a //
{ uint8 _x	@calculatedFrom( ""x y""
)	,}MetaData
    options1
{  f64 lengthOf `it's`
,lengthOf metadata,	int8 crc
`
` /// triple
,
    char[0123456789//	t
]o ,
// " ++ [128512]%N ++ runes_of_ascii " emoji
// packet A { u8 x, }
char[] //	t
a1,}
")).
Eval vm_compute in ("<<<M3994>>>" ++ check (runes_of_ascii "MetaData 
calculatedFrom
{

    Foo
uint8x

    ,
o	Packet  `a\`

    ,
	int8
Packet  ,  As

calculatedFrom	,
}
	options
	{T 
	    // trailing space 
	  // c
	  = 
u64	; stringy 
= /// triple
  f64

    ; BodyLength= 
  // a // b
    /// triple
true ; 
}

")).
Eval vm_compute in ("<<<M1625>>>" ++ check (runes_of_ascii "packet
//	t
// trailing space 
_x {
// packet A { u8 x, }
// c
char[
3
    ] u8x @lengthOf(
u8x ) , @calculatedFrom(""" ++ [128512]%N ++ runes_of_ascii """ // @lengthOf(
)
i16	Foo
@lengthOf(	string_
    )`doc`	, repeat	i64 metadata , @lengthOf( string_
@lengthOf( i8 // c
u  `line1
line2`	,
}
")).
Eval vm_compute in ("<<<M1580>>>" ++ check (runes_of_ascii "packet
//	t
// trailing space 
_x {
// packet A { u8 x, }
// c
char[
3
    ] u8x @lengthOf(
u8x ) , @calculatedFrom(""" ++ [128512]%N ++ runes_of_ascii """ // @lengthOf(
)
i16	Foo
@lengthOf(	string_
    int32`doc`	, repeat	i64 metadata , @lengthOf( string_
) i8 // c
u  `line1
line2`	,
}
")).
Eval vm_compute in ("<<<M1663>>>" ++ check (runes_of_ascii "packet
//	t
// trailing space 
_x {
// packet A { u8 x, }
// c
char[
3
    ] u8x @lengthOf(
u8x ) , @calculatedFrom(""" ++ [128512]%N ++ runes_of_ascii """ // @lengthOf(
)
i16	Foo
@lengthOf(	string_
    )`doc`	, repeat	i64 metadata , @lengthOf( string_
) i8 // c
u  `line1
line2`	,
}
" ++ [65279]%N ++ runes_of_ascii " ")).
Eval vm_compute in ("<<<M1534>>>" ++ check (runes_of_ascii "packet
//	t
// trailing space 
_x {
// packet A { u8 x, }
// c
char[
3
    ] u8x @lengthOf(
u8x , ) @calculatedFrom(""" ++ [128512]%N ++ runes_of_ascii """ // @lengthOf(
)
i16	Foo
@lengthOf(	string_
    )`doc`	, repeat	i64 metadata , @lengthOf( string_
) i8 // c
u  `line1
line2`	,
}
")).
Eval vm_compute in ("<<<M1507>>>" ++ check (runes_of_ascii "packet
//	t
// trailing space 
_x {
// packet A { u8 x, }
// c
char[

    ] u8x @lengthOf(
u8x ) , @calculatedFrom(""" ++ [128512]%N ++ runes_of_ascii """ // @lengthOf(
)
i16	Foo
@lengthOf(	string_
    )`doc`	, repeat	i64 metadata , @lengthOf( string_
) i8 // c
u  `line1
line2`	,
}
")).
Eval vm_compute in ("<<<M4261>>>" ++ check (runes_of_ascii "options {
    chars = char;
    o = true
    u128 = ""x y"";
}

packet chars {
    @calculatedFrom(""\n"")
    repeat f64 packetx,
    @tag(4294967296)
    float32 Header,
    zchar[007] float `// not a comment`,
}

options {
    stringy = zchar[7];
}")).
Eval vm_compute in ("<<<M1545>>>" ++ check (runes_of_ascii "packet
//	t
// trailing space 
_x {
// packet A { u8 x, }
// c
char[
3
    ] u8x @lengthOf(
u8x ) , int16""" ++ [128512]%N ++ runes_of_ascii """ // @lengthOf(
)
i16	Foo
@lengthOf(	string_
    )`doc`	, repeat	i64 metadata , @lengthOf( string_
) i8 // c
u  `line1
line2`	,
}
")).
Eval vm_compute in ("<<<M3678>>>" ++ check (runes_of_ascii "
options

    {
trueish = ""`tick`""
	;
string_

    =
    """ ++ [233]%N ++ runes_of_ascii "t" ++ [233]%N ++ runes_of_ascii """ 
        // c
  }
    root
packet
body  {
	stringy
@calculatedFrom(
	""a	b""

)

    , } 
packet Logon
{

@leftPad

(
' ' ) 	 //	t
	u16	string_	`u8 x,`	,
}

")).
Eval vm_compute in ("<<<M3794>>>" ++ check (runes_of_ascii "options {
    calculatedFrom = false;
}

packet i64_ {
    body,
    //	t
    //x
}/// triple

options {
    float = true;// @lengthOf(
    charz = char[65535];
    u = true;
    metadata = ""\" ++ [233]%N ++ runes_of_ascii """
    matchKey = '\x00'
}// " ++ [27880; 37322]%N)).
Eval vm_compute in ("<<<M4482>>>" ++ check (runes_of_ascii "/// triple
packet BodyLength {
    @calculatedFrom(""packet"")
    //x
    char[] options1 @calculatedFrom(""\" ++ [233]%N ++ runes_of_ascii """),
    zchar[255] metadata,
}

options {
    int = '\x00';
    stringy = false
    T = 0
    trueish = 10
}")).
Eval vm_compute in ("<<<M1822>>>" ++ check (runes_of_ascii "options { trueish = ""`tick`"" ; string_= """ ++ [233]%N ++ runes_of_ascii "t" ++ [233]%N ++ runes_of_ascii """
    // c
    } root
    packet body { stringy @calculatedFrom(
""a	b"" ) `line1
line2` , }
packet Logon {
    @leftPad(
    ' ' ) //	t
u16 string_ `u8 x,` `u8 x,` ,
}
")).
Eval vm_compute in ("<<<M1812>>>" ++ check (runes_of_ascii "options { trueish = ""`tick`"" ; string_= """ ++ [233]%N ++ runes_of_ascii "t" ++ [233]%N ++ runes_of_ascii """
    // c
    } root
    packet body { stringy @calculatedFrom(
""a	b"" ) `line1
line2` , }
packet Logon {
    @leftPad(
    ' ' ) //	t
u16 u16 string_ `u8 x,` ,
}
")).
Eval vm_compute in ("<<<M124>>>" ++ check (runes_of_ascii "
root packet crc{ u16	Z9_ `tab	here`,
repeat rootA,
    // trailing space 
    }
packet leftPad	{ @rightPad( )
    @tag(  0 // a // b
)repeat	i16 As `doc` , } MetaData  body // a // b
{x f32a,  }
// c
")).
Eval vm_compute in ("<<<M1733>>>" ++ check (runes_of_ascii "options { trueish = ""`tick`"" ; string_= """ ++ [233]%N ++ runes_of_ascii "t" ++ [233]%N ++ runes_of_ascii """
    // c
    } root
    packet { body stringy @calculatedFrom(
""a	b"" ) `line1
line2` , }
packet Logon {
    @leftPad(
    ' ' ) //	t
u16 string_ `u8 x,` ,
}
")).
Eval vm_compute in ("<<<M1706>>>" ++ check (runes_of_ascii "options { trueish = ""`tick`"" ; string_ """ ++ [233]%N ++ runes_of_ascii "t" ++ [233]%N ++ runes_of_ascii """
    // c
    } root
    packet body { stringy @calculatedFrom(
""a	b"" ) `line1
line2` , }
packet Logon {
    @leftPad(
    ' ' ) //	t
u16 string_ `u8 x,` ,
}
")).
Eval vm_compute in ("<<<M1779>>>" ++ check (runes_of_ascii "options { trueish = ""`tick`"" ; string_= """ ++ [233]%N ++ runes_of_ascii "t" ++ [233]%N ++ runes_of_ascii """
    // c
    } root
    packet body { stringy @calculatedFrom(
""a	b"" ) `line1
line2` , }
, Logon {
    @leftPad(
    ' ' ) //	t
u16 string_ `u8 x,` ,
}
")).
Eval vm_compute in ("<<<M1989>>>" ++ check (runes_of_ascii "MetaData
    u { }  options {
// c
// @lengthOf(
float = int8 ;rootA =false ; As =	int16 // `tick` ""quote"" 'q'
repeatCount
    // trailing space 
    =
    int16
; u8x =
    //	t
    '\x00' ; }")).
Eval vm_compute in ("<<<M1041>>>" ++ check (runes_of_ascii "// @lengthOf(
options {
    } // c
root packet Packet {@calculatedFrom( """" )
    x u128 `" ++ [28040; 24687; 31867; 22411]%N ++ runes_of_ascii "`  ,
    }
options { msg_type =  i16 ; packetx= false falsey= ""x y"" ;
packetx = 1 ; As = true }")).
Eval vm_compute in ("<<<M3575>>>" ++ check (runes_of_ascii "// top
root // c0
packet // c1
P // c2a
  // c2b
{ u8 // c4
s_u8 // c5
, // c6a
  // c6b
repeat // c7a
  // c7b
u8 r_u8
    // c9
, // c10a
  // c10b
u16 b_len , } // c14a
  // c14b
")).
Eval vm_compute in ("<<<M341>>>" ++ check (runes_of_ascii "packet A
    { @rightPad (' '
    )/// triple
@calculatedFrom(""" ++ [233]%N ++ runes_of_ascii "t" ++ [233]%N ++ runes_of_ascii """	) int16
    crc
`tab	here` // " ++ [128512]%N ++ runes_of_ascii " emoji
, }  MetaData x
// `tick` ""quote"" 'q'
// " ++ [27880; 37322]%N ++ runes_of_ascii "
{
}
// trailing space 
")).
Eval vm_compute in ("<<<M997>>>" ++ check (runes_of_ascii "options { int = zchar[ // packet A { u8 x, }
65535] ; zchar
//x
// trailing space 
=  ' ' ;
chars= // packet A { u8 x, }
""\" ++ [233]%N ++ runes_of_ascii """ ;
    Z9_  = '\x00' ;x_y_z = //	t
false }")).
Eval vm_compute in ("<<<M2332>>>" ++ check (runes_of_ascii "// c
packet x { @lengthOf( metadata metadata ) repeat lengthOf
,a1{
trueish	,// c
repeat//	t
MetaDataX , } , zchar[
    42	] rootA // `tick` ""quote"" 'q'
,
    }
")).
Eval vm_compute in ("<<<M2335>>>" ++ check (runes_of_ascii "// c
packet x { @lengthOf( metadata ) repeat lengthOf
'\x01',a1{
trueish	,// c
repeat//	t
MetaDataX , } , zchar[
    42	] rootA // `tick` ""quote"" 'q'
,
    }
")).
Eval vm_compute in ("<<<M2376>>>" ++ check (runes_of_ascii "// c
packet x { @lengthOf( metadata ) repeat lengthOf
,char[{
trueish	,// c
repeat//	t
MetaDataX , } , zchar[
    42	] rootA // `tick` ""quote"" 'q'
,
    }
")).
Eval vm_compute in ("<<<M2313>>>" ++ check (runes_of_ascii "// c
packet x { @lengthOf( metadata ) repeat lengthOf
,a1{
trueish	,// c
repeat//	t
MetaDataX , } , zchar[
    42	] rootA // `tick` ""quote"" 'q'
,
" ++ [8232]%N ++ runes_of_ascii "    }
")).
Eval vm_compute in ("<<<M2324>>>" ++ check (runes_of_ascii "// c
packet x { @lengthOf( metadata ) repeat lengthOf
,a1{
trueish	repeat// c
,//	t
MetaDataX , } , zchar[
    42	] rootA // `tick` ""quote"" 'q'
,
    }
")).
Eval vm_compute in ("<<<M2354>>>" ++ check (runes_of_ascii "// c
packet x { @lengthOf( metadata ) char[ lengthOf
,a1{
trueish	,// c
repeat//	t
MetaDataX , } , zchar[
    42	] rootA // `tick` ""quote"" 'q'
,
    }
")).
Eval vm_compute in ("<<<M2161>>>" ++ check (runes_of_ascii "options{
_x
= true
} options
{ o	= /// triple
false
    ; chars
= ""\n"" } root Pad	packet
/// triple
// packet A { u8 x, }
{	chars
    // a // b
    ,}")).
Eval vm_compute in ("<<<M2315>>>" ++ check (runes_of_ascii "// c
packet x { @lengthOf( metadata ) repeat lengthOf
,a1{
trueish	,// c
repeat//	t
`" ++ [28040; 24687; 31867; 22411]%N ++ runes_of_ascii "` , } , zchar[
    42	] rootA // `tick` ""quote"" 'q'
,
    }
")).
Eval vm_compute in ("<<<M2177>>>" ++ check (runes_of_ascii "options{
_x
= true
} options
{ o	= /// triple
false
    ; chars
= ""\n"" } root packet	Pad
/// triple
// packet A { u8 x, }
{	=
    // a // b
    ,}")).
Eval vm_compute in ("<<<M772>>>" ++ check (runes_of_ascii "
MetaData string_ //	t
{ stringy metadata
    , // packet A { u8 x, }
lengthOf int
``,
    f32a u8x	,
u32//
tag ,	falsey repeatCount ,
    }
")).
Eval vm_compute in ("<<<M4150>>>" ++ check (runes_of_ascii "packet As {
}

MetaData charz {
    i64 falsey,
    A msg_type,
    char[3] trueish `say ""hi""`,
    float32 calculatedFrom,
    string i8i8,
}")).
Eval vm_compute in ("<<<M20>>>" ++ check (runes_of_ascii "options { x_y_z =  """ ++ [128512]%N ++ runes_of_ascii """
/// triple
// @lengthOf(
options1 =
""a\\""  ;
    x_y_z  = 255 ; } //x
packet
    charz {
    } // trailing space ")).
Eval vm_compute in ("<<<M3580>>>" ++ check (runes_of_ascii "packet A {
    u8 a,
}
packet B {
    u16 b,
}
root packet P {
    u8 K,
    match K as M {
        1 : A,
        1 : B,
    },
}
")).
Eval vm_compute in ("<<<M1082>>>" ++ check (runes_of_ascii "packet i8i8 {
@calculatedFrom( // @lengthOf(
""it's"")@leftPad ( // " ++ [27880; 37322]%N ++ runes_of_ascii "
'0'
) @lengthOf(msg_type  )u8 Logon
    `tab	here`,
}
")).
Eval vm_compute in ("<<<M607>>>" ++ check (runes_of_ascii "options
{ stringy=
    '0' ; body// `tick` ""quote"" 'q'
=  ""// no comment"" ; pack
    =
char[] } options
{
x =65535 } //x")).
Eval vm_compute in ("<<<M3323>>>" ++ check (runes_of_ascii "root packet matchKey { zchar[ 3
// c
] pack @calculatedFrom( ""a	b"" ) `doc` , } options { } MetaData A { int8 msg_type , }")).
Eval vm_compute in ("<<<M3355>>>" ++ check (runes_of_ascii "root packet matchKey { zchar[ 3 ] pack @calculatedFrom( ""a	b"" ) `doc` , } options { } MetaData A { int8 msg_type
// c
, }")).
Eval vm_compute in ("<<<M1474>>>" ++ check (runes_of_ascii "
packet
    false" ++ [233]%N ++ runes_of_ascii "y { Header@calculatedFrom(""packet""  ) , char[
    0123456789 ] packetx
    , } // `tick` ""quote"" 'q'")).
Eval vm_compute in ("<<<M1449>>>" ++ check (runes_of_ascii "
packet
    falsey { Header@calculatedFrom(""packet""  ) , char[
    0123456789 packetx ]
    , } // `tick` ""quote"" 'q'")).
Eval vm_compute in ("<<<M3051>>>" ++ check (runes_of_ascii "packet A {
    match k as n {
        ""x\
y"" : B,
        [""x\
y"", 1] : C,
        [1,2,3,4,5,""x\
y""] : D,
    },
}")).
Eval vm_compute in ("<<<M2998>>>" ++ check (runes_of_ascii "packet A {
  match k as n {
    [""a"", ""bb"", 007, ""d"", ""e"", 66, ""g"", ""h"", 9, ""j"", ""k"", 12] : B,
    2 : C
  },
}")).
Eval vm_compute in ("<<<M4097>>>" ++ check (runes_of_ascii "
packet

A

{ match k as
n
{[ 
""a""

, 22  ,""c c"" ,
	4 , 
""e"",

66
	,""g"" , 8	, ""i""] :B 2 :
    C	}
    , } ")).
Eval vm_compute in ("<<<M2993>>>" ++ check (runes_of_ascii "packet A {
  match k as n {
    [1, ""bb"", 007, ""d"", 5, ""f"", 7, ""h"", 9, ""j"", 11, ""l""] : B
    2 : C
  },
}")).
Eval vm_compute in ("<<<M2972>>>" ++ check (runes_of_ascii "packet A {
  match k as n {
    [""a"", ""bb"", 007, ""d"", ""e"", 66, ""g"", ""h"", 9, ""j""] : B,
    2 : C
  },
}")).
Eval vm_compute in ("<<<M3709>>>" ++ check (runes_of_ascii "MetaData float {
    float64 charz `
    `,
}// c

root packet chars {
    @rightPad('0')
    Foo,
}")).
Eval vm_compute in ("<<<M1541>>>" ++ check (runes_of_ascii "packet
//	t
// trailing space 
_x {
// packet A { u8 x, }
// c
char[
3
    ] u8x @lengthOf(
u8x )")).
Eval vm_compute in ("<<<M172>>>" ++ check (runes_of_ascii "
options
    // " ++ [128512]%N ++ runes_of_ascii " emoji
    {  roots= false ; f32a = ""// no comment""
// " ++ [128512]%N ++ runes_of_ascii " emoji
// a // b
;
}
")).
Eval vm_compute in ("<<<M4320>>>" ++ check (runes_of_ascii "  // c
    packet
o
{
repeat
Logon

uint8x, }
options{ asx

=zchar[
3]	stringy

='\x00' }
")).
Eval vm_compute in ("<<<M984>>>" ++ check (runes_of_ascii "options{ string_ = ""CRC32""	; charz =
'\x00';
i64_	=' ' i64_ =""a\""b""  ;
uint8x= """"
    ;}
")).
Eval vm_compute in ("<<<M3271>>>" ++ check (runes_of_ascii "MetaData float // c
{ float64 charz `
` , } root packet chars { @rightPad ( '0' ) Foo , }")).
Eval vm_compute in ("<<<M3303>>>" ++ check (runes_of_ascii "MetaData float { float64 charz `
` , } root packet chars { @rightPad ( '0' ) Foo , // c
}")).
Eval vm_compute in ("<<<M3514>>>" ++ check (runes_of_ascii "packet chars { } packet MetaDataX { @tag( 42 ) i16 string_ , repeat x
// c
`say ""hi""` , }")).
Eval vm_compute in ("<<<M1050>>>" ++ check (runes_of_ascii "packet matchKey // @lengthOf(
{ // packet A { u8 x, }
@leftPad( '0' ) int16 options1,}
")).
Eval vm_compute in ("<<<M1195>>>" ++ check (runes_of_ascii "// " ++ [27880; 37322]%N ++ runes_of_ascii "
MetaData msg_type{} MetaData Pad
    { int64 Header
,
} MetaData matchKey { } //")).
Eval vm_compute in ("<<<M3222>>>" ++ check (runes_of_ascii "packet metadata { Logon {
// c
A `" ++ [28040; 24687; 31867; 22411]%N ++ runes_of_ascii "` , tag o , } , zchar len `// not a comment` , }")).
Eval vm_compute in ("<<<M2211>>>" ++ check (runes_of_ascii "string
{ } options { BodyLength= u16 Header= f64 ; u128 =
    true
    ; } // a // b")).
Eval vm_compute in ("<<<M3445>>>" ++ check (runes_of_ascii "packet o { repeat Logon uint8x , } options // c
{ asx = zchar[ 3 ] stringy = '\x00' }")).
Eval vm_compute in ("<<<M3835>>>" ++ check (runes_of_ascii "packet stringy {
    @lengthOf(crc)
    string repeatCount @calculatedFrom(""{,}""),
}")).
Eval vm_compute in ("<<<M2276>>>" ++ check (runes_of_ascii "options
{ } options { BodyLength= u16 Header= f64 ; u128 =
    
    ; } // a // b")).
Eval vm_compute in ("<<<M3420>>>" ++ check (runes_of_ascii "MetaData body { i64 pack `it's` , } packet stringy { int16 calculatedFrom , // c
}")).
Eval vm_compute in ("<<<M2907>>>" ++ check (runes_of_ascii "packet A {
  match k as n {
    [""a"", ""bb"", 007, ""d"", ""e""] : B,
    2 : C
  },
}")).
Eval vm_compute in ("<<<M2904>>>" ++ check (runes_of_ascii "packet A {
  match k as n {
    [""a"", 22, ""c c"", 4, ""e""] : B
    2 : C
  },
}")).
Eval vm_compute in ("<<<M2895>>>" ++ check (runes_of_ascii "packet A {
  match k as n {
    [""a"", ""bb"", 007, ""d""] : B
    2 : C
  },
}")).
Eval vm_compute in ("<<<M4177>>>" ++ check (runes_of_ascii "packet A {
    match k as n {
        [""a""] : B,
        2 : C,
    },
}")).
Eval vm_compute in ("<<<M2882>>>" ++ check (runes_of_ascii "packet A {
  match k as n {
    [""a"", ""bb"", 007] : B
    2 : C
  },
}")).
Eval vm_compute in ("<<<M2871>>>" ++ check (runes_of_ascii "packet A {
  match k as n {
    [1, 22, 007] : B,
    2 : C
  },
}")).
Eval vm_compute in ("<<<M596>>>" ++ check (runes_of_ascii "packet falsey { @tag(
    1 ) repeat zchar[00
    ] tag,
    }
")).
Eval vm_compute in ("<<<M481>>>" ++ check (runes_of_ascii "MetaData x_y_z{ i8 //
leftPad
    , string
body `" ++ [28040; 24687; 31867; 22411]%N ++ runes_of_ascii "` , }

")).
Eval vm_compute in ("<<<M3539>>>" ++ check (runes_of_ascii "root packet P {
    hdr {
        u8 a,
    },
    u8 x,
}
")).
Eval vm_compute in ("<<<M3379>>>" ++ check (runes_of_ascii "packet x { @rightPad ( ) repeat roots // c
Logon `doc` , }")).
Eval vm_compute in ("<<<M805>>>" ++ check (runes_of_ascii "options { Packet =// @lengthOf(
""\n"";// c
}
// " ++ [128512]%N ++ runes_of_ascii " emoji
")).
Eval vm_compute in ("<<<M3796>>>" ++ check (runes_of_ascii "  packet
A {

    u8 x
    `d" ++ [5760]%N ++ runes_of_ascii "`
    ,  // c" ++ [5760]%N ++ runes_of_ascii "
		} ")).
Eval vm_compute in ("<<<M1246>>>" ++ check (runes_of_ascii "options// trailing space 
{ lengthOf =
'0'
;}
")).
Eval vm_compute in ("<<<M3839>>>" ++ check (runes_of_ascii "  packet A{

    u8

    x	`a
b`
    ,
	}")).
Eval vm_compute in ("<<<M4047>>>" ++ check (runes_of_ascii "options {
    zchar = int32;
    T = false
}")).
Eval vm_compute in ("<<<M2626>>>" ++ check (runes_of_ascii "packet A { @leftPad('0' '0') char[2] x, }")).
Eval vm_compute in ("<<<M3201>>>" ++ check (runes_of_ascii "root packet u128 { chars `it's` , // c
}")).
Eval vm_compute in ("<<<M3725>>>" ++ check (runes_of_ascii "root packet u128 {
    chars `it's`,
}")).
Eval vm_compute in ("<<<M3812>>>" ++ check (runes_of_ascii "packet trueish {
    uint16 chars,
}")).
Eval vm_compute in ("<<<M2582>>>" ++ check (runes_of_ascii "packet A { char[3] @lengthOf(y), }")).
Eval vm_compute in ("<<<M4593>>>" ++ check (runes_of_ascii "packet body {
    // @lengthOf(
}")).
Eval vm_compute in ("<<<M2721>>>" ++ check (runes_of_ascii ";" ++ [65533; 1004; 28; 65533]%N ++ runes_of_ascii "K" ++ [26453]%N ++ runes_of_ascii ":qC" ++ [65533]%N ++ runes_of_ascii "mM" ++ [22; 65533; 65533]%N ++ runes_of_ascii "V" ++ [5; 65533; 17; 65533; 65533]%N ++ runes_of_ascii "	" ++ [65533; 65533; 65533; 65533]%N ++ runes_of_ascii "4" ++ [65533; 22; 65533]%N)).
Eval vm_compute in ("<<<M3112>>>" ++ check (runes_of_ascii "packet A {
 u8 x `d" ++ [8287]%N ++ runes_of_ascii "`, // c" ++ [8287]%N ++ runes_of_ascii "
}")).
Eval vm_compute in ("<<<M2755>>>" ++ check (runes_of_ascii "6p~" ++ [65533]%N ++ runes_of_ascii "d" ++ [65533; 65533]%N ++ runes_of_ascii "!&" ++ [65533; 65533]%N ++ runes_of_ascii "R" ++ [65533]%N ++ runes_of_ascii "u" ++ [65533]%N ++ runes_of_ascii "JR+a" ++ [65533; 31]%N ++ runes_of_ascii "}" ++ [65533; 65533; 23; 0; 65533; 65533]%N)).
Eval vm_compute in ("<<<M93>>>" ++ check (runes_of_ascii "packet repeatCount{	} // c")).
Eval vm_compute in ("<<<M3252>>>" ++ check (runes_of_ascii "// c
root packet pack { }")).
Eval vm_compute in ("<<<M4567>>>" ++ check (runes_of_ascii "options {
}

options {
}")).
Eval vm_compute in ("<<<M703>>>" ++ check (runes_of_ascii "  root  packet As { }")).
Eval vm_compute in ("<<<M3471>>>" ++ check (runes_of_ascii "
// c
MetaData o { }")).
Eval vm_compute in ("<<<M3145>>>" ++ check (runes_of_ascii "packet A {
}
// c x")).
Eval vm_compute in ("<<<M3086>>>" ++ check (runes_of_ascii "// c" ++ [8192]%N ++ runes_of_ascii "
packet A {
}")).
Eval vm_compute in ("<<<M2568>>>" ++ check (runes_of_ascii "packet A { u8 , }")).
Eval vm_compute in ("<<<M726>>>" ++ check (runes_of_ascii "packet u8x {  }
")).
Eval vm_compute in ("<<<M2631>>>" ++ check (runes_of_ascii "packet A { } ;")).
Eval vm_compute in ("<<<M4553>>>" ++ check (runes_of_ascii "packet x {
}")).
Eval vm_compute in ("<<<M2784>>>" ++ check (runes_of_ascii "drJtYG.{8")).
Eval vm_compute in ("<<<M2779>>>" ++ check (runes_of_ascii "3" ++ [65533; 3]%N ++ runes_of_ascii "4" ++ [65533]%N ++ runes_of_ascii "*M")).
Eval vm_compute in ("<<<M2433>>>" ++ check (runes_of_ascii "char1")).
Eval vm_compute in ("<<<M3139>>>" ++ check (runes_of_ascii "// c" ++ [6158]%N)).
Eval vm_compute in ("<<<M179>>>" ++ check (runes_of_ascii "  
")).
Eval vm_compute in ("<<<M2781>>>" ++ check (runes_of_ascii "u32")).
Eval vm_compute in ("<<<M2495>>>" ++ check (runes_of_ascii "@")).
