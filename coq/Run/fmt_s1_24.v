From FP Require Import Lexer Parser ShowPT Digest Formatter.
From Coq Require Import String List NArith.
Import ListNotations.
Open Scope string_scope.
Set Printing Width 100000000.
Set Printing Depth 100000000.
Definition show_fres (r : fres) : string :=
  match r with
  | FOk s => "OK:" ++ sh_escaped s ""
  | FErr s => "ERR:" ++ sh_escaped s ""
  | FPanic p => "PANIC:" ++ p
  end.
Definition check (rs : list rune) : string := digest (show_fres (format_res rs)).
Definition full (rs : list rune) : string := show_fres (format_res rs).
Eval vm_compute in ("<<<M4517>>>" ++ check (runes_of_ascii "options {
    ArrayPrefixLenType = u16;
    FixedStringPadFromLeft = true;
    JavaPackage = ""co\
    m.example.msg"";
    GoPackage = ""ms\
    g"";
    GoModule = ""example.com/msg"";
}

MetaData Meta {
    u32 SeqNum `sequence number`,
    char[8] Symbol `symbol`,
    zchar[5] ZSym `z symbol`,
    string Note,
    Symbol AltSymbol `alias of symbol`,
    f64 Price,
}

packet Inner {
    u8 a,
    i16 b,
    string c,
}

packet Inner2 {
    u8 a2,
    char[3] c2,
}

packet Logon {
    u8 x,
    string user,
    repeat u16 codes,
}

packet Logout {
    u16 reason,
}

packet Empty {
}

root packet Msg {
    u8 su8,
    uint8 luint8,
    u16 su16,
    uint16 luint16,
    u32 su32,
    uint32 luint32,
    u64 su64,
    uint64 luint64,
    i8 si8,
    int8 lint8,
    i16 si16,
    int16 lint16,
    i32 si32,
    int32 lint32,
    i64 si64,
    int64 lint64,
    f32 sf32,
    float32 lfloat32,
    f64 sf64,
    float64 lfloat64,
    char[6] fsplain,
    @leftPad('0')
    char[4] fs0,
    @rightPad('0')
    char[5] fs1,
    @leftPad(' ')
    char[6] fs2,
    @rightPad(' ')
    char[7] fs3,
    @leftPad('\x00')
    char[8] fs4,
    @rightPad('\x00')
    char[9] fs5,
    @leftPad()
    char[10] fs6,
    @rightPad()
    char[11] fs7,
    zchar[7] fz,
    @leftPad('0')
    zchar[3] fzl0,
    string s1 `doc`,
    char[] s2,
    Inner,
    Sub {
        u8 q,
        string w,
        Deep {
            u16 z,
            repeat i32 zs,
        },
    },
    repeat u8 ru8,
    repeat u16 ru16,
    repeat u32 ru32,
    repeat u64 ru64,
    repeat i8 ri8,
    repeat i16 ri16,
    repeat i32 ri32,
    repeat i64 ri64,
    repeat f32 rf32,
    repeat f64 rf64,
    repeat string rstr,
    repeat char[] rstr2,
    repeat char[3] rfs,
    repeat zchar[3] rfz,
    repeat Inner2,
    repeat Grp {
        u8 k,
        char[2] v,
    },
    SeqNum,
    SeqNum seq2,
    repeat SeqNum seqs,
    Symbol,
    AltSymbol alt,
    ZSym,
    Note,
    repeat Symbol syms,
    Price px,
    u16 MsgType,
    u32 BodyLen @lengthOf(Body),
    match MsgType as Body {
        1 : Logon,
        [2, 3] : Logout,
        7 : Logon,
        9 : Empty,
    },
    u32 Checksum @calculatedFrom(""CRC32""),
}")).
Eval vm_compute in ("<<<M697>>>" ++ check (runes_of_ascii "MetaData	leftPad { Header
    falsey ,} packet x_y_z	{  @calculatedFrom( ""`tick`"" )
@rightPad // `tick` ""quote"" 'q'
( '\x00'
) match matchKey
    as
As {
[	""CRC32"" , ""\n""]/// triple
:	Logon ,
[ 007, """ ++ [28040; 24687]%N ++ runes_of_ascii """,
""" ++ [28040; 24687]%N ++ runes_of_ascii """ , """ ++ [128512]%N ++ runes_of_ascii """ ,
0123456789 ]://	t
x [1 ] : /// triple
i8i8
, ""`tick`"": u8x
    , } ,
int64
    _x `tab	here`
    // trailing space 
    ,
    @rightPad( ) char[ 255 ] uint8x `a\`  , string string_ //x
,
    repeat int16 packetx
,// " ++ [27880; 37322]%N ++ runes_of_ascii "
@rightPad
(' ' ) string
    string_ ,
i16 asx @lengthOf(
// " ++ [128512]%N ++ runes_of_ascii " emoji
// trailing space 
int )`// not a comment`
,
float32
uint8x , i8 i64_ @calculatedFrom( ""\n"")
    // packet A { u8 x, }
    ,
}
packet	T { string_
// a // b
// @lengthOf(
@lengthOf(
    A  ) `{ , }` , @calculatedFrom( """" ) match	Pad	as u {
[ ""1"" // " ++ [128512]%N ++ runes_of_ascii " emoji
, ""1"" ] : body,
    [ 0123456789
, ""a\\"",
/// triple
// trailing space 
""" ++ [128512]%N ++ runes_of_ascii """ , ""it's""
,
""it's""	]:
    lengthOf , """ ++ [128512]%N ++ runes_of_ascii """ :	A , [ 0123456789
// c
/// triple
, 3] : rootA , 4294967296
: rootA } , string metadata
@lengthOf(
    A  )
    // packet A { u8 x, }
    ,
@lengthOf( msg_type
) @rightPad( ' ' )  @rightPad (
    )f64	u128
@lengthOf(  rootA
/// triple
// @lengthOf(
) `{ , }` ,} packet  int  {@tag(
255
    // a // b
    ) @rightPad (
    ' ') repeat
char[10 ] u128, @calculatedFrom(
""\" ++ [233]%N ++ runes_of_ascii """
    ) char[ 007
] calculatedFrom
    , @rightPad('\x00' ) repeat zchar[ 007	] i8i8,
@calculatedFrom(
    ""// no comment"" ) char[] x_y_z , zchar[
    // trailing space 
    0123456789 ] msg_type @calculatedFrom( ""a\""b"" ) ,u8 f32a  @lengthOf( rootA ) `crlf
line`	, zchar[	7 // " ++ [128512]%N ++ runes_of_ascii " emoji
]
msg_type	@lengthOf(
    Header
)`// not a comment` ,
char[ 42 ]roots
`" ++ [233]%N ++ runes_of_ascii "` //
, @lengthOf(  stringy  )	@lengthOf( As )
// trailing space 
// " ++ [128512]%N ++ runes_of_ascii " emoji
zchar[7
    ] msg_type // " ++ [128512]%N ++ runes_of_ascii " emoji
`{ , }`	,	}
    root
packet u{ // c
repeat uint64 As, } 	 ")).
Eval vm_compute in ("<<<M3764>>>" ++ check (runes_of_ascii "packet uint8x { match

Pad as // " ++ [128512]%N ++ runes_of_ascii " emoji
repeatCount  {	[	0]:lengthOf
,[  ""// no comment"" ] :

    metadata
,
	}
    ,
metadata  
      // trailing space 
	//
	,
zchar[  /// triple
    	1
]
    trueish 	 //	t
	, @calculatedFrom( ""a\""b""

    )
    match //x
	roots 
as  f32a 
{ 4294967296 : 
i64_ , ""it's""

: a1 ,[ 

    // trailing space 
  00	,0123456789  ] :

    As , 
255: Packet  , ""{,}""
	:  T /// triple
  0 : falsey },
body

    @calculatedFrom(""\n""
        // trailing space 
  )

,
@calculatedFrom( 
""" ++ [128512]%N ++ runes_of_ascii """ )	@tag( 10  )
	char[

10
    ]
trueish 
`doc` , 
@tag(
    255

    )
	repeat

Z9_	{ 
asx

    chars
`// not a comment`
    ,
}	,
	@lengthOf(

Packet

    ) 
u16  crc
    ,	}
    // `tick` ""quote"" 'q'
options 
{ BodyLength

=i32
;
x  // " ++ [128512]%N ++ runes_of_ascii " emoji
  = 
255

    ;
u= 3 
}options  {  }packet 
calculatedFrom{} 

    //x
	root
    packet

    Header{ Pad  {  repeatCount

    ,
	uint16
	zchar ,  match  msg_type 
as pack
	    /// triple
  {
    ""abc""	:
repeatCount ,	""{,}"" :
    repeatCount 
""a	b""
:	calculatedFrom 
}
    ,

    repeat  string 
Logon 
`a\` ,
}
,@lengthOf(
x_y_z

) match
    tag

as repeatCount {007	:	BodyLength ,

    [ 

    //	t
""" ++ [28040; 24687]%N ++ runes_of_ascii """]
    : 
BodyLength 42: string_
    ""// no comment"" 
      // trailing space 
	/// triple
  ://
  	Z9_

,  4294967296 :
    // " ++ [128512]%N ++ runes_of_ascii " emoji

_x
	}	,
f64  u
	`it's`,

zchar[
    00	]
    f32a
`doc`
    , match
i64_

as Logon
{ 
4294967296  // a // b
    :

    metadata
	,
},
char[ 1
]

    Pad
,
zchar[

    0123456789]
	float 	 // @lengthOf(
  	``	, 
}
")).
Eval vm_compute in ("<<<M4202>>>" ++ check (runes_of_ascii "
packet	float
	{

    @leftPad(// packet A { u8 x, }
    	'\x00')

    i64_ {string
	Z9_

    ,} ,	@tag( //x
0
    )

    char[]
u8x
	@calculatedFrom(  ""a	b"")
,
@lengthOf( u128

    )
int8

    u 
`two words`	,u64
	Foo`a\` 	 //x
,

    @leftPad // packet A { u8 x, }
      (	'0'	)
	repeat
	//x
  // " ++ [128512]%N ++ runes_of_ascii " emoji

	repeatCount //x
{
repeat
Pad {

repeat
	tag	{ char[00]	//	t
	  Logon
    `it's`  ,
    string_, }
    ,

match// " ++ [128512]%N ++ runes_of_ascii " emoji
	As 	 // c
as matchKey
    {7
    :

    lengthOf
	},
match
	u128

    as
    tag	{ [ 7 ]
:  // " ++ [128512]%N ++ runes_of_ascii " emoji
      Packet 
//	t
  	, """ ++ [28040; 24687]%N ++ runes_of_ascii """:  Foo ,65535 	 // " ++ [128512]%N ++ runes_of_ascii " emoji
  	: calculatedFrom 
    //x
  	//x

}  /// triple

  ,// a // b
}
	,// " ++ [128512]%N ++ runes_of_ascii " emoji
	f32
	options1  `doc` 	 // c

  ,  // trailing space 
  }  , @leftPad(
'0'

)

match rootA	// packet A { u8 x, }
	as i64_ 
{	3  
      // " ++ [128512]%N ++ runes_of_ascii " emoji

	//
	: msg_type	,

    ""abc""	:	rootA
	,

    //	t
    [

""CRC32""	]	:
float ,  10 :pack	,

""" ++ [128512]%N ++ runes_of_ascii """
:tag},
@rightPad  (
        // trailing space 
  	'\x00' )
char[
65535  ] _x
@calculatedFrom(""" ++ [128512]%N ++ runes_of_ascii """ 
)

    ,

    char[4294967296 
]

lengthOf @calculatedFrom(

    ""// no comment"" )

    , @leftPad 
(' ' )
    zchar[  007  ] 
options1,  /// triple
  }
    packet 

    // " ++ [27880; 37322]%N ++ runes_of_ascii "
  rootA{
} packet
charz
{ repeat

    As

    ``, 
}
    packet

f32a
	{
	}

MetaData  roots{
body	matchKey`// not a comment`,
}
")).
Eval vm_compute in ("<<<M549>>>" ++ check (runes_of_ascii "packet repeatCount
    { i64 falsey	,char[ 65535
]
calculatedFrom  @lengthOf( calculatedFrom
),int32
    repeatCount ,  @tag( 4294967296 ) repeat matchKey { repeat
int64 rootA , match Packet as BodyLength
    {[ 10]:
repeatCount
,""a\\""
    :	msg_type,  [ ""CRC32"",
    00
] : calculatedFrom , 7
    :
lengthOf
, // " ++ [128512]%N ++ runes_of_ascii " emoji
42 : Header // packet A { u8 x, }
, [ ""it's"" , ""\n""	,  65535
, ""`tick`"" ,0 , 65535
, ""{,}"",255 ]://
T ,
} ,} , @calculatedFrom(
""{,}""
) match asx
as metadata
    {
3
: Z9_, ""`tick`""
:
    // @lengthOf(
    string_
} // `tick` ""quote"" 'q'
,@rightPad ( '0' ) int8 u128 , @tag( // `tick` ""quote"" 'q'
3 ) repeat  i8 x_y_z `it's`,
    @lengthOf(chars )  @calculatedFrom(//
""" ++ [28040; 24687]%N ++ runes_of_ascii """)string float	, }
    packet zchar
    {match uint8x
    //	t
    as f32a
    {[ ""`tick`"" , ""CRC32"" ]
: repeatCount ,[
    00
, ""x y"", 255 , 255 ,
    1, 7 ,	007 ,
    7
]
    :	tag, ""{,}"": leftPad
    ,  007 : len , //x
},
@calculatedFrom( ""CRC32""  ) @lengthOf(
x )@calculatedFrom(""\" ++ [233]%N ++ runes_of_ascii """) char[
65535] string_ , }options { }
    MetaData u128
    // c
    {
// c
/// triple
trueish tag
// c
// a // b
, packetx i8i8 , f64 x_y_z//
, //x
trueish u128 , x Header `say ""hi""` , zchar[ 0
    // `tick` ""quote"" 'q'
    ] A, } MetaData i64_
    { }")).
Eval vm_compute in ("<<<M1183>>>" ++ check (runes_of_ascii "options {
    trueish
=// a // b
'0'
/// triple
//
;} options  { x_y_z
    =	'0'
u
= true;
    asx
= ""a	b"" ;
u128= 4294967296  len
=
    true
    ;	} packet u128 { A  { f32 repeatCount
@lengthOf(
    tag) , u32 tag , } ,
// " ++ [128512]%N ++ runes_of_ascii " emoji
// " ++ [128512]%N ++ runes_of_ascii " emoji
repeat
zchar
    zchar`u8 x,` , match
    u as	a1 { [ // " ++ [128512]%N ++ runes_of_ascii " emoji
""a\""b"" ,""" ++ [28040; 24687]%N ++ runes_of_ascii """]: Z9_ , 10 :int ,	[ ""\n"" , ""CRC32"" , 007
,
// " ++ [128512]%N ++ runes_of_ascii " emoji
// " ++ [128512]%N ++ runes_of_ascii " emoji
""" ++ [28040; 24687]%N ++ runes_of_ascii """ ,
""packet""
// " ++ [27880; 37322]%N ++ runes_of_ascii "
// `tick` ""quote"" 'q'
, 255 ,
    //
    1 ,
    255 ]  : matchKey
, }//
, char[/// triple
10 ]Z9_ // trailing space 
@calculatedFrom( """ ++ [128512]%N ++ runes_of_ascii """ )  `" ++ [28040; 24687; 31867; 22411]%N ++ runes_of_ascii "`,
    }
packet o{ match i64_
    as crc
{ ""CRC32"" : MetaDataX // trailing space 
, }
, a1 @lengthOf( Pad ) ,
packetx @calculatedFrom(
""" ++ [28040; 24687]%N ++ runes_of_ascii """
    // " ++ [27880; 37322]%N ++ runes_of_ascii "
    ) // a // b
`{ , }`
,
a1 { Packet // trailing space 
@lengthOf( T	) `two words`, metadata
{ match crc
as matchKey{
[""CRC32"" ,
""// no comment"", ""CRC32"" ,
    65535 ]
    :zchar 3: i64_ ,
} , repeat
stringy , }, x_y_z Pad// " ++ [128512]%N ++ runes_of_ascii " emoji
,
}
,
    zchar[	1
    ] i64_ @calculatedFrom( ""// no comment""
)
    , @rightPad ( ' '// packet A { u8 x, }
)
//
// " ++ [128512]%N ++ runes_of_ascii " emoji
i8 float
@lengthOf( //x
tag )	,
    @tag(  255  )
    match rootA as
    A { ""`tick`"" : asx,  } ,}")).
Eval vm_compute in ("<<<M3743>>>" ++ check (runes_of_ascii "MetaData u

{
metadata x_y_z
,
    i8i8

    len`it's` , zchar[  // " ++ [27880; 37322]%N ++ runes_of_ascii "
42
	] options1
	`{ , }`, }packet u{ 
@calculatedFrom(""abc""// a // b
  	) 
// c
		// " ++ [27880; 37322]%N ++ runes_of_ascii "

char[ 0123456789 ] 
string_
@lengthOf(	Logon

) 
`a\` ,

    string

string_

    @lengthOf(  // packet A { u8 x, }
	float
    )

    ,

char[] // c
crc`line1
line2`
,
    @lengthOf( 
/// triple

// `tick` ""quote"" 'q'
	metadata
) 
u128  {

    char[]
	T,
} ,
f64

As
@calculatedFrom(  // a // b
		""// no comment"")	// " ++ [27880; 37322]%N ++ runes_of_ascii "
		, repeat
Z9_ chars `u8 x,`
, 
@calculatedFrom(
    ""packet"" ) repeat 
// @lengthOf(

a1 tag ,  } 
packet A {
@tag( 7 )

    @rightPad ( 
)@tag( 0123456789

    )
	repeat	crc

    {
repeatCount As

// @lengthOf(
  //	t
    ,
}	,

    match  pack  as u { 
""packet""
:Pad ,
""1""  :

u8x
007
:
	Packet  [ ""packet""
,

    """ ++ [28040; 24687]%N ++ runes_of_ascii """]// " ++ [27880; 37322]%N ++ runes_of_ascii "
	:
BodyLength	""1"" : asx 
,} 
,match
    i64_ as	Header {
4294967296
:

    _x	007

:
	packetx
,
    [
007
	]
:A, //	t
  	}
    ,	uint8 BodyLength,

@lengthOf(
	    // `tick` ""quote"" 'q'
// packet A { u8 x, }
    	i64_  //	t

	)	u8  falsey  //	t
    ,}
")).
Eval vm_compute in ("<<<M125>>>" ++ check (runes_of_ascii "options {
// a // b
// trailing space 
Pad
    =
// " ++ [128512]%N ++ runes_of_ascii " emoji
// " ++ [128512]%N ++ runes_of_ascii " emoji
false Logon = uint32 ; // " ++ [128512]%N ++ runes_of_ascii " emoji
x_y_z =
    1 }
    MetaData
// `tick` ""quote"" 'q'
//	t
_x
    {
    uint32
stringy ,
zchar[ 42
    ] A,
} packet A {
    match As as string_/// triple
{ 0 :
/// triple
// `tick` ""quote"" 'q'
Z9_ ,}
,  @lengthOf(
    Z9_ )@lengthOf( x_y_z )As
    @lengthOf( As )
`doc` ,
u64 calculatedFrom	@calculatedFrom(
""abc"")
`// not a comment` , // c
Packet //	t
string_ ,
    // trailing space 
    @lengthOf(  Z9_
    ) Z9_ @lengthOf( body)// trailing space 
,
calculatedFrom
BodyLength , @lengthOf( msg_type
)repeat
char tag `it's` ,
}
    packet zchar { @leftPad (
//x
//
)
    repeat zchar[ 3 ]Z9_
, } // `tick` ""quote"" 'q'
packet chars { @lengthOf( Z9_ ) repeat string crc , string MetaDataX ,@calculatedFrom( """"
    )
x
    ,
u8x//
, @tag(10 ) match
    falsey as	tag {""CRC32""	: x
    , /// triple
} //	t
,
x_y_z`tab	here`
,
@rightPad(
'0'
)int16
Logon
    ,trueish
, @rightPad
( )
_x @calculatedFrom(
""packet""// c
), } // @lengthOf(")).
Eval vm_compute in ("<<<M732>>>" ++ check (runes_of_ascii "// " ++ [27880; 37322]%N ++ runes_of_ascii "
options  { i8i8
    //	t
    = 007 ; Logon =	3
; }	packet u128 {BodyLength{ char[ //x
7
] int, u16 _x@lengthOf( // packet A { u8 x, }
u)	, i8 rootA
    `tab	here`
,
    stringy MetaDataX`u8 x,` , } , @tag(007 ) f32a @calculatedFrom( """ ++ [28040; 24687]%N ++ runes_of_ascii """ )
    `it's`
,
// c
// a // b
@calculatedFrom( ""x y""
    )char[007 ] string_ //x
@calculatedFrom( """ ++ [128512]%N ++ runes_of_ascii """ )
    , // c
@calculatedFrom( ""// no comment""
) @calculatedFrom( ""a	b"" )  f64
As , // `tick` ""quote"" 'q'
zchar[7]x `
` ,
    /// triple
    u16
o, repeat float32 roots `{ , }`
    ,
@leftPad (
)// c
repeatCount
{ float64
u8x `a\`
// @lengthOf(
// " ++ [27880; 37322]%N ++ runes_of_ascii "
,rootA@lengthOf( //	t
chars ) ,
    match u128  as
roots{
// a // b
//
[
""" ++ [128512]%N ++ runes_of_ascii """ ] : msg_type// c
, ""\n"" :
    u8x
00 :
crc
    //x
    } , },
//x
/// triple
u16 lengthOf @calculatedFrom( // c
""" ++ [233]%N ++ runes_of_ascii "t" ++ [233]%N ++ runes_of_ascii """  ),	}MetaData
repeatCount{ zchar[ 0123456789
] Logon , char[ 42	]  int	,}
    options {}
options // " ++ [128512]%N ++ runes_of_ascii " emoji
{
repeatCount = ""1""
Z9_ = 255  string_ = ' '
;  trueish = 3 ; crc =
""packet""
    ;}
")).
Eval vm_compute in ("<<<M573>>>" ++ check (runes_of_ascii "packet metadata{zchar[ 255] rootA@lengthOf( //	t
stringy ) `` , Z9_
@calculatedFrom(""\n"" ) ,i64_ , @calculatedFrom( ""abc"" )body `crlf
line`
    , // packet A { u8 x, }
match metadata as
leftPad { ""\n""
    : stringy , ""it's"":
rootA , [
""packet"", 10 ]: lengthOf , 1  : zchar ,
} , @tag( 3 )//x
char[] x_y_z `u8 x,` , f64
    o @lengthOf(o ) ,
@calculatedFrom( // c
""" ++ [28040; 24687]%N ++ runes_of_ascii """	)zchar[  007]
options1 @lengthOf(  msg_type )
,
} MetaData T  { int16 u8x,char[
    1 ]
    repeatCount ,  uint16 i64_
`u8 x,` ,
    Header
    x	`` // " ++ [128512]%N ++ runes_of_ascii " emoji
, stringy
msg_type
`" ++ [28040; 24687; 31867; 22411]%N ++ runes_of_ascii "` ,	} packet
i8i8
{
} packet
Header {
repeat Z9_ roots ,
    }  packet calculatedFrom { T	@lengthOf( Foo )`u8 x,`
    // " ++ [128512]%N ++ runes_of_ascii " emoji
    , match tag as
//	t
// a // b
charz { ""\" ++ [233]%N ++ runes_of_ascii """: string_ , [
1,""" ++ [28040; 24687]%N ++ runes_of_ascii """
,/// triple
""CRC32""]: falsey , [ 007] :float	, 3 : MetaDataX ,
[ ""`tick`""] :
u , 1
// trailing space 
// packet A { u8 x, }
: metadata ,}// `tick` ""quote"" 'q'
,
}
")).
Eval vm_compute in ("<<<M942>>>" ++ check (runes_of_ascii "//
packet
// " ++ [128512]%N ++ runes_of_ascii " emoji
//	t
falsey{ x_y_z @calculatedFrom( ""CRC32"" ) `{ , }` , repeat int8
i64_ , char[]f32a
    ,@lengthOf(calculatedFrom ) repeat string f32a `{ , }` , match pack as u128 { [ 10
//	t
// trailing space 
, 7 ] : calculatedFrom ,
""" ++ [128512]%N ++ runes_of_ascii """ : options1
    // c
    , 1 : calculatedFrom , ""\" ++ [233]%N ++ runes_of_ascii """
    :body
    ,
}, @leftPad(' ' ) o packetx ``
,  @calculatedFrom( ""{,}""
    ) char[ 7  ] u , repeat u	_x , Z9_
    , @leftPad
(  ' ' ) string asx ,} packet
zchar { zchar[1 ] As `two words`
, zchar[
    7
] charz @calculatedFrom(""" ++ [128512]%N ++ runes_of_ascii """ ) , // c
@tag( 4294967296
)  char[]
uint8x @calculatedFrom(
    ""`tick`""
)//x
, repeat char
    metadata, zchar[ 65535 /// triple
] metadata , stringy i64_ ,
    @leftPad	('\x00' ) string_ @lengthOf( //
options1 ) ,@tag(// packet A { u8 x, }
65535)  float64 Foo @calculatedFrom(  ""abc""
    ) `{ , }` , }options {
// packet A { u8 x, }
//	t
}
")).
Eval vm_compute in ("<<<M3741>>>" ++ check (runes_of_ascii "packet u128 {
    @tag(0)
    BodyLength {
        Z9_ {
            stringy {
                metadata,
            },
            zchar @lengthOf(x_y_z),
            match lengthOf as float {
                10 : repeatCount,
            },
            repeat string Pad `" ++ [233]%N ++ runes_of_ascii "`,
        },// packet A { u8 x, }
        u64 u128 @calculatedFrom(""a\""b""),
    },
    @rightPad('0')
    uint32 x_y_z @lengthOf(crc),
    match tag as roots {
        4294967296 : packetx,
        007 : Packet,
        // packet A { u8 x, }
        [7, 255, """ ++ [128512]%N ++ runes_of_ascii """, ""a	b""] : x_y_z,
        3 : u128,
        ""a	b"" : u128,
    },
    Foo @lengthOf(o),
    i32 int,
    options1,
    @rightPad()
    @rightPad('\x00')
    x `crlf
        line`,
    @tag(255)
    int16 u8x @lengthOf(trueish) `" ++ [28040; 24687; 31867; 22411]%N ++ runes_of_ascii "`,
    f64 leftPad @calculatedFrom(""CRC32"") `doc`,
}")).
Eval vm_compute in ("<<<M1151>>>" ++ check (runes_of_ascii "
packet
    int{ repeat  o
    `say ""hi""` ,
    // " ++ [128512]%N ++ runes_of_ascii " emoji
    @leftPad ( '\x00' )T
    `// not a comment`,
@tag(
    007 // trailing space 
) repeat uint8x { zchar[	7 ] a1 ,char[] msg_type @lengthOf( calculatedFrom
)
`two words`
,
string_	A // packet A { u8 x, }
,
// " ++ [128512]%N ++ runes_of_ascii " emoji
// " ++ [27880; 37322]%N ++ runes_of_ascii "
} , repeat// " ++ [27880; 37322]%N ++ runes_of_ascii "
char falsey
, repeat /// triple
zchar[
    0123456789 ] repeatCount ,match trueish as As{
[// " ++ [128512]%N ++ runes_of_ascii " emoji
""a\\"", """ ++ [233]%N ++ runes_of_ascii "t" ++ [233]%N ++ runes_of_ascii """
    ,  """ ++ [28040; 24687]%N ++ runes_of_ascii """ ,
    // trailing space 
    7 , """ ++ [233]%N ++ runes_of_ascii "t" ++ [233]%N ++ runes_of_ascii """, """ ++ [28040; 24687]%N ++ runes_of_ascii """ ] :
    int ,0123456789 :
A ,
[00 , """ ++ [128512]%N ++ runes_of_ascii """
    ] :  Header
, // packet A { u8 x, }
""a\\"" : u, } , } packet
// c
// @lengthOf(
body
    {
    float32 Header `doc` ,roots // `tick` ""quote"" 'q'
@calculatedFrom( """" )
,
int32 metadata ,// `tick` ""quote"" 'q'
}
options
    { repeatCount =
    ""abc"" ; } 	 ")).
Eval vm_compute in ("<<<M3660>>>" ++ check (runes_of_ascii "// top
options // c0
{ // c1a
  // c1b
LittleEndian // c2
= // c3a
  // c3b
true // c4a
  // c4b
; // c5
} // c6
packet // c7a
  // c7b
Sub { // c9a
  // c9b
u8 // c10a
  // c10b
a // c11
,
    // c12
@calculatedFrom( // c13a
  // c13b
""CRC16"" // c14
) u64
    // c16
SubSum // c17a
  // c17b
, // c18a
  // c18b
}
    // c19
root
    // c20
packet // c21a
  // c21b
Frame // c22
{ // c23
u16 MsgType ,
    // c26
u16
    // c27
BodyLen
    // c28
@lengthOf( // c29a
  // c29b
Body
    // c30
) // c31
, // c32
Sub // c33
Body
    // c34
, // c35a
  // c35b
string // c36
note // c37a
  // c37b
,
    // c38
@calculatedFrom( ""CRC16""
    // c40
) u64 // c42a
  // c42b
Checksum
    // c43
,
    // c44
u8
    // c45
tail // c46
, // c47
} ")).
Eval vm_compute in ("<<<M4084>>>" ++ check (runes_of_ascii "  root

packet
    o {
	a1 a1
,char[ 3

    ]i8i8 `
`,

    @calculatedFrom(	""a\""b""  )	// packet A { u8 x, }

	repeat	/// triple
	  Pad
    ,} 
  // `tick` ""quote"" 'q'
  // `tick` ""quote"" 'q'
		packet tag
{
	i8i8 @calculatedFrom( ""x y""
)

    `it's`, @lengthOf(
x_y_z
)
    @calculatedFrom( 

    //

//	t
		""a\""b""	)
u
    { match a1

    as
    Logon {  ""\n"" :Pad

,  3

    :	body
,
	"""" : // `tick` ""quote"" 'q'
	Logon ,
    ""\n""

    : T
	,

""`tick`""	:  tag	,
[ """ ++ [233]%N ++ runes_of_ascii "t" ++ [233]%N ++ runes_of_ascii """	/// triple
  	,	7,
	""a\""b""	,	0123456789 ,""abc"" ,
	""" ++ [28040; 24687]%N ++ runes_of_ascii """ ,

    0
    ] :
    Z9_ 
}
	, char[
00 ]	//
  	string_  @lengthOf(asx  )

, 
char[1 ] falsey  ,  } ,match crc as lengthOf
{
    4294967296
:
a1 
}
, }
")).
Eval vm_compute in ("<<<M1370>>>" ++ check (runes_of_ascii "packet
    //	t
    As { @tag( 10 )@lengthOf(
    chars ) zchar {
//x
// `tick` ""quote"" 'q'
metadata { Header`it's`, match
body
as i64_ // trailing space 
{ ""// no comment""
    :
    packetx ,} /// triple
, match
repeatCount	as asx{255
    :
    Foo ,	3 :	int , ""1"" :
chars , }
, uint32 repeatCount@lengthOf(
    // c
    BodyLength )
    ``
    , } ,roots , repeat	rootA `` ,
char MetaDataX@lengthOf( crc
) , } ,
    // a // b
    _x {
    match As	as Foo// @lengthOf(
{ 1 :
    // " ++ [27880; 37322]%N ++ runes_of_ascii "
    stringy
//x
//	t
,}
, }
    ,
    u8	Foo ,  @calculatedFrom( """")
    BodyLength	, char[
    007
    ]
Z9_@calculatedFrom(
""CRC32"" ) , lengthOf , i32 //x
f32a `{ , }` ,
}")).
Eval vm_compute in ("<<<M375>>>" ++ check (runes_of_ascii "packet zchar
{BodyLength x // `tick` ""quote"" 'q'
, // trailing space 
@rightPad ('0' )
match _x as x { [
    """ ++ [128512]%N ++ runes_of_ascii """ ] : falsey  , 65535
:  chars 0 : falsey , [ ""packet""
    ] :// c
metadata	0 : repeatCount,00//
:  packetx ,
} , } packet crc  { match body
//x
//x
as len {
7:
    leftPad
,007 : x_y_z , 00
:
    x_y_z, [ 0, 10 ,
10 , //	t
10	] :	calculatedFrom // packet A { u8 x, }
, ""packet"" : calculatedFrom } , @leftPad ( '0' ) @tag(
4294967296
    ) match u128 // c
as trueish
{	3
: i64_
    ,
    }, char[255
]o @lengthOf(leftPad
    )
`u8 x,` , } MetaData o {float
roots ,
    x_y_z MetaDataX , packetx zchar
    , }")).
Eval vm_compute in ("<<<M209>>>" ++ check (runes_of_ascii "packet _x
    {repeat
u8x {
    repeat pack
    body,
    } ,
@calculatedFrom( ""x y"" ) A { match msg_type as f32a {4294967296
    : crc 1
// c
/// triple
: uint8x , // a // b
[ 255, 0
    ] : // " ++ [27880; 37322]%N ++ runes_of_ascii "
pack , [7 ,
// `tick` ""quote"" 'q'
// packet A { u8 x, }
00 ] :	roots , [ 255
    ]
:	rootA
    , } ,
    char packetx
@calculatedFrom( ""{,}""
    // trailing space 
    )
, } ,
    match
    BodyLength //
as u8x {""a	b"" : u,
    00 // @lengthOf(
: msg_type,// " ++ [27880; 37322]%N ++ runes_of_ascii "
}, match metadata as As{[ 0123456789, 3 ,// a // b
0
, ""it's""
, ""it's"" , ""1"" ] :
int
,
    ""packet"": leftPad}, char[] Pad `say ""hi""` , }

")).
Eval vm_compute in ("<<<M400>>>" ++ check (runes_of_ascii "packet crc {
// packet A { u8 x, }
// trailing space 
Logon ,
    } options { msg_type = '\x00'
;
    }
    packet falsey {
char[
0123456789
] calculatedFrom@calculatedFrom( ""packet""//
)`say ""hi""`, match As as o { 65535// packet A { u8 x, }
: A , """" : _x , ""`tick`"" :zchar,
0123456789 :calculatedFrom , } ,
    @tag( 00 )  As {
char[] calculatedFrom ,
} , float32 zchar
, char[ 255 ] lengthOf,
    @lengthOf(chars
    // " ++ [27880; 37322]%N ++ runes_of_ascii "
    )
@lengthOf( // c
a1 ) body  @calculatedFrom(""// no comment"" )
`crlf
line`	,} root  packet
    _x
{ @calculatedFrom(
    ""a\\""
) repeat
i32	o ,}")).
Eval vm_compute in ("<<<M364>>>" ++ check (runes_of_ascii "
packet chars  { repeat
    u64 As`" ++ [233]%N ++ runes_of_ascii "` ,@tag( 0 )repeat
T metadata
    ``	,
    }packet Z9_{
    @rightPad
    (//
'0'
    // " ++ [128512]%N ++ runes_of_ascii " emoji
    )
    match u as
lengthOf
    {
""abc""/// triple
: T
, ""CRC32"" //x
:  matchKey
[ """ ++ [233]%N ++ runes_of_ascii "t" ++ [233]%N ++ runes_of_ascii """ ,  """ ++ [28040; 24687]%N ++ runes_of_ascii """, 65535, 65535 , ""x y""
    ]
: metadata""it's"" : i8i8, // packet A { u8 x, }
255 : trueish , """":u128 ,	} , } MetaData u8x {
zchar[ 255
]  zchar ,
    // `tick` ""quote"" 'q'
    uint32 uint8x
`" ++ [233]%N ++ runes_of_ascii "`, uint8 trueish ,
    // packet A { u8 x, }
    i64	falsey
,
_x MetaDataX ,string
_x
// trailing space 
//
, } //	t")).
Eval vm_compute in ("<<<M1150>>>" ++ check (runes_of_ascii "
packet
    // " ++ [27880; 37322]%N ++ runes_of_ascii "
    chars {u8x metadata	`u8 x,` , @lengthOf( o
) leftPad /// triple
@lengthOf( leftPad)
    `line1
line2` , match  falsey as o //x
{[ ""\" ++ [233]%N ++ runes_of_ascii """
    ,""a\\"",00]: falsey,0 : u	""a\""b"" :	roots , """ ++ [128512]%N ++ runes_of_ascii """ :
Foo, [
    """ ++ [233]%N ++ runes_of_ascii "t" ++ [233]%N ++ runes_of_ascii """ , ""a\""b""//x
, 7  ]	: // a // b
string_
    // a // b
    ""a\\"" :
    string_	,
    },@calculatedFrom( ""a	b"" ) repeat body  `a\` , }options {stringy = 0 }packet
    // a // b
    chars {
charz@calculatedFrom( ""a	b"" ) ,uint32 lengthOf, int8
    repeatCount ,
uint16 // @lengthOf(
o`
` ,
    }")).
Eval vm_compute in ("<<<M3776>>>" ++ check (runes_of_ascii "options { 

//	t
o
= float64 
; rootA
	=
""a	b""  tag =
    // a // b
    true;	BodyLength = 	 //	t
      ""\" ++ [233]%N ++ runes_of_ascii """ ;

    }

    packet  leftPad{

u8x 
    //	t

  roots
    `{ , }`// " ++ [27880; 37322]%N ++ runes_of_ascii "
	,@calculatedFrom(

    ""// no comment""	)  i64_ 
a1

    , 

// packet A { u8 x, }

	/// triple
    f64

tag 
,
	} MetaData charz  {	string
    msg_type,  roots
x_y_z ,Z9_ chars `tab	here` 
, 
packetx 
u128
	`// not a comment`,  // c
pack  a1	, }

    packet
    falsey

    {uint32 Foo
,
	}
")).
Eval vm_compute in ("<<<M1039>>>" ++ check (runes_of_ascii "MetaData MetaDataX{i64_ leftPad , zchar[7 ] u8x`" ++ [28040; 24687; 31867; 22411]%N ++ runes_of_ascii "` , zchar[// `tick` ""quote"" 'q'
00 ] crc  `crlf
line` , char[
    255 ]
    zchar
, u32 x//
`tab	here`
, i64_ falsey `it's` ,} MetaData A
/// triple
//	t
{ char[ 7 ] // `tick` ""quote"" 'q'
calculatedFrom /// triple
`two words` , asx asx `tab	here`, float64 trueish,zchar[ 42 ] f32a `tab	here` // " ++ [128512]%N ++ runes_of_ascii " emoji
, char[]
    u128 ,
    } packet uint8x { @tag(  1
//
// @lengthOf(
) repeat
    //	t
    char[]
Packet, } // c")).
Eval vm_compute in ("<<<M1192>>>" ++ check (runes_of_ascii "packet
    x_y_z { i64 A @lengthOf( u128 ) `a\` ,
int8
    pack `u8 x,` ,	@calculatedFrom( """ ++ [233]%N ++ runes_of_ascii "t" ++ [233]%N ++ runes_of_ascii """ )Foo repeatCount ,//
@calculatedFrom(	""" ++ [28040; 24687]%N ++ runes_of_ascii """
) uint8 tag
    // " ++ [27880; 37322]%N ++ runes_of_ascii "
    , u32
crc@calculatedFrom( ""a\\"" // packet A { u8 x, }
)
, // c
@calculatedFrom( ""a	b"" ) string u8x
`// not a comment`
,
@tag( 255  )
    @calculatedFrom(
""" ++ [128512]%N ++ runes_of_ascii """
    // `tick` ""quote"" 'q'
    )char[
    65535
    ] lengthOf
    `{ , }`, u16
    charz, } MetaData body {Logon Pad
, } 	 ")).
Eval vm_compute in ("<<<M1088>>>" ++ check (runes_of_ascii "options { int// a // b
=7 ;float = int64;
/// triple
// a // b
stringy= 3 rootA
    // packet A { u8 x, }
    =""CRC32"" x = // c
true // " ++ [128512]%N ++ runes_of_ascii " emoji
} options{ A=uint16
    // @lengthOf(
    ; metadata = ""1""
// trailing space 
// `tick` ""quote"" 'q'
packetx=10// " ++ [128512]%N ++ runes_of_ascii " emoji
} MetaData Packet { T int	`u8 x,` , o _x
    ,
falsey chars ,
} root packet string_
{ packetx Pad`a\`
    , trueish x_y_z ,body , repeat char[ 3]  options1 `it's` , }")).
Eval vm_compute in ("<<<M4226>>>" ++ check (runes_of_ascii "

  packet 
Packet{ @tag( 4294967296
	) charz	{ 
repeat  char[ 0123456789
]  BodyLength

,
repeat  trueish

    stringy ,
}
    ,
    }
    options{

    body
=
	char 
; 
leftPad =uint16
	    //	t
;
stringy 
=
true

; packetx 
=
    true

    // `tick` ""quote"" 'q'
//
  float =
char[
255
    ]
    } 
	// `tick` ""quote"" 'q'
		/// triple
  	root 
packet
    len
{
	@leftPad
(

'0'
)uint64 a1,
    }

")).
Eval vm_compute in ("<<<M1225>>>" ++ check (runes_of_ascii "options {
options1 =
    4294967296 ;
    }
    root packet crc
// trailing space 
// " ++ [27880; 37322]%N ++ runes_of_ascii "
{@calculatedFrom(
//
// `tick` ""quote"" 'q'
""a\""b"")
    zchar[
255
] u8x
    // a // b
    @lengthOf( //
u8x
) `u8 x,`// " ++ [128512]%N ++ runes_of_ascii " emoji
,
repeat int16
    x_y_z ,  calculatedFrom@lengthOf(
    x_y_z )
    ,
    //
    @rightPad ( ' ' ) repeat char[] calculatedFrom ,
    repeat
Foo rootA
`// not a comment` , }
")).
Eval vm_compute in ("<<<M484>>>" ++ check (runes_of_ascii "packet packetx { // packet A { u8 x, }
@rightPad
(' ') match x_y_z as options1 {[42
    ] : f32a , ""`tick`"" :
    trueish , [ 65535 ,""" ++ [233]%N ++ runes_of_ascii "t" ++ [233]%N ++ runes_of_ascii """
] :crc, """ ++ [128512]%N ++ runes_of_ascii """ :
lengthOf ""a	b""  :  Header , 255 : x_y_z
// @lengthOf(
// @lengthOf(
,
    }
    ,	} packet zchar
    // trailing space 
    { Header
    // " ++ [128512]%N ++ runes_of_ascii " emoji
    @calculatedFrom(
    ""CRC32"") , @leftPad( )repeatCount charz	, }
//
")).
Eval vm_compute in ("<<<M113>>>" ++ check (runes_of_ascii "packet body { Pad {a1`crlf
line`
    , zchar[ 007] a1 ,char[10 ] x_y_z  ,
repeat
zchar[ 1  ] metadata `u8 x,` , } , string  trueish
,repeat uint8x u ,	@tag( /// triple
007 ) calculatedFrom
{repeat BodyLength
`doc` ,
    }/// triple
, int64 lengthOf,/// triple
@lengthOf(
leftPad) @calculatedFrom( ""x y"" ) @calculatedFrom( // " ++ [27880; 37322]%N ++ runes_of_ascii "
""\" ++ [233]%N ++ runes_of_ascii """ )  falsey a1 , }")).
Eval vm_compute in ("<<<M3552>>>" ++ check (runes_of_ascii "// top
packet // c0
B // c1a
  // c1b
{ // c2
u8
    // c3
a , // c5a
  // c5b
string s // c7
,
    // c8
} // c9a
  // c9b
root // c10
packet
    // c11
P
    // c12
{ // c13a
  // c13b
u16 // c14a
  // c14b
L // c15
@lengthOf(
    // c16
B ) // c18
,
    // c19
B
    // c20
, // c21
u8
    // c22
t // c23a
  // c23b
, } // c25a
  // c25b
")).
Eval vm_compute in ("<<<M921>>>" ++ check (runes_of_ascii "options//x
{ } // @lengthOf(
root packet trueish {f32
Logon @calculatedFrom( ""`tick`"" ) `
` ,zchar[  0123456789 ]As @calculatedFrom( ""a	b"" ) ,
chars
    , char[] u128@lengthOf(
a1)
    `
`// a // b
,
    @tag( 255 )
repeat asx
    ,
} MetaData
    lengthOf //
{_x tag , float32 zchar , } options {As	= i64 ;} MetaData len {}
")).
Eval vm_compute in ("<<<M3804>>>" ++ check (runes_of_ascii "

  packet
uint8x
	{

@leftPad (	'\x00'

) float32  x_y_z @lengthOf(
    x

)`a\` ,	int32 Header ,

match asx
	as
	string_ 
{

""""

    :
lengthOf

,
1 :
uint8x , 
}	,repeat  /// triple
  	a1 { repeat  zchar[0 ] Packet	, 	 // trailing space 

	char falsey

    @calculatedFrom( /// triple
	""1"" 
), },} 	 // " ++ [128512]%N ++ runes_of_ascii " emoji")).
Eval vm_compute in ("<<<M2068>>>" ++ check (runes_of_ascii "MetaData
   @tag u { }  options {
// c
// @lengthOf(
float = int8 ;rootA =false ; As =	int16 // `tick` ""quote"" 'q'
repeatCount
    // trailing space 
    =
    int16
; u8x =
    //	t
    '\x00' ; } options	{
    repeatCount
= 0
u128
    //
    = false ; i64_
// trailing space 
// `tick` ""quote"" 'q'
= '0' ; //	t
}
")).
Eval vm_compute in ("<<<M2043>>>" ++ check (runes_of_ascii "MetaData
    u { }  options {
// c
// @lengthOf(
float = int8 ;rootA =false ; As =	int16 // `tick` ""quote"" 'q'
repeatCount
    // trailing space 
    =
    int16
; u8x =
    //	t
    '\x00' ; } options	{
    repeatCount
= 0
u128
    //
    = false ; i64_
// trailing space 
// `tick` ""quote"" 'q'
= match ; //	t
}
")).
Eval vm_compute in ("<<<M1877>>>" ++ check (runes_of_ascii "MetaData
    u { }  { options
// c
// @lengthOf(
float = int8 ;rootA =false ; As =	int16 // `tick` ""quote"" 'q'
repeatCount
    // trailing space 
    =
    int16
; u8x =
    //	t
    '\x00' ; } options	{
    repeatCount
= 0
u128
    //
    = false ; i64_
// trailing space 
// `tick` ""quote"" 'q'
= '0' ; //	t
}
")).
Eval vm_compute in ("<<<M2027>>>" ++ check (runes_of_ascii "MetaData
    u { }  options {
// c
// @lengthOf(
float = int8 ;rootA =false ; As =	int16 // `tick` ""quote"" 'q'
repeatCount
    // trailing space 
    =
    int16
; u8x =
    //	t
    '\x00' ; } options	{
    repeatCount
= 0
u128
    //
    = false i64_ ;
// trailing space 
// `tick` ""quote"" 'q'
= '0' ; //	t
}
")).
Eval vm_compute in ("<<<M2050>>>" ++ check (runes_of_ascii "MetaData
    u { }  options {
// c
// @lengthOf(
float = int8 ;rootA =false ; As =	int16 // `tick` ""quote"" 'q'
repeatCount
    // trailing space 
    =
    int16
; u8x =
    //	t
    '\x00' ; } options	{
    repeatCount
= 0
u128
    //
    = false ; i64_
// trailing space 
// `tick` ""quote"" 'q'
= '0' ; //	t

")).
Eval vm_compute in ("<<<M1985>>>" ++ check (runes_of_ascii "MetaData
    u { }  options {
// c
// @lengthOf(
float = int8 ;rootA =false ; As =	int16 // `tick` ""quote"" 'q'
repeatCount
    // trailing space 
    =
    int16
; u8x =
    //	t
    '\x00' ; } 	{
    repeatCount
= 0
u128
    //
    = false ; i64_
// trailing space 
// `tick` ""quote"" 'q'
= '0' ; //	t
}
")).
Eval vm_compute in ("<<<M2058>>>" ++ check (runes_of_ascii "MetaData
    u { }  options {
// c
// @lengthOf(
float = int8 ;rootA =false ; As =	int16 // `tick` ""quote"" 'q'
repeatCount
    // trailing space 
    =
    int16
; u8x =
    //	t
    '\x00' ; } options	{
    repeatCount
= 0
u128
    //
    = false ; i64_
// trailing space 
// `tick` ""quote"" 'q'
")).
Eval vm_compute in ("<<<M3962>>>" ++ check (runes_of_ascii "packet charz {
    @tag(7)
    repeat _x,
}

MetaData x {
    i32 float,
    f32 u8x,
    uint64 rootA `crlf
    line`,
}

options {
    T = f64;
    calculatedFrom = true
}

packet trueish {
}

root packet rootA {
    crc _x `say ""hi""`,
    stringy uint8x,
    repeat x_y_z `u8 x,`,
}")).
Eval vm_compute in ("<<<M676>>>" ++ check (runes_of_ascii "packet charz { @tag(7) repeat _x , }MetaData x	{ i32 float , f32 u8x,uint64
rootA	`crlf
line` , }  options{ T
= f64 ;
    calculatedFrom=
true	}
packet trueish {
    } root
    //	t
    packet rootA
{ crc _x `say ""hi""`, stringy
    //
    uint8x, repeat
x_y_z`u8 x,`
, }
")).
Eval vm_compute in ("<<<M3598>>>" ++ check (runes_of_ascii "packet MDSnapshotZZ {
    u8 a,
}
packet OrderACK {
    u16 b,
}
packet HTTPServerInfo {
    string s,
}
root packet FIXMsg {
    u8 KType,
    MDSnapshotZZ,
    repeat OrderACK,
    match KType as Body {
        1 : HTTPServerInfo,
        2 : OrderACK,
    },
}
")).
Eval vm_compute in ("<<<M478>>>" ++ check (runes_of_ascii "
packet	packetx{
    @leftPad
    /// triple
    (
'0' )	@lengthOf(  T ) @calculatedFrom( ""\" ++ [233]%N ++ runes_of_ascii """ )
match i64_
    as tag// " ++ [128512]%N ++ runes_of_ascii " emoji
{
    ""abc""// packet A { u8 x, }
:Header , [7
] :
chars,	""a	b"" :	f32a , ""\" ++ [233]%N ++ runes_of_ascii """ :f32a ,	""CRC32"" : zchar , ""abc""  : Z9_, } , }
")).
Eval vm_compute in ("<<<M1578>>>" ++ check (runes_of_ascii "packet
//	t
// trailing space 
_x {
// packet A { u8 x, }
// c
char[
3
    ] u8x @lengthOf(
u8x ) , @calculatedFrom(""" ++ [128512]%N ++ runes_of_ascii """ // @lengthOf(
)
i16	Foo
@lengthOf(	string_
    ) )`doc`	, repeat	i64 metadata , @lengthOf( string_
) i8 // c
u  `line1
line2`	,
}
")).
Eval vm_compute in ("<<<M893>>>" ++ check (runes_of_ascii "packet string_ {
zchar[ 65535 ]
    stringy `
`
,
    // `tick` ""quote"" 'q'
    @lengthOf( As) string
Packet
    ,
} packet	Foo {@tag( 255)
lengthOf@calculatedFrom(
    ""{,}""
) ,
    }root packet MetaDataX {
@leftPad( '0'  )
    stringy`{ , }` , }
")).
Eval vm_compute in ("<<<M1629>>>" ++ check (runes_of_ascii "packet
//	t
// trailing space 
_x {
// packet A { u8 x, }
// c
char[
3
    ] u8x @lengthOf(
u8x ) , @calculatedFrom(""" ++ [128512]%N ++ runes_of_ascii """ // @lengthOf(
)
i16	Foo
@lengthOf(	string_
    )`doc`	, repeat	i64 metadata , @lengthOf( string_
) u // c
i8  `line1
line2`	,
}
")).
Eval vm_compute in ("<<<M3714>>>" ++ check (runes_of_ascii "
MetaData
T	{ 

// c
    //	t
      trueish
	i64_ 
`" ++ [233]%N ++ runes_of_ascii "` 	 // c
,f64
	a1
`doc`

,
	int A
    ,
u32
crc
    `" ++ [28040; 24687; 31867; 22411]%N ++ runes_of_ascii "`
,charz _x
/// triple

// trailing space 
		,  
  // trailing space 
  char[  // packet A { u8 x, }
  255 ]  msg_type 
`" ++ [28040; 24687; 31867; 22411]%N ++ runes_of_ascii "`
,
    }

")).
Eval vm_compute in ("<<<M1602>>>" ++ check (runes_of_ascii "packet
//	t
// trailing space 
_x {
// packet A { u8 x, }
// c
char[
3
    ] u8x @lengthOf(
u8x ) , @calculatedFrom(""" ++ [128512]%N ++ runes_of_ascii """ // @lengthOf(
)
i16	Foo
@lengthOf(	string_
    )`doc`	, repeat	i64  , @lengthOf( string_
) i8 // c
u  `line1
line2`	,
}
")).
Eval vm_compute in ("<<<M763>>>" ++ check (runes_of_ascii "packet rootA{
char[4294967296 ] rootA@calculatedFrom(	""a	b""	) `crlf
line`, @calculatedFrom( """" )
// a // b
// trailing space 
pack@lengthOf(// packet A { u8 x, }
rootA)  `
`,
@rightPad (
' ' ) repeat stringy repeatCount`two words`, }")).
Eval vm_compute in ("<<<M3748>>>" ++ check (runes_of_ascii "packet f32a {
}

MetaData x {
    BodyLength zchar,
}

packet metadata {
    @tag(7)
    @lengthOf(uint8x)
    body {
        u8 Z9_ @calculatedFrom(""it's"") `u8 x,`,
    },
    float32 falsey @lengthOf(u) `line1
    line2`,
}")).
Eval vm_compute in ("<<<M1762>>>" ++ check (runes_of_ascii "options { trueish = ""`tick`"" ; string_= """ ++ [233]%N ++ runes_of_ascii "t" ++ [233]%N ++ runes_of_ascii """
    // c
    } root
    packet body { stringy @calculatedFrom(
""a	b"" ) `line1
line2` `line1
line2` , }
packet Logon {
    @leftPad(
    ' ' ) //	t
u16 string_ `u8 x,` ,
}
")).
Eval vm_compute in ("<<<M1846>>>" ++ check (runes_of_ascii "options { t@leftpadrueish = ""`tick`"" ; string_= """ ++ [233]%N ++ runes_of_ascii "t" ++ [233]%N ++ runes_of_ascii """
    // c
    } root
    packet body { stringy @calculatedFrom(
""a	b"" ) `line1
line2` , }
packet Logon {
    @leftPad(
    ' ' ) //	t
u16 string_ `u8 x,` ,
}
")).
Eval vm_compute in ("<<<M1852>>>" ++ check (runes_of_ascii "options { trueish = ""`tick`"" ; string_= """ ++ [233]%N ++ runes_of_ascii "t" ++ [233]%N ++ runes_of_ascii "@tag""
    // c
    } root
    packet body { stringy @calculatedFrom(
""a	b"" ) `line1
line2` , }
packet Logon {
    @leftPad(
    ' ' ) //	t
u16 string_ `u8 x,` ,
}
")).
Eval vm_compute in ("<<<M124>>>" ++ check (runes_of_ascii "
root packet crc{ u16	Z9_ `tab	here`,
repeat rootA,
    // trailing space 
    }
packet leftPad	{ @rightPad( )
    @tag(  0 // a // b
)repeat	i16 As `doc` , } MetaData  body // a // b
{x f32a,  }
// c
")).
Eval vm_compute in ("<<<M1733>>>" ++ check (runes_of_ascii "options { trueish = ""`tick`"" ; string_= """ ++ [233]%N ++ runes_of_ascii "t" ++ [233]%N ++ runes_of_ascii """
    // c
    } root
    packet { body stringy @calculatedFrom(
""a	b"" ) `line1
line2` , }
packet Logon {
    @leftPad(
    ' ' ) //	t
u16 string_ `u8 x,` ,
}
")).
Eval vm_compute in ("<<<M1716>>>" ++ check (runes_of_ascii "options { trueish = ""`tick`"" ; string_= """ ++ [233]%N ++ runes_of_ascii "t" ++ [233]%N ++ runes_of_ascii """
    // c
     root
    packet body { stringy @calculatedFrom(
""a	b"" ) `line1
line2` , }
packet Logon {
    @leftPad(
    ' ' ) //	t
u16 string_ `u8 x,` ,
}
")).
Eval vm_compute in ("<<<M1779>>>" ++ check (runes_of_ascii "options { trueish = ""`tick`"" ; string_= """ ++ [233]%N ++ runes_of_ascii "t" ++ [233]%N ++ runes_of_ascii """
    // c
    } root
    packet body { stringy @calculatedFrom(
""a	b"" ) `line1
line2` , }
, Logon {
    @leftPad(
    ' ' ) //	t
u16 string_ `u8 x,` ,
}
")).
Eval vm_compute in ("<<<M110>>>" ++ check (runes_of_ascii "packet i64_
{	@tag( // a // b
0123456789) x_y_z@calculatedFrom( ""it's"" ) , @rightPad ( ' ' ) @tag( 007
    ) leftPad {
    zchar[00 ]Pad , }
,int32 _x@lengthOf( BodyLength
/// triple
//
) ,
}
")).
Eval vm_compute in ("<<<M1041>>>" ++ check (runes_of_ascii "// @lengthOf(
options {
    } // c
root packet Packet {@calculatedFrom( """" )
    x u128 `" ++ [28040; 24687; 31867; 22411]%N ++ runes_of_ascii "`  ,
    }
options { msg_type =  i16 ; packetx= false falsey= ""x y"" ;
packetx = 1 ; As = true }")).
Eval vm_compute in ("<<<M3575>>>" ++ check (runes_of_ascii "// top
root // c0
packet // c1
P // c2a
  // c2b
{ u8 // c4
s_u8 // c5
, // c6a
  // c6b
repeat // c7a
  // c7b
u8 r_u8
    // c9
, // c10a
  // c10b
u16 b_len , } // c14a
  // c14b
")).
Eval vm_compute in ("<<<M515>>>" ++ check (runes_of_ascii "// " ++ [27880; 37322]%N ++ runes_of_ascii "
MetaData// a // b
int
{
    // `tick` ""quote"" 'q'
    char[
    4294967296 ] packetx
    `line1
line2`,rootA // trailing space 
matchKey`two words`, matchKey Packet , }")).
Eval vm_compute in ("<<<M4489>>>" ++ check (runes_of_ascii "

  root

    packet
    matchKey {
zchar[
3	]

pack	@calculatedFrom(

    ""a	b"")`doc`
	,
    } 
options{

    } MetaData

A { 
        // c

int8  msg_type ,}
")).
Eval vm_compute in ("<<<M1372>>>" ++ check (runes_of_ascii "packet
x	{ As { a1
{ char[
65535 ]
// " ++ [27880; 37322]%N ++ runes_of_ascii "
/// triple
crc `` ,	msg_type ,} , } , repeat Z9_ {
    T ,	pack ,	repeat tag  A, int64/// triple
f32a`u8 x,` ,	}
,
} 	 ")).
Eval vm_compute in ("<<<M2387>>>" ++ check (runes_of_ascii "// c
packet x { @lengthOf( metadata ) repeat lengthOf
,a1 false
trueish	,// c
repeat//	t
MetaDataX , } , zchar[
    42	] rootA // `tick` ""quote"" 'q'
,
    }
")).
Eval vm_compute in ("<<<M4204>>>" ++ check (runes_of_ascii "packet

A
{

    u16
len  @lengthOf(
	body  )`a
    b
  c`

    ,

u32
	crc

@calculatedFrom( ""CRC32"" 
)`a
    b
  c`

    , 
string
body
    ,
    }")).
Eval vm_compute in ("<<<M2364>>>" ++ check (runes_of_ascii "// c
packet x { @lengthOf( metadata ) repeat lengthOf
,a1{
trueish	u8// c
repeat//	t
MetaDataX , } , zchar[
    42	] rootA // `tick` ""quote"" 'q'
,
    }
")).
Eval vm_compute in ("<<<M2380>>>" ++ check (runes_of_ascii "// c
packet x { @lengthOf( metadata ) repeat lengthOf
,a1{
trueish	,// c
repeat//	t
MetaDataX , , } zchar[
    42	] rootA // `tick` ""quote"" 'q'
,
    }
")).
Eval vm_compute in ("<<<M2409>>>" ++ check (runes_of_ascii "// c
packet x { @lengthOf( metadata ) repeat lengthOf
,a1{
trueish	,// c
repeat//	t
MetaDataX  } , zchar[
    42	] rootA // `tick` ""quote"" 'q'
,
    }
")).
Eval vm_compute in ("<<<M2347>>>" ++ check (runes_of_ascii "// c
packet x { @lengthOf( metadata ) repeat lengthOf
,{
trueish	,// c
repeat//	t
MetaDataX , } , zchar[
    42	] rootA // `tick` ""quote"" 'q'
,
    }
")).
Eval vm_compute in ("<<<M60>>>" ++ check (runes_of_ascii "MetaData crc // trailing space 
{}options
{ metadata = 10 ; u = 65535
repeatCount
    = char[ 0123456789 // packet A { u8 x, }
]  }MetaData i8i8{ }
")).
Eval vm_compute in ("<<<M982>>>" ++ check (runes_of_ascii "packet	u128 { @leftPad ( ' ' )int32 _x `line1
line2`  ,
    @leftPad (
    ) u64 stringy
    // @lengthOf(
    @lengthOf( matchKey
    ) `it's` ,}
")).
Eval vm_compute in ("<<<M1188>>>" ++ check (runes_of_ascii "options{ roots=
    char[ 7 ]
len // c
= i32 }
    // a // b
    MetaData u8x
    {i64
a1
    , }
packet metadata { @leftPad
( ) int64 len, }
")).
Eval vm_compute in ("<<<M1165>>>" ++ check (runes_of_ascii "
MetaData calculatedFrom	{	crc	Logon `` , x
u8x //x
`line1
line2`
//	t
// packet A { u8 x, }
, i64
u128  ,char[ 0123456789] packetx //x
, }
")).
Eval vm_compute in ("<<<M588>>>" ++ check (runes_of_ascii "MetaData
packetx  { string
//	t
//
matchKey, /// triple
u8
    trueish
    ,
// packet A { u8 x, }
// `tick` ""quote"" 'q'
} // a // b")).
Eval vm_compute in ("<<<M4124>>>" ++ check (runes_of_ascii "MetaData options1 {
    lengthOf As,
    char[255] crc,
    char[] leftPad,
    As leftPad,
    uint16 u128,
    f32 x `{ , }`,
}")).
Eval vm_compute in ("<<<M632>>>" ++ check (runes_of_ascii "packet	roots { zchar @lengthOf(calculatedFrom )  `" ++ [233]%N ++ runes_of_ascii "` , zchar[ 1] Foo `
`, }
options {
    i64_ = ""a\\"" Logon= 1
i64_= i64	}
")).
Eval vm_compute in ("<<<M3311>>>" ++ check (runes_of_ascii "
// c
root packet matchKey { zchar[ 3 ] pack @calculatedFrom( ""a	b"" ) `doc` , } options { } MetaData A { int8 msg_type , }")).
Eval vm_compute in ("<<<M3329>>>" ++ check (runes_of_ascii "root packet matchKey { zchar[ 3 ] pack @calculatedFrom(
// c
""a	b"" ) `doc` , } options { } MetaData A { int8 msg_type , }")).
Eval vm_compute in ("<<<M70>>>" ++ check (runes_of_ascii "
options {  MetaDataX= ""\" ++ [233]%N ++ runes_of_ascii """ }options {
// @lengthOf(
//	t
Logon = ""1""
    x_y_z = 65535  } MetaData
    //	t
    u8x {}
")).
Eval vm_compute in ("<<<M3553>>>" ++ check (runes_of_ascii "

  packet B

{

u8
    a
    , string
s	,
}

root  packet P

{
	u16 
L
@lengthOf(B ) ,	B,

    u8
    t
    ,
}
")).
Eval vm_compute in ("<<<M1407>>>" ++ check (runes_of_ascii "
packet
    falsey  Header@calculatedFrom(""packet""  ) , char[
    0123456789 ] packetx
    , } // `tick` ""quote"" 'q'")).
Eval vm_compute in ("<<<M4416>>>" ++ check (runes_of_ascii "  packet A{ 
match

    k as
	n {
[ 1
,  22 ,
	007

, 
4, 
5 
,

66
	,

7	,

8,

9 ]:  B ,
    2
: C
},
    }")).
Eval vm_compute in ("<<<M1104>>>" ++ check (runes_of_ascii "root //	t
packet roots { // " ++ [27880; 37322]%N ++ runes_of_ascii "
} packet
    matchKey {
@calculatedFrom( ""a\""b"" )char[]tag // @lengthOf(
, }
")).
Eval vm_compute in ("<<<M35>>>" ++ check (runes_of_ascii "options { body = 42 ;Logon
// @lengthOf(
// " ++ [27880; 37322]%N ++ runes_of_ascii "
=
    '0'
    ; metadata=
""" ++ [128512]%N ++ runes_of_ascii """; Foo =true//
i64_
='\x00'  }
")).
Eval vm_compute in ("<<<M3703>>>" ++ check (runes_of_ascii "MetaData
Packet

    {
    }

    options {

    Z9_ =
char[]	;
    _x
= '0'

;

body  = false
} ")).
Eval vm_compute in ("<<<M283>>>" ++ check (runes_of_ascii "MetaData asx { chars
f32a , string /// triple
T , } options
{ zchar=
    10
    // " ++ [27880; 37322]%N ++ runes_of_ascii "
    crc= true}
")).
Eval vm_compute in ("<<<M645>>>" ++ check (runes_of_ascii "packet lengthOf
{match u128	as i8i8
// " ++ [128512]%N ++ runes_of_ascii " emoji
// c
{""a\\"" :Header
, } // `tick` ""quote"" 'q'
, }")).
Eval vm_compute in ("<<<M3735>>>" ++ check (runes_of_ascii "MetaData float {
    float64 charz `
    `,
}

root packet chars {
    @rightPad('0')
    Foo,
}")).
Eval vm_compute in ("<<<M998>>>" ++ check (runes_of_ascii "  MetaData stringy { zchar[ 4294967296
] charz , string// `tick` ""quote"" 'q'
x_y_z
    ,  }

")).
Eval vm_compute in ("<<<M2954>>>" ++ check (runes_of_ascii "packet A {
  match k as n {
    [1, ""bb"", 007, ""d"", 5, ""f"", 7, ""h"", 9] : B
    2 : C
  },
}")).
Eval vm_compute in ("<<<M2943>>>" ++ check (runes_of_ascii "packet A {
  match k as n {
    [""a"", 22, ""c c"", 4, ""e"", 66, ""g"", 8] : B
    2 : C
  },
}")).
Eval vm_compute in ("<<<M3297>>>" ++ check (runes_of_ascii "MetaData float { float64 charz `
` , } root packet chars { @rightPad ( '0' // c
) Foo , }")).
Eval vm_compute in ("<<<M3508>>>" ++ check (runes_of_ascii "packet chars { } packet MetaDataX { @tag( 42 ) i16 string_
// c
, repeat x `say ""hi""` , }")).
Eval vm_compute in ("<<<M2941>>>" ++ check (runes_of_ascii "packet A {
  match k as n {
    [1, ""bb"", 007, ""d"", 5, ""f"", 7, ""h""] : B
    2 : C
  },
}")).
Eval vm_compute in ("<<<M4089>>>" ++ check (runes_of_ascii "packet

A
    {
	u32

crc @calculatedFrom(
""\
""
) , @calculatedFrom( ""\
""

)u8
	y,
}
")).
Eval vm_compute in ("<<<M3215>>>" ++ check (runes_of_ascii "packet metadata // c
{ Logon { A `" ++ [28040; 24687; 31867; 22411]%N ++ runes_of_ascii "` , tag o , } , zchar len `// not a comment` , }")).
Eval vm_compute in ("<<<M3428>>>" ++ check (runes_of_ascii "
// c
packet o { repeat Logon uint8x , } options { asx = zchar[ 3 ] stringy = '\x00' }")).
Eval vm_compute in ("<<<M3435>>>" ++ check (runes_of_ascii "packet o { repeat // c
Logon uint8x , } options { asx = zchar[ 3 ] stringy = '\x00' }")).
Eval vm_compute in ("<<<M4161>>>" ++ check (runes_of_ascii "
packet A { B b`tab
	x`
    ,B

    `tab
	x` 
, 
repeat
B 
bs `tab
	x`,

    }
")).
Eval vm_compute in ("<<<M3423>>>" ++ check (runes_of_ascii "MetaData body { i64 pack `it's` , } packet stringy { int16 calculatedFrom , }
// c
")).
Eval vm_compute in ("<<<M3412>>>" ++ check (runes_of_ascii "MetaData body { i64 pack `it's` , } packet stringy // c
{ int16 calculatedFrom , }")).
Eval vm_compute in ("<<<M2907>>>" ++ check (runes_of_ascii "packet A {
  match k as n {
    [""a"", ""bb"", 007, ""d"", ""e""] : B,
    2 : C
  },
}")).
Eval vm_compute in ("<<<M1234>>>" ++ check (runes_of_ascii "//
options{charz
= ""1"" trueish = """" ;  asx =
'0'i8i8 //	t
=
    ""it's""	;  }")).
Eval vm_compute in ("<<<M2905>>>" ++ check (runes_of_ascii "packet A {
  match k as n {
    [1, 22, ""c c"", 4, 5] : B,
    2 : C
  },
}")).
Eval vm_compute in ("<<<M2874>>>" ++ check (runes_of_ascii "packet A {
  match k as n {
    [""a"", ""bb"", ""c c""] : B
    2 : C
  },
}")).
Eval vm_compute in ("<<<M1382>>>" ++ check (runes_of_ascii "options
{	trueish = f64
    ;
i8i8  =
int16 ;rootA = ""`tick`"" ;} 	 ")).
Eval vm_compute in ("<<<M3251>>>" ++ check (runes_of_ascii "// top
root // c0a
  // c0b
packet pack // c2a
  // c2b
{ // c3
} ")).
Eval vm_compute in ("<<<M1144>>>" ++ check (runes_of_ascii "packet
    pack { int64 options1  ,
// packet A { u8 x, }
//
}
")).
Eval vm_compute in ("<<<M2747>>>" ++ check (runes_of_ascii "options int8 x_y_z i16 char[ char[] @calculatedFrom( packet =")).
Eval vm_compute in ("<<<M2138>>>" ++ check (runes_of_ascii "options{
_x
= true
} options
{ o	= /// triple
false
    ;")).
Eval vm_compute in ("<<<M3754>>>" ++ check (runes_of_ascii "packet x {
    @rightPad()
    repeat roots Logon `doc`,
}")).
Eval vm_compute in ("<<<M300>>>" ++ check (runes_of_ascii "
MetaData trueish // c
{  string	trueish `it's`	,
}")).
Eval vm_compute in ("<<<M4569>>>" ++ check (runes_of_ascii "MetaData stringy {
    zchar[007] body `tab	here`,
}")).
Eval vm_compute in ("<<<M1246>>>" ++ check (runes_of_ascii "options// trailing space 
{ lengthOf =
'0'
;}
")).
Eval vm_compute in ("<<<M4056>>>" ++ check (runes_of_ascii "  packet
	int
{
    }
packet
    roots{  }

")).
Eval vm_compute in ("<<<M3469>>>" ++ check (runes_of_ascii "// top
MetaData // c0
o // c1
{ }
    // c3
")).
Eval vm_compute in ("<<<M4293>>>" ++ check (runes_of_ascii "packet Logon {
    string u `two words`,
}")).
Eval vm_compute in ("<<<M3196>>>" ++ check (runes_of_ascii "root packet u128 {
// c
chars `it's` , }")).
Eval vm_compute in ("<<<M2745>>>" ++ check (runes_of_ascii ":4RjM4nCa.YX!, >bNh(Sx""yjArkf-7J.QvXp ")).
Eval vm_compute in ("<<<M3048>>>" ++ check (runes_of_ascii "root packet A {
    u8 x `tab
	x`,
}")).
Eval vm_compute in ("<<<M135>>>" ++ check (runes_of_ascii "MetaData pack { f64 A `{ , }` ,}

")).
Eval vm_compute in ("<<<M2733>>>" ++ check (runes_of_ascii "}6.&v:_D^b!EF*T3wXu*H*=10%2uRO\IT")).
Eval vm_compute in ("<<<M4481>>>" ++ check (runes_of_ascii "packet A {
    u8 x `d" ++ [65279]%N ++ runes_of_ascii "`,// c" ++ [65279]%N ++ runes_of_ascii "
}")).
Eval vm_compute in ("<<<M3082>>>" ++ check (runes_of_ascii "packet A {
 u8 x `d" ++ [5760]%N ++ runes_of_ascii "`, // c" ++ [5760]%N ++ runes_of_ascii "
}")).
Eval vm_compute in ("<<<M2113>>>" ++ check (runes_of_ascii "options{
_x
= true
} options")).
Eval vm_compute in ("<<<M4536>>>" ++ check (runes_of_ascii "// top
root packet pack {
}")).
Eval vm_compute in ("<<<M3164>>>" ++ check (runes_of_ascii "options { a = 1 // a
 ; }")).
Eval vm_compute in ("<<<M1175>>>" ++ check (runes_of_ascii "options { u = string }
")).
Eval vm_compute in ("<<<M2706>>>" ++ check ([65533; 65533; 15; 65533]%N ++ runes_of_ascii "L" ++ [1963; 65533]%N ++ runes_of_ascii "B" ++ [65533; 26]%N ++ runes_of_ascii "h%" ++ [20]%N ++ runes_of_ascii "B" ++ [65533]%N ++ runes_of_ascii "k" ++ [65533]%N ++ runes_of_ascii "4" ++ [65533; 65533; 65533]%N)).
Eval vm_compute in ("<<<M268>>>" ++ check (runes_of_ascii "  packet
chars	{ }
")).
Eval vm_compute in ("<<<M3477>>>" ++ check (runes_of_ascii "MetaData o {
// c
}")).
Eval vm_compute in ("<<<M3091>>>" ++ check (runes_of_ascii "// c" ++ [8202]%N ++ runes_of_ascii "
packet A {
}")).
Eval vm_compute in ("<<<M2569>>>" ++ check (runes_of_ascii "packet A { u8 x }")).
Eval vm_compute in ("<<<M726>>>" ++ check (runes_of_ascii "packet u8x {  }
")).
Eval vm_compute in ("<<<M2631>>>" ++ check (runes_of_ascii "packet A { } ;")).
Eval vm_compute in ("<<<M308>>>" ++ check (runes_of_ascii "options{
}")).
Eval vm_compute in ("<<<M2729>>>" ++ check (runes_of_ascii "6)@""I`81R")).
Eval vm_compute in ("<<<M2462>>>" ++ check (runes_of_ascii "packets")).
Eval vm_compute in ("<<<M3144>>>" ++ check (runes_of_ascii "// c x")).
Eval vm_compute in ("<<<M3094>>>" ++ check (runes_of_ascii "// c" ++ [8232]%N)).
Eval vm_compute in ("<<<M2543>>>" ++ check (runes_of_ascii "[[]]")).
Eval vm_compute in ("<<<M2544>>>" ++ check (runes_of_ascii "a	b")).
Eval vm_compute in ("<<<M2555>>>" ++ check (runes_of_ascii "a" ++ [233]%N)).
