From FP Require Import Lexer Parser ShowPT Digest Formatter.
From Coq Require Import String List NArith.
Import ListNotations.
Open Scope string_scope.
Set Printing Width 100000000.
Set Printing Depth 100000000.
Definition show_fres (r : fres) : string :=
  match r with
  | FOk s => "OK:" ++ sh_escaped s ""
  | FErr s => "ERR:" ++ sh_escaped s ""
  | FPanic p => "PANIC:" ++ p
  end.
Definition check (rs : list rune) : string := digest (show_fres (format_res rs)).
Definition full (rs : list rune) : string := show_fres (format_res rs).
Eval vm_compute in ("<<<M2070>>>" ++ check (runes_of_ascii "packet tag {
    repeat T MetaDataX,
    @calculatedFrom(""`tick`"")
    @tag(007)
    leftPad `tab	here`,
    @tag(0123456789)
    char x,
    @tag(0)
    u64 tag,
    i8 roots,
    @lengthOf(float)
    @tag(10)
    // c
    // `tick` ""quote"" 'q'
    body {
        chars {
            repeat int8 body,
        },
        repeat Header {
            char[] leftPad,
        },
        match Logon as zchar {
            4294967296 : len,
            ""a\""b"" : A,
            //
            00 : x_y_z,
        },
        repeat i16 options1,
    },
    @calculatedFrom(""" ++ [128512]%N ++ runes_of_ascii """)
    @rightPad('0')
    i16 Pad,//
    int64 As @lengthOf(crc),
}

MetaData x_y_z {
    u crc,
}

root packet Z9_ {
    @calculatedFrom(""{,}"")
    tag,
    @lengthOf(lengthOf)
    zchar[42] crc `" ++ [233]%N ++ runes_of_ascii "`,
    char[007] options1,
}

packet x {
    char trueish,
    char[] packetx @calculatedFrom(""" ++ [28040; 24687]%N ++ runes_of_ascii """) `line1
    line2`,
    zchar[1] Foo,
    zchar[00] A,
    match msg_type as tag {
        """" : leftPad,
        [""" ++ [128512]%N ++ runes_of_ascii """, 0, 10, 3] : Z9_,
        ""it's"" : float,
        10 : calculatedFrom,
        ""x y"" : f32a,
        007 : roots,
    },
}

packet u {
    // trailing space 
    @calculatedFrom(""\n"")
    @calculatedFrom(""a\""b"")
    i64_ rootA,
    match x as Logon {
        1 : body,
        ""a\\"" : _x,
        ""packet"" : BodyLength,
    },
    //x
    @rightPad('\x00')
    @calculatedFrom(""" ++ [128512]%N ++ runes_of_ascii """)
    repeat stringy {
        match T as float {
            ""a\\"" : len,
            0 : BodyLength,
            [""it's"", ""{,}"", 255, 0123456789, ""a\\""] : Logon,
            3 : rootA,
        },
    },//
    u16 uint8x `{ , }`,
    // trailing space 
    //x
    @leftPad('0')
    string i64_ @lengthOf(stringy),
    // `tick` ""quote"" 'q'
    // @lengthOf(
    u64 leftPad @calculatedFrom(""a	b""),
    repeat Header MetaDataX `a\`,
    @lengthOf(stringy)
    Packet leftPad,
    @tag(00)
    repeat zchar _x `tab	here`,
    i32 matchKey,
}")).
Eval vm_compute in ("<<<M377>>>" ++ check (runes_of_ascii "options {
	StringPrefixLenType = u16;
	ArrayPrefixLenType = u16;
}

packet SampleBinary {
    uint16 MsgType `" ++ [28040; 24687; 31867; 22411]%N ++ runes_of_ascii "`,
    u16 BodyLenght @lengthOf(Body) `" ++ [28040; 24687; 20307; 38271; 24230]%N ++ runes_of_ascii "`,
    match MsgType as Body {
        1 : Logon,
        2 : Logout,
        3 : Heartbeat,
        4 : RiskControlRequest,
        5 : RiskControlResponse,
    },
        @calculatedFrom(""CRC32"")
    u32 Ckecksum `" ++ [26657; 39564; 21644]%N ++ runes_of_ascii "`,
}

packet Logon {
     @leftPad('0')
    char[10] UserName `" ++ [29992; 25143; 21517]%N ++ runes_of_ascii "`,
    string Password `" ++ [23494; 30721]%N ++ runes_of_ascii "`,
    uint64 ClientId `" ++ [23458; 25143; 31471]%N ++ runes_of_ascii "ID`,
    u16 HeartbeatInterval `" ++ [24515; 36339; 38388; 38548]%N ++ runes_of_ascii "`,
}

packet Logout {
      @rightPad('0')
    char[10] UserName `" ++ [29992; 25143; 21517]%N ++ runes_of_ascii "`,
    uint64 ClientId `" ++ [23458; 25143; 31471]%N ++ runes_of_ascii "ID`,
}

packet Heartbeat {
}

packet RiskControlRequest {
    string UniqueOrderId `" ++ [21807; 19968; 35746; 21333; 21495]%N ++ runes_of_ascii "`,
    char[16] ClOrdID `" ++ [23458; 25143; 35746; 21333; 21495]%N ++ runes_of_ascii "`,
    char[3] MarketID `" ++ [24066; 22330]%N ++ runes_of_ascii "id`,
    char[12] SecurityID `" ++ [35777; 21048; 20195; 30721]%N ++ runes_of_ascii "`,
    char Side `" ++ [20080; 21334; 26041; 21521]%N ++ runes_of_ascii "`,
    char OrderType `" ++ [35746; 21333; 31867; 22411]%N ++ runes_of_ascii "`,
    u64 Price `" ++ [20215; 26684]%N ++ runes_of_ascii "`,
    u32 Qty `" ++ [25968; 37327]%N ++ runes_of_ascii "`,
    repeat string ExtraInfo `" ++ [38468; 21152; 20449; 24687]%N ++ runes_of_ascii "`,
    repeat SubOrder {
    		char[16] ClOrdID `" ++ [23376; 35746; 21333; 21495]%N ++ runes_of_ascii "`,
    		u64 Price `" ++ [23376; 35746; 21333; 20215; 26684]%N ++ runes_of_ascii "`,
    		u32 Qty `" ++ [23376; 35746; 21333; 25968; 37327]%N ++ runes_of_ascii "`,
    	},
}

packet RiskControlResponse {
    string UniqueOrderId `" ++ [21807; 19968; 35746; 21333; 21495]%N ++ runes_of_ascii "`,
    i32 Status `" ++ [29366; 24577]%N ++ runes_of_ascii "`,
    string Msg `" ++ [32467; 26524; 20449; 24687]%N ++ runes_of_ascii "`,
    repeat Detail,
}

packet Detail {
    string RuleName `" ++ [35268; 21017; 21517; 31216]%N ++ runes_of_ascii "`,
    u16 Code `" ++ [21407; 22240; 20195; 30721]%N ++ runes_of_ascii "`,
}")).
Eval vm_compute in ("<<<M2129>>>" ++ check (runes_of_ascii "//x
packet
	u8x
{@lengthOf(
As
)  repeat
char[  // c
	4294967296

    ] int`{ , }`,repeat 
	// " ++ [128512]%N ++ runes_of_ascii " emoji
    	int8
	len  `two words`
, } root packet
	tag	// a // b
	{
}

root
    packet 
rootA{o @calculatedFrom( """" )

, leftPad i64_ `it's` 
    // a // b
  // packet A { u8 x, }
,	// " ++ [27880; 37322]%N ++ runes_of_ascii "
    @tag( 
7)
    float

,
	int32 x_y_z

    ,

    repeat  roots
{
	zchar[ 10	]

a1
,  f32a	options1 `crlf
line`,
    match

_x
    // @lengthOf(
as	zchar{  1	:u8x 
,
""// no comment"":	float 
,

    [4294967296
    ,10	,
""" ++ [233]%N ++ runes_of_ascii "t" ++ [233]%N ++ runes_of_ascii """

    ,""" ++ [28040; 24687]%N ++ runes_of_ascii """,
    1
	]
	:
u128 	 // trailing space 
    ,
    [""\" ++ [233]%N ++ runes_of_ascii """ ,  //x
      42// " ++ [128512]%N ++ runes_of_ascii " emoji
  ]
	:stringy
,

[

    1  // " ++ [27880; 37322]%N ++ runes_of_ascii "
	,	""\n""]: falsey 
    // a // b
,

},string 
charz @calculatedFrom("""" )
,} ,  char[]
	options1
    `
`

    , 
//	t
	/// triple
      u8x
    {  repeat msg_type
matchKey `u8 x,` 
,  }

, A

    @lengthOf( //x
	pack )//	t
,

i64
    stringy , }packet
    i8i8 
{

i64_
	u128
	, @lengthOf(u8x 	 //
    	)repeat

float64
	f32a	,	@calculatedFrom(

""`tick`"" )
pack

    `" ++ [233]%N ++ runes_of_ascii "`, uint64 Z9_@calculatedFrom(

"""" 
)  `tab	here`

,} ")).
Eval vm_compute in ("<<<M1588>>>" ++ check (runes_of_ascii "root packet Foo {
    Packet {
        u32 chars `{ , }`,
        zchar[255] Foo,
    },
    f32a @lengthOf(MetaDataX) `doc`,
    As `say ""hi""`,
    char[] crc @calculatedFrom(""" ++ [28040; 24687]%N ++ runes_of_ascii """) `say ""hi""`,
    int32 T `// not a comment`,
    @lengthOf(x)
    //
    pack {
        match i8i8 as trueish {
            ""x y"" : BodyLength,
            [
                ""\n"", 007, ""// no comment"", 42, ""1"",
                65535, 10
            ] : a1,
            [""{,}""] : metadata,
            ""a	b"" : As,
        },
    },
    match f32a as A {
        ""abc"" : rootA,
        4294967296 : Z9_,
        [
            007, ""a\""b"", 00, 42, 1,
            0123456789, ""x y""
        ] : Foo,
    },
    char[7] i64_ `it's`,
    @lengthOf(pack)
    repeat As,
}

MetaData charz {
    u64 asx,
}

packet x {
}

MetaData MetaDataX {
    A a1,
    char[] x `a\`,
    uint16 leftPad,
}

options {
    a1 = 42;
    BodyLength = true;
    x_y_z = int16
}")).
Eval vm_compute in ("<<<M206>>>" ++ check (runes_of_ascii "options{ }root // a // b
packet
    uint8x {  @tag( 3 ) @lengthOf(  falsey ) lengthOf @calculatedFrom(
""`tick`"" ), A { i8 msg_type
`crlf
line` ,
Foo @lengthOf( u8x
) ,float ,
    //
    }
, string // a // b
lengthOf
@calculatedFrom(	""abc"" )
, @lengthOf(charz )
    repeat string_	{// " ++ [128512]%N ++ runes_of_ascii " emoji
zchar[
    0
    // a // b
    ] T @calculatedFrom( ""a\\"" ) //	t
, zchar[
    42 ] repeatCount @lengthOf(
Z9_ )`u8 x,`,}
,  zchar[1
    ]
crc @calculatedFrom( // " ++ [27880; 37322]%N ++ runes_of_ascii "
""// no comment"" )
    `it's`
    // `tick` ""quote"" 'q'
    , @calculatedFrom(""{,}"")
    tag
int//
, //x
}
MetaData f32a { // trailing space 
i64 int // c
,string int
    , // c
asx
    //x
    Pad
    //x
    `crlf
line` , string lengthOf,
    uint32
pack ,// " ++ [27880; 37322]%N ++ runes_of_ascii "
msg_type
    u `it's` ,
}")).
Eval vm_compute in ("<<<M1510>>>" ++ check (runes_of_ascii "// top
packet
    // c0
MDSnapshotZZ // c1a
  // c1b
{ // c2
u8 // c3a
  // c3b
a
    // c4
, // c5
} packet // c7
OrderACK
    // c8
{
    // c9
u16 // c10
b // c11
, }
    // c13
packet // c14
HTTPServerInfo // c15a
  // c15b
{ // c16a
  // c16b
string // c17a
  // c17b
s // c18
, } // c20
root packet
    // c22
FIXMsg
    // c23
{ // c24a
  // c24b
u8 // c25a
  // c25b
KType
    // c26
, // c27
MDSnapshotZZ // c28
, repeat
    // c30
OrderACK // c31a
  // c31b
, // c32a
  // c32b
match KType as Body
    // c36
{ // c37a
  // c37b
1 // c38
: // c39
HTTPServerInfo , 2 : // c43a
  // c43b
OrderACK
    // c44
, // c45
} // c46
,
    // c47
} // c48
")).
Eval vm_compute in ("<<<M1557>>>" ++ check (runes_of_ascii "options {
    LittleEndian = false;
    ArrayPrefixLenType = u8;
    FixedStringPadChar = '0';
}
packet Order {
    InNote94 {
        f32 f1,
        f64 Side2,
        repeat InTail47 {
            char[] seqNo,
            char[] Tail,
            char[] lastPx,
        },
    },
    zchar[7] f1,
    u8 Side2,
}
root packet Reject {
    repeat char[4] Flags,
    InPrice63 {
        InSeqno41 {
            repeat i8 OrderId,
            repeat i32 clOrdID,
            char[9] tag7,
            char[] lastPx,
        },
        Order,
        uint8 Side2,
    },
}
")).
Eval vm_compute in ("<<<M1519>>>" ++ check (runes_of_ascii "// top
root // c0
packet Frame {
    // c3
u8 K ,
    // c6
Logon // c7a
  // c7b
first , // c9a
  // c9b
match
    // c10
K
    // c11
as // c12
Body // c13a
  // c13b
{ // c14a
  // c14b
1 : // c16a
  // c16b
Logon , // c18a
  // c18b
2 :
    // c20
Logout
    // c21
, // c22
} , }
    // c25
packet Logon // c27
{ // c28
string // c29
user // c30a
  // c30b
, // c31a
  // c31b
} // c32a
  // c32b
packet
    // c33
Logout { // c35
u16 // c36
reason
    // c37
, // c38a
  // c38b
}
    // c39
")).
Eval vm_compute in ("<<<M1546>>>" ++ check (runes_of_ascii "options {
    LittleEndian = true;
    StringPrefixLenType = u16;
    ArrayPrefixLenType = u64;
}
packet Fill {
}
packet Logon {
    repeat char[3] Tail,
    zchar[6] venue,
    repeat string Side2,
}
root packet Cancel {
    char[] Flags,
    char[] OrderId,
    zchar[6] msgKind,
    Fill,
    char[] Acct,
    u8 f1,
    match f1 as Body {
        188 : Fill,
        5 : Logon,
    },
    u32 clOrdID @calculatedFrom(""CRC32""),
}
")).
Eval vm_compute in ("<<<M114>>>" ++ check (runes_of_ascii "packet BodyLength {  @tag(
0 )
    char[
4294967296 ]
    options1 , }
    root packet asx{ repeat string //x
zchar //	t
,
    repeat char string_ `" ++ [28040; 24687; 31867; 22411]%N ++ runes_of_ascii "` ,
    } options{ rootA = zchar[ 00
] ;len = ""a\""b"" ; float =7;uint8x= f64 ;// `tick` ""quote"" 'q'
}root packet
    stringy{trueish Foo , } packet
pack{ u64
// @lengthOf(
// c
repeatCount @lengthOf( Header
    ) ,
}

")).
Eval vm_compute in ("<<<M330>>>" ++ check (runes_of_ascii "root packet calculatedFrom { @lengthOf( asx )	T{
repeat
/// triple
//x
packetx A  ,
match // " ++ [27880; 37322]%N ++ runes_of_ascii "
string_ as msg_type { [""abc""] :
As 0123456789 :  repeatCount
    , ""a\""b"" :
roots, } , },uint8x BodyLength `{ , }`
, string  BodyLength,@leftPad(
    '\x00'
) repeat calculatedFrom { uint32 //	t
trueish ,/// triple
}, // c
} // a // b")).
Eval vm_compute in ("<<<M188>>>" ++ check (runes_of_ascii "packet options1 {// " ++ [128512]%N ++ runes_of_ascii " emoji
@calculatedFrom( ""abc""
) //
repeat BodyLength , a1
@lengthOf(
    // trailing space 
    i8i8
    // " ++ [128512]%N ++ runes_of_ascii " emoji
    ) ,
    } packet	asx
    {char[ 0] o`crlf
line`
,char[] options1 `crlf
line`
,
@tag( 42 )
    repeat Foo  ,
asx @calculatedFrom(
    ""`tick`"") ,}")).
Eval vm_compute in ("<<<M604>>>" ++ check (runes_of_ascii "root packet tag { }  packet MetaDataX{char[007	]
// c
/// triple
asx  @calculatedFrom( ""a\""b""
) `say ""hi""`// " ++ [27880; 37322]%N ++ runes_of_ascii "
,  @tag(4294967296 )
    char[1//x
] packetx @calculatedFrom(""a\""b"" ""a\""b""
    ) ,
// " ++ [128512]%N ++ runes_of_ascii " emoji
// a // b
@calculatedFrom(""" ++ [233]%N ++ runes_of_ascii "t" ++ [233]%N ++ runes_of_ascii """  ) repeat pack // " ++ [27880; 37322]%N ++ runes_of_ascii "
,
    } // c")).
Eval vm_compute in ("<<<M494>>>" ++ check (runes_of_ascii "root packet tag { { }  packet MetaDataX{char[007	]
// c
/// triple
asx  @calculatedFrom( ""a\""b""
) `say ""hi""`// " ++ [27880; 37322]%N ++ runes_of_ascii "
,  @tag(4294967296 )
    char[1//x
] packetx @calculatedFrom(""a\""b""
    ) ,
// " ++ [128512]%N ++ runes_of_ascii " emoji
// a // b
@calculatedFrom(""" ++ [233]%N ++ runes_of_ascii "t" ++ [233]%N ++ runes_of_ascii """  ) repeat pack // " ++ [27880; 37322]%N ++ runes_of_ascii "
,
    } // c")).
Eval vm_compute in ("<<<M611>>>" ++ check (runes_of_ascii "root packet tag { }  packet MetaDataX{char[007	]
// c
/// triple
asx  @calculatedFrom( ""a\""b""
) `say ""hi""`// " ++ [27880; 37322]%N ++ runes_of_ascii "
,  @tag(4294967296 )
    char[1//x
] packetx @calculatedFrom(""a\""b""
    as ,
// " ++ [128512]%N ++ runes_of_ascii " emoji
// a // b
@calculatedFrom(""" ++ [233]%N ++ runes_of_ascii "t" ++ [233]%N ++ runes_of_ascii """  ) repeat pack // " ++ [27880; 37322]%N ++ runes_of_ascii "
,
    } // c")).
Eval vm_compute in ("<<<M600>>>" ++ check (runes_of_ascii "root packet tag { }  packet MetaDataX{char[007	]
// c
/// triple
asx  @calculatedFrom( ""a\""b""
) `say ""hi""`// " ++ [27880; 37322]%N ++ runes_of_ascii "
,  @tag(4294967296 )
    char[1//x
] packetx ""a\""b""@calculatedFrom(
    ) ,
// " ++ [128512]%N ++ runes_of_ascii " emoji
// a // b
@calculatedFrom(""" ++ [233]%N ++ runes_of_ascii "t" ++ [233]%N ++ runes_of_ascii """  ) repeat pack // " ++ [27880; 37322]%N ++ runes_of_ascii "
,
    } // c")).
Eval vm_compute in ("<<<M673>>>" ++ check (runes_of_ascii "root packet tag { }  packet MetaDataX{char[007	]
// c
/// triple
asx  @calculatedFrom( ""a\""b""
) `say ""hi""`// " ++ [27880; 37322]%N ++ runes_of_ascii "
,  @tag(4294967296 )
    char[1//x
] packetx @calculatedFrom(""a\""b""
    ) ,
// " ++ [128512]%N ++ runes_of_ascii " emoji
// a // b
@calculatedFrom(""" ++ [233]%N ++ runes_of_ascii "t" ++ [233]%N ++ runes_of_ascii """  ) repeat x" ++ [178]%N ++ runes_of_ascii " // " ++ [27880; 37322]%N ++ runes_of_ascii "
,
    } // c")).
Eval vm_compute in ("<<<M55>>>" ++ check (runes_of_ascii "// " ++ [27880; 37322]%N ++ runes_of_ascii "
options { u8x
=false}	packet crc
{ @leftPad
    ( // `tick` ""quote"" 'q'
'\x00'
)@calculatedFrom( ""a\""b"" ) char[] u@lengthOf(
    x ), stringy
charz	`" ++ [233]%N ++ runes_of_ascii "`
// c
// c
,
} packet
// c
//x
tag {
    string T,zchar[ 7
    ] leftPad ,// `tick` ""quote"" 'q'
}
")).
Eval vm_compute in ("<<<M89>>>" ++ check (runes_of_ascii "//	t
packet
packetx { zchar , @lengthOf( x_y_z )o ,
}
    packet  Packet // " ++ [128512]%N ++ runes_of_ascii " emoji
{ match u128 as // a // b
Header{ [
    7
    ,""1""
]: u
    , ""x y"" :
charz 0123456789 : calculatedFrom
//	t
//x
} ,// " ++ [27880; 37322]%N ++ runes_of_ascii "
repeat  roots
tag
    ,}")).
Eval vm_compute in ("<<<M1620>>>" ++ check (runes_of_ascii "packet
Logon{ string
	user
	,
    }
	root	packet

Frame  {u8 
K	,
    match

    K	as

Body
{ 1
	:
Logon , 2
    :  Logout
, }, Tail

, }
    packet Logout
    {  u16 reason
	, }

packet	Tail { u32
crc ,} ")).
Eval vm_compute in ("<<<M1520>>>" ++ check (runes_of_ascii "root packet
	Frame

    {	u8
	K
	,Logon

    first  , match K	as
Body{
	1: Logon , 
2 
:
Logout	,
    }
    , }packet Logon{ string
user ,
}
    packet Logout
	{ u16
    reason
,	}
")).
Eval vm_compute in ("<<<M224>>>" ++ check (runes_of_ascii "root
packet Logon	{/// triple
@calculatedFrom(
    ""`tick`"" ) @rightPad ( ' '  )
    @tag(
    42 ) //	t
char[ 3 ]
trueish  @lengthOf(
matchKey
    // @lengthOf(
    ) `" ++ [233]%N ++ runes_of_ascii "` ,}
")).
Eval vm_compute in ("<<<M402>>>" ++ check (runes_of_ascii "packet
    // `tick` ""quote"" 'q'
    crc
// packet A { u8 x, }
//	t
{
int64 a1 ,
    // trailing space 
    roots
charz //
`two words`,	}
    MetaData int {
} /// triple")).
Eval vm_compute in ("<<<M1975>>>" ++ check (runes_of_ascii "packet A {
    match k as n {
        [
            ""a"", ""bb"", 007, ""d"", ""e"",
            66, ""g"", ""h"", 9, ""j"",
            ""k"", 12
        ] : B,
        2 : C,
    },
}")).
Eval vm_compute in ("<<<M388>>>" ++ check (runes_of_ascii "char[
    // `tick` ""quote"" 'q'
    crc
// packet A { u8 x, }
//	t
{
u32 a1 ,
    // trailing space 
    roots
charz //
`two words`,	}
    MetaData int {
} /// triple")).
Eval vm_compute in ("<<<M678>>>" ++ check (runes_of_ascii " packet len // trailing space 
{
// " ++ [27880; 37322]%N ++ runes_of_ascii "
//	t
char[10
] metadata	@lengthOf( o ) `crlf
line`,
    @rightPad
( ' '
) string
    Header @calculatedFrom( ""a\\""
    ), }
")).
Eval vm_compute in ("<<<M2124>>>" ++ check (runes_of_ascii "
root
	packet matchKey{ zchar[3
    ] pack
	@calculatedFrom( ""a	b""

)
	`doc` ,}

    options  // c
    {
}
    MetaData	A

    { int8 msg_type,

    }")).
Eval vm_compute in ("<<<M1496>>>" ++ check (runes_of_ascii "
packet A
    { 
u8	a
,	} packet
    B{  u16 b, } root	packet 
P
	{ u8  K , match  K
as M
	{

[

    1, 2	] :	A	,

3
    : B ,
7:
A  , }  , }
")).
Eval vm_compute in ("<<<M20>>>" ++ check (runes_of_ascii "options { x_y_z =  """ ++ [128512]%N ++ runes_of_ascii """
/// triple
// @lengthOf(
options1 =
""a\\""  ;
    x_y_z  = 255 ; } //x
packet
    charz {
    } // trailing space ")).
Eval vm_compute in ("<<<M1895>>>" ++ check (runes_of_ascii "root packet matchKey {
    zchar[3] pack @calculatedFrom(""a	b"") `doc`,
}

options {
}

MetaData A {
    // c
    int8 msg_type,
}")).
Eval vm_compute in ("<<<M1226>>>" ++ check (runes_of_ascii "root packet
// c
matchKey { zchar[ 3 ] pack @calculatedFrom( ""a	b"" ) `doc` , } options { } MetaData A { int8 msg_type , }")).
Eval vm_compute in ("<<<M1258>>>" ++ check (runes_of_ascii "root packet matchKey { zchar[ 3 ] pack @calculatedFrom( ""a	b"" ) `doc` , } options { } MetaData
// c
A { int8 msg_type , }")).
Eval vm_compute in ("<<<M1788>>>" ++ check (runes_of_ascii "  packet

    chars
{	} 
packet MetaDataX
    {	@tag(
42 )

i16

    string_ ,repeat
x `say ""hi""` 
// c
	,
} ")).
Eval vm_compute in ("<<<M2069>>>" ++ check (runes_of_ascii "packet metadata	{Logon

    { A `" ++ [28040; 24687; 31867; 22411]%N ++ runes_of_ascii "`
,
	tag
o, }
    , 
zchar
    len
`// not a comment` 	 // c
    ,	}

")).
Eval vm_compute in ("<<<M906>>>" ++ check (runes_of_ascii "packet A {
  match k as n {
    [""a"", 22, ""c c"", 4, ""e"", 66, ""g"", 8, ""i"", 10, ""k"", 12] : B
    2 : C
  },
}")).
Eval vm_compute in ("<<<M893>>>" ++ check (runes_of_ascii "packet A {
  match k as n {
    [""a"", 22, ""c c"", 4, ""e"", 66, ""g"", 8, ""i"", 10, ""k""] : B
    2 : C
  },
}")).
Eval vm_compute in ("<<<M879>>>" ++ check (runes_of_ascii "packet A {
  match k as n {
    [""a"", 22, ""c c"", 4, ""e"", 66, ""g"", 8, ""i"", 10] : B,
    2 : C
  },
}")).
Eval vm_compute in ("<<<M1939>>>" ++ check (runes_of_ascii "MetaData a1 {
    Foo body `{ , }`,
    int32 int ``,
    i32 a1 `" ++ [28040; 24687; 31867; 22411]%N ++ runes_of_ascii "`,
    int8 msg_type ``,
}")).
Eval vm_compute in ("<<<M865>>>" ++ check (runes_of_ascii "packet A {
  match k as n {
    [1, ""bb"", 007, ""d"", 5, ""f"", 7, ""h"", 9] : B
    2 : C
  },
}")).
Eval vm_compute in ("<<<M1185>>>" ++ check (runes_of_ascii "MetaData float {
// c
float64 charz `
` , } root packet chars { @rightPad ( '0' ) Foo , }")).
Eval vm_compute in ("<<<M1396>>>" ++ check (runes_of_ascii "packet // c
chars { } packet MetaDataX { @tag( 42 ) i16 string_ , repeat x `say ""hi""` , }")).
Eval vm_compute in ("<<<M1428>>>" ++ check (runes_of_ascii "packet chars { } packet MetaDataX { @tag( 42 ) i16 string_ , repeat x `say ""hi""` , // c
}")).
Eval vm_compute in ("<<<M1126>>>" ++ check (runes_of_ascii "packet metadata // c
{ Logon { A `" ++ [28040; 24687; 31867; 22411]%N ++ runes_of_ascii "` , tag o , } , zchar len `// not a comment` , }")).
Eval vm_compute in ("<<<M1339>>>" ++ check (runes_of_ascii "
// c
packet o { repeat Logon uint8x , } options { asx = zchar[ 3 ] stringy = '\x00' }")).
Eval vm_compute in ("<<<M1363>>>" ++ check (runes_of_ascii "packet o { repeat Logon uint8x , } options { asx =
// c
zchar[ 3 ] stringy = '\x00' }")).
Eval vm_compute in ("<<<M832>>>" ++ check (runes_of_ascii "packet A {
  match k as n {
    [""a"", ""bb"", 007, ""d"", ""e"", 66] : B
    2 : C
  },
}")).
Eval vm_compute in ("<<<M1324>>>" ++ check (runes_of_ascii "MetaData body { i64 pack `it's` , } packet stringy
// c
{ int16 calculatedFrom , }")).
Eval vm_compute in ("<<<M829>>>" ++ check (runes_of_ascii "packet A {
  match k as n {
    [1, 22, ""c c"", 4, 5, ""f""] : B,
    2 : C
  },
}")).
Eval vm_compute in ("<<<M1934>>>" ++ check (runes_of_ascii "packet Inner {
    u8 a,
}

root packet P {
    Inner ref_obj,
    u8 x,
}")).
Eval vm_compute in ("<<<M1646>>>" ++ check (runes_of_ascii "  // top

MetaData 
  // c0
		o 
	// c1
		{
// c2
  } 
	    // c3")).
Eval vm_compute in ("<<<M2093>>>" ++ check (runes_of_ascii "root
    packet

    i8i8  {
	@lengthOf(	Packet 
) u32 
u8x
,}
")).
Eval vm_compute in ("<<<M123>>>" ++ check (runes_of_ascii "
packet crc	{ u32 T@lengthOf( x ) `crlf
line` ,// a // b
}")).
Eval vm_compute in ("<<<M1284>>>" ++ check (runes_of_ascii "packet x { @rightPad ( // c
) repeat roots Logon `doc` , }")).
Eval vm_compute in ("<<<M1088>>>" ++ check (runes_of_ascii "packet A { repeat // a
 B // b
 b // c
 `d` // e
 , }")).
Eval vm_compute in ("<<<M940>>>" ++ check (runes_of_ascii "MetaData M {
    u8 x `a

b`,
    T t `a

b`,
}")).
Eval vm_compute in ("<<<M1885>>>" ++ check (runes_of_ascii "// c
root packet u128 {
    chars `it's`,
}")).
Eval vm_compute in ("<<<M1112>>>" ++ check (runes_of_ascii "root packet u128 { chars `it's` , // c
}")).
Eval vm_compute in ("<<<M71>>>" ++ check (runes_of_ascii "// " ++ [27880; 37322]%N ++ runes_of_ascii "
packet  matchKey{
    }
// c
")).
Eval vm_compute in ("<<<M750>>>" ++ check (runes_of_ascii "int8 match uint64 } options u32")).
Eval vm_compute in ("<<<M936>>>" ++ check (runes_of_ascii "packet A {
    u8 x `a

b`,
}")).
Eval vm_compute in ("<<<M1166>>>" ++ check (runes_of_ascii "root
// c
packet pack { }")).
Eval vm_compute in ("<<<M268>>>" ++ check (runes_of_ascii "  packet
chars	{ }
")).
Eval vm_compute in ("<<<M1006>>>" ++ check (runes_of_ascii "packet A {
}
// c" ++ [8232]%N)).
Eval vm_compute in ("<<<M999>>>" ++ check (runes_of_ascii "packet A {
}// c" ++ [8202]%N)).
Eval vm_compute in ("<<<M492>>>" ++ check (runes_of_ascii "root packet")).
Eval vm_compute in ("<<<M1005>>>" ++ check (runes_of_ascii "// c" ++ [8232]%N)).
