From FP Require Import Lexer Parser ShowPT Digest Formatter.
From Coq Require Import String List NArith.
Import ListNotations.
Open Scope string_scope.
Set Printing Width 100000000.
Set Printing Depth 100000000.
Definition show_fres (r : fres) : string :=
  match r with
  | FOk s => "OK:" ++ sh_escaped s ""
  | FErr s => "ERR:" ++ sh_escaped s ""
  | FPanic p => "PANIC:" ++ p
  end.
Definition check (rs : list rune) : string := digest (show_fres (format_res rs)).
Definition full (rs : list rune) : string := show_fres (format_res rs).
Eval vm_compute in ("<<<M1240>>>" ++ check (runes_of_ascii "MetaData calculatedFrom { uint16
A
// `tick` ""quote"" 'q'
//x
,} packet tag
    { u64
    u@lengthOf( u128
    //x
    ) , //x
char[]
    Pad
    @lengthOf( crc )
, i32 options1
@lengthOf(msg_type ) ,	@rightPad (
' '	) uint32 int ,	uint32 u128 `crlf
line` ,
@tag( 7
//	t
// " ++ [27880; 37322]%N ++ runes_of_ascii "
) float32 //x
u8x
, @lengthOf(BodyLength )
@tag( 1 ) repeat _x `say ""hi""`
, } root
    packet u{  @calculatedFrom(""abc"" )match charz	as zchar	{[ // c
65535,4294967296	,
10, 3
    ,
255 ]
    :u8x
    , ""1"" :
lengthOf  [  0, // packet A { u8 x, }
4294967296 // 50% %s
]	:
T, 007: crc
    , [ """" , 42 ,7
    ,
    ""x y""
,""1"" , 007, ""x y""
// @lengthOf(
// @lengthOf(
, 255
] : A
    ,3
:
options1 ,
},	uint32 // " ++ [128512]%N ++ runes_of_ascii " emoji
matchKey``
    ,  match float
    as charz
    {
65535 : Logon [	""CRC32"" , ""\" ++ [233]%N ++ runes_of_ascii """ , ""abc"" , 4294967296,0123456789
    , 3 ]
    : o """" :	len
, [ """ ++ [28040; 24687]%N ++ runes_of_ascii """ ,
""{,}""  ]
// c
// packet A { u8 x, }
: float
}
, zchar //
trueish ,
@lengthOf(
o ) match float as matchKey{	00
:matchKey/// triple
} ,
/// triple
// `tick` ""quote"" 'q'
}
packet string_
    { @lengthOf( T//	t
)
    //	t
    repeat Header	, @tag(	255 ) @tag(
    255
) u64
crc , @tag(
    65535
    )
@lengthOf(
    u128	) uint32
chars ,// packet A { u8 x, }
} // " ++ [27880; 37322]%N ++ runes_of_ascii "
packet
i64_
{
i8
string_ @calculatedFrom(  ""it's"" )
    , @leftPad (
' ' )	repeat
    // a // b
    Pad
    {
repeat MetaDataX {	o packetx , roots Header,match  falsey as roots {  007 : msg_type ,[10 ] : T """"	: Packet
,
    42:
    msg_type , } , string
string_`say ""hi""` , }
,
// trailing space 
//
string_ // packet A { u8 x, }
@calculatedFrom( ""{,}"" ) `doc`,} ,match falsey as u8x { ""\" ++ [233]%N ++ runes_of_ascii """ :metadata 0	:repeatCount,  0123456789 :	repeatCount ,""packet"" :  Foo , 0123456789 :
tag , } , @lengthOf(
As )// c
match
//	t
// trailing space 
A //
as repeatCount {
// c
// @lengthOf(
42 :a1 , 65535
: Packet , // packet A { u8 x, }
7
:
len """" :rootA
    """ ++ [233]%N ++ runes_of_ascii "t" ++ [233]%N ++ runes_of_ascii """
    :	rootA}
, @calculatedFrom( ""CRC32"" )
    repeatCount @calculatedFrom( // a // b
""`tick`"")// " ++ [128512]%N ++ runes_of_ascii " emoji
,
f32
    crc	``
    //	t
    ,
crc ,	char[] Header
, } // " ++ [27880; 37322]%N)).
Eval vm_compute in ("<<<M1322>>>" ++ check (runes_of_ascii "packet  u {
    @rightPad // @lengthOf(
( )
x `{ , }` , uint64 _x ,	options1`doc`
    ,match falsey as charz {[ 7 ] : int , [ ""\n"" // c
]
:
// " ++ [27880; 37322]%N ++ runes_of_ascii "
// packet A { u8 x, }
matchKey , [ ""// no comment"",4294967296 ] // @lengthOf(
: crc
, 7 :
    lengthOf,  00 : Foo }
, char[ 00 ]
int @lengthOf( Pad
)
    // trailing space 
    , } packet
    msg_type
    {int64
rootA , x // " ++ [27880; 37322]%N ++ runes_of_ascii "
{
len
@calculatedFrom( ""1"" ),	chars { u8 asx `say ""hi""` ,
    zchar[7
//
// `tick` ""quote"" 'q'
]
    x_y_z `tab	here`, char[] f32a `doc`
, }
,}
,
u64 f32a , @calculatedFrom(
""a\""b""
    )@lengthOf( _x
    )
@rightPad
(
    )a1 metadata `{ , }` , i32 Header  `line1
line2`
, match Logon as int{[
""\n"" , """ ++ [233]%N ++ runes_of_ascii "t" ++ [233]%N ++ runes_of_ascii """ ,
""it's""// trailing space 
] :chars ,
42 :
    //
    u8x	,	[
65535
    ,
    ""a\\""
,255]:
packetx
,}
, match
    body as len { 4294967296 : Header// `tick` ""quote"" 'q'
,// trailing space 
[
""packet"" ]
: MetaDataX ,[
""\" ++ [233]%N ++ runes_of_ascii """ , 007
    ] : Header	, } , u8 packetx
    @calculatedFrom( ""it's""	)
    `two words`
    ,// 50% %s
repeat chars{uint8 metadata
    // 50% %s
    @lengthOf(
len)
,
    //
    } ,} root packet i64_
{ }root packet calculatedFrom { repeat int8	BodyLength `doc`
,
// @lengthOf(
// c
@lengthOf(
charz)
    char[ 1 ]x_y_z@calculatedFrom( ""1"") ,
@lengthOf(
trueish
    // 50% %s
    ) repeat //x
zchar[ 10 ] rootA
, zchar[
    // c
    4294967296 ] matchKey
    @calculatedFrom( ""1"") `tab	here`
    , trueish {
repeat zchar[
0123456789
]
Z9_ , } ,@lengthOf(x ) repeat options1 `{ , }` ,
roots Packet ,
    int16 tag
    , repeat BodyLength {
u8x ,
    float32
    uint8x @calculatedFrom( ""// no comment"") ,
    float64  Packet @lengthOf(roots ) , repeat zchar[ 255 ]Foo , } , } options
{
    T  =
""x y""
// a // b
//	t
Logon =char[ 255 ] ; }
")).
Eval vm_compute in ("<<<M4414>>>" ++ check (runes_of_ascii "// `tick` ""quote"" 'q'

  MetaData packetx 
{  u64 string_  ,
}

packet

rootA{

leftPad {

    match
packetx as
	zchar
{
    10
	:rootA

    007 
:

Foo
,

10:

trueish	,  3 
:	repeatCount
,}, 
    // packet A { u8 x, }
    char[] Packet

    @calculatedFrom( ""CRC32""
	    // c
    ) ,
}
,	@rightPad  (' ' )
	chars
    @lengthOf(
    zchar )
    `doc` ,//	t
packetx
{match
	matchKey  as
	calculatedFrom  {
    10 :
asx

,
    65535

:	pack[
""{,}""	,
""\n""	,

    ""1""
	, 
007, 65535,

    ""a\""b""	,	4294967296
]:asx
	,
	} ,  string_
	asx `100% of %d`,
	}  ,}
options  
      // 50% %s
// a // b
    {
tag =true
;
}

    packet

    Packet
	{
    @lengthOf( 
i64_)
u32
	crc
	, u16
    MetaDataX
`doc` ,	@calculatedFrom(

""// no comment"" )	repeat
int64

    packetx`line1
line2`
    , 
@leftPad
    ( 
' ' 	 //	t
    ) repeat	BodyLength {
    char[]As
,
char[]
i64_

@calculatedFrom(
""it's""
    ) , i64 
As

    , Header `it's`
,  //	t

}
,
	@leftPad
() zchar[

10 ]
falsey  ,

    // " ++ [27880; 37322]%N ++ runes_of_ascii "

// " ++ [27880; 37322]%N ++ runes_of_ascii "
  @calculatedFrom(
    """ ++ [128512]%N ++ runes_of_ascii """

    )pack
    ,

A

{ repeat 	 //
  u8x tag,
int64 T  @lengthOf(  Packet  // @lengthOf(
    ) //x

,	// packet A { u8 x, }
	x
    Logon 
, options1
    @calculatedFrom( 
""a	b"" 
) ,
    }
    ,  @lengthOf( 

//x

	// `tick` ""quote"" 'q'
	A
	)  @leftPad	// 50% %s
  (
'\x00') 
zchar[65535]
MetaDataX
`// not a comment`,
    repeat f32
	Packet`" ++ [233]%N ++ runes_of_ascii "` , } MetaData
    chars	{

} ")).
Eval vm_compute in ("<<<M474>>>" ++ check (runes_of_ascii "packet
Logon {
string Header `line1
line2` ,@lengthOf( u )
    char[] Z9_@calculatedFrom( ""x y"" ) , int @lengthOf( Packet
    // " ++ [128512]%N ++ runes_of_ascii " emoji
    )	,	char[ 0] tag  , // a // b
match crc as
    int { ["""", 10
    ]:  pack , [ 42 ,007, 1 // c
, ""\n"" , """ ++ [28040; 24687]%N ++ runes_of_ascii """]:options1 ,0123456789
    // " ++ [128512]%N ++ runes_of_ascii " emoji
    :
// `tick` ""quote"" 'q'
// " ++ [128512]%N ++ runes_of_ascii " emoji
lengthOf
// `tick` ""quote"" 'q'
//x
,  65535
:
matchKey
    """ ++ [128512]%N ++ runes_of_ascii """ : As ,
    ""\n""  : charz ,} , int8
    i8i8
    ,x_y_z @lengthOf( options1 ), //x
}
packet int { @lengthOf( BodyLength // @lengthOf(
)
    //x
    @calculatedFrom( """"	)  @calculatedFrom(
    // trailing space 
    ""// no comment"")repeat char[]leftPad
// " ++ [128512]%N ++ runes_of_ascii " emoji
// " ++ [27880; 37322]%N ++ runes_of_ascii "
`100% of %d`
    ,
MetaDataX `
` ,
// a // b
// `tick` ""quote"" 'q'
repeat i64
// c
// `tick` ""quote"" 'q'
T
    , //
repeat float { repeat
    zchar[ 1] len `// not a comment`  ,// " ++ [128512]%N ++ runes_of_ascii " emoji
match	Logon
    //	t
    as len
    { [
    255 ]  : options1 , // trailing space 
[
""a\""b"" , ""\" ++ [233]%N ++ runes_of_ascii """ , 0123456789
,0123456789	,
// `tick` ""quote"" 'q'
// c
7
]
:options1
// " ++ [27880; 37322]%N ++ runes_of_ascii "
//
,[ 4294967296 , ""a\""b"" ] : tag
42 : T
[
4294967296,
""`tick`""] : charz , [ 0 , """ ++ [233]%N ++ runes_of_ascii "t" ++ [233]%N ++ runes_of_ascii """ ] :
len	}
, repeat f64 zchar `say ""hi""`
, repeat i64
i64_ `// not a comment` , //	t
} ,
match u128 as Header	{
""" ++ [128512]%N ++ runes_of_ascii """:
x_y_z ""// no comment"" :
A ,[
    0
] : int ,  }, @rightPad( ' ') pack ,}
")).
Eval vm_compute in ("<<<M3947>>>" ++ check (runes_of_ascii "packet uint8x {
    match stringy as lengthOf {
        00 : roots,
    },
    match zchar as body {
        ""// no comment"" : MetaDataX,
        [""`tick`"", ""\n""] : i8i8,
        ""// no comment"" : float,
        ""x y"" : body,
    },
    @tag(00)
    f32a @calculatedFrom(""CRC32""),
    uint32 i8i8,
    @rightPad(' ')
    zchar[4294967296] rootA,
}

packet metadata {
    // a // b
    T {
        u8x {
            match As as trueish {
                // packet A { u8 x, }
                [""\" ++ [233]%N ++ runes_of_ascii """] : Header,
            },
            repeat stringy options1,
            repeat u8x {
                float32 int @lengthOf(BodyLength) `line1
                                line2`,
            },
            string f32a,
        },
        match calculatedFrom as tag {
            00 : pack,
        },
        msg_type {
            repeat int64 len `it's`,
            repeat uint64 rootA `" ++ [28040; 24687; 31867; 22411]%N ++ runes_of_ascii "`,//x
        },
        match rootA as _x {
            [""" ++ [28040; 24687]%N ++ runes_of_ascii """, ""{,}""] : metadata,
        },
    },
    @leftPad()
    u @lengthOf(Header),
    u16 x `a\`,
    match string_ as Foo {
        42 : string_,
        // trailing space 
        00 : T,
    },
}// c

packet options1 {
}")).
Eval vm_compute in ("<<<M1406>>>" ++ check (runes_of_ascii "options {
	StringPrefixLenType = u16;
	ArrayPrefixLenType = u16;
}

packet SampleBinary {
	uint16 MsgType `" ++ [28040; 24687; 31867; 22411]%N ++ runes_of_ascii "`,
	u16 BodyLenght @lengthOf(Body) `" ++ [28040; 24687; 20307; 38271; 24230]%N ++ runes_of_ascii "`,
	match MsgType as Body {
		1 : Logon,
		2 : Logout,
		3 : Heartbeat,
		4 : RiskControlRequest,
		5 : RiskControlResponse,
	},
		@calculatedFrom(""CRC32"")
	u32 Ckecksum `" ++ [26657; 39564; 21644]%N ++ runes_of_ascii "`,
}

packet Logon {
	 @leftPad('0')
	char[10] UserName `" ++ [29992; 25143; 21517]%N ++ runes_of_ascii "`,
	string Password `" ++ [23494; 30721]%N ++ runes_of_ascii "`,
	uint64 ClientId `" ++ [23458; 25143; 31471]%N ++ runes_of_ascii "ID`,
	u16 HeartbeatInterval `" ++ [24515; 36339; 38388; 38548]%N ++ runes_of_ascii "`,
}

packet Logout {
	  @rightPad('0')
	char[10] UserName `" ++ [29992; 25143; 21517]%N ++ runes_of_ascii "`,
	uint64 ClientId `" ++ [23458; 25143; 31471]%N ++ runes_of_ascii "ID`,
}

packet Heartbeat {
}

packet RiskControlRequest {
	string UniqueOrderId `" ++ [21807; 19968; 35746; 21333; 21495]%N ++ runes_of_ascii "`,
	char[16] ClOrdID `" ++ [23458; 25143; 35746; 21333; 21495]%N ++ runes_of_ascii "`,
	char[3] MarketID `" ++ [24066; 22330]%N ++ runes_of_ascii "id`,
	char[12] SecurityID `" ++ [35777; 21048; 20195; 30721]%N ++ runes_of_ascii "`,
	char Side `" ++ [20080; 21334; 26041; 21521]%N ++ runes_of_ascii "`,
	char OrderType `" ++ [35746; 21333; 31867; 22411]%N ++ runes_of_ascii "`,
	u64 Price `" ++ [20215; 26684]%N ++ runes_of_ascii "`,
	u32 Qty `" ++ [25968; 37327]%N ++ runes_of_ascii "`,
	repeat string ExtraInfo `" ++ [38468; 21152; 20449; 24687]%N ++ runes_of_ascii "`,
	repeat SubOrder {
			char[16] ClOrdID `" ++ [23376; 35746; 21333; 21495]%N ++ runes_of_ascii "`,
			u64 Price `" ++ [23376; 35746; 21333; 20215; 26684]%N ++ runes_of_ascii "`,
			u32 Qty `" ++ [23376; 35746; 21333; 25968; 37327]%N ++ runes_of_ascii "`,
		},
}

packet RiskControlResponse {
	string UniqueOrderId `" ++ [21807; 19968; 35746; 21333; 21495]%N ++ runes_of_ascii "`,
	i32 Status `" ++ [29366; 24577]%N ++ runes_of_ascii "`,
	string Msg `" ++ [32467; 26524; 20449; 24687]%N ++ runes_of_ascii "`,
	repeat Detail,
}

packet Detail {
	string RuleName `" ++ [35268; 21017; 21517; 31216]%N ++ runes_of_ascii "`,
	u16 Code `" ++ [21407; 22240; 20195; 30721]%N ++ runes_of_ascii "`,
}")).
Eval vm_compute in ("<<<M4151>>>" ++ check (runes_of_ascii "root packet x {
}

packet trueish {
    @rightPad(' ')
    repeat u16 As `tab	here`,
}

root packet Packet {
    falsey @calculatedFrom(""" ++ [28040; 24687]%N ++ runes_of_ascii """),
    @lengthOf(u128)
    repeat zchar[42] calculatedFrom `it's`,
    u64 options1 @lengthOf(repeatCount),
    @rightPad(' ')
    @calculatedFrom(""x y"")
    @rightPad('\x00')
    msg_type {
        string A @calculatedFrom(""`tick`""),
        i16 Pad @calculatedFrom(""" ++ [233]%N ++ runes_of_ascii "t" ++ [233]%N ++ runes_of_ascii """) `line1
                line2`,
        float64 roots @lengthOf(body),
    },
    @tag(007)
    f32 BodyLength @lengthOf(float),
    Pad Foo,
    char[] chars `it's`,
    @calculatedFrom(""" ++ [233]%N ++ runes_of_ascii "t" ++ [233]%N ++ runes_of_ascii """)
    Pad {
        repeat BodyLength uint8x,
        match Pad as Foo {
            ""packet"" : i64_,
            [4294967296, ""{,}""] : BodyLength,
            10 : repeatCount,
            [0123456789, 3, 42, ""\n"", ""x y""] : Logon,
            [10, ""`tick`"", 0123456789] : tag,
            42 : trueish,
        },
        repeat zchar[4294967296] Foo `it's`,
    },
}

packet float {
    @tag(1)
    u64 options1 @calculatedFrom(""a\""b""),
}")).
Eval vm_compute in ("<<<M1105>>>" ++ check (runes_of_ascii "packet uint8x { @calculatedFrom( ""a	b"" ) zchar[
42 ]Header
@calculatedFrom( ""1"" )
    ,
    zchar[
10 ] f32a
    ,@calculatedFrom(
""it's"" )f64 // trailing space 
i8i8 , @tag(
    /// triple
    0123456789 )
repeat int8 u128
    ,
    string
crc ,
    //	t
    @tag(
    // a // b
    1 ) @calculatedFrom(	""a	b""
    ) @lengthOf(
    // trailing space 
    Packet	)
    o `" ++ [233]%N ++ runes_of_ascii "`
,
    i64  i64_
, zchar[ // c
4294967296// 50% %s
]len , string_ , // " ++ [27880; 37322]%N ++ runes_of_ascii "
repeat int16 matchKey , }	options {
crc	= '\x00'// c
} options  { packetx
    = ""it's"";
    // @lengthOf(
    charz =
    true	options1
    =
""a\\""
;
leftPad =true uint8x
=string	;
// a // b
// c
} options
    {
Packet
    =
//
// " ++ [27880; 37322]%N ++ runes_of_ascii "
""1"" // packet A { u8 x, }
}
    /// triple
    packet /// triple
u128{// " ++ [27880; 37322]%N ++ runes_of_ascii "
@tag( 3 )@tag( 42 ) BodyLength
    @lengthOf(
Foo ) `tab	here`
,
char[ 007 ] a1 `two words`,repeat
x_y_z	falsey `u8 x,` ,u16 options1 ,zchar[ 10 ] _x ,
match i8i8 as options1 {
3 : msg_type 65535:
Pad , }
    // a // b
    , }
")).
Eval vm_compute in ("<<<M1203>>>" ++ check (runes_of_ascii "packet T {//
@leftPad	(
'0' )charz
    // " ++ [27880; 37322]%N ++ runes_of_ascii "
    `line1
line2` ,
}packet options1 // packet A { u8 x, }
{
} // c
root packet leftPad { @tag(
7
)
repeat string  falsey
    ,
@tag(
    // `tick` ""quote"" 'q'
    00)
    char[]
    uint8x ,
    @rightPad( )
    match i64_ as _x { 1: falsey
} , char[
// packet A { u8 x, }
// `tick` ""quote"" 'q'
0123456789
    ]
    // trailing space 
    Z9_ ,
@lengthOf(tag
)
    repeat // c
int  , char[ // trailing space 
10]
o ,
    uint64
    msg_type @calculatedFrom( ""1"" ) // `tick` ""quote"" 'q'
`{ , }` , char[] stringy @calculatedFrom(
""it's""
),// " ++ [27880; 37322]%N ++ runes_of_ascii "
uint8 tag , // a // b
u32
    crc @calculatedFrom(""a\\"" ) ,  }
MetaData  A {
x_y_z
    string_ `u8 x,` , } packet  roots // `tick` ""quote"" 'q'
{Pad { float32
lengthOf `
` , repeat
f64 MetaDataX
// trailing space 
// `tick` ""quote"" 'q'
, char[ 65535  ] u
    `
` ,
}
, repeat
char[] i64_ ,
int32 charz
    @lengthOf(
    // " ++ [27880; 37322]%N ++ runes_of_ascii "
    A ) , }
")).
Eval vm_compute in ("<<<M322>>>" ++ check (runes_of_ascii "root// a // b
packet // " ++ [128512]%N ++ runes_of_ascii " emoji
metadata
{repeat float32 roots
    , repeat
    string //x
asx ,
    string
// " ++ [27880; 37322]%N ++ runes_of_ascii "
//	t
roots @lengthOf(
As ) , char[
    // `tick` ""quote"" 'q'
    10 ] crc @lengthOf( roots ) `{ , }`, i64 Logon  @calculatedFrom( ""{,}""
)  , i16 // trailing space 
options1
@calculatedFrom( ""CRC32""	),
@calculatedFrom( ""abc""
    )@calculatedFrom(
""" ++ [233]%N ++ runes_of_ascii "t" ++ [233]%N ++ runes_of_ascii """)
    zchar[ 65535 ] matchKey
, @rightPad
/// triple
// trailing space 
('0' )	repeat matchKey`u8 x,` , repeat  len ,
} options{ pack = ' '
; u8x  =char[7];
    i64_= true; calculatedFrom = true
// packet A { u8 x, }
// " ++ [128512]%N ++ runes_of_ascii " emoji
; } root
// packet A { u8 x, }
// `tick` ""quote"" 'q'
packet rootA{
    @calculatedFrom(
    // c
    ""a\""b"" )@rightPad //
( '\x00' ) @calculatedFrom(""a\""b""
) char[] Pad ,
    } MetaData  i64_ {u64
    matchKey
    ,int64 Foo ,
    char[
    0123456789]
    BodyLength
    `
` , tag crc ,
}")).
Eval vm_compute in ("<<<M1130>>>" ++ check (runes_of_ascii "
packet	u {match Z9_ as
Z9_ { 7 :  packetx ,	}// packet A { u8 x, }
, uint8x `// not a comment`
    , @lengthOf(
    // @lengthOf(
    x ) pack `line1
line2` ,
@tag( 65535) x_y_z `a\` , float32 tag `100% of %d`	, leftPad
leftPad , @calculatedFrom( ""CRC32"" ) @rightPad( ' ') string x
// " ++ [27880; 37322]%N ++ runes_of_ascii "
// " ++ [128512]%N ++ runes_of_ascii " emoji
, // " ++ [128512]%N ++ runes_of_ascii " emoji
@leftPad  ( ' '
)i8
// `tick` ""quote"" 'q'
// packet A { u8 x, }
T @lengthOf(
    Z9_ ) ,packetx
    @calculatedFrom(
    ""packet""
)
    , }
    options	{u8x=  007 ; x_y_z=
    ""a	b"" ; }
packet
falsey {
    @lengthOf( int ) @calculatedFrom(
    ""// no comment"" ) @calculatedFrom(""" ++ [28040; 24687]%N ++ runes_of_ascii """
)
    // @lengthOf(
    zchar[ 4294967296//
] //	t
u , int8 BodyLength @lengthOf(
f32a )
,
    @tag(	4294967296 )	uint16  calculatedFrom `doc` , float32
    As ,
}packet tag
{ } packet	leftPad {@rightPad
    ( )
repeat
    char[ 42 ]i8i8 , } 	 ")).
Eval vm_compute in ("<<<M4040>>>" ++ check (runes_of_ascii "options {
    LittleEndian = true;
    StringPrefixLenType = u32;
    ArrayPrefixLenType = u32;
    FixedStringPadChar = ' ';
}

packet Party {
    char[12] tag7,
    repeat InMsgkind99 {
        repeat i32 Side2,
        repeat char[6] Qty,
        zchar[6] Ref,
        zchar[8] Px,
        i64 msgKind,
        uint64 lastPx,
    },
}

root packet Trade {
    repeat InTag752 {
        Party,
        zchar[8] venue,
        repeat InFlags40 {
            zchar[6] sym,
        },
        repeat InCount33 {
            zchar[8] Qty,
            int64 venue,
            u64 Acct,
            u16 OrderId,
        },
        repeat InSeqno96 {
            repeat Party,
            f64 msgKind,
        },
        f32 Px,
    },
    u8 venue,
    match venue as Body {
        0 : Party,
    },
}")).
Eval vm_compute in ("<<<M3604>>>" ++ check (runes_of_ascii "packet uint8x {
    match MetaDataX as T {
        0123456789 : options1,
    },
    zchar[255] x_y_z,
    @lengthOf(Logon)
    char[255] x `" ++ [233]%N ++ runes_of_ascii "`,
    match Logon as pack {
        ""packet"" : tag,
    },
    int @calculatedFrom(""" ++ [233]%N ++ runes_of_ascii "t" ++ [233]%N ++ runes_of_ascii """) `" ++ [28040; 24687; 31867; 22411]%N ++ runes_of_ascii "`,
    char[255] trueish @calculatedFrom(""a\""b""),
    zchar,
}

options {
    a1 = zchar[7];
    //	t
    // packet A { u8 x, }
}

options {
}

options {
    //x
    matchKey = ""it's"";
}

packet calculatedFrom {
    char[] u8x @calculatedFrom(""" ++ [233]%N ++ runes_of_ascii "t" ++ [233]%N ++ runes_of_ascii """),
    @tag(0123456789)
    @tag(4294967296)
    int64 a1,
    @lengthOf(stringy)
    As,
    @lengthOf(pack)
    u16 u128 @calculatedFrom(""a	b"") `u8 x,`,
    MetaDataX @lengthOf(u8x) `crlf
        line`,
    @tag(0)
    repeat charz,
    float @lengthOf(As) `{ , }`,
}
// 50% %s")).
Eval vm_compute in ("<<<M1112>>>" ++ check (runes_of_ascii "packet x_y_z
    //	t
    {
// packet A { u8 x, }
/// triple
_x , repeat float , @tag(
1) match Foo
    as rootA
{	[
255 ]
    : options1
    ,
    [ ""a\\"" ]	:
    /// triple
    leftPad , } ,@lengthOf( len) match
    o as  Z9_ {
    7: As ,
    ""x y"" : matchKey // `tick` ""quote"" 'q'
""// no comment"" : u128 , [
// @lengthOf(
// `tick` ""quote"" 'q'
0 , 255]:	len , ""CRC32"" :	metadata 3 : chars ,
} ,u64
roots `say ""hi""`
    ,
    @tag(
42
)
string int@lengthOf( Header ), @tag( 1 )@lengthOf(
float
    )
    // packet A { u8 x, }
    rootA Z9_, match	msg_type as metadata{
[ 7 , 0123456789 ] :uint8x
//x
// a // b
, [255 ] : int
,
    // packet A { u8 x, }
    255 :lengthOf , ""a\\""	: u128 /// triple
, ""1""	: u128 , },}
// `tick` ""quote"" 'q'
")).
Eval vm_compute in ("<<<M4372>>>" ++ check (runes_of_ascii "

  options { i8i8

    =
    ""1"" u
=
""a	b""  //x
	;

a1
=
zchar[	00
// @lengthOf(

]
; 
        // c
  o=
	""a	b""  ;
	float

    =
    char[] 	 // a // b
;	}  root packet	chars{
}

    packet 
body // `tick` ""quote"" 'q'

  {	repeat u8x

{ int16
	zchar,

char[1
	]o `" ++ [233]%N ++ runes_of_ascii "`
    ,

}  ,
}  packet	BodyLength	{

// c
@rightPad
    ( '0'
    ) u16 u8x
@calculatedFrom(
""// no comment""
    ) ,
@tag(
1 ) 
    // a // b
// " ++ [128512]%N ++ runes_of_ascii " emoji
	  match
    i8i8 
as u128 
{  007

:
	len
	,
    """ ++ [128512]%N ++ runes_of_ascii """
:

u128 
,
},

repeat
    repeatCount// " ++ [128512]%N ++ runes_of_ascii " emoji
`u8 x,`,	@calculatedFrom(// c
  ""x y""
	)falsey

    {
char[ 255	] crc ,
Logon
    `two words`,  roots  options1

    ,	}
    , 
} root
    packet  calculatedFrom {}")).
Eval vm_compute in ("<<<M4178>>>" ++ check (runes_of_ascii "MetaData lengthOf {
    uint32 charz `100% of %d`,
}

packet zchar {
    @calculatedFrom(""x y"")
    match As as As {
        [7, """ ++ [128512]%N ++ runes_of_ascii """] : lengthOf,
        ["""", 007, 3, 42, ""\n""] : Packet,
        //x
    },
    @leftPad()
    @tag(42)
    zchar,
    @lengthOf(x)
    uint16 crc @lengthOf(lengthOf) `u8 x,`,
    Foo {
        repeat packetx,
        zchar[3] chars @lengthOf(tag),
        string chars @calculatedFrom(""abc"") `a\`,
    },
    @rightPad('0')
    Logon {
        // " ++ [128512]%N ++ runes_of_ascii " emoji
        // " ++ [27880; 37322]%N ++ runes_of_ascii "
        int16 leftPad @calculatedFrom(""""),
        Foo @calculatedFrom(""\" ++ [233]%N ++ runes_of_ascii """),
        // 50% %s
        // @lengthOf(
        int16 len `u8 x,`,
    },
}

MetaData matchKey {
}")).
Eval vm_compute in ("<<<M4113>>>" ++ check (runes_of_ascii "packet packetx {
    // `tick` ""quote"" 'q'
    match Pad as roots {
        10 : body,
        0 : Z9_,
        42 : Logon,
        00 : tag,
        """ ++ [28040; 24687]%N ++ runes_of_ascii """ : pack,
    },
    @calculatedFrom(""{,}"")
    i64 Z9_,
    string u @lengthOf(metadata),
    @tag(0123456789)
    BodyLength u `{ , }`,
    @rightPad()
    msg_type @lengthOf(T),
    // @lengthOf(
}

/// triple
/// triple
packet Logon {
    @rightPad('\x00')
    repeat int16 metadata,
    @tag(42)
    chars Pad,
    @calculatedFrom(""" ++ [233]%N ++ runes_of_ascii "t" ++ [233]%N ++ runes_of_ascii """)
    repeat A Pad `line1
    line2`,
    @lengthOf(T)
    char[] Pad,
    //	t
    // `tick` ""quote"" 'q'
    len @lengthOf(int),
    string Foo,
}

options {
}")).
Eval vm_compute in ("<<<M572>>>" ++ check (runes_of_ascii "//x
root packet
int {metadata @lengthOf( MetaDataX// `tick` ""quote"" 'q'
) , char[]x_y_z @calculatedFrom( """ ++ [128512]%N ++ runes_of_ascii """ )
    // a // b
    , matchKey@calculatedFrom( """" )`` , uint32 Logon @lengthOf(stringy// a // b
) `
` ,// 50% %s
repeat float
    , string A
`{ , }` ,
    @calculatedFrom( ""{,}""
)  match matchKey
as leftPad {	[ ""\n"" , 42
    ,
""" ++ [128512]%N ++ runes_of_ascii """ ,// trailing space 
""a	b"" ,
""1"" ,
""{,}""
    ] :
// " ++ [27880; 37322]%N ++ runes_of_ascii "
// packet A { u8 x, }
stringy // c
,}
,	float64
    // " ++ [128512]%N ++ runes_of_ascii " emoji
    Logon , } options //
{ pack =' ' ;
options1
=
    //x
    3 ; // a // b
matchKey
=true ;  o = i32 }
root
packet stringy {
string _x
    ,} packet MetaDataX {//	t
}")).
Eval vm_compute in ("<<<M3678>>>" ++ check (runes_of_ascii "packet asx {
    @calculatedFrom(""CRC32"")
    u32 matchKey,
    repeat string body,
}

MetaData roots {
    _x matchKey,
    lengthOf i8i8 `doc`,
    i16 pack,
    uint8 i64_,
    zchar[7] i8i8,
    i64_ body `
    `,
}

packet u8x {
    @lengthOf(msg_type)
    uint8x @calculatedFrom(""a\""b"") `line1
    line2`,
    char[10] calculatedFrom,
    @tag(3)
    @lengthOf(packetx)
    @calculatedFrom(""it's"")
    zchar[00] T @lengthOf(crc),
    match f32a as Logon {
        ""abc"" : BodyLength,
        [0, 42] : Header,
        007 : Z9_,
        ""a\""b"" : chars,
        // packet A { u8 x, }
        //
    },
}")).
Eval vm_compute in ("<<<M573>>>" ++ check (runes_of_ascii "packet u128 {  zchar[ 0123456789]MetaDataX @calculatedFrom(
    // packet A { u8 x, }
    """ ++ [28040; 24687]%N ++ runes_of_ascii """
    ) `100% of %d`
    // " ++ [128512]%N ++ runes_of_ascii " emoji
    ,x MetaDataX , repeat
    //	t
    i64_
packetx
    // @lengthOf(
    `" ++ [233]%N ++ runes_of_ascii "` /// triple
, zchar[42 ]trueish `" ++ [233]%N ++ runes_of_ascii "`,
// 50% %s
// @lengthOf(
} packet trueish { trueish
    @calculatedFrom( ""it's"") `say ""hi""` ,
string float @calculatedFrom( ""\" ++ [233]%N ++ runes_of_ascii """	) // @lengthOf(
, @tag(
42
    )
    repeatCount	{
    match
MetaDataX as
    // " ++ [27880; 37322]%N ++ runes_of_ascii "
    Header { ""`tick`"" : As
    // trailing space 
    , } ,
MetaDataX {pack msg_type
    , }, string falsey  , } , } // 50% %s")).
Eval vm_compute in ("<<<M4420>>>" ++ check (runes_of_ascii "
packet crc
{//
	match 
uint8x as 
x{

    0:

charz

[0123456789  ,  00,65535 ,

    //x
	  ""abc""  
      //
  // c
    ,
    // " ++ [128512]%N ++ runes_of_ascii " emoji
    //	t
	10, 42,""`tick`""

    ,
00 ]//
    :

    // packet A { u8 x, }
	// c
    crc,
[ ""{,}""  ] 
: tag
	, 
""abc"" :len
, ""`tick`"" 	 /// triple
  : 
int  }

,
}
	packet

u { string 
// a // b
  	// " ++ [27880; 37322]%N ++ runes_of_ascii "
	Header 
, @calculatedFrom(""" ++ [233]%N ++ runes_of_ascii "t" ++ [233]%N ++ runes_of_ascii """ ) repeat	int
Z9_

    , @calculatedFrom(""// no comment"" 
)

    float32  // trailing space 
  uint8x `u8 x,`  ,  Foo@calculatedFrom( 	 // " ++ [128512]%N ++ runes_of_ascii " emoji

	""a\\"" )`
`

    ,
	}
")).
Eval vm_compute in ("<<<M3320>>>" ++ check (runes_of_ascii "// top
packet // c0
MetaDataX // c1
{ // c2
} // c3
root // c4
packet // c5
len // c6
{ // c7
zchar[ // c8
7 // c9
] // c10
matchKey // c11
@lengthOf( // c12
BodyLength // c13
) // c14
, // c15
BodyLength // c16
`// not a comment` // c17
, // c18
match // c19
u8x // c20
as // c21
i8i8 // c22
{ // c23
""a\""b"" // c24
: // c25
stringy // c26
, // c27
[ // c28
""`tick`"" // c29
] // c30
: // c31
u8x // c32
0123456789 // c33
: // c34
options1 // c35
, // c36
[ // c37
""`tick`"" // c38
] // c39
: // c40
x_y_z // c41
} // c42
, // c43
} // c44
")).
Eval vm_compute in ("<<<M669>>>" ++ check (runes_of_ascii "packet  x
{@lengthOf(
    x ) repeat char[] chars `{ , }` , } root packet MetaDataX{ u128 @calculatedFrom( ""{,}""
// packet A { u8 x, }
// trailing space 
) , repeat
    char[] Logon `tab	here`
,	x_y_z {uint32
MetaDataX @calculatedFrom( ""a\\""  ),  }, // `tick` ""quote"" 'q'
i64 Pad
    //	t
    `a\`, } packet rootA { repeat MetaDataX
tag `" ++ [28040; 24687; 31867; 22411]%N ++ runes_of_ascii "` , repeat u8x charz,
    @calculatedFrom( ""CRC32"" ) falsey { uint32 Foo, repeat float64 uint8x,a1
@lengthOf( string_
) // trailing space 
,  } , // `tick` ""quote"" 'q'
}
")).
Eval vm_compute in ("<<<M1068>>>" ++ check (runes_of_ascii "packet A
{	}
    packet u128
    {match Pad as asx{ 1 : repeatCount , 255
    :As 4294967296
//	t
// " ++ [128512]%N ++ runes_of_ascii " emoji
:  falsey, [// " ++ [27880; 37322]%N ++ runes_of_ascii "
""a	b"" ] :
float , ""1""
    :
    msg_type,	[7,
""a\\"" ,  ""a\\""  ,255 ,	4294967296 ,
    3 ,  007
] :string_ , } ,@tag(0) match lengthOf as // " ++ [128512]%N ++ runes_of_ascii " emoji
options1// c
{
[
""it's"" // packet A { u8 x, }
]// " ++ [27880; 37322]%N ++ runes_of_ascii "
: float
,	7:	Foo  [
""{,}""
] : packetx , },  @tag(
007 )char[ 00
// packet A { u8 x, }
/// triple
] x_y_z @calculatedFrom( ""`tick`"" ), repeat u8 i8i8 `doc` , }")).
Eval vm_compute in ("<<<M1194>>>" ++ check (runes_of_ascii "root packet MetaDataX {
/// triple
//
repeat f64 chars
`// not a comment` , @tag( 4294967296 ) Pad
,
    u8  body,// `tick` ""quote"" 'q'
u // c
@lengthOf( i8i8	) `line1
line2` , /// triple
@lengthOf(
int)
@lengthOf(
    pack )u ,	@tag(00)	repeat// a // b
f32 crc `tab	here`
    ,match body as
    i64_ { // c
0
    : A ,
    7 :a1 ,
} , @calculatedFrom( ""`tick`"" )	@calculatedFrom( //x
""a	b"" )	char[
65535 ] asx
@calculatedFrom(""" ++ [233]%N ++ runes_of_ascii "t" ++ [233]%N ++ runes_of_ascii """)`two words` // " ++ [128512]%N ++ runes_of_ascii " emoji
, }
")).
Eval vm_compute in ("<<<M1349>>>" ++ check (runes_of_ascii "//	t
packet int	{ chars falsey`u8 x,`	,char[ 3 // `tick` ""quote"" 'q'
] asx
@lengthOf(string_ ) `say ""hi""`, @calculatedFrom(
""" ++ [128512]%N ++ runes_of_ascii """ )
u64 x_y_z `line1
line2`
    ,
} packet leftPad { @calculatedFrom(
    //
    ""it's""	)
uint8 chars
    `two words`,@calculatedFrom(""CRC32""
) @lengthOf(
    o)repeat char[4294967296] x/// triple
,@calculatedFrom(""CRC32""
) float64 Packet `it's` , @tag(	65535 )
char[]f32a @calculatedFrom( ""x y"" ) `doc`  ,// c
} 	 ")).
Eval vm_compute in ("<<<M3474>>>" ++ check (runes_of_ascii "
options
    {	LittleEndian

=
    false ;  StringPrefixLenType  =

    u16

;  ArrayPrefixLenType
    =	u32
    ;	FixedStringPadChar
    = '0' ; }
	packet	Leg 
{

char[]  OrderId

    , 
repeat

InFlags49
{float32
	Tail  ,} 
,
    }root

packet

    Heartbeat{

char[]Px ,
	f32 Side2 
, 
repeat 
Leg , char[] 
Flags
,u32 Acct,u32 seqNo

    @lengthOf( Body )
	,match
Acct	as Body{ [
165
    ,
	21]  : Leg ,}
,}
")).
Eval vm_compute in ("<<<M4189>>>" ++ check (runes_of_ascii "  MetaData
u8x {u32 metadata	,
	} // packet A { u8 x, }
  MetaData

    calculatedFrom
    // trailing space 

	{
	calculatedFrom repeatCount`// not a comment` 
,
    roots 	 // 50% %s
	options1 
,
zchar[	1

    ]i8i8 ,// `tick` ""quote"" 'q'
  zchar[0123456789 ]
i8i8 ,i64 charz ,

u8 f32a
,}
	packet	string_	// c
	{ /// triple

	@calculatedFrom( ""\" ++ [233]%N ++ runes_of_ascii """
    )
repeat stringy

    `it's`

    , }
")).
Eval vm_compute in ("<<<M135>>>" ++ check (runes_of_ascii "MetaData//
uint8x { } packet
BodyLength{ @calculatedFrom( ""{,}"" ) zchar // packet A { u8 x, }
body ,
char // a // b
a1 `tab	here`	, match
    matchKey as rootA { 0123456789
    :float
    }, match packetx as	calculatedFrom {
    42//	t
: x_y_z , } ,
    } packet pack	{
    // " ++ [128512]%N ++ runes_of_ascii " emoji
    string// packet A { u8 x, }
x_y_z
    ,
    @calculatedFrom( ""a\\"" // " ++ [27880; 37322]%N ++ runes_of_ascii "
) repeat
u Foo
`` , //	t
}
")).
Eval vm_compute in ("<<<M364>>>" ++ check (runes_of_ascii "root
packet //x
pack
{ match matchKey //	t
as
int // @lengthOf(
{ 00 : metadata
    ,
    ""a\\""
    : o ,
""// no comment"" :// `tick` ""quote"" 'q'
x ,
[
""packet""] : A
, [ ""\n"",0123456789 , 00 , ""// no comment"" ,007 ,
255,
1 ,// c
0 ]
    // a // b
    : metadata ,[ 00] : Pad ,} , } // @lengthOf(
MetaData tag
{uint64 i64_`` ,
    } packet BodyLength { repeat
u32
u128 , }
")).
Eval vm_compute in ("<<<M665>>>" ++ check (runes_of_ascii "packet T { @lengthOf(
len ) match	crc as
    string_
{10	:
Pad
, // " ++ [128512]%N ++ runes_of_ascii " emoji
7 :
    _x , 7 //x
:
stringy ,// c
} ,
o
@calculatedFrom(""a\""b"" )`two words`
, match Foo
as options1 { [ ""// no comment""] : metadata// trailing space 
, }, @rightPad ( '\x00' ) repeat o
    i8i8 ,rootA
    // `tick` ""quote"" 'q'
    , } options { A  =
65535
} // trailing space ")).
Eval vm_compute in ("<<<M156>>>" ++ check (runes_of_ascii "packet falsey { repeat u8 Logon ,
char[]
f32a
    , tag rootA,
    //
    @rightPad (' ' // `tick` ""quote"" 'q'
)@tag( 007 ) match o	as _x{ [ 1 ,""a	b"" , ""1""	, 00  ,7 ,
    // `tick` ""quote"" 'q'
    """ ++ [233]%N ++ runes_of_ascii "t" ++ [233]%N ++ runes_of_ascii """ ,7 , 00
    ]
    :
Foo
,
    ""\" ++ [233]%N ++ runes_of_ascii """ : matchKey ,
} ,
    @rightPad (
'\x00' )string msg_type , repeat u8x
    , repeat BodyLength  ,
}")).
Eval vm_compute in ("<<<M4340>>>" ++ check (runes_of_ascii "

  packet 
        // a // b
	calculatedFrom{ @calculatedFrom(
""1""
)

repeat  options1

{crc @lengthOf( i8i8  )

`it's`
    , i8 lengthOf
    `tab	here`
	,
    zchar	@lengthOf( pack

    ), },	char[

    42

]
trueish@lengthOf(// " ++ [27880; 37322]%N ++ runes_of_ascii "
  Packet)
    , 
zchar[ 
10] a1

,
}MetaData // c

lengthOf
{

string
    float , }
")).
Eval vm_compute in ("<<<M4467>>>" ++ check (runes_of_ascii "MetaData Z9_ {
    //
    char[] u128 `" ++ [28040; 24687; 31867; 22411]%N ++ runes_of_ascii "`,
    float64 BodyLength,
    roots MetaDataX `
        `,
    packetx falsey,
    // trailing space 
    // packet A { u8 x, }
    i16 body,
    f64 i64_,
}

options {
    u8x = ""x y"";
    packetx = 255;
    f32a = ""it's""
}

packet u128 {
    T @calculatedFrom(""a\\""),
}")).
Eval vm_compute in ("<<<M3650>>>" ++ check (runes_of_ascii "MetaData _x {
    //x
    char[3] Pad `crlf
        line`,
}

packet trueish {
    // a // b
    // c
    u,
    repeat f32a {
        char[65535] MetaDataX,
    },
    @calculatedFrom(""// no comment"")
    zchar[007] crc @calculatedFrom(""a\""b"") `{ , }`,
    @lengthOf(x_y_z)
    As `
        `,
}
//")).
Eval vm_compute in ("<<<M866>>>" ++ check (runes_of_ascii "MetaData lengthOf
{ char[ 10 ]metadata	`two words`
,// 50% %s
chars	_x
, i32 len	`` , int16 // trailing space 
zchar
    `line1
line2`, calculatedFrom T
    ,
} packet x_y_z { @calculatedFrom( ""a	b"")
repeat Packet ,
BodyLength
`` ,
repeat float
u128 `say ""hi""`// @lengthOf(
,
    }
")).
Eval vm_compute in ("<<<M3948>>>" ++ check (runes_of_ascii "
packet
	options1
{

    zchar[	255	]leftPad

    , 
} packet repeatCount {
    }
MetaData	pack

// " ++ [27880; 37322]%N ++ runes_of_ascii "
    //x
{ 
char[ 00  ]

BodyLength
	,
    zchar[ 	 //	t

	0123456789]
metadata 
,zchar[ 65535

    ]	rootA

    `a\` 
,
uint32	msg_type
	, Foo f32a

    ,
	}

")).
Eval vm_compute in ("<<<M4033>>>" ++ check (runes_of_ascii "root packet lengthOf {
    @calculatedFrom(""\n"")
    @leftPad('\x00')
    @tag(65535)
    repeat lengthOf {
        repeat uint8 Z9_,
        repeat f32 BodyLength `crlf
        line`,
        repeat i8i8,
        // packet A { u8 x, }
        pack BodyLength,
    },
}")).
Eval vm_compute in ("<<<M1708>>>" ++ check (runes_of_ascii "// 50% %s
packet	a1
    { zchar[
// a // b
// 50% %s
007]
T `it's`
    ,@rightPad
    // a // b
    (
'\x00')
    " ++ [252]%N ++ runes_of_ascii "ber repeatCount , }  packet Logon {  }packet	Logon //x
{ repeat // " ++ [128512]%N ++ runes_of_ascii " emoji
uint16 u128
    //
    `a\`,
falsey
@calculatedFrom(""packet"" ) ,
    } 	 ")).
Eval vm_compute in ("<<<M1694>>>" ++ check (runes_of_ascii "// 50% %s
packet	a1
    { zchar[
// a // b
// 50% %s
007]
T `it's`
    ,@rightPad
    // a // b
    (
'\x00')
    o repeatCount , }  packet Logon {  }packet	Logon //x
{ /repeat // " ++ [128512]%N ++ runes_of_ascii " emoji
uint16 u128
    //
    `a\`,
falsey
@calculatedFrom(""packet"" ) ,
    } 	 ")).
Eval vm_compute in ("<<<M1628>>>" ++ check (runes_of_ascii "// 50% %s
packet	a1
    { zchar[
// a // b
// 50% %s
007]
T `it's`
    ,@rightPad
    // a // b
    (
'\x00')
    o repeatCount , }  packet Logon {  }packet	{ //x
Logon repeat // " ++ [128512]%N ++ runes_of_ascii " emoji
uint16 u128
    //
    `a\`,
falsey
@calculatedFrom(""packet"" ) ,
    } 	 ")).
Eval vm_compute in ("<<<M1686>>>" ++ check (runes_of_ascii "// 50% %s
packet	a1
    { zchar[
// a // b
// 50% %s
007]
T `it's`
    ,@rightPad
    // a // b
    (
'\x00')
    o repeatCount , }  packet Logon {  }packet	Logon //x
{ repeat // " ++ [128512]%N ++ runes_of_ascii " emoji
uint16 u128
    //
    `a\`,
falsey
@calculatedFrom(""packet"" ) ,
     	 ")).
Eval vm_compute in ("<<<M1516>>>" ++ check (runes_of_ascii "// 50% %s
	a1
    { zchar[
// a // b
// 50% %s
007]
T `it's`
    ,@rightPad
    // a // b
    (
'\x00')
    o repeatCount , }  packet Logon {  }packet	Logon //x
{ repeat // " ++ [128512]%N ++ runes_of_ascii " emoji
uint16 u128
    //
    `a\`,
falsey
@calculatedFrom(""packet"" ) ,
    } 	 ")).
Eval vm_compute in ("<<<M1269>>>" ++ check (runes_of_ascii "root packet //
float { body `tab	here`//	t
,} options { // a // b
x
= uint8 u8x =
"""" lengthOf= float64
    ; float = """ ++ [28040; 24687]%N ++ runes_of_ascii """  } options {
} root packet A
{ Header ,
// packet A { u8 x, }
// trailing space 
@tag( 0) Foo metadata	`doc` // " ++ [128512]%N ++ runes_of_ascii " emoji
, }")).
Eval vm_compute in ("<<<M1675>>>" ++ check (runes_of_ascii "// 50% %s
packet	a1
    { zchar[
// a // b
// 50% %s
007]
T `it's`
    ,@rightPad
    // a // b
    (
'\x00')
    o repeatCount , }  packet Logon {  }packet	Logon //x
{ repeat // " ++ [128512]%N ++ runes_of_ascii " emoji
uint16 u128
    //
    `a\`,
falsey
@calculatedFrom(")).
Eval vm_compute in ("<<<M1181>>>" ++ check (runes_of_ascii "MetaData trueish {	char[ 42 ]
    tag `line1
line2`
, // " ++ [27880; 37322]%N ++ runes_of_ascii "
} // trailing space 
MetaData Pad{ f64 pack  ,
    As matchKey,u32 // 50% %s
As , int64
    repeatCount , Foo o
    , string // trailing space 
charz, }packet Header
{}
")).
Eval vm_compute in ("<<<M4157>>>" ++ check (runes_of_ascii "root packet falsey {
    // c
    repeat zchar[42] f32a,
    matchKey @lengthOf(x),// `tick` ""quote"" 'q'
    @calculatedFrom(""{,}"")
    @leftPad('\x00')
    //	t
    repeat f32a,
    @rightPad('\x00')
    T @lengthOf(o),
}")).
Eval vm_compute in ("<<<M704>>>" ++ check (runes_of_ascii "
root packet
stringy {
repeat char[ 4294967296]_x ,i8i8 @calculatedFrom(
""{,}"" ) `two words`
,
// " ++ [128512]%N ++ runes_of_ascii " emoji
// @lengthOf(
} MetaData falsey {
}
    MetaData int
    { zchar[
    1]
metadata `
` , i8i8
rootA,  }
")).
Eval vm_compute in ("<<<M825>>>" ++ check (runes_of_ascii "root packet
    Packet
{ @rightPad ( '\x00' ) calculatedFrom {repeat char[ 1 ] u8x
, // 50% %s
repeat
zchar[ 1] packetx `u8 x,` , }, }
    packet u128 {
repeat string rootA ,
// packet A { u8 x, }
//x
}
")).
Eval vm_compute in ("<<<M816>>>" ++ check (runes_of_ascii "root  packet	BodyLength { @tag( 1 ) f64
    x_y_z `it's` , @calculatedFrom(""packet"") @calculatedFrom( ""CRC32""
/// triple
/// triple
)// c
char /// triple
Pad
    //	t
    , string msg_type , }")).
Eval vm_compute in ("<<<M804>>>" ++ check (runes_of_ascii "packet As{ } options { T =true;crc = f64
//
//	t
x =
    """"	;
    }options { //	t
repeatCount// packet A { u8 x, }
= // @lengthOf(
char ;
leftPad=
// a // b
/// triple
""`tick`"" ; }
")).
Eval vm_compute in ("<<<M1146>>>" ++ check (runes_of_ascii "// " ++ [128512]%N ++ runes_of_ascii " emoji
MetaData	len {
char[] o `tab	here` , char[]
    Logon , char[] Foo
    , uint64  Z9_ ,
    A  Foo ,uint8
    falsey// `tick` ""quote"" 'q'
`crlf
line` ,
} // a // b")).
Eval vm_compute in ("<<<M4264>>>" ++ check (runes_of_ascii "
// top

  root// c0a
	  // c0b
    packet 	 // c1

	P
	    // c2
{	// c3a
    	// c3b
	repeat	// c4
char  // c5a
// c5b
	cs
, 
	// c7
    u8
x  , } 

    // c11
")).
Eval vm_compute in ("<<<M3606>>>" ++ check (runes_of_ascii "  packet
A
    { 
u8
a

, 
} packet B {
    u16 
b 
,	} root packet  P {u8 K
,
    match	K
as	M
	{[ 1	,2 ]

    : 
A  , 3
	:
	B ,	7
    : 
A
	, } ,

    }
")).
Eval vm_compute in ("<<<M4037>>>" ++ check (runes_of_ascii "packet A {
    match k as n {
        [
            ""a"", ""bb"", ""c c"", ""d"", ""e"",
            ""f"", ""g"", ""h"", ""i"", ""j""
        ] : B,
        2 : C,
    },
}")).
Eval vm_compute in ("<<<M2091>>>" ++ check (runes_of_ascii "MetaData BodyLength
{ int8 Foo
, string
    MetaDataX , float float zchar ,pack options1
,asx string_, }
packet u8x {Foo@lengthOf(charz )
`" ++ [28040; 24687; 31867; 22411]%N ++ runes_of_ascii "`,  }
")).
Eval vm_compute in ("<<<M2068>>>" ++ check (runes_of_ascii "MetaData BodyLength
{ int8 int64
, string
    MetaDataX , float zchar ,pack options1
,asx string_, }
packet u8x {Foo@lengthOf(charz )
`" ++ [28040; 24687; 31867; 22411]%N ++ runes_of_ascii "`,  }
")).
Eval vm_compute in ("<<<M2157>>>" ++ check (runes_of_ascii "MetaData BodyLength
{ int8 Foo
, string
    MetaDataX , float zchar ,pack options1
,asx string_, }
packet u8x {@lengthOf(Foo charz )
`" ++ [28040; 24687; 31867; 22411]%N ++ runes_of_ascii "`,  }
")).
Eval vm_compute in ("<<<M2107>>>" ++ check (runes_of_ascii "MetaData BodyLength
{ int8 Foo
, string
    MetaDataX , float zchar ,options1 pack
,asx string_, }
packet u8x {Foo@lengthOf(charz )
`" ++ [28040; 24687; 31867; 22411]%N ++ runes_of_ascii "`,  }
")).
Eval vm_compute in ("<<<M2130>>>" ++ check (runes_of_ascii "MetaData BodyLength
{ int8 Foo
, string
    MetaDataX , float zchar ,pack options1
,asx string_ }
packet u8x {Foo@lengthOf(charz )
`" ++ [28040; 24687; 31867; 22411]%N ++ runes_of_ascii "`,  }
")).
Eval vm_compute in ("<<<M1207>>>" ++ check (runes_of_ascii "options
{ u8x = ""it's""
    // `tick` ""quote"" 'q'
    x_y_z= 42 o = true ;
MetaDataX // a // b
=
// " ++ [128512]%N ++ runes_of_ascii " emoji
// " ++ [27880; 37322]%N ++ runes_of_ascii "
'0' ;
} // trailing space ")).
Eval vm_compute in ("<<<M2289>>>" ++ check (runes_of_ascii "options
    {
x_y_z// " ++ [27880; 37322]%N ++ runes_of_ascii "
= 10 ; }
packet body {
    @calculatedFrom(
// trailing space 
// " ++ [27880; 37322]%N ++ runes_of_ascii "
""1""
)	match T as Foo Foo
    {
255 :T , }
,}")).
Eval vm_compute in ("<<<M1947>>>" ++ check (runes_of_ascii "
packet leftPad {
@leftPad( ( '0')
u32
i64_ `100% of %d` ,repeat// 50% %s
i8 chars
    ,
} MetaData
    f32a
{ // packet A { u8 x, }
}")).
Eval vm_compute in ("<<<M2326>>>" ++ check (runes_of_ascii "options
    {
x_y_z// " ++ [27880; 37322]%N ++ runes_of_ascii "
= 10 ; }
packet body {
    @calculatedFrom(
// trailing space 
// " ++ [27880; 37322]%N ++ runes_of_ascii "
""1""
)	match T as Foo
    {
255 :T , }
u16}")).
Eval vm_compute in ("<<<M1930>>>" ++ check (runes_of_ascii "
""a\""b"" leftPad {
@leftPad( '0')
u32
i64_ `100% of %d` ,repeat// 50% %s
i8 chars
    ,
} MetaData
    f32a
{ // packet A { u8 x, }
}")).
Eval vm_compute in ("<<<M2235>>>" ++ check (runes_of_ascii "options
    {
x_y_z// " ++ [27880; 37322]%N ++ runes_of_ascii "
= 10 } ;
packet body {
    @calculatedFrom(
// trailing space 
// " ++ [27880; 37322]%N ++ runes_of_ascii "
""1""
)	match T as Foo
    {
255 :T , }
,}")).
Eval vm_compute in ("<<<M1996>>>" ++ check (runes_of_ascii "
packet leftPad {
@leftPad( '0')
u32
i64_ `100% of %d` ,repeat// 50% %s
i8 chars
    
} MetaData
    f32a
{ // packet A { u8 x, }
}")).
Eval vm_compute in ("<<<M1066>>>" ++ check (runes_of_ascii "// @lengthOf(
options {
    T = ""{,}""
    ; Logon	=
    // packet A { u8 x, }
    10 }	root packet chars { string A `crlf
line` , }
")).
Eval vm_compute in ("<<<M1991>>>" ++ check (runes_of_ascii "
packet leftPad {
@leftPad( '0')
u32
i64_ `100% of %d` ,repeat// 50% %s
i8 
    ,
} MetaData
    f32a
{ // packet A { u8 x, }
}")).
Eval vm_compute in ("<<<M1931>>>" ++ check (runes_of_ascii "
packet  {
@leftPad( '0')
u32
i64_ `100% of %d` ,repeat// 50% %s
i8 chars
    ,
} MetaData
    f32a
{ // packet A { u8 x, }
}")).
Eval vm_compute in ("<<<M629>>>" ++ check (runes_of_ascii "options { i64_
// " ++ [27880; 37322]%N ++ runes_of_ascii "
// @lengthOf(
=
char body
=// " ++ [128512]%N ++ runes_of_ascii " emoji
true
    ;
    } root packet //	t
BodyLength { }
packet asx {
}
")).
Eval vm_compute in ("<<<M3217>>>" ++ check (runes_of_ascii "// top
root
    // c0
packet
    // c1
u128
    // c2
{
    // c3
chars
    // c4
`doc`
    // c5
,
    // c6
}
    // c7
")).
Eval vm_compute in ("<<<M3083>>>" ++ check (runes_of_ascii "packet A {
    match k as n {
        ""x\
y"" : B,
        [""x\
y"", 1] : C,
        [1,2,3,4,5,""x\
y""] : D,
    },
}")).
Eval vm_compute in ("<<<M1912>>>" ++ check (runes_of_ascii "packet o {
    roots `it's`
// trailing space 
//x
, char[ 42
    ]  A, // " ++ [27880; 37322]%N ++ runes_of_ascii "
f64
repeatCount
    `crlf
line`
,}" ++ [0]%N ++ runes_of_ascii " ")).
Eval vm_compute in ("<<<M1305>>>" ++ check (runes_of_ascii "options {Z9_ = 007  ;
    falsey= """ ++ [128512]%N ++ runes_of_ascii """	; }options {asx
    = uint16 ; }options
{ T=  string ;
lengthOf
= false ; }")).
Eval vm_compute in ("<<<M1897>>>" ++ check (runes_of_ascii "packet o {
    roots `it's`
// trailing space 
//x
, char[ 42
    ]  A, // " ++ [27880; 37322]%N ++ runes_of_ascii "
f64
repeatCount
    `crlf
line`
}")).
Eval vm_compute in ("<<<M1925>>>" ++ check (runes_of_ascii "packet o {
    x" ++ [178]%N ++ runes_of_ascii " `it's`
// trailing space 
//x
, char[ 42
    ]  A, // " ++ [27880; 37322]%N ++ runes_of_ascii "
f64
repeatCount
    `crlf
line`
,}")).
Eval vm_compute in ("<<<M1895>>>" ++ check (runes_of_ascii "packet o {
    roots `it's`
// trailing space 
//x
, char[ 42
    ]  A, // " ++ [27880; 37322]%N ++ runes_of_ascii "
f64
repeatCount
    packet
,}")).
Eval vm_compute in ("<<<M3004>>>" ++ check (runes_of_ascii "packet A {
  match k as n {
    [1, ""bb"", 007, ""d"", 5, ""f"", 7, ""h"", 9, ""j"", 11, ""l""] : B
    2 : C
  },
}")).
Eval vm_compute in ("<<<M1575>>>" ++ check (runes_of_ascii "// 50% %s
packet	a1
    { zchar[
// a // b
// 50% %s
007]
T `it's`
    ,@rightPad
    // a // b
    (")).
Eval vm_compute in ("<<<M2979>>>" ++ check (runes_of_ascii "packet A {
  match k as n {
    [""a"", 22, ""c c"", 4, ""e"", 66, ""g"", 8, ""i"", 10] : B,
    2 : C
  },
}")).
Eval vm_compute in ("<<<M1458>>>" ++ check (runes_of_ascii "packet
T
{ match repeatCount as	calculatedFrom
{ [65535 65535 ]	: As	,
} ,}
// trailing space 
")).
Eval vm_compute in ("<<<M1282>>>" ++ check (runes_of_ascii "
options
    {
    Logon
= char[] ;
    falsey
// " ++ [27880; 37322]%N ++ runes_of_ascii "
// 50% %s
= false ; leftPad
=	f32
    }
")).
Eval vm_compute in ("<<<M445>>>" ++ check (runes_of_ascii "options {
BodyLength	=	'0'lengthOf//	t
=""abc"";
} packet
    u8x { tag zchar ,/// triple
} //")).
Eval vm_compute in ("<<<M1500>>>" ++ check (runes_of_ascii "packet
T
{ match repeatCount as	calculatedFrom
{ [6$5535 ]	: As	,
} ,}
// trailing space 
")).
Eval vm_compute in ("<<<M1454>>>" ++ check (runes_of_ascii "packet
T
{ match repeatCount as	calculatedFrom
{ 65535[ ]	: As	,
} ,}
// trailing space 
")).
Eval vm_compute in ("<<<M1475>>>" ++ check (runes_of_ascii "packet
T
{ match repeatCount as	calculatedFrom
{ [65535 ]	: )	,
} ,}
// trailing space 
")).
Eval vm_compute in ("<<<M1738>>>" ++ check (runes_of_ascii "options{  lengthOf =//x
i16 f32
    BodyLength = 0 ; pack
= false;
    A = char[ 3 ] }")).
Eval vm_compute in ("<<<M1813>>>" ++ check (runes_of_ascii "options{  lengthOf =//x
i16;
    BodyLength = 0 ; pack
= false;
    A = char[ 3 ] }< ")).
Eval vm_compute in ("<<<M4210>>>" ++ check (runes_of_ascii "// top
root packet P {
    // c3a
    // c3b
    char c,// c6
    u8 x,// c9
}
// c10")).
Eval vm_compute in ("<<<M3971>>>" ++ check (runes_of_ascii "packet order_item {
    u8 a,
}

root packet new_order {
    order_item,
    u8 x,
}")).
Eval vm_compute in ("<<<M2000>>>" ++ check (runes_of_ascii "
packet leftPad {
@leftPad( '0')
u32
i64_ `100% of %d` ,repeat// 50% %s
i8 chars")).
Eval vm_compute in ("<<<M3244>>>" ++ check (runes_of_ascii "
// c
MetaData Foo { zchar[ 0 ] matchKey , } options { lengthOf = i32 u = 00 ; }")).
Eval vm_compute in ("<<<M3253>>>" ++ check (runes_of_ascii "MetaData Foo { zchar[ 0 // c
] matchKey , } options { lengthOf = i32 u = 00 ; }")).
Eval vm_compute in ("<<<M265>>>" ++ check (runes_of_ascii "  packet
u8x// 50% %s
{ @rightPad
    (
    ' ' ) repeat MetaDataX`it's`	, }
")).
Eval vm_compute in ("<<<M3857>>>" ++ check (runes_of_ascii "packet A {
    match k as n {
        [1, ""bb""] : B,
        2 : C,
    },
}")).
Eval vm_compute in ("<<<M2985>>>" ++ check (runes_of_ascii "packet A { Inner { match k as n { [1,22,007,4,5,66,7,8,9,10] : B, }, }, }")).
Eval vm_compute in ("<<<M3064>>>" ++ check (runes_of_ascii "MetaData M {
    u8 x `100% of %s %d %v`,
    T t `100% of %s %d %v`,
}")).
Eval vm_compute in ("<<<M4203>>>" ++ check (runes_of_ascii "MetaData repeatCount {
    metadata Pad `say ""hi""`,
    //
    //	t
}")).
Eval vm_compute in ("<<<M2671>>>" ++ check (runes_of_ascii "options { a = char[3]; b = zchar[0] c = char[] d = string e = u8 }")).
Eval vm_compute in ("<<<M1990>>>" ++ check (runes_of_ascii "
packet leftPad {
@leftPad( '0')
u32
i64_ `100% of %d` ,repeat")).
Eval vm_compute in ("<<<M40>>>" ++ check (runes_of_ascii "MetaData
T {crc /// triple
u8x `" ++ [233]%N ++ runes_of_ascii "` , } // `tick` ""quote"" 'q'")).
Eval vm_compute in ("<<<M3309>>>" ++ check (runes_of_ascii "packet u8x { } MetaData crc { char[ 4294967296 ] // c
Foo , }")).
Eval vm_compute in ("<<<M2907>>>" ++ check (runes_of_ascii "packet A { Inner { match k as n { [1,22,007,4] : B, }, }, }")).
Eval vm_compute in ("<<<M3025>>>" ++ check (runes_of_ascii "packet A {
    B b `
`,
    B `
`,
    repeat B bs `
`,
}")).
Eval vm_compute in ("<<<M2862>>>" ++ check (runes_of_ascii "007 zchar[ uint64 MetaData ( ] uint32 i16 0123456789 ;")).
Eval vm_compute in ("<<<M3058>>>" ++ check (runes_of_ascii "MetaData M {
    u8 x `tab
	x`,
    T t `tab
	x`,
}")).
Eval vm_compute in ("<<<M1198>>>" ++ check (runes_of_ascii "packet Logon
    {repeat zchar[ 007] zchar//
,
}")).
Eval vm_compute in ("<<<M58>>>" ++ check (runes_of_ascii "packet Header { repeat int32 options1
, } //x")).
Eval vm_compute in ("<<<M1177>>>" ++ check (runes_of_ascii "// packet A { u8 x, }
packet
u128 //x
{ }
")).
Eval vm_compute in ("<<<M2026>>>" ++ check (runes_of_ascii "
packet leftPad {
@leftPad( '0')
u32
i6")).
Eval vm_compute in ("<<<M3942>>>" ++ check (runes_of_ascii "packet

A {

u8
	x

    `tab
	x` , }

")).
Eval vm_compute in ("<<<M4106>>>" ++ check (runes_of_ascii "options {
    BodyLength = 4294967296
}")).
Eval vm_compute in ("<<<M2396>>>" ++ check (runes_of_ascii "MetaData
Foo {/ Header //
pack ,	} 	 ")).
Eval vm_compute in ("<<<M3030>>>" ++ check (runes_of_ascii "packet A {
    u8 x `a
    b
  c`,
}")).
Eval vm_compute in ("<<<M46>>>" ++ check (runes_of_ascii "MetaData metadata {u8
tag
    ,
}")).
Eval vm_compute in ("<<<M2765>>>" ++ check ([65533; 65533]%N ++ runes_of_ascii "@" ++ [65533]%N ++ runes_of_ascii "f" ++ [65533; 65533]%N ++ runes_of_ascii "wf" ++ [65533; 65533; 65533]%N ++ runes_of_ascii "=" ++ [65533]%N ++ runes_of_ascii "<rI" ++ [657]%N ++ runes_of_ascii "m" ++ [65533; 990; 30; 65533]%N ++ runes_of_ascii "Aw" ++ [65533]%N ++ runes_of_ascii "H" ++ [65533]%N ++ runes_of_ascii "U" ++ [65533]%N ++ runes_of_ascii "3" ++ [12; 65533]%N)).
Eval vm_compute in ("<<<M4154>>>" ++ check (runes_of_ascii "packet A {
    u8 x `d" ++ [6158]%N ++ runes_of_ascii "`,// c" ++ [6158]%N ++ runes_of_ascii "
}")).
Eval vm_compute in ("<<<M2738>>>" ++ check (runes_of_ascii "/NA%F2R3wuU,@[c Ab@wM8l%L?l%F^")).
Eval vm_compute in ("<<<M3036>>>" ++ check (runes_of_ascii "packet A {
    u8 x `a

b`,
}")).
Eval vm_compute in ("<<<M3347>>>" ++ check (runes_of_ascii "options { u8x =
// c
false }")).
Eval vm_compute in ("<<<M1171>>>" ++ check (runes_of_ascii "root packet MetaDataX  { }")).
Eval vm_compute in ("<<<M3905>>>" ++ check (runes_of_ascii "root packet crc {
}
// " ++ [27880; 37322]%N)).
Eval vm_compute in ("<<<M2677>>>" ++ check (runes_of_ascii "options { packet = 1; }")).
Eval vm_compute in ("<<<M1107>>>" ++ check (runes_of_ascii "
packet  stringy {
}
")).
Eval vm_compute in ("<<<M4044>>>" ++ check (runes_of_ascii "options

    {	}

")).
Eval vm_compute in ("<<<M200>>>" ++ check (runes_of_ascii "packet uint8x { }
")).
Eval vm_compute in ("<<<M3138>>>" ++ check (runes_of_ascii "// c" ++ [8239]%N ++ runes_of_ascii "
packet A {
}")).
Eval vm_compute in ("<<<M2664>>>" ++ check (runes_of_ascii "options { a = 1 }")).
Eval vm_compute in ("<<<M1940>>>" ++ check (runes_of_ascii "
packet leftPad")).
Eval vm_compute in ("<<<M1690>>>" ++ check (runes_of_ascii "// 50% %s
pack")).
Eval vm_compute in ("<<<M2566>>>" ++ check (runes_of_ascii """" ++ [233]%N ++ runes_of_ascii """ `" ++ [21517]%N ++ runes_of_ascii "` // " ++ [252]%N)).
Eval vm_compute in ("<<<M1426>>>" ++ check (runes_of_ascii "packet
T")).
Eval vm_compute in ("<<<M2444>>>" ++ check (runes_of_ascii "zchar[]")).
Eval vm_compute in ("<<<M2741>>>" ++ check ([31]%N ++ runes_of_ascii "0
a" ++ [1894; 65533]%N)).
Eval vm_compute in ("<<<M2856>>>" ++ check (runes_of_ascii "Mnb]/")).
Eval vm_compute in ("<<<M2524>>>" ++ check (runes_of_ascii """//""")).
Eval vm_compute in ("<<<M2535>>>" ++ check (runes_of_ascii "007")).
Eval vm_compute in ("<<<M2543>>>" ++ check (runes_of_ascii "__")).
