From FP Require Import Lexer Parser ShowPT Digest Formatter.
From Coq Require Import String List NArith.
Import ListNotations.
Open Scope string_scope.
Set Printing Width 100000000.
Set Printing Depth 100000000.
Definition show_fres (r : fres) : string :=
  match r with
  | FOk s => "OK:" ++ sh_escaped s ""
  | FErr s => "ERR:" ++ sh_escaped s ""
  | FPanic p => "PANIC:" ++ p
  end.
Definition check (rs : list rune) : string := digest (show_fres (format_res rs)).
Definition full (rs : list rune) : string := show_fres (format_res rs).
Eval vm_compute in ("<<<M3750>>>" ++ check (runes_of_ascii "
// top
	options	// c0
  { StringPrefixLenType
// c2
		= 
// c3
u64 	 // c4a
	// c4b
  ;	// c5
    ArrayPrefixLenType	=// c7
  u16  // c8
;  // c9a
    // c9b

	FixedStringPadChar

= 	 // c11
  ' ' 	 // c12
; 
        // c13

} 
	// c14
	packet  // c15a
		// c15b
	  Logon	// c16a
// c16b

{ // c17a
  // c17b
	i32 
      // c18
    msgKind ,	repeat
InOrderid65

{// c23a
    // c23b
u8

    // c24
    pad0 // c25a
  // c25b
	,	// c26
    	}  , // c28a
    // c28b

i8 
    // c29
  tag7
	,  
  // c31
    @leftPad 
	    // c32
  ( ' '  // c34a
		// c34b
    ) 
        // c35
	char[  // c36a
	// c36b
  12 
// c37
	] 
    // c38
    x // c39a
// c39b
	,}
// c41

  packet // c42a
  // c42b
    Leg	{	// c44a
// c44b
	  char[]// c45
    	f1	// c46
	,  // c47a

	// c47b
	repeat

    // c48
char[ // c49
      5// c50
      ]
        // c51

	Px // c52a
// c52b

	, // c53
InQty34 	 // c54

	{
repeat  char[
    // c57
	6// c58a
  // c58b
	]	// c59a
    // c59b

	Qty	// c60
  ,char[ // c62
	7 // c63
]  // c64
	seqNo// c65
    	,	string
	    // c67
	count 

    // c68

	,
} // c70a

// c70b
	,Logon  ,// c73a
  // c73b
  } // c74a
  // c74b
packet 	 // c75

Party

{	@leftPad	// c78
	( 	 // c79
	'0'
        // c80
	) char[  
  // c82
  10 // c83
] 
OrderId,	// c86
string
    Tail 	 // c88

,// c89a
	// c89b
    } 
packet
	Fill  // c92a
	// c92b
    { 
        // c93
    	zchar[  // c94a
    // c94b
    5 	 // c95
    ] 	 // c96a

  // c96b
		venue  // c97
	, zchar[
// c99

  3 	 // c100
	]	// c101
  clOrdID 
	    // c102
	, // c103a
  	// c103b

  InRef95 // c104
		{  
      // c105
	InLastpx25
// c106

  { // c107
u8 pad0, // c110
    } 	 // c111
	  , 	 // c112

float64	// c113a
  // c113b

OrderId 	 // c114a
		// c114b
	, 
        // c115
      i32// c116a

// c116b
      f1, 	 // c118
    	float32 
      // c119
		x // c120

,  // c121a
    // c121b
  char[] 

    // c122
  seqNo	// c123
    ,} 
    // c125
    ,
    // c126
  repeat // c127a
	// c127b
	string 	 // c128
    	seqNo // c129

,	// c130
	  }
root  // c132a
  // c132b

  packet  // c133
Heartbeat  // c134
	{

    repeat Leg
	, 
  // c138
u32 seqNo// c140a
	  // c140b
  ,// c141

	u16 	 // c142
    tag7 // c143
  ,	// c144
    	u32 	 // c145a
	// c145b
      Flags  // c146
  @lengthOf( // c147a
  // c147b
	Body// c148
    	)	// c149
,	// c150a
	// c150b
	match
	tag7
as	// c153a
		// c153b
  	Body 
      // c154
    { // c155
	[ 

// c156
	195 
    // c157
, 75  // c159a
// c159b
		] 
// c160
	:
	Party 
        // c162
	, 	 // c163a

// c163b
    171 	 // c164a

// c164b
  :// c165
	Fill  // c166a
	// c166b
, // c167
    	78 	 // c168
  :// c169
  	Logon	,  // c171a
    // c171b
  142
	:	// c173a
		// c173b
	  Leg 
    // c174
  ,
	}// c176
	, 
    // c177
	u32 	 // c178
    Note
@calculatedFrom(  // c180
""CRC32"" 	 // c181
	)// c182a

	// c182b
  	,	// c183
  	}
    // c184
")).
Eval vm_compute in ("<<<M1339>>>" ++ check (runes_of_ascii "packet
    body {
repeat // c
char[ 65535 ] float ,@calculatedFrom(
//
// c
""{,}"" )i64_ f32a `tab	here`,
    stringy @lengthOf(	options1 ) `a\` , }root // `tick` ""quote"" 'q'
packet pack
{len @calculatedFrom(""x y"" )
    // trailing space 
    `say ""hi""`,
    match msg_type as
    lengthOf
    { 10 : // c
len ,[ 007 ,
    65535
,65535,
    // trailing space 
    ""a	b""
// packet A { u8 x, }
// @lengthOf(
, 3 // @lengthOf(
,0123456789
    , ""// no comment""
]:
u,[ 10,	""" ++ [233]%N ++ runes_of_ascii "t" ++ [233]%N ++ runes_of_ascii """
,
1
    , 7 ,10 ] // `tick` ""quote"" 'q'
: // `tick` ""quote"" 'q'
_x ,
[ // a // b
""1"" ,	""`tick`"" ,7,  ""1"" ]
:u128 ,
    65535 : Pad ,// packet A { u8 x, }
}, @rightPad ( '0')
match As as zchar
    {[""" ++ [128512]%N ++ runes_of_ascii """, 0
    ]: // trailing space 
uint8x }
, falsey
{ float64 A@calculatedFrom(
    // packet A { u8 x, }
    ""{,}""
    ) , match	As as asx {
    // trailing space 
    3 /// triple
: Pad ,
}, repeat
    char[] len`crlf
line`
    , }
,
//x
// c
zchar , match
Logon as
    u // " ++ [27880; 37322]%N ++ runes_of_ascii "
{  ""{,}""
:
    x_y_z
[""packet""
] :
msg_type
    , 0 // c
: calculatedFrom , [
    ""x y""
, ""a\\"",
42 ,
    42
,// " ++ [128512]%N ++ runes_of_ascii " emoji
""a\""b""	,
    /// triple
    """ ++ [28040; 24687]%N ++ runes_of_ascii """
,""\n"" ] : asx
    """" :Pad , [
    """ ++ [233]%N ++ runes_of_ascii "t" ++ [233]%N ++ runes_of_ascii """ ]
:
    Z9_
// packet A { u8 x, }
//
} ,repeat string x_y_z ,
repeat stringy
{ repeat chars // a // b
chars, u8
    charz
// trailing space 
// packet A { u8 x, }
`{ , }` , match MetaDataX as packetx { [ ""CRC32"" ]
: metadata , // " ++ [128512]%N ++ runes_of_ascii " emoji
[ """ ++ [128512]%N ++ runes_of_ascii """,
""CRC32"" ,007 ,
""x y"" , ""1""
    // a // b
    ,
// a // b
// " ++ [27880; 37322]%N ++ runes_of_ascii "
""abc"" // trailing space 
, 42
] : calculatedFrom	,
    [
42
    ,
    65535 ] :
// " ++ [128512]%N ++ runes_of_ascii " emoji
//
Pad
, ""\" ++ [233]%N ++ runes_of_ascii """ : msg_type ,
    //
    }, }	, }
packet msg_type{ u8x @calculatedFrom(""{,}"" ), rootA uint8x
, //x
f64 falsey	`a\`,
repeat
// packet A { u8 x, }
// packet A { u8 x, }
char[]
asx ,
repeat
// packet A { u8 x, }
// packet A { u8 x, }
chars
As `two words`,
    int{ repeat matchKey	`u8 x,`,
}	, match lengthOf
as trueish {""\n"" : Foo ,""\" ++ [233]%N ++ runes_of_ascii """ :i8i8, }
, } // c
options { } options { f32a =
    7 ; }
")).
Eval vm_compute in ("<<<M4093>>>" ++ check (runes_of_ascii "options {
    chars = '0';
    Pad = 42;
}

packet roots {
    @calculatedFrom(""" ++ [28040; 24687]%N ++ runes_of_ascii """)
    @calculatedFrom(""// no comment"")
    chars,
}

packet body {
    @lengthOf(x)
    match msg_type as x_y_z {
        0123456789 : uint8x,
        // packet A { u8 x, }
        ""`tick`"" : i64_,
        // packet A { u8 x, }
        00 : a1,
        ""{,}"" : Header,
        [255] : falsey,
    },
    @calculatedFrom(""\n"")
    @rightPad()
    @lengthOf(BodyLength)
    i16 A @lengthOf(uint8x),
    char[] Foo @lengthOf(T),
    @leftPad('0')
    _x {
        Logon @lengthOf(u),
    },
    @leftPad('\x00')
    char[4294967296] trueish @calculatedFrom(""x y"") `" ++ [233]%N ++ runes_of_ascii "`,
    @rightPad(' ')
    // packet A { u8 x, }
    match msg_type as pack {
        [""a\""b"", ""`tick`""] : asx,
        ""x y"" : a1,
        """ ++ [128512]%N ++ runes_of_ascii """ : MetaDataX,
        42 : Foo,
        007 : trueish,
        /// triple
        // @lengthOf(
        ""it's"" : string_,
    },
    repeat Header `
        `,
    @tag(00)
    f32 options1 @lengthOf(calculatedFrom),
    zchar[255] Logon,
}

root packet packetx {
    @lengthOf(calculatedFrom)
    metadata x_y_z,
}

packet leftPad {
    match roots as falsey {
        ""x y"" : u,
        ""x y"" : msg_type,
    },
    repeat int64 leftPad,
    u @calculatedFrom(""x y"") `tab	here`,
    @calculatedFrom(""packet"")
    match matchKey as BodyLength {
        255 : a1,
        007 : T,
        // `tick` ""quote"" 'q'
        ""`tick`"" : rootA,
        [
            ""a\\"", 1, 255, 7, 1,
            ""it's"", 1, 42
        ] : x_y_z,
        42 : i64_,
    },
    float64 x_y_z `doc`,
    uint8x,
    string float @calculatedFrom(""\n""),
    @lengthOf(o)
    stringy @lengthOf(rootA),
}//x")).
Eval vm_compute in ("<<<M1293>>>" ++ check (runes_of_ascii "  root //x
packet Logon {
char[	7 ]calculatedFrom @calculatedFrom(	""// no comment""	) `two words`, uint16
MetaDataX
`u8 x,`
    , string a1 @lengthOf( Logon ) // " ++ [27880; 37322]%N ++ runes_of_ascii "
,
    @tag( 0 ) // " ++ [128512]%N ++ runes_of_ascii " emoji
@lengthOf( u8x) @calculatedFrom(
    ""it's"" ) string
zchar `doc` , @lengthOf(x_y_z)// trailing space 
trueish
// @lengthOf(
// `tick` ""quote"" 'q'
{ Z9_ { match
float
as/// triple
lengthOf{00: _x, } ,repeat x_y_z {u8x // " ++ [128512]%N ++ runes_of_ascii " emoji
uint8x ,	}
,char[007
] x_y_z , } , Z9_
`" ++ [28040; 24687; 31867; 22411]%N ++ runes_of_ascii "` ,
}
,
f32a {
repeat	zchar[0123456789 ]A, repeat i64
stringy , leftPad `crlf
line` ,
    },
}packet u128//x
{  match _x as MetaDataX{ [ ""x y"" , 42  ] : A , }
, @lengthOf( charz) charz { match x_y_z as // " ++ [27880; 37322]%N ++ runes_of_ascii "
f32a { [ 007
, 10
    ,
    42
    , """ ++ [233]%N ++ runes_of_ascii "t" ++ [233]%N ++ runes_of_ascii """ , 0123456789 ] :x_y_z ,// @lengthOf(
7: u128 , ""// no comment""
: repeatCount  ,
    ""a\\"" : int	,""x y"" :u128 } , },i16 chars
// @lengthOf(
// packet A { u8 x, }
@lengthOf( zchar)
    //	t
    `u8 x,` , }
    packet u
// " ++ [27880; 37322]%N ++ runes_of_ascii "
// @lengthOf(
{ repeat u options1 , /// triple
@calculatedFrom( ""CRC32"" )float32 u128@lengthOf( //x
u8x )
`{ , }`,
@leftPad ('\x00'
)
    i8 crc`say ""hi""`
, } packet
calculatedFrom {
}
packet pack {
zchar[ 65535 ] calculatedFrom , len { stringy @lengthOf(
body
)	, }, @lengthOf( x_y_z// " ++ [128512]%N ++ runes_of_ascii " emoji
) uint8x
@lengthOf( tag ) , @calculatedFrom(
""x y"") zchar[ 65535 ]	tag	@calculatedFrom(
    ""a\\"") `" ++ [28040; 24687; 31867; 22411]%N ++ runes_of_ascii "` ,
i64
uint8x
    ,  @lengthOf(
    int ) u8 Pad@lengthOf(  o
    )  `{ , }`
    ,  }
")).
Eval vm_compute in ("<<<M1393>>>" ++ check (runes_of_ascii "options {
    StringPrefixLenType = u16;
    ArrayPrefixLenType = u16;
}

packet SampleBinary {
    uint16 MsgType `" ++ [28040; 24687; 31867; 22411]%N ++ runes_of_ascii "`,
    u16 BodyLenght @lengthOf(Body) `" ++ [28040; 24687; 20307; 38271; 24230]%N ++ runes_of_ascii "`,
    match MsgType as Body {
        1 : Logon,
        2 : Logout,
        3 : Heartbeat,
        4 : RiskControlRequest,
        5 : RiskControlResponse,
    },
    @calculatedFrom(""CRC32"")
    u32 Ckecksum `" ++ [26657; 39564; 21644]%N ++ runes_of_ascii "`,
}

packet Logon {
    @leftPad('0')
    char[10] UserName `" ++ [29992; 25143; 21517]%N ++ runes_of_ascii "`,
    string Password `" ++ [23494; 30721]%N ++ runes_of_ascii "`,
    uint64 ClientId `" ++ [23458; 25143; 31471]%N ++ runes_of_ascii "ID`,
    u16 HeartbeatInterval `" ++ [24515; 36339; 38388; 38548]%N ++ runes_of_ascii "`,
}

packet Logout {
    @rightPad('0')
    char[10] UserName `" ++ [29992; 25143; 21517]%N ++ runes_of_ascii "`,
    uint64 ClientId `" ++ [23458; 25143; 31471]%N ++ runes_of_ascii "ID`,
}

packet Heartbeat {
}

packet RiskControlRequest {
    string UniqueOrderId `" ++ [21807; 19968; 35746; 21333; 21495]%N ++ runes_of_ascii "`,
    char[16] ClOrdID `" ++ [23458; 25143; 35746; 21333; 21495]%N ++ runes_of_ascii "`,
    char[3] MarketID `" ++ [24066; 22330]%N ++ runes_of_ascii "id`,
    char[12] SecurityID `" ++ [35777; 21048; 20195; 30721]%N ++ runes_of_ascii "`,
    char Side `" ++ [20080; 21334; 26041; 21521]%N ++ runes_of_ascii "`,
    char OrderType `" ++ [35746; 21333; 31867; 22411]%N ++ runes_of_ascii "`,
    u64 Price `" ++ [20215; 26684]%N ++ runes_of_ascii "`,
    u32 Qty `" ++ [25968; 37327]%N ++ runes_of_ascii "`,
    repeat string ExtraInfo `" ++ [38468; 21152; 20449; 24687]%N ++ runes_of_ascii "`,
    repeat SubOrder {
        char[16] ClOrdID `" ++ [23376; 35746; 21333; 21495]%N ++ runes_of_ascii "`,
        u64 Price `" ++ [23376; 35746; 21333; 20215; 26684]%N ++ runes_of_ascii "`,
        u32 Qty `" ++ [23376; 35746; 21333; 25968; 37327]%N ++ runes_of_ascii "`,
    },
}

packet RiskControlResponse {
    string UniqueOrderId `" ++ [21807; 19968; 35746; 21333; 21495]%N ++ runes_of_ascii "`,
    i32 Status `" ++ [29366; 24577]%N ++ runes_of_ascii "`,
    string Msg `" ++ [32467; 26524; 20449; 24687]%N ++ runes_of_ascii "`,
    repeat Detail,
}

packet Detail {
    string RuleName `" ++ [35268; 21017; 21517; 31216]%N ++ runes_of_ascii "`,
    u16 Code `" ++ [21407; 22240; 20195; 30721]%N ++ runes_of_ascii "`,
}")).
Eval vm_compute in ("<<<M291>>>" ++ check (runes_of_ascii "//	t
root
packet
packetx { @lengthOf( BodyLength )zchar[ // " ++ [27880; 37322]%N ++ runes_of_ascii "
00 ]	uint8x	@lengthOf(
    i8i8)`tab	here` , @lengthOf( x_y_z )@leftPad ( '0'
)
@lengthOf( Header )
f32 pack @calculatedFrom( ""a\\""),
@calculatedFrom(
""`tick`"")
//x
// " ++ [27880; 37322]%N ++ runes_of_ascii "
lengthOf// " ++ [128512]%N ++ runes_of_ascii " emoji
MetaDataX ,@lengthOf( Packet ) lengthOf @calculatedFrom(
""\n"" )
    `doc`
//	t
//	t
, @rightPad ( )	char[	0123456789	] float , @lengthOf(
    options1 )
//x
//	t
@tag(7
    ) @tag(
    007) crc int, chars @calculatedFrom(
""" ++ [233]%N ++ runes_of_ascii "t" ++ [233]%N ++ runes_of_ascii """ )//x
, @calculatedFrom(//x
""CRC32"" )
repeat char[] packetx `two words` , }
packet T { }
packet T {char[10
] u128 ,
    @lengthOf( calculatedFrom  )
    chars
    o
,
@calculatedFrom(""\n"" ) match// @lengthOf(
pack  as Logon  {
    [
""// no comment"" , 255 , 42 , ""CRC32"", ""// no comment"" ] : asx
""it's"" :msg_type	,
    // `tick` ""quote"" 'q'
    0123456789  : //	t
msg_type
    //	t
    ,
255  : //
len
,
}
    , match chars as int
    { [ 00
    , 42,42 ] : x
    4294967296	: i64_, [""a	b""  ,  007// c
, """ ++ [128512]%N ++ runes_of_ascii """ , ""// no comment""
// @lengthOf(
// trailing space 
] :f32a, 42 : packetx }
, /// triple
crc	{a1 `" ++ [233]%N ++ runes_of_ascii "` , } ,@tag(
3 )
    /// triple
    zchar[7 ]  o`
`
, }
    packet roots{u64 i64_ ``,
    }")).
Eval vm_compute in ("<<<M479>>>" ++ check (runes_of_ascii "  MetaData tag { lengthOf
Z9_	, } // `tick` ""quote"" 'q'
packet body { @lengthOf( uint8x
    )
zchar[00
// packet A { u8 x, }
//	t
] metadata@lengthOf(
lengthOf)
    , @rightPad ( ) u @lengthOf(	asx )  `{ , }`, roots // `tick` ""quote"" 'q'
{ Foo{
    packetx
    ,
}, match
pack as stringy
    { 65535 : Logon  , """ ++ [233]%N ++ runes_of_ascii "t" ++ [233]%N ++ runes_of_ascii """ :
x_y_z [ """"
    ]
    :	metadata
[ 65535 // a // b
, ""it's""	,
    00 ,// packet A { u8 x, }
""{,}"", ""`tick`"" ,4294967296 , 42, 0 ] // " ++ [27880; 37322]%N ++ runes_of_ascii "
:o ""it's"" : // c
leftPad , } ,
repeat string calculatedFrom ,u64 options1 ,
    }  ,@lengthOf(
// `tick` ""quote"" 'q'
// @lengthOf(
repeatCount )	@tag( 65535
    // trailing space 
    )
@calculatedFrom( ""`tick`"" //
) zchar @lengthOf(crc)
`
`
    // @lengthOf(
    , x_y_z ,
} packet lengthOf // c
{ @leftPad ( '0'
)@lengthOf( uint8x
) @leftPad
//x
/// triple
( ' '	) Foo @calculatedFrom(
""a\""b"") , zchar[
7 ] Z9_
    ,  } packet	crc{ @calculatedFrom( ""{,}""  ) @tag( 3	) @lengthOf(
// packet A { u8 x, }
// c
int
)
    crc charz
, } options { int
=
    '0' ; Packet =
""" ++ [128512]%N ++ runes_of_ascii """ Packet
= ""`tick`"" ;float = char[
    10 ] ; // " ++ [27880; 37322]%N ++ runes_of_ascii "
msg_type
    = char[ 00
    ]}
")).
Eval vm_compute in ("<<<M756>>>" ++ check (runes_of_ascii "packet BodyLength{
//
// " ++ [27880; 37322]%N ++ runes_of_ascii "
char[ 1
    ]
    packetx ,// " ++ [27880; 37322]%N ++ runes_of_ascii "
} MetaData	Logon{	msg_type
    chars`crlf
line`
/// triple
//x
, u64  msg_type ,	} options
{ // trailing space 
A =
    // trailing space 
    007 x
= // `tick` ""quote"" 'q'
0 ;i8i8
= true T =char}packet tag {  int64 Foo@calculatedFrom( ""it's""
    // packet A { u8 x, }
    ) ,	f32  Pad , packetx @lengthOf( msg_type
)
, @calculatedFrom( ""`tick`"" ) zchar[255
    ]
float
    `" ++ [28040; 24687; 31867; 22411]%N ++ runes_of_ascii "`
, } packet trueish {  repeat pack// `tick` ""quote"" 'q'
roots , @leftPad
    ( '\x00' ) repeat u64
A , MetaDataX string_
    `
`, float
    @calculatedFrom( ""// no comment"" ) ,@lengthOf(
i8i8 ) a1
{
int64 body@lengthOf(
leftPad ) ,
match charz as u128 {1 :MetaDataX	,  }
    , match
//
//	t
crc as
i64_{ ""abc""
: calculatedFrom ,
3 :
    //
    body,
    ""\n""// a // b
: uint8x ,
[  42, 10 ,
    255 , ""packet""
,""" ++ [233]%N ++ runes_of_ascii "t" ++ [233]%N ++ runes_of_ascii """]
: u8x , } ,
    string x, } , falsey
,@calculatedFrom( ""packet"" )  match
falsey as u8x
{
4294967296: Z9_ , """ ++ [233]%N ++ runes_of_ascii "t" ++ [233]%N ++ runes_of_ascii """:
int
,
} , match roots as matchKey  { [
1]	:
    trueish },
} 	 ")).
Eval vm_compute in ("<<<M1226>>>" ++ check (runes_of_ascii "root packet u128 {
@lengthOf(
// `tick` ""quote"" 'q'
//x
T) repeat Header
    , @tag(
    255) @tag(
    //x
    255 ) //x
u64
    crc
    , @tag( 65535
) @lengthOf( u128
)uint32 chars ,	} packet
i64_	{ i8 string_ @calculatedFrom(	""it's"" ) , @leftPad
( ' '
//	t
// " ++ [27880; 37322]%N ++ runes_of_ascii "
) repeat //x
Pad
{ repeat MetaDataX {
o packetx , roots Header ,
match falsey as
    roots {007  :msg_type ,[ 10	] :	T"""" // c
:Packet,	42
:msg_type ,
    }
, string
    string_`tab	here`
    , } ,
repeat  float64  repeatCount`doc` // packet A { u8 x, }
, // @lengthOf(
}
,match falsey as u8x
    { ""\" ++ [233]%N ++ runes_of_ascii """ : metadata 0 :repeatCount
    ,
    0123456789
:repeatCount , ""packet"": Foo
// @lengthOf(
// @lengthOf(
, 0123456789
: tag ,
    },
@lengthOf(
As )
match A	as // " ++ [128512]%N ++ runes_of_ascii " emoji
repeatCount{
    42  : a1
    ,65535
    :
Packet , 7 :	len """" : rootA """ ++ [233]%N ++ runes_of_ascii "t" ++ [233]%N ++ runes_of_ascii """ : rootA},
    @calculatedFrom( ""CRC32"" )
    repeatCount @calculatedFrom( ""`tick`"" )	,
f32 crc `doc` ,
crc  ,
// c
// packet A { u8 x, }
char[] Header
,
} 	 ")).
Eval vm_compute in ("<<<M3837>>>" ++ check (runes_of_ascii "root packet string_ {
    @lengthOf(matchKey)
    repeat string_ matchKey,
    char[007] i64_ @calculatedFrom(""packet""),
    @tag(255)
    stringy len,
    @leftPad('\x00')
    i8 matchKey,
    match options1 as As {
        0123456789 : x,
        10 : u8x,
        [4294967296] : rootA,
        65535 : charz,
        3 : int,
    },
}

root packet u8x {
    int16 x_y_z,// trailing space 
    @calculatedFrom(""abc"")
    @leftPad(' ')
    @tag(3)
    match Packet as leftPad {
        ""// no comment"" : float,
    },
    repeat string_ Packet,
    string zchar,
    /// triple
    Packet `
    `,
    float {
        int8 rootA @lengthOf(x_y_z),
        // " ++ [128512]%N ++ runes_of_ascii " emoji
    },
    Header @lengthOf(stringy),
    // @lengthOf(
    string Logon @calculatedFrom(""// no comment""),
}

MetaData options1 {
    Foo stringy `" ++ [28040; 24687; 31867; 22411]%N ++ runes_of_ascii "`,
    Packet i64_ `a\`,
    char[4294967296] lengthOf,
    char[] _x,
    i64 Packet,
    zchar[255] x,
}")).
Eval vm_compute in ("<<<M3652>>>" ++ check (runes_of_ascii "options {
    LittleEndian = false;
    FixedStringPadFromLeft = false;
    FixedStringPadChar = ' ';
}
packet Fill {
    uint16 Qty,
    uint64 clOrdID,
    repeat i64 Flags,
}
packet Ack {
    zchar[7] clOrdID,
    u64 lastPx,
    char[] Note,
    repeat Fill,
    int32 count,
}
packet Quote {
    u8 venue,
    InRef40 {
        char[] Qty,
    },
    zchar[5] Flags,
    @rightPad('\x00') char[12] msgKind,
}
packet Logout {
    InSym79 {
        int32 Qty,
        Fill,
        char[3] x,
        repeat InNote29 {
            i16 price,
            Ack,
            f64 x,
            zchar[8] count,
        },
    },
}
root packet Logon {
    zchar[1] sym,
    u32 count,
    u16 tag7 @lengthOf(Body),
    match count as Body {
        [122, 152] : Ack,
        118 : Logout,
        61 : Quote,
        161 : Fill,
    },
    u32 Acct @calculatedFrom(""CR\
C32""),
}
")).
Eval vm_compute in ("<<<M656>>>" ++ check (runes_of_ascii "MetaData
    //
    body
    {u16 roots `say ""hi""` , char[ 65535]
o
,
    uint32 Z9_
, char trueish `crlf
line`
, }
packet crc // packet A { u8 x, }
{
    u128 ,
repeat char[]trueish ,	string	asx  @lengthOf( zchar) // c
`crlf
line` , int
{ int
    u//
,
}
,  @tag(10 )
    // @lengthOf(
    zchar[
//x
//x
65535 ] /// triple
zchar@calculatedFrom( """ ++ [28040; 24687]%N ++ runes_of_ascii """ ) `a\`
    ,@rightPad ('\x00' ) string crc@lengthOf(
    // trailing space 
    o )
    ,match
rootA as len
    {[ 10  , 3// " ++ [27880; 37322]%N ++ runes_of_ascii "
, ""\n"" , """ ++ [233]%N ++ runes_of_ascii "t" ++ [233]%N ++ runes_of_ascii """
,
    ""packet""  ] :
    // a // b
    leftPad , 65535:
pack } , zchar[ 65535 ]
    //x
    asx `u8 x,`
    // a // b
    , i16
// @lengthOf(
// " ++ [27880; 37322]%N ++ runes_of_ascii "
roots`u8 x,` ,
// " ++ [128512]%N ++ runes_of_ascii " emoji
//
@leftPad ( )	f64 Packet
    ,
    } packet tag
    { @rightPad //
( '0' )repeat char[00 ] crc	,
    } packet stringy	{ char[] roots`" ++ [233]%N ++ runes_of_ascii "` //	t
,
    }")).
Eval vm_compute in ("<<<M1151>>>" ++ check (runes_of_ascii "
packet
    int{ repeat  o
    `say ""hi""` ,
    // " ++ [128512]%N ++ runes_of_ascii " emoji
    @leftPad ( '\x00' )T
    `// not a comment`,
@tag(
    007 // trailing space 
) repeat uint8x { zchar[	7 ] a1 ,char[] msg_type @lengthOf( calculatedFrom
)
`two words`
,
string_	A // packet A { u8 x, }
,
// " ++ [128512]%N ++ runes_of_ascii " emoji
// " ++ [27880; 37322]%N ++ runes_of_ascii "
} , repeat// " ++ [27880; 37322]%N ++ runes_of_ascii "
char falsey
, repeat /// triple
zchar[
    0123456789 ] repeatCount ,match trueish as As{
[// " ++ [128512]%N ++ runes_of_ascii " emoji
""a\\"", """ ++ [233]%N ++ runes_of_ascii "t" ++ [233]%N ++ runes_of_ascii """
    ,  """ ++ [28040; 24687]%N ++ runes_of_ascii """ ,
    // trailing space 
    7 , """ ++ [233]%N ++ runes_of_ascii "t" ++ [233]%N ++ runes_of_ascii """, """ ++ [28040; 24687]%N ++ runes_of_ascii """ ] :
    int ,0123456789 :
A ,
[00 , """ ++ [128512]%N ++ runes_of_ascii """
    ] :  Header
, // packet A { u8 x, }
""a\\"" : u, } , } packet
// c
// @lengthOf(
body
    {
    float32 Header `doc` ,roots // `tick` ""quote"" 'q'
@calculatedFrom( """" )
,
int32 metadata ,// `tick` ""quote"" 'q'
}
options
    { repeatCount =
    ""abc"" ; } 	 ")).
Eval vm_compute in ("<<<M54>>>" ++ check (runes_of_ascii "root packet calculatedFrom
{ /// triple
@calculatedFrom( // packet A { u8 x, }
""{,}"" ) match asx
as i8i8 { ""CRC32"" :f32a	,
    ""// no comment""	:Packet
    ,// trailing space 
}
,
    repeat zchar[ 7 ] len , //
match	options1// c
as string_	{""" ++ [128512]%N ++ runes_of_ascii """ : metadata ,	[""\n""
// `tick` ""quote"" 'q'
//
,
    ""CRC32"" , ""a\""b""]
:
// " ++ [128512]%N ++ runes_of_ascii " emoji
// " ++ [128512]%N ++ runes_of_ascii " emoji
x_y_z // " ++ [27880; 37322]%N ++ runes_of_ascii "
, 42
: string_	},@lengthOf(
msg_type) string Pad
// trailing space 
// @lengthOf(
`tab	here` ,
f32a
, match  Logon as stringy { 007
    :
    metadata	, [ 255 , 10 ] : matchKey, [
10 ,""1"",	""`tick`"" , 0]:roots , 255
// @lengthOf(
// c
: o,	[ 1 ]
: msg_type  , 0123456789
: falsey	} , } root packet
crc { }
    options
    { falsey =
false ;len =
""\" ++ [233]%N ++ runes_of_ascii """// " ++ [27880; 37322]%N ++ runes_of_ascii "
;A
=
""a	b""	lengthOf	= ""1""}
")).
Eval vm_compute in ("<<<M3969>>>" ++ check (runes_of_ascii "options {

    o	/// triple
	  =	'0'  ;} packet 	 // @lengthOf(
u128{ 
// @lengthOf(
	// `tick` ""quote"" 'q'
		@calculatedFrom( ""{,}"" )
uint16
pack
    @calculatedFrom(  """ ++ [233]%N ++ runes_of_ascii "t" ++ [233]%N ++ runes_of_ascii """	)

,	}
	packet	A

    { //x
  u8

    chars

    @lengthOf(
BodyLength) 
,

lengthOf @calculatedFrom( //x
	""// no comment""

    )
	, x_y_z{
string Pad `" ++ [233]%N ++ runes_of_ascii "`, 
  // " ++ [27880; 37322]%N ++ runes_of_ascii "
len  { zchar[ 0123456789
]	T

    ,

match	// a // b
u128

    as
metadata	{

3 
:  u128
	,

    ""\n""
:
	x[ """ ++ [233]%N ++ runes_of_ascii "t" ++ [233]%N ++ runes_of_ascii """,

    //
  	// " ++ [27880; 37322]%N ++ runes_of_ascii "
		""packet""
	] :  // @lengthOf(
  	tag  10 :  options1 ,

    ""abc""

    : // trailing space 
u ,
    }
, }

    ,
tag @calculatedFrom(
	    // packet A { u8 x, }
  """"

)  `it's`  ,  }  ,

}// " ++ [27880; 37322]%N ++ runes_of_ascii "
")).
Eval vm_compute in ("<<<M1194>>>" ++ check (runes_of_ascii "packet asx
{// c
@calculatedFrom(
""\" ++ [233]%N ++ runes_of_ascii """ )
crc
    { int8 zchar @calculatedFrom(""" ++ [128512]%N ++ runes_of_ascii """ )
,
    } // trailing space 
, roots@lengthOf( // a // b
metadata )`` ,
@calculatedFrom(
""1"" //
)@lengthOf(
    matchKey) //	t
@calculatedFrom( """ ++ [233]%N ++ runes_of_ascii "t" ++ [233]%N ++ runes_of_ascii """ )
    // packet A { u8 x, }
    u Header	, u128 ,	match _x as
    msg_type{ 1 :
    BodyLength	,42
    : packetx	, //	t
[ ""{,}"" ] :// c
chars , //
[ ""`tick`"" ,	0 ,
    """ ++ [233]%N ++ runes_of_ascii "t" ++ [233]%N ++ runes_of_ascii """ ,
// a // b
// " ++ [27880; 37322]%N ++ runes_of_ascii "
65535
//
// trailing space 
, ""packet"", ""{,}"" ] : chars ,	3
/// triple
// @lengthOf(
: packetx ,	7
//
// packet A { u8 x, }
:crc , } , @lengthOf(
    len )repeatCount { zchar[ 65535
    ] x_y_z
,	} , f32a
    @lengthOf( body  )
    ,  } //x")).
Eval vm_compute in ("<<<M3903>>>" ++ check (runes_of_ascii "root 	 //	t
    packet  BodyLength{

zchar[

10 ]
    u128,

uint8

zchar``	,repeat  falsey ,
	float64

    chars

@calculatedFrom(	""" ++ [128512]%N ++ runes_of_ascii """
) , char[] 
matchKey ,
repeat  //x

uint16
matchKey 
, @calculatedFrom(
    ""CRC32""
	)

    char[ 3
]
u
`" ++ [28040; 24687; 31867; 22411]%N ++ runes_of_ascii "` ,
@leftPad(
'0' 
	//	t
    	)  u64

charz @calculatedFrom(
""" ++ [128512]%N ++ runes_of_ascii """
    )
,

    }
    root

    packet chars//
{} MetaData
    Z9_

{

    zchar[255 
] 
_x, int32
f32a

,
int8 asx
`` 
,

o packetx // `tick` ""quote"" 'q'
,	}
options

    // trailing space 
	  // c
  { 
A =
4294967296  
      //
  // packet A { u8 x, }
	; Foo 
=
""x y"" ;	Foo

    =

' ' }  //	t")).
Eval vm_compute in ("<<<M4348>>>" ++ check (runes_of_ascii "packet 
  // packet A { u8 x, }
// " ++ [27880; 37322]%N ++ runes_of_ascii "
matchKey {  }
    packet
    string_	{	matchKey

@lengthOf(
asx) 
, 
@rightPad (
' '  )	metadata, 
    // a // b
	  // @lengthOf(
  o  //
  chars
    , uint16	tag	`u8 x,` , repeat
	float32
	Logon

    `two words` ,  /// triple
	  matchKey @calculatedFrom(
""a	b"" ) `doc`, repeat
packetx
	a1	, 
}	MetaData

Packet //
  {
    char[]  pack 
,string	zchar ,zchar[

//	t
    	// trailing space 
    1  ]
x_y_z ,
	int64 charz`say ""hi""`

,u32
lengthOf
	`doc` 
,
}	options
    { 
a1 =	int16;
    crc
	=

    ' '
    ; tag
	=char[ 42 ]	leftPad 
=

true  ;}

")).
Eval vm_compute in ("<<<M3643>>>" ++ check (runes_of_ascii "options {
    LittleEndian = false;
    ArrayPrefixLenType = u8;
    FixedStringPadChar = '0';
}
packet Order {
    InNote94 {
        f32 f1,
        f64 Side2,
        repeat InTail47 {
            char[] seqNo,
            char[] Tail,
            char[] lastPx,
        },
    },
    zchar[7] f1,
    u8 Side2,
}
root packet Reject {
    repeat char[4] Flags,
    InPrice63 {
        InSeqno41 {
            repeat i8 OrderId,
            repeat i32 clOrdID,
            char[9] tag7,
            char[] lastPx,
        },
        Order,
        uint8 Side2,
    },
}
")).
Eval vm_compute in ("<<<M4301>>>" ++ check (runes_of_ascii "options {
    msg_type = 65535;
    a1 = """ ++ [128512]%N ++ runes_of_ascii """;
    Foo = ""\" ++ [233]%N ++ runes_of_ascii """
    matchKey = '0';
    chars = """ ++ [28040; 24687]%N ++ runes_of_ascii """
    //	t
}

packet lengthOf {
    // c
    //x
}

MetaData body {
    A len `" ++ [28040; 24687; 31867; 22411]%N ++ runes_of_ascii "`,
}

packet o {
    @rightPad('\x00')
    int roots,
    repeat u8x `tab	here`,
    i32 x_y_z @lengthOf(Logon) `line1
        line2`,
    _x Z9_,
    @lengthOf(zchar)
    i32 msg_type `doc`,
    @rightPad(' ')
    i8 options1,
    @lengthOf(packetx)
    charz @lengthOf(o),
    @rightPad(' ')
    match packetx as leftPad {
        [""{,}"", """ ++ [128512]%N ++ runes_of_ascii """] : charz,
    },
}")).
Eval vm_compute in ("<<<M1360>>>" ++ check (runes_of_ascii "
options { packetx = '\x00' o =
    // `tick` ""quote"" 'q'
    ""abc"" lengthOf // @lengthOf(
=
    255 zchar
    =""" ++ [128512]%N ++ runes_of_ascii """
Pad// packet A { u8 x, }
= string
;
}
root packet
options1//x
{ calculatedFrom
    o  ,
    x
    @lengthOf( leftPad // " ++ [128512]%N ++ runes_of_ascii " emoji
)
    , match
    _x as
stringy { 3
: i8i8 ,
} ,
    string T , }	root packet
uint8x
{ len
/// triple
// a // b
``,} packet matchKey {match calculatedFrom
as
    // " ++ [27880; 37322]%N ++ runes_of_ascii "
    Packet { [ """ ++ [28040; 24687]%N ++ runes_of_ascii """ , ""packet""//
]:// packet A { u8 x, }
rootA ,}	,	}options {
    uint8x = false ; }
")).
Eval vm_compute in ("<<<M1191>>>" ++ check (runes_of_ascii "packet
    // @lengthOf(
    T { char[ 007 ] leftPad
@calculatedFrom( ""`tick`"" ) `{ , }`, f32 int , @calculatedFrom( """ ++ [233]%N ++ runes_of_ascii "t" ++ [233]%N ++ runes_of_ascii """	)
int // a // b
{int16	Packet ,  char[ 255
]
    Logon , char[ 0123456789] T /// triple
@lengthOf( i64_
) , i8
    // packet A { u8 x, }
    crc `tab	here`,
    }
, char[ 0 ] string_	, int8 msg_type `" ++ [28040; 24687; 31867; 22411]%N ++ runes_of_ascii "` // `tick` ""quote"" 'q'
, int64 u// a // b
`tab	here`
,
repeat
u128  ,
float64
i64_ @calculatedFrom( """ ++ [28040; 24687]%N ++ runes_of_ascii """ )
    , //
@lengthOf( crc ) Header chars , float32	x, }
")).
Eval vm_compute in ("<<<M3629>>>" ++ check (runes_of_ascii "options {
    StringPrefixLenType = u8;
    ArrayPrefixLenType = u32;
}
packet Quote {
    u32 Ref,
    InNote74 {
        u8 pad0,
    },
}
packet Ack {
    repeat string OrderId,
}
packet Logout {
    zchar[7] venue,
    char[12] Px,
    string count,
    char[] Tail,
    char[] Qty,
    Quote,
}
root packet Trade {
    zchar[2] price,
    u32 x,
    u32 lastPx @lengthOf(Body),
    match x as Body {
        148 : Ack,
        171 : Quote,
        15 : Logout,
    },
}
")).
Eval vm_compute in ("<<<M612>>>" ++ check (runes_of_ascii "root
//	t
// @lengthOf(
packet int //x
{ @rightPad ( '0' ) match Packet as x_y_z
{ 3 //	t
:zchar // a // b
, ""1""
:
x //
, 42 : a1	, [ """ ++ [233]%N ++ runes_of_ascii "t" ++ [233]%N ++ runes_of_ascii """ ]:	matchKey
    ,42: x_y_z
[ ""a\""b"",
    7	, // packet A { u8 x, }
""it's"" ,
    // c
    007	, ""a\""b"" ] :
    Foo
    ,
    },} // c
MetaData Foo { u32 chars//	t
`it's` //
,u32
    falsey
, Header
trueish
,
    tag As, } options { asx=u16
    ; }
packet
    options1
{repeat char[255  ] charz , }options { }")).
Eval vm_compute in ("<<<M3974>>>" ++ check (runes_of_ascii "packet tag {
    @calculatedFrom(""" ++ [28040; 24687]%N ++ runes_of_ascii """)
    A `" ++ [233]%N ++ runes_of_ascii "`,
    // a // b
    match u as len {
        [42, """ ++ [233]%N ++ runes_of_ascii "t" ++ [233]%N ++ runes_of_ascii """] : As,
        42 : string_,
        ""CRC32"" : body,
        ""x y"" : x,
        [
            007, 4294967296, ""{,}"", """", """ ++ [28040; 24687]%N ++ runes_of_ascii """,
            ""it's"", """ ++ [128512]%N ++ runes_of_ascii """
        ] : u,
        """ ++ [28040; 24687]%N ++ runes_of_ascii """ : _x,
    },
    @lengthOf(rootA)
    u128 `doc`,// " ++ [27880; 37322]%N ++ runes_of_ascii "
}

options {
    falsey = string
    string_ = int8;
}

options {
    // c
    charz = ""CRC32""
}")).
Eval vm_compute in ("<<<M4586>>>" ++ check (runes_of_ascii "root packet crc {
    @leftPad('0')
    @lengthOf(float)
    roots Logon `u8 x,`,
    char[3] repeatCount `a\`,
    match uint8x as msg_type {
        10 : body,
        0123456789 : o,
    },
    repeat x {
        uint8 roots @calculatedFrom(""abc"") `" ++ [28040; 24687; 31867; 22411]%N ++ runes_of_ascii "`,
    },
}

packet calculatedFrom {
    uint8 MetaDataX `// not a comment`,
}

packet crc {
    Z9_ {
        repeat crc `doc`,
        Z9_ ``,
    },
}
// a // b")).
Eval vm_compute in ("<<<M4424>>>" ++ check (runes_of_ascii "MetaData Header {
    int64 zchar `u8 x,`,
    Header u8x,
    zchar[65535] u,
    A options1 `it's`,
    zchar[007] MetaDataX,
    zchar[0] As,
}

MetaData Logon {
    char[] rootA,
}

packet int {
    f32 falsey,
}

MetaData float {
    len leftPad,
    A Foo `tab	here`,
    char[65535] T `line1
    line2`,
}

options {
    // " ++ [128512]%N ++ runes_of_ascii " emoji
    // " ++ [27880; 37322]%N ++ runes_of_ascii "
    float = '0';
    float = true;
    Foo = ""\n""
}")).
Eval vm_compute in ("<<<M4046>>>" ++ check (runes_of_ascii "root packet u {
    uint8x falsey,
    repeat char[0] o `u8 x,`,
    @rightPad('\x00')
    match leftPad as u {
        7 : crc,
        [""`tick`"", 0123456789] : Packet,
        [42] : msg_type,
        3 : tag,
    },/// triple
    @calculatedFrom(""1"")
    char[1] leftPad,
}

packet o {
    char[] falsey,
    repeat i8 f32a `tab	here`,
    float64 pack @calculatedFrom(""\" ++ [233]%N ++ runes_of_ascii """),
}")).
Eval vm_compute in ("<<<M3817>>>" ++ check (runes_of_ascii "MetaData

u
{
}options

{
	    // c
	// @lengthOf(
    float = int8 ;

    rootA
    = false ; As
=
	int16	// `tick` ""quote"" 'q'
  repeatCount 
      // trailing space 

  = int16 
u8x 
= 
//	t
  '\x00' ;
    } options	{repeatCount

    =0
u128 
        //
      = false ; i64_ 
	    // trailing space 
    	// `tick` ""quote"" 'q'
  ='0'
;  //	t
    }")).
Eval vm_compute in ("<<<M873>>>" ++ check (runes_of_ascii "root packet BodyLength { uint16
As `crlf
line`
//	t
// " ++ [128512]%N ++ runes_of_ascii " emoji
,}packet A {
@calculatedFrom(""{,}""/// triple
)
    f32 trueish`// not a comment` , // `tick` ""quote"" 'q'
}
packet i8i8 {zchar[ 007 ]leftPad,@tag(
    10
)  tag  @lengthOf( o )
, float64
    T
, @calculatedFrom( // " ++ [27880; 37322]%N ++ runes_of_ascii "
""a\""b"" )
string uint8x@calculatedFrom( ""abc"")`two words` ,
}
")).
Eval vm_compute in ("<<<M1324>>>" ++ check (runes_of_ascii "
root packet As {	u
{ tag
    a1
, repeat charz `a\` , } ,match float
    as
u128 {""a\\"" : msg_type
    ,""`tick`"": packetx, } , repeat
char[
    255 ] falsey `two words` ,
f32
    packetx  , zchar[0 //	t
] options1 `{ , }`, repeat rootA
    `
` , }
MetaData Header {
u32 Header `` , }
//x
//x
MetaData matchKey{ msg_type Z9_ ,
}")).
Eval vm_compute in ("<<<M1971>>>" ++ check (runes_of_ascii "MetaData
    u { }  options {
// c
// @lengthOf(
float = int8 ;rootA =false ; As =	int16 // `tick` ""quote"" 'q'
repeatCount
    // trailing space 
    =
    int16
; u8x =
    //	t
    '\x00' '\x00' ; } options	{
    repeatCount
= 0
u128
    //
    = false ; i64_
// trailing space 
// `tick` ""quote"" 'q'
= '0' ; //	t
}
")).
Eval vm_compute in ("<<<M1898>>>" ++ check (runes_of_ascii "MetaData
    u { }  options {
// c
// @lengthOf(
float = float32 ;rootA =false ; As =	int16 // `tick` ""quote"" 'q'
repeatCount
    // trailing space 
    =
    int16
; u8x =
    //	t
    '\x00' ; } options	{
    repeatCount
= 0
u128
    //
    = false ; i64_
// trailing space 
// `tick` ""quote"" 'q'
= '0' ; //	t
}
")).
Eval vm_compute in ("<<<M2051>>>" ++ check (runes_of_ascii "MetaData
    u { }  options {
// c
// @lengthOf(
float = int8 ;rootA =false ; As =	int16 // `tick` ""quote"" 'q'
repeatCount
    // trailing space 
    =
    int16
; u8x =
    //	t
    '\x00' ; } options	{
    repeatCount
= 0
u128
    //
    = false ; i64_
// trailing space 
// `tick` ""quote"" 'q'
= '0' ; //	t
} }
")).
Eval vm_compute in ("<<<M1882>>>" ++ check (runes_of_ascii "MetaData
    u { }  options float
// c
// @lengthOf(
{ = int8 ;rootA =false ; As =	int16 // `tick` ""quote"" 'q'
repeatCount
    // trailing space 
    =
    int16
; u8x =
    //	t
    '\x00' ; } options	{
    repeatCount
= 0
u128
    //
    = false ; i64_
// trailing space 
// `tick` ""quote"" 'q'
= '0' ; //	t
}
")).
Eval vm_compute in ("<<<M2032>>>" ++ check (runes_of_ascii "MetaData
    u { }  options {
// c
// @lengthOf(
float = int8 ;rootA =false ; As =	int16 // `tick` ""quote"" 'q'
repeatCount
    // trailing space 
    =
    int16
; u8x =
    //	t
    '\x00' ; } options	{
    repeatCount
= 0
u128
    //
    = false ; =
// trailing space 
// `tick` ""quote"" 'q'
i64_ '0' ; //	t
}
")).
Eval vm_compute in ("<<<M2045>>>" ++ check (runes_of_ascii "MetaData
    u { }  options {
// c
// @lengthOf(
float = int8 ;rootA =false ; As =	int16 // `tick` ""quote"" 'q'
repeatCount
    // trailing space 
    =
    int16
; u8x =
    //	t
    '\x00' ; } options	{
    repeatCount
= 0
u128
    //
    = false ; i64_
// trailing space 
// `tick` ""quote"" 'q'
= '0'  //	t
}
")).
Eval vm_compute in ("<<<M502>>>" ++ check (runes_of_ascii "
root  packet BodyLength {
    match
matchKey as
    As  { 255: Foo
//
//x
,  10 :
len , // packet A { u8 x, }
""" ++ [233]%N ++ runes_of_ascii "t" ++ [233]%N ++ runes_of_ascii """
    :tag , }
    //	t
    , packetx A , @calculatedFrom(
""" ++ [233]%N ++ runes_of_ascii "t" ++ [233]%N ++ runes_of_ascii """) Logon `crlf
line` // c
, char[]
charz
    `a\` , zchar[
    //x
    42 ] chars , }
    MetaData charz
{ }
packet zchar {}")).
Eval vm_compute in ("<<<M2044>>>" ++ check (runes_of_ascii "MetaData
    u { }  options {
// c
// @lengthOf(
float = int8 ;rootA =false ; As =	int16 // `tick` ""quote"" 'q'
repeatCount
    // trailing space 
    =
    int16
; u8x =
    //	t
    '\x00' ; } options	{
    repeatCount
= 0
u128
    //
    = false ; i64_
// trailing space 
// `tick` ""quote"" 'q'
=")).
Eval vm_compute in ("<<<M4602>>>" ++ check (runes_of_ascii "options{

    metadata
=
	char[
    10 ]

    tag=007
    ;	stringy

= 0

;

x_y_z
    =

    true	// a // b

  ;
}
root
    packet  o // " ++ [27880; 37322]%N ++ runes_of_ascii "
    {
@tag( // a // b
3

)	@leftPad (  '0'	)  @tag( 
	// packet A { u8 x, }
  // a // b
00 )  i64_

@lengthOf( 
	    //
	falsey
)
	,  }")).
Eval vm_compute in ("<<<M916>>>" ++ check (runes_of_ascii "root packet lengthOf { int32 body@lengthOf( Z9_
)
    `// not a comment` ,}
options { charz /// triple
=
    true }
    packet
asx { @tag(
// `tick` ""quote"" 'q'
// trailing space 
255 ) msg_type
// trailing space 
// `tick` ""quote"" 'q'
{ repeat
crc	charz
    //
    ,} , }")).
Eval vm_compute in ("<<<M4361>>>" ++ check (runes_of_ascii "  options 
{

calculatedFrom= false	;} packet	i64_
	{
body ,  
      //	t
  //x
		} /// triple
  	options  {float
    =
    true
    ;// @lengthOf(
    charz= 	 // a // b
    	char[65535 ] ;  u
=/// triple
true
;metadata	=

    ""\" ++ [233]%N ++ runes_of_ascii """ matchKey
= '\x00'

}// " ++ [27880; 37322]%N)).
Eval vm_compute in ("<<<M3760>>>" ++ check (runes_of_ascii "MetaData a1 {
    //x
    u8 u8x,
}

options {
    float = '0';
    // @lengthOf(
    pack = string;
}

MetaData packetx {
    tag Foo `
    `,
    uint8x asx,
    uint16 body,
    T x,// packet A { u8 x, }
    float a1 `
    `,
    matchKey crc,
}
// a // b")).
Eval vm_compute in ("<<<M1508>>>" ++ check (runes_of_ascii "packet
//	t
// trailing space 
_x {
// packet A { u8 x, }
// c
char[
3 3
    ] u8x @lengthOf(
u8x ) , @calculatedFrom(""" ++ [128512]%N ++ runes_of_ascii """ // @lengthOf(
)
i16	Foo
@lengthOf(	string_
    )`doc`	, repeat	i64 metadata , @lengthOf( string_
) i8 // c
u  `line1
line2`	,
}
")).
Eval vm_compute in ("<<<M1665>>>" ++ check ([65279]%N ++ runes_of_ascii "packet
//	t
// trailing space 
_x {
// packet A { u8 x, }
// c
char[
3
    ] u8x @lengthOf(
u8x ) , @calculatedFrom(""" ++ [128512]%N ++ runes_of_ascii """ // @lengthOf(
)
i16	Foo
@lengthOf(	string_
    )`doc`	, repeat	i64 metadata , @lengthOf( string_
) i8 // c
u  `line1
line2`	,
}
")).
Eval vm_compute in ("<<<M1594>>>" ++ check (runes_of_ascii "packet
//	t
// trailing space 
_x {
// packet A { u8 x, }
// c
char[
3
    ] u8x @lengthOf(
u8x ) , @calculatedFrom(""" ++ [128512]%N ++ runes_of_ascii """ // @lengthOf(
)
i16	Foo
@lengthOf(	string_
    )`doc`	, i64	repeat metadata , @lengthOf( string_
) i8 // c
u  `line1
line2`	,
}
")).
Eval vm_compute in ("<<<M1647>>>" ++ check (runes_of_ascii "packet
//	t
// trailing space 
_x {
// packet A { u8 x, }
// c
char[
3
    ] u8x @lengthOf(
u8x ) , @calculatedFrom(""" ++ [128512]%N ++ runes_of_ascii """ // @lengthOf(
)
i16	Foo
@lengthOf(	string_
    )`doc`	, repeat	i64 metadata , @lengthOf( string_
) i8 // c
u  `line1
line2`	,

")).
Eval vm_compute in ("<<<M1570>>>" ++ check (runes_of_ascii "packet
//	t
// trailing space 
_x {
// packet A { u8 x, }
// c
char[
3
    ] u8x @lengthOf(
u8x ) , @calculatedFrom(""" ++ [128512]%N ++ runes_of_ascii """ // @lengthOf(
)
i16	Foo
i32	string_
    )`doc`	, repeat	i64 metadata , @lengthOf( string_
) i8 // c
u  `line1
line2`	,
}
")).
Eval vm_compute in ("<<<M3744>>>" ++ check (runes_of_ascii "packet lengthOf {
    @tag(65535)
    match crc as i8i8 {
        [
            65535, 42, ""it's"", ""x y"", 7,
            ""a	b""
        ] : float,
        00 : MetaDataX,
        00 : options1,
        1 : a1,
        0 : packetx,
    },
}")).
Eval vm_compute in ("<<<M1171>>>" ++ check (runes_of_ascii "root  packet
msg_type {
// @lengthOf(
//	t
string repeatCount `crlf
line` , i8	Foo @lengthOf( MetaDataX )
    , @tag( 10 ) @calculatedFrom(
    ""abc"" ) @lengthOf( falsey
    ) repeat stringy pack `doc`,  } options { As =65535}")).
Eval vm_compute in ("<<<M3531>>>" ++ check (runes_of_ascii "options {
    // c1
LittleEndian // c2
= true
    // c4
;
    // c5
} // c6
root // c7a
  // c7b
packet
    // c8
P { repeat // c11a
  // c11b
char
    // c12
cs
    // c13
, u8 x // c16
,
    // c17
} // c18a
  // c18b
")).
Eval vm_compute in ("<<<M764>>>" ++ check (runes_of_ascii "MetaData// packet A { u8 x, }
matchKey { u64
leftPad
    //x
    ,
u32 T `it's` , uint8 x,
    // packet A { u8 x, }
    char[] f32a	`say ""hi""`
, f64// trailing space 
stringy ``	, lengthOf
Packet  `say ""hi""`, }")).
Eval vm_compute in ("<<<M1369>>>" ++ check (runes_of_ascii "
packet len
{ Logon ,@tag( 42 ) Logon { o @calculatedFrom( ""CRC32""
)`crlf
line` ,
char[]
    /// triple
    Logon
    @calculatedFrom(	""x y""	) ,}
    ,
    @leftPad ( '0' )body
, }
packet uint8x {} // a // b")).
Eval vm_compute in ("<<<M1707>>>" ++ check (runes_of_ascii "options { trueish = ""`tick`"" ; string_= = """ ++ [233]%N ++ runes_of_ascii "t" ++ [233]%N ++ runes_of_ascii """
    // c
    } root
    packet body { stringy @calculatedFrom(
""a	b"" ) `line1
line2` , }
packet Logon {
    @leftPad(
    ' ' ) //	t
u16 string_ `u8 x,` ,
}
")).
Eval vm_compute in ("<<<M3208>>>" ++ check (runes_of_ascii "// top
packet // c0
metadata // c1
{ // c2
Logon // c3
{ // c4
A // c5
`" ++ [28040; 24687; 31867; 22411]%N ++ runes_of_ascii "` // c6
, // c7
tag // c8
o // c9
, // c10
} // c11
, // c12
zchar // c13
len // c14
`// not a comment` // c15
, // c16
} // c17
")).
Eval vm_compute in ("<<<M1793>>>" ++ check (runes_of_ascii "options { trueish = ""`tick`"" ; string_= """ ++ [233]%N ++ runes_of_ascii "t" ++ [233]%N ++ runes_of_ascii """
    // c
    } root
    packet body { stringy @calculatedFrom(
""a	b"" ) `line1
line2` , }
packet Logon {
    (@leftPad
    ' ' ) //	t
u16 string_ `u8 x,` ,
}
")).
Eval vm_compute in ("<<<M1819>>>" ++ check (runes_of_ascii "options { trueish = ""`tick`"" ; string_= """ ++ [233]%N ++ runes_of_ascii "t" ++ [233]%N ++ runes_of_ascii """
    // c
    } root
    packet body { stringy @calculatedFrom(
""a	b"" ) `line1
line2` , }
packet Logon {
    @leftPad(
    ' ' ) //	t
u16 @tag( `u8 x,` ,
}
")).
Eval vm_compute in ("<<<M690>>>" ++ check (runes_of_ascii "packet // a // b
rootA {Z9_ // c
u `doc`, // packet A { u8 x, }
i16 options1 `// not a comment` , @rightPad
(
' '
    )	lengthOf
{	zchar[// a // b
3 // packet A { u8 x, }
] body,
    }
    , } 	 ")).
Eval vm_compute in ("<<<M1984>>>" ++ check (runes_of_ascii "MetaData
    u { }  options {
// c
// @lengthOf(
float = int8 ;rootA =false ; As =	int16 // `tick` ""quote"" 'q'
repeatCount
    // trailing space 
    =
    int16
; u8x =
    //	t
    '\x00' ;")).
Eval vm_compute in ("<<<M1128>>>" ++ check (runes_of_ascii "packet Foo { @tag( 0 ) @lengthOf(
Packet
// packet A { u8 x, }
// packet A { u8 x, }
) zchar[65535 ]  chars `it's` ,  float
@lengthOf( repeatCount)
    `line1
line2` , }
    options { }
")).
Eval vm_compute in ("<<<M3579>>>" ++ check (runes_of_ascii "
packet A{	u8	a ,

    }
packet

B  {u16	b,

}root

packet P{ u8	K1
    ,u8 K2 
, 
match
    K1 as M1  {
    1
    :	A
,

    }	, match

    K2
as
	M2

    {1: B,	} , 
} ")).
Eval vm_compute in ("<<<M1159>>>" ++ check (runes_of_ascii "root
packet // " ++ [128512]%N ++ runes_of_ascii " emoji
_x
{@rightPad ( ' ' )
f32
    zchar
    @calculatedFrom(
    ""abc"" )`
` , char[
    // trailing space 
    255
] roots `crlf
line` ,repeat u8x , }

")).
Eval vm_compute in ("<<<M69>>>" ++ check (runes_of_ascii "options { o =""x y""
//x
// trailing space 
; float
    = ""\n"" metadata
// " ++ [128512]%N ++ runes_of_ascii " emoji
// `tick` ""quote"" 'q'
=
    """ ++ [128512]%N ++ runes_of_ascii """;Logon
//
//	t
=
true
; i8i8  = string// @lengthOf(
}")).
Eval vm_compute in ("<<<M4134>>>" ++ check (runes_of_ascii "//	t
MetaData chars {
    falsey pack,
    packetx zchar `
        `,
}// " ++ [128512]%N ++ runes_of_ascii " emoji

packet u128 {
    @lengthOf(tag)
    @tag(1)
    @rightPad('\x00')
    i64 T,
}")).
Eval vm_compute in ("<<<M2135>>>" ++ check (runes_of_ascii "options{
_x
= true
} options
{ o	= /// triple
false
    ; chars chars
= ""\n"" } root packet	Pad
/// triple
// packet A { u8 x, }
{	chars
    // a // b
    ,}")).
Eval vm_compute in ("<<<M2323>>>" ++ check (runes_of_ascii "// c
packet x { @lengthOf( metadata ) repeat lengthOf
,a1{
trueish	,// c
repeat//	t
MetaDataX , } , zchar[
    42	] rootA // `tick` ""quote"" 'q'
""1""
    }
")).
Eval vm_compute in ("<<<M403>>>" ++ check (runes_of_ascii "packet body {  @leftPad (
    ) zchar[
0 ] metadata , chars {
repeat
    // " ++ [128512]%N ++ runes_of_ascii " emoji
    u8 string_,
string options1
    @calculatedFrom( """ ++ [28040; 24687]%N ++ runes_of_ascii """
    ) , },}")).
Eval vm_compute in ("<<<M2406>>>" ++ check (runes_of_ascii "// c
packet x { @lengthOf( metadata ) repeat lengthOf
,a1{
trueish	,// c
repeat//	t
MetaDataX , } , zchar[
    42	rootA ] // `tick` ""quote"" 'q'
,
    }
")).
Eval vm_compute in ("<<<M2078>>>" ++ check (runes_of_ascii "{options
_x
= true
} options
{ o	= /// triple
false
    ; chars
= ""\n"" } root packet	Pad
/// triple
// packet A { u8 x, }
{	chars
    // a // b
    ,}")).
Eval vm_compute in ("<<<M0>>>" ++ check (runes_of_ascii "
packet /// triple
uint8x	{@calculatedFrom(
""a	b"" )
//
// " ++ [128512]%N ++ runes_of_ascii " emoji
i32 charz
    ,
match //x
x	as
x {""a	b""  :
lengthOf,} , leftPad
    `{ , }` , } //x")).
Eval vm_compute in ("<<<M2162>>>" ++ check (runes_of_ascii "options{
_x
= true
} options
{ o	= /// triple
false
    ; chars
= ""\n"" } root i16	Pad
/// triple
// packet A { u8 x, }
{	chars
    // a // b
    ,}")).
Eval vm_compute in ("<<<M1790>>>" ++ check (runes_of_ascii "options { trueish = ""`tick`"" ; string_= """ ++ [233]%N ++ runes_of_ascii "t" ++ [233]%N ++ runes_of_ascii """
    // c
    } root
    packet body { stringy @calculatedFrom(
""a	b"" ) `line1
line2` , }
packet Logon")).
Eval vm_compute in ("<<<M2316>>>" ++ check (runes_of_ascii "// c
packet x {  metadata ) repeat lengthOf
,a1{
trueish	,// c
repeat//	t
MetaDataX , } , zchar[
    42	] rootA // `tick` ""quote"" 'q'
,
    }
")).
Eval vm_compute in ("<<<M176>>>" ++ check (runes_of_ascii "
packet Foo {	} packet MetaDataX
    {char[]	Logon
// trailing space 
//
,  }root packet MetaDataX { match Z9_ as zchar{
7 : zchar , } , }")).
Eval vm_compute in ("<<<M4312>>>" ++ check (runes_of_ascii "packet A {
    B b `a
            b
          c`,
    B `a
            b
          c`,
    repeat B bs `a
            b
          c`,
}")).
Eval vm_compute in ("<<<M3967>>>" ++ check (runes_of_ascii "
// c
  MetaData
float {  float64 charz `
`  ,
	}	root
packet

    chars
    { @rightPad
	( 
'0'

    )
    Foo 
,
    } ")).
Eval vm_compute in ("<<<M935>>>" ++ check (runes_of_ascii "options	{ // " ++ [27880; 37322]%N ++ runes_of_ascii "
zchar=	zchar[ 7
]	;
    asx = 10 ;
zchar
    = ""a\\"" ; float = 10
Logon
= '0';
    }MetaData	crc {
    }
")).
Eval vm_compute in ("<<<M4393>>>" ++ check (runes_of_ascii "packet A {
    u16 len @lengthOf(body) `x
        `,
    u32 crc @calculatedFrom(""CRC32"") `x
        `,
    string body,
}")).
Eval vm_compute in ("<<<M3336>>>" ++ check (runes_of_ascii "root packet matchKey { zchar[ 3 ] pack @calculatedFrom( ""a	b"" ) `doc` , // c
} options { } MetaData A { int8 msg_type , }")).
Eval vm_compute in ("<<<M1428>>>" ++ check (runes_of_ascii "
packet
    falsey { Header@calculatedFrom(""packet""  ) ) , char[
    0123456789 ] packetx
    , } // `tick` ""quote"" 'q'")).
Eval vm_compute in ("<<<M4468>>>" ++ check (runes_of_ascii "packet A {
    u16 len @lengthOf(body) `a
    b`,
    u32 crc @calculatedFrom(""CRC32"") `a
    b`,
    string body,
}")).
Eval vm_compute in ("<<<M1447>>>" ++ check (runes_of_ascii "
packet
    falsey { Header@calculatedFrom(""packet""  ) , char[
    0123456789  packetx
    , } // `tick` ""quote"" 'q'")).
Eval vm_compute in ("<<<M4354>>>" ++ check (runes_of_ascii "packet MetaDataX {
    i8i8 @calculatedFrom(""a\""b"") `
    `,
    @calculatedFrom(""a\\"")
    leftPad,
}
// " ++ [128512]%N ++ runes_of_ascii " emoji")).
Eval vm_compute in ("<<<M2999>>>" ++ check (runes_of_ascii "packet A {
  match k as n {
    [""a"", ""bb"", 007, ""d"", ""e"", 66, ""g"", ""h"", 9, ""j"", ""k"", 12] : B
    2 : C
  },
}")).
Eval vm_compute in ("<<<M4446>>>" ++ check (runes_of_ascii "packet 
stringy  { 
@lengthOf(

    crc
)
string repeatCount
@calculatedFrom(
    ""{,}"" 
)

    ,	}

")).
Eval vm_compute in ("<<<M2981>>>" ++ check (runes_of_ascii "packet A {
  match k as n {
    [""a"", 22, ""c c"", 4, ""e"", 66, ""g"", 8, ""i"", 10, ""k""] : B,
    2 : C
  },
}")).
Eval vm_compute in ("<<<M1417>>>" ++ check (runes_of_ascii "
packet
    falsey { Header""packet""  ) , char[
    0123456789 ] packetx
    , } // `tick` ""quote"" 'q'")).
Eval vm_compute in ("<<<M1546>>>" ++ check (runes_of_ascii "packet
//	t
// trailing space 
_x {
// packet A { u8 x, }
// c
char[
3
    ] u8x @lengthOf(
u8x ) ,")).
Eval vm_compute in ("<<<M91>>>" ++ check (runes_of_ascii "// trailing space 
MetaData u8x
{
i64_
    i64_ `doc`,i16 Z9_ `say ""hi""` , BodyLength
roots ,
}")).
Eval vm_compute in ("<<<M3834>>>" ++ check (runes_of_ascii "
MetaData body
// c
    {i64
    pack `it's`,
} 
packet	stringy
{ int16

calculatedFrom, } ")).
Eval vm_compute in ("<<<M881>>>" ++ check (runes_of_ascii "MetaData chars
    {
pack
// " ++ [27880; 37322]%N ++ runes_of_ascii "
/// triple
calculatedFrom , }options { } // trailing space ")).
Eval vm_compute in ("<<<M3519>>>" ++ check (runes_of_ascii "packet chars { } packet MetaDataX { @tag( 42 ) i16 string_ , repeat x `say ""hi""` , } // c
")).
Eval vm_compute in ("<<<M3284>>>" ++ check (runes_of_ascii "MetaData float { float64 charz `
` , }
// c
root packet chars { @rightPad ( '0' ) Foo , }")).
Eval vm_compute in ("<<<M3495>>>" ++ check (runes_of_ascii "packet chars { } packet MetaDataX // c
{ @tag( 42 ) i16 string_ , repeat x `say ""hi""` , }")).
Eval vm_compute in ("<<<M2217>>>" ++ check (runes_of_ascii "options
{ } } options { BodyLength= u16 Header= f64 ; u128 =
    true
    ; } // a // b")).
Eval vm_compute in ("<<<M2303>>>" ++ check (runes_of_ascii "options
{ } options { BodyLength= u16% Header= f64 ; u128 =
    true
    ; } // a // b")).
Eval vm_compute in ("<<<M2248>>>" ++ check (runes_of_ascii "options
{ } options { BodyLength= u16 =Header f64 ; u128 =
    true
    ; } // a // b")).
Eval vm_compute in ("<<<M3235>>>" ++ check (runes_of_ascii "packet metadata { Logon { A `" ++ [28040; 24687; 31867; 22411]%N ++ runes_of_ascii "` , tag o , } // c
, zchar len `// not a comment` , }")).
Eval vm_compute in ("<<<M2949>>>" ++ check (runes_of_ascii "packet A {
  match k as n {
    [1, 22, 007, 4, 5, 66, 7, 8, 9] : B,
    2 : C
  },
}")).
Eval vm_compute in ("<<<M3458>>>" ++ check (runes_of_ascii "packet o { repeat Logon uint8x , } options { asx = zchar[ 3 ]
// c
stringy = '\x00' }")).
Eval vm_compute in ("<<<M1745>>>" ++ check (runes_of_ascii "options { trueish = ""`tick`"" ; string_= """ ++ [233]%N ++ runes_of_ascii "t" ++ [233]%N ++ runes_of_ascii """
    // c
    } root
    packet body {")).
Eval vm_compute in ("<<<M3401>>>" ++ check (runes_of_ascii "MetaData body { i64
// c
pack `it's` , } packet stringy { int16 calculatedFrom , }")).
Eval vm_compute in ("<<<M2900>>>" ++ check (runes_of_ascii "packet A {
  match k as n {
    [""a"", ""bb"", ""c c"", ""d"", ""e""] : B
    2 : C
  },
}")).
Eval vm_compute in ("<<<M2918>>>" ++ check (runes_of_ascii "packet A {
  match k as n {
    [1, 22, ""c c"", 4, 5, ""f""] : B,
    2 : C
  },
}")).
Eval vm_compute in ("<<<M2910>>>" ++ check (runes_of_ascii "packet A {
  match k as n {
    [1, 22, 007, 4, 5, 66] : B,
    2 : C
  },
}")).
Eval vm_compute in ("<<<M3853>>>" ++ check (runes_of_ascii "packet 
A
{

Inner
    {  u8
	x `x
`, Deep

{ u8 
y `x
` 
, }	, 
} , }
")).
Eval vm_compute in ("<<<M3944>>>" ++ check (runes_of_ascii "root packet roots {
    // " ++ [128512]%N ++ runes_of_ascii " emoji
    calculatedFrom x_y_z,
}// a // b")).
Eval vm_compute in ("<<<M2885>>>" ++ check (runes_of_ascii "packet A {
  match k as n {
    [1, 22, 007, 4] : B
    2 : C
  },
}")).
Eval vm_compute in ("<<<M1730>>>" ++ check (runes_of_ascii "options { trueish = ""`tick`"" ; string_= """ ++ [233]%N ++ runes_of_ascii "t" ++ [233]%N ++ runes_of_ascii """
    // c
    } root")).
Eval vm_compute in ("<<<M3541>>>" ++ check (runes_of_ascii "

  root
    packet P  { hdr

    {
u8

a
	,
}  ,  u8	x, 
}")).
Eval vm_compute in ("<<<M2717>>>" ++ check (runes_of_ascii "'0' `doc` char[ ) string @leftPad , char[] string root @tag(")).
Eval vm_compute in ("<<<M2816>>>" ++ check (runes_of_ascii "zchar[ f64 char string int32 as false char[ char @rightPad")).
Eval vm_compute in ("<<<M2709>>>" ++ check (runes_of_ascii "'0' @tag( i64 i32 u8 0 } uint64 char u8 @lengthOf( = char")).
Eval vm_compute in ("<<<M2793>>>" ++ check (runes_of_ascii "zchar[ 0123456789 = string uint32 @lengthOf( options ;")).
Eval vm_compute in ("<<<M819>>>" ++ check (runes_of_ascii "MetaData
    // c
    Foo{ char[
00
    ] Pad ,
}
")).
Eval vm_compute in ("<<<M2584>>>" ++ check (runes_of_ascii "packet A { char[] x @calculatedFrom(""c"") `d`, }")).
Eval vm_compute in ("<<<M1720>>>" ++ check (runes_of_ascii "options { trueish = ""`tick`"" ; string_= """ ++ [233]%N ++ runes_of_ascii "t" ++ [233]%N ++ runes_of_ascii """")).
Eval vm_compute in ("<<<M3035>>>" ++ check (runes_of_ascii "MetaData M {
    u8 x `x
`,
    T t `x
`,
}")).
Eval vm_compute in ("<<<M945>>>" ++ check (runes_of_ascii "options {  Packet
=	0 trueish =
i8
;	}
")).
Eval vm_compute in ("<<<M1357>>>" ++ check (runes_of_ascii "
packet /// triple
BodyLength
{
    }
")).
Eval vm_compute in ("<<<M3159>>>" ++ check (runes_of_ascii "MetaData M {
}// c
MetaData N {
}// d")).
Eval vm_compute in ("<<<M1506>>>" ++ check (runes_of_ascii "packet
//	t
// trailing space 
_x {")).
Eval vm_compute in ("<<<M3754>>>" ++ check (runes_of_ascii "// " ++ [27880; 37322]%N ++ runes_of_ascii "
packet Header {
}
// " ++ [128512]%N ++ runes_of_ascii " emoji")).
Eval vm_compute in ("<<<M2811>>>" ++ check (runes_of_ascii "@lengthOf( @tag( ( `a\` i16 ( as")).
Eval vm_compute in ("<<<M2118>>>" ++ check (runes_of_ascii "options{
_x
= true
} options
{")).
Eval vm_compute in ("<<<M1247>>>" ++ check (runes_of_ascii "options { lengthOf	=7;
    }
")).
Eval vm_compute in ("<<<M2591>>>" ++ check (runes_of_ascii "packet A { x @lengthOf(), }")).
Eval vm_compute in ("<<<M2818>>>" ++ check (runes_of_ascii "ykT4r3#5kWpIpr8~:{UG:h?pLl")).
Eval vm_compute in ("<<<M4445>>>" ++ check (runes_of_ascii "// c 
	packet
	A
    {}
")).
Eval vm_compute in ("<<<M4332>>>" ++ check (runes_of_ascii "
packet
	A {
	}	// c 
")).
Eval vm_compute in ("<<<M4002>>>" ++ check (runes_of_ascii "packet BodyLength {
}")).
Eval vm_compute in ("<<<M1073>>>" ++ check (runes_of_ascii "packet msg_type {}
")).
Eval vm_compute in ("<<<M1267>>>" ++ check (runes_of_ascii "root packet a1 { }")).
Eval vm_compute in ("<<<M3120>>>" ++ check (runes_of_ascii "packet A {
}
// c" ++ [12]%N)).
Eval vm_compute in ("<<<M3073>>>" ++ check (runes_of_ascii "packet A {
}// c" ++ [133]%N)).
Eval vm_compute in ("<<<M4048>>>" ++ check (runes_of_ascii "  options {  }

")).
Eval vm_compute in ("<<<M2671>>>" ++ check (runes_of_ascii "options A { }")).
Eval vm_compute in ("<<<M3820>>>" ++ check (runes_of_ascii "options {
}")).
Eval vm_compute in ("<<<M2777>>>" ++ check (runes_of_ascii ", } char")).
Eval vm_compute in ("<<<M2469>>>" ++ check (runes_of_ascii "Packet")).
Eval vm_compute in ("<<<M2522>>>" ++ check (runes_of_ascii "`a
b`")).
Eval vm_compute in ("<<<M2491>>>" ++ check (runes_of_ascii "@tag")).
Eval vm_compute in ("<<<M2518>>>" ++ check (runes_of_ascii """`""")).
Eval vm_compute in ("<<<M2498>>>" ++ check (runes_of_ascii "//")).
Eval vm_compute in ("<<<M2687>>>" ++ check ([65279]%N)).
