From FP Require Import Lexer Parser ShowPT Digest Formatter.
From Coq Require Import String List NArith.
Import ListNotations.
Open Scope string_scope.
Set Printing Width 100000000.
Set Printing Depth 100000000.
Definition show_fres (r : fres) : string :=
  match r with
  | FOk s => "OK:" ++ sh_escaped s ""
  | FErr s => "ERR:" ++ sh_escaped s ""
  | FPanic p => "PANIC:" ++ p
  end.
Definition check (rs : list rune) : string := digest (show_fres (format_res rs)).
Definition full (rs : list rune) : string := show_fres (format_res rs).
Eval vm_compute in ("<<<M3499>>>" ++ check (runes_of_ascii "options {  StringPrefixLenType=
	u8 ;  ArrayPrefixLenType
=
u64
    ;  FixedStringPadFromLeft = true

; 
JavaPackage = ""com.example.msg"" ;
GoPackage= ""msg""

; GoModule= 
""example.com/msg""  ;}MetaData 
Meta

{
u32	SeqNum `sequence number`  ,
	char[
8 ]  Symbol`symbol`	, zchar[5 ]  ZSym	`z symbol` , 
string
	Note ,Symbol 
AltSymbol	`alias of symbol` , 
f64
	Price 
,

    }
	packet	Inner {u8 a,	i16

b ,

    string  c

, }	packet  Inner2	{u8	a2
	, char[  3	]	c2

    ,

    }
packet Logon	{ u8
x

    , string
user

,
repeat

    u16	codes
    ,
}
	packet Logout{

u16 
reason
, } 
packet
    Empty 
{
} root	packet

    Msg
	{u8
su8
	,
uint8
    luint8 ,

    u16
su16 ,

    uint16
    luint16,

u32
su32

,
	uint32  luint32

,u64 su64  ,
    uint64  luint64 
,
    i8
si8
	, int8	lint8
    ,

    i16

si16,
	int16
    lint16 ,
i32

    si32,
	int32 lint32 
,
i64
si64
,int64

lint64 ,  f32

sf32
	,
float32 lfloat32	,  f64

    sf64
,
    float64 lfloat64,
char[

    6	] 
fsplain , @leftPad
(

    '0'
)
    char[
4
]
	fs0,
	@rightPad(
'0'
	)char[
    5

]
fs1
,

@leftPad ( 
' ') char[

6
]

    fs2,@rightPad (' ') char[

    7 
]
    fs3,

@leftPad(
'\x00' 
)	char[
	8
    ] 
fs4, @rightPad (
	'\x00'	) char[  9
    ]
fs5

,

    @leftPad
( )
	char[

    10]
fs6, @rightPad (
)
char[

11
]
fs7

,zchar[	7 ]
    fz,
	@leftPad( '0'
    ) 
zchar[
3
	] fzl0 , string	s1`doc`
,char[] s2  ,  Inner 
,  Sub {
u8 q

    ,  string  w,Deep{
    u16

z,
repeat
i32 zs

,

    } , }  ,repeat u8 
ru8 , repeat
    u16
ru16	,
	repeat

    u32
ru32 
,

    repeat
    u64 
ru64
    , repeat i8	ri8,repeat

i16 
ri16
,repeat
    i32 
ri32

,
	repeat

i64

    ri64

    ,

    repeat f32

rf32	,
repeat

f64 rf64	, repeat 
string  rstr

,
    repeat

    char[]
rstr2 
, repeat  char[
3
	]rfs
,

repeat zchar[

3

]
rfz

, repeat

    Inner2 ,

repeat
Grp
{
	u8	k

    , char[
    2
    ]
v ,

    }
    , SeqNum,SeqNum

seq2,	repeat
SeqNum
    seqs ,

Symbol
, AltSymbol	alt,  ZSym

, Note	,

repeat	Symbol
	syms
,

    Price	px 
, u16
    MsgType,

    u32
BodyLen	@lengthOf(
	Body	) 
,match
MsgType

    as
    Body
    {

    1 
:

Logon

    ,
[

2 ,  3 
] :Logout

    ,
    7

    :Logon,
9	: Empty	,  } 
,

u32
    Checksum @calculatedFrom(

    ""CRC32""
),
	}
")).
Eval vm_compute in ("<<<M4125>>>" ++ check (runes_of_ascii "MetaData len {
    char[007] T,
}

packet chars {
    @tag(0)
    char[] stringy @calculatedFrom(""a\""b"") `" ++ [233]%N ++ runes_of_ascii "`,
    @tag(65535)
    repeat o MetaDataX,
    crc @lengthOf(i8i8),
    @calculatedFrom(""x y"")
    roots @lengthOf(packetx),
    @calculatedFrom(""1"")
    @lengthOf(Logon)
    @lengthOf(x)
    repeat T pack,
    @lengthOf(lengthOf)
    @tag(42)
    i64 crc @calculatedFrom(""packet"") `
    `,
    i8i8 ``,
}

packet len {
    match u128 as string_ {
        65535 : u128,
    },
    As,
    Header,// " ++ [27880; 37322]%N ++ runes_of_ascii "
    @rightPad('\x00')
    @leftPad('\x00')
    asx {
        /// triple
        repeat BodyLength {
            asx {
                repeat u32 Header,
                repeat i64 i64_,
                // 50% %s
                // `tick` ""quote"" 'q'
                match rootA as float {
                    [
                        007, ""CRC32"", 7, ""it's"", 7,
                        3
                    ] : x_y_z,
                    007 : pack,
                },
                char[] metadata @lengthOf(BodyLength),
            },
            repeat char[00] u `{ , }`,
            repeat zchar[3] tag,
            repeat crc int `line1
            line2`,
        },// `tick` ""quote"" 'q'
        char[255] asx @lengthOf(chars),
        int64 Foo ``,
        _x {
            T {
                string_ `" ++ [28040; 24687; 31867; 22411]%N ++ runes_of_ascii "`,
                char[] chars,
            },
            repeat a1 {
                repeatCount @lengthOf(o),
                i64 leftPad,
                zchar[255] float @calculatedFrom(""\" ++ [233]%N ++ runes_of_ascii """),
                repeat string i8i8,
                // trailing space 
                // `tick` ""quote"" 'q'
            },
        },
    },
    @calculatedFrom(""abc"")
    repeat f32a trueish `u8 x,`,
    match calculatedFrom as stringy {
        [1, 65535] : u,
    },
}

packet options1 {
    string calculatedFrom `" ++ [233]%N ++ runes_of_ascii "`,
    @lengthOf(x_y_z)
    zchar[0123456789] x_y_z @lengthOf(falsey) `a\`,
}")).
Eval vm_compute in ("<<<M4204>>>" ++ check (runes_of_ascii "options {
    BodyLength = 7;
    len = string
    As = char[7];
}

options {
}

root packet zchar {
    @rightPad(' ')
    char[] zchar @calculatedFrom(""a\\""),
    zchar[7] i64_,
    @lengthOf(u8x)
    /// triple
    @lengthOf(i8i8)
    body @lengthOf(body),
    roots {
        match string_ as Z9_ {
            """ ++ [128512]%N ++ runes_of_ascii """ : body,
            10 : matchKey,
            0123456789 : packetx,
            [
                ""packet"", ""abc"", ""CRC32"", 0, 1,
                0123456789
            ] : Header,
            65535 : lengthOf,
        },
    },
    @calculatedFrom("""")
    match float as calculatedFrom {
        // 50% %s
        """ ++ [128512]%N ++ runes_of_ascii """ : Logon,
        [3, 65535] : options1,
        ""a\\"" : Foo,
    },
    Logon,
    match o as calculatedFrom {
        3 : uint8x,
    },
    rootA repeatCount,// c
    options1 {
        f32 crc,
        char[] MetaDataX,
        repeat zchar[3] Header `line1
                line2`,
        body {
            repeat Packet,
            Header {
                char[] float @calculatedFrom(""\" ++ [233]%N ++ runes_of_ascii """) `" ++ [233]%N ++ runes_of_ascii "`,
                match zchar as matchKey {
                    [""CRC32""] : Foo,
                    // @lengthOf(
                    """ ++ [233]%N ++ runes_of_ascii "t" ++ [233]%N ++ runes_of_ascii """ : BodyLength,
                    0123456789 : crc,
                    ""it's"" : stringy,
                    ""a\\"" : asx,
                },
                u64 leftPad @calculatedFrom(""`tick`""),
                // 50% %s
                // c
                packetx,
            },
            f64 crc,
            zchar[65535] zchar,
        },// a // b
    },
    @calculatedFrom(""// no comment"")
    u64 i8i8,
}

// " ++ [27880; 37322]%N ++ runes_of_ascii "
MetaData u128 {
}")).
Eval vm_compute in ("<<<M120>>>" ++ check (runes_of_ascii "// @lengthOf(
packet
trueish { Pad { float @lengthOf( // " ++ [128512]%N ++ runes_of_ascii " emoji
uint8x
    // a // b
    ), float32 x_y_z @calculatedFrom( ""a\\""
// c
// " ++ [128512]%N ++ runes_of_ascii " emoji
), }
,
uint8
matchKey ,
    @leftPad ( ) _x
    @lengthOf( o ) `{ , }` ,roots  { u64 stringy // packet A { u8 x, }
`two words` , repeat
// `tick` ""quote"" 'q'
// c
i8 lengthOf`doc` ,
    } // trailing space 
,pack	`" ++ [233]%N ++ runes_of_ascii "`  , packetx
// " ++ [128512]%N ++ runes_of_ascii " emoji
// trailing space 
pack , repeat packetx
{falsey  @lengthOf(
    _x //	t
)
,}
    , u128@calculatedFrom( ""CRC32""
    // @lengthOf(
    ) ,@tag(
    0123456789)rootA //
@lengthOf( Pad
)
, // `tick` ""quote"" 'q'
}  packet Foo// 50% %s
{  @lengthOf(
    options1// `tick` ""quote"" 'q'
)	repeatCount packetx  , }options { T =255
leftPad =
' ';roots=  ""\n""; } packet asx
//x
/// triple
{ f32a {float32 falsey ,
}, @leftPad ( '\x00' )
    uint16 MetaDataX `crlf
line`
    ,  repeat
    string options1, repeat i32
    leftPad /// triple
`// not a comment` , repeat string // c
stringy `100% of %d`
,
repeat chars  {
string
MetaDataX`100% of %d`, f64 leftPad `crlf
line` , }	,
char[]
    //	t
    metadata//x
,@tag( 10
    // trailing space 
    ) char[] Pad`tab	here` ,
match matchKey as o	{ ""{,}"" : MetaDataX	, [
7 , ""\" ++ [233]%N ++ runes_of_ascii """  ,
3
    ,
""abc""
,10
] :
stringy  ,""\" ++ [233]%N ++ runes_of_ascii """ :  zchar ,
[
    /// triple
    00 ,
// " ++ [128512]%N ++ runes_of_ascii " emoji
// trailing space 
3 ] :charz
,
    ""a\\"":msg_type , } , }")).
Eval vm_compute in ("<<<M363>>>" ++ check (runes_of_ascii "options { BodyLength
    //
    = """ ++ [28040; 24687]%N ++ runes_of_ascii """ Header= '0' ;  }root
packet
crc{
asx @lengthOf(crc)`" ++ [28040; 24687; 31867; 22411]%N ++ runes_of_ascii "`
, @calculatedFrom( ""x y""	)@lengthOf( Logon)repeat f32a
    // c
    {i32 calculatedFrom //x
@lengthOf( Packet )
    `// not a comment` , charz @lengthOf( u	) ,
    match  asx
    as
As{
    ""it's"":/// triple
_x
    //
    , ""x y"" :  calculatedFrom ,	""packet"" : Pad ,
}, charz
    chars//x
,
    } , @leftPad
    ( ' '	) // `tick` ""quote"" 'q'
i8 A`line1
line2` , repeat
    zchar[ 42 ]x
,As`" ++ [233]%N ++ runes_of_ascii "`
    , char[] crc , @calculatedFrom(	""`tick`"" ) Header
    // 50% %s
    {match
chars
// a // b
// 50% %s
as float // @lengthOf(
{
""abc""
:
matchKey , 007:calculatedFrom ,
    // 50% %s
    ""\n"" : i64_ , ""packet"": i8i8 [10 ,
0123456789
]
:
roots	, } ,
metadata repeatCount	, // " ++ [128512]%N ++ runes_of_ascii " emoji
}	,}
packet o{
u16 chars@calculatedFrom(	""abc"" //
), repeat int {uint8 len
,
    // `tick` ""quote"" 'q'
    u128 asx, match u128 as
    lengthOf
{ ""it's"": packetx 0123456789: // packet A { u8 x, }
a1 , [ """" ,0123456789] :	asx , } ,} ,
char _x
@lengthOf(  repeatCount )
    // `tick` ""quote"" 'q'
    ,repeat
uint64 u128 , } root
    // packet A { u8 x, }
    packet	_x
{
repeat int {repeat
Z9_
// trailing space 
//
body ,
// 50% %s
//x
} ,	}
// trailing space 
")).
Eval vm_compute in ("<<<M915>>>" ++ check (runes_of_ascii "options	{
lengthOf
    =
    """ ++ [233]%N ++ runes_of_ascii "t" ++ [233]%N ++ runes_of_ascii """
// 50% %s
//x
; } packet// packet A { u8 x, }
i8i8 { match stringy as a1 { 42 : i64_ 10  : chars  , } , @tag( 255  ) f64
    // 50% %s
    MetaDataX , @calculatedFrom( ""it's"" )@rightPad(
) @tag( 255
)
u32  metadata
// trailing space 
//
@calculatedFrom( ""a\""b"" )
, i64_ zchar , char[
    42 ]
    //	t
    BodyLength `
`, // packet A { u8 x, }
zchar[ 0123456789 ] stringy @lengthOf( crc ), @rightPad( '0' )
u As , f32
    int , repeat msg_type `it's` , } root
packet crc	{	repeat zchar[007 ]
    MetaDataX
,u
    roots	, @calculatedFrom(
    """" )
    match// " ++ [27880; 37322]%N ++ runes_of_ascii "
i64_
as u128 { [ // a // b
""" ++ [28040; 24687]%N ++ runes_of_ascii """,// trailing space 
""\" ++ [233]%N ++ runes_of_ascii """ ,""// no comment"", """" ,
    ""{,}"" , """ ++ [128512]%N ++ runes_of_ascii """ ]:
    T 65535
    : uint8x
    ,
3 : rootA
// `tick` ""quote"" 'q'
// trailing space 
, 3 :
// trailing space 
// `tick` ""quote"" 'q'
chars ,
00	:
    //
    matchKey, ""packet"" :
stringy , }	,
/// triple
// a // b
}
    root packet Foo {float32 T
,}
packet
    charz { chars Pad
`crlf
line` , char[]	u8x @calculatedFrom( ""a	b"" ),	@tag(65535)
// packet A { u8 x, }
/// triple
@tag(0123456789 ) // 50% %s
i16 Packet
`crlf
line` // packet A { u8 x, }
, }")).
Eval vm_compute in ("<<<M248>>>" ++ check (runes_of_ascii "options //
{ o = zchar[ 0 ] ;
    // 50% %s
    leftPad ='0'
    ; charz =
""packet"" // a // b
; zchar
    =
i32
    ;u8x = true } MetaData As {
    char[ 0 ] As `100% of %d` , i64 charz ,
tag
len`tab	here`
, //
Logon leftPad `it's`,
char[]
x`crlf
line`
,
}
root //
packet _x{ } packet
// `tick` ""quote"" 'q'
// c
Header { @leftPad ( '\x00' ) Header
    //
    @lengthOf(	metadata
    )
    `" ++ [28040; 24687; 31867; 22411]%N ++ runes_of_ascii "` , } root packet
    //x
    f32a  { @lengthOf(
    int ) repeat Foo { u32 i64_
, } ,
Packet  @lengthOf(
tag
)
    `u8 x,` ,
    @calculatedFrom(""" ++ [233]%N ++ runes_of_ascii "t" ++ [233]%N ++ runes_of_ascii """
    ) @calculatedFrom( ""a	b""// trailing space 
)
    char[]	lengthOf`{ , }` , // a // b
repeat int16 falsey `
` , _x	u128, @lengthOf( pack
)	repeat int32  trueish `100% of %d` , // " ++ [27880; 37322]%N ++ runes_of_ascii "
@lengthOf(	i64_ ) match A as
    x_y_z{
    // @lengthOf(
    [ """ ++ [28040; 24687]%N ++ runes_of_ascii """ ,	0123456789,	0 ,7	, 65535,
    /// triple
    ""{,}"" // " ++ [27880; 37322]%N ++ runes_of_ascii "
] : //x
options1,
    ""`tick`"" :	uint8x ""packet"" : charz ,
}
, @tag( 0123456789) char[ 10 ] roots
    @lengthOf( // @lengthOf(
a1 )
,
f64 asx
@calculatedFrom(
""a	b"" ) ,
    u8 lengthOf@calculatedFrom(  ""\" ++ [233]%N ++ runes_of_ascii """ ), }
")).
Eval vm_compute in ("<<<M1160>>>" ++ check (runes_of_ascii "options	{  x
= ""{,}""
} packet
charz { @calculatedFrom(
    """ ++ [28040; 24687]%N ++ runes_of_ascii """
) packetx
,
}
options
{ } packet asx
{ repeat
    MetaDataX // " ++ [27880; 37322]%N ++ runes_of_ascii "
leftPad
    , }root
//
/// triple
packet Header {lengthOf
{ string_ float  ,
leftPad , float32
roots
    ,repeat i8i8 { // @lengthOf(
calculatedFrom lengthOf ,
    zchar[ 0
    // @lengthOf(
    ] calculatedFrom @calculatedFrom(  ""\n"" ) ,
roots
    { char[0123456789	]roots `doc`  , } // " ++ [27880; 37322]%N ++ runes_of_ascii "
, string tag @calculatedFrom(  ""a	b"" ) ,} // trailing space 
,
    } , string_ repeatCount ,i8 // " ++ [128512]%N ++ runes_of_ascii " emoji
zchar
    @lengthOf( i64_ ),	T `// not a comment` , @lengthOf(
x_y_z
) match o as chars { [ 007
,
10 ,
""a\\"" , 00 ,""`tick`"" , 007 ,	""{,}"" ,// a // b
""a\\""
    ]
    :
// 50% %s
// " ++ [128512]%N ++ runes_of_ascii " emoji
lengthOf ,
}
    ,
calculatedFrom stringy , @lengthOf( i8i8) @tag( 3)
//
//	t
chars
{
x_y_z@calculatedFrom(
""it's"") ,
string
i64_	, int32
zchar, u8x , } , matchKey trueish	, // " ++ [128512]%N ++ runes_of_ascii " emoji
@calculatedFrom(""" ++ [233]%N ++ runes_of_ascii "t" ++ [233]%N ++ runes_of_ascii """) char[] Header
, match options1// trailing space 
as Foo  { 3
: zchar
, 1
: crc, }
    ,} //	t")).
Eval vm_compute in ("<<<M3960>>>" ++ check (runes_of_ascii "MetaData uint8x {
    f32a pack,
    uint64 _x `line1
    line2`,
}

packet options1 {
    @rightPad()
    //x
    // `tick` ""quote"" 'q'
    zchar[42] Z9_,
    int64 u `tab	here`,
    @tag(0)
    zchar @lengthOf(body),
    @calculatedFrom(""packet"")
    repeat Logon msg_type `crlf
    line`,
    @tag(0123456789)
    zchar[0] u `line1
    line2`,
    i64_ {
        u64 u128 @calculatedFrom(""it's""),
    },
    @calculatedFrom(""abc"")
    @tag(1)
    @rightPad('0')
    repeat Foo lengthOf,
}

MetaData BodyLength {
    string repeatCount,
    zchar[00] packetx `two words`,
    char[] MetaDataX `doc`,
}

packet packetx {
    @tag(10)
    @lengthOf(charz)
    @lengthOf(zchar)
    repeat matchKey,
    @lengthOf(MetaDataX)
    repeat leftPad roots,
    @calculatedFrom(""a\""b"")
    match matchKey as chars {
        007 : Foo,
        // a // b
        """ ++ [128512]%N ++ runes_of_ascii """ : zchar,
        007 : crc,
    },
    Z9_ @lengthOf(charz),
    @leftPad('\x00')
    repeat zchar[65535] charz,
}")).
Eval vm_compute in ("<<<M3675>>>" ++ check (runes_of_ascii "
packet
x_y_z { @calculatedFrom( 
// packet A { u8 x, }
  // @lengthOf(

""" ++ [128512]%N ++ runes_of_ascii """  ) 
//
		match

    a1
as

MetaDataX { 
""" ++ [128512]%N ++ runes_of_ascii """ :u8x

, [ """ ++ [28040; 24687]%N ++ runes_of_ascii """	]
    : asx

255	:falsey
	, [ 007]:

    stringy
10

:
    chars 
,
}	, string_

{	char[
	4294967296
    ]	//x
    packetx 
      // packet A { u8 x, }

,
} ,
    } 
root  packet
u128 
{
calculatedFrom  /// triple
MetaDataX	`it's` 	 //
    ,

    repeat leftPad 
    // c
    // a // b
x_y_z 

    //x
  	// " ++ [27880; 37322]%N ++ runes_of_ascii "
  , 
} 
packet BodyLength
{

char 
      // c

  Pad  @lengthOf( 
        // c
  // `tick` ""quote"" 'q'
uint8x
) `line1
line2`

,  uint16 charz

    , 
	    // " ++ [128512]%N ++ runes_of_ascii " emoji
// c

@leftPad	// @lengthOf(
    (
'\x00' 
)repeat A
{	repeat
	float32

Z9_ , u16	A 
@calculatedFrom(
""1"")

``
,	Pad	{ Packet
{repeat	uint8
    trueish
, stringy	@lengthOf(  u)`doc`
    , 	 // c
charz Foo

    `
` , uint16
    falsey`100% of %d`  ,}
, } ,  f32 roots
, }
	,
	// c
    }")).
Eval vm_compute in ("<<<M1083>>>" ++ check (runes_of_ascii "options {  string_ = '0'Header= ""\" ++ [233]%N ++ runes_of_ascii """
    packetx = 3 } MetaData// " ++ [27880; 37322]%N ++ runes_of_ascii "
calculatedFrom {} packet // packet A { u8 x, }
lengthOf//	t
{ uint64
    i64_ @lengthOf(  charz ) `doc` , @tag(1 ) match Z9_ as x{ ""packet""	:Logon 7 //	t
: // packet A { u8 x, }
trueish ,""" ++ [128512]%N ++ runes_of_ascii """ : T
    , [
""`tick`"" , 0
/// triple
// trailing space 
]
    :// `tick` ""quote"" 'q'
tag[
""x y"" ]  :i8i8  }
,
    @lengthOf(metadata	)	@calculatedFrom(
""" ++ [128512]%N ++ runes_of_ascii """	)
    // c
    @calculatedFrom(
    //x
    ""a	b"" )//
stringy
    @calculatedFrom(  ""abc""), @lengthOf( Z9_
)
match
As as  matchKey{
    00 // " ++ [27880; 37322]%N ++ runes_of_ascii "
: u8x
,
    // " ++ [27880; 37322]%N ++ runes_of_ascii "
    [	0
// packet A { u8 x, }
// a // b
] :
    matchKey	, 10	: matchKey}
    // trailing space 
    , char[] //
leftPad ,
repeatCount@calculatedFrom( """")
, repeat char[
1
    ] f32a// packet A { u8 x, }
`u8 x,` ,} packet i8i8 { @calculatedFrom(""" ++ [28040; 24687]%N ++ runes_of_ascii """ )repeat
    string // " ++ [27880; 37322]%N ++ runes_of_ascii "
stringy ,}")).
Eval vm_compute in ("<<<M3508>>>" ++ check (runes_of_ascii "
packet

    asx {
    repeat
    lengthOf

{
f32	matchKey

    `" ++ [28040; 24687; 31867; 22411]%N ++ runes_of_ascii "`

, 
}
    , @leftPad

( ) 
match
    a1 as
asx{ [
    ""\" ++ [233]%N ++ runes_of_ascii """

    ,
10

,	""it's""
,
""a\\""] 
        /// triple
  	// trailing space 
    :
    metadata
	,
[
42
] :  crc
	,  42 :
    metadata,10
	:
	    // c
    /// triple
	_x , 
}

, @lengthOf( options1

    )match
pack 
as	len  {

    7 
:
    Z9_ 
,
    // packet A { u8 x, }
		0	:
i64_ 
, 65535:
u8x
    ,  4294967296 
:
    packetx
    ,

[

""x y"" , 
	/// triple
  	// @lengthOf(
  ""packet"", ""CRC32""
    ,
00 
,

    1
, 00
// a // b

	, ""CRC32""
]
	: 
T
,}
    , 
@rightPad
    (' ' ) @leftPad

    ( '\x00' )@tag(  00 )
    i32
	pack
,@leftPad (	'0'  )
lengthOf 
@calculatedFrom(	""\n"" 
) , uint64

float

    `100% of %d`
    , } 
  // trailing space 
  options
{

    } ")).
Eval vm_compute in ("<<<M3908>>>" ++ check (runes_of_ascii "options {
    ArrayPrefixLenType = u64;
    FixedStringPadFromLeft = false;
}

packet Trade {
}

packet Reject {
    InPx94 {
        repeat Trade,
        string count,
        InFlags14 {
            u8 pad0,
        },
        repeat InSide239 {
            char[8] lastPx,
            repeat i64 clOrdID,
            i64 Acct,
        },
    },
    repeat string clOrdID,
    zchar[5] sym,
}

packet Quote {
    repeat Reject,
}

packet Logon {
    repeat Reject,
    char[] Acct,
    @leftPad('0')
    char[4] tag7,
}

root packet Fill {
    @rightPad('0')
    char[1] count,
    u8 f1,
    u32 Qty @lengthOf(Body),
    match f1 as Body {
        [195, 3] : Reject,
        110 : Quote,
        141 : Logon,
        21 : Trade,
    },
    u32 Flags @calculatedFrom(""CR\
    C32""),
}")).
Eval vm_compute in ("<<<M4303>>>" ++ check (runes_of_ascii "packet float {
}

packet o {
    zchar[3] x `doc`,
    repeat string_ {
        char[] stringy `" ++ [233]%N ++ runes_of_ascii "`,
    },
    repeat uint32 a1 ``,//
    int64 Pad @calculatedFrom(""1""),
    @lengthOf(crc)
    repeat u16 packetx,
    msg_type @lengthOf(crc),
    @tag(3)
    i16 u128,
    zchar[65535] Logon `crlf
    line`,
    @lengthOf(repeatCount)
    @calculatedFrom(""a\""b"")
    crc tag,
}

root packet i8i8 {
    repeat Packet {
        msg_type @calculatedFrom(""a\""b""),
        /// triple
        // 50% %s
    },
}// c

packet i8i8 {
    //	t
    i32 a1 @calculatedFrom(""\n"") `// not a comment`,
}

root packet u128 {
    @leftPad('\x00')
    x_y_z @lengthOf(lengthOf),
    repeat u32 calculatedFrom,
    u8 _x @calculatedFrom(""" ++ [128512]%N ++ runes_of_ascii """) `u8 x,`,
    int8 Pad,
    crc,
}")).
Eval vm_compute in ("<<<M1030>>>" ++ check (runes_of_ascii "root
    packet len
    {// a // b
char[ 0123456789 // " ++ [27880; 37322]%N ++ runes_of_ascii "
] pack @calculatedFrom(""a\\"") `say ""hi""` , match Header
    as
    trueish {[ ""a\\"" ,
255 ,007 ] :	asx
    , } ,
match Pad as
    Foo // `tick` ""quote"" 'q'
{""\n"" : uint8x	1: lengthOf
    , 65535
    : u128,
},
} packet
    tag  { o
rootA``
, }root
packet tag {
uint8x,
    @lengthOf( int ) // 50% %s
@tag(0 ) Pad ,
// packet A { u8 x, }
// 50% %s
u8 x , @lengthOf(
Z9_) f32 BodyLength
`tab	here` ,
    repeat
    char[
255
] f32a
    , repeat
msg_type lengthOf ,	@leftPad ( '\x00' ) repeat	int32 asx,
repeat string f32a , @leftPad ( )
len Foo ,
} // trailing space 
packet uint8x {  calculatedFrom
    // 50% %s
    ,
/// triple
// trailing space 
} MetaData asx{ // c
}
")).
Eval vm_compute in ("<<<M4199>>>" ++ check (runes_of_ascii "root packet metadata {
    repeat float32 roots,
    repeat string asx,
    string roots @lengthOf(As),
    char[10] crc @lengthOf(roots) `{ , }`,
    i64 Logon @calculatedFrom(""{,}""),
    i16 options1 @calculatedFrom(""CRC32""),
    @calculatedFrom(""abc"")
    @calculatedFrom(""" ++ [233]%N ++ runes_of_ascii "t" ++ [233]%N ++ runes_of_ascii """)
    zchar[65535] matchKey,
    @rightPad('0')
    repeat matchKey `u8 x,`,
    repeat len,
}

options {
    pack = ' ';
    u8x = char[7];
    i64_ = true;
    calculatedFrom = true;
}

root packet rootA {
    @calculatedFrom(""a\""b"")
    @rightPad('\x00')
    @calculatedFrom(""a\""b"")
    char[] Pad,
}

MetaData i64_ {
    u64 matchKey,
    int64 Foo,
    char[0123456789] BodyLength `
        `,
    tag crc,
}")).
Eval vm_compute in ("<<<M133>>>" ++ check (runes_of_ascii "// a // b
packet
a1 { @calculatedFrom( ""packet"" )u16 x @lengthOf( u8x
    ),@tag( 255 ) u32 a1 @calculatedFrom( """ ++ [128512]%N ++ runes_of_ascii """ )/// triple
, repeat i8 T `it's`, asx , @rightPad('\x00' )	body { repeatCount
    {i8 As // `tick` ""quote"" 'q'
,	zchar[ 10 ]
    asx
`tab	here` , match
    leftPad
    as chars
    {
    [
    """ ++ [128512]%N ++ runes_of_ascii """ ] :
    repeatCount // c
, 1	: matchKey , [
    1
,3
// c
// a // b
] :
    float
[ 255 ] // c
:
// `tick` ""quote"" 'q'
//	t
msg_type [
    3]
    : repeatCount , // " ++ [128512]%N ++ runes_of_ascii " emoji
}	,} // " ++ [128512]%N ++ runes_of_ascii " emoji
,
char[] string_`100% of %d`, // " ++ [27880; 37322]%N ++ runes_of_ascii "
char[007] Pad
// packet A { u8 x, }
// @lengthOf(
`line1
line2` // `tick` ""quote"" 'q'
, char[007 ] Pad `two words` , }, } 	 ")).
Eval vm_compute in ("<<<M114>>>" ++ check (runes_of_ascii "
packet repeatCount {
    matchKey roots`crlf
line` , char
    int@lengthOf(
x_y_z  ) , calculatedFrom @calculatedFrom(
""a\""b"" // packet A { u8 x, }
) , }
root packet f32a
    {
/// triple
// trailing space 
@rightPad (
'0' // " ++ [27880; 37322]%N ++ runes_of_ascii "
) repeat u8 Pad, trueish calculatedFrom
    // `tick` ""quote"" 'q'
    , @calculatedFrom(
""" ++ [28040; 24687]%N ++ runes_of_ascii """ ) match msg_type
    as pack {""abc""
:
repeatCount ,
""{,}"" : repeatCount  ""a	b"" : calculatedFrom } ,} root packet repeatCount  { int32
    //
    stringy ,/// triple
}
root packet//	t
BodyLength {@lengthOf( As )//x
repeat charz { match chars
as chars { 0
: MetaDataX ""\n"" :
    // trailing space 
    crc	,
    } , } , }")).
Eval vm_compute in ("<<<M1151>>>" ++ check (runes_of_ascii "
root packet Pad{
@calculatedFrom( ""`tick`""  ) repeat i8i8 u8x  ,	}	MetaData lengthOf { uint8 tag `it's` , tag	f32a`" ++ [28040; 24687; 31867; 22411]%N ++ runes_of_ascii "`// " ++ [27880; 37322]%N ++ runes_of_ascii "
, metadata calculatedFrom
,  u16 T // " ++ [128512]%N ++ runes_of_ascii " emoji
`tab	here` , len	stringy
    `100% of %d`
,	}MetaData roots
    { } // @lengthOf(
root
packet // a // b
x_y_z {
    repeat options1 As, @calculatedFrom( ""a\""b"" )
    match float as calculatedFrom
{1:float , 0123456789 :Packet , ""{,}""// " ++ [27880; 37322]%N ++ runes_of_ascii "
:leftPad ,[
4294967296
,	""CRC32"" ] :
// `tick` ""quote"" 'q'
// @lengthOf(
Foo// 50% %s
0123456789
    : roots ,
    [""a\""b"" ,	4294967296, 0123456789 , 10 ] : u128 ,  }// " ++ [128512]%N ++ runes_of_ascii " emoji
,
    /// triple
    }")).
Eval vm_compute in ("<<<M501>>>" ++ check (runes_of_ascii "packet
    // a // b
    msg_type { @leftPad (
'0' )repeat zchar[
    4294967296] roots ,repeat
u32 u128
    ,
@rightPad(  '\x00' ) match x_y_z  as As { 007: Foo ,} ,  @leftPad ( ' ') @leftPad ( ) _x u
,@tag( 7
    )
    repeat chars{ falsey leftPad `" ++ [28040; 24687; 31867; 22411]%N ++ runes_of_ascii "`
, zchar[  4294967296
] packetx@lengthOf(i64_ // " ++ [128512]%N ++ runes_of_ascii " emoji
)`doc`  , char[ 1]options1 @calculatedFrom(  ""1""), }
    , i64 matchKey @calculatedFrom(  ""x y"" ) `line1
line2`
    , zchar[ 007 ]uint8x `` , @lengthOf( falsey /// triple
) @calculatedFrom(""" ++ [233]%N ++ runes_of_ascii "t" ++ [233]%N ++ runes_of_ascii """) // 50% %s
As
    {//
zchar { repeat	int8  asx , repeat Packet , } ,
}
    ,
    }
")).
Eval vm_compute in ("<<<M1109>>>" ++ check (runes_of_ascii "  root  packet
    BodyLength {
@calculatedFrom(""\n"" )int8 a1
    //	t
    @lengthOf( falsey ), @calculatedFrom(
    ""\" ++ [233]%N ++ runes_of_ascii """ ) @tag( 0123456789	) lengthOf ,  @tag(//x
007) match
Logon as	f32a { 0:zchar,
} // trailing space 
,	@lengthOf(	i8i8)
    match
    options1  as string_ { // a // b
[
""a\""b"",00,
// trailing space 
/// triple
4294967296
,4294967296 ,""a	b"" , 1 // " ++ [27880; 37322]%N ++ runes_of_ascii "
]
:
A
},  }  root packet
Logon {
    @calculatedFrom(
""x y""
    )@calculatedFrom(
    // " ++ [27880; 37322]%N ++ runes_of_ascii "
    ""abc""
) A ,} MetaData leftPad {uint32 msg_type
`" ++ [233]%N ++ runes_of_ascii "` ,  string
Packet`" ++ [233]%N ++ runes_of_ascii "`
    , Packet  _x `100% of %d` ,
}")).
Eval vm_compute in ("<<<M4096>>>" ++ check (runes_of_ascii "MetaData roots {
}

packet chars {
    @tag(255)
    char[1] Packet,
    @lengthOf(calculatedFrom)
    Packet {
        uint32 len,
        uint64 uint8x @lengthOf(stringy),
    },
    x @lengthOf(trueish) `100% of %d`,
}

packet len {
    zchar[3] pack `crlf
    line`,
    float @lengthOf(calculatedFrom),
    char[3] rootA @lengthOf(body),
    @calculatedFrom(""{,}"")
    // c
    // c
    match _x as Header {
        00 : _x,
        [""packet"", 10, 0123456789, 255] : a1,
        42 : falsey,
        007 : msg_type,
    },
}
// packet A { u8 x, }")).
Eval vm_compute in ("<<<M3734>>>" ++ check (runes_of_ascii "packet _x {
    string lengthOf `two words`,
    @rightPad()
    uint32 calculatedFrom,
    @lengthOf(float)
    len leftPad,
    i32 A,
    @lengthOf(i64_)
    options1 @lengthOf(u) `" ++ [28040; 24687; 31867; 22411]%N ++ runes_of_ascii "`,
    @tag(1)
    @tag(7)
    @calculatedFrom(""a	b"")
    match Z9_ as crc {
        [65535, 255, """", 4294967296, 007] : u128,
        42 : int,
        [0] : i8i8,
        """ ++ [128512]%N ++ runes_of_ascii """ : Foo,
        [4294967296] : float,
        255 : Foo,
    },
    options1 `it's`,
    char[] matchKey @calculatedFrom(""1"") `
        `,
    uint16 a1 `it's`,
}")).
Eval vm_compute in ("<<<M66>>>" ++ check (runes_of_ascii "packet
    BodyLength // `tick` ""quote"" 'q'
{
Foo BodyLength , char[] int @calculatedFrom(""// no comment""
    ) ,match pack
as	i8i8
// c
// c
{
""a\""b"" :
// c
//x
rootA ,
    } ,}MetaData pack
    { pack packetx// `tick` ""quote"" 'q'
, i8 f32a , u64
MetaDataX ,  }
options { tag = /// triple
true
    // a // b
    ;
    falsey = true // " ++ [128512]%N ++ runes_of_ascii " emoji
trueish
    = ""1"" ; T
    // 50% %s
    = 7 Z9_=  '0' // `tick` ""quote"" 'q'
;
    }
options { leftPad =true ;
options1 = float64 Header = ' ' } // " ++ [27880; 37322]%N)).
Eval vm_compute in ("<<<M3642>>>" ++ check (runes_of_ascii "packet calculatedFrom {
    /// triple
    pack matchKey ``,
    int8 MetaDataX `a\`,
    @lengthOf(crc)
    int16 T,
    zchar[1] Logon @lengthOf(T) `line1
        line2`,
    @rightPad()
    Packet `u8 x,`,
}

packet pack {
}

packet Z9_ {
    Pad @lengthOf(_x) `say ""hi""`,
    @lengthOf(matchKey)
    @calculatedFrom(""" ++ [128512]%N ++ runes_of_ascii """)
    f32 matchKey @calculatedFrom(""{,}"") `// not a comment`,
}

options {
    u = char[65535];
    rootA = 3
    leftPad = ' ';
    repeatCount = '\x00';
}")).
Eval vm_compute in ("<<<M4406>>>" ++ check (runes_of_ascii "  // " ++ [27880; 37322]%N ++ runes_of_ascii "
    root packet u8x

    { @rightPad

(
'0') 
    // a // b
	// `tick` ""quote"" 'q'
  repeat char[] Z9_ 	 // c
	,
falsey

string_	`{ , }`// @lengthOf(
	, match  rootA
as x_y_z
    { """ ++ [233]%N ++ runes_of_ascii "t" ++ [233]%N ++ runes_of_ascii """: charz ,
	""" ++ [28040; 24687]%N ++ runes_of_ascii """:
    len

    0 :
    As
    ,
    42  // trailing space 
	:
// 50% %s

	// c
	  packetx , }

,

    }packet int{
repeat

uint32

body	, @calculatedFrom(
	""abc""  )//
	  @lengthOf(roots  ) 
@lengthOf(
	u
    )
char[] Packet`it's`
	,
}")).
Eval vm_compute in ("<<<M3449>>>" ++ check (runes_of_ascii "  packet	NewOrder
    {
u32
    qty

    ,
}	packet
    Cancel{

    u64 id
    ,
    }  packet
	Business {

u8 Kind
	,match Kind as

    Detail
{
	1 : NewOrder ,	2 
:
    Cancel ,	} 
, 
}  packet
TcpFrame	{ 
u8 T ,
match
    T  as Body {

    1
: Business
, }
, }  packet

UdpFrame
    {
u8 U ,
    match 
U 
as

Body {

    1 
:Business ,
} , Business
extra
    ,}

root
    packet 
Wire { TcpFrame 
,

UdpFrame ,

    }
")).
Eval vm_compute in ("<<<M3886>>>" ++ check (runes_of_ascii "

  MetaData	Z9_	{//
    char[] u128 	 /// triple
		`" ++ [28040; 24687; 31867; 22411]%N ++ runes_of_ascii "` // `tick` ""quote"" 'q'
,
    float64
    BodyLength

,
roots
	MetaDataX
`
`
,	packetx

    falsey
    ,  
      // trailing space 
	// packet A { u8 x, }
		i16

body 	 // `tick` ""quote"" 'q'
    ,	f64
	i64_
    ,  }
	options

{
u8x =
    ""x y""
	;
    packetx

    =255  ; f32a= ""it's""
    }
	packet
    u128
{
T//	t
	@calculatedFrom(""a\\"" )
	,}
")).
Eval vm_compute in ("<<<M946>>>" ++ check (runes_of_ascii "packet asx
{
@calculatedFrom(
""" ++ [28040; 24687]%N ++ runes_of_ascii """ )
    u8 Packet @lengthOf(u128
)/// triple
,i64	lengthOf @calculatedFrom( ""it's"" )
,
@leftPad // packet A { u8 x, }
( ) Foo
    @lengthOf( msg_type ) ,
@lengthOf(
leftPad // c
)tag`" ++ [233]%N ++ runes_of_ascii "`
    ,
} packet A {zchar[255] len @lengthOf(
matchKey ) ,
@calculatedFrom( ""CRC32"") Foo {	int8 /// triple
asx @lengthOf( metadata ) `u8 x,` ,} , }
MetaData len { // @lengthOf(
} 	 ")).
Eval vm_compute in ("<<<M4291>>>" ++ check (runes_of_ascii "packet Pad {
    @calculatedFrom(""{,}"")
    match charz as asx {
        1 : repeatCount,
        ""{,}"" : falsey,
        10 : rootA,
        0 : crc,
        00 : roots,
    },
    /// triple
    zchar[3] A,
    msg_type `
        `,
    MetaDataX As,
    @lengthOf(Z9_)
    repeat f32 _x,
    @lengthOf(Pad)
    uint32 Logon,
    @tag(4294967296)
    // packet A { u8 x, }
    T ``,
}")).
Eval vm_compute in ("<<<M3740>>>" ++ check (runes_of_ascii "packet charz {
    repeat As {
        rootA @calculatedFrom(""" ++ [28040; 24687]%N ++ runes_of_ascii """) `crlf
        line`,
        zchar[0] u8x,
        int @lengthOf(u8x),
    },
    @rightPad()
    uint32 a1 @calculatedFrom(""x y""),
    // " ++ [128512]%N ++ runes_of_ascii " emoji
    // " ++ [128512]%N ++ runes_of_ascii " emoji
}

packet Packet {
    @rightPad('0')
    repeat matchKey `it's`,
}

root packet Packet {
    u32 f32a @calculatedFrom(""a\\"") `u8 x,`,
}")).
Eval vm_compute in ("<<<M893>>>" ++ check (runes_of_ascii "packet A
    // " ++ [128512]%N ++ runes_of_ascii " emoji
    { @rightPad
(' ') uint32 o @calculatedFrom(
    """" ),
    } // a // b
packet
matchKey // `tick` ""quote"" 'q'
{ repeat chars
    ,	string chars `crlf
line`
//x
// " ++ [128512]%N ++ runes_of_ascii " emoji
, string
    x_y_z ,
A // packet A { u8 x, }
roots , @lengthOf( body )
    repeat zchar[  10
] x ,
    }options{
pack//
=
    ""abc""
    } // @lengthOf(")).
Eval vm_compute in ("<<<M1320>>>" ++ check (runes_of_ascii "  packet T
{ @tag( 42) match MetaDataX
as repeatCount { [42 ,00 , """"
,
""1"" , 00 ] :
    Z9_ , 0: packetx
    ,
    3 :
    float , 42 :  u8x
, ""1"": i8i8
} // " ++ [128512]%N ++ runes_of_ascii " emoji
, repeat options1 `" ++ [233]%N ++ runes_of_ascii "`,
    @lengthOf( int
    ) chars{
msg_type
,} , }	options
{
    _x = // @lengthOf(
""// no comment""
    }
    // " ++ [128512]%N ++ runes_of_ascii " emoji
    packet
    int { }

")).
Eval vm_compute in ("<<<M1127>>>" ++ check (runes_of_ascii "packet repeatCount{ @tag( 7	)@lengthOf(crc
)@lengthOf(
    u
)// trailing space 
repeat i64_ matchKey
,
match
    pack
    as _x{ // " ++ [128512]%N ++ runes_of_ascii " emoji
""a\\"":
x_y_z , """ ++ [233]%N ++ runes_of_ascii "t" ++ [233]%N ++ runes_of_ascii """
:	packetx , },  @calculatedFrom( ""a\""b"" )
    char[]
    // packet A { u8 x, }
    tag , repeat
//
// " ++ [128512]%N ++ runes_of_ascii " emoji
crc f32a , repeat	chars metadata `say ""hi""` , }
")).
Eval vm_compute in ("<<<M1149>>>" ++ check (runes_of_ascii "packet f32a{  @tag( 0 )
// trailing space 
// " ++ [128512]%N ++ runes_of_ascii " emoji
Header
//	t
// 50% %s
{ repeat asx `{ , }` ,repeat
    BodyLength , zchar[
    255 ] crc @calculatedFrom( ""packet"" //	t
) ,  repeat char[] i8i8 `
` ,
} , @rightPad (
    '0' ) string Foo`{ , }`
, // packet A { u8 x, }
} packet Z9_	{ char
    i64_
    , }")).
Eval vm_compute in ("<<<M186>>>" ++ check (runes_of_ascii "root packet len { repeat
zchar[
    4294967296 // trailing space 
] f32a , //
x_y_z @lengthOf( trueish
) // trailing space 
`two words` ,
    //
    @rightPad ( ) @calculatedFrom( ""\" ++ [233]%N ++ runes_of_ascii """ // c
)string
chars	`say ""hi""` ,@rightPad( ' ') uint8 options1@calculatedFrom(
""1""
    )
`say ""hi""` ,}
")).
Eval vm_compute in ("<<<M1398>>>" ++ check (runes_of_ascii "packet falsey{	match x_y_z as Z9_ { ""CRC32"":
metadata ,	""CRC32""
    :u
,
    10	: Logon, ""it's"":repeatCount 7
: options1
    ,
    }	, @calculatedFrom(  ""a\\"" )zchar[
    0	] zchar
    @calculatedFrom(
    ""a\\""
)`say ""hi""`
, } MetaData matchKey { u32 // 50% %s
matchKey`doc`
, }")).
Eval vm_compute in ("<<<M499>>>" ++ check (runes_of_ascii "packet asx { @tag( //x
00) _x	{	repeat rootA
    , } , }packet u{@calculatedFrom( ""a\""b""
)u8
    roots
`" ++ [233]%N ++ runes_of_ascii "`, tag{repeat
    // " ++ [27880; 37322]%N ++ runes_of_ascii "
    asx , // c
}
, @tag(	255 ) options1
    { len	{
// packet A { u8 x, }
//
Logon ,repeat leftPad ,	}
    // packet A { u8 x, }
    ,} , } 	 ")).
Eval vm_compute in ("<<<M1647>>>" ++ check (runes_of_ascii "// 50% %s
packet	a1
    { zchar[
// a // b
// 50% %s
007]
T `it's`
    ,@rightPad
    // a // b
    (
'\x00')
    o repeatCount , }  packet Logon {  }packet	Logon //x
{ repeat // " ++ [128512]%N ++ runes_of_ascii " emoji
uint16 u128 u128
    //
    `a\`,
falsey
@calculatedFrom(""packet"" ) ,
    } 	 ")).
Eval vm_compute in ("<<<M1597>>>" ++ check (runes_of_ascii "// 50% %s
packet	a1
    { zchar[
// a // b
// 50% %s
007]
T `it's`
    ,@rightPad
    // a // b
    (
'\x00')
    o repeatCount , } }  packet Logon {  }packet	Logon //x
{ repeat // " ++ [128512]%N ++ runes_of_ascii " emoji
uint16 u128
    //
    `a\`,
falsey
@calculatedFrom(""packet"" ) ,
    } 	 ")).
Eval vm_compute in ("<<<M1538>>>" ++ check (runes_of_ascii "// 50% %s
packet	a1
    { zchar[
// a // b
// 50% %s
]007
T `it's`
    ,@rightPad
    // a // b
    (
'\x00')
    o repeatCount , }  packet Logon {  }packet	Logon //x
{ repeat // " ++ [128512]%N ++ runes_of_ascii " emoji
uint16 u128
    //
    `a\`,
falsey
@calculatedFrom(""packet"" ) ,
    } 	 ")).
Eval vm_compute in ("<<<M86>>>" ++ check (runes_of_ascii "root
    // @lengthOf(
    packet falsey { // c
repeat// " ++ [128512]%N ++ runes_of_ascii " emoji
zchar[ 42	]  f32a ,
matchKey@lengthOf( // packet A { u8 x, }
x ) , // `tick` ""quote"" 'q'
@calculatedFrom(""{,}""
) @leftPad
('\x00' ) //	t
repeat	f32a , @rightPad ( '\x00'
) T @lengthOf(	o ),
    }")).
Eval vm_compute in ("<<<M85>>>" ++ check (runes_of_ascii "packet As {zchar[ 42
    ] float @calculatedFrom( ""a\""b"" )
    //	t
    `{ , }` , // 50% %s
@tag(
    42 ) @rightPad ('0' )	@calculatedFrom( ""a\""b"") repeat int32 Header ,float @lengthOf(falsey  ) , @leftPad
    ( ) uint32
    options1
@lengthOf(
Pad)`a\` , }")).
Eval vm_compute in ("<<<M1674>>>" ++ check (runes_of_ascii "// 50% %s
packet	a1
    { zchar[
// a // b
// 50% %s
007]
T `it's`
    ,@rightPad
    // a // b
    (
'\x00')
    o repeatCount , }  packet Logon {  }packet	Logon //x
{ repeat // " ++ [128512]%N ++ runes_of_ascii " emoji
uint16 u128
    //
    `a\`,
falsey
@calculatedFrom([ ) ,
    } 	 ")).
Eval vm_compute in ("<<<M3722>>>" ++ check (runes_of_ascii "
packet

falsey {
	} 
MetaData

Logon 
    //
	{ }
    packet //	t
	  x_y_z
	{ } 
packet

    repeatCount { 
lengthOf @calculatedFrom(

    """ ++ [28040; 24687]%N ++ runes_of_ascii """ ) `u8 x,`
    ,  }options{
Z9_= false  ;
    Foo 
= float64
;

} 
      // packet A { u8 x, }
")).
Eval vm_compute in ("<<<M1265>>>" ++ check (runes_of_ascii "
MetaData metadata {u32 lengthOf
    , }
    root packet u // `tick` ""quote"" 'q'
{ Foo @lengthOf(body
) ,  @lengthOf( metadata ) match i64_
as	msg_type
{
3 : len 4294967296 :tag ,42 :
Header , [ ""packet"" ]
    : stringy
,
10	: a1, }, }")).
Eval vm_compute in ("<<<M344>>>" ++ check (runes_of_ascii "packet tag
{ }root packet a1
{ }
    MetaData pack { Packet Z9_ `` ,leftPad trueish , char[] _x // 50% %s
`
` , packetx Packet `it's`,  tag // " ++ [27880; 37322]%N ++ runes_of_ascii "
msg_type `" ++ [233]%N ++ runes_of_ascii "`
    , char[3 //x
]
    // trailing space 
    i64_`crlf
line`, }
")).
Eval vm_compute in ("<<<M4027>>>" ++ check (runes_of_ascii "
packet

body{ repeat  char[ 
0123456789

    ] u128

    `doc`

, }options
{	chars
= 7
asx	= 
""abc""
	T
=char ;
	//	t
  // trailing space 
	  a1// `tick` ""quote"" 'q'
    =
    int8

    tag

    = """ ++ [128512]%N ++ runes_of_ascii """
;

}
")).
Eval vm_compute in ("<<<M710>>>" ++ check (runes_of_ascii "// a // b
options{ Pad = ""x y"" ; As =  7 x_y_z
= '\x00'
float = '\x00';i8i8= 1 } packet
packetx {
    @rightPad//	t
(
'\x00' )
repeat
char[]  zchar , }root
packet int { @lengthOf( packetx ) repeat A , } //	t")).
Eval vm_compute in ("<<<M4048>>>" ++ check (runes_of_ascii "// 50% %s
packet a1 {
    zchar[007] T `it's`,
    @rightPad('\x00')
    o repeatCount,
}

packet Logon {
}

packet Logon {
    // " ++ [128512]%N ++ runes_of_ascii " emoji
    uint16 u128 `a\`,
    falsey @calculatedFrom(""packet""),
}")).
Eval vm_compute in ("<<<M1044>>>" ++ check (runes_of_ascii "options {
string_= ' ' Header
=
    // c
    i8
;msg_type =
zchar[ 00// trailing space 
]
; float = true string_ = '\x00' ;
}
    MetaData zchar //x
{ zchar chars ,
} // `tick` ""quote"" 'q'")).
Eval vm_compute in ("<<<M223>>>" ++ check (runes_of_ascii "
packet
    u128{
    // " ++ [128512]%N ++ runes_of_ascii " emoji
    a1	T
//x
//
`u8 x,` , repeat packetx { repeat zchar[ 255
    ] _x,
f32a@lengthOf( stringy ) ``, }
    , stringy ,asx @lengthOf( u128 )
, }

")).
Eval vm_compute in ("<<<M3758>>>" ++ check (runes_of_ascii "// packet A { u8 x, }
	packet
	u128{ }
    options { Z9_  // a // b
	= u32 }options
    { }
    MetaData  a1

    {
char[

42

]
roots
    `" ++ [28040; 24687; 31867; 22411]%N ++ runes_of_ascii "` , 
} 
  // " ++ [128512]%N ++ runes_of_ascii " emoji
 
")).
Eval vm_compute in ("<<<M1291>>>" ++ check (runes_of_ascii "packet falsey {repeat
    matchKey ,} options	{
    As = 3// @lengthOf(
; // " ++ [27880; 37322]%N ++ runes_of_ascii "
}
    root packet
    x { @tag(65535  )	repeatCount a1// packet A { u8 x, }
,
    }
")).
Eval vm_compute in ("<<<M1630>>>" ++ check (runes_of_ascii "// 50% %s
packet	a1
    { zchar[
// a // b
// 50% %s
007]
T `it's`
    ,@rightPad
    // a // b
    (
'\x00')
    o repeatCount , }  packet Logon {  }packet")).
Eval vm_compute in ("<<<M2138>>>" ++ check (runes_of_ascii "MetaData BodyLength
{ int8 Foo
, string
    MetaDataX , float zchar ,pack options1
,asx string_, @lengthOf(
packet u8x {Foo@lengthOf(charz )
`" ++ [28040; 24687; 31867; 22411]%N ++ runes_of_ascii "`,  }
")).
Eval vm_compute in ("<<<M1209>>>" ++ check (runes_of_ascii "
packet MetaDataX
{u16 options1 ,repeat
    asx
,
u
    a1`say ""hi""`
,@calculatedFrom(
    ""// no comment"" )
f64
    rootA `it's`  , }
// 50% %s
")).
Eval vm_compute in ("<<<M2181>>>" ++ check (runes_of_ascii "MetaData BodyLength
{ int8 Foo
, string
    MetaDataX , float zchar ,pack options1
,asx string_, }
packet u8x {Foo@lengthOf(charz )
`" ++ [28040; 24687; 31867; 22411]%N ++ runes_of_ascii "`, ,  }
")).
Eval vm_compute in ("<<<M4341>>>" ++ check (runes_of_ascii "MetaData Header {
    Header u ``,
    char[4294967296] u128,
    float32 falsey,
    char[10] roots `tab	here`,
    int64 calculatedFrom `" ++ [233]%N ++ runes_of_ascii "`,
}")).
Eval vm_compute in ("<<<M2177>>>" ++ check (runes_of_ascii "MetaData BodyLength
{ int8 Foo
, string
    MetaDataX , float zchar ,pack options1
,asx string_, }
packet u8x {Foo@lengthOf(charz )
,`" ++ [28040; 24687; 31867; 22411]%N ++ runes_of_ascii "`  }
")).
Eval vm_compute in ("<<<M1007>>>" ++ check (runes_of_ascii "root	packet MetaDataX{@calculatedFrom( ""CRC32"" )	@calculatedFrom(	"""" ) int64 Pad //
@lengthOf(
u128 )
`" ++ [28040; 24687; 31867; 22411]%N ++ runes_of_ascii "`
    // trailing space 
    , }")).
Eval vm_compute in ("<<<M2249>>>" ++ check (runes_of_ascii "options
    {
x_y_z// " ++ [27880; 37322]%N ++ runes_of_ascii "
= 10 ; }
packet body body {
    @calculatedFrom(
// trailing space 
// " ++ [27880; 37322]%N ++ runes_of_ascii "
""1""
)	match T as Foo
    {
255 :T , }
,}")).
Eval vm_compute in ("<<<M836>>>" ++ check (runes_of_ascii "  packet falsey
{zchar[  1 ]a1@calculatedFrom(//
""a\\"") ,
u8x _x , float64 rootA, Foo{ match stringy as calculatedFrom{ 3 :
o ,}, } ,  }")).
Eval vm_compute in ("<<<M2163>>>" ++ check (runes_of_ascii "MetaData BodyLength
{ int8 Foo
, string
    MetaDataX , float zchar ,pack options1
,asx string_, }
packet u8x {Foo as charz )
`" ++ [28040; 24687; 31867; 22411]%N ++ runes_of_ascii "`,  }
")).
Eval vm_compute in ("<<<M2040>>>" ++ check (runes_of_ascii "
packet leftPad {
@leftPad( '0')
u32
i<64_ `100% of %d` ,repeat// 50% %s
i8 chars
    ,
} MetaData
    f32a
{ // packet A { u8 x, }
}")).
Eval vm_compute in ("<<<M1978>>>" ++ check (runes_of_ascii "
packet leftPad {
@leftPad( '0')
u32
i64_ `100% of %d` repeat,// 50% %s
i8 chars
    ,
} MetaData
    f32a
{ // packet A { u8 x, }
}")).
Eval vm_compute in ("<<<M2295>>>" ++ check (runes_of_ascii "options
    {
x_y_z// " ++ [27880; 37322]%N ++ runes_of_ascii "
= 10 ; }
packet body {
    @calculatedFrom(
// trailing space 
// " ++ [27880; 37322]%N ++ runes_of_ascii "
""1""
)	match T as Foo
    255
{ :T , }
,}")).
Eval vm_compute in ("<<<M2253>>>" ++ check (runes_of_ascii "options
    {
x_y_z// " ++ [27880; 37322]%N ++ runes_of_ascii "
= 10 ; }
packet body 
    @calculatedFrom(
// trailing space 
// " ++ [27880; 37322]%N ++ runes_of_ascii "
""1""
)	match T as Foo
    {
255 :T , }
,}")).
Eval vm_compute in ("<<<M2288>>>" ++ check (runes_of_ascii "options
    {
x_y_z// " ++ [27880; 37322]%N ++ runes_of_ascii "
= 10 ; }
packet body {
    @calculatedFrom(
// trailing space 
// " ++ [27880; 37322]%N ++ runes_of_ascii "
""1""
)	match T as 
    {
255 :T , }
,}")).
Eval vm_compute in ("<<<M534>>>" ++ check (runes_of_ascii "
root  packet msg_type { packetx // " ++ [128512]%N ++ runes_of_ascii " emoji
, } root packet u8x { @calculatedFrom(
    ""CRC32""  ) repeat u128{ u32
asx, } , }

")).
Eval vm_compute in ("<<<M2407>>>" ++ check (runes_of_ascii "MetaData
    calculatedFrom
{ zchar[  10 ]
    As`tab	here`,
    }// trailing space 
options  { roots ='\x00' ;  packet A
{ }
")).
Eval vm_compute in ("<<<M3032>>>" ++ check (runes_of_ascii "packet A {
    u16 len @lengthOf(body) `a
    b
  c`,
    u32 crc @calculatedFrom(""CRC32"") `a
    b
  c`,
    string body,
}")).
Eval vm_compute in ("<<<M1843>>>" ++ check (runes_of_ascii "packet o {
    roots roots `it's`
// trailing space 
//x
, char[ 42
    ]  A, // " ++ [27880; 37322]%N ++ runes_of_ascii "
f64
repeatCount
    `crlf
line`
,}")).
Eval vm_compute in ("<<<M1926>>>" ++ check (runes_of_ascii "packet " ++ [252]%N ++ runes_of_ascii "ber {
    roots `it's`
// trailing space 
//x
, char[ 42
    ]  A, // " ++ [27880; 37322]%N ++ runes_of_ascii "
f64
repeatCount
    `crlf
line`
,}")).
Eval vm_compute in ("<<<M846>>>" ++ check (runes_of_ascii "root packet
stringy
// c
// packet A { u8 x, }
{ } packet o// a // b
{ } options { //	t
T =
    char[] } // " ++ [128512]%N ++ runes_of_ascii " emoji")).
Eval vm_compute in ("<<<M1889>>>" ++ check (runes_of_ascii "packet o {
    roots `it's`
// trailing space 
//x
, char[ 42
    ]  A, // " ++ [27880; 37322]%N ++ runes_of_ascii "
f64
`crlf
line`
    repeatCount
,}")).
Eval vm_compute in ("<<<M95>>>" ++ check (runes_of_ascii "packet charz { lengthOf { roots
{
char[ 4294967296 ] rootA ``
,} ,repeat u64 A  ``
    , repeat  T
, }  , }
")).
Eval vm_compute in ("<<<M3010>>>" ++ check (runes_of_ascii "packet A {
  match k as n {
    [""a"", ""bb"", 007, ""d"", ""e"", 66, ""g"", ""h"", 9, ""j"", ""k"", 12] : B
    2 : C
  },
}")).
Eval vm_compute in ("<<<M3773>>>" ++ check (runes_of_ascii "options {
    int = ' ';
    T = ""`tick`"";
    A = 255;
    matchKey = ' ';
    body = zchar[4294967296];
}")).
Eval vm_compute in ("<<<M3388>>>" ++ check (runes_of_ascii "options {
    LittleEndian = true;
}
root packet P {
    u16 a,
    u32 Sum @calculatedFrom(""CRC32""),
}
")).
Eval vm_compute in ("<<<M2984>>>" ++ check (runes_of_ascii "packet A {
  match k as n {
    [""a"", ""bb"", 007, ""d"", ""e"", 66, ""g"", ""h"", 9, ""j""] : B
    2 : C
  },
}")).
Eval vm_compute in ("<<<M4287>>>" ++ check (runes_of_ascii "  packet  x

{ 
} packet repeatCount
	{	charz 
charz

,
} 
// 50% %s
packet
	trueish {

    } ")).
Eval vm_compute in ("<<<M324>>>" ++ check (runes_of_ascii "
options { i64_
    = 7 chars = true; stringy =
//x
/// triple
'\x00' x_y_z = false	;
}
// " ++ [27880; 37322]%N ++ runes_of_ascii "
")).
Eval vm_compute in ("<<<M1411>>>" ++ check (runes_of_ascii "root packet SimpleMessage {
    uint16 MsgType `" ++ [28040; 24687; 31867; 22411]%N ++ runes_of_ascii "`,
    string JsonBody `Json" ++ [23383; 31526; 20018; 28040; 24687; 20307]%N ++ runes_of_ascii "`,
}")).
Eval vm_compute in ("<<<M1488>>>" ++ check (runes_of_ascii "packet
T
{ match repeatCount as	calculatedFrom
{ [65535 ]	: As	,
} , ,}
// trailing space 
")).
Eval vm_compute in ("<<<M2937>>>" ++ check (runes_of_ascii "packet A {
  match k as n {
    [""a"", ""bb"", ""c c"", ""d"", ""e"", ""f"", ""g""] : B
    2 : C
  },
}")).
Eval vm_compute in ("<<<M1791>>>" ++ check (runes_of_ascii "options{  lengthOf =//x
i16;
    BodyLength = 0 ; pack
= false;
    A = char[ char[ 3 ] }")).
Eval vm_compute in ("<<<M111>>>" ++ check (runes_of_ascii "// 50% %s
packet leftPad	{ } packet Packet
{
@lengthOf(	chars  ) repeat u128 u8x`" ++ [233]%N ++ runes_of_ascii "`
, }
")).
Eval vm_compute in ("<<<M3709>>>" ++ check (runes_of_ascii "packet A {
    u32 crc @calculatedFrom(""%d%s""),
    @calculatedFrom(""%d%s"")
    u8 y,
}")).
Eval vm_compute in ("<<<M467>>>" ++ check (runes_of_ascii "packet  string_ {@calculatedFrom(
    """ ++ [233]%N ++ runes_of_ascii "t" ++ [233]%N ++ runes_of_ascii """
    )asx
@calculatedFrom( ""CRC32"" ) ,} 	 ")).
Eval vm_compute in ("<<<M1747>>>" ++ check (runes_of_ascii "options{  lengthOf =//x
i16;
    BodyLength 0 = ; pack
= false;
    A = char[ 3 ] }")).
Eval vm_compute in ("<<<M1780>>>" ++ check (runes_of_ascii "options{  lengthOf =//x
i16;
    BodyLength = 0 ; pack
= false;
     = char[ 3 ] }")).
Eval vm_compute in ("<<<M2027>>>" ++ check (runes_of_ascii "
packet leftPad {
@leftPad( '0')
u32
i64_ `100% of %d` ,repeat// 50% %s
i8 char")).
Eval vm_compute in ("<<<M1714>>>" ++ check (runes_of_ascii "u8{  lengthOf =//x
i16;
    BodyLength = 0 ; pack
= false;
    A = char[ 3 ] }")).
Eval vm_compute in ("<<<M3266>>>" ++ check (runes_of_ascii "MetaData Foo { zchar[ 0 ] matchKey , } options {
// c
lengthOf = i32 u = 00 ; }")).
Eval vm_compute in ("<<<M1907>>>" ++ check (runes_of_ascii "packet o {
    roots `it's`
// trailing space 
//x
, char[ 42
    ]  A, // " ++ [27880; 37322]%N)).
Eval vm_compute in ("<<<M1172>>>" ++ check (runes_of_ascii "packet
_x { int8 Packet
, } options{ } options { options1
=
    ' ' ;
}
")).
Eval vm_compute in ("<<<M3605>>>" ++ check (runes_of_ascii "packet A {
    B b `x
    `,
    B `x
    `,
    repeat B bs `x
    `,
}")).
Eval vm_compute in ("<<<M3401>>>" ++ check (runes_of_ascii "

  root
    packet
P {repeat	string	ss ,

    repeat
u16

ns  ,}
")).
Eval vm_compute in ("<<<M931>>>" ++ check (runes_of_ascii "packet
metadata
    { packetx
x `u8 x,`
    , // trailing space 
}")).
Eval vm_compute in ("<<<M53>>>" ++ check (runes_of_ascii "root
packet
len { int16//	t
falsey @lengthOf( _x
)	, } // " ++ [128512]%N ++ runes_of_ascii " emoji")).
Eval vm_compute in ("<<<M2810>>>" ++ check (runes_of_ascii "char f32 char[ , char[ @calculatedFrom( char [ u64 ; u32 , char")).
Eval vm_compute in ("<<<M3289>>>" ++ check (runes_of_ascii "// c
packet u8x { } MetaData crc { char[ 4294967296 ] Foo , }")).
Eval vm_compute in ("<<<M1085>>>" ++ check (runes_of_ascii "// 50% %s
MetaData
    lengthOf {char[ 00
    ] falsey	, }

")).
Eval vm_compute in ("<<<M1076>>>" ++ check (runes_of_ascii "options
{leftPad // trailing space 
=""x y"" // " ++ [27880; 37322]%N ++ runes_of_ascii "
; } 	 ")).
Eval vm_compute in ("<<<M4092>>>" ++ check (runes_of_ascii "packet A

    {

match
k	as	n{ [

1 ]:B 2
	: 
C }, } ")).
Eval vm_compute in ("<<<M2881>>>" ++ check (runes_of_ascii "packet A { Inner { match k as n { [1,22] : B, }, }, }")).
Eval vm_compute in ("<<<M607>>>" ++ check (runes_of_ascii "
packet
    trueish { // packet A { u8 x, }
} //x")).
Eval vm_compute in ("<<<M2743>>>" ++ check (runes_of_ascii "options { [ repeat @lengthOf( char[] i8 , char[")).
Eval vm_compute in ("<<<M4464>>>" ++ check (runes_of_ascii "
root	packet
    A	{ u8

    x	`
x` 
,

}
")).
Eval vm_compute in ("<<<M3652>>>" ++ check (runes_of_ascii "packet A {
    repeat zchar[65535] rootA,
}")).
Eval vm_compute in ("<<<M3992>>>" ++ check (runes_of_ascii "root packet u128 {
    chars `doc`,
}// c")).
Eval vm_compute in ("<<<M3219>>>" ++ check (runes_of_ascii "// c
root packet u128 { chars `doc` , }")).
Eval vm_compute in ("<<<M2820>>>" ++ check ([804; 65533; 65533]%N ++ runes_of_ascii "h/" ++ [65533]%N ++ runes_of_ascii "P" ++ [65533]%N ++ runes_of_ascii "
G'" ++ [11]%N ++ runes_of_ascii "d" ++ [65533]%N ++ runes_of_ascii "g" ++ [65533; 65533; 65533; 65533]%N ++ runes_of_ascii "(" ++ [29]%N ++ runes_of_ascii "0" ++ [65533; 65533]%N ++ runes_of_ascii "O" ++ [65533]%N ++ runes_of_ascii "[Y" ++ [65533; 65533]%N ++ runes_of_ascii "1p" ++ [65533]%N ++ runes_of_ascii "f" ++ [65533; 65533; 14]%N ++ runes_of_ascii "}")).
Eval vm_compute in ("<<<M1036>>>" ++ check (runes_of_ascii "
packet packetx
{ packetx	asx ,  }
")).
Eval vm_compute in ("<<<M938>>>" ++ check (runes_of_ascii "options {/// triple
zchar	= """ ++ [28040; 24687]%N ++ runes_of_ascii """
}")).
Eval vm_compute in ("<<<M2628>>>" ++ check (runes_of_ascii "packet A { @tag(1) @tag(2) u8 x, }")).
Eval vm_compute in ("<<<M2079>>>" ++ check (runes_of_ascii "MetaData BodyLength
{ int8 Foo
,")).
Eval vm_compute in ("<<<M2789>>>" ++ check ([65533]%N ++ runes_of_ascii "a" ++ [65533; 65533]%N ++ runes_of_ascii "(8" ++ [2]%N ++ runes_of_ascii "u" ++ [24; 65533; 65533; 65533]%N ++ runes_of_ascii "%" ++ [65533; 65533]%N ++ runes_of_ascii "d?" ++ [65533; 65533; 27]%N ++ runes_of_ascii "Su_" ++ [65533]%N ++ runes_of_ascii "e" ++ [65533; 65533]%N ++ runes_of_ascii "J" ++ [65533; 65533]%N ++ runes_of_ascii "c")).
Eval vm_compute in ("<<<M3139>>>" ++ check (runes_of_ascii "packet A {
 u8 x `d" ++ [8239]%N ++ runes_of_ascii "`, // c" ++ [8239]%N ++ runes_of_ascii "
}")).
Eval vm_compute in ("<<<M1744>>>" ++ check (runes_of_ascii "options{  lengthOf =//x
i16;")).
Eval vm_compute in ("<<<M2352>>>" ++ check (runes_of_ascii "
Foo {Header //
pack ,	} 	 ")).
Eval vm_compute in ("<<<M3707>>>" ++ check (runes_of_ascii "// trailing space 
	// " ++ [27880; 37322]%N)).
Eval vm_compute in ("<<<M2737>>>" ++ check ([65533]%N ++ runes_of_ascii "U" ++ [65533]%N ++ runes_of_ascii "P" ++ [65533; 65533; 27]%N ++ runes_of_ascii "f" ++ [65533; 65533; 65533; 65533; 65533; 6]%N ++ runes_of_ascii "ka" ++ [65533]%N ++ runes_of_ascii "A" ++ [65533; 65533; 27]%N ++ runes_of_ascii "#" ++ [24]%N ++ runes_of_ascii "0")).
Eval vm_compute in ("<<<M793>>>" ++ check (runes_of_ascii "
packet MetaDataX {
}
")).
Eval vm_compute in ("<<<M3697>>>" ++ check (runes_of_ascii "MetaData u128 {
}//	t")).
Eval vm_compute in ("<<<M2580>>>" ++ check (runes_of_ascii "packet A { x y z, }")).
Eval vm_compute in ("<<<M3092>>>" ++ check (runes_of_ascii "packet A {
}
// c ")).
Eval vm_compute in ("<<<M3173>>>" ++ check (runes_of_ascii "// c" ++ [6158]%N ++ runes_of_ascii "
packet A {
}")).
Eval vm_compute in ("<<<M3130>>>" ++ check (runes_of_ascii "packet A {
}// c" ++ [8233]%N)).
Eval vm_compute in ("<<<M170>>>" ++ check (runes_of_ascii "options
    {	}")).
Eval vm_compute in ("<<<M1310>>>" ++ check (runes_of_ascii "// " ++ [128512]%N ++ runes_of_ascii " emoji

")).
Eval vm_compute in ("<<<M2742>>>" ++ check (runes_of_ascii ",gsV] /8sQa")).
Eval vm_compute in ("<<<M3502>>>" ++ check (runes_of_ascii "

  // c" ++ [133]%N)).
Eval vm_compute in ("<<<M4133>>>" ++ check (runes_of_ascii "// c" ++ [8239]%N ++ runes_of_ascii "
")).
Eval vm_compute in ("<<<M2440>>>" ++ check (runes_of_ascii "char1")).
Eval vm_compute in ("<<<M3146>>>" ++ check (runes_of_ascii "// c" ++ [11]%N)).
Eval vm_compute in ("<<<M29>>>" ++ check (runes_of_ascii " 	 ")).
Eval vm_compute in ("<<<M2687>>>" ++ check (runes_of_ascii """s""")).
Eval vm_compute in ("<<<M2502>>>" ++ check (runes_of_ascii "@")).
