From FP Require Import Lexer Parser ShowPT Digest Formatter.
From Coq Require Import String List NArith.
Import ListNotations.
Open Scope string_scope.
Set Printing Width 100000000.
Set Printing Depth 100000000.
Definition show_fres (r : fres) : string :=
  match r with
  | FOk s => "OK:" ++ sh_escaped s ""
  | FErr s => "ERR:" ++ sh_escaped s ""
  | FPanic p => "PANIC:" ++ p
  end.
Definition check (rs : list rune) : string := digest (show_fres (format_res rs)).
Definition full (rs : list rune) : string := show_fres (format_res rs).
Eval vm_compute in ("<<<M1534>>>" ++ check (runes_of_ascii "// top
options // c0
{ // c1a
  // c1b
StringPrefixLenType // c2
= // c3
u16
    // c4
; ArrayPrefixLenType // c6a
  // c6b
= u8 // c8a
  // c8b
; FixedStringPadFromLeft =
    // c11
true // c12
; FixedStringPadChar // c14
= // c15a
  // c15b
' ' ;
    // c17
}
    // c18
packet
    // c19
Quote // c20a
  // c20b
{ int64
    // c22
OrderId
    // c23
,
    // c24
char[] // c25
Ref
    // c26
, @leftPad ( '0' // c30
) // c31a
  // c31b
char[ // c32
5 ]
    // c34
price // c35
, // c36
} // c37
packet Heartbeat { // c40
zchar[ // c41
3 ] venue // c44a
  // c44b
, string // c46a
  // c46b
Flags // c47a
  // c47b
, // c48
} // c49a
  // c49b
packet // c50
Trade
    // c51
{ repeat
    // c53
InTag787 { // c55a
  // c55b
i32
    // c56
venue // c57
, // c58
char[ // c59
5
    // c60
] sym // c62
,
    // c63
repeat
    // c64
InPx98
    // c65
{ // c66
char[ // c67
11
    // c68
]
    // c69
Qty
    // c70
, // c71
Heartbeat // c72a
  // c72b
, // c73a
  // c73b
char[]
    // c74
price
    // c75
, // c76
u32
    // c77
x
    // c78
, float64
    // c80
count // c81
,
    // c82
repeat Quote
    // c84
,
    // c85
} , zchar[
    // c88
7 ] // c90a
  // c90b
Note
    // c91
, repeat // c93a
  // c93b
char[ // c94a
  // c94b
1 ] // c96a
  // c96b
Tail // c97
,
    // c98
}
    // c99
, // c100
repeat // c101
char[ // c102
2 ] seqNo , // c106
InTail55 { // c108a
  // c108b
repeat
    // c109
Quote // c110
, string // c112a
  // c112b
msgKind
    // c113
,
    // c114
InPx18 // c115a
  // c115b
{ // c116
char[] count // c118
, repeat Quote // c121
, uint16 // c123a
  // c123b
Qty // c124a
  // c124b
, // c125a
  // c125b
} // c126a
  // c126b
, // c127
char[ // c128a
  // c128b
4 // c129a
  // c129b
] // c130
seqNo
    // c131
, // c132
repeat // c133
Heartbeat // c134a
  // c134b
, // c135a
  // c135b
repeat
    // c136
string sym // c138a
  // c138b
,
    // c139
} , // c141
repeat // c142a
  // c142b
Quote , Heartbeat // c145a
  // c145b
,
    // c146
@leftPad
    // c147
( // c148
' ' ) // c150a
  // c150b
char[ // c151
10 ] // c153a
  // c153b
OrderId ,
    // c155
} // c156a
  // c156b
root
    // c157
packet // c158
Fill { // c160a
  // c160b
Heartbeat // c161
, uint32 // c163a
  // c163b
count , // c165
u8 // c166a
  // c166b
OrderId
    // c167
, // c168
match // c169
OrderId as // c171a
  // c171b
Body // c172a
  // c172b
{ 96 // c174a
  // c174b
: Quote // c176a
  // c176b
,
    // c177
195
    // c178
: // c179
Trade , // c181
187 // c182
: // c183
Heartbeat , // c185a
  // c185b
} // c186a
  // c186b
,
    // c187
u32 venue @calculatedFrom( // c190
""CRC32"" ) // c192
, } // c194
")).
Eval vm_compute in ("<<<M320>>>" ++ check (runes_of_ascii "options { lengthOf =
""CRC32"" ; stringy = uint16;  u8x =float32 ; x_y_z
    // c
    =  zchar[ 007]
repeatCount  = ""a\""b"" ;
// c
//	t
}
MetaData trueish { As roots `" ++ [28040; 24687; 31867; 22411]%N ++ runes_of_ascii "`
, char[ 00 ] Packet// c
, } root
packet roots
{ int8 Logon, body@lengthOf( lengthOf
) `
` , @rightPad (	'0' )
    Packet@calculatedFrom(""x y""
)`a\` ,
@lengthOf( T ) match matchKey as _x// trailing space 
{ """ ++ [128512]%N ++ runes_of_ascii """	:
stringy ,
4294967296:  x_y_z ,""\n""
: leftPad[
42 , 42
    , ""it's"" , ""\n"" ,""// no comment""	] : asx ,} , char[
    10// trailing space 
]BodyLength ,
@leftPad (	'0'
) char[]
    /// triple
    Z9_ `crlf
line`, string falsey
    , int16 // c
asx  @calculatedFrom( ""x y"" ) ,u128 Z9_ `it's` ,
    @rightPad
// " ++ [128512]%N ++ runes_of_ascii " emoji
// @lengthOf(
( '0'
)Packet {
    // " ++ [128512]%N ++ runes_of_ascii " emoji
    int64
    float ,
repeat leftPad{
repeat
Z9_ {
    match T
as lengthOf{ ""`tick`"" :msg_type""1"" : x_y_z , 0 : chars , } ,
    } , repeat trueish
    { zchar[
255 ]
crc	`doc` , char Logon @lengthOf( _x
    // " ++ [128512]%N ++ runes_of_ascii " emoji
    )
,
    //
    a1 `doc`,
//x
//	t
} , match msg_type as zchar { ""it's"" // c
:
/// triple
// packet A { u8 x, }
body
, """ ++ [28040; 24687]%N ++ runes_of_ascii """ : // `tick` ""quote"" 'q'
u,} ,} , } ,
}
packet// `tick` ""quote"" 'q'
As// " ++ [27880; 37322]%N ++ runes_of_ascii "
{
@leftPad (
    // c
    '\x00' ) @tag( 255
    )
    @lengthOf( // `tick` ""quote"" 'q'
o
)zchar[ 42 ] string_ @calculatedFrom(
""a\""b""	)`" ++ [28040; 24687; 31867; 22411]%N ++ runes_of_ascii "`
, char[] repeatCount//	t
@lengthOf(
calculatedFrom) ,metadata @calculatedFrom(
    ""abc""
) `two words`
    ,
// `tick` ""quote"" 'q'
// c
@lengthOf(matchKey ) match
packetx as falsey { 007
: A,""1"" : packetx , //
7 :charz
, [ 65535 ]:stringy 65535
    :a1 [  ""a	b""
, 1] :
    Logon
// a // b
// " ++ [128512]%N ++ runes_of_ascii " emoji
}, }")).
Eval vm_compute in ("<<<M291>>>" ++ check (runes_of_ascii "//	t
root
packet
packetx { @lengthOf( BodyLength )zchar[ // " ++ [27880; 37322]%N ++ runes_of_ascii "
00 ]	uint8x	@lengthOf(
    i8i8)`tab	here` , @lengthOf( x_y_z )@leftPad ( '0'
)
@lengthOf( Header )
f32 pack @calculatedFrom( ""a\\""),
@calculatedFrom(
""`tick`"")
//x
// " ++ [27880; 37322]%N ++ runes_of_ascii "
lengthOf// " ++ [128512]%N ++ runes_of_ascii " emoji
MetaDataX ,@lengthOf( Packet ) lengthOf @calculatedFrom(
""\n"" )
    `doc`
//	t
//	t
, @rightPad ( )	char[	0123456789	] float , @lengthOf(
    options1 )
//x
//	t
@tag(7
    ) @tag(
    007) crc int, chars @calculatedFrom(
""" ++ [233]%N ++ runes_of_ascii "t" ++ [233]%N ++ runes_of_ascii """ )//x
, @calculatedFrom(//x
""CRC32"" )
repeat char[] packetx `two words` , }
packet T { }
packet T {char[10
] u128 ,
    @lengthOf( calculatedFrom  )
    chars
    o
,
@calculatedFrom(""\n"" ) match// @lengthOf(
pack  as Logon  {
    [
""// no comment"" , 255 , 42 , ""CRC32"", ""// no comment"" ] : asx
""it's"" :msg_type	,
    // `tick` ""quote"" 'q'
    0123456789  : //	t
msg_type
    //	t
    ,
255  : //
len
,
}
    , match chars as int
    { [ 00
    , 42,42 ] : x
    4294967296	: i64_, [""a	b""  ,  007// c
, """ ++ [128512]%N ++ runes_of_ascii """ , ""// no comment""
// @lengthOf(
// trailing space 
] :f32a, 42 : packetx }
, /// triple
crc	{a1 `" ++ [233]%N ++ runes_of_ascii "` , } ,@tag(
3 )
    /// triple
    zchar[7 ]  o`
`
, }
    packet roots{u64 i64_ ``,
    }")).
Eval vm_compute in ("<<<M1530>>>" ++ check (runes_of_ascii "options {
    LittleEndian = true;
    StringPrefixLenType = u16;
    ArrayPrefixLenType = u8;
    FixedStringPadChar = '0';
}
packet Logout {
    repeat i16 f1,
    string Ref,
    @rightPad('\x00') char[9] Tail,
    repeat char[6] Flags,
    repeat char[3] Acct,
}
packet Party {
    char[2] f1,
    u8 Side2,
    @leftPad(' ') char[1] venue,
}
packet Order {
    repeat i64 Ref,
    InPx62 {
        i32 OrderId,
    },
    InNote53 {
        InClordid80 {
            char[] Acct,
            u32 Px,
            repeat Party,
        },
        InPrice12 {
            u8 pad0,
        },
        repeat Logout,
        InFlags23 {
            repeat string seqNo,
            string sym,
            int8 Flags,
            zchar[5] lastPx,
            zchar[6] Px,
        },
        char[10] Acct,
        InPx18 {
            zchar[2] count,
            Party,
        },
    },
    char[5] Side2,
    char[1] Acct,
}
root packet Ack {
    u32 Tail,
    repeat char[4] msgKind,
    repeat Logout,
}
")).
Eval vm_compute in ("<<<M1694>>>" ++ check (runes_of_ascii "packet leftPad {
    @tag(3)
    @tag(255)
    @tag(7)
    Packet @calculatedFrom(""\n""),
    @calculatedFrom(""abc"")
    repeat f32a trueish `// not a comment`,
    match calculatedFrom as stringy {
        [1, 65535] : u,
    },
    zchar[10] o ``,
    @lengthOf(calculatedFrom)
    char x_y_z,
    char[] BodyLength,
    stringy o `line1
    line2`,
    @tag(00)
    options1 {
        // @lengthOf(
        float32 asx @lengthOf(roots),
        // " ++ [128512]%N ++ runes_of_ascii " emoji
        // `tick` ""quote"" 'q'
        match Z9_ as int {
            ""{,}"" : A,
            [""a\""b"", ""it's""] : repeatCount,
            1 : float,
            ""a\\"" : zchar,
            // `tick` ""quote"" 'q'
            [
                0, ""abc"", 0, 00, 0,
                """ ++ [128512]%N ++ runes_of_ascii """
            ] : T,
            0123456789 : As,
        },
    },
    @lengthOf(msg_type)
    i8 matchKey,
    repeat len len `a\`,
}")).
Eval vm_compute in ("<<<M344>>>" ++ check (runes_of_ascii "// " ++ [27880; 37322]%N ++ runes_of_ascii "
root packet _x {
//	t
// packet A { u8 x, }
@rightPad (
) zchar[
    007]
    Logon @calculatedFrom(""x y""),zchar[
7]
string_ @lengthOf(
Packet /// triple
)
`two words`,
@tag( 007 )	@calculatedFrom(
    ""x y"" )repeat
calculatedFrom { // packet A { u8 x, }
zchar @calculatedFrom( """ ++ [233]%N ++ runes_of_ascii "t" ++ [233]%N ++ runes_of_ascii """
    // `tick` ""quote"" 'q'
    )	,
int32 leftPad , } ,repeat body chars ,	@lengthOf(
options1
    ) repeat
    //	t
    char[
255] Foo  ,
// c
//
repeat MetaDataX
    { pack, } ,char[
7 ] repeatCount @calculatedFrom(""it's""  ) , }
    // trailing space 
    packet Packet {
    Header
// " ++ [27880; 37322]%N ++ runes_of_ascii "
// @lengthOf(
@lengthOf( uint8x ) `two words` ,} options//	t
{  } root
    // " ++ [27880; 37322]%N ++ runes_of_ascii "
    packet msg_type
{int32 //x
body`" ++ [28040; 24687; 31867; 22411]%N ++ runes_of_ascii "`,
    }
")).
Eval vm_compute in ("<<<M236>>>" ++ check (runes_of_ascii "MetaData As {  } packet float { // @lengthOf(
options1  Pad `// not a comment` ,
uint16 As `line1
line2` ,float32 stringy@calculatedFrom(
""`tick`""
) `" ++ [233]%N ++ runes_of_ascii "` ,
repeat Packet { zchar[ 3 ] T
    @calculatedFrom(
""x y""),  char[ 7 ]  asx @lengthOf( tag) ,
    //
    int64 charz `u8 x,`
, } , uint32
len , @tag(	0123456789
) Foo packetx `// not a comment`,char[] trueish @lengthOf(
rootA
    ) , @leftPad (//
'0'  ) repeat  x_y_z `{ , }` , i64 u128 ,
    }
    packet msg_type//x
{
char[]
i8i8
    `doc` //	t
,string trueish @calculatedFrom(
    """" ), char[ 7 ]/// triple
string_// packet A { u8 x, }
`say ""hi""`
/// triple
//
,	}
")).
Eval vm_compute in ("<<<M1794>>>" ++ check (runes_of_ascii "
root  packet // a // b

	matchKey{ @calculatedFrom(

""// no comment"" ) 
match
matchKey
    as
crc

{65535	:	metadata	,
255
:
options1 
,	""{,}"" 
:
asx
,[

""\" ++ [233]%N ++ runes_of_ascii """, 00  ,""""  ,	/// triple
  ""{,}"",
    ""a\\""
	] :	msg_type
,
007
	:f32a 
, //x
  }  , @lengthOf(

    repeatCount 
)

@leftPad 
(
    )
@calculatedFrom(

    ""a\\""
	)

float

,@tag(42
    ) 
u8 
crc
	@calculatedFrom(  //
  """ ++ [28040; 24687]%N ++ runes_of_ascii """  // " ++ [27880; 37322]%N ++ runes_of_ascii "
		)
,
uint64

    BodyLength	@lengthOf( 
f32a )
`" ++ [28040; 24687; 31867; 22411]%N ++ runes_of_ascii "`

, 
tag a1	,
	tag	@calculatedFrom( ""`tick`""
	)
    , }// trailing space 
")).
Eval vm_compute in ("<<<M1548>>>" ++ check (runes_of_ascii "

  options
    {LittleEndian=
true; 
StringPrefixLenType
=u16

; ArrayPrefixLenType =

u64; 
}  packet Fill 
{

    } packet Logon  { repeat
char[ 3 ] 
Tail	,
    zchar[
6 
]  venue
    ,
	repeat
	string

Side2

,
	} root packet Cancel 
{	char[]  Flags,

char[]
	OrderId 
, zchar[6

]
	msgKind , Fill
	,

char[]
    Acct  ,
	u8

    f1 ,	match
f1
	as
	Body
	{

    188 
:Fill
,	5

:  Logon
    ,
	} ,
	u32
    clOrdID
	@calculatedFrom(
    ""CRC32"" 
) ,}")).
Eval vm_compute in ("<<<M1974>>>" ++ check (runes_of_ascii "MetaData Header {
    int64 zchar `u8 x,`,
    Header u8x,
    zchar[65535] u,
    A options1 `it's`,
    zchar[007] MetaDataX,
    zchar[0] As,
}

MetaData Logon {
    char[] rootA,
}

packet int {
    f32 falsey,
}

MetaData float {
    len leftPad,
    A Foo `tab	here`,
    char[65535] T `line1
        line2`,
}

options {
    // " ++ [128512]%N ++ runes_of_ascii " emoji
    // " ++ [27880; 37322]%N ++ runes_of_ascii "
    float = '0';
    float = true;
    Foo = ""\n""
}")).
Eval vm_compute in ("<<<M245>>>" ++ check (runes_of_ascii "root packet  roots
{ falsey@calculatedFrom(""a\""b"" ) ,
    @lengthOf(
A )Header @calculatedFrom( ""packet""
) `u8 x,` ,
@leftPad  (' '
) @lengthOf(
    calculatedFrom)
// `tick` ""quote"" 'q'
// packet A { u8 x, }
match rootA as x_y_z {42	:
    //	t
    len, }, } options //x
{ chars =// c
4294967296 ;
    BodyLength
    = 0123456789 roots
    = ""a\""b"";
} //")).
Eval vm_compute in ("<<<M1796>>>" ++ check (runes_of_ascii "
options

{ LittleEndian
	=	true
; StringPrefixLenType

=
u8

    ;  ArrayPrefixLenType
    =
	u8	; } packet	Ack

{
    }root 
packet
Quote {
Ack
, 
InSym94  { repeat

Ack

    ,
	}  ,u16

    msgKind
,
	u16 OrderId@lengthOf( Body
	)

    ,

match
msgKind
as 
Body {[ 110,48 
]
: 
Ack
, } ,

    } ")).
Eval vm_compute in ("<<<M160>>>" ++ check (runes_of_ascii "packet matchKey
{ // packet A { u8 x, }
zchar[ 65535
//	t
// packet A { u8 x, }
] Foo @calculatedFrom(
// " ++ [128512]%N ++ runes_of_ascii " emoji
// a // b
""\n"" ) ``, @tag(10 ) repeat
x Logon`
` , @calculatedFrom(
    ""it's"" ) @rightPad (
) zchar[ 255 ]	lengthOf
    // @lengthOf(
    , repeat uint8x`" ++ [233]%N ++ runes_of_ascii "`
,
    }
")).
Eval vm_compute in ("<<<M501>>>" ++ check (runes_of_ascii "root packet tag { packet  packet MetaDataX{char[007	]
// c
/// triple
asx  @calculatedFrom( ""a\""b""
) `say ""hi""`// " ++ [27880; 37322]%N ++ runes_of_ascii "
,  @tag(4294967296 )
    char[1//x
] packetx @calculatedFrom(""a\""b""
    ) ,
// " ++ [128512]%N ++ runes_of_ascii " emoji
// a // b
@calculatedFrom(""" ++ [233]%N ++ runes_of_ascii "t" ++ [233]%N ++ runes_of_ascii """  ) repeat pack // " ++ [27880; 37322]%N ++ runes_of_ascii "
,
    } // c")).
Eval vm_compute in ("<<<M649>>>" ++ check (runes_of_ascii "root packet tag { }  packet MetaDataX{char[007	]
// c
/// triple
asx  @calculatedFrom( ""a\""b""
) `say ""hi""`// " ++ [27880; 37322]%N ++ runes_of_ascii "
,  @tag(4294967296 )
    char[1//x
] packetx @calculatedFrom(""a\""b""
    ) ,
// " ++ [128512]%N ++ runes_of_ascii " emoji
// a // b
@calculatedFrom(""" ++ [233]%N ++ runes_of_ascii "t" ++ [233]%N ++ runes_of_ascii """  ) repeat pack // " ++ [27880; 37322]%N ++ runes_of_ascii "
,
    } } // c")).
Eval vm_compute in ("<<<M491>>>" ++ check (runes_of_ascii "root packet i16 { }  packet MetaDataX{char[007	]
// c
/// triple
asx  @calculatedFrom( ""a\""b""
) `say ""hi""`// " ++ [27880; 37322]%N ++ runes_of_ascii "
,  @tag(4294967296 )
    char[1//x
] packetx @calculatedFrom(""a\""b""
    ) ,
// " ++ [128512]%N ++ runes_of_ascii " emoji
// a // b
@calculatedFrom(""" ++ [233]%N ++ runes_of_ascii "t" ++ [233]%N ++ runes_of_ascii """  ) repeat pack // " ++ [27880; 37322]%N ++ runes_of_ascii "
,
    } // c")).
Eval vm_compute in ("<<<M493>>>" ++ check (runes_of_ascii "root packet tag  }  packet MetaDataX{char[007	]
// c
/// triple
asx  @calculatedFrom( ""a\""b""
) `say ""hi""`// " ++ [27880; 37322]%N ++ runes_of_ascii "
,  @tag(4294967296 )
    char[1//x
] packetx @calculatedFrom(""a\""b""
    ) ,
// " ++ [128512]%N ++ runes_of_ascii " emoji
// a // b
@calculatedFrom(""" ++ [233]%N ++ runes_of_ascii "t" ++ [233]%N ++ runes_of_ascii """  ) repeat pack // " ++ [27880; 37322]%N ++ runes_of_ascii "
,
    } // c")).
Eval vm_compute in ("<<<M638>>>" ++ check (runes_of_ascii "root packet tag { }  packet MetaDataX{char[007	]
// c
/// triple
asx  @calculatedFrom( ""a\""b""
) `say ""hi""`// " ++ [27880; 37322]%N ++ runes_of_ascii "
,  @tag(4294967296 )
    char[1//x
] packetx @calculatedFrom(""a\""b""
    ) ,
// " ++ [128512]%N ++ runes_of_ascii " emoji
// a // b
@calculatedFrom(""" ++ [233]%N ++ runes_of_ascii "t" ++ [233]%N ++ runes_of_ascii """  ) repeat  // " ++ [27880; 37322]%N ++ runes_of_ascii "
,
    } // c")).
Eval vm_compute in ("<<<M538>>>" ++ check (runes_of_ascii "root packet tag { }  packet MetaDataX{char[007	]
// c
/// triple
asx   ""a\""b""
) `say ""hi""`// " ++ [27880; 37322]%N ++ runes_of_ascii "
,  @tag(4294967296 )
    char[1//x
] packetx @calculatedFrom(""a\""b""
    ) ,
// " ++ [128512]%N ++ runes_of_ascii " emoji
// a // b
@calculatedFrom(""" ++ [233]%N ++ runes_of_ascii "t" ++ [233]%N ++ runes_of_ascii """  ) repeat pack // " ++ [27880; 37322]%N ++ runes_of_ascii "
,
    } // c")).
Eval vm_compute in ("<<<M1508>>>" ++ check (runes_of_ascii "options
    {  FixedStringPadChar=	'0'
    ; 
}packet
Q {

zchar[
	4
] z , @rightPad
( '\x00'  ) char[3 ] 
n , char[ 5
] d

    ,  }root 
packet R {
    Q
,
	zchar[ 8
    ] 
top
, repeat zchar[
2

    ] zs,

    }

")).
Eval vm_compute in ("<<<M1936>>>" ++ check (runes_of_ascii "packet A {
    match k as n {
        ""\
                "" : B,
        [""\
                "", 1] : C,
        [
            1, 2, 3, 4, 5,
            ""\
                        ""
        ] : D,
    },
}")).
Eval vm_compute in ("<<<M1671>>>" ++ check (runes_of_ascii "packet u128 {
    u8 a,
}

root packet Msg {
    u8 k,
    u24 {
        u8 Hi,
        u16 Lo,
    },
    repeat i24 {
        u32 q,
    },
    u128,
    u16 float32x,
    string s,
}")).
Eval vm_compute in ("<<<M400>>>" ++ check (runes_of_ascii "packet
    // `tick` ""quote"" 'q'
    crc
// packet A { u8 x, }
//	t
{
u32 u32 a1 ,
    // trailing space 
    roots
charz //
`two words`,	}
    MetaData int {
} /// triple")).
Eval vm_compute in ("<<<M683>>>" ++ check (runes_of_ascii "root packet len // trailing space 
{
// " ++ [27880; 37322]%N ++ runes_of_ascii "
//	t
char[10
] metadata	@lengthOf( o ) `crlf
line`,
    @rightPad
( ' '
) ) string
    Header @calculatedFrom( ""a\\""
    ), }
")).
Eval vm_compute in ("<<<M441>>>" ++ check (runes_of_ascii "packet
    // `tick` ""quote"" 'q'
    crc
// packet A { u8 x, }
//	t
{
u32 a1 ,
    // trailing space 
    roots
charz //
`two words`,	}
    int MetaData {
} /// triple")).
Eval vm_compute in ("<<<M404>>>" ++ check (runes_of_ascii "packet
    // `tick` ""quote"" 'q'
    crc
// packet A { u8 x, }
//	t
{
u32  ,
    // trailing space 
    roots
charz //
`two words`,	}
    MetaData int {
} /// triple")).
Eval vm_compute in ("<<<M1883>>>" ++ check (runes_of_ascii "root  packet matchKey{zchar[
	3

]

    pack
// c
@calculatedFrom(
""a	b""  ) `doc`
    ,  }

    options {  }

    MetaData
A { 
int8
msg_type
	,

    }")).
Eval vm_compute in ("<<<M1707>>>" ++ check (runes_of_ascii "
root	packet // c
      matchKey

    {zchar[ 3
	] pack  @calculatedFrom( ""a	b""
)`doc`
    ,
}
	options
{
	}

MetaData A

{ 
int8 msg_type
    ,}
")).
Eval vm_compute in ("<<<M1689>>>" ++ check (runes_of_ascii "packet A {
    match k as n {
        [
            ""a"", 22, ""c c"", 4, ""e"",
            66, ""g"", 8, ""i""
        ] : B,
        2 : C,
    },
}")).
Eval vm_compute in ("<<<M1954>>>" ++ check (runes_of_ascii "
packet

    o{repeat
	Logon  uint8x

    ,  } 
// c
options

    {asx

    = zchar[ 3
    ]
    stringy  ='\x00'

    }

")).
Eval vm_compute in ("<<<M2073>>>" ++ check (runes_of_ascii "// c
root packet matchKey {
    zchar[3] pack @calculatedFrom(""a	b"") `doc`,
}

options {
}

MetaData A {
    int8 msg_type,
}")).
Eval vm_compute in ("<<<M1239>>>" ++ check (runes_of_ascii "root packet matchKey { zchar[ 3 ] pack @calculatedFrom( // c
""a	b"" ) `doc` , } options { } MetaData A { int8 msg_type , }")).
Eval vm_compute in ("<<<M70>>>" ++ check (runes_of_ascii "
options {  MetaDataX= ""\" ++ [233]%N ++ runes_of_ascii """ }options {
// @lengthOf(
//	t
Logon = ""1""
    x_y_z = 65535  } MetaData
    //	t
    u8x {}
")).
Eval vm_compute in ("<<<M1795>>>" ++ check (runes_of_ascii "packet metadata {
    Logon {
        A `" ++ [28040; 24687; 31867; 22411]%N ++ runes_of_ascii "`,
        tag o,
    },
    // c
    zchar len `// not a comment`,
}")).
Eval vm_compute in ("<<<M1752>>>" ++ check (runes_of_ascii "packet
    A
{ match 
k
as

n {[	""a""

,
    22 ,  ""c c""
,4
,""e"" ,66
,

""g"" 
,	8
	,	""i""]

:  B 2	:C 
}	, }

")).
Eval vm_compute in ("<<<M1711>>>" ++ check (runes_of_ascii "
packet

a1
{match /// triple
    T
as 
pack {

007 : Header,} ,calculatedFrom, }

MetaData	options1	{ }")).
Eval vm_compute in ("<<<M1751>>>" ++ check (runes_of_ascii "
// top
		root 
    // c0

packet
	    // c1
	pack
    // c2
    {  
  // c3
    	} 

    // c4
 
")).
Eval vm_compute in ("<<<M46>>>" ++ check (runes_of_ascii "packet rootA{ }
options
{ uint8x =//	t
u32 ; i64_
=	255 ;
len
    = ' '
    ;
    } // @lengthOf(")).
Eval vm_compute in ("<<<M1784>>>" ++ check (runes_of_ascii "packet o {
    repeat Logon uint8x,
}

options {
    asx = zchar[3]// c
    stringy = '\x00'
}")).
Eval vm_compute in ("<<<M1430>>>" ++ check (runes_of_ascii "packet chars { } packet MetaDataX { @tag( 42 ) i16 string_ , repeat x `say ""hi""` , } // c
")).
Eval vm_compute in ("<<<M1198>>>" ++ check (runes_of_ascii "MetaData float { float64 charz `
` , } root packet // c
chars { @rightPad ( '0' ) Foo , }")).
Eval vm_compute in ("<<<M1409>>>" ++ check (runes_of_ascii "packet chars { } packet MetaDataX {
// c
@tag( 42 ) i16 string_ , repeat x `say ""hi""` , }")).
Eval vm_compute in ("<<<M370>>>" ++ check (runes_of_ascii "MetaData falsey {
//x
//	t
char[ /// triple
65535]Packet `{ , }` , // @lengthOf(
} //x")).
Eval vm_compute in ("<<<M1139>>>" ++ check (runes_of_ascii "packet metadata { Logon { A `" ++ [28040; 24687; 31867; 22411]%N ++ runes_of_ascii "` ,
// c
tag o , } , zchar len `// not a comment` , }")).
Eval vm_compute in ("<<<M1344>>>" ++ check (runes_of_ascii "packet o { // c
repeat Logon uint8x , } options { asx = zchar[ 3 ] stringy = '\x00' }")).
Eval vm_compute in ("<<<M1441>>>" ++ check (runes_of_ascii "options {
    LittleEndian = true;
}
root packet P {
    repeat char cs,
    u8 x,
}
")).
Eval vm_compute in ("<<<M1305>>>" ++ check (runes_of_ascii "MetaData // c
body { i64 pack `it's` , } packet stringy { int16 calculatedFrom , }")).
Eval vm_compute in ("<<<M811>>>" ++ check (runes_of_ascii "packet A {
  match k as n {
    [""a"", ""bb"", ""c c"", ""d"", ""e""] : B
    2 : C
  },
}")).
Eval vm_compute in ("<<<M1161>>>" ++ check (runes_of_ascii "// top
root
    // c0
packet
    // c1
pack
    // c2
{
    // c3
}
    // c4
")).
Eval vm_compute in ("<<<M800>>>" ++ check (runes_of_ascii "packet A {
  match k as n {
    [1, ""bb"", 007, ""d""] : B
    2 : C
  },
}")).
Eval vm_compute in ("<<<M796>>>" ++ check (runes_of_ascii "packet A {
  match k as n {
    [1, 22, 007, 4] : B
    2 : C
  },
}")).
Eval vm_compute in ("<<<M913>>>" ++ check (runes_of_ascii "packet A {
    B b `a
b`,
    B `a
b`,
    repeat B bs `a
b`,
}")).
Eval vm_compute in ("<<<M1299>>>" ++ check (runes_of_ascii "packet x { @rightPad ( ) repeat roots Logon `doc` , }
// c
")).
Eval vm_compute in ("<<<M1297>>>" ++ check (runes_of_ascii "packet x { @rightPad ( ) repeat roots Logon `doc` ,
// c
}")).
Eval vm_compute in ("<<<M1864>>>" ++ check (runes_of_ascii "MetaData M {
    u8 x `
    x`,
    T t `
    x`,
}")).
Eval vm_compute in ("<<<M177>>>" ++ check (runes_of_ascii "root packet
repeatCount{ } // trailing space ")).
Eval vm_compute in ("<<<M1114>>>" ++ check (runes_of_ascii "root packet u128 { chars `it's` , } // c
")).
Eval vm_compute in ("<<<M966>>>" ++ check (runes_of_ascii "options {
    a = ""\
"";
    b = ""\
""
}")).
Eval vm_compute in ("<<<M1937>>>" ++ check (runes_of_ascii "
packet A 
{
    u8
	x `a
b` ,
}")).
Eval vm_compute in ("<<<M998>>>" ++ check (runes_of_ascii "packet A {
 u8 x `d" ++ [8192]%N ++ runes_of_ascii "`, // c" ++ [8192]%N ++ runes_of_ascii "
}")).
Eval vm_compute in ("<<<M948>>>" ++ check (runes_of_ascii "packet A {
    u8 x `
x`,
}")).
Eval vm_compute in ("<<<M51>>>" ++ check (runes_of_ascii "packet BodyLength {}
")).
Eval vm_compute in ("<<<M2005>>>" ++ check (runes_of_ascii "packet options1 {
}")).
Eval vm_compute in ("<<<M1041>>>" ++ check (runes_of_ascii "packet A {
}
// c" ++ [8203]%N)).
Eval vm_compute in ("<<<M296>>>" ++ check (runes_of_ascii "packet f32a {  }")).
Eval vm_compute in ("<<<M1912>>>" ++ check (runes_of_ascii "// " ++ [27880; 37322]%N ++ runes_of_ascii "
")).
Eval vm_compute in ("<<<M109>>>" ++ check (runes_of_ascii "


")).
