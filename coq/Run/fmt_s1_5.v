From FP Require Import Lexer Parser ShowPT Digest Formatter.
From Coq Require Import String List NArith.
Import ListNotations.
Open Scope string_scope.
Set Printing Width 100000000.
Set Printing Depth 100000000.
Definition show_fres (r : fres) : string :=
  match r with
  | FOk s => "OK:" ++ sh_escaped s ""
  | FErr s => "ERR:" ++ sh_escaped s ""
  | FPanic p => "PANIC:" ++ p
  end.
Definition check (rs : list rune) : string := digest (show_fres (format_res rs)).
Definition full (rs : list rune) : string := show_fres (format_res rs).
Eval vm_compute in ("<<<M273>>>" ++ check (runes_of_ascii "packet len
{  @calculatedFrom( ""`tick`"" )	repeat zchar[ 00
    ]chars //	t
`a\`
    ,
u8x
// trailing space 
// a // b
MetaDataX `line1
line2`
    // c
    ,@calculatedFrom( ""a\""b"" ) match
    matchKey as asx {
    [ ""CRC32"" , ""a\""b""
]// " ++ [27880; 37322]%N ++ runes_of_ascii "
:
msg_type
    ,
    }
, i8 string_ @calculatedFrom( ""{,}"" )
    ,@lengthOf(
lengthOf
    //
    ) zchar[42 ]
    _x
// packet A { u8 x, }
/// triple
`line1
line2` ,
    @lengthOf( asx) repeat// `tick` ""quote"" 'q'
int8 Header , repeat crc {
int8 i64_//x
@calculatedFrom( ""{,}"" ) , } ,repeat _x i8i8 `line1
line2` , float64// trailing space 
stringy , MetaDataX { charz
    { int16 matchKey, repeat
    i64_,
    char[ 00] Z9_ `
` ,
    match As
    //x
    as Packet { 3 : crc , [
//	t
// @lengthOf(
1 ,
00
]: Header // " ++ [27880; 37322]%N ++ runes_of_ascii "
,	255 :_x , 42 : body
,	[0	] : chars
    [ 4294967296
, 65535 ] :chars , }
/// triple
// @lengthOf(
,  }
// trailing space 
// @lengthOf(
, } , } MetaData falsey {
char[
255
] u128 , u8 Header`tab	here`
,
string float ,} root packet int { Logon i64_  ,
    @calculatedFrom(
""1""
) zchar { u {
    zchar[
255 ] Pad , } , stringy {
    Pad metadata `u8 x,` ,
}	, repeat	string i8i8, char[]
    As@calculatedFrom(
""\n"" ) ,}
    // " ++ [27880; 37322]%N ++ runes_of_ascii "
    , @lengthOf( packetx // a // b
) @lengthOf(
    i64_ ) body `line1
line2`,@lengthOf(roots)match
// `tick` ""quote"" 'q'
// trailing space 
MetaDataX as uint8x { // `tick` ""quote"" 'q'
[	007
/// triple
// " ++ [27880; 37322]%N ++ runes_of_ascii "
, //x
255
    ,
00]
    :	body// c
, [ 65535 , ""1"",// `tick` ""quote"" 'q'
1  ,
""\n""//	t
, 1	,
    ""CRC32""
    ,
    //	t
    0
    ] :trueish
,
} , uint64 Foo
, zchar {metadata
@lengthOf(Pad)//	t
`crlf
line` ,
    match u as charz { 65535 :
    //x
    int
[ ""1""]
:
// c
//
a1 , [4294967296 , 00,""" ++ [233]%N ++ runes_of_ascii "t" ++ [233]%N ++ runes_of_ascii """ , """ ++ [28040; 24687]%N ++ runes_of_ascii """ ,
    00 ]: matchKey , [ ""a\\"" ] : Logon ,
    },
repeat rootA { int16
Foo @lengthOf( rootA // " ++ [27880; 37322]%N ++ runes_of_ascii "
),options1 `u8 x,` // trailing space 
, }	,  },  match chars as u
// " ++ [128512]%N ++ runes_of_ascii " emoji
// " ++ [128512]%N ++ runes_of_ascii " emoji
{ [//
""it's"" , 007	, """ ++ [233]%N ++ runes_of_ascii "t" ++ [233]%N ++ runes_of_ascii """, ""abc"" ,""\n"" ,
// " ++ [128512]%N ++ runes_of_ascii " emoji
// " ++ [27880; 37322]%N ++ runes_of_ascii "
"""" // c
] :	repeatCount,
65535
    // " ++ [128512]%N ++ runes_of_ascii " emoji
    :Z9_
, [ 007  , ""abc"",""// no comment""
, """ ++ [28040; 24687]%N ++ runes_of_ascii """ ] :  falsey ,
00
:
    string_}
,  char repeatCount , } packet Foo {char[]
a1 @calculatedFrom( """")`line1
line2`
, uint16 // a // b
MetaDataX
    // packet A { u8 x, }
    `say ""hi""`,char[] A ,
// trailing space 
// " ++ [128512]%N ++ runes_of_ascii " emoji
f64 int @lengthOf(Pad  ) , u32
    BodyLength
, float64
trueish @lengthOf(lengthOf )
// `tick` ""quote"" 'q'
// trailing space 
`crlf
line` , @tag(255 ) match Z9_ as tag { [ ""a\""b"",4294967296  ,  ""{,}"" ,""{,}""/// triple
] :	Pad	, 1 : lengthOf ,	0123456789 : msg_type  , ""// no comment"":
    BodyLength, [ ""1"" ] : string_ [3 , 0,1 , 1
, ""\" ++ [233]%N ++ runes_of_ascii """ // " ++ [27880; 37322]%N ++ runes_of_ascii "
,
    """"
    , 00
    // c
    ] // c
: asx} , body `say ""hi""`// `tick` ""quote"" 'q'
,	}options { x	='0'
; u8x // " ++ [128512]%N ++ runes_of_ascii " emoji
= u64;
// c
//	t
string_ = ""a\""b"" }
")).
Eval vm_compute in ("<<<M1350>>>" ++ check (runes_of_ascii "root packet Header
{repeat
zchar[
10 ]charz `two words`
    , repeat
    u8 uint8x
`" ++ [233]%N ++ runes_of_ascii "`
    //	t
    , T@calculatedFrom(
""{,}"" )
    `u8 x,` ,
char[1	] trueish
    @lengthOf( x_y_z )
    `crlf
line` , repeat Pad
    Foo ,
    @lengthOf(  roots )repeat asx	,@rightPad
( '0' ) @leftPad ('0' ) @leftPad('0'	) uint8  x @lengthOf( body) `crlf
line` ,match body
    as rootA {[ // " ++ [128512]%N ++ runes_of_ascii " emoji
0 // " ++ [27880; 37322]%N ++ runes_of_ascii "
, ""\n""] :
x_y_z
,
    10
    : packetx , 1 : BodyLength , """ ++ [233]%N ++ runes_of_ascii "t" ++ [233]%N ++ runes_of_ascii """ :zchar 3  :
// `tick` ""quote"" 'q'
// packet A { u8 x, }
As
""" ++ [233]%N ++ runes_of_ascii "t" ++ [233]%N ++ runes_of_ascii """ : asx	, },
    match packetx as	lengthOf { """ ++ [233]%N ++ runes_of_ascii "t" ++ [233]%N ++ runes_of_ascii """ :
    roots , 42 :
lengthOf [ ""a\""b"" ] :asx // trailing space 
,},
}packet calculatedFrom {@calculatedFrom( ""abc"" ) repeat
u64
//x
// @lengthOf(
stringy , @calculatedFrom(
""" ++ [233]%N ++ runes_of_ascii "t" ++ [233]%N ++ runes_of_ascii """
) i32 i8i8 @lengthOf(
f32a
    )
,i8 Pad // a // b
@calculatedFrom(""a\\"") ,
char charz`" ++ [28040; 24687; 31867; 22411]%N ++ runes_of_ascii "`,@calculatedFrom(	""" ++ [233]%N ++ runes_of_ascii "t" ++ [233]%N ++ runes_of_ascii """// c
)
@tag(4294967296 )rootA //
msg_type
    , @calculatedFrom(
    ""CRC32"" //	t
)	@tag( 007) @tag( 0
    )
uint8 A
    `crlf
line` ,
    char[ 0123456789 ]// " ++ [128512]%N ++ runes_of_ascii " emoji
repeatCount	`" ++ [233]%N ++ runes_of_ascii "`, packetx@lengthOf( tag
)	`it's` , @lengthOf(// c
leftPad  ) @calculatedFrom( ""\n""
) @leftPad	( )Foo
    @calculatedFrom( ""a\\"" ) `" ++ [28040; 24687; 31867; 22411]%N ++ runes_of_ascii "` ,} packet metadata
{ packetx `" ++ [28040; 24687; 31867; 22411]%N ++ runes_of_ascii "`
, u16 i64_
@calculatedFrom( ""a\""b"" ) `
`
    ,}
    //	t
    packet falsey{ //
@lengthOf(
//
// " ++ [128512]%N ++ runes_of_ascii " emoji
int// @lengthOf(
)
// trailing space 
// " ++ [27880; 37322]%N ++ runes_of_ascii "
Packet  , @calculatedFrom(
""packet"" ) @lengthOf( trueish
    //	t
    ) @leftPad // " ++ [128512]%N ++ runes_of_ascii " emoji
()
A repeatCount
    ,A `
`// " ++ [128512]%N ++ runes_of_ascii " emoji
, repeat  trueish
    `{ , }` , zchar[
    /// triple
    42
/// triple
//	t
] rootA @lengthOf( A ),} root
    packet u { repeat char[]i8i8 , @tag( 007) body
    // c
    { repeat u8x`tab	here`, } ,	@rightPad(
    // @lengthOf(
    '\x00'
    ) i16
matchKey`it's` ,@lengthOf( trueish
)
metadata  @lengthOf(
lengthOf)
    ,// `tick` ""quote"" 'q'
int
@calculatedFrom( ""`tick`"" ) ,@tag(
3) match x_y_z	as BodyLength {1 //	t
:options1
//	t
// c
,
    } , repeat i64_
string_	,
    //
    u8 trueish , f64
calculatedFrom ,}")).
Eval vm_compute in ("<<<M1280>>>" ++ check (runes_of_ascii "options
    {metadata
    /// triple
    =string ; }packet
Header{@leftPad ( ' '
)string//	t
i8i8 `it's`
// `tick` ""quote"" 'q'
// `tick` ""quote"" 'q'
,
@lengthOf(// " ++ [27880; 37322]%N ++ runes_of_ascii "
roots )	u
@calculatedFrom( """ ++ [128512]%N ++ runes_of_ascii """ )
, @tag(65535 // packet A { u8 x, }
) match
Pad as
stringy// `tick` ""quote"" 'q'
{3
: f32a
    ,""a\\""
: i8i8
,
    [
    """ ++ [128512]%N ++ runes_of_ascii """ ,
7] :
rootA , // " ++ [128512]%N ++ runes_of_ascii " emoji
""a\""b"" : x_y_z
,
[ 0123456789 ,""a	b""  ]: Logon
,
} ,metadata {  char[] // `tick` ""quote"" 'q'
chars @calculatedFrom(
    """ ++ [128512]%N ++ runes_of_ascii """
)`two words` , repeat asx	{ msg_type { int64 _x `
`
    ,repeat Z9_
/// triple
// `tick` ""quote"" 'q'
,
uint16 leftPad `line1
line2`,
    trueish x_y_z ``, } , // trailing space 
zchar[ 4294967296// " ++ [27880; 37322]%N ++ runes_of_ascii "
]
chars `crlf
line`, Logon `a\` ,
} ,  char[]body ,
    } ,  repeat u { int {
repeat
    zchar{
f64
lengthOf @calculatedFrom(	""abc""  ) `" ++ [233]%N ++ runes_of_ascii "` ,/// triple
}
, As @calculatedFrom(
    ""{,}"" )
    // packet A { u8 x, }
    , repeat  char[] // `tick` ""quote"" 'q'
metadata
, string// a // b
calculatedFrom `two words` , }	, },
    @rightPad
( '0'
)// " ++ [27880; 37322]%N ++ runes_of_ascii "
@rightPad(
    '0'  )
@lengthOf( x )repeat leftPad `// not a comment`
    ,
@rightPad ( ' '
)o  Z9_
, }
packet
    Pad
    {metadata trueish
// c
// " ++ [128512]%N ++ runes_of_ascii " emoji
`u8 x,` ,
    } options{ len
// a // b
// @lengthOf(
=i64 f32a =  ""x y""; matchKey = ""packet"" ;  } packet lengthOf
{char[ 7]
// trailing space 
/// triple
MetaDataX
@lengthOf(BodyLength
)
,int8 As @lengthOf( calculatedFrom  ) ``,repeat char[]
// a // b
// @lengthOf(
As ,
    body @calculatedFrom( /// triple
""abc"" ) ,
    repeat float64 MetaDataX `" ++ [28040; 24687; 31867; 22411]%N ++ runes_of_ascii "` // " ++ [27880; 37322]%N ++ runes_of_ascii "
,
@tag(
    4294967296 )	match u8x as crc
{[
""\n"" ,
65535 ] : // packet A { u8 x, }
_x , 255 : roots,} ,  } //	t")).
Eval vm_compute in ("<<<M959>>>" ++ check (runes_of_ascii "
MetaData lengthOf  {A chars `two words` , u string_
,roots
Logon	,u8
x_y_z , u32
    lengthOf
`{ , }` ,
    } packet
asx{ @rightPad(
)	chars `{ , }`, @calculatedFrom( ""a\\""
) repeat i64
x ,@calculatedFrom( ""it's"")@calculatedFrom( ""\n"" )
@leftPad
( '\x00' ) match
uint8x as leftPad {	42 // packet A { u8 x, }
: u128, [	65535] : Logon
// `tick` ""quote"" 'q'
// " ++ [128512]%N ++ runes_of_ascii " emoji
10 :
u128 ,
""\n"" :matchKey ,
} , // c
leftPad	{
    packetx
    @calculatedFrom( ""x y"" ) , }
, i16 int, @calculatedFrom( ""`tick`"" ) uint32 a1@lengthOf(
i64_), match zchar as
    roots
{
    42 :
    i64_	,
4294967296 :x_y_z 10
:
    //
    As [""it's"" ,
""\" ++ [233]%N ++ runes_of_ascii """ , 255
    ,
""\n"" ]
    : Packet , } , @tag( 0123456789 ) match
    lengthOf
as	stringy{
[ """ ++ [28040; 24687]%N ++ runes_of_ascii """ ,""\n"",
""1"",1 ,	""CRC32"" , 65535 ,
    // trailing space 
    65535] : rootA , 00 :trueish
,""CRC32"": Foo , } ,
@lengthOf( i64_ ) repeat
u8x {zchar[ 7]charz @lengthOf( i8i8 ), }	,
} packet
a1
    { @rightPad( '\x00' )calculatedFrom ,
    i8i8, @lengthOf(
    chars )
    @rightPad ('\x00' /// triple
) len{ string crc,repeat chars `" ++ [233]%N ++ runes_of_ascii "`
, }, x @calculatedFrom(
""" ++ [28040; 24687]%N ++ runes_of_ascii """) , // c
@tag(
    4294967296)match float as
    Packet
{ 1:
    T,	[ 4294967296 , ""it's"", 007
,
""CRC32""
] // packet A { u8 x, }
:	a1
    }
,
    @lengthOf(
    // c
    matchKey )rootA @lengthOf(
pack// " ++ [128512]%N ++ runes_of_ascii " emoji
),
@lengthOf(
body
)
    repeat x_y_z`` , calculatedFrom chars  ,
@calculatedFrom( """ ++ [128512]%N ++ runes_of_ascii """ ) chars pack ,
    // a // b
    }options {x_y_z = 4294967296; } // " ++ [27880; 37322]%N)).
Eval vm_compute in ("<<<M4595>>>" ++ check (runes_of_ascii "  options	{  StringPrefixLenType=u16  ;
ArrayPrefixLenType = 
u16 ;
	}
	packet
SampleBinary 
{

    uint16 MsgType

`" ++ [28040; 24687; 31867; 22411]%N ++ runes_of_ascii "`,  u16 BodyLenght@lengthOf( Body) 
`" ++ [28040; 24687; 20307; 38271; 24230]%N ++ runes_of_ascii "`,

match	MsgType

    as
Body{
	1  :Logon
	,

2  : Logout,

    3 
:

    Heartbeat
	,

4 : RiskControlRequest ,
    5 :
	RiskControlResponse
	,} ,

@calculatedFrom(  ""CRC32"") 
u32
Ckecksum `" ++ [26657; 39564; 21644]%N ++ runes_of_ascii "`  ,}  packet

    Logon {@leftPad
	(
    '0'
	) 
char[ 10 ]
UserName
	`" ++ [29992; 25143; 21517]%N ++ runes_of_ascii "`
	,
	string	Password
`" ++ [23494; 30721]%N ++ runes_of_ascii "`
	, uint64

ClientId `" ++ [23458; 25143; 31471]%N ++ runes_of_ascii "ID`
,u16
HeartbeatInterval `" ++ [24515; 36339; 38388; 38548]%N ++ runes_of_ascii "`  ,
} packet Logout

{@rightPad ( '0' ) char[ 10	]

    UserName `" ++ [29992; 25143; 21517]%N ++ runes_of_ascii "`
, 
uint64
ClientId`" ++ [23458; 25143; 31471]%N ++ runes_of_ascii "ID` ,  }

packet

    Heartbeat
    {
}
	packet RiskControlRequest{ string

UniqueOrderId 
`" ++ [21807; 19968; 35746; 21333; 21495]%N ++ runes_of_ascii "`  , char[	16]  ClOrdID`" ++ [23458; 25143; 35746; 21333; 21495]%N ++ runes_of_ascii "` ,

char[

    3
] MarketID`" ++ [24066; 22330]%N ++ runes_of_ascii "id`,

    char[ 
12

    ]
SecurityID	`" ++ [35777; 21048; 20195; 30721]%N ++ runes_of_ascii "`  ,  char

    Side

    `" ++ [20080; 21334; 26041; 21521]%N ++ runes_of_ascii "`
	,
char	OrderType

    `" ++ [35746; 21333; 31867; 22411]%N ++ runes_of_ascii "` 
,
u64

    Price
`" ++ [20215; 26684]%N ++ runes_of_ascii "`
    , u32

Qty

    `" ++ [25968; 37327]%N ++ runes_of_ascii "`
	, repeat  string
    ExtraInfo
`" ++ [38468; 21152; 20449; 24687]%N ++ runes_of_ascii "`

,  repeat
	SubOrder {
char[ 
16 
]	ClOrdID
    `" ++ [23376; 35746; 21333; 21495]%N ++ runes_of_ascii "` 
, u64	Price

`" ++ [23376; 35746; 21333; 20215; 26684]%N ++ runes_of_ascii "` ,u32
Qty
	`" ++ [23376; 35746; 21333; 25968; 37327]%N ++ runes_of_ascii "`  ,
},	}

    packet
    RiskControlResponse{	string
    UniqueOrderId	`" ++ [21807; 19968; 35746; 21333; 21495]%N ++ runes_of_ascii "`	,
    i32	Status`" ++ [29366; 24577]%N ++ runes_of_ascii "`

    ,string	Msg `" ++ [32467; 26524; 20449; 24687]%N ++ runes_of_ascii "`
,
    repeat
    Detail,}packet	Detail { 
string 
RuleName `" ++ [35268; 21017; 21517; 31216]%N ++ runes_of_ascii "`

, u16
Code

    `" ++ [21407; 22240; 20195; 30721]%N ++ runes_of_ascii "` ,
	}
")).
Eval vm_compute in ("<<<M3981>>>" ++ check (runes_of_ascii "options {
    T = ""it's"";// trailing space 
    Z9_ = ""\" ++ [233]%N ++ runes_of_ascii """
    int = '\x00'
    u8x = ""`tick`""
    crc = ""packet"";
}

root packet string_ {
    match charz as u {
        // " ++ [128512]%N ++ runes_of_ascii " emoji
        0123456789 : zchar,
        42 : rootA,
        007 : crc,
        """ ++ [28040; 24687]%N ++ runes_of_ascii """ : Foo,
        [007, ""x y""] : int,
        // " ++ [27880; 37322]%N ++ runes_of_ascii "
    },
    @tag(7)
    repeat metadata,
    string len @lengthOf(o) `crlf
    line`,
    repeat int32 falsey `
    `,
    @leftPad()
    x @calculatedFrom(""// no comment"") `// not a comment`,
    uint16 rootA,
    @lengthOf(a1)
    char calculatedFrom,
    @tag(3)
    zchar[65535] body,
}

packet Logon {
    @leftPad()
    @tag(7)
    char u128 `say ""hi""`,
    @tag(10)
    char[42] roots,
}

root packet i64_ {
    repeat _x {
        repeat MetaDataX o,
    },
    u128 {
        asx {
            u8 a1,
            repeat As,// a // b
        },
    },
    int16 Foo,
    u64 asx `
    `,
    u8x @lengthOf(crc),
    @calculatedFrom(""CRC32"")
    @lengthOf(body)
    @tag(7)
    falsey body `{ , }`,
    MetaDataX {
        trueish MetaDataX `tab	here`,
        char[3] i8i8 @calculatedFrom(""" ++ [128512]%N ++ runes_of_ascii """) `" ++ [233]%N ++ runes_of_ascii "`,
    },
}

options {
    _x = false
    _x = char[0123456789]
    repeatCount = ' '
    _x = ""packet"";
}")).
Eval vm_compute in ("<<<M3610>>>" ++ check (runes_of_ascii "options {
    StringPrefixLenType = u16;
    ArrayPrefixLenType = u8;
    FixedStringPadFromLeft = true;
    FixedStringPadChar = ' ';
}
packet Quote {
    int64 OrderId,
    char[] Ref,
    @leftPad('0') char[5] price,
}
packet Heartbeat {
    zchar[3] venue,
    string Flags,
}
packet Trade {
    repeat InTag787 {
        i32 venue,
        char[5] sym,
        repeat InPx98 {
            char[11] Qty,
            Heartbeat,
            char[] price,
            u32 x,
            float64 count,
            repeat Quote,
        },
        zchar[7] Note,
        repeat char[1] Tail,
    },
    repeat char[2] seqNo,
    InTail55 {
        repeat Quote,
        string msgKind,
        InPx18 {
            char[] count,
            repeat Quote,
            uint16 Qty,
        },
        char[4] seqNo,
        repeat Heartbeat,
        repeat string sym,
    },
    repeat Quote,
    Heartbeat,
    @leftPad(' ') char[10] OrderId,
}
root packet Fill {
    Heartbeat,
    uint32 count,
    u8 OrderId,
    match OrderId as Body {
        96 : Quote,
        195 : Trade,
        187 : Heartbeat,
    },
    u32 venue @calculatedFrom(""CRC32""),
}
")).
Eval vm_compute in ("<<<M358>>>" ++ check (runes_of_ascii "packet	matchKey { } packet rootA {} root packet lengthOf { // trailing space 
@tag(
0 //x
)uint16 repeatCount
    , //x
uint32 rootA @calculatedFrom(""it's""
// packet A { u8 x, }
// `tick` ""quote"" 'q'
)
,
//	t
// a // b
string uint8x /// triple
,  u128@calculatedFrom(
""" ++ [28040; 24687]%N ++ runes_of_ascii """ ) ,@leftPad
( '\x00' ) u  `a\` , @leftPad( ' ' ) @calculatedFrom(
""1"" ) @lengthOf( int )match msg_type
// " ++ [128512]%N ++ runes_of_ascii " emoji
// a // b
as Pad{
""abc""// " ++ [27880; 37322]%N ++ runes_of_ascii "
: asx }
    , options1 {
    char[]  metadata // trailing space 
, Logon@lengthOf( zchar ) , repeatCount {
zchar[255 ] tag
    ,x_y_z msg_type,// `tick` ""quote"" 'q'
pack, MetaDataX @lengthOf(  falsey )
    , }
, zchar  @lengthOf( Header  )
,  } ,@tag( 42 ) char[
    007 ] i64_
,
// trailing space 
//	t
@lengthOf( As
) match crc  as/// triple
MetaDataX {65535 :leftPad
""a\""b"" : BodyLength , 42:	crc
    ,
    // " ++ [27880; 37322]%N ++ runes_of_ascii "
    0123456789: body , ""abc""
:	stringy
,	""CRC32"":
    x_y_z,} ,
    //
    int32 Header @lengthOf(
// @lengthOf(
//
asx // " ++ [27880; 37322]%N ++ runes_of_ascii "
) , } packet packetx
{	}root packet
float//	t
{ @tag( 1 ) @lengthOf(
_x) @leftPad ( '0'
    )
repeat // c
i64_ ,}
")).
Eval vm_compute in ("<<<M294>>>" ++ check (runes_of_ascii "MetaData roots { zchar[ 7 ] body , } packet trueish { repeat zchar[ 0123456789
] i8i8 `line1
line2`
//x
/// triple
, } packet u8x { x_y_z chars
, @calculatedFrom( """ ++ [28040; 24687]%N ++ runes_of_ascii """) @calculatedFrom(
    """ ++ [28040; 24687]%N ++ runes_of_ascii """ )
    @tag( 007) int64
Foo// trailing space 
,int8 _x`it's`
, match x as Foo {
[// c
65535,	""" ++ [233]%N ++ runes_of_ascii "t" ++ [233]%N ++ runes_of_ascii """	,""abc"" ,
""\" ++ [233]%N ++ runes_of_ascii """// @lengthOf(
,	10 ]: // packet A { u8 x, }
Pad
, } ,
body
{ match msg_type as uint8x {
""a\""b"" :	falsey 0 :  Packet""it's""
:lengthOf //	t
""" ++ [28040; 24687]%N ++ runes_of_ascii """:
charz ,} ,
    // a // b
    }	,	@tag( 42 )@calculatedFrom(
""\" ++ [233]%N ++ runes_of_ascii """
    )// c
@lengthOf(
u )
    repeat char
calculatedFrom	, @tag(
// @lengthOf(
// " ++ [128512]%N ++ runes_of_ascii " emoji
1  )
@rightPad ( '\x00'
) @lengthOf( f32a )
int16 pack
`" ++ [233]%N ++ runes_of_ascii "` , @lengthOf(
    // c
    A //x
) repeat
char[]
    options1 , } packet _x { @lengthOf(
    options1)  string
    u8x @lengthOf(
_x// a // b
), repeat
// " ++ [128512]%N ++ runes_of_ascii " emoji
// packet A { u8 x, }
Pad
{ As	{ matchKey chars ,
} ,// trailing space 
} ,repeat string crc
    //
    `line1
line2` ,
    //
    } packet crc{@calculatedFrom( ""{,}"" )  a1 u128 , } //	t")).
Eval vm_compute in ("<<<M4490>>>" ++ check (runes_of_ascii "MetaData lengthOf {
    i64 u128,
    uint32 calculatedFrom,
    char[00] string_,
}

root packet falsey {
    char[] len `line1
        line2`,
    @tag(255)
    uint8x @lengthOf(falsey),
    float32 len,
    repeat calculatedFrom i64_ `say ""hi""`,
    @rightPad('0')
    char[10] Logon,
}

packet rootA {
    // " ++ [128512]%N ++ runes_of_ascii " emoji
    // a // b
    x {
        falsey Logon,
        trueish @calculatedFrom(""`tick`"") `// not a comment`,
        uint8x body,
    },
    @calculatedFrom(""{,}"")
    @calculatedFrom(""a\\"")
    match f32a as i8i8 {
        // " ++ [27880; 37322]%N ++ runes_of_ascii "
        10 : matchKey,
        1 : packetx,
        0123456789 : Header,
        ""it's"" : i64_,
        // packet A { u8 x, }
        0 : pack,
    },
    repeat uint8x x_y_z `" ++ [28040; 24687; 31867; 22411]%N ++ runes_of_ascii "`,
    repeat char[255] string_,
    @lengthOf(int)
    calculatedFrom,
    @tag(4294967296)
    u16 packetx @calculatedFrom(""" ++ [28040; 24687]%N ++ runes_of_ascii """),
    u128 body `doc`,
}

root packet tag {
    //x
    // `tick` ""quote"" 'q'
    i32 A,
}

options {
}")).
Eval vm_compute in ("<<<M1272>>>" ++ check (runes_of_ascii "// @lengthOf(
packet options1 {@lengthOf(i8i8 ) i64_
int  `{ , }`, char[] int
, zchar[ 00
//	t
// packet A { u8 x, }
] len,
}
packet u128 {  @tag(  3 //	t
)	@calculatedFrom(
//
// @lengthOf(
""// no comment"" )
options1// packet A { u8 x, }
{ int16 //x
calculatedFrom @calculatedFrom( """ ++ [28040; 24687]%N ++ runes_of_ascii """ )	, chars @lengthOf( calculatedFrom )  ,crc
{
o @calculatedFrom( """ ++ [233]%N ++ runes_of_ascii "t" ++ [233]%N ++ runes_of_ascii """ ) , float u8x
    , repeat metadata uint8x , }
, }, float64	options1,@leftPad
( ) @lengthOf( Foo) @calculatedFrom(
""packet"")
//	t
// c
char[ 1 // c
] i8i8
@calculatedFrom( ""abc""
) `{ , }`	,
@leftPad  ( '0' )  T
{ int32
i8i8	`u8 x,`
    //
    , match
Z9_ as string_ { [ 7 , 10 , 65535 ,0 , 42, 255	, ""\" ++ [233]%N ++ runes_of_ascii """
    // packet A { u8 x, }
    ,
""`tick`""] : Foo ,
""" ++ [233]%N ++ runes_of_ascii "t" ++ [233]%N ++ runes_of_ascii """ :
u8x[ 255 , """" ,0
,
""""
, """ ++ [233]%N ++ runes_of_ascii "t" ++ [233]%N ++ runes_of_ascii """,
    255, 4294967296 , 00 ] : i64_ ,
10
    : Foo}
    ,
    // trailing space 
    pack @calculatedFrom( ""`tick`"" ) ,} ,
    a1//	t
`say ""hi""`, }
")).
Eval vm_compute in ("<<<M936>>>" ++ check (runes_of_ascii "
MetaData
A
//
// " ++ [128512]%N ++ runes_of_ascii " emoji
{ u8x
A /// triple
``
, int16 roots `// not a comment`
    , u128 u,
int options1 `" ++ [28040; 24687; 31867; 22411]%N ++ runes_of_ascii "`,  i16 repeatCount
,i8	roots, // `tick` ""quote"" 'q'
} root
packet matchKey{  lengthOf/// triple
{ i64_@lengthOf( msg_type )
, } ,
    }
options
    {x=
    char[] } // trailing space 
packet
As{ i64_`crlf
line` , // c
rootA Z9_	,string Pad @calculatedFrom( ""// no comment""
) `say ""hi""`
,
@rightPad
(
    '\x00' )
@calculatedFrom(
    ""{,}""
)// `tick` ""quote"" 'q'
@calculatedFrom(
    ""CRC32""	)falsey `doc` , match Logon as tag { 3 : f32a ,
    ""abc"":  o , 255 :	A""abc"": leftPad, }  , @calculatedFrom(""" ++ [233]%N ++ runes_of_ascii "t" ++ [233]%N ++ runes_of_ascii """)repeat u32
_x `{ , }` , repeat stringy`a\`
,
// @lengthOf(
// " ++ [128512]%N ++ runes_of_ascii " emoji
len // packet A { u8 x, }
@lengthOf(Header
)
//
// " ++ [27880; 37322]%N ++ runes_of_ascii "
`" ++ [28040; 24687; 31867; 22411]%N ++ runes_of_ascii "`
,
    i32 len @lengthOf( repeatCount ) `line1
line2`,
    @tag(
//x
// a // b
42//x
)	BodyLength	,	}")).
Eval vm_compute in ("<<<M23>>>" ++ check (runes_of_ascii "root // c
packet msg_type	{ repeat// packet A { u8 x, }
A { repeat a1
    { repeat  len// trailing space 
, }
    ,pack string_,	zchar[ 7 ] msg_type  @lengthOf(u
) , } ,
    repeat
zchar[ // `tick` ""quote"" 'q'
00] tag, u64 o@calculatedFrom(""a\\""
    // trailing space 
    ) ,  }
    packet charz {@tag( 0
) // c
repeat
    // a // b
    u {
char[007 ] T,}, repeatCount @calculatedFrom( ""\n""
)
,
}packet
trueish {
@calculatedFrom( ""a\\"") @rightPad
    ('0' ) // `tick` ""quote"" 'q'
@lengthOf( BodyLength
) string asx @lengthOf( A	),
//x
/// triple
@rightPad (
' '
) match pack
    // @lengthOf(
    as leftPad
{  [
1 ]// a // b
:
body , [ ""a	b""]
:msg_type , // `tick` ""quote"" 'q'
10 :calculatedFrom ,7 : packetx,
""" ++ [233]%N ++ runes_of_ascii "t" ++ [233]%N ++ runes_of_ascii """
: roots ,	}
    ,@calculatedFrom(""1""
    )  repeat roots
    // c
    u8x
    ,}
")).
Eval vm_compute in ("<<<M638>>>" ++ check (runes_of_ascii "MetaData roots {	charz matchKey //
`two words`
    , char[	65535 ] //	t
T `// not a comment`
, char[]
tag , string
/// triple
// @lengthOf(
a1 `two words`
,
} root packet stringy
    // trailing space 
    { repeat roots {repeat calculatedFrom	len
// " ++ [128512]%N ++ runes_of_ascii " emoji
// " ++ [128512]%N ++ runes_of_ascii " emoji
,
} ,  @tag( 42
)  @rightPad(/// triple
'0' )@tag(
007
)  f32 lengthOf @lengthOf( tag ) `crlf
line`
,	int32 chars,zchar[ 3
]
rootA @calculatedFrom(
""a\""b"" )// c
, @rightPad
( ) @calculatedFrom(""" ++ [128512]%N ++ runes_of_ascii """
) @tag(	0123456789 ) Foo {char[] u8x	@lengthOf( charz
    // @lengthOf(
    ) , A	, } ,
    match repeatCount as
body{
""\n"" :  T, [
    """ ++ [128512]%N ++ runes_of_ascii """, 255
// @lengthOf(
/// triple
] : lengthOf , } ,
@calculatedFrom(""x y"" )
    u8
packetx
@calculatedFrom(//x
""CRC32"" // a // b
) `tab	here` ,
    }
")).
Eval vm_compute in ("<<<M303>>>" ++ check (runes_of_ascii "root packet tag
    //x
    { @tag(
// trailing space 
//x
4294967296) zchar[ 255
    ]
    Foo	@calculatedFrom( ""\" ++ [233]%N ++ runes_of_ascii """  )// trailing space 
, @lengthOf( // packet A { u8 x, }
packetx
) @tag( 1) @lengthOf( string_ ) // a // b
zchar[
255] u	, Z9_ {repeat stringy  {repeat
body , }
    ,
    // `tick` ""quote"" 'q'
    } ,
    //
    repeat uint8  a1 , i64// c
tag  ,
    // " ++ [128512]%N ++ runes_of_ascii " emoji
    }
    packet uint8x { // a // b
@lengthOf( BodyLength	) @lengthOf( int )
    //
    uint64 As `{ , }` ,
    char[
65535	] zchar
// " ++ [27880; 37322]%N ++ runes_of_ascii "
// trailing space 
@lengthOf(
    stringy ) `tab	here` ,rootA @calculatedFrom( // a // b
""x y"" ) , repeat options1	{ i8i8 calculatedFrom,
// " ++ [27880; 37322]%N ++ runes_of_ascii "
// `tick` ""quote"" 'q'
}, repeat char[ 0]
    MetaDataX ,} //")).
Eval vm_compute in ("<<<M1299>>>" ++ check (runes_of_ascii "root packet
pack { } MetaData falsey  {	char[]A`// not a comment`
, }  packet uint8x{
repeat o
    { u64 string_@calculatedFrom( // " ++ [128512]%N ++ runes_of_ascii " emoji
""" ++ [233]%N ++ runes_of_ascii "t" ++ [233]%N ++ runes_of_ascii """ ) , }, repeat string_ `" ++ [28040; 24687; 31867; 22411]%N ++ runes_of_ascii "`
//	t
// @lengthOf(
,  repeat u { packetx @lengthOf( len) `doc`,
}
,
@lengthOf(u8x ) float32	MetaDataX
@calculatedFrom( """ ++ [233]%N ++ runes_of_ascii "t" ++ [233]%N ++ runes_of_ascii """ ) , uint8 MetaDataX `it's`
    ,
@rightPad (	'\x00' ) repeat
    // a // b
    crc
{
    x_y_z
@lengthOf(As)  `line1
line2`
,i32
    //	t
    repeatCount,
// a // b
// @lengthOf(
repeat Pad  { repeat string_ `" ++ [233]%N ++ runes_of_ascii "` , leftPad
    { char[]
float , }
,	}  , }
    , @calculatedFrom( ""it's""  ) zchar[ 42 ]A @lengthOf( matchKey ) , roots@calculatedFrom( ""CRC32"" ) // @lengthOf(
`a\`, }
")).
Eval vm_compute in ("<<<M1176>>>" ++ check (runes_of_ascii "
options {leftPad
    =
""{,}""f32a = true
trueish
    = zchar[ 007]
    ;	crc
// " ++ [27880; 37322]%N ++ runes_of_ascii "
// @lengthOf(
= ""`tick`"" ;// c
} //x
root	packet
    body { asx @lengthOf(	f32a // `tick` ""quote"" 'q'
) `` , f64 body @lengthOf(
int) , zchar[ 255] BodyLength , zchar[ 7	]
    leftPad
/// triple
// packet A { u8 x, }
`line1
line2`, @lengthOf(  asx )u128
    @lengthOf(
BodyLength )	`// not a comment`
,
    @lengthOf( As )
char[ 42	] _x
@lengthOf(  i8i8)`line1
line2` , char[ 1 //	t
]
    // a // b
    options1 @calculatedFrom(""packet"" )`say ""hi""`
, }
options
{ leftPad= 007
;
charz =false repeatCount =
    ""// no comment"" u// a // b
= 0123456789 }
")).
Eval vm_compute in ("<<<M985>>>" ++ check (runes_of_ascii "MetaData
    i64_
    {
    int
rootA
/// triple
// @lengthOf(
, char[ 0 ]
    A
    `{ , }` , u128 rootA`doc`
, // @lengthOf(
zchar[//x
42  ] i8i8`it's` ,
    /// triple
    char[ 00	] u , zchar[ 0123456789] A `line1
line2`	,	}	packet Z9_
{ @lengthOf(
pack
    )
@calculatedFrom(	""a\\"") BodyLength @calculatedFrom( ""\" ++ [233]%N ++ runes_of_ascii """)
    , @rightPad ( ) @tag( 1 )@lengthOf(
    i8i8  )
    char[]  trueish , f32a
@calculatedFrom( """ ++ [28040; 24687]%N ++ runes_of_ascii """	) `u8 x,` ,	@tag(
    /// triple
    65535 ) string trueish , } packet
BodyLength
{ stringy @lengthOf( Z9_ ) ,
    char[ 007
]metadata
@calculatedFrom(
/// triple
// @lengthOf(
"""" )
`" ++ [233]%N ++ runes_of_ascii "`, }
")).
Eval vm_compute in ("<<<M1341>>>" ++ check (runes_of_ascii "// packet A { u8 x, }
packet zchar { uint32 // packet A { u8 x, }
matchKey , i32 leftPad @calculatedFrom(
    //	t
    ""1"" ) `crlf
line` ,
_x{  f32a @calculatedFrom(""`tick`""// " ++ [128512]%N ++ runes_of_ascii " emoji
) ,// packet A { u8 x, }
char metadata `u8 x,` ,
    // c
    char[]
a1 @lengthOf(float )  `a\`
, } ,
@lengthOf(
A	)/// triple
zchar[ //
0123456789
]Header @lengthOf( o) `" ++ [28040; 24687; 31867; 22411]%N ++ runes_of_ascii "`// c
,	@tag(00) x `it's` ,
i8 msg_type @lengthOf(
len) `
` , @tag(
    00
    ) repeat matchKey// a // b
{
    string// " ++ [128512]%N ++ runes_of_ascii " emoji
u `" ++ [28040; 24687; 31867; 22411]%N ++ runes_of_ascii "` ,u8 u @calculatedFrom( ""a\""b"" ) ,
i8 len, packetx, }	,
    } options
    { Foo = 0
;
    }
")).
Eval vm_compute in ("<<<M4473>>>" ++ check (runes_of_ascii "  root
packet tag {
@lengthOf(uint8x
    )

@calculatedFrom(""1""  )
options1
    ,
}
MetaData	Z9_  {
string options1
    `crlf
line` 	 //	t
  , 
charz
string_ , 
}

    root
    packet
    float 
{ @calculatedFrom(	""packet"" )
	chars 
{ 	 //x
repeat chars

    {	i8

    matchKey

    `a\`, } , } //	t
,

    i32 len@lengthOf(	u8x
	)
    // trailing space 
  	// " ++ [128512]%N ++ runes_of_ascii " emoji
		, @lengthOf(	repeatCount )@tag( 
	// @lengthOf(

  //	t
	0123456789

    )
    @tag(

    007 )

    uint64
	    //	t
o
    @calculatedFrom(
	""" ++ [28040; 24687]%N ++ runes_of_ascii """ 	 // a // b
) , }
")).
Eval vm_compute in ("<<<M3798>>>" ++ check (runes_of_ascii "options {
    string_ = 0123456789;
    u = """ ++ [28040; 24687]%N ++ runes_of_ascii """;
}

options {
    f32a = 1;
}

packet u8x {
    float32 A @calculatedFrom(""`tick`""),
    i16 o `" ++ [233]%N ++ runes_of_ascii "`,
    int64 Logon `
        `,
    @calculatedFrom(""`tick`"")
    @tag(42)
    @leftPad()
    int8 len,
    repeat char[3] crc,
    char[] Packet @lengthOf(pack) `" ++ [233]%N ++ runes_of_ascii "`,/// triple
}

// @lengthOf(
// @lengthOf(
packet MetaDataX {
    match u8x as Header {
        0 : body,
        [007, ""\n"", ""\n"", """ ++ [128512]%N ++ runes_of_ascii """, """ ++ [28040; 24687]%N ++ runes_of_ascii """] : leftPad,
        [""x y""] : chars,
        [10, 3, ""`tick`""] : Header,
    },
}")).
Eval vm_compute in ("<<<M4300>>>" ++ check (runes_of_ascii "root
	packet A{	// packet A { u8 x, }
	char[] msg_type
`two words`

,// a // b

@calculatedFrom(
""abc""
    )@leftPad  (	'\x00')
	@calculatedFrom(""x y"" )
    repeat
//x

	// @lengthOf(

int64  chars 
,zchar[

    1 ]
    _x @calculatedFrom(

""1"" )

    `doc`
    ,
        // c

  //x
  }
packet	stringy
    {

int8

    calculatedFrom @lengthOf(
_x

    )
`line1
line2`
    ,
	@tag(42 )  char[	10 ]  //
Logon  @lengthOf(
roots

    )

`" ++ [233]%N ++ runes_of_ascii "`// " ++ [128512]%N ++ runes_of_ascii " emoji
    , 
i32	//

  options1,
i16
    x_y_z
	, 
}
")).
Eval vm_compute in ("<<<M155>>>" ++ check (runes_of_ascii "packet T {
    @lengthOf( MetaDataX )match
    Packet as a1 { [ ""1""] : zchar ""{,}""
    : _x ,} ,// @lengthOf(
char[ 007 ]// a // b
u128@lengthOf(
zchar)
// a // b
// packet A { u8 x, }
,string_ , @leftPad ( ' ')match MetaDataX as u128 { [ ""it's"" ,7 , 65535
, 65535]	:  chars,""" ++ [28040; 24687]%N ++ runes_of_ascii """// c
: u , 42 : zchar , }
    , } options // `tick` ""quote"" 'q'
{
    matchKey =
""a\""b""
    }	MetaData
    options1 { i16
len , char[ 7
] // packet A { u8 x, }
crc ,u16 asx `say ""hi""` ,i64 zchar, } // " ++ [27880; 37322]%N)).
Eval vm_compute in ("<<<M1277>>>" ++ check (runes_of_ascii "MetaData o{ i16 len // @lengthOf(
, }  packet msg_type{ chars roots
    // @lengthOf(
    , // trailing space 
repeat char[ 0  ] packetx `{ , }` //x
, @rightPad( '\x00'	)
    // @lengthOf(
    repeat i64 x
, match packetx // " ++ [128512]%N ++ runes_of_ascii " emoji
as  packetx{ 65535:x [ ""\n""
    // a // b
    , 3 ]:Logon,  } , BodyLength @calculatedFrom(
""{,}"" )
    // trailing space 
    , repeat pack// c
Z9_ , x
    i8i8 ,
} options
    { int=
    ""abc"" ; u
= ""abc""	int = '0'
;
    }
")).
Eval vm_compute in ("<<<M820>>>" ++ check (runes_of_ascii "MetaData uint8x
{ stringy charz ,	char[ 00] Z9_
    //
    `{ , }`
// @lengthOf(
// a // b
, char[ 0123456789 ]charz	, } packet msg_type{repeat char[ 42 ]	trueish `// not a comment` ,	@lengthOf( A
//
//
) zchar[ 4294967296//x
]string_
// " ++ [27880; 37322]%N ++ runes_of_ascii "
//x
,
//x
// @lengthOf(
repeat MetaDataX `// not a comment`,  }
    packet A{ As{ char[4294967296]
// c
// packet A { u8 x, }
zchar @lengthOf( Foo ) `a\`,
// trailing space 
// packet A { u8 x, }
}
,  }
")).
Eval vm_compute in ("<<<M4411>>>" ++ check (runes_of_ascii "options {
    Logon = int32;
    x_y_z = ""1""
    f32a = 007
    BodyLength = zchar[3];
    MetaDataX = false;
}

packet A {
    match A as A {
        42 : _x,
    },
}

packet int {
    //
    _x asx,
}

packet trueish {
    float @calculatedFrom(""""),
    zchar[65535] Pad @calculatedFrom(""a	b"") `
    `,
}

options {
    // " ++ [128512]%N ++ runes_of_ascii " emoji
    f32a = zchar[42];
    body = ""`tick`"";//
    As = true
    tag = 3;
    packetx = true
}")).
Eval vm_compute in ("<<<M3522>>>" ++ check (runes_of_ascii "// top
packet
    // c0
float
    // c1
{
    // c2
repeat
    // c3
i8i8
    // c4
MetaDataX
    // c5
`it's`
    // c6
,
    // c7
rootA
    // c8
,
    // c9
repeat
    // c10
int8
    // c11
int
    // c12
,
    // c13
match
    // c14
repeatCount
    // c15
as
    // c16
x_y_z
    // c17
{
    // c18
""{,}""
    // c19
:
    // c20
Logon
    // c21
,
    // c22
}
    // c23
,
    // c24
}
    // c25
")).
Eval vm_compute in ("<<<M4533>>>" ++ check (runes_of_ascii "packet lengthOf {
    f64 lengthOf @lengthOf(a1) `" ++ [28040; 24687; 31867; 22411]%N ++ runes_of_ascii "`,
    uint64 Logon `" ++ [233]%N ++ runes_of_ascii "`,
    string Pad @calculatedFrom(""\n""),
    zchar[0123456789] Foo @lengthOf(charz) `// not a comment`,
    @rightPad()
    match falsey as Packet {
        """" : u,
        65535 : float,
        [4294967296] : trueish,
        [10, 0123456789] : Logon,
        1 : roots,
        [7, 00, ""\" ++ [233]%N ++ runes_of_ascii """] : float,
    },
}")).
Eval vm_compute in ("<<<M4422>>>" ++ check (runes_of_ascii "  // " ++ [128512]%N ++ runes_of_ascii " emoji
  	options
	{	}

    packet

    a1{ 
// packet A { u8 x, }
  //x
@lengthOf(
    Foo ) 
pack {  repeat
	matchKey  // " ++ [27880; 37322]%N ++ runes_of_ascii "

	leftPad ,
zchar[7 ]

    zchar  `{ , }`	// c

, charz 
@lengthOf( 	 // " ++ [128512]%N ++ runes_of_ascii " emoji
	x_y_z
)  `
` 
,  }
,
	}root packet

roots{}options
{ calculatedFrom=
	false
    ; o = int64; u
=
	""a\\""
zchar = 	 // packet A { u8 x, }
		42 
;}")).
Eval vm_compute in ("<<<M3774>>>" ++ check (runes_of_ascii "packet repeatCount {
    @rightPad(' ')
    char[42] Header @calculatedFrom(""a\\""),
    @tag(10)
    i64 options1 @calculatedFrom(""x y""),
    Packet {
        i64 lengthOf @calculatedFrom(""abc""),
        repeat zchar[00] i64_ `u8 x,`,
    },
    string tag,
    string o `" ++ [233]%N ++ runes_of_ascii "`,
    repeat char[42] a1 `doc`,
    string leftPad @calculatedFrom(""a\\""),
}")).
Eval vm_compute in ("<<<M816>>>" ++ check (runes_of_ascii "// " ++ [128512]%N ++ runes_of_ascii " emoji
options{
}
    packet a1{
// packet A { u8 x, }
//x
@lengthOf(Foo )
    pack {
repeat matchKey // " ++ [27880; 37322]%N ++ runes_of_ascii "
leftPad,zchar[7 ] zchar `{ , }` // c
,
charz @lengthOf( // " ++ [128512]%N ++ runes_of_ascii " emoji
x_y_z
    )
    `
`
    , } ,}  root packet roots { } options {
    calculatedFrom =false ;o
= int64
;
    u =
""a\\""zchar = // packet A { u8 x, }
42 ;	}

")).
Eval vm_compute in ("<<<M4312>>>" ++ check (runes_of_ascii "root packet MetaDataX {
}

options {
    int = false
}

packet falsey {
    string tag `say ""hi""`,
    leftPad stringy,
    @calculatedFrom(""a	b"")
    As @calculatedFrom(""packet"") `line1
    line2`,
    A @lengthOf(body),
    @calculatedFrom(""" ++ [28040; 24687]%N ++ runes_of_ascii """)
    calculatedFrom,
    calculatedFrom @lengthOf(calculatedFrom) `tab	here`,
}")).
Eval vm_compute in ("<<<M4195>>>" ++ check (runes_of_ascii "  MetaData
len //	t
	{

    f64  calculatedFrom
,	x_y_z
	x,}  packet
    repeatCount {

    @lengthOf(
    pack
) match x_y_z
as  o	// " ++ [27880; 37322]%N ++ runes_of_ascii "
  { 7 
:Header 

    // `tick` ""quote"" 'q'

  // a // b
    	}
,
}
options  {

lengthOf = 
true;
}
packet

    leftPad {
MetaDataX@lengthOf(
    T  )
	`two words`

,

} ")).
Eval vm_compute in ("<<<M1881>>>" ++ check (runes_of_ascii "MetaData
    u { }  options { {
// c
// @lengthOf(
float = int8 ;rootA =false ; As =	int16 // `tick` ""quote"" 'q'
repeatCount
    // trailing space 
    =
    int16
; u8x =
    //	t
    '\x00' ; } options	{
    repeatCount
= 0
u128
    //
    = false ; i64_
// trailing space 
// `tick` ""quote"" 'q'
= '0' ; //	t
}
")).
Eval vm_compute in ("<<<M1897>>>" ++ check (runes_of_ascii "MetaData
    u { }  options {
// c
// @lengthOf(
float = ; int8 rootA =false ; As =	int16 // `tick` ""quote"" 'q'
repeatCount
    // trailing space 
    =
    int16
; u8x =
    //	t
    '\x00' ; } options	{
    repeatCount
= 0
u128
    //
    = false ; i64_
// trailing space 
// `tick` ""quote"" 'q'
= '0' ; //	t
}
")).
Eval vm_compute in ("<<<M1947>>>" ++ check (runes_of_ascii "MetaData
    u { }  options {
// c
// @lengthOf(
float = int8 ;rootA =false ; As =	int16 // `tick` ""quote"" 'q'
repeatCount
    // trailing space 
    int16
    =
; u8x =
    //	t
    '\x00' ; } options	{
    repeatCount
= 0
u128
    //
    = false ; i64_
// trailing space 
// `tick` ""quote"" 'q'
= '0' ; //	t
}
")).
Eval vm_compute in ("<<<M1890>>>" ++ check (runes_of_ascii "MetaData
    u { }  options {
// c
// @lengthOf(
float  int8 ;rootA =false ; As =	int16 // `tick` ""quote"" 'q'
repeatCount
    // trailing space 
    =
    int16
; u8x =
    //	t
    '\x00' ; } options	{
    repeatCount
= 0
u128
    //
    = false ; i64_
// trailing space 
// `tick` ""quote"" 'q'
= '0' ; //	t
}
")).
Eval vm_compute in ("<<<M1938>>>" ++ check (runes_of_ascii "MetaData
    u { }  options {
// c
// @lengthOf(
float = int8 ;rootA =false ; As =	[ // `tick` ""quote"" 'q'
repeatCount
    // trailing space 
    =
    int16
; u8x =
    //	t
    '\x00' ; } options	{
    repeatCount
= 0
u128
    //
    = false ; i64_
// trailing space 
// `tick` ""quote"" 'q'
= '0' ; //	t
}
")).
Eval vm_compute in ("<<<M342>>>" ++ check (runes_of_ascii "root packet roots {  @tag(7 // `tick` ""quote"" 'q'
) int64
    A ,}
//
//
packet u128
    // a // b
    { msg_type Pad
`line1
line2` , }options {crc = ""\" ++ [233]%N ++ runes_of_ascii """
; }
    root packet _x
    {
@lengthOf( pack// " ++ [27880; 37322]%N ++ runes_of_ascii "
)
    i16 MetaDataX	, calculatedFrom
    { packetx@lengthOf(BodyLength )`{ , }` , } // a // b
,}")).
Eval vm_compute in ("<<<M3614>>>" ++ check (runes_of_ascii "options {
    LittleEndian = true;
    StringPrefixLenType = u8;
    ArrayPrefixLenType = u8;
}
packet Ack {
}
root packet Quote {
    Ack,
    InSym94 {
        repeat Ack,
    },
    u16 msgKind,
    u16 OrderId @lengthOf(Body),
    match msgKind as Body {
        [110, 48] : Ack,
    },
}
")).
Eval vm_compute in ("<<<M3481>>>" ++ check (runes_of_ascii "// top
packet
    // c0
chars
    // c1
{
    // c2
}
    // c3
packet
    // c4
MetaDataX
    // c5
{
    // c6
@tag(
    // c7
42
    // c8
)
    // c9
i16
    // c10
string_
    // c11
,
    // c12
repeat
    // c13
x
    // c14
`say ""hi""`
    // c15
,
    // c16
}
    // c17
")).
Eval vm_compute in ("<<<M597>>>" ++ check (runes_of_ascii "
root packet
a1  {repeat
    string x
`// not a comment`	,
//x
// @lengthOf(
}options
//
//	t
{ stringy
= true } packet msg_type { @rightPad ( '\x00'
    // " ++ [27880; 37322]%N ++ runes_of_ascii "
    ) match crc
as packetx
{ 65535 :body , 65535 :
T,	}
    , //x
stringy
    ,u32 roots, uint32 body , }")).
Eval vm_compute in ("<<<M1603>>>" ++ check (runes_of_ascii "packet
//	t
// trailing space 
_x {
// packet A { u8 x, }
// c
char[
3
    ] u8x @lengthOf(
u8x ) , @calculatedFrom(""" ++ [128512]%N ++ runes_of_ascii """ // @lengthOf(
)
i16	Foo
@lengthOf(	string_
    )`doc`	, repeat	i64 metadata metadata , @lengthOf( string_
) i8 // c
u  `line1
line2`	,
}
")).
Eval vm_compute in ("<<<M1580>>>" ++ check (runes_of_ascii "packet
//	t
// trailing space 
_x {
// packet A { u8 x, }
// c
char[
3
    ] u8x @lengthOf(
u8x ) , @calculatedFrom(""" ++ [128512]%N ++ runes_of_ascii """ // @lengthOf(
)
i16	Foo
@lengthOf(	string_
    int32`doc`	, repeat	i64 metadata , @lengthOf( string_
) i8 // c
u  `line1
line2`	,
}
")).
Eval vm_compute in ("<<<M67>>>" ++ check (runes_of_ascii "packet lengthOf {// c
} root packet
asx { u32 Z9_
`say ""hi""` ,
@tag( 007
    )match
    u8x as Logon {
    [ ""abc""	]: tag,0123456789 : tag,  """ ++ [233]%N ++ runes_of_ascii "t" ++ [233]%N ++ runes_of_ascii """ : int
    ,
""`tick`"" : options1 , } ,@leftPad
( )  repeat
string  tag
    ,falsey `// not a comment` ,
}
")).
Eval vm_compute in ("<<<M1544>>>" ++ check (runes_of_ascii "packet
//	t
// trailing space 
_x {
// packet A { u8 x, }
// c
char[
3
    ] u8x @lengthOf(
u8x ) , """ ++ [128512]%N ++ runes_of_ascii """@calculatedFrom( // @lengthOf(
)
i16	Foo
@lengthOf(	string_
    )`doc`	, repeat	i64 metadata , @lengthOf( string_
) i8 // c
u  `line1
line2`	,
}
")).
Eval vm_compute in ("<<<M1532>>>" ++ check (runes_of_ascii "packet
//	t
// trailing space 
_x {
// packet A { u8 x, }
// c
char[
3
    ] u8x @lengthOf(
u8x  , @calculatedFrom(""" ++ [128512]%N ++ runes_of_ascii """ // @lengthOf(
)
i16	Foo
@lengthOf(	string_
    )`doc`	, repeat	i64 metadata , @lengthOf( string_
) i8 // c
u  `line1
line2`	,
}
")).
Eval vm_compute in ("<<<M1502>>>" ++ check (runes_of_ascii "packet
//	t
// trailing space 
_x {
// packet A { u8 x, }
// c

3
    ] u8x @lengthOf(
u8x ) , @calculatedFrom(""" ++ [128512]%N ++ runes_of_ascii """ // @lengthOf(
)
i16	Foo
@lengthOf(	string_
    )`doc`	, repeat	i64 metadata , @lengthOf( string_
) i8 // c
u  `line1
line2`	,
}
")).
Eval vm_compute in ("<<<M3956>>>" ++ check (runes_of_ascii "

  options 	 // c
	{ x_y_z

=
f64 }  // " ++ [27880; 37322]%N ++ runes_of_ascii "
		root packet
    As
	{  @tag(
255 ) string
	BodyLength
	,
	@leftPad

    (
) 
match
	Foo as

body
	{  007
:

i8i8 
,42  :
metadata

,	// @lengthOf(
	""""
	:

    body

    , } 
,

    } ")).
Eval vm_compute in ("<<<M361>>>" ++ check (runes_of_ascii "root
packet
f32a {
trueish
    falsey
, tag , repeat
    // trailing space 
    Pad{ u32
    i8i8 @calculatedFrom(""x y""
    )
, } ,@calculatedFrom( ""// no comment""  )@lengthOf( calculatedFrom
    ) @tag(	65535)  string T,
    }

")).
Eval vm_compute in ("<<<M1747>>>" ++ check (runes_of_ascii "options { trueish = ""`tick`"" ; string_= """ ++ [233]%N ++ runes_of_ascii "t" ++ [233]%N ++ runes_of_ascii """
    // c
    } root
    packet body { stringy @calculatedFrom( @calculatedFrom(
""a	b"" ) `line1
line2` , }
packet Logon {
    @leftPad(
    ' ' ) //	t
u16 string_ `u8 x,` ,
}
")).
Eval vm_compute in ("<<<M4050>>>" ++ check (runes_of_ascii "packet len {
    @calculatedFrom(""x y"")
    @tag(3)
    @tag(1)
    /// triple
    match o as Header {
        007 : BodyLength,
        ""x y"" : zchar,
        [""abc""] : string_,
    },// c
    int32 leftPad,
}// c")).
Eval vm_compute in ("<<<M1699>>>" ++ check (runes_of_ascii "options { trueish = ""`tick`"" float32 string_= """ ++ [233]%N ++ runes_of_ascii "t" ++ [233]%N ++ runes_of_ascii """
    // c
    } root
    packet body { stringy @calculatedFrom(
""a	b"" ) `line1
line2` , }
packet Logon {
    @leftPad(
    ' ' ) //	t
u16 string_ `u8 x,` ,
}
")).
Eval vm_compute in ("<<<M1707>>>" ++ check (runes_of_ascii "options { trueish = ""`tick`"" ; string_= = """ ++ [233]%N ++ runes_of_ascii "t" ++ [233]%N ++ runes_of_ascii """
    // c
    } root
    packet body { stringy @calculatedFrom(
""a	b"" ) `line1
line2` , }
packet Logon {
    @leftPad(
    ' ' ) //	t
u16 string_ `u8 x,` ,
}
")).
Eval vm_compute in ("<<<M3208>>>" ++ check (runes_of_ascii "// top
packet // c0
metadata // c1
{ // c2
Logon // c3
{ // c4
A // c5
`" ++ [28040; 24687; 31867; 22411]%N ++ runes_of_ascii "` // c6
, // c7
tag // c8
o // c9
, // c10
} // c11
, // c12
zchar // c13
len // c14
`// not a comment` // c15
, // c16
} // c17
")).
Eval vm_compute in ("<<<M1793>>>" ++ check (runes_of_ascii "options { trueish = ""`tick`"" ; string_= """ ++ [233]%N ++ runes_of_ascii "t" ++ [233]%N ++ runes_of_ascii """
    // c
    } root
    packet body { stringy @calculatedFrom(
""a	b"" ) `line1
line2` , }
packet Logon {
    (@leftPad
    ' ' ) //	t
u16 string_ `u8 x,` ,
}
")).
Eval vm_compute in ("<<<M1819>>>" ++ check (runes_of_ascii "options { trueish = ""`tick`"" ; string_= """ ++ [233]%N ++ runes_of_ascii "t" ++ [233]%N ++ runes_of_ascii """
    // c
    } root
    packet body { stringy @calculatedFrom(
""a	b"" ) `line1
line2` , }
packet Logon {
    @leftPad(
    ' ' ) //	t
u16 @tag( `u8 x,` ,
}
")).
Eval vm_compute in ("<<<M471>>>" ++ check (runes_of_ascii "packet Header { int@lengthOf( lengthOf
    ) , }
    packet	Z9_ { @lengthOf( Z9_ ) repeat
i8 lengthOf, } options {
    rootA =  ' ' u8x= 65535 As = int8 matchKey = '\x00'
; msg_type  =
' ';
    }")).
Eval vm_compute in ("<<<M1363>>>" ++ check (runes_of_ascii "packet
    metadata{ repeat BodyLength
// packet A { u8 x, }
// c
,
    /// triple
    int8
chars , u128@calculatedFrom( ""a\""b""	) `tab	here` ,
// packet A { u8 x, }
//x
}
// packet A { u8 x, }
")).
Eval vm_compute in ("<<<M1169>>>" ++ check (runes_of_ascii "packet i64_ {match
tag as x
{ """ ++ [128512]%N ++ runes_of_ascii """ : string_ ,
    ""a\\"" : rootA ,
""abc""
    :
    pack , },
@tag( 3 ) // @lengthOf(
string metadata , string stringy
`u8 x,`
// @lengthOf(
// a // b
, }
")).
Eval vm_compute in ("<<<M966>>>" ++ check (runes_of_ascii "packet metadata
    {}
    packet charz // `tick` ""quote"" 'q'
{
    repeat
string len ,string_@lengthOf(
x_y_z )
`" ++ [233]%N ++ runes_of_ascii "`
, repeat asx,
    // @lengthOf(
    } MetaData
f32a
    { }")).
Eval vm_compute in ("<<<M1159>>>" ++ check (runes_of_ascii "root
packet // " ++ [128512]%N ++ runes_of_ascii " emoji
_x
{@rightPad ( ' ' )
f32
    zchar
    @calculatedFrom(
    ""abc"" )`
` , char[
    // trailing space 
    255
] roots `crlf
line` ,repeat u8x , }

")).
Eval vm_compute in ("<<<M1201>>>" ++ check (runes_of_ascii "packet
falsey {lengthOf
{ char[
    // packet A { u8 x, }
    65535 ] Header	@calculatedFrom(""a\\""
)
    /// triple
    ,
repeat x
len,},
    } MetaData
x_y_z {	}
")).
Eval vm_compute in ("<<<M2383>>>" ++ check (runes_of_ascii "// c
packet x { @lengthOf( metadata ) repeat repeat lengthOf
,a1{
trueish	,// c
repeat//	t
MetaDataX , } , zchar[
    42	] rootA // `tick` ""quote"" 'q'
,
    }
")).
Eval vm_compute in ("<<<M4189>>>" ++ check (runes_of_ascii "MetaData Header {
}

MetaData Logon {
    int32 falsey,
    packetx _x,
    char[] Logon `two words`,
    matchKey packetx,
    u32 u,
    i64 float `it's`,
}")).
Eval vm_compute in ("<<<M2360>>>" ++ check (runes_of_ascii "// c
packet x { @lengthOf( metadata ) repeat lengthOf
,a1{
trueish	,// c
repeat//	t
MetaDataX , } } , zchar[
    42	] rootA // `tick` ""quote"" 'q'
,
    }
")).
Eval vm_compute in ("<<<M2120>>>" ++ check (runes_of_ascii "options{
_x
= true
} options
{ o	= = /// triple
false
    ; chars
= ""\n"" } root packet	Pad
/// triple
// packet A { u8 x, }
{	chars
    // a // b
    ,}")).
Eval vm_compute in ("<<<M960>>>" ++ check (runes_of_ascii "// packet A { u8 x, }
root  packet Logon/// triple
{A`doc` , string len ,
} MetaData len	{int64 i8i8`{ , }`, }
packet // " ++ [27880; 37322]%N ++ runes_of_ascii "
lengthOf {i64 Header
,} //	t")).
Eval vm_compute in ("<<<M2102>>>" ++ check (runes_of_ascii "options{
_x
= true
{ options
{ o	= /// triple
false
    ; chars
= ""\n"" } root packet	Pad
/// triple
// packet A { u8 x, }
{	chars
    // a // b
    ,}")).
Eval vm_compute in ("<<<M2119>>>" ++ check (runes_of_ascii "options{
_x
= true
} options
{ o	 /// triple
false
    ; chars
= ""\n"" } root packet	Pad
/// triple
// packet A { u8 x, }
{	chars
    // a // b
    ,}")).
Eval vm_compute in ("<<<M2401>>>" ++ check (runes_of_ascii "// c
packet x { @lengthOf( metadata ) repeat lengthOf
,a1{
trueish	,// c
repeat//	t
MetaDataX , } , }
    42	] rootA // `tick` ""quote"" 'q'
,
    }
")).
Eval vm_compute in ("<<<M2159>>>" ++ check (runes_of_ascii "options{
_x
= true
} options
{ o	= /// triple
false
    ; chars
= ""\n"" } root 	Pad
/// triple
// packet A { u8 x, }
{	chars
    // a // b
    ,}")).
Eval vm_compute in ("<<<M4314>>>" ++ check (runes_of_ascii "
MetaData
T { 
i64
body

    `
` 	 // c
  ,string

packetx ,  int Pad
    ,	// @lengthOf(
  char[]  A 
`" ++ [233]%N ++ runes_of_ascii "`,	i8i8
float,
	repeatCount o, }

")).
Eval vm_compute in ("<<<M611>>>" ++ check (runes_of_ascii "root packet // " ++ [27880; 37322]%N ++ runes_of_ascii "
_x	{repeat int64 trueish//x
, string calculatedFrom , Z9_ As
    , match tag
as trueish { 65535:  repeatCount
, }//
, }
")).
Eval vm_compute in ("<<<M4154>>>" ++ check (runes_of_ascii "packet Foo {
}

packet MetaDataX {
    char[] Logon,
}

root packet MetaDataX {
    match Z9_ as zchar {
        7 : zchar,
    },
}")).
Eval vm_compute in ("<<<M3775>>>" ++ check (runes_of_ascii "
MetaData
float{float64

    charz  `
`

    ,
    } root
packet  chars 
      // c

  { @rightPad

(	'0') Foo
	,
    }

")).
Eval vm_compute in ("<<<M541>>>" ++ check (runes_of_ascii "// @lengthOf(
options {
u128
    =  ' '  chars
=
    char ; float=""// no comment"" repeatCount
    //x
    =
    false;
}
")).
Eval vm_compute in ("<<<M2337>>>" ++ check (runes_of_ascii "// c
packet x { @lengthOf( metadata ) repeat lengthOf
,a1{
trueish	,// c
repeat//	t
MetaDataX , } , zchar[
    42	] root")).
Eval vm_compute in ("<<<M3342>>>" ++ check (runes_of_ascii "root packet matchKey { zchar[ 3 ] pack @calculatedFrom( ""a	b"" ) `doc` , } options { // c
} MetaData A { int8 msg_type , }")).
Eval vm_compute in ("<<<M1475>>>" ++ check (runes_of_ascii "
packet
    falsey { Header@calculatedFrom(""packet""  ) , < char[
    0123456789 ] packetx
    , } // `tick` ""quote"" 'q'")).
Eval vm_compute in ("<<<M1424>>>" ++ check (runes_of_ascii "
packet
    falsey { Header@calculatedFrom()  ""packet"" , char[
    0123456789 ] packetx
    , } // `tick` ""quote"" 'q'")).
Eval vm_compute in ("<<<M3662>>>" ++ check (runes_of_ascii "packet  rootA { }options

{uint8x
	= 	 //	t
  u32

    ;
i64_  =	255 
;len

    =
    ' '
;
} // @lengthOf(
")).
Eval vm_compute in ("<<<M4070>>>" ++ check (runes_of_ascii "packet
    metadata
    // c
    {  Logon

{ A`" ++ [28040; 24687; 31867; 22411]%N ++ runes_of_ascii "`,

tag
	o
,	} ,
    zchar  len `// not a comment`
    ,

}
")).
Eval vm_compute in ("<<<M1241>>>" ++ check (runes_of_ascii "packet T {@rightPad
() @tag(00
    ) char[]
a1
    @calculatedFrom(
    ""a\""b""
    )
    `two words`
    , }
")).
Eval vm_compute in ("<<<M845>>>" ++ check (runes_of_ascii "packet zchar { @lengthOf( i8i8 ) int16
msg_type @lengthOf(
    // c
    As // `tick` ""quote"" 'q'
) `
`
,}
")).
Eval vm_compute in ("<<<M4543>>>" ++ check (runes_of_ascii "MetaData float {
    float64 charz `
        `,
}

root packet chars {
    @rightPad('0')
    Foo,
}// c")).
Eval vm_compute in ("<<<M1467>>>" ++ check (runes_of_ascii "
packet
    falsey { Header@calculatedFrom(""packet""  ) , char[
    0123456789 ] packetx
    , } // `")).
Eval vm_compute in ("<<<M2938>>>" ++ check (runes_of_ascii "packet A {
  match k as n {
    [""a"", ""bb"", ""c c"", ""d"", ""e"", ""f"", ""g"", ""h""] : B,
    2 : C
  },
}")).
Eval vm_compute in ("<<<M4259>>>" ++ check (runes_of_ascii "packet

    chars 
    //
	{ i8
	body @lengthOf( crc), 
repeat	char[]
zchar 
,body
`
`
,}

")).
Eval vm_compute in ("<<<M378>>>" ++ check (runes_of_ascii "packet
len
    /// triple
    { @tag(1
) zchar[1 ] Foo
@lengthOf( Foo )
,T zchar
``
, }

")).
Eval vm_compute in ("<<<M2299>>>" ++ check (runes_of_ascii "options
{ } options { BodyLength= u1@tag6 Header= f64 ; u128 =
    true
    ; } // a // b")).
Eval vm_compute in ("<<<M3278>>>" ++ check (runes_of_ascii "MetaData float { float64 charz
// c
`
` , } root packet chars { @rightPad ( '0' ) Foo , }")).
Eval vm_compute in ("<<<M3489>>>" ++ check (runes_of_ascii "packet chars { // c
} packet MetaDataX { @tag( 42 ) i16 string_ , repeat x `say ""hi""` , }")).
Eval vm_compute in ("<<<M4413>>>" ++ check (runes_of_ascii "MetaData body {
    i64 pack `it's`,
}

// c
packet stringy {
    int16 calculatedFrom,
}")).
Eval vm_compute in ("<<<M2295>>>" ++ check (runes_of_ascii "options
{ } options { BodyLength= u16 Header= f64 ; u128 =
    true
    ; } //' a // b")).
Eval vm_compute in ("<<<M2214>>>" ++ check (runes_of_ascii "options
} { options { BodyLength= u16 Header= f64 ; u128 =
    true
    ; } // a // b")).
Eval vm_compute in ("<<<M3228>>>" ++ check (runes_of_ascii "packet metadata { Logon { A `" ++ [28040; 24687; 31867; 22411]%N ++ runes_of_ascii "` ,
// c
tag o , } , zchar len `// not a comment` , }")).
Eval vm_compute in ("<<<M2226>>>" ++ check (runes_of_ascii "options
{ } options  BodyLength= u16 Header= f64 ; u128 =
    true
    ; } // a // b")).
Eval vm_compute in ("<<<M3448>>>" ++ check (runes_of_ascii "packet o { repeat Logon uint8x , } options {
// c
asx = zchar[ 3 ] stringy = '\x00' }")).
Eval vm_compute in ("<<<M4079>>>" ++ check (runes_of_ascii "packet order_item {
    u8 a,
}

root packet new_order {
    order_item,
    u8 x,
}")).
Eval vm_compute in ("<<<M3392>>>" ++ check (runes_of_ascii "// c
MetaData body { i64 pack `it's` , } packet stringy { int16 calculatedFrom , }")).
Eval vm_compute in ("<<<M1051>>>" ++ check (runes_of_ascii "options {
//	t
// packet A { u8 x, }
roots // packet A { u8 x, }
= char[42 ]
; }")).
Eval vm_compute in ("<<<M2832>>>" ++ check (runes_of_ascii ") char[] u64 , int16 float32 = } match @lengthOf( match @lengthOf( MetaData i32")).
Eval vm_compute in ("<<<M2910>>>" ++ check (runes_of_ascii "packet A {
  match k as n {
    [1, 22, 007, 4, 5, 66] : B,
    2 : C
  },
}")).
Eval vm_compute in ("<<<M4469>>>" ++ check (runes_of_ascii "

  MetaData

    M
    { u8

x 
`tab
	x`	,	T 
t
`tab
	x`

    , }
")).
Eval vm_compute in ("<<<M3974>>>" ++ check (runes_of_ascii "options	{
	_x=  0;

    As =  zchar[

    4294967296
] ; } //x
 
")).
Eval vm_compute in ("<<<M552>>>" ++ check (runes_of_ascii "  options{ i8i8 = true// " ++ [128512]%N ++ runes_of_ascii " emoji
chars = 42
    /// triple
    ; }
")).
Eval vm_compute in ("<<<M3576>>>" ++ check (runes_of_ascii "  root
packet

P {u8
s_u8
    ,repeat u8 r_u8 ,u16
b_len
,  }
")).
Eval vm_compute in ("<<<M4104>>>" ++ check (runes_of_ascii "root
    packet P
	{ repeat 
char cs
,u8 
x

    ,

    }

")).
Eval vm_compute in ("<<<M4152>>>" ++ check (runes_of_ascii "
packet  A {  B

b`
` , 
B`
`,

    repeat B
bs `
` 
,

}")).
Eval vm_compute in ("<<<M3368>>>" ++ check (runes_of_ascii "packet x
// c
{ @rightPad ( ) repeat roots Logon `doc` , }")).
Eval vm_compute in ("<<<M3014>>>" ++ check (runes_of_ascii "packet A {
    B b `
`,
    B `
`,
    repeat B bs `
`,
}")).
Eval vm_compute in ("<<<M165>>>" ++ check (runes_of_ascii "packet x
{ @lengthOf( x_y_z )
BodyLength tag // c
,}
")).
Eval vm_compute in ("<<<M2265>>>" ++ check (runes_of_ascii "options
{ } options { BodyLength= u16 Header= f64")).
Eval vm_compute in ("<<<M2754>>>" ++ check (runes_of_ascii "f64 false float32 match int16 int16 '\x00' char")).
Eval vm_compute in ("<<<M2188>>>" ++ check (runes_of_ascii "options{
_x
= true
} options
{ o	= /// triple")).
Eval vm_compute in ("<<<M2762>>>" ++ check (runes_of_ascii "zchar[ @leftPad root repeat ) char [ [ char")).
Eval vm_compute in ("<<<M3909>>>" ++ check (runes_of_ascii "packet len {
    int16 trueish `
    `,
}")).
Eval vm_compute in ("<<<M240>>>" ++ check (runes_of_ascii "
packet Header{ char[] body
//x
//
, }
")).
Eval vm_compute in ("<<<M2736>>>" ++ check ([65533; 65533]%N ++ runes_of_ascii "l," ++ [65533]%N ++ runes_of_ascii "," ++ [65533]%N ++ runes_of_ascii ":2fu" ++ [65533; 24; 65533; 65533; 65533]%N ++ runes_of_ascii "AF" ++ [65533; 4; 65533; 65533]%N ++ runes_of_ascii "G" ++ [65533; 65533; 65533]%N ++ runes_of_ascii "_e" ++ [65533; 65533; 65533; 65533; 65533]%N ++ runes_of_ascii "PM" ++ [65533; 65533]%N)).
Eval vm_compute in ("<<<M1033>>>" ++ check (runes_of_ascii "options {
_x = 65535// " ++ [128512]%N ++ runes_of_ascii " emoji
; }
")).
Eval vm_compute in ("<<<M2768>>>" ++ check (runes_of_ascii "cbXYPX~e2)CI,UYRj(FHGR'\b#6AQ*Q<F\")).
Eval vm_compute in ("<<<M1143>>>" ++ check (runes_of_ascii "
options { options1= false
    }")).
Eval vm_compute in ("<<<M4484>>>" ++ check (runes_of_ascii "
MetaData

    As
    {

}

")).
Eval vm_compute in ("<<<M80>>>" ++ check (runes_of_ascii "packet u8x {
    //	t
    }

")).
Eval vm_compute in ("<<<M1421>>>" ++ check (runes_of_ascii "
packet
    falsey { Header")).
Eval vm_compute in ("<<<M2798>>>" ++ check (runes_of_ascii "3" ++ [65533]%N ++ runes_of_ascii "XL" ++ [65533; 65533]%N ++ runes_of_ascii "~gO+" ++ [65533]%N ++ runes_of_ascii "x\" ++ [127; 65533; 4]%N ++ runes_of_ascii "`" ++ [24]%N ++ runes_of_ascii "i" ++ [31; 65533; 65533; 65533]%N ++ runes_of_ascii "R" ++ [65533; 65533]%N)).
Eval vm_compute in ("<<<M899>>>" ++ check (runes_of_ascii "
MetaData Pad
    {  }
")).
Eval vm_compute in ("<<<M141>>>" ++ check (runes_of_ascii "packet Header {
    }
")).
Eval vm_compute in ("<<<M1416>>>" ++ check (runes_of_ascii "
packet
    falsey {")).
Eval vm_compute in ("<<<M2632>>>" ++ check (runes_of_ascii "packet A { } packet")).
Eval vm_compute in ("<<<M1879>>>" ++ check (runes_of_ascii "MetaData
    u { }")).
Eval vm_compute in ("<<<M3123>>>" ++ check (runes_of_ascii "packet A {
}// c 	")).
Eval vm_compute in ("<<<M3078>>>" ++ check (runes_of_ascii "packet A {
}// c" ++ [5760]%N)).
Eval vm_compute in ("<<<M915>>>" ++ check (runes_of_ascii "packet body { }")).
Eval vm_compute in ("<<<M2840>>>" ++ check (runes_of_ascii "x" ++ [65533]%N ++ runes_of_ascii "V" ++ [65533; 65533; 65533]%N ++ runes_of_ascii "yj" ++ [65533; 65533; 65533]%N ++ runes_of_ascii "w" ++ [65533]%N)).
Eval vm_compute in ("<<<M4272>>>" ++ check (runes_of_ascii "/// triple
")).
Eval vm_compute in ("<<<M2638>>>" ++ check (runes_of_ascii "packet A")).
Eval vm_compute in ("<<<M2425>>>" ++ check (runes_of_ascii "char[]")).
Eval vm_compute in ("<<<M2461>>>" ++ check (runes_of_ascii "roots")).
Eval vm_compute in ("<<<M908>>>" ++ check (runes_of_ascii "//x
")).
Eval vm_compute in ("<<<M2438>>>" ++ check (runes_of_ascii "u8x")).
Eval vm_compute in ("<<<M2846>>>" ++ check (runes_of_ascii "[ ;")).
Eval vm_compute in ("<<<M2535>>>" ++ check (runes_of_ascii "_")).
