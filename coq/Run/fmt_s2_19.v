From FP Require Import Lexer Parser ShowPT Digest Formatter.
From Coq Require Import String List NArith.
Import ListNotations.
Open Scope string_scope.
Set Printing Width 100000000.
Set Printing Depth 100000000.
Definition show_fres (r : fres) : string :=
  match r with
  | FOk s => "OK:" ++ sh_escaped s ""
  | FErr s => "ERR:" ++ sh_escaped s ""
  | FPanic p => "PANIC:" ++ p
  end.
Definition check (rs : list rune) : string := digest (show_fres (format_res rs)).
Definition full (rs : list rune) : string := show_fres (format_res rs).
Eval vm_compute in ("<<<M134>>>" ++ check (runes_of_ascii "packet int
    {
match Pad as	Z9_ { [65535,
    ""// no comment"" , ""a	b""//x
, // " ++ [128512]%N ++ runes_of_ascii " emoji
""CRC32"" ,
00 , 0123456789 , 0]
:  Z9_
4294967296
: stringy ,""""//
: f32a
    ,
"""" :
//	t
// " ++ [27880; 37322]%N ++ runes_of_ascii "
Header, [""it's"" , 1,""1"" ] :
msg_type , } , @leftPad ( )
f32 Foo
    // `tick` ""quote"" 'q'
    ``	, charz {
repeat int8
options1  ,repeat  char[]
T
,
repeat string
crc // c
`doc`
    //x
    , uint8x`a\`
    ,} ,} packet
    Logon{ A, u8
metadata , @lengthOf( trueish )
// a // b
// packet A { u8 x, }
@lengthOf(u8x) @lengthOf( A)
    // " ++ [27880; 37322]%N ++ runes_of_ascii "
    repeat string
trueish
    // " ++ [128512]%N ++ runes_of_ascii " emoji
    , @tag( 3) match
    rootA as
    Pad // @lengthOf(
{42 :msg_type,[ 0
    // a // b
    ,
// trailing space 
// `tick` ""quote"" 'q'
""" ++ [128512]%N ++ runes_of_ascii """ ,00
] : asx
, [ """ ++ [233]%N ++ runes_of_ascii "t" ++ [233]%N ++ runes_of_ascii """ ,""{,}""
,""" ++ [233]%N ++ runes_of_ascii "t" ++ [233]%N ++ runes_of_ascii """ , 255 ] //	t
:T ""x y"" : calculatedFrom
[
""a	b""	,0123456789	,
    ""{,}"" ,
    3 , 3
, 7 ,
    4294967296 ,  4294967296 ]: Header , [0,4294967296,
    10
    // packet A { u8 x, }
    ,
007 , 007 ,1 , ""1"",	""`tick`""
    //	t
    ] : Packet }/// triple
,
    zchar[
0
    ] asx @lengthOf( x_y_z
    )
`{ , }`
,
repeat char[
    7 ] leftPad, stringy`` , falsey //
repeatCount
`{ , }` ,}packet
    MetaDataX // packet A { u8 x, }
{
options1,	}
    // " ++ [27880; 37322]%N ++ runes_of_ascii "
    packet
    zchar { // " ++ [27880; 37322]%N ++ runes_of_ascii "
uint16 falsey ,  match string_ as BodyLength {
[
    4294967296 , 42 ,255 , ""1""
, """ ++ [28040; 24687]%N ++ runes_of_ascii """ ,""packet"" ,""`tick`"" ]
: Logon ,
7 : packetx , } , @leftPad  (
) @calculatedFrom(
    /// triple
    ""\n"" )
    @leftPad  () match T as
packetx {""1"" :options1, } //
,uint8 MetaDataX@lengthOf(	roots  ), @tag( 0123456789 //	t
) body// packet A { u8 x, }
@calculatedFrom( ""packet"" // @lengthOf(
)
// c
// trailing space 
`{ , }` ,@lengthOf(	roots )
zchar[ 0123456789 ]
repeatCount
    , repeat int32 matchKey `a\` , @lengthOf(
    options1 )u8 pack , @rightPad( ' ' ) float32 f32a
    , @rightPad (
    /// triple
    '\x00' )
    @rightPad(	) @calculatedFrom(// trailing space 
""CRC32"" )repeat
pack { // @lengthOf(
zchar[00 ] falsey ``
    , match calculatedFrom	as // c
leftPad { 65535 // trailing space 
: // packet A { u8 x, }
Z9_
    , 007//x
:
charz,} , repeat zchar[7] Pad ,} , }
//x
")).
Eval vm_compute in ("<<<M3960>>>" ++ check (runes_of_ascii "MetaData BodyLength {
    zchar[42] falsey,
    x_y_z trueish `{ , }`,
    options1 Header `
        `,
    uint8 Header `tab	here`,
    uint8 zchar,
    float64 len,
}

packet chars {
    zchar[00] options1,
    zchar[7] Header,
    @tag(0)
    char[] MetaDataX `line1
        line2`,
    repeat metadata {
        i64 MetaDataX,
        int8 o,
        leftPad Pad,
        string Z9_ `u8 x,`,
    },
    @leftPad('0')
    u64 calculatedFrom @calculatedFrom(""a\""b""),
    @lengthOf(leftPad)
    repeat Foo `line1
        line2`,
}

packet options1 {
    @tag(00)
    body asx,
    // a // b
    // " ++ [128512]%N ++ runes_of_ascii " emoji
    repeat MetaDataX {
        repeat i64 u8x `" ++ [233]%N ++ runes_of_ascii "`,
    },
    pack @calculatedFrom(""CRC32"") `
        `,
    repeat Pad {
        Foo {
            repeat i8i8,
            MetaDataX,
            // @lengthOf(
            lengthOf @calculatedFrom(""abc"") `// not a comment`,/// triple
        },
    },
    float64 string_ @calculatedFrom(""it's"") `u8 x,`,
    i8 Z9_ @lengthOf(_x),
    BodyLength matchKey `tab	here`,
    uint64 As @calculatedFrom(""// no comment""),
}

packet leftPad {
    match packetx as Foo {
        [3, ""x y""] : As,
        00 : leftPad,
        [""\n"", """"] : MetaDataX,
        00 : x,
        """" : int,
    },
    i32 Foo,
    repeat string roots,
    repeat body chars `" ++ [28040; 24687; 31867; 22411]%N ++ runes_of_ascii "`,
    int `" ++ [233]%N ++ runes_of_ascii "`,
    @rightPad(' ')
    string BodyLength,
    @lengthOf(lengthOf)
    char uint8x `line1
        line2`,
    zchar[00] repeatCount @calculatedFrom(""" ++ [28040; 24687]%N ++ runes_of_ascii """),
    @calculatedFrom(""a	b"")
    falsey @calculatedFrom(""1"") `crlf
        line`,
}//x

packet Header {
    @calculatedFrom(""" ++ [28040; 24687]%N ++ runes_of_ascii """)
    int64 u `crlf
        line`,
    @calculatedFrom(""CRC32"")
    // packet A { u8 x, }
    int64 uint8x,
    char[255] Foo `
        `,
}")).
Eval vm_compute in ("<<<M4254>>>" ++ check (runes_of_ascii "// top
options {
    // c1a
    // c1b
    LittleEndian = true;// c5
    StringPrefixLenType = u32;
    FixedStringPadChar = '0';
}// c14

packet Logout {
    // c17a
    // c17b
    repeat InMsgkind49 {
        // c20
        u8 pad0,
    },// c25a
    // c25b
    repeat char[5] seqNo,// c31a
    // c31b
    repeat u8 price,
}// c36a

// c36b
packet Party {
    // c39a
    // c39b
    zchar[7] Qty,
}// c45a

// c45b
packet Logon {
    // c48
    repeat InRef10 {
        // c51
        string price,
        char[] sym,
        // c57
        repeat Logout,// c60
    },
    // c62
    repeat char[3] count,// c68a
    // c68b
    repeat Party,// c71
    char[] tag7,// c74a
    @rightPad('0')
    // c78
    char[2] clOrdID,
}// c84a

// c84b
packet Order {
    // c87
    InTail13 {
        // c89
        Party,
    },
    repeat char[4] count,
}

// c100
root packet Cancel {
    // c104a
    // c104b
    Logout,// c106
    @leftPad('0')
    // c110a
    // c110b
    char[9] msgKind,
    // c115
    string lastPx,
    // c118
    string tag7,// c121a
    // c121b
    zchar[1] OrderId,// c126a
    // c126b
    repeat Party,
    // c129
    u16 sym,// c132a
    // c132b
    u16 Acct @lengthOf(Body),// c138
    match sym as Body {
        // c143a
        // c143b
        [24, 44] : Logout,
        160 : Order,
        // c155
        91 : Logon,
        // c159
        43 : Party,
    },// c165a
    // c165b
    u16 Tail @calculatedFrom(""CRC32""),// c171a
}// c172")).
Eval vm_compute in ("<<<M1049>>>" ++ check (runes_of_ascii "
packet
charz {  match Packet as x_y_z {
    """" :f32a
    , [255 // " ++ [27880; 37322]%N ++ runes_of_ascii "
,
4294967296 ,0 ,
    4294967296 ,
10 , 00
]
:
crc""{,}"" :Foo , 65535	:
    // a // b
    Pad 10 :Logon,
}
    ,	repeat  Foo {
match  tag
as matchKey {[ 65535, 3 ]  :
    //
    body  , 10: A , 42 :
    body
    , 007 : As ,  [
    // trailing space 
    ""a\\""
// " ++ [128512]%N ++ runes_of_ascii " emoji
//x
] : msg_type ,
[
0123456789, 255 ] : msg_type
    /// triple
    ,	} , u16// " ++ [128512]%N ++ runes_of_ascii " emoji
MetaDataX
, o { match
    T as string_ { 0	:
// packet A { u8 x, }
/// triple
trueish,
    3 : MetaDataX ,
    //x
    ""packet"" :
rootA ,
    7 : o[
""a\\""
    // trailing space 
    , 42 ,//
0123456789 , ""a	b"",
    // " ++ [27880; 37322]%N ++ runes_of_ascii "
    ""packet"" ] /// triple
: f32a , [ ""a	b""
    , 4294967296 ,""packet""	, 65535 ] :
    falsey,
} ,}
, },packetx u ``// c
,@tag(	42
    // a // b
    )u32
    f32a  ``
,msg_type@lengthOf( matchKey )	`{ , }` ,  @leftPad ( ' ' )
char[] asx @calculatedFrom( """ ++ [28040; 24687]%N ++ runes_of_ascii """
    )
    ,
/// triple
// " ++ [128512]%N ++ runes_of_ascii " emoji
zchar[ 3 ]rootA ,	uint16 // a // b
u8x `two words`
, @rightPad
('0' ) match zchar/// triple
as
repeatCount {
    ""a\\"" : T , ""a\\"" : As,[ 255, ""// no comment"" , 4294967296 , ""x y""
//	t
//x
, ""{,}""
,	00 , 7 ,""it's"" ] :
leftPad ,007//
: zchar
, ""a	b""
    :
    // packet A { u8 x, }
    falsey,
}
, }options {
lengthOf
    = '0'// a // b
}
")).
Eval vm_compute in ("<<<M913>>>" ++ check (runes_of_ascii "// packet A { u8 x, }
root
    packet
    u128
    {
// packet A { u8 x, }
// trailing space 
len T
`
`	, match Foo as
float { 0  : roots , [""`tick`"" ]
    : //
_x , } , @rightPad ( '0' ) @calculatedFrom( ""packet""  ) //
char[] x_y_z
    `crlf
line` , i64 msg_type , @rightPad ( ' ' ) @lengthOf( // c
roots)
Pad @calculatedFrom( """ ++ [233]%N ++ runes_of_ascii "t" ++ [233]%N ++ runes_of_ascii """)`" ++ [233]%N ++ runes_of_ascii "`	, }
    packet Logon { repeat len Z9_ , u8x@calculatedFrom( ""a\""b"" ) ,
    repeat int8 rootA `
` //
,string
//	t
//	t
Foo , // c
@lengthOf( float ) repeat// " ++ [128512]%N ++ runes_of_ascii " emoji
char[]
options1  , } root
packet x
    { @tag( //x
1
    )repeat string_ , f64	lengthOf , @tag( // " ++ [27880; 37322]%N ++ runes_of_ascii "
4294967296 ) repeat u8x
len  `" ++ [233]%N ++ runes_of_ascii "`
,
//	t
// `tick` ""quote"" 'q'
@rightPad
('\x00'  )@calculatedFrom(
""CRC32"")
    @tag( 3 ) falsey
{
    uint8 trueish
    `two words`
, // `tick` ""quote"" 'q'
} // @lengthOf(
,@calculatedFrom( """ ++ [233]%N ++ runes_of_ascii "t" ++ [233]%N ++ runes_of_ascii """ ) // " ++ [27880; 37322]%N ++ runes_of_ascii "
repeat
    zchar[00
] // packet A { u8 x, }
crc	`two words`,	T // " ++ [128512]%N ++ runes_of_ascii " emoji
, match i64_ as
    // " ++ [27880; 37322]%N ++ runes_of_ascii "
    msg_type	{""{,}"" :
u8x ""\" ++ [233]%N ++ runes_of_ascii """
: T , [	7
] : matchKey,
""`tick`"" : len , 42 : matchKey
,
} , // c
}
    options { x= zchar[
10 ] ; pack  = false
repeatCount =
true ; charz
    = '0' BodyLength = ""// no comment""; }

")).
Eval vm_compute in ("<<<M207>>>" ++ check (runes_of_ascii "
root packet	msg_type {u128//
, @calculatedFrom(
""" ++ [233]%N ++ runes_of_ascii "t" ++ [233]%N ++ runes_of_ascii """ ) repeat char[
    //
    3]
    metadata`crlf
line`,
char[255 ]	Pad
,  asx @calculatedFrom(""packet"" )
    , repeat stringy `tab	here`
    ,
//x
//	t
repeat //x
As `two words`, @leftPad ( '\x00'
    ) repeat matchKey`a\`	, @rightPad (' ' ) repeat/// triple
Pad
{ repeat
    u
,
// trailing space 
// packet A { u8 x, }
repeat char[] uint8x , }
    ,
u128	{ repeat
As `u8 x,` ,
pack msg_type,	uint32 lengthOf @calculatedFrom( ""1""	), match roots as
    // " ++ [128512]%N ++ runes_of_ascii " emoji
    x{ ""{,}"" :
    // " ++ [27880; 37322]%N ++ runes_of_ascii "
    Pad
    }
    ,  } ,}
root packet tag
{string pack , } root
packet u8x
    {
string
    pack `doc` , @lengthOf( options1
    )f32	matchKey @calculatedFrom( ""`tick`"" )
`two words` , @leftPad (  '\x00' )@lengthOf( Packet) @tag( 007//x
)
int32
    Pad	@calculatedFrom(""a\\""
)
, @calculatedFrom( """" ) string a1 @lengthOf( metadata ) ,match u128 as Foo {
    [ ""`tick`"" ]
: msg_type
    ,
    10 // a // b
:
msg_type, 00
:  len, ""`tick`"" : _x ,1 : repeatCount
    , [ 1 , //	t
1 ] :
    // packet A { u8 x, }
    pack ,} , @leftPad ( )
float64 pack
    `
` ,
    }")).
Eval vm_compute in ("<<<M4029>>>" ++ check (runes_of_ascii "packet a1 {
    @rightPad(' ')
    repeat a1,
    //	t
    repeat float32 i8i8 `two words`,
    @lengthOf(A)
    float zchar,
    @rightPad('0')
    uint32 o `doc`,
    @calculatedFrom(""packet"")
    repeat asx `crlf
    line`,
    @tag(007)
    @calculatedFrom(""CRC32"")
    repeat uint64 A `line1
    line2`,
    @leftPad('\x00')
    // packet A { u8 x, }
    //x
    string stringy ``,
    @rightPad('\x00')
    @tag(255)
    body @lengthOf(Z9_),
    match x_y_z as falsey {
        ""\" ++ [233]%N ++ runes_of_ascii """ : options1,
    },
    Logon falsey `say ""hi""`,
}

packet Foo {
}

options {
    // @lengthOf(
    // `tick` ""quote"" 'q'
    f32a = ""a\""b"";
    float = '0';
    calculatedFrom = 65535;
    msg_type = '0';
    // trailing space 
    A = """"
}

root packet string_ {
    match float as u128 {
        [""\n""] : Packet,
    },
}

packet charz {
    lengthOf @calculatedFrom(""" ++ [28040; 24687]%N ++ runes_of_ascii """),
    @leftPad(' ')
    repeat chars `" ++ [28040; 24687; 31867; 22411]%N ++ runes_of_ascii "`,
    match leftPad as a1 {
        ""`tick`"" : string_,
        // c
        // c
        10 : string_,
        4294967296 : Foo,
    },
}")).
Eval vm_compute in ("<<<M354>>>" ++ check (runes_of_ascii "// a // b
packet chars {
    i64_ tag `say ""hi""` , }
// " ++ [128512]%N ++ runes_of_ascii " emoji
// `tick` ""quote"" 'q'
packet tag {
}// c
packet roots
    { repeat //x
x_y_z `
`	, } packet lengthOf { // c
i64 int`{ , }` , @lengthOf( trueish
    ) @lengthOf( stringy // packet A { u8 x, }
) // @lengthOf(
repeat
x repeatCount`u8 x,`,
    char[]
rootA ,uint16 int @calculatedFrom( // " ++ [128512]%N ++ runes_of_ascii " emoji
""\" ++ [233]%N ++ runes_of_ascii """ ) `say ""hi""`/// triple
,@lengthOf(
string_
    // a // b
    )char[]
    int @calculatedFrom(
""a\\"" )  , @tag( 0 )@calculatedFrom(""\n""  )// " ++ [128512]%N ++ runes_of_ascii " emoji
i32
string_  @lengthOf(
    falsey ) `say ""hi""` ,@tag(3
) @lengthOf( BodyLength
) repeat Z9_ {match// " ++ [27880; 37322]%N ++ runes_of_ascii "
T // @lengthOf(
as charz { // packet A { u8 x, }
[ 255
, ""a\""b"" ,
    """" , 00
    , 0123456789 ,""\n"" , ""\" ++ [233]%N ++ runes_of_ascii """//x
]:
x_y_z
3 : Foo ,
    // @lengthOf(
    }
    ,char[ 4294967296 ] calculatedFrom@lengthOf( Z9_ )	, } , i64
    trueish
    @lengthOf( /// triple
T) `" ++ [233]%N ++ runes_of_ascii "` , @lengthOf( body
)
@lengthOf(
matchKey // `tick` ""quote"" 'q'
) tag trueish `` , } packet Foo {
}")).
Eval vm_compute in ("<<<M954>>>" ++ check (runes_of_ascii "
packet
    zchar{
repeat
    // trailing space 
    trueish _x,
    @calculatedFrom(
    ""\n"" )uint16  stringy `// not a comment`
    , @rightPad /// triple
( ' ' )
    body
    { leftPad	i8i8 ,	lengthOf {
// " ++ [128512]%N ++ runes_of_ascii " emoji
// " ++ [27880; 37322]%N ++ runes_of_ascii "
int64 asx `// not a comment` ,
leftPad {packetx @lengthOf(
MetaDataX
)
, } , i32
// trailing space 
//	t
o ,}
// c
/// triple
,
    }, f32 Z9_ `crlf
line` ,
    @calculatedFrom( ""abc""
)calculatedFrom charz,
repeat	zchar
//x
// `tick` ""quote"" 'q'
Z9_, match T as
o{	00 :
    calculatedFrom  ,
0123456789 : charz
,
    ""\" ++ [233]%N ++ runes_of_ascii """ :
    a1} , @lengthOf( A
) repeat
    len
, }root
packet Pad { }
    options
    { msg_type = ""\n"" // packet A { u8 x, }
trueish
    // trailing space 
    =int8
;
// " ++ [128512]%N ++ runes_of_ascii " emoji
// `tick` ""quote"" 'q'
repeatCount = ' ' u128 =  ""\" ++ [233]%N ++ runes_of_ascii """ ;  charz =
    char[
    // " ++ [128512]%N ++ runes_of_ascii " emoji
    007]	}	MetaData string_ {
    i64
    Foo
//
// packet A { u8 x, }
`say ""hi""`
    , chars calculatedFrom
//x
//x
,	}")).
Eval vm_compute in ("<<<M583>>>" ++ check (runes_of_ascii "root packet crc  { repeat zchar[ 3
    // trailing space 
    ] Header`u8 x,` ,  @leftPad( ' ' )
char[]
    string_ `say ""hi""` ,
    @tag(
4294967296) repeat  f32a {
    MetaDataX { repeat u f32a
    // trailing space 
    ,  }
,
    } , char[ 3 ]	repeatCount //x
`it's`,	@tag( 255) Packet `u8 x,`
, @rightPad
    ( // a // b
) int32	i64_ `` ,@tag( 4294967296)i8
    o`{ , }`
    ,
    @tag(4294967296 ) @calculatedFrom(""a\""b""
) char[] trueish ,
@lengthOf(u8x )i8i8
    { metadata zchar ,
repeat a1 {	Header , }
,//
As
{ match Z9_ as matchKey {
    ""packet""	:calculatedFrom , [ // @lengthOf(
4294967296 , """ ++ [233]%N ++ runes_of_ascii "t" ++ [233]%N ++ runes_of_ascii """ , ""`tick`"" , 65535
    , """ ++ [28040; 24687]%N ++ runes_of_ascii """ ,""// no comment"" ,  65535] : trueish
    ,},
    repeat metadata	{ repeat _x body `
`	,  chars
    MetaDataX `crlf
line`
    , uint16 // trailing space 
u8x	@lengthOf(	As) `
`  , }//	t
, uint8
    /// triple
    f32a ,
},
    }
, char[] Logon
, }
")).
Eval vm_compute in ("<<<M244>>>" ++ check (runes_of_ascii "MetaData falsey { string tag
`// not a comment` , } packet x
{ char[]int @lengthOf( u)
`u8 x,`
    ,
@calculatedFrom( ""abc"" ) @leftPad ('0')@tag( 255) repeat T {
f32a
`" ++ [233]%N ++ runes_of_ascii "`  ,
u128 @calculatedFrom( """ ++ [128512]%N ++ runes_of_ascii """ ) // a // b
,
    // c
    repeat
float { char[] x ,}
    ,
},@lengthOf( Header
)string_ @lengthOf(Logon )//	t
, body
Pad `" ++ [28040; 24687; 31867; 22411]%N ++ runes_of_ascii "`,
}packet matchKey { }
    //	t
    packet options1	{
    string	a1 @calculatedFrom( ""{,}"" ) ,}	packet x {match a1 as i64_ { 1
: Packet , ""abc"": crc ,
    }
    , int8
calculatedFrom@lengthOf( i8i8
    //	t
    ),
    @calculatedFrom( """"	)
@calculatedFrom( """ ++ [128512]%N ++ runes_of_ascii """ ) lengthOf
`a\`, char[1  ] u8x , zchar[ 007]// packet A { u8 x, }
metadata  @calculatedFrom(// a // b
""\n"" ) , @lengthOf(
len) @rightPad ( ) char[
    // " ++ [27880; 37322]%N ++ runes_of_ascii "
    10 // packet A { u8 x, }
]	Pad , repeat options1 `{ , }`,
    char[] tag @lengthOf( Packet ),}
")).
Eval vm_compute in ("<<<M3589>>>" ++ check (runes_of_ascii "options {
    LittleEndian = true;
    StringPrefixLenType = u64;
    ArrayPrefixLenType = u8;
    FixedStringPadChar = '0';
}

packet Reject {
    i32 Ref,
    repeat f64 OrderId,
    repeat InNote12 {
        u8 pad0,
    },
    @leftPad(' ')
    char[6] count,
}

packet Logout {
    zchar[6] Tail,
    repeat string venue,
}

packet Cancel {
    u64 count,
    repeat char[5] lastPx,
    i64 Tail,
    repeat InF140 {
        repeat Logout,
        repeat Reject,
    },
}

root packet Trade {
    repeat InMsgkind39 {
        repeat Reject,
        char[4] Px,
    },
    string Acct,
    uint16 price,
    f32 OrderId,
    u16 x,
    u16 clOrdID @lengthOf(Body),
    match x as Body {
        178 : Logout,
        13 : Cancel,
        174 : Reject,
    },
    u16 Flags @calculatedFrom(""CR\
        C32""),
}")).
Eval vm_compute in ("<<<M1400>>>" ++ check (runes_of_ascii "options
    //	t
    {
    As = false } //	t
packet falsey { @lengthOf(float// packet A { u8 x, }
) @calculatedFrom( ""\n"" ) u32 As , match leftPad
as repeatCount {
    0 :  Z9_ , 1
: repeatCount , [// trailing space 
65535// c
]:
Pad	00
    :
    packetx ""a\\""
:
packetx,00 :crc , } ,
repeat Packet
    , repeat float /// triple
{ u128
    @calculatedFrom( """ ++ [28040; 24687]%N ++ runes_of_ascii """
    ) `say ""hi""` , u64	Foo `say ""hi""` ,  } , @leftPad(
'\x00'
)	@tag(
1 )@calculatedFrom(  ""`tick`""
    ) f64 lengthOf
, @rightPad(
'0' ) @leftPad (
) @lengthOf( f32a)repeat i64_ x_y_z, @rightPad ( '\x00'
)o@calculatedFrom( """"  ) `a\`	,
// a // b
//x
asx
    { repeat T
chars
`` ,repeat char[ 0 ]
string_ ,  } , repeat
char repeatCount `u8 x,` , zchar[7 ]
T@calculatedFrom(
// packet A { u8 x, }
//x
""a\\""
)  , }
")).
Eval vm_compute in ("<<<M3515>>>" ++ check (runes_of_ascii "options {
    LittleEndian = false;
    StringPrefixLenType = u16;
    ArrayPrefixLenType = u32;
}
packet Order {
    uint8 x,
    repeat string venue,
}
packet Heartbeat {
    i64 count,
    zchar[1] Qty,
    repeat InX29 {
        InSeqno26 {
            int64 f1,
            char[5] Acct,
            Order,
        },
        repeat InSide285 {
            repeat Order,
            char[10] Px,
            zchar[9] OrderId,
        },
        char[] venue,
        Order,
    },
    @rightPad('\x00') char[4] clOrdID,
}
root packet Party {
    zchar[3] f1,
    u32 clOrdID,
    u32 Px @lengthOf(Body),
    match clOrdID as Body {
        [180, 64] : Heartbeat,
        11 : Order,
    },
    u32 Side2 @calculatedFrom(""CR\
C32""),
}
")).
Eval vm_compute in ("<<<M4228>>>" ++ check (runes_of_ascii "options {
    Header = 7;
    Z9_ = true;
    f32a = false
    Packet = true;
}

packet matchKey {
    char[] Foo `crlf
        line`,
}

packet Pad {
    repeat char[7] crc,
    calculatedFrom,
    @leftPad()
    //x
    // " ++ [128512]%N ++ runes_of_ascii " emoji
    i16 BodyLength,
    @tag(42)
    match rootA as uint8x {
        ""a	b"" : As,
    },
    @calculatedFrom("""")
    repeat x `" ++ [233]%N ++ runes_of_ascii "`,
    @tag(007)
    Packet Pad,
    uint64 u8x `tab	here`,
    asx {
        packetx MetaDataX,
        repeat _x {
            asx {
                string rootA `line1
                                line2`,// a // b
            },
        },
    },
    @tag(007)
    i64 i64_,// " ++ [27880; 37322]%N ++ runes_of_ascii "
    @lengthOf(Z9_)
    char[] asx @lengthOf(body),
}")).
Eval vm_compute in ("<<<M363>>>" ++ check (runes_of_ascii "packet A {
repeat
    o Z9_ ,
    @calculatedFrom( """ ++ [233]%N ++ runes_of_ascii "t" ++ [233]%N ++ runes_of_ascii """ ) @calculatedFrom(
    ""a\\"" ) @tag( 42) match Header as
    // packet A { u8 x, }
    tag {
    ""`tick`"" :
As , [
    ""\" ++ [233]%N ++ runes_of_ascii """ ] :
asx[ 3
,  ""1"", ""\n"" , 007
,
    ""\n"" ] :options1 ""abc"" :
//	t
/// triple
falsey , 4294967296 :	metadata , } ,  @tag(4294967296) tag @calculatedFrom( """ ++ [128512]%N ++ runes_of_ascii """ ) , }
    // `tick` ""quote"" 'q'
    packet stringy {
    char[]
packetx
`
`,string leftPad @lengthOf(float
    ) ,@tag( //	t
65535 )	@lengthOf( packetx) @lengthOf( Pad )
// trailing space 
// " ++ [27880; 37322]%N ++ runes_of_ascii "
repeatCount BodyLength , // a // b
char[] A
    @lengthOf( // packet A { u8 x, }
a1)
    `two words` , }
packet falsey // " ++ [27880; 37322]%N ++ runes_of_ascii "
{ }")).
Eval vm_compute in ("<<<M872>>>" ++ check (runes_of_ascii "
root // c
packet len {
Logon tag `say ""hi""`// c
, uint16
// packet A { u8 x, }
// trailing space 
Logon ,
match packetx as Foo	{ 65535// trailing space 
: asx
, // @lengthOf(
""abc"" //
: x_y_z
42 :asx} , f64
trueish
    ,  @lengthOf(a1 )repeat// " ++ [128512]%N ++ runes_of_ascii " emoji
char[  4294967296
]
    uint8x `two words`
,	match
    calculatedFrom as string_ { 4294967296 : crc , ""abc"" :
    T //	t
,
[ 255 ] : msg_type , // c
}, match MetaDataX as
len  { 10 : _x// c
,
} , match	float
    as  Pad {
    ""x y""
:BodyLength ,
[""a	b"" ,
""x y"" ]  : chars
, 0 : calculatedFrom//x
, 0123456789
: stringy
,
[ ""abc"" ]
// c
// " ++ [128512]%N ++ runes_of_ascii " emoji
:
i64_
    , }
, }")).
Eval vm_compute in ("<<<M3797>>>" ++ check (runes_of_ascii "

  // " ++ [128512]%N ++ runes_of_ascii " emoji
	packet	// @lengthOf(
	int	{ match

    zchar
as
    _x 
{

[4294967296
]	:x_y_z

    , 
[ 
""a\""b""	// @lengthOf(
		]:

    chars
	,
    [
""it's""  ,
    ""\" ++ [233]%N ++ runes_of_ascii """ ,
	""packet"",""{,}""	] 
:f32a  } ,
	x{repeat 
asx{ zchar[ 0123456789
]crc

    `crlf
line`

, msg_type
    i8i8`crlf
line`
,uint16	rootA@calculatedFrom( ""a\\""	) 
	// @lengthOf(
  	,	Logon
x_y_z	`" ++ [233]%N ++ runes_of_ascii "`
	, } ,

} , }

packet
	u
    {match
pack

as
    trueish//x
      { 
""1""	:

    len """ ++ [128512]%N ++ runes_of_ascii """ :leftPad
,4294967296 	 // @lengthOf(
    : 
metadata ,
} 
,
    int T	`line1
line2`
    , f32
Logon	,
}
options

    {	}

")).
Eval vm_compute in ("<<<M3857>>>" ++ check (runes_of_ascii "

  packet

leftPad
{
@calculatedFrom(""\" ++ [233]%N ++ runes_of_ascii """ )
    @rightPad (
'0' )

@lengthOf(
	asx  )BodyLength trueish`it's`

    ,
@leftPad
    (	'\x00' ) A	// " ++ [128512]%N ++ runes_of_ascii " emoji
  i8i8	`
`

    ,
	@tag(
    0

)matchKey
{

int16

falsey `line1
line2`

    , /// triple
} , 	 // " ++ [128512]%N ++ runes_of_ascii " emoji
  match
	tag as falsey {[ 
""packet""

]:i64_

    3 :
leftPad,}, @calculatedFrom(""// no comment""  )string
a1
    ,@leftPad // trailing space 
  ( 
	// `tick` ""quote"" 'q'
	// @lengthOf(
  '\x00'	)@calculatedFrom(
    """ ++ [28040; 24687]%N ++ runes_of_ascii """)
	@calculatedFrom(
""`tick`""
	)

    repeat chars
    As

    , }")).
Eval vm_compute in ("<<<M1146>>>" ++ check (runes_of_ascii "options
    {
    // " ++ [27880; 37322]%N ++ runes_of_ascii "
    tag = ' '
leftPad // c
=  255 x_y_z=
uint32; // a // b
falsey= """ ++ [28040; 24687]%N ++ runes_of_ascii """ As  =""packet"" ; }packet As
{
@lengthOf( u ) repeat
u8 i8i8 `two words`,
@tag( 00 // " ++ [27880; 37322]%N ++ runes_of_ascii "
)@tag(	1 //x
)
    char[ 255 ] a1	@lengthOf( zchar )  , i32
    //
    u, repeat	float32 tag ,
    //
    A	,repeat uint8
//x
// `tick` ""quote"" 'q'
string_, @calculatedFrom(
""a\""b""	) @lengthOf(
Header )u{int8	asx ``, i32 Foo
@lengthOf( // " ++ [27880; 37322]%N ++ runes_of_ascii "
tag )`
` , }
    , float64 pack
    , @tag(10) Foo //	t
, match repeatCount as u8x { 42: o, } , }

")).
Eval vm_compute in ("<<<M672>>>" ++ check (runes_of_ascii "packet
int
{ string
    x_y_z, roots , i8
    /// triple
    options1 , // " ++ [27880; 37322]%N ++ runes_of_ascii "
@tag( 3) uint32
charz@lengthOf(
repeatCount ) `
` // " ++ [27880; 37322]%N ++ runes_of_ascii "
, @lengthOf( u )
int8 a1
    @calculatedFrom( """ ++ [128512]%N ++ runes_of_ascii """
) ,
    @tag(
    00)
match matchKey as
    roots { ""a	b"" :
// " ++ [27880; 37322]%N ++ runes_of_ascii "
// @lengthOf(
Packet  ,
""CRC32""// " ++ [128512]%N ++ runes_of_ascii " emoji
:Foo
    , 007	://	t
Foo }
,  match T  as MetaDataX
    {""{,}"" : BodyLength // `tick` ""quote"" 'q'
,
1:
stringy, // packet A { u8 x, }
"""":packetx ,00  :
body 0
    :
Foo ,
42  : x
    /// triple
    , },}
")).
Eval vm_compute in ("<<<M1389>>>" ++ check (runes_of_ascii "packet u128
    { // @lengthOf(
@lengthOf(
u8x)	char[]
lengthOf`it's` ,
@calculatedFrom(""it's"" ) u16 metadata@calculatedFrom( ""// no comment"" )
//x
// " ++ [128512]%N ++ runes_of_ascii " emoji
`// not a comment`
    , @lengthOf( int )// @lengthOf(
repeat trueish float ,
    // c
    char[  00] falsey , repeat
    zchar[ 3] falsey ,@lengthOf(	pack )
zchar[
    //	t
    007]
// c
// " ++ [128512]%N ++ runes_of_ascii " emoji
packetx @lengthOf( len
    ) ,
repeat// @lengthOf(
char u `tab	here` ,Pad// @lengthOf(
@lengthOf( leftPad  ) , }
")).
Eval vm_compute in ("<<<M3767>>>" ++ check (runes_of_ascii "// top
root packet msg_type {
    // c3
    i64 options1,
    @lengthOf(f32a)
    // c9
    repeat uint16 Foo,
    @calculatedFrom(""x y"")
    // c16
    repeat int64 pack,
    @leftPad(' ')
    // c24
    uint8 Foo,
}

// c28
packet rootA {
    // c31
    f32a x `two words`,
    // c35
    char asx @lengthOf(falsey) `u8 x,`,
    @lengthOf(i64_)
    // c45
    uint16 chars,
    @tag(0)
    // c51
    string _x @calculatedFrom(""abc"") `// not a comment`,
}")).
Eval vm_compute in ("<<<M172>>>" ++ check (runes_of_ascii "// c
options  {
i8i8
    = """ ++ [28040; 24687]%N ++ runes_of_ascii """
    // trailing space 
    ; Pad= ' ' }root packet i8i8{ i64 matchKey`" ++ [233]%N ++ runes_of_ascii "`
,match repeatCount as x// @lengthOf(
{
//	t
// a // b
42 : float
    ,
007 : u , }
// trailing space 
//x
,
@calculatedFrom( ""a	b"" ) string_
// @lengthOf(
/// triple
{  matchKey string_
    ,// trailing space 
} , repeat char[] repeatCount
    , }
options // a // b
{
msg_type =
true ; int
// " ++ [128512]%N ++ runes_of_ascii " emoji
// " ++ [27880; 37322]%N ++ runes_of_ascii "
= u16	string_
    = false ;}")).
Eval vm_compute in ("<<<M160>>>" ++ check (runes_of_ascii "root packet o
    { }	packet T{ zchar[ 4294967296
]asx `say ""hi""` ,} MetaData f32a{f64 MetaDataX  `say ""hi""`
    // packet A { u8 x, }
    ,x_y_z
    rootA`doc`
, //	t
u32
repeatCount
    /// triple
    ,
string T
, u8x u`doc` ,} options {x_y_z
    = 0	} // packet A { u8 x, }
root packet// c
MetaDataX { @calculatedFrom( ""abc""
) @calculatedFrom(
    """ ++ [128512]%N ++ runes_of_ascii """ ) @tag( 3
) charz@lengthOf(
Packet )
    `line1
line2` ,	} /// triple")).
Eval vm_compute in ("<<<M3538>>>" ++ check (runes_of_ascii "options {
    LittleEndian = false;
    StringPrefixLenType = u8;
    ArrayPrefixLenType = u16;
    FixedStringPadFromLeft = false;
}
packet Heartbeat {
    u8 seqNo,
    @rightPad('\x00') char[8] x,
}
root packet Trade {
    repeat Heartbeat,
    float32 OrderId,
    i64 Acct,
    u16 Qty,
    u16 clOrdID,
    match clOrdID as Body {
        131 : Heartbeat,
    },
    u16 sym @calculatedFrom(""CR\
C32""),
}
")).
Eval vm_compute in ("<<<M1067>>>" ++ check (runes_of_ascii "packet
i64_	{
x_y_z
`it's`, o @lengthOf( i64_ )
    // a // b
    ,
    char[007	]trueish
// trailing space 
/// triple
@lengthOf( leftPad )
    ,
} MetaData tag {
    char[ 65535
]
// c
/// triple
pack ,
int64  Logon`two words` , // a // b
}
packet u8x
{ float64
    lengthOf , repeat char[]
As,
    u
BodyLength ,tag { repeat BodyLength	{// a // b
uint16 zchar `doc`,	}
    ,
    } , }
")).
Eval vm_compute in ("<<<M3935>>>" ++ check (runes_of_ascii "root packet roots {
    i8i8 @calculatedFrom(""abc""),
    repeat uint32 matchKey `doc`,
    char[255] A @lengthOf(calculatedFrom) `{ , }`,
    crc {
        A Header `
        `,
        char[] o,
        repeat zchar[1] body `" ++ [233]%N ++ runes_of_ascii "`,//	t
    },
    int8 u,
    match packetx as u {
        [0, ""`tick`""] : Packet,
        ""\" ++ [233]%N ++ runes_of_ascii """ : Packet,
        [4294967296] : matchKey,
    },
}")).
Eval vm_compute in ("<<<M3954>>>" ++ check (runes_of_ascii "root packet metadata {
    @rightPad(' ')
    @leftPad('\x00')
    f64 a1 `u8 x,`,// trailing space 
    char[7] metadata @lengthOf(Logon),
    @calculatedFrom(""\n"")
    char[4294967296] repeatCount,
    @tag(65535)
    zchar[255] chars @lengthOf(stringy),
    zchar {
        zchar @lengthOf(crc),
        uint64 Packet `crlf
                line`,
    },
}")).
Eval vm_compute in ("<<<M668>>>" ++ check (runes_of_ascii "root packet options1 { repeat
    Packet { match // `tick` ""quote"" 'q'
u8x as  metadata { ""packet"" : packetx
,
[
""// no comment"" ,
    // packet A { u8 x, }
    ""a\\"" ]
    : uint8x 1 // c
: Foo , 0123456789 :	falsey
, ""abc"":
    x_y_z
    , },}
,
    @rightPad (// a // b
' ' )
    f32a crc , @tag( 3 ) repeat char[0 ] pack // c
`say ""hi""`, }
")).
Eval vm_compute in ("<<<M457>>>" ++ check (runes_of_ascii "root packet float  { char[]
    metadata`two words` ,match u128 as leftPad // packet A { u8 x, }
{""packet"" // c
: f32a , }
    , i64 MetaDataX @lengthOf(options1
) ,
    zchar[ 00 ]
// @lengthOf(
//
Logon , @lengthOf( falsey) char[00] i64_ ,
    @lengthOf( Pad ) u32
Pad	`tab	here`
, uint8 metadata
    ,// packet A { u8 x, }
}
")).
Eval vm_compute in ("<<<M670>>>" ++ check (runes_of_ascii "
options
    {// " ++ [27880; 37322]%N ++ runes_of_ascii "
i8i8	=""abc"" } root packet o{
}packet Header { string i8i8 `" ++ [233]%N ++ runes_of_ascii "` , @lengthOf( As )
// packet A { u8 x, }
// " ++ [128512]%N ++ runes_of_ascii " emoji
@calculatedFrom(
//x
// packet A { u8 x, }
""" ++ [128512]%N ++ runes_of_ascii """ )@leftPad( '0'
)	repeat	A{
char[
255 ] options1 , repeat char[]int
    // " ++ [27880; 37322]%N ++ runes_of_ascii "
    `line1
line2`
/// triple
// packet A { u8 x, }
, } ,}
")).
Eval vm_compute in ("<<<M1590>>>" ++ check (runes_of_ascii "root packet Foo // " ++ [128512]%N ++ runes_of_ascii " emoji
{ } options {
    // a // b
    tag // `tick` ""quote"" 'q'
= //	t
""""
    ; u8x = zchar[0  ] }
MetaData
    int {zchar[ 10]
lengthOf	`` , i64 u8x`// not a comment` ,MetaDataX pack// `tick` ""quote"" 'q'
`crlf
line`
, Logon charz `crlf
line` `crlf
line`
    ,
    // a // b
    }
")).
Eval vm_compute in ("<<<M1557>>>" ++ check (runes_of_ascii "root packet Foo // " ++ [128512]%N ++ runes_of_ascii " emoji
{ } options {
    // a // b
    tag // `tick` ""quote"" 'q'
= //	t
""""
    ; u8x = zchar[0  ] }
MetaData
    int {zchar[ 10]
lengthOf	`` , i64 u8x`// not a comment` repeat MetaDataX pack// `tick` ""quote"" 'q'
`crlf
line`
, Logon charz `crlf
line`
    ,
    // a // b
    }
")).
Eval vm_compute in ("<<<M1567>>>" ++ check (runes_of_ascii "root packet Foo // " ++ [128512]%N ++ runes_of_ascii " emoji
{ } options {
    // a // b
    tag // `tick` ""quote"" 'q'
= //	t
""""
    ; u8x = zchar[0  ] }
MetaData
    int {zchar[ 10]
lengthOf	`` , i64 u8x`// not a comment` ,MetaDataX options// `tick` ""quote"" 'q'
`crlf
line`
, Logon charz `crlf
line`
    ,
    // a // b
    }
")).
Eval vm_compute in ("<<<M1481>>>" ++ check (runes_of_ascii "root packet Foo // " ++ [128512]%N ++ runes_of_ascii " emoji
{ } options {
    // a // b
    tag // `tick` ""quote"" 'q'
= //	t
""""
    ; u8x = zchar[ ]  0 }
MetaData
    int {zchar[ 10]
lengthOf	`` , i64 u8x`// not a comment` ,MetaDataX pack// `tick` ""quote"" 'q'
`crlf
line`
, Logon charz `crlf
line`
    ,
    // a // b
    }
")).
Eval vm_compute in ("<<<M1502>>>" ++ check (runes_of_ascii "root packet Foo // " ++ [128512]%N ++ runes_of_ascii " emoji
{ } options {
    // a // b
    tag // `tick` ""quote"" 'q'
= //	t
""""
    ; u8x = zchar[0  ] }
MetaData
    i32 {zchar[ 10]
lengthOf	`` , i64 u8x`// not a comment` ,MetaDataX pack// `tick` ""quote"" 'q'
`crlf
line`
, Logon charz `crlf
line`
    ,
    // a // b
    }
")).
Eval vm_compute in ("<<<M1489>>>" ++ check (runes_of_ascii "root packet Foo // " ++ [128512]%N ++ runes_of_ascii " emoji
{ } options {
    // a // b
    tag // `tick` ""quote"" 'q'
= //	t
""""
    ; u8x = zchar[0  ] 
MetaData
    int {zchar[ 10]
lengthOf	`` , i64 u8x`// not a comment` ,MetaDataX pack// `tick` ""quote"" 'q'
`crlf
line`
, Logon charz `crlf
line`
    ,
    // a // b
    }
")).
Eval vm_compute in ("<<<M1497>>>" ++ check (runes_of_ascii "root packet Foo // " ++ [128512]%N ++ runes_of_ascii " emoji
{ } options {
    // a // b
    tag // `tick` ""quote"" 'q'
= //	t
""""
    ; u8x = zchar[0  ] }
int8
    int {zchar[ 10]
lengthOf	`` , i64 u8x`// not a comment` ,MetaDataX pack// `tick` ""quote"" 'q'
`crlf
line`
, Logon charz `crlf
line`
    ,
    // a // b
    }
")).
Eval vm_compute in ("<<<M1552>>>" ++ check (runes_of_ascii "root packet Foo // " ++ [128512]%N ++ runes_of_ascii " emoji
{ } options {
    // a // b
    tag // `tick` ""quote"" 'q'
= //	t
""""
    ; u8x = zchar[0  ] }
MetaData
    int {zchar[ 10]
lengthOf	`` , i64 u8x char[] ,MetaDataX pack// `tick` ""quote"" 'q'
`crlf
line`
, Logon charz `crlf
line`
    ,
    // a // b
    }
")).
Eval vm_compute in ("<<<M3696>>>" ++ check (runes_of_ascii "options {
    Packet = '\x00'// " ++ [27880; 37322]%N ++ runes_of_ascii "
    i64_ = 3;
    falsey = 00;
    x_y_z = 0;
    Header = ""a\""b""
}

MetaData f32a {
}

options {
    metadata = ""it's"";
}

options {
}

options {
    calculatedFrom = int32;
    len = """ ++ [128512]%N ++ runes_of_ascii """
    _x = ""it's""
    BodyLength = 0123456789
}")).
Eval vm_compute in ("<<<M274>>>" ++ check (runes_of_ascii "packet falsey
    { //	t
_x { T@calculatedFrom(
""" ++ [28040; 24687]%N ++ runes_of_ascii """
),int64 roots , match
    float as a1 { 1//	t
:falsey  , [
    // c
    ""CRC32""  ,""a\""b"" ,
    255 , 65535 , 42	,0123456789]
:
pack
, }, } , pack
    { falsey//x
, } , packetx // packet A { u8 x, }
, }
")).
Eval vm_compute in ("<<<M464>>>" ++ check (runes_of_ascii "MetaData _x
    { BodyLength string_ `crlf
line`,
//x
//x
i64
    //
    zchar , calculatedFrom MetaDataX ,float32 Pad `it's`
,
    } packet As{
    repeat//	t
metadata BodyLength
`a\` ,	string
Packet`two words`
/// triple
// `tick` ""quote"" 'q'
, }")).
Eval vm_compute in ("<<<M1350>>>" ++ check (runes_of_ascii "packet charz
    //	t
    {
@tag( 7 )@leftPad ( '0' ) @rightPad( '0'
)repeat Logon
, }  options // trailing space 
{}
    options {} MetaData  roots { float a1 `" ++ [233]%N ++ runes_of_ascii "`
    // " ++ [27880; 37322]%N ++ runes_of_ascii "
    ,  zchar[
255 ]  calculatedFrom , u32 // " ++ [27880; 37322]%N ++ runes_of_ascii "
Packet ,} //x")).
Eval vm_compute in ("<<<M3693>>>" ++ check (runes_of_ascii "root packet Foo {
}

options {
    // a //# b
    tag = """";
    u8x = zchar[0]
}

MetaData int {
    zchar[10] lengthOf ``,
    i64 u8x `// not a comment`,
    MetaDataX pack `crlf
    line`,
    Logon charz `crlf
    line`,
}")).
Eval vm_compute in ("<<<M4213>>>" ++ check (runes_of_ascii "packet As {
    _x @lengthOf(f32a) `tab	here`,
    match chars as chars {
        """ ++ [233]%N ++ runes_of_ascii "t" ++ [233]%N ++ runes_of_ascii """ : stringy,
        ""1"" : options1,
        255 : repeatCount,
        ""CRC32"" : float,
    },
    Logon int ``,
    uint8x metadata,
}")).
Eval vm_compute in ("<<<M2328>>>" ++ check (runes_of_ascii "MetaData Packet { }packet	asx  { @lengthOf( asx) falsey`crlf
line`
,
    }
    packet x	{uint32// @lengthOf(
rootA	,u32 options1 `say ""hi""` @tag( @tag( 7
    )// packet A { u8 x, }
msg_type @lengthOf(
stringy	)	, }

")).
Eval vm_compute in ("<<<M2257>>>" ++ check (runes_of_ascii "MetaData Packet { }packet	asx  { @lengthOf( asx falsey )`crlf
line`
,
    }
    packet x	{uint32// @lengthOf(
rootA	,u32 options1 `say ""hi""` , @tag( 7
    )// packet A { u8 x, }
msg_type @lengthOf(
stringy	)	, }

")).
Eval vm_compute in ("<<<M2292>>>" ++ check (runes_of_ascii "MetaData Packet { }packet	asx  { @lengthOf( asx) falsey`crlf
line`
,
    }
    packet x	uint32{// @lengthOf(
rootA	,u32 options1 `say ""hi""` , @tag( 7
    )// packet A { u8 x, }
msg_type @lengthOf(
stringy	)	, }

")).
Eval vm_compute in ("<<<M2335>>>" ++ check (runes_of_ascii "MetaData Packet { }packet	asx  { @lengthOf( asx) falsey`crlf
line`
,
    }
    packet x	{uint32// @lengthOf(
rootA	,u32 options1 `say ""hi""` , @tag( 
    )// packet A { u8 x, }
msg_type @lengthOf(
stringy	)	, }

")).
Eval vm_compute in ("<<<M1274>>>" ++ check (runes_of_ascii "options //x
{ }
    MetaData	i8i8
    // @lengthOf(
    {
Z9_ //x
MetaDataX
    , } options { A=	""a	b"" ; crc =
'0'; charz = false ; zchar
    = string _x =
""a\\"" }// packet A { u8 x, }
root
packet
int { } 	 ")).
Eval vm_compute in ("<<<M603>>>" ++ check (runes_of_ascii "packet
    // c
    stringy { u128
@lengthOf( _x
)
,
match
    leftPad as i64_ { """ ++ [28040; 24687]%N ++ runes_of_ascii """: T, [
""" ++ [233]%N ++ runes_of_ascii "t" ++ [233]%N ++ runes_of_ascii """	] : roots 65535// c
: int}	,@tag( 65535 // c
)
    repeat string Logon,
    // packet A { u8 x, }
    }
")).
Eval vm_compute in ("<<<M953>>>" ++ check (runes_of_ascii "
root packet i64_
    {rootA {	zchar[1 ]
    packetx
@calculatedFrom( ""1"" ),
// @lengthOf(
/// triple
} ,
} options // " ++ [128512]%N ++ runes_of_ascii " emoji
{ chars = // trailing space 
char[]  ; falsey
    =
    u32 ; } //x")).
Eval vm_compute in ("<<<M49>>>" ++ check (runes_of_ascii "// a // b
root
    packet string_ { i32 options1 `say ""hi""`
, } packet stringy
// " ++ [128512]%N ++ runes_of_ascii " emoji
/// triple
{
    } MetaData
len  {i8i8
charz
    `u8 x,`,
// `tick` ""quote"" 'q'
// trailing space 
}")).
Eval vm_compute in ("<<<M1118>>>" ++ check (runes_of_ascii "
options{ // `tick` ""quote"" 'q'
} options // packet A { u8 x, }
{ As
    = ""\n""
// `tick` ""quote"" 'q'
// a // b
;	} MetaData
    msg_type {string
    trueish , } options { A= ""{,}"" ;}")).
Eval vm_compute in ("<<<M242>>>" ++ check (runes_of_ascii "  options{
    // trailing space 
    A = ' '
    ; calculatedFrom
// c
// a // b
=
    ""a\""b""
;
msg_type  =	char[ 4294967296] ;
    //
    rootA
= '\x00' msg_type	= false }")).
Eval vm_compute in ("<<<M4099>>>" ++ check (runes_of_ascii "root packet chars {
    repeat a1 {
        trueish x `" ++ [28040; 24687; 31867; 22411]%N ++ runes_of_ascii "`,
    },
}

MetaData metadata {
    int32 int,
    f64 uint8x `say ""hi""`,
    i64 rootA `crlf
    line`,
}")).
Eval vm_compute in ("<<<M602>>>" ++ check (runes_of_ascii "MetaData len{ uint16
    packetx
,
i64 Header , f64 x_y_z`two words`, // c
MetaDataX
Packet ,
trueish int ,int32
    trueish ,
    // " ++ [27880; 37322]%N ++ runes_of_ascii "
    }
packet u8x {}
")).
Eval vm_compute in ("<<<M1144>>>" ++ check (runes_of_ascii "packet f32a {
@calculatedFrom(	""\" ++ [233]%N ++ runes_of_ascii """ )@calculatedFrom(""" ++ [128512]%N ++ runes_of_ascii """ )
@lengthOf( int ) u8x @calculatedFrom( ""\" ++ [233]%N ++ runes_of_ascii """),
float32
    leftPad`doc` ,
crc MetaDataX `" ++ [233]%N ++ runes_of_ascii "`, }")).
Eval vm_compute in ("<<<M119>>>" ++ check (runes_of_ascii "MetaData  trueish {
    chars	u8x // trailing space 
,
A chars ,i8i8 asx `tab	here`
    ,char[ 3 ]
body	`" ++ [233]%N ++ runes_of_ascii "`,
    zchar[	00	]
u128 ,
}
/// triple
")).
Eval vm_compute in ("<<<M4346>>>" ++ check (runes_of_ascii "MetaData o {
    char[] i64_ `{ , }`,
    u16 tag,
    char[] lengthOf `u8 x,`,
    Z9_ rootA `
    `,
    zchar[3] u,
    float T `{ , }`,
}")).
Eval vm_compute in ("<<<M1726>>>" ++ check (runes_of_ascii "root packet /// triple
r@leftpadootA {	i32
MetaDataX@calculatedFrom( ""CRC32"" ) `line1
line2` , } MetaData BodyLength {
u8
rootA, } // c")).
Eval vm_compute in ("<<<M1315>>>" ++ check (runes_of_ascii "packet
lengthOf  { @calculatedFrom(
""packet"" // `tick` ""quote"" 'q'
) @lengthOf( /// triple
options1 ) char[]int , } packet
u8x {	}
")).
Eval vm_compute in ("<<<M1173>>>" ++ check (runes_of_ascii "  options { BodyLength=
// trailing space 
// a // b
char[]
    ; lengthOf =
    // @lengthOf(
    i8 asx = 7 ; rootA= ""a\""b"" ; }
")).
Eval vm_compute in ("<<<M1644>>>" ++ check (runes_of_ascii "root packet /// triple
rootA {	MetaDataX
i32@calculatedFrom( ""CRC32"" ) `line1
line2` , } MetaData BodyLength {
u8
rootA, } // c")).
Eval vm_compute in ("<<<M4275>>>" ++ check (runes_of_ascii "// " ++ [27880; 37322]%N ++ runes_of_ascii "
options {
    msg_type = '0'
}

packet _x {
    @tag(00)
    @tag(1)
    char[] a1,
}

packet float {
}

MetaData Foo {
}")).
Eval vm_compute in ("<<<M703>>>" ++ check (runes_of_ascii "options { matchKey = // @lengthOf(
1 x
= ""\" ++ [233]%N ++ runes_of_ascii """
//	t
/// triple
MetaDataX =""a\""b"" ; u128
// c
/// triple
=""\" ++ [233]%N ++ runes_of_ascii """
} packet	As{ }")).
Eval vm_compute in ("<<<M3436>>>" ++ check (runes_of_ascii "packet B {
    u8 a,
}
root packet P {
    u8 K,
    u64 L @lengthOf(Body),
    match K as Body {
        1 : B,
    },
}
")).
Eval vm_compute in ("<<<M596>>>" ++ check (runes_of_ascii "options {
}  MetaData
    // c
    x_y_z
{u32	u8x	`line1
line2` , float64 u // a // b
`line1
line2`  , } // @lengthOf(")).
Eval vm_compute in ("<<<M1884>>>" ++ check (runes_of_ascii "packet
    Pad // a // b
{ i8i8 @calculatedFrom( ""a	b"") `u8 x,` ,
} options{ float// " ++ [128512]%N ++ runes_of_ascii " emoji
= f64 i64_'
=//	t
00 }
")).
Eval vm_compute in ("<<<M1858>>>" ++ check (runes_of_ascii "packet
    Pad // a // b
{ i8i8 @calculatedFrom( ""a	b"") `u8 x,` ,
} options{ float// " ++ [128512]%N ++ runes_of_ascii " emoji
= f64 char
=//	t
00 }
")).
Eval vm_compute in ("<<<M1875>>>" ++ check (runes_of_ascii "packet
    Pad // a // b
{ i8i8 @calculatedFrom( ""a	b"") `u8 x,` ,
} options{ float// " ++ [128512]%N ++ runes_of_ascii " emoji
= f64 i64_
=//	t
00 ")).
Eval vm_compute in ("<<<M3494>>>" ++ check (runes_of_ascii "

  packet FooBar 
{u8
a,  }  packet

    foo_bar 
{u16	b ,
    }
root packet
    R
    {FooBar ,foo_bar
,
} ")).
Eval vm_compute in ("<<<M3010>>>" ++ check (runes_of_ascii "packet A {
    u16 len @lengthOf(body) `a
b`,
    u32 crc @calculatedFrom(""CRC32"") `a
b`,
    string body,
}")).
Eval vm_compute in ("<<<M3047>>>" ++ check (runes_of_ascii "packet A {
    Inner {
        u8 x `tab
	x`,
        Deep {
            u8 y `tab
	x`,
        },
    },
}")).
Eval vm_compute in ("<<<M4233>>>" ++ check (runes_of_ascii "
packet  o { 
@tag(
	42

    ) repeat// c

  x
	{

char[
0123456789
]
	i64_ ,},	}

    options{
}

")).
Eval vm_compute in ("<<<M3361>>>" ++ check (runes_of_ascii "packet calculatedFrom { @tag( 4294967296 ) u msg_type , char[ 3 ] // c
crc @lengthOf( len ) `u8 x,` , }")).
Eval vm_compute in ("<<<M3492>>>" ++ check (runes_of_ascii "packet FooBar {
    u8 a,
}
packet foo_bar {
    u16 b,
}
root packet R {
    FooBar,
    foo_bar,
}
")).
Eval vm_compute in ("<<<M969>>>" ++ check (runes_of_ascii "packet charz { // trailing space 
@tag(255	) @calculatedFrom(""packet"" ) u32 repeatCount	,// c
}
")).
Eval vm_compute in ("<<<M971>>>" ++ check (runes_of_ascii "options {}	packet
    u128 {repeat uint8x x `say ""hi""` , // trailing space 
}MetaData crc { }
")).
Eval vm_compute in ("<<<M3243>>>" ++ check (runes_of_ascii "packet Logon { @tag( 42 ) @rightPad ( ' ' ) @leftPad ( ) repeat
// c
trueish { string T , } , }")).
Eval vm_compute in ("<<<M1717>>>" ++ check (runes_of_ascii "root packet /// triple
rootA {	i32
MetaDataX@calculatedFrom( ""CRC32"" ) `line1
line2` , } Met")).
Eval vm_compute in ("<<<M4389>>>" ++ check (runes_of_ascii "packet A {
    match k as n {
        [22, 4, ""a"", ""c c"", ""e""] : B,
        2 : C,
    },
}")).
Eval vm_compute in ("<<<M2964>>>" ++ check (runes_of_ascii "packet A {
  match k as n {
    [1, 22, 007, 4, 5, 66, 7, 8, 9, 10] : B
    2 : C
  },
}")).
Eval vm_compute in ("<<<M2038>>>" ++ check (runes_of_ascii "root
packet crc
    { f32a @calculatedFrom( """ ++ [233]%N ++ runes_of_ascii "t" ++ [233]%N ++ runes_of_ascii """ )
    `say ""hi""`, lengthOf $`` ,  }")).
Eval vm_compute in ("<<<M3054>>>" ++ check (runes_of_ascii "packet A {
    u32 crc @calculatedFrom(""x\
y""),
    @calculatedFrom(""x\
y"") u8 y,
}")).
Eval vm_compute in ("<<<M1966>>>" ++ check (runes_of_ascii "root
packet 
    { f32a @calculatedFrom( """ ++ [233]%N ++ runes_of_ascii "t" ++ [233]%N ++ runes_of_ascii """ )
    `say ""hi""`, lengthOf `` ,  }")).
Eval vm_compute in ("<<<M3302>>>" ++ check (runes_of_ascii "packet o { @tag( 42 // c
) repeat x { char[ 0123456789 ] i64_ , } , } options { }")).
Eval vm_compute in ("<<<M3758>>>" ++ check (runes_of_ascii "

  packet
A{
match
k as

    n	{[
""a""  ,	""bb""
    ]	: B 
,

    2	:C }
,
} ")).
Eval vm_compute in ("<<<M3949>>>" ++ check (runes_of_ascii "packet Inner {
    u8 a,
}

root packet P {
    repeat Inner items,
    u8 x,
}")).
Eval vm_compute in ("<<<M2911>>>" ++ check (runes_of_ascii "packet A {
  match k as n {
    [1, 22, 007, 4, 5, 66] : B,
    2 : C
  },
}")).
Eval vm_compute in ("<<<M689>>>" ++ check (runes_of_ascii "MetaData i64_ { options1
x	`crlf
line`,} packet u { } // trailing space ")).
Eval vm_compute in ("<<<M3394>>>" ++ check (runes_of_ascii "
// c
MetaData _x { zchar[ 4294967296 ] lengthOf `// not a comment` , }")).
Eval vm_compute in ("<<<M3406>>>" ++ check (runes_of_ascii "MetaData _x { zchar[ 4294967296 ]
// c
lengthOf `// not a comment` , }")).
Eval vm_compute in ("<<<M2010>>>" ++ check (runes_of_ascii "root
packet crc
    { f32a @calculatedFrom( """ ++ [233]%N ++ runes_of_ascii "t" ++ [233]%N ++ runes_of_ascii """ )
    `say ""hi""`,")).
Eval vm_compute in ("<<<M2881>>>" ++ check (runes_of_ascii "packet A {
  match k as n {
    [1, 22, ""c c""] : B
    2 : C
  },
}")).
Eval vm_compute in ("<<<M388>>>" ++ check (runes_of_ascii "MetaData calculatedFrom  { // a // b
u64
A, float32 u8x ,}
// " ++ [27880; 37322]%N ++ runes_of_ascii "
")).
Eval vm_compute in ("<<<M2160>>>" ++ check (runes_of_ascii "root
    // `tick` ""quote"" 'q'
    i32 As { trueish Packet , }
")).
Eval vm_compute in ("<<<M2856>>>" ++ check (runes_of_ascii "zchar[ @lengthOf( int8 u64 f32 : float64 ( char[] @tag( char[")).
Eval vm_compute in ("<<<M2171>>>" ++ check (runes_of_ascii "root
    // `tick` ""quote"" 'q'
    packet As {  Packet , }
")).
Eval vm_compute in ("<<<M1942>>>" ++ check (runes_of_ascii "
packet	As { @calculatedFrom(//x
""{,}""	)len@xgthOf , } 	 ")).
Eval vm_compute in ("<<<M629>>>" ++ check (runes_of_ascii "options  { options1 =
    65535
    ; msg_type= u64} 	 ")).
Eval vm_compute in ("<<<M1776>>>" ++ check (runes_of_ascii "options { }options {  } // `tick` ""quote"" 'q@leftpad'")).
Eval vm_compute in ("<<<M4337>>>" ++ check (runes_of_ascii "MetaData

zchar  { zchar[3 ]

Pad, 

    // c
  }

")).
Eval vm_compute in ("<<<M2028>>>" ++ check (runes_of_ascii "root
packet crc
    { f32a @calculatedFrom( """ ++ [233]%N ++ runes_of_ascii "t" ++ [65533]%N)).
Eval vm_compute in ("<<<M837>>>" ++ check (runes_of_ascii "MetaData // @lengthOf(
tag{  lengthOf Pad
, }
")).
Eval vm_compute in ("<<<M1777>>>" ++ check (runes_of_ascii "?options { }options {  } // `tick` ""quote"" 'q'")).
Eval vm_compute in ("<<<M420>>>" ++ check (runes_of_ascii "options {
// " ++ [27880; 37322]%N ++ runes_of_ascii "
//
calculatedFrom
= false }")).
Eval vm_compute in ("<<<M3180>>>" ++ check (runes_of_ascii "packet A { char[ // a
 3 // b
 ] // c
 x, }")).
Eval vm_compute in ("<<<M2413>>>" ++ check (runes_of_ascii "[ A
{
i64
chars	, } // `tick` ""quote"" 'q'")).
Eval vm_compute in ("<<<M2607>>>" ++ check (runes_of_ascii "packet A { match k as n { [1 2] : B }, }")).
Eval vm_compute in ("<<<M611>>>" ++ check (runes_of_ascii "  MetaData x_y_z
{ } // trailing space ")).
Eval vm_compute in ("<<<M2116>>>" ++ check (runes_of_ascii "MetaData x
{// " ++ [128512]%N ++ runes_of_ascii " emoji
stringy i16 , }")).
Eval vm_compute in ("<<<M2705>>>" ++ check (runes_of_ascii "] false ""`tick`"" charz { int64 zchar[")).
Eval vm_compute in ("<<<M1321>>>" ++ check (runes_of_ascii "MetaData packetx { _x	metadata , }
")).
Eval vm_compute in ("<<<M3875>>>" ++ check (runes_of_ascii "

  MetaData 
a1
	{// a // b
  }

")).
Eval vm_compute in ("<<<M3148>>>" ++ check (runes_of_ascii "packet A {
 u8 x `d x`, // c x
}")).
Eval vm_compute in ("<<<M2085>>>" ++ check (runes_of_ascii "MetaD'\x01'ata A { u64 pack, }")).
Eval vm_compute in ("<<<M937>>>" ++ check (runes_of_ascii "packet  f32a {stringy
`` , }
")).
Eval vm_compute in ("<<<M3002>>>" ++ check (runes_of_ascii "packet A {
    u8 x `a
b`,
}")).
Eval vm_compute in ("<<<M819>>>" ++ check (runes_of_ascii "  packet
repeatCount  {}

")).
Eval vm_compute in ("<<<M2089>>>" ++ check (runes_of_ascii "MetaData A @{ u64 pack, }")).
Eval vm_compute in ("<<<M2049>>>" ++ check (runes_of_ascii "A MetaData { u64 pack, }")).
Eval vm_compute in ("<<<M4276>>>" ++ check (runes_of_ascii "
options  {	}	/// triple")).
Eval vm_compute in ("<<<M1299>>>" ++ check (runes_of_ascii "  packet f32a {
    }
")).
Eval vm_compute in ("<<<M2698>>>" ++ check (runes_of_ascii "`" ++ [233]%N ++ runes_of_ascii "` int16 [ ( options")).
Eval vm_compute in ("<<<M4115>>>" ++ check (runes_of_ascii "MetaData
    As{ }

")).
Eval vm_compute in ("<<<M914>>>" ++ check (runes_of_ascii "packet
    As { }
")).
Eval vm_compute in ("<<<M3101>>>" ++ check (runes_of_ascii "packet A {
}
// c" ++ [8233]%N)).
Eval vm_compute in ("<<<M2644>>>" ++ check (runes_of_ascii "MetaData M { x, }")).
Eval vm_compute in ("<<<M1975>>>" ++ check (runes_of_ascii "root
packet crc")).
Eval vm_compute in ("<<<M3156>>>" ++ check (runes_of_ascii "packet A {
}


")).
Eval vm_compute in ("<<<M1914>>>" ++ check (runes_of_ascii "
packet	As {")).
Eval vm_compute in ("<<<M2634>>>" ++ check (runes_of_ascii "packet A }")).
Eval vm_compute in ("<<<M1904>>>" ++ check (runes_of_ascii "
packet")).
Eval vm_compute in ("<<<M2512>>>" ++ check (runes_of_ascii """a\b""")).
Eval vm_compute in ("<<<M2701>>>" ++ check (runes_of_ascii "{ : =")).
Eval vm_compute in ("<<<M2488>>>" ++ check (runes_of_ascii "@tag")).
Eval vm_compute in ("<<<M2515>>>" ++ check (runes_of_ascii """`""")).
Eval vm_compute in ("<<<M2517>>>" ++ check (runes_of_ascii "``")).
Eval vm_compute in ("<<<M2685>>>" ++ check ([0]%N)).
